import Bptk.Core.C18
/-!
C18 — property theorems.  Quantifier: every stop time, every list of concurrent requests (any number of
threads, any `numberSteps`), every schedule (`List (thread id × event)`), unbounded.
-/
namespace Bptk.C18

def sumLen (ths : List Thread) : Nat := (ths.map (fun t => t.res.length)).sum

/-- The full property for configuration `c`, on the state reached by an arbitrary schedule (every prefix of
a schedule is a schedule, so the clauses hold in every intermediate state as well). -/
def C18_full (c : Cfg) : Prop :=
  ∀ (stop : Nat) (ks : List Kind) (sched : Schedule),
    let s := run c (State.init stop ks) sched
    -- (a) mutual exclusion between acquire and release
    (∀ (i j : Nat) (ti tj : Thread), s.ths[i]? = some ti → s.ths[j]? = some tj → ti.holds = true → tj.holds = true → i = j) ∧
    -- (b) while a request holds the lock no other request is past its lock test …
    (∀ (i j : Nat) (ti tj : Thread), s.ths[i]? = some ti → s.ths[j]? = some tj → i ≠ j → ti.holds = true → tj.pc.active = false) ∧
    -- (b') … and the next action of any other unfinished request is its refusal, with an empty response
    (∀ (i j : Nat) (ti tj tj' : Thread), s.ths[i]? = some ti → s.ths[j]? = some tj → i ≠ j → ti.holds = true → tj.pc ≠ .done →
        (step c s (j, .go)).1.ths[j]? = some tj' → tj'.st = .refused ∧ tj'.pc = .done ∧ tj'.res = []) ∧
    -- (c) every response contains consecutive steps
    (∀ t ∈ s.ths, t.res = List.range' (t.res.headD 0) t.res.length) ∧
    -- (d) no simulation time is produced twice
    s.sh.produced.Nodup ∧
    -- (e) the session clock advanced by exactly the number of steps returned
    s.sh.clock = sumLen s.ths ∧
    -- (f) the lock is taken only while some unfinished request holds it: free after every terminating request
    (s.sh.lock = true → ∃ t ∈ s.ths, t.holds = true) ∧ (∀ t ∈ s.ths, t.pc = .done → t.holds = false)

/-! ### The clauses of `C18_full` one by one (wave 2): which mechanism facts each of them needs -/

/-- (a), (b), (b'): mutual exclusion and refusal of every other request while one holds the lock. -/
def ClMutex (c : Cfg) (s : State) : Prop :=
  (∀ (i j : Nat) (ti tj : Thread), s.ths[i]? = some ti → s.ths[j]? = some tj → ti.holds = true → tj.holds = true → i = j) ∧
  (∀ (i j : Nat) (ti tj : Thread), s.ths[i]? = some ti → s.ths[j]? = some tj → i ≠ j → ti.holds = true → tj.pc.active = false) ∧
  (∀ (i j : Nat) (ti tj tj' : Thread), s.ths[i]? = some ti → s.ths[j]? = some tj → i ≠ j → ti.holds = true → tj.pc ≠ .done →
      (step c s (j, .go)).1.ths[j]? = some tj' → tj'.st = .refused ∧ tj'.pc = .done ∧ tj'.res = [])

/-- (c), (d), (e): consecutive steps per response, no time twice, clock = number of steps returned. -/
def ClConsec (s : State) : Prop :=
  (∀ t ∈ s.ths, t.res = List.range' (t.res.headD 0) t.res.length) ∧
  s.sh.produced.Nodup ∧
  s.sh.clock = sumLen s.ths

/-- (f): the lock is set only while a request holds it, and a finished request holds nothing. -/
def ClRelease (s : State) : Prop :=
  (s.sh.lock = true → ∃ t ∈ s.ths, t.holds = true) ∧ (∀ t ∈ s.ths, t.pc = .done → t.holds = false)

theorem C18_full_iff (c : Cfg) :
    C18_full c ↔ ∀ (stop : Nat) (ks : List Kind) (sched : Schedule),
      ClMutex c (run c (State.init stop ks) sched) ∧ ClConsec (run c (State.init stop ks) sched) ∧
      ClRelease (run c (State.init stop ks) sched) := by
  constructor
  · intro h stop ks sched
    obtain ⟨a, b, b', d, e, f, g1, g2⟩ := h stop ks sched
    exact ⟨⟨a, b, b'⟩, ⟨d, e, f⟩, ⟨g1, g2⟩⟩
  · intro h stop ks sched
    obtain ⟨⟨a, b, b'⟩, ⟨d, e, f⟩, ⟨g1, g2⟩⟩ := h stop ks sched
    exact ⟨a, b, b', d, e, f, g1, g2⟩

/-! ### Invariant of the exclusion part (needs only `mutexOk`: nothing about release) -/

/-- per-thread invariant relative to the shared state and the (ghost) owner of the lock.  A request that has
ended without releasing (a release fact is false) simply stays the owner for ever. -/
structure TInv (sh : Shared) (o : Option Nat) (i : Nat) (t : Thread) : Prop where
  own : t.holds = true ↔ o = some i
  preFree : t.pc.pre = true → t.holds = false ∧ t.res = []
  actHolds : t.pc.active = true → t.holds = true
  consec : t.res = List.range' t.base t.res.length
  cur : t.holds = true → t.base + t.res.length = sh.clock
  locCur : (t.pc = .sim ∨ t.pc = .write) → t.loc = sh.clock
  suspOk : t.susp = true → t.pc ≠ .done → (t.pc = .genStart ∨ t.holds = true)
  noGen : t.pc ≠ .genStart

structure Inv (s : State) : Prop where
  ex : ∃ o : Option Nat, s.sh.lock = o.isSome ∧ (∀ i t, s.ths[i]? = some t → TInv s.sh o i t) ∧
    (∀ i, o = some i → i < s.ths.length)
  prod : s.sh.produced = List.range s.sh.clock
  sum : sumLen s.ths = s.sh.clock

theorem inv_init (stop : Nat) (ks : List Kind) : Inv (State.init stop ks) := by
  refine ⟨⟨none, rfl, ?_, by simp⟩, rfl, ?_⟩
  · intro i t h
    simp only [State.init, List.getElem?_map, Option.map_eq_some_iff] at h
    obtain ⟨k, _, rfl⟩ := h
    constructor <;> simp [Thread.mk', Pc.pre, Pc.active]
  · simp only [State.init, sumLen, List.map_map]
    induction ks with
    | nil => rfl
    | cons k rest ih => simpa [Thread.mk'] using ih

/-- other threads keep their invariant when thread `i` moves: either nothing they depend on changed, or
`i` was/becomes the owner (then they do not hold the lock, and everything about the clock is vacuous). -/
theorem TInv_frame {sh sh' : Shared} {o o' : Option Nat} {i j : Nat} {t : Thread}
    (h : TInv sh o j t) (hij : j ≠ i)
    (hc : sh'.clock = sh.clock ∨ o = some i)
    (ho : o' = o ∨ ((o = none ∨ o = some i) ∧ (o' = none ∨ o' = some i))) : TInv sh' o' j t := by
  have hnot : (o = none ∨ o = some i) → t.holds = false := by
    intro h1
    cases hh : t.holds with
    | false => rfl
    | true =>
      have := h.own.mp hh
      rcases h1 with h1 | h1 <;> simp_all
  have hown' : t.holds = true ↔ o' = some j := by
    rcases ho with rfl | ⟨h1, h2⟩
    · exact h.own
    · have := hnot h1
      constructor
      · intro hh; simp_all
      · intro hh; rcases h2 with h2 | h2 <;> simp_all
  refine ⟨hown', h.preFree, h.actHolds, h.consec, ?_, ?_, h.suspOk, h.noGen⟩
  · intro hh
    rcases hc with hc | hc
    · rw [hc]; exact h.cur hh
    · have := hnot (Or.inr hc); simp_all
  · intro hp
    rcases hc with hc | hc
    · rw [hc]; exact h.locCur hp
    · have h1 := hnot (Or.inr hc)
      have h2 := h.actHolds (by rcases hp with hp | hp <;> simp [hp, Pc.active])
      simp_all

theorem range'_snoc (b n : Nat) : List.range' b n ++ [b + n] = List.range' b (n + 1) := by
  rw [List.range'_concat]; simp

/-- the owner after a transition of thread `i`. -/
def newOwner (o : Option Nat) (i : Nat) (t t' : Thread) : Option Nat :=
  if t'.holds then some i else if t.holds then none else o

theorem TInv_iff (sh : Shared) (o : Option Nat) (i : Nat) (t : Thread) :
    TInv sh o i t ↔
      ((t.holds = true ↔ o = some i) ∧ (t.pc.pre = true → t.holds = false ∧ t.res = []) ∧
       (t.pc.active = true → t.holds = true) ∧
       (t.res = List.range' t.base t.res.length) ∧ (t.holds = true → t.base + t.res.length = sh.clock) ∧
       ((t.pc = .sim ∨ t.pc = .write) → t.loc = sh.clock) ∧
       (t.susp = true → t.pc ≠ .done → (t.pc = .genStart ∨ t.holds = true)) ∧ t.pc ≠ .genStart) :=
  ⟨fun h => ⟨h.1, h.2, h.3, h.4, h.5, h.6, h.7, h.8⟩, fun h => ⟨h.1, h.2.1, h.2.2.1, h.2.2.2.1, h.2.2.2.2.1,
    h.2.2.2.2.2.1, h.2.2.2.2.2.2.1, h.2.2.2.2.2.2.2⟩⟩

/-- What one transition of thread `i` does to the invariant (configuration with `mutexOk`). -/
def Spec (sh : Shared) (o : Option Nat) (i : Nat) (t : Thread) (r : Shared × Thread × Lbl) : Prop :=
    r.1.lock = (newOwner o i t r.2.1).isSome ∧
    TInv r.1 (newOwner o i t r.2.1) i r.2.1 ∧
    (r.1.clock = sh.clock ∨ o = some i) ∧
    (newOwner o i t r.2.1 = o ∨ ((o = none ∨ o = some i) ∧ (newOwner o i t r.2.1 = none ∨ newOwner o i t r.2.1 = some i))) ∧
    ((r.1.clock = sh.clock ∧ r.1.produced = sh.produced ∧ r.2.1.res.length = t.res.length) ∨
     (r.1.clock = sh.clock + 1 ∧ r.1.produced = sh.produced ++ [sh.clock] ∧ r.2.1.res.length = t.res.length + 1))

theorem mutexOk_iff (c : Cfg) :
    c.mutexOk = true ↔ c.lockIsTestAndSet = true ∧ c.runStepTakesLock = true ∧ c.refusalKeepsLock = true := by
  simp [Cfg.mutexOk, and_assoc]

theorem releaseOk_iff (c : Cfg) :
    c.releaseOk = true ↔ c.streamUnlocksOnDone = true ∧ c.unlockOnError = true ∧ c.unlockOnClientGone = true := by
  simp [Cfg.releaseOk, and_assoc]

theorem good_iff (c : Cfg) : c.good = true ↔ c.mutexOk = true ∧ c.releaseOk = true := by
  simp [Cfg.good]

theorem stepT_spec (c : Cfg) (hc : c.mutexOk = true) (sh : Shared) (o : Option Nat) (i : Nat) (t : Thread) (ev : Ev)
    (hl : sh.lock = o.isSome) (ht : TInv sh o i t) : Spec sh o i t (stepT c sh t ev) := by
  obtain ⟨a, b, d, e, f, g⟩ := c
  obtain ⟨h1, h2, h3⟩ := (mutexOk_iff _).mp hc
  simp only at h1 h2 h3
  subst h1 h2 h3
  obtain ⟨h1, h2, h3, h5, h6, h7, h8, h9⟩ := ht
  obtain ⟨kind, pc, st, rem, first, loc, res, msgs, susp, holds, base⟩ := t
  obtain ⟨lock, clock, stop, produced⟩ := sh
  simp only at h1 h2 h3 h5 h6 h7 h8 h9 hl
  cases ev
  · cases pc
    case start =>
      cases lock <;> cases kind <;> by_cases hr0 : rem = 0 <;>
        simp [Spec, TInv_iff, stepT, stepGo, readLock, testAndSet, refuse, acquired, newOwner, Pc.pre, Pc.active, hr0] at * <;> grind
    case checked =>
      cases lock <;> cases kind <;> by_cases hr0 : rem = 0 <;>
        simp [Spec, TInv_iff, stepT, stepGo, testAndSet, refuse, acquired, newOwner, Pc.pre, Pc.active, hr0] at * <;> grind
    case genStart => simp at h9
    case prog =>
      by_cases hcs : clock ≤ stop <;> cases first <;>
        simp [Spec, TInv_iff, stepT, stepGo, newOwner, Pc.pre, Pc.active, hcs] at * <;> grind
    case read =>
      by_cases hcs : clock ≤ stop <;> by_cases hr1 : rem ≤ 1 <;> cases kind <;>
        simp [Spec, TInv_iff, stepT, stepGo, afterStep, newOwner, Pc.pre, Pc.active, hcs, hr1] at * <;> grind
    case write =>
      have hsn := range'_snoc base res.length
      by_cases hr1 : rem ≤ 1 <;> cases kind <;>
        simp [Spec, TInv_iff, stepT, stepGo, afterStep, newOwner, Pc.pre, Pc.active, hr1] at * <;> grind
    case ending =>
      cases d <;> simp [Spec, TInv_iff, stepT, stepGo, newOwner, Pc.pre, Pc.active] at * <;> grind
    all_goals
      simp [Spec, TInv_iff, stepT, stepGo, newOwner, Pc.pre, Pc.active] at * <;> grind
  · cases e <;> cases pc <;> cases kind <;>
      simp [Spec, TInv_iff, stepT, stepFail, newOwner, Pc.pre, Pc.active] at * <;> grind
  · cases f <;> cases susp <;> cases pc <;>
      simp [Spec, TInv_iff, stepT, stepGone, newOwner, Pc.pre, Pc.active] at * <;> grind

theorem sumLen_set (ths : List Thread) (i : Nat) (t t' : Thread) (h : ths[i]? = some t) :
    sumLen (ths.set i t') + t.res.length = sumLen ths + t'.res.length := by
  induction ths generalizing i with
  | nil => simp at h
  | cons x rest ih =>
    cases i with
    | zero => simp at h; subst h; simp [sumLen]; omega
    | succ n =>
      simp at h
      have := ih n h
      simp [sumLen] at this ⊢; omega

theorem inv_step (c : Cfg) (hc : c.mutexOk = true) (s : State) (a : Nat × Ev) (h : Inv s) : Inv (step c s a).1 := by
  unfold step
  cases hget : s.ths[a.1]? with
  | none => exact h
  | some t =>
    obtain ⟨o, hl, hall, hex⟩ := h.ex
    obtain ⟨s1, s2, s3, s4, s5⟩ := stepT_spec c hc s.sh o a.1 t a.2 hl (hall _ _ hget)
    have hlen : a.1 < s.ths.length := by
      have := List.getElem?_eq_some_iff.mp hget; exact this.1
    refine ⟨⟨newOwner o a.1 t (stepT c s.sh t a.2).2.1, s1, ?_, ?_⟩, ?_, ?_⟩
    · intro j tj hj
      simp only [List.getElem?_set] at hj
      by_cases hij : a.1 = j
      · subst hij
        simp [hlen] at hj
        subst hj; exact s2
      · simp [hij] at hj
        exact TInv_frame (hall _ _ hj) (fun h => hij h.symm) s3 s4
    · intro j hj
      simp only [List.length_set]
      unfold newOwner at hj
      split at hj
      · simp at hj; omega
      · split at hj
        · simp at hj
        · exact hex j hj
    · show (stepT c s.sh t a.2).1.produced = List.range (stepT c s.sh t a.2).1.clock
      rcases s5 with ⟨e1, e2, _⟩ | ⟨e1, e2, _⟩
      · rw [e1, e2]; exact h.prod
      · rw [e1, e2, h.prod, List.range_succ]
    · show sumLen (s.ths.set a.1 (stepT c s.sh t a.2).2.1) = (stepT c s.sh t a.2).1.clock
      have hs := sumLen_set s.ths a.1 t (stepT c s.sh t a.2).2.1 hget
      have := h.sum
      rcases s5 with ⟨e1, _, e3⟩ | ⟨e1, _, e3⟩ <;> omega

theorem inv_run (c : Cfg) (hc : c.mutexOk = true) (sched : Schedule) : ∀ s, Inv s → Inv (run c s sched) := by
  induction sched with
  | nil => intro s h; exact h
  | cons a rest ih => intro s h; exact ih _ (inv_step c hc s a h)

theorem inv_reachable (c : Cfg) (hc : c.mutexOk = true) (stop : Nat) (ks : List Kind) (sched : Schedule) :
    Inv (run c (State.init stop ks) sched) := inv_run c hc sched _ (inv_init stop ks)

theorem consec_head (b : Nat) (l : List Nat) (h : l = List.range' b l.length) :
    l = List.range' (l.headD 0) l.length := by
  cases l with
  | nil => rfl
  | cons x rest =>
    simp only [List.length_cons, List.range'_succ, List.cons.injEq] at h
    simp only [List.headD_cons]
    obtain ⟨rfl, h2⟩ := h
    simpa [List.range'_succ] using h2

/-- a request that has not passed its lock test is refused by its next action when the lock is taken. -/
theorem refused_when_locked (c : Cfg) (hc : c.mutexOk = true) (sh : Shared) (t : Thread) (hl : sh.lock = true)
    (hp : t.pc.pre = true) (hg : t.pc ≠ .genStart) (hr : t.res = []) :
    (stepT c sh t .go).2.1.st = .refused ∧ (stepT c sh t .go).2.1.pc = .done ∧ (stepT c sh t .go).2.1.res = [] := by
  obtain ⟨a, b, d, e, f, g⟩ := c
  obtain ⟨h1, h2, h3⟩ := (mutexOk_iff _).mp hc
  simp only at h1 h2 h3
  subst h1 h2 h3
  obtain ⟨kind, pc, st, rem, first, loc, res, msgs, susp, holds, base⟩ := t
  simp only at hp hg hr
  cases pc <;> cases kind <;> simp [Pc.pre] at hp hg <;>
    simp [stepT, stepGo, readLock, testAndSet, refuse, hl, hr]

/-! ### Per-clause theorems (wave 2) -/

/-- **Mutual exclusion needs only `lockIsTestAndSet ∧ runStepTakesLock ∧ refusalKeepsLock`** — nothing about how
(or whether) the lock is ever released: (a) at most one request between acquire and release, (b) no other request
past its lock test, (b') every other unfinished request is refused by its next action with an empty response. -/
theorem C18_mutex (c : Cfg) (hc : c.mutexOk = true) (stop : Nat) (ks : List Kind) (sched : Schedule) :
    ClMutex c (run c (State.init stop ks) sched) := by
  generalize hs : run c (State.init stop ks) sched = s
  have hinv : Inv s := hs ▸ inv_reachable c hc stop ks sched
  obtain ⟨o, hl, hall, hex⟩ := hinv.ex
  have mutex : ∀ (i j : Nat) (ti tj : Thread), s.ths[i]? = some ti → s.ths[j]? = some tj →
      ti.holds = true → tj.holds = true → i = j := by
    intro i j ti tj hi hj h1 h2
    have a := (hall i ti hi).own.mp h1
    have b := (hall j tj hj).own.mp h2
    rw [a] at b; exact Option.some.inj b
  refine ⟨mutex, ?_, ?_⟩
  · intro i j ti tj hi hj hne h1
    cases hact : tj.pc.active with
    | false => rfl
    | true => exact absurd (mutex i j ti tj hi hj h1 ((hall j tj hj).actHolds hact)) hne
  · intro i j ti tj tj' hi hj hne h1 hnd hstep
    have hjnot : tj.holds = false := by
      cases hh : tj.holds with
      | false => rfl
      | true => exact absurd (mutex i j ti tj hi hj h1 hh) hne
    have hjinv := hall j tj hj
    have hpre : tj.pc.pre = true := by
      have hna : tj.pc.active = false := by
        cases hact : tj.pc.active with
        | false => rfl
        | true => have := hjinv.actHolds hact; simp [hjnot] at this
      revert hna hnd; cases tj.pc <;> simp [Pc.pre, Pc.active]
    have hlock : s.sh.lock = true := by
      rw [hl, (hall i ti hi).own.mp h1]; rfl
    have hlen : j < s.ths.length := (List.getElem?_eq_some_iff.mp hj).1
    simp only [step, hj, List.getElem?_set, hlen] at hstep
    simp at hstep
    subst hstep
    exact refused_when_locked c hc s.sh tj hlock hpre hjinv.noGen (hjinv.preFree hpre).2

/-- **Consecutive steps / no time twice / clock = steps returned need the same three facts** (and again nothing
about release: a request that ended without unlocking blocks everybody, which keeps the clock consistent). -/
theorem C18_consecutive (c : Cfg) (hc : c.mutexOk = true) (stop : Nat) (ks : List Kind) (sched : Schedule) :
    ClConsec (run c (State.init stop ks) sched) := by
  generalize hs : run c (State.init stop ks) sched = s
  have hinv : Inv s := hs ▸ inv_reachable c hc stop ks sched
  obtain ⟨o, hl, hall, hex⟩ := hinv.ex
  refine ⟨?_, ?_, ?_⟩
  · intro t ht
    obtain ⟨i, hi⟩ := List.getElem?_of_mem ht
    exact consec_head _ _ (hall i t hi).consec
  · rw [hinv.prod]; exact List.nodup_range
  · exact hinv.sum.symm

/-! #### Release: a thread-local invariant (needs only the three release facts) and a lock/holder invariant
that needs nothing -/

/-- thread-local: who has not acquired or has finished holds nothing. -/
structure RInv (c : Cfg) (t : Thread) : Prop where
  preFree : t.pc.pre = true → t.holds = false
  doneFree : t.pc = .done → t.holds = false
  stepFree : t.kind = .runStep → c.runStepTakesLock = false →
    t.holds = false ∧ t.pc ≠ .checked ∧ t.pc ≠ .genStart

theorem RInv_iff (c : Cfg) (t : Thread) :
    RInv c t ↔ ((t.pc.pre = true → t.holds = false) ∧ (t.pc = .done → t.holds = false) ∧
      (t.kind = .runStep → c.runStepTakesLock = false → t.holds = false ∧ t.pc ≠ .checked ∧ t.pc ≠ .genStart)) :=
  ⟨fun h => ⟨h.1, h.2, h.3⟩, fun h => ⟨h.1, h.2.1, h.2.2⟩⟩

theorem rel_stepT (c : Cfg) (hc : c.releaseOk = true) (sh : Shared) (t : Thread) (ev : Ev) (h : RInv c t) :
    RInv c (stepT c sh t ev).2.1 := by
  obtain ⟨a, b, d, e, f, g⟩ := c
  obtain ⟨h1, h2, h3⟩ := (releaseOk_iff _).mp hc
  simp only at h1 h2 h3
  subst h1 h2 h3
  obtain ⟨p1, p2, p3⟩ := h
  obtain ⟨kind, pc, st, rem, first, loc, res, msgs, susp, holds, base⟩ := t
  obtain ⟨lock, clock, stop, produced⟩ := sh
  simp only at p1 p2 p3
  cases ev
  · cases pc
    case start =>
      cases a <;> cases b <;> cases g <;> cases lock <;> cases kind <;> by_cases hr0 : rem = 0 <;>
        simp [RInv_iff, stepT, stepGo, readLock, testAndSet, refuse, refuseRel, acquired, Pc.pre, hr0] at * <;> grind
    case checked =>
      cases a <;> cases b <;> cases g <;> cases lock <;> cases kind <;> by_cases hr0 : rem = 0 <;>
        simp [RInv_iff, stepT, stepGo, setLock, testAndSet, refuse, refuseRel, acquired, Pc.pre, hr0] at * <;> grind
    case genStart =>
      cases b <;> cases kind <;> by_cases hr0 : rem = 0 <;>
        simp [RInv_iff, stepT, stepGo, setLock, acquired, Pc.pre, hr0] at * <;> grind
    case prog =>
      by_cases hcs : clock ≤ stop <;> cases first <;>
        simp [RInv_iff, stepT, stepGo, Pc.pre, hcs] at * <;> grind
    case read =>
      cases b <;> by_cases hcs : clock ≤ stop <;> by_cases hr1 : rem ≤ 1 <;> cases kind <;>
        simp [RInv_iff, stepT, stepGo, afterStep, Pc.pre, hcs, hr1] at * <;> grind
    case write =>
      cases b <;> by_cases hr1 : rem ≤ 1 <;> cases kind <;>
        simp [RInv_iff, stepT, stepGo, afterStep, Pc.pre, hr1] at * <;> grind
    all_goals
      simp [RInv_iff, stepT, stepGo, Pc.pre] at * <;> grind
  · cases b <;> cases pc <;> cases kind <;>
      simp [RInv_iff, stepT, stepFail, Pc.pre] at * <;> grind
  · cases susp <;> cases pc <;>
      simp [RInv_iff, stepT, stepGone, Pc.pre] at * <;> grind

theorem rel_init (c : Cfg) (stop : Nat) (ks : List Kind) : ∀ t ∈ (State.init stop ks).ths, RInv c t := by
  intro t ht
  simp only [State.init, List.mem_map] at ht
  obtain ⟨k, _, rfl⟩ := ht
  constructor <;> simp [Thread.mk', Pc.pre]

theorem rel_step (c : Cfg) (hc : c.releaseOk = true) (s : State) (a : Nat × Ev) (h : ∀ t ∈ s.ths, RInv c t) :
    ∀ t ∈ (step c s a).1.ths, RInv c t := by
  unfold step
  cases hget : s.ths[a.1]? with
  | none => exact h
  | some t0 =>
    intro t ht
    rcases List.mem_or_eq_of_mem_set ht with h1 | h1
    · exact h t h1
    · subst h1
      exact rel_stepT c hc s.sh t0 a.2 (h t0 (List.mem_of_getElem? hget))

theorem rel_run (c : Cfg) (hc : c.releaseOk = true) (sched : Schedule) :
    ∀ s, (∀ t ∈ s.ths, RInv c t) → ∀ t ∈ (run c s sched).ths, RInv c t := by
  induction sched with
  | nil => intro s h; exact h
  | cons a rest ih => intro s h; exact ih _ (rel_step c hc s a h)

/-- whatever the configuration: a transition that leaves the lock set either made its own thread a holder or
found the lock set and did not change whether its thread holds. -/
theorem stepT_lock (c : Cfg) (sh : Shared) (t : Thread) (ev : Ev) :
    (stepT c sh t ev).1.lock = true →
      (stepT c sh t ev).2.1.holds = true ∨ (sh.lock = true ∧ (stepT c sh t ev).2.1.holds = t.holds) := by
  obtain ⟨kind, pc, st, rem, first, loc, res, msgs, susp, holds, base⟩ := t
  obtain ⟨lock, clock, stop, produced⟩ := sh
  cases ev
  · cases pc <;> cases kind <;>
      simp [stepT, stepGo, readLock, testAndSet, setLock, refuse, refuseRel, acquired, afterStep] <;> grind
  · simp only [stepT, stepFail]; grind
  · simp only [stepT, stepGone]; grind

/-- the lock flag is never set without a request between acquire and release (index form). -/
def LInv (s : State) : Prop := s.sh.lock = true → ∃ (i : Nat) (t : Thread), s.ths[i]? = some t ∧ t.holds = true

theorem lock_step (c : Cfg) (s : State) (a : Nat × Ev) (h : LInv s) : LInv (step c s a).1 := by
  unfold step
  cases hget : s.ths[a.1]? with
  | none => exact h
  | some t0 =>
    unfold LInv at h ⊢
    intro hl
    have hlen : a.1 < s.ths.length := (List.getElem?_eq_some_iff.mp hget).1
    have hnew : (s.ths.set a.1 (stepT c s.sh t0 a.2).2.1)[a.1]? = some (stepT c s.sh t0 a.2).2.1 := by
      simp [hlen]
    rcases stepT_lock c s.sh t0 a.2 hl with h1 | ⟨h1, h2⟩
    · exact ⟨a.1, _, hnew, h1⟩
    · obtain ⟨j, tj, hj, hh⟩ := h h1
      by_cases hij : a.1 = j
      · subst hij
        rw [hget] at hj
        cases hj
        exact ⟨a.1, _, hnew, by rw [h2]; exact hh⟩
      · refine ⟨j, tj, ?_, hh⟩
        show (s.ths.set a.1 (stepT c s.sh t0 a.2).2.1)[j]? = some tj
        rw [List.getElem?_set_ne hij]; exact hj

theorem lock_run (c : Cfg) (sched : Schedule) : ∀ s, LInv s → LInv (run c s sched) := by
  induction sched with
  | nil => intro s h; exact h
  | cons a rest ih => intro s h; exact ih _ (lock_step c s a h)

theorem lock_has_holder (c : Cfg) (stop : Nat) (ks : List Kind) (sched : Schedule) :
    (run c (State.init stop ks) sched).sh.lock = true →
      ∃ t ∈ (run c (State.init stop ks) sched).ths, t.holds = true := by
  intro hl
  have h0 : LInv (State.init stop ks) := by unfold LInv; intro h; simp [State.init] at h
  have h1 := lock_run c sched _ h0
  unfold LInv at h1
  obtain ⟨i, t, hi, hh⟩ := h1 hl
  exact ⟨t, List.mem_of_getElem? hi, hh⟩

/-- **Release needs only `streamUnlocksOnDone ∧ unlockOnError ∧ unlockOnClientGone`** — whatever the
acquisition discipline (check-then-act, run-step not locking, a refused request unlocking): a request that has
ended (completion, error, client gone, refusal) holds nothing, and the flag is set only while some request is
between acquire and release. -/
theorem C18_release (c : Cfg) (hc : c.releaseOk = true) (stop : Nat) (ks : List Kind) (sched : Schedule) :
    ClRelease (run c (State.init stop ks) sched) :=
  ⟨lock_has_holder c stop ks sched,
   fun t ht hd => (rel_run c hc sched _ (rel_init c stop ks) t ht).doneFree hd⟩

theorem C18_full_of_good (c : Cfg) (hc : c.good = true) : C18_full c := by
  obtain ⟨hm, hr⟩ := (good_iff c).mp hc
  exact (C18_full_iff c).mpr fun stop ks sched =>
    ⟨C18_mutex c hm stop ks sched, C18_consecutive c hm stop ks sched, C18_release c hr stop ks sched⟩

/-! ### What holds whatever the configuration -/

theorem stepT_len (c : Cfg) (sh : Shared) (t : Thread) (ev : Ev) :
    (stepT c sh t ev).2.1.res.length + sh.produced.length = t.res.length + (stepT c sh t ev).1.produced.length := by
  obtain ⟨kind, pc, st, rem, first, loc, res, msgs, susp, holds, base⟩ := t
  cases ev
  · cases pc <;> cases kind <;>
      simp [stepT, stepGo, readLock, testAndSet, setLock, refuse, refuseRel, acquired, afterStep] <;> grind
  · simp only [stepT, stepFail]; grind
  · simp only [stepT, stepGone]; grind

/-- every transition appends the same (empty or one-element) list to the log and to its thread's response. -/
theorem stepT_res (c : Cfg) (sh : Shared) (t : Thread) (ev : Ev) :
    ∃ l, (stepT c sh t ev).2.1.res = t.res ++ l ∧ (stepT c sh t ev).1.produced = sh.produced ++ l := by
  obtain ⟨kind, pc, st, rem, first, loc, res, msgs, susp, holds, base⟩ := t
  cases ev
  · cases pc
    case write =>
      refine ⟨[loc], ?_, ?_⟩ <;> cases kind <;> simp [stepT, stepGo, afterStep] <;> grind
    all_goals
      refine ⟨[], ?_, ?_⟩ <;> cases kind <;>
        simp [stepT, stepGo, readLock, testAndSet, setLock, refuse, refuseRel, acquired, afterStep] <;> grind
  · refine ⟨[], ?_, ?_⟩ <;> simp only [stepT, stepFail] <;> grind
  · refine ⟨[], ?_, ?_⟩ <;> simp only [stepT, stepGone] <;> grind

/-- the discipline between the simulation call and the write of its result, per transition and whatever the
configuration: a `WS` is performed only from the state `write`, it logs the time read by that request and appends
it to that request's response, and it leaves the state; nothing else touches the log or a response; the state
`write` is entered only by that same request's `SIM` — each produced time comes from exactly one simulation call
of the request that returns it. -/
theorem sim_write_discipline (c : Cfg) (sh : Shared) (t : Thread) (ev : Ev) :
    ((stepT c sh t ev).2.2 = .WS → t.pc = .write ∧ ev = .go ∧ (stepT c sh t ev).2.1.pc ≠ .write ∧
        (stepT c sh t ev).1.produced = sh.produced ++ [t.loc] ∧ (stepT c sh t ev).2.1.res = t.res ++ [t.loc]) ∧
    ((stepT c sh t ev).2.2 ≠ .WS → (stepT c sh t ev).1.produced = sh.produced ∧ (stepT c sh t ev).2.1.res = t.res) ∧
    ((stepT c sh t ev).2.1.pc = .write →
        (t.pc = .write ∧ (stepT c sh t ev).2.2 = .NOOP) ∨ (t.pc = .sim ∧ ev = .go ∧ (stepT c sh t ev).2.2 = .SIM)) := by
  obtain ⟨kind, pc, st, rem, first, loc, res, msgs, susp, holds, base⟩ := t
  cases ev
  · cases pc <;> cases kind <;>
      simp [stepT, stepGo, readLock, testAndSet, setLock, refuse, refuseRel, acquired, afterStep] <;> grind
  · simp only [stepT, stepFail]; grind
  · simp only [stepT, stepGone]; grind

def allRes (ths : List Thread) : List Nat := ths.flatMap (fun t => t.res)

theorem allRes_set (ths : List Thread) (i : Nat) (t t' : Thread) (l : List Nat) (h : ths[i]? = some t)
    (h' : t'.res = t.res ++ l) : (allRes (ths.set i t')).Perm (allRes ths ++ l) := by
  induction ths generalizing i with
  | nil => simp at h
  | cons x rest ih =>
    cases i with
    | zero =>
      simp at h; subst h
      simp only [List.set_cons_zero, allRes, List.flatMap_cons, h', List.append_assoc]
      exact List.Perm.append_left _ List.perm_append_comm
    | succ n =>
      simp at h
      have := ih n h
      simp only [List.set_cons_succ, allRes, List.flatMap_cons, List.append_assoc] at this ⊢
      exact List.Perm.append_left _ this

/-- thread-local, whatever the configuration: before its lock test a request has an empty response; a refused
request has an empty response and is on its way out. -/
structure PInv (t : Thread) : Prop where
  preEmpty : t.pc.pre = true → t.res = [] ∧ t.msgs = 0
  refEmpty : t.st = .refused → t.res = [] ∧ t.msgs = 0 ∧ t.susp = false ∧ (t.pc = .done ∨ t.pc = .release)

theorem PInv_iff (t : Thread) :
    PInv t ↔ ((t.pc.pre = true → t.res = [] ∧ t.msgs = 0) ∧
      (t.st = .refused → t.res = [] ∧ t.msgs = 0 ∧ t.susp = false ∧ (t.pc = .done ∨ t.pc = .release))) :=
  ⟨fun h => ⟨h.1, h.2⟩, fun h => ⟨h.1, h.2⟩⟩

theorem p_stepT (c : Cfg) (sh : Shared) (t : Thread) (ev : Ev) (h : PInv t) : PInv (stepT c sh t ev).2.1 := by
  obtain ⟨a, b, d, e, f, g⟩ := c
  obtain ⟨p1, p2⟩ := h
  obtain ⟨kind, pc, st, rem, first, loc, res, msgs, susp, holds, base⟩ := t
  obtain ⟨lock, clock, stop, produced⟩ := sh
  simp only at p1 p2
  cases ev
  · cases pc
    case start =>
      cases a <;> cases b <;> cases g <;> cases lock <;> cases kind <;> by_cases hr0 : rem = 0 <;>
        simp [PInv_iff, stepT, stepGo, readLock, testAndSet, refuse, refuseRel, acquired, Pc.pre, hr0] at * <;> grind
    case checked =>
      cases a <;> cases g <;> cases lock <;> cases kind <;> by_cases hr0 : rem = 0 <;>
        simp [PInv_iff, stepT, stepGo, setLock, testAndSet, refuse, refuseRel, acquired, Pc.pre, hr0] at * <;> grind
    case genStart =>
      cases kind <;> by_cases hr0 : rem = 0 <;>
        simp [PInv_iff, stepT, stepGo, setLock, acquired, Pc.pre, hr0] at * <;> grind
    case prog =>
      by_cases hcs : clock ≤ stop <;> cases first <;>
        simp [PInv_iff, stepT, stepGo, Pc.pre, hcs] at * <;> grind
    case read =>
      cases b <;> by_cases hcs : clock ≤ stop <;> by_cases hr1 : rem ≤ 1 <;> cases kind <;>
        simp [PInv_iff, stepT, stepGo, afterStep, Pc.pre, hcs, hr1] at * <;> grind
    case write =>
      cases b <;> by_cases hr1 : rem ≤ 1 <;> cases kind <;>
        simp [PInv_iff, stepT, stepGo, afterStep, Pc.pre, hr1] at * <;> grind
    case ending =>
      cases d <;> simp [PInv_iff, stepT, stepGo, Pc.pre] at * <;> grind
    all_goals
      simp [PInv_iff, stepT, stepGo, Pc.pre] at * <;> grind
  · cases b <;> cases e <;> cases pc <;> cases kind <;>
      simp [PInv_iff, stepT, stepFail, Pc.pre] at * <;> grind
  · cases f <;> cases susp <;> cases pc <;>
      simp [PInv_iff, stepT, stepGone, Pc.pre] at * <;> grind

theorem p_step (c : Cfg) (s : State) (a : Nat × Ev) (h : ∀ t ∈ s.ths, PInv t) :
    ∀ t ∈ (step c s a).1.ths, PInv t := by
  unfold step
  cases hget : s.ths[a.1]? with
  | none => exact h
  | some t0 =>
    intro t ht
    rcases List.mem_or_eq_of_mem_set ht with h1 | h1
    · exact h t h1
    · subst h1
      exact p_stepT c s.sh t0 a.2 (h t0 (List.mem_of_getElem? hget))

theorem p_run (c : Cfg) (sched : Schedule) :
    ∀ s, (∀ t ∈ s.ths, PInv t) → ∀ t ∈ (run c s sched).ths, PInv t := by
  induction sched with
  | nil => intro s h; exact h
  | cons a rest ih => intro s h; exact ih _ (p_step c s a h)

/-- **Whatever the six facts say** (any locking discipline, any release behaviour), for every stop time, request
list and schedule:
(1) the responses together are exactly as long as the log of produced times (wave 1), and more precisely
(2) the log of produced times is a permutation of the concatenated responses: every time written to the results
    log is contained in exactly one response, once per write — a step result is never lost and never handed to
    two requests, even when requests interleave;
(3) a refused request has an empty response (no step result, no stop-time message);
(4) the lock flag is never set without a request between acquire and release. -/
theorem C18_partial (c : Cfg) (stop : Nat) (ks : List Kind) (sched : Schedule) :
    sumLen (run c (State.init stop ks) sched).ths = (run c (State.init stop ks) sched).sh.produced.length ∧
    (run c (State.init stop ks) sched).sh.produced.Perm (allRes (run c (State.init stop ks) sched).ths) ∧
    (∀ t ∈ (run c (State.init stop ks) sched).ths, t.st = .refused → t.res = [] ∧ t.msgs = 0) ∧
    ((run c (State.init stop ks) sched).sh.lock = true →
      ∃ t ∈ (run c (State.init stop ks) sched).ths, t.holds = true) := by
  refine ⟨?_, ?_, ?_, lock_has_holder c stop ks sched⟩
  · have one : ∀ (s : State) (a : Nat × Ev), sumLen s.ths = s.sh.produced.length →
        sumLen (step c s a).1.ths = (step c s a).1.sh.produced.length := by
      intro s a h
      unfold step
      cases hget : s.ths[a.1]? with
      | none => exact h
      | some t =>
        have h1 := stepT_len c s.sh t a.2
        have h2 := sumLen_set s.ths a.1 t (stepT c s.sh t a.2).2.1 hget
        show sumLen (s.ths.set a.1 (stepT c s.sh t a.2).2.1) = (stepT c s.sh t a.2).1.produced.length
        omega
    have gen : ∀ (sched : Schedule) (s : State), sumLen s.ths = s.sh.produced.length →
        sumLen (run c s sched).ths = (run c s sched).sh.produced.length := by
      intro sched
      induction sched with
      | nil => intro s h; exact h
      | cons a rest ih => intro s h; exact ih _ (one s a h)
    apply gen
    have := (inv_init stop ks).sum
    simpa [State.init] using this
  · have one : ∀ (s : State) (a : Nat × Ev), s.sh.produced.Perm (allRes s.ths) →
        (step c s a).1.sh.produced.Perm (allRes (step c s a).1.ths) := by
      intro s a h
      unfold step
      cases hget : s.ths[a.1]? with
      | none => exact h
      | some t =>
        obtain ⟨l, h1, h2⟩ := stepT_res c s.sh t a.2
        show (stepT c s.sh t a.2).1.produced.Perm (allRes (s.ths.set a.1 (stepT c s.sh t a.2).2.1))
        rw [h2]
        exact (List.Perm.append_right l h).trans (allRes_set s.ths a.1 t _ l hget h1).symm
    have gen : ∀ (sched : Schedule) (s : State), s.sh.produced.Perm (allRes s.ths) →
        (run c s sched).sh.produced.Perm (allRes (run c s sched).ths) := by
      intro sched
      induction sched with
      | nil => intro s h; exact h
      | cons a rest ih => intro s h; exact ih _ (one s a h)
    apply gen
    have : allRes (State.init stop ks).ths = [] := by
      simp only [State.init, allRes]
      induction ks with
      | nil => rfl
      | cons k rest ih => simp [Thread.mk']
    rw [this]; exact List.Perm.refl _
  · intro t ht hr
    have h0 : ∀ t ∈ (State.init stop ks).ths, PInv t := by
      intro t ht
      simp only [State.init, List.mem_map] at ht
      obtain ⟨k, _, rfl⟩ := ht
      constructor <;> simp [Thread.mk', Pc.pre]
    have := (p_run c sched _ h0 t ht).refEmpty hr
    exact ⟨this.1, this.2.1⟩

/-! #### A single request alone (whatever the configuration) -/

structure SInv (sh : Shared) (t : Thread) : Prop where
  preEmpty : t.pc.pre = true → t.res = []
  base0 : t.base = 0
  consec : t.res = List.range' 0 t.res.length
  cur : t.res.length = sh.clock
  locCur : (t.pc = .sim ∨ t.pc = .write) → t.loc = sh.clock
  prod : sh.produced = List.range sh.clock

theorem SInv_iff (sh : Shared) (t : Thread) :
    SInv sh t ↔ ((t.pc.pre = true → t.res = []) ∧ t.base = 0 ∧ t.res = List.range' 0 t.res.length ∧
      t.res.length = sh.clock ∧ ((t.pc = .sim ∨ t.pc = .write) → t.loc = sh.clock) ∧
      sh.produced = List.range sh.clock) :=
  ⟨fun h => ⟨h.1, h.2, h.3, h.4, h.5, h.6⟩, fun h => ⟨h.1, h.2.1, h.2.2.1, h.2.2.2.1, h.2.2.2.2.1, h.2.2.2.2.2⟩⟩

theorem solo_stepT (c : Cfg) (sh : Shared) (t : Thread) (ev : Ev) (h : SInv sh t) :
    SInv (stepT c sh t ev).1 (stepT c sh t ev).2.1 := by
  obtain ⟨a, b, d, e, f, g⟩ := c
  obtain ⟨p1, p2, p3, p4, p5, p6⟩ := h
  obtain ⟨kind, pc, st, rem, first, loc, res, msgs, susp, holds, base⟩ := t
  obtain ⟨lock, clock, stop, produced⟩ := sh
  simp only at p1 p2 p3 p4 p5 p6
  cases ev
  · cases pc
    case start =>
      cases a <;> cases b <;> cases g <;> cases lock <;> cases kind <;> by_cases hr0 : rem = 0 <;>
        simp [SInv_iff, stepT, stepGo, readLock, testAndSet, refuse, refuseRel, acquired, Pc.pre, hr0] at * <;> grind
    case checked =>
      cases a <;> cases g <;> cases lock <;> cases kind <;> by_cases hr0 : rem = 0 <;>
        simp [SInv_iff, stepT, stepGo, setLock, testAndSet, refuse, refuseRel, acquired, Pc.pre, hr0] at * <;> grind
    case genStart =>
      cases kind <;> by_cases hr0 : rem = 0 <;>
        simp [SInv_iff, stepT, stepGo, setLock, acquired, Pc.pre, hr0] at * <;> grind
    case prog =>
      by_cases hcs : clock ≤ stop <;> cases first <;>
        simp [SInv_iff, stepT, stepGo, Pc.pre, hcs] at * <;> grind
    case read =>
      cases b <;> by_cases hcs : clock ≤ stop <;> by_cases hr1 : rem ≤ 1 <;> cases kind <;>
        simp [SInv_iff, stepT, stepGo, afterStep, Pc.pre, hcs, hr1] at * <;> grind
    case write =>
      have hsn := range'_snoc 0 res.length
      have hrs := List.range_succ (n := clock)
      cases b <;> by_cases hr1 : rem ≤ 1 <;> cases kind <;>
        simp [SInv_iff, stepT, stepGo, afterStep, Pc.pre, hr1] at * <;> grind
    case ending =>
      cases d <;> simp [SInv_iff, stepT, stepGo, Pc.pre] at * <;> grind
    all_goals
      simp [SInv_iff, stepT, stepGo, Pc.pre] at * <;> grind
  · cases b <;> cases e <;> cases pc <;> cases kind <;>
      simp [SInv_iff, stepT, stepFail, Pc.pre] at * <;> grind
  · cases f <;> cases susp <;> cases pc <;>
      simp [SInv_iff, stepT, stepGone, Pc.pre] at * <;> grind

theorem solo_step (c : Cfg) (s : State) (a : Nat × Ev) (h : ∃ t, s.ths = [t] ∧ SInv s.sh t) :
    ∃ t, (step c s a).1.ths = [t] ∧ SInv (step c s a).1.sh t := by
  obtain ⟨t, h1, h2⟩ := h
  obtain ⟨sh, ths⟩ := s
  simp only at h1 h2
  subst h1
  rcases a with ⟨i, ev⟩
  cases i with
  | zero => exact ⟨_, rfl, solo_stepT c sh t ev h2⟩
  | succ n => exact ⟨t, rfl, h2⟩

theorem solo_run (c : Cfg) (sched : Schedule) :
    ∀ s, (∃ t, s.ths = [t] ∧ SInv s.sh t) → ∃ t, (run c s sched).ths = [t] ∧ SInv (run c s sched).sh t := by
  induction sched with
  | nil => intro s h; exact h
  | cons a rest ih => intro s h; exact ih _ (solo_step c s a h)

/-- **A single request alone satisfies every clause about exclusion and consecutive steps whatever the six facts
say** (none of the three acquisition defects shows without a second request); with the three release facts it
satisfies all of `C18_full`'s clauses (`C18_release`), and `C18_witness_stream_completion/_error/_client_gone`
show that each release fact is needed even for a single request. -/
theorem C18_solo (c : Cfg) (stop : Nat) (k : Kind) (sched : Schedule) :
    ClMutex c (run c (State.init stop [k]) sched) ∧ ClConsec (run c (State.init stop [k]) sched) := by
  have h0 : ∃ t, (State.init stop [k]).ths = [t] ∧ SInv (State.init stop [k]).sh t :=
    ⟨Thread.mk' k, rfl, by constructor <;> simp [Thread.mk', State.init, Pc.pre]⟩
  obtain ⟨t, h1, h2⟩ := solo_run c sched _ h0
  generalize run c (State.init stop [k]) sched = s at h1 h2
  have one : ∀ (i : Nat) (ti : Thread), s.ths[i]? = some ti → i = 0 := by
    intro i ti hi
    rw [h1] at hi
    cases i with
    | zero => rfl
    | succ n => simp at hi
  refine ⟨⟨?_, ?_, ?_⟩, ?_, ?_, ?_⟩
  · intro i j ti tj hi hj _ _; rw [one i ti hi, one j tj hj]
  · intro i j ti tj hi hj hne; exact absurd ((one i ti hi).trans (one j tj hj).symm) hne
  · intro i j ti tj tj' hi hj hne; exact absurd ((one i ti hi).trans (one j tj hj).symm) hne
  · intro t' ht'
    rw [h1] at ht'
    simp at ht'
    subst ht'
    exact consec_head 0 _ h2.consec
  · rw [h2.prod]; exact List.nodup_range
  · rw [h1]; simp [sumLen, h2.cur]

/-! ### Negation witnesses (one per mechanism fact) -/

theorem not_full_of_two_holders (c : Cfg) (stop : Nat) (ks : List Kind) (sched : Schedule) (i j : Nat) (hij : i ≠ j)
    (hi : (run c (State.init stop ks) sched).ths[i]?.map (·.holds) = some true)
    (hj : (run c (State.init stop ks) sched).ths[j]?.map (·.holds) = some true) : ¬ C18_full c := by
  intro hf
  obtain ⟨ti, h1, h2⟩ := Option.map_eq_some_iff.mp hi
  obtain ⟨tj, h3, h4⟩ := Option.map_eq_some_iff.mp hj
  exact hij ((hf stop ks sched).1 i j ti tj h1 h3 h2 h4)

theorem not_full_of_active_while_held (c : Cfg) (stop : Nat) (ks : List Kind) (sched : Schedule) (i j : Nat) (hij : i ≠ j)
    (hi : (run c (State.init stop ks) sched).ths[i]?.map (·.holds) = some true)
    (hj : (run c (State.init stop ks) sched).ths[j]?.map (·.pc.active) = some true) : ¬ C18_full c := by
  intro hf
  obtain ⟨ti, h1, h2⟩ := Option.map_eq_some_iff.mp hi
  obtain ⟨tj, h3, h4⟩ := Option.map_eq_some_iff.mp hj
  have := (hf stop ks sched).2.1 i j ti tj h1 h3 hij h2
  simp [h4] at this

theorem not_full_of_done_holding (c : Cfg) (stop : Nat) (ks : List Kind) (sched : Schedule) (i : Nat)
    (hi : (run c (State.init stop ks) sched).ths[i]?.map (fun t => decide (t.pc = .done) && t.holds) = some true) :
    ¬ C18_full c := by
  intro hf
  obtain ⟨ti, h1, h2⟩ := Option.map_eq_some_iff.mp hi
  simp only [Bool.and_eq_true, decide_eq_true_eq] at h2
  have := (hf stop ks sched).2.2.2.2.2.2.2 ti (List.mem_of_getElem? h1) h2.1
  simp [h2.2] at this

/-- check-then-act acquisition (`is_locked()` … `lock()`): two concurrent `run-steps` both pass the test
before either sets the lock; both are inside the critical section. -/
theorem C18_witness_toctou (c : Cfg) (h : c.lockIsTestAndSet = false) : ¬ C18_full c := by
  obtain ⟨a, b, d, e, f, g⟩ := c
  simp only at h; subst h
  apply not_full_of_two_holders _ 5 [.runSteps 1, .runSteps 1] [(0, .go), (1, .go), (0, .go), (1, .go)] 0 1 (by decide) <;>
    cases b <;> cases d <;> cases e <;> cases f <;> cases g <;> decide

/-- **guard created lazily**: the guard that makes the test and the set one action is created on first use by an
unguarded `if guard is None: guard = Lock()`; two first contenders each create their own guard, are both inside the
"atomic" section, both find the flag free and both set it — for the first use the acquisition is a check-then-act, and the
fact `lockIsTestAndSet` (which is probed with two contenders on a fresh and on a just-restored instance) is false. -/
theorem C18_witness_lazy_guard (c : Cfg) (h : c.lockIsTestAndSet = false) : ¬ C18_full c := C18_witness_toctou c h

/-- `run-step` only tests the lock: it passes the test, then a `run-steps` acquires, and the single step
runs inside the other request's critical section. -/
theorem C18_witness_run_step_unlocked (c : Cfg) (h : c.runStepTakesLock = false) : ¬ C18_full c := by
  obtain ⟨a, b, d, e, f, g⟩ := c
  simp only at h; subst h
  apply not_full_of_active_while_held _ 5 [.runSteps 1, .runStep] [(1, .go), (0, .go), (0, .go)] 0 1 (by decide) <;>
    cases a <;> cases d <;> cases e <;> cases f <;> cases g <;> decide

/-- a stream that runs to completion never unlocks (sequential: one request, no concurrency). -/
theorem C18_witness_stream_completion (c : Cfg) (h : c.streamUnlocksOnDone = false) : ¬ C18_full c := by
  obtain ⟨a, b, d, e, f, g⟩ := c
  simp only at h; subst h
  apply not_full_of_done_holding _ 1 [.stream] (List.replicate 18 (0, .go)) 0
  cases a <;> cases b <;> cases e <;> cases f <;> cases g <;> decide

/-- a raising `run_step` leaves the lock set. -/
theorem C18_witness_error (c : Cfg) (h : c.unlockOnError = false) : ¬ C18_full c := by
  obtain ⟨a, b, d, e, f, g⟩ := c
  simp only at h; subst h
  apply not_full_of_done_holding _ 5 [.runSteps 1] [(0, .go), (0, .go), (0, .go), (0, .fail)] 0
  cases a <;> cases b <;> cases d <;> cases f <;> cases g <;> decide

/-- closing a suspended stream leaves the lock set. -/
theorem C18_witness_client_gone (c : Cfg) (h : c.unlockOnClientGone = false) : ¬ C18_full c := by
  obtain ⟨a, b, d, e, f, g⟩ := c
  simp only at h; subst h
  apply not_full_of_done_holding _ 5 [.stream]
    (if a then [(0, .go), (0, .gone)] else [(0, .go), (0, .go), (0, .go), (0, .gone)]) 0
  cases a <;> cases b <;> cases d <;> cases e <;> cases g <;> decide

/-- the schedule of the refusal witness: B (`run-steps`) passes its `is_locked()` test, A (`stream-steps`)
acquires and streams its first step, B's `try_lock()` is refused — and B's `finally: unlock()` clears A's lock —,
C (`run-steps`) is accepted in the middle of A and performs a step. -/
def refusalSched : Schedule :=
  [(1, .go),                                                              -- B: RL (free)
   (0, .go), (0, .go), (0, .go), (0, .go), (0, .go), (0, .go), (0, .go),  -- A: TAS "[" RS RS SIM WS chunk
   (1, .go), (1, .go),                                                    -- B: TAS (refused), CL (!)
   (2, .go), (2, .go), (2, .go), (2, .go), (2, .go)]                      -- C: RL TAS RS SIM WS

/-- a request refused by `try_lock()` runs `unlock()` on its way out (the test-and-set sits inside the
`try … finally: unlock()` block): three requests — A streaming, B refused after A locked, C accepted in the
middle of A; A and C are both between acquire and release.  (When the acquisition is not a test-and-set at all
there is no `try_lock()` to be refused by: the check-then-act schedule is the witness.) -/
theorem C18_witness_refusal_unlocks (c : Cfg) (h : c.refusalKeepsLock = false) : ¬ C18_full c := by
  obtain ⟨a, b, d, e, f, g⟩ := c
  simp only at h; subst h
  cases a
  · exact C18_witness_toctou _ rfl
  · apply not_full_of_two_holders _ 5 [.stream, .runSteps 1, .runSteps 1] refusalSched 0 2 (by decide) <;>
      cases b <;> cases d <;> cases e <;> cases f <;> decide

/-- what the refusal witness looks like when everything else is as in the repaired tree: B's response is a
refusal, A has handed out step 0, C has produced step 1 inside A's critical section and the lock flag is
set by C while A still streams. -/
example :
    let s := run ⟨true, true, true, true, true, false⟩ (State.init 5 [.stream, .runSteps 1, .runSteps 1]) refusalSched
    s.ths.map (fun t => (t.st, t.res, t.holds)) = [(.pending, [0], true), (.refused, [], false), (.ok, [1], true)] ∧
      (exec ⟨true, true, true, true, true, false⟩ refusalSched (State.init 5 [.stream, .runSteps 1, .runSteps 1])).2 =
        [.RL, .TAS, .Y, .RS, .RS, .SIM, .WS, .Y, .TAS, .CL, .RL, .TAS, .RS, .SIM, .WS] := by decide

/-! ### Non-vacuity: concrete runs of the good configuration -/

def goodCfg : Cfg := ⟨true, true, true, true, true, true⟩

/-- a `run-steps 2`, a stream and a `run-step` interleaved: the stream is refused while the `run-steps`
holds the lock, the `run-step` runs afterwards; times 0,1 and 2 are produced once each. -/
example :
    let s := run goodCfg (State.init 3 [.runSteps 2, .stream, .runStep])
      [(0, .go), (0, .go), (0, .go), (1, .go), (0, .go), (0, .go), (0, .go), (0, .go), (0, .go), (0, .go),
       (2, .go), (2, .go), (2, .go), (2, .go), (2, .go)]
    s.ths.map (fun t => (t.st, t.res)) = [(.ok, [0, 1]), (.refused, []), (.ok, [2])] ∧
      s.sh.clock = 3 ∧ s.sh.lock = false ∧ s.sh.produced = [0, 1, 2] := by decide

/-- a stream over stop time 1 whose client goes away after the first step's chunk: lock released. -/
example :
    let s := run goodCfg (State.init 1 [.stream])
      [(0, .go), (0, .go), (0, .go), (0, .go), (0, .go), (0, .go), (0, .go), (0, .gone)]
    s.ths.map (fun t => (t.st, t.res, t.holds)) = [(.gone, [0], false)] ∧ s.sh.lock = false := by decide

/-- the refusal schedule under the good configuration: B is refused and leaves the lock alone, C is refused too
(A still holds), A keeps streaming. -/
example :
    let s := run goodCfg (State.init 5 [.stream, .runSteps 1, .runSteps 1]) refusalSched
    s.ths.map (fun t => (t.st, t.res, t.holds)) = [(.pending, [0], true), (.refused, [], false), (.refused, [], false)] ∧
      s.sh.lock = true := by decide

/-- the per-clause theorems are not vacuous: a configuration that satisfies `mutexOk` but none of the release
facts (and vice versa) exists, and there the other part of the statement does fail. -/
example : (⟨true, true, false, false, false, true⟩ : Cfg).mutexOk = true ∧
    ¬ C18_full ⟨true, true, false, false, false, true⟩ := ⟨rfl, C18_witness_error _ rfl⟩
example : (⟨false, false, true, true, true, false⟩ : Cfg).releaseOk = true ∧
    ¬ C18_full ⟨false, false, true, true, true, false⟩ := ⟨rfl, C18_witness_toctou _ rfl⟩

#print axioms C18_full_of_good
#print axioms C18_mutex
#print axioms C18_consecutive
#print axioms C18_release
#print axioms C18_solo
#print axioms C18_partial
#print axioms sim_write_discipline
#print axioms C18_witness_toctou
#print axioms C18_witness_lazy_guard
#print axioms C18_witness_run_step_unlocked
#print axioms C18_witness_stream_completion
#print axioms C18_witness_error
#print axioms C18_witness_client_gone
#print axioms C18_witness_refusal_unlocks

end Bptk.C18

/-! ### Session lifecycle events (wave 5): mutual exclusion and "no lock leak" for every schedule that also
contains `begin-session`, `end-session` and restore requests on threads of their own -/
namespace Bptk.C18.Sess

/-- mutual exclusion of the step-advancing requests under session events: at most one request between acquire
and end, for every initial situation (with / without a session), any number of requests, every schedule. -/
def SessMutex (c : SCfg) : Prop :=
  ∀ (session0 : Bool) (n : Nat) (sched : List SEv) (i j : Nat),
    (srun c (SState.init session0 n) sched).ths[i]? = some Phase.holding →
    (srun c (SState.init session0 n) sched).ths[j]? = some Phase.holding → i = j

/-- no lock leak: `is_locked()` answers true only while some request is between acquire and end — so once every
request has ended the instance accepts a step request again (`accepts_when_idle`), with or without a
`begin-session` in between. -/
def SessNoLeak (c : SCfg) : Prop :=
  ∀ (session0 : Bool) (n : Nat) (sched : List SEv),
    (srun c (SState.init session0 n) sched).flag = true →
      ∃ i : Nat, (srun c (SState.init session0 n) sched).ths[i]? = some Phase.holding

def SCfg.mutexOk (c : SCfg) : Bool := c.flagOnInstance && !c.lockNeedsSession

def SCfg.leakFree (c : SCfg) : Bool :=
  !c.flagOnInstance || !c.unlockNeedsSession || (c.sessionReqExcluded && c.lockNeedsSession)

/-- invariant for mutual exclusion: a holder implies the flag, and holders are unique. -/
structure SMInv (s : SState) : Prop where
  flagOf : ∀ i : Nat, s.ths[i]? = some Phase.holding → s.flag = true
  uniq : ∀ i j : Nat, s.ths[i]? = some Phase.holding → s.ths[j]? = some Phase.holding → i = j

theorem getElem?_set_cases {α} (l : List α) (i j : Nat) (a b : α) (h : (l.set i a)[j]? = some b) :
    (j = i ∧ b = a ∧ i < l.length) ∨ (j ≠ i ∧ l[j]? = some b) := by
  by_cases hji : j = i
  · subst hji
    have hlt : j < (l.set j a).length := (List.getElem?_eq_some_iff.mp h).1
    rw [List.length_set] at hlt
    rw [List.getElem?_set_self hlt] at h
    exact Or.inl ⟨rfl, (Option.some.inj h).symm, hlt⟩
  · rw [List.getElem?_set_ne (fun e => hji e.symm)] at h
    exact Or.inr ⟨hji, h⟩

theorem minv_step (c : SCfg) (hc : c.mutexOk = true) (s : SState) (e : SEv) (h : SMInv s) : SMInv (sstep c s e) := by
  obtain ⟨a, b, d, x⟩ := c
  simp only [SCfg.mutexOk, Bool.and_eq_true, Bool.not_eq_true'] at hc
  obtain ⟨rfl, rfl⟩ := hc
  cases e with
  | acq k =>
    simp only [sstep]
    split
    · rename_i hk
      split
      · rename_i hf
        refine ⟨?_, ?_⟩
        · intro i hi
          rcases getElem?_set_cases _ _ _ _ _ hi with ⟨_, h2, _⟩ | ⟨_, h2⟩
          · cases h2
          · exact h.flagOf i h2
        · intro i j hi hj
          rcases getElem?_set_cases _ _ _ _ _ hi with ⟨_, h2, _⟩ | ⟨_, h2⟩
          · cases h2
          rcases getElem?_set_cases _ _ _ _ _ hj with ⟨_, h3, _⟩ | ⟨_, h3⟩
          · cases h3
          exact h.uniq i j h2 h3
      · rename_i hf
        have hno : ∀ i : Nat, s.ths[i]? ≠ some Phase.holding := fun i hi => hf (h.flagOf i hi)
        refine ⟨?_, ?_⟩
        · intro i _; simp [canWrite]
        · intro i j hi hj
          rcases getElem?_set_cases _ _ _ _ _ hi with ⟨h1, _, _⟩ | ⟨_, h2⟩
          · rcases getElem?_set_cases _ _ _ _ _ hj with ⟨h3, _, _⟩ | ⟨_, h4⟩
            · rw [h1, h3]
            · exact absurd h4 (hno j)
          · exact absurd h2 (hno i)
    · exact h
  | fin k =>
    simp only [sstep]
    split
    · rename_i hk
      have hothers : ∀ i : Nat, i ≠ k → s.ths[i]? ≠ some Phase.holding := fun i hik hi => hik (h.uniq i k hi hk)
      refine ⟨?_, ?_⟩
      · intro i hi
        rcases getElem?_set_cases _ _ _ _ _ hi with ⟨_, h2, _⟩ | ⟨h1, h2⟩
        · cases h2
        · exact absurd h2 (hothers i h1)
      · intro i j hi hj
        rcases getElem?_set_cases _ _ _ _ _ hi with ⟨_, h2, _⟩ | ⟨h1, h2⟩
        · cases h2
        · exact absurd h2 (hothers i h1)
    · exact h
  | endS => simp only [sstep, sessionReq]; split <;> exact ⟨h.flagOf, h.uniq⟩
  | beginS => simp only [sstep, sessionReq]; split <;> exact ⟨h.flagOf, h.uniq⟩
  | restoreS => simp only [sstep, sessionReq]; split <;> exact ⟨h.flagOf, h.uniq⟩

theorem minv_run (c : SCfg) (hc : c.mutexOk = true) (sched : List SEv) : ∀ s, SMInv s → SMInv (srun c s sched) := by
  induction sched with
  | nil => intro s h; exact h
  | cons e rest ih => intro s h; exact ih _ (minv_step c hc s e h)

theorem init_no_holder (session0 : Bool) (n i : Nat) : (SState.init session0 n).ths[i]? ≠ some Phase.holding := by
  intro h
  simp only [SState.init, List.getElem?_replicate] at h
  split at h <;> simp at h

/-- **(a) with the flag on the instance and `lock()` independent of the session, mutual exclusion of the
step-advancing requests holds for every schedule that also contains session requests** (whatever `unlock()` and the
session handlers do). -/
theorem C18_mutex_sessions (c : SCfg) (hc : c.mutexOk = true) : SessMutex c := by
  intro session0 n sched i j hi hj
  have h0 : SMInv (SState.init session0 n) :=
    ⟨fun i hi => absurd hi (init_no_holder _ _ _), fun i _ hi _ => absurd hi (init_no_holder _ _ _)⟩
  exact (minv_run c hc sched _ h0).uniq i j hi hj

/-- invariant for "no leak": the flag implies a holder; where the flag can only be written with a session, the
flag implies a session. -/
structure SLInv (c : SCfg) (s : SState) : Prop where
  holder : s.flag = true → ∃ i : Nat, s.ths[i]? = some Phase.holding
  sess : (c.flagOnInstance = false ∨ (c.lockNeedsSession = true ∧ c.sessionReqExcluded = true)) →
    s.flag = true → s.session = true

theorem linv_step (c : SCfg) (hc : c.leakFree = true) (s : SState) (e : SEv) (h : SLInv c s) : SLInv c (sstep c s e) := by
  obtain ⟨a, b, d, x⟩ := c
  obtain ⟨h1, h2⟩ := h
  simp only at h1 h2
  cases e with
  | acq k =>
    simp only [sstep]
    split
    · rename_i hk
      split
      · rename_i hf
        refine ⟨fun _ => ?_, h2⟩
        obtain ⟨i, hi⟩ := h1 hf
        have hik : i ≠ k := by intro e; subst e; rw [hk] at hi; cases hi
        exact ⟨i, by rw [List.getElem?_set_ne (fun e => hik e.symm)]; exact hi⟩
      · refine ⟨fun _ => ⟨k, ?_⟩, ?_⟩
        · have hlt : k < s.ths.length := (List.getElem?_eq_some_iff.mp hk).1
          simp [hlt]
        · intro hcfg hfl
          simp only [canWrite] at hfl
          rcases hcfg with hcfg | ⟨hcfg, _⟩ <;> simp_all
    · exact ⟨h1, h2⟩
  | fin k =>
    simp only [sstep]
    split
    · rename_i hk
      simp only [SCfg.leakFree] at hc
      have key : (if canWrite a d s.session = true then false else s.flag) = false := by
        cases hs : s.session <;> cases hfl : s.flag <;> cases a <;> cases b <;> cases d <;> cases x <;>
          simp_all [canWrite]
      refine ⟨fun hf => ?_, fun _ hf => ?_⟩ <;> simp only [key] at hf <;> cases hf
    · exact ⟨h1, h2⟩
  | endS =>
    simp only [sstep, sessionReq]
    split
    · exact ⟨h1, h2⟩
    · rename_i hx
      refine ⟨fun hf => ?_, fun hcfg hf => ?_⟩
      · cases a <;> simp_all
      · cases a <;> cases b <;> cases x <;> simp_all
  | beginS =>
    simp only [sstep, sessionReq]
    split
    · exact ⟨h1, h2⟩
    · refine ⟨fun hf => ?_, fun _ _ => rfl⟩
      cases a <;> simp_all
  | restoreS =>
    simp only [sstep, sessionReq]
    split
    · exact ⟨h1, h2⟩
    · refine ⟨fun hf => ?_, fun _ _ => rfl⟩
      cases a <;> simp_all

theorem linv_run (c : SCfg) (hc : c.leakFree = true) (sched : List SEv) : ∀ s, SLInv c s → SLInv c (srun c s sched) := by
  induction sched with
  | nil => intro s h; exact h
  | cons e rest ih => intro s h; exact ih _ (linv_step c hc s e h)

/-- **(b) no lock leak**: if the flag lives in the session state (current tree), or `unlock()` does not depend on
the session, or session requests are excluded while the flag is set and `lock()` needs a session, then — for every
schedule of requests (ending by completion, error or client gone) and session requests — the flag is set only
while a request is between acquire and end. -/
theorem C18_no_leak (c : SCfg) (hc : c.leakFree = true) : SessNoLeak c := by
  intro session0 n sched hf
  have h0 : SLInv c (SState.init session0 n) := ⟨fun h => by simp [SState.init] at h, fun _ h => by simp [SState.init] at h⟩
  exact (linv_run c hc sched _ h0).holder hf

theorem acq_accepts (c : SCfg) (s : SState) (k : Nat) (hk : s.ths[k]? = some Phase.pre) (hf : s.flag = false) :
    (sstep c s (.acq k)).ths[k]? = some Phase.holding := by
  have hlt : k < s.ths.length := (List.getElem?_eq_some_iff.mp hk).1
  simp only [sstep, hk, hf]
  simp [hlt]

theorem begin_keeps (c : SCfg) (s : SState) (hf : s.flag = false) :
    (sstep c s .beginS).flag = false ∧ (sstep c s .beginS).ths = s.ths := by
  simp only [sstep, sessionReq, hf]; simp

/-- consequence of `SessNoLeak`: when no request is between acquire and end, a request that has not started is
accepted — immediately and also after a `begin-session`. -/
theorem accepts_when_idle (c : SCfg) (hl : SessNoLeak c) (session0 : Bool) (n : Nat) (sched : List SEv) (k : Nat)
    (hidle : ∀ i : Nat, (srun c (SState.init session0 n) sched).ths[i]? ≠ some Phase.holding)
    (hk : (srun c (SState.init session0 n) sched).ths[k]? = some Phase.pre) :
    (srun c (SState.init session0 n) (sched ++ [.acq k])).ths[k]? = some Phase.holding ∧
    (srun c (SState.init session0 n) (sched ++ [.beginS, .acq k])).ths[k]? = some Phase.holding := by
  have hfree : (srun c (SState.init session0 n) sched).flag = false := by
    cases hf : (srun c (SState.init session0 n) sched).flag with
    | false => rfl
    | true => obtain ⟨i, hi⟩ := hl session0 n sched hf; exact absurd hi (hidle i)
  constructor
  · have : srun c (SState.init session0 n) (sched ++ [.acq k]) = sstep c (srun c (SState.init session0 n) sched) (.acq k) := by
      simp [srun, List.foldl_append]
    rw [this]; exact acq_accepts c _ k hk hfree
  · have : srun c (SState.init session0 n) (sched ++ [.beginS, .acq k]) =
        sstep c (sstep c (srun c (SState.init session0 n) sched) .beginS) (.acq k) := by
      simp [srun, List.foldl_append]
    rw [this]
    obtain ⟨h1, h2⟩ := begin_keeps c _ hfree
    exact acq_accepts c _ k (by rw [h2]; exact hk) h1

/-! #### Witnesses -/

theorem not_mutex_of_two (c : SCfg) (session0 : Bool) (n : Nat) (sched : List SEv) (i j : Nat) (hij : i ≠ j)
    (hi : (srun c (SState.init session0 n) sched).ths[i]? = some Phase.holding)
    (hj : (srun c (SState.init session0 n) sched).ths[j]? = some Phase.holding) : ¬ SessMutex c :=
  fun h => hij (h session0 n sched i j hi hj)

/-- **the flag lives in the session state (current tree): a `begin-session` (or restore) arriving while request 0
holds the lock hands out a fresh, unlocked flag — request 1 is accepted while request 0 is still in progress.**
(If session requests are excluded while the flag is set, the same happens through the missing session: without a
session `lock()` is a no-op, two requests are "holding", a `begin-session` then lets both step.) -/
theorem C18_witness_session_fresh_flag (c : SCfg) (h : c.flagOnInstance = false) : ¬ SessMutex c := by
  obtain ⟨a, b, d, x⟩ := c
  simp only at h; subst h
  cases x
  · apply not_mutex_of_two _ true 2 [.acq 0, .beginS, .acq 1] 0 1 (by decide) <;> cases b <;> cases d <;> decide
  · apply not_mutex_of_two _ false 2 [.acq 0, .acq 1] 0 1 (by decide) <;> cases b <;> cases d <;> decide

/-- flag on the instance but `lock()` guarded by the session: without a session two requests are both accepted. -/
theorem C18_witness_lock_needs_session (c : SCfg) (h1 : c.flagOnInstance = true) (h2 : c.lockNeedsSession = true) :
    ¬ SessMutex c := by
  obtain ⟨a, b, d, x⟩ := c
  simp only at h1 h2; subst h1 h2
  apply not_mutex_of_two _ false 2 [.acq 0, .acq 1] 0 1 (by decide) <;> cases d <;> cases x <;> decide

/-- **the flag outlives the state that guards its release** (round-3 seed): the flag is on the instance, `unlock()`
is still guarded by `session_state is not None`; an `end-session` arrives while request 0 holds the lock, request 0
ends (its `unlock()` is a no-op) — the flag is set, nobody holds it, and after a new `begin-session` the next step
request is still refused. -/
theorem C18_witness_flag_outlives_session (c : SCfg) (h1 : c.flagOnInstance = true) (h2 : c.unlockNeedsSession = true)
    (h3 : c.sessionReqExcluded = false) : ¬ SessNoLeak c := by
  obtain ⟨a, b, d, x⟩ := c
  simp only at h1 h2 h3; subst h1 h2 h3
  intro hl
  obtain ⟨i, hi⟩ := hl true 2 [.acq 0, .endS, .fin 0, .beginS] (by cases b <;> decide)
  revert hi
  cases b <;> (have : i = 0 ∨ i = 1 ∨ 2 ≤ i := by omega) <;> rcases this with rfl | rfl | h <;> try decide
  all_goals
    intro hi
    have := (List.getElem?_eq_some_iff.mp hi).1
    revert this
    simp [srun, sstep, sessionReq, SState.init, canWrite]
    omega

/-- the same schedule seen from the client: after everything has ended and a new session has begun, request 1 is
refused (flag on the instance, guarded unlock), whereas it is accepted when `unlock()` is unconditional. -/
example :
    (strace ⟨true, true, true, false⟩ [.acq 0, .endS, .fin 0, .beginS, .acq 1] (SState.init true 2)).2 =
      ["accepted", "done", "ended", "done", "refused"] ∧
    (strace ⟨true, false, false, false⟩ [.acq 0, .endS, .fin 0, .beginS, .acq 1] (SState.init true 2)).2 =
      ["accepted", "done", "ended", "done", "accepted"] ∧
    -- current tree (flag in the session state): no leak, but request 1 gets in while request 0 is in progress
    (strace ⟨false, true, true, false⟩ [.acq 0, .beginS, .acq 1, .fin 0, .fin 1] (SState.init true 2)).2 =
      ["accepted", "done", "accepted", "ended", "ended"] ∧
    -- repaired: request 1 is refused while request 0 holds, whatever the session does
    (strace ⟨true, false, false, false⟩ [.acq 0, .beginS, .acq 1, .endS, .fin 0] (SState.init true 2)).2 =
      ["accepted", "done", "refused", "done", "ended"] := by decide

/-- flag on the instance, `unlock()` guarded by the session, `lock()` not: a request arriving without a session sets
the flag and can never clear it. -/
theorem C18_witness_flag_set_without_session (c : SCfg) (h1 : c.flagOnInstance = true) (h2 : c.unlockNeedsSession = true)
    (h3 : c.lockNeedsSession = false) : ¬ SessNoLeak c := by
  obtain ⟨a, b, d, x⟩ := c
  simp only at h1 h2 h3; subst h1 h2 h3
  intro hl
  obtain ⟨i, hi⟩ := hl false 1 [.acq 0, .fin 0] (by cases x <;> decide)
  revert hi
  cases x <;> (have : i = 0 ∨ 1 ≤ i := by omega) <;> rcases this with rfl | h <;> try decide
  all_goals
    intro hi
    have := (List.getElem?_eq_some_iff.mp hi).1
    revert this
    simp [srun, sstep, SState.init, canWrite]
    omega

theorem sess_no_leak_iff (c : SCfg) : SessNoLeak c ↔ c.leakFree = true := by
  constructor
  · intro h
    cases ha : c.flagOnInstance with
    | false => simp [SCfg.leakFree, ha]
    | true =>
      cases hd : c.unlockNeedsSession with
      | false => simp [SCfg.leakFree, hd]
      | true =>
        cases hb : c.lockNeedsSession with
        | false => exact absurd h (C18_witness_flag_set_without_session c ha hd hb)
        | true =>
          cases hx : c.sessionReqExcluded with
          | false => exact absurd h (C18_witness_flag_outlives_session c ha hd hx)
          | true => simp [SCfg.leakFree, hb, hx]
  · exact C18_no_leak c

/-- a request that acquires and then ends WITHOUT its `unlock()` (for instance: the lock taken before the body is
validated, an early `return` on the validation error) blocks every later step request — whatever the session does.
(Repaired configuration; per-run fact `invalidRequestHoldsNothing`.) -/
theorem C18_witness_acquire_without_end (x s0 : Bool) (sess : List SEv)
    (hs : sess = [] ∨ sess = [.endS, .beginS] ∨ sess = [.beginS] ∨ sess = [.restoreS]) :
    (strace ⟨true, false, false, x⟩ ([.acq 0] ++ sess ++ [.acq 1]) (SState.init s0 2)).2.getLast? = some "refused" := by
  rcases hs with rfl | rfl | rfl | rfl <;> cases x <;> cases s0 <;> decide

/-- characterisation: the two facts are exactly what mutual exclusion under session events needs. -/
theorem sess_mutex_iff (c : SCfg) : SessMutex c ↔ c.mutexOk = true := by
  constructor
  · intro h
    cases ha : c.flagOnInstance with
    | false => exact absurd h (C18_witness_session_fresh_flag c ha)
    | true =>
      cases hb : c.lockNeedsSession with
      | true => exact absurd h (C18_witness_lock_needs_session c ha hb)
      | false => simp [SCfg.mutexOk, ha, hb]
  · exact C18_mutex_sessions c

#print axioms C18_mutex_sessions
#print axioms C18_no_leak
#print axioms accepts_when_idle
#print axioms sess_mutex_iff
#print axioms C18_witness_acquire_without_end
#print axioms sess_no_leak_iff
#print axioms C18_witness_flag_set_without_session
#print axioms C18_witness_session_fresh_flag
#print axioms C18_witness_lock_needs_session
#print axioms C18_witness_flag_outlives_session

/-! #### The session clock under session requests (wave 6): what "consecutive steps" means per session state -/

/-- consecutive, starting anywhere. -/
def Consec (l : List Nat) : Prop := l = List.range' (l.headD 0) l.length

structure CInv (s : CState) : Prop where
  m : SMInv s.base
  pre : ∀ i : Nat, s.base.ths[i]? = some Phase.pre → s.locs[i]? = some none
  fut : ∀ p ∈ s.log, p.1 ≤ s.epoch
  old : ∀ e : Nat, Consec (timesOf e s.log)
  cur0 : timesOf s.epoch s.log = [] → s.clock = 0
  cur : timesOf s.epoch s.log ≠ [] → (timesOf s.epoch s.log).headD 0 + (timesOf s.epoch s.log).length = s.clock
  loc : ∀ (i l : Nat), s.base.ths[i]? = some Phase.holding → s.locs[i]? = some (some l) →
    l = s.clock ∨ timesOf s.epoch s.log = []

theorem timesOf_append (e e' l : Nat) (log : List (Nat × Nat)) :
    timesOf e (log ++ [(e', l)]) = if e' = e then timesOf e log ++ [l] else timesOf e log := by
  by_cases h : e' = e <;> simp [timesOf, List.filter_append, h]

theorem timesOf_future (e epoch : Nat) (log : List (Nat × Nat)) (h : ∀ p ∈ log, p.1 ≤ epoch) (he : epoch < e) :
    timesOf e log = [] := by
  simp only [timesOf, List.map_eq_nil_iff, List.filter_eq_nil_iff]
  intro p hp hpe
  have := h p hp
  simp at hpe
  omega

theorem consec_snoc (l : List Nat) (x : Nat) (h : Consec l) (hx : l = [] ∨ l.headD 0 + l.length = x) : Consec (l ++ [x]) := by
  unfold Consec at *
  cases l with
  | nil => simp
  | cons a rest =>
    rcases hx with hx | hx
    · cases hx
    · simp only [List.headD_cons, List.length_cons] at hx h
      simp only [List.cons_append, List.headD_cons, List.length_cons, List.length_append, List.length_nil]
      have := range'_snoc a (rest.length + 1)
      rw [← h, hx] at this
      exact this

theorem sstep_pre_of (c : SCfg) (s : SState) (e : SEv) (i : Nat) (h : (sstep c s e).ths[i]? = some Phase.pre) :
    s.ths[i]? = some Phase.pre := by
  cases e with
  | acq k =>
    simp only [sstep] at h
    split at h
    · split at h
      · rcases getElem?_set_cases _ _ _ _ _ h with ⟨_, h2, _⟩ | ⟨_, h2⟩
        · cases h2
        · exact h2
      · rcases getElem?_set_cases _ _ _ _ _ h with ⟨_, h2, _⟩ | ⟨_, h2⟩
        · cases h2
        · exact h2
    · exact h
  | fin k =>
    simp only [sstep] at h
    split at h
    · rcases getElem?_set_cases _ _ _ _ _ h with ⟨_, h2, _⟩ | ⟨_, h2⟩
      · cases h2
      · exact h2
    · exact h
  | endS => simp only [sstep, sessionReq] at h; split at h <;> exact h
  | beginS => simp only [sstep, sessionReq] at h; split at h <;> exact h
  | restoreS => simp only [sstep, sessionReq] at h; split at h <;> exact h

/-- a request that is holding after a lock event either was holding before or has just been accepted (it was
`pre`, so it has not read the clock). -/
theorem sstep_holding_of (c : SCfg) (s : SState) (e : SEv) (i : Nat) (h : (sstep c s e).ths[i]? = some Phase.holding) :
    s.ths[i]? = some Phase.holding ∨ s.ths[i]? = some Phase.pre := by
  cases e with
  | acq k =>
    simp only [sstep] at h
    split at h
    · rename_i hk
      split at h
      · rcases getElem?_set_cases _ _ _ _ _ h with ⟨_, h2, _⟩ | ⟨_, h2⟩
        · cases h2
        · exact Or.inl h2
      · rcases getElem?_set_cases _ _ _ _ _ h with ⟨h1, _, _⟩ | ⟨_, h2⟩
        · subst h1; exact Or.inr hk
        · exact Or.inl h2
    · exact Or.inl h
  | fin k =>
    simp only [sstep] at h
    split at h
    · rcases getElem?_set_cases _ _ _ _ _ h with ⟨_, h2, _⟩ | ⟨_, h2⟩
      · cases h2
      · exact Or.inl h2
    · exact Or.inl h
  | endS => simp only [sstep, sessionReq] at h; split at h <;> exact Or.inl h
  | beginS => simp only [sstep, sessionReq] at h; split at h <;> exact Or.inl h
  | restoreS => simp only [sstep, sessionReq] at h; split at h <;> exact Or.inl h

theorem cinv_sess_same (c : SCfg) (hc : c.mutexOk = true) (s : CState) (e : SEv) (h : CInv s) :
    CInv { s with base := sstep c s.base e } := by
  refine ⟨minv_step c hc s.base e h.m, ?_, h.fut, h.old, h.cur0, h.cur, ?_⟩
  · intro i hi; exact h.pre i (sstep_pre_of c s.base e i hi)
  · intro i l hi hl
    rcases sstep_holding_of c s.base e i hi with h1 | h1
    · exact h.loc i l h1 hl
    · have := h.pre i h1; rw [this] at hl; cases hl

theorem cinv_sess_new (c : SCfg) (hc : c.mutexOk = true) (s : CState) (e : SEv) (h : CInv s) :
    CInv { s with base := sstep c s.base e, epoch := s.epoch + 1, clock := 0 } := by
  have hnew : timesOf (s.epoch + 1) s.log = [] := timesOf_future _ s.epoch s.log h.fut (by omega)
  refine ⟨minv_step c hc s.base e h.m, ?_, ?_, h.old, fun _ => rfl, fun hne => absurd hnew hne, ?_⟩
  · intro i hi; exact h.pre i (sstep_pre_of c s.base e i hi)
  · intro p hp; have := h.fut p hp; show p.1 ≤ s.epoch + 1; omega
  · intro i l _ _; exact Or.inr hnew

theorem cinv_step (c : SCfg) (hc : c.mutexOk = true) (s : CState) (ev : CEv) (h : CInv s) : CInv (cstep c s ev) := by
  cases ev with
  | sess e =>
    cases e with
    | acq k => exact cinv_sess_same c hc s _ h
    | fin k => exact cinv_sess_same c hc s _ h
    | endS => exact cinv_sess_same c hc s _ h
    | beginS =>
      simp only [cstep]; split
      · exact h
      · exact cinv_sess_new c hc s _ h
    | restoreS =>
      simp only [cstep]; split
      · exact h
      · exact cinv_sess_new c hc s _ h
  | rd k =>
    simp only [cstep]
    split
    · rename_i hk
      refine ⟨h.m, ?_, h.fut, h.old, h.cur0, h.cur, ?_⟩
      · intro i hi
        have hik : i ≠ k := by intro e; subst e; rw [hk.1] at hi; cases hi
        rw [List.getElem?_set_ne (fun e => hik e.symm)]; exact h.pre i hi
      · intro i l hi hl
        rcases getElem?_set_cases _ _ _ _ _ hl with ⟨_, h2, _⟩ | ⟨_, h2⟩
        · cases h2; exact Or.inl rfl
        · exact h.loc i l hi h2
    · exact h
  | wr k =>
    simp only [cstep]
    split
    · rename_i l hk hl
      have hothers : ∀ i : Nat, i ≠ k → s.base.ths[i]? ≠ some Phase.holding := fun i hik hi => hik (h.m.uniq i k hi hk)
      have hpre' : ∀ i : Nat, s.base.ths[i]? = some Phase.pre → (s.locs.set k none)[i]? = some none := by
        intro i hi
        have hik : i ≠ k := by intro e; subst e; rw [hk] at hi; cases hi
        rw [List.getElem?_set_ne (fun e => hik e.symm)]; exact h.pre i hi
      have hloc' : ∀ (i l' : Nat), s.base.ths[i]? = some Phase.holding → (s.locs.set k none)[i]? = some (some l') → False := by
        intro i l' hi hl'
        rcases getElem?_set_cases _ _ _ _ _ hl' with ⟨_, h2, _⟩ | ⟨h1, _⟩
        · cases h2
        · exact hothers i h1 hi
      split
      · -- the write lands in the current session state
        have hcase := h.loc k l hk hl
        have hcons : Consec (timesOf s.epoch s.log ++ [l]) := by
          apply consec_snoc _ _ (h.old s.epoch)
          by_cases hne : timesOf s.epoch s.log = []
          · exact Or.inl hne
          · rcases hcase with hcase | hcase
            · exact Or.inr (by rw [hcase]; exact h.cur hne)
            · exact absurd hcase hne
        refine ⟨h.m, hpre', ?_, ?_, ?_, ?_, fun i l' hi hl' => absurd (hloc' i l' hi hl') id⟩
        · intro p hp
          rcases List.mem_append.mp hp with hp | hp
          · exact h.fut p hp
          · simp at hp; subst hp; exact Nat.le_refl _
        · intro e
          show Consec (timesOf e (s.log ++ [(s.epoch, l)]))
          rw [timesOf_append]
          split
          · rename_i he; subst he; exact hcons
          · exact h.old e
        · intro hnil
          have : timesOf s.epoch (s.log ++ [(s.epoch, l)]) = timesOf s.epoch s.log ++ [l] := by
            rw [timesOf_append]; simp
          rw [this] at hnil; simp at hnil
        · intro _
          show (timesOf s.epoch (s.log ++ [(s.epoch, l)])).headD 0 + (timesOf s.epoch (s.log ++ [(s.epoch, l)])).length = l + 1
          have : timesOf s.epoch (s.log ++ [(s.epoch, l)]) = timesOf s.epoch s.log ++ [l] := by
            rw [timesOf_append]; simp
          rw [this]
          by_cases hne : timesOf s.epoch s.log = []
          · rw [hne]; simp
          · rcases hcase with hcase | hcase
            · have := h.cur hne
              cases hts : timesOf s.epoch s.log with
              | nil => exact absurd hts hne
              | cons a rest => rw [hts] at this; simp at this ⊢; omega
            · exact absurd hcase hne
      · exact ⟨h.m, hpre', h.fut, h.old, h.cur0, h.cur, fun i l' hi hl' => absurd (hloc' i l' hi hl') id⟩
    · exact h

theorem cinv_run (c : SCfg) (hc : c.mutexOk = true) (sched : List CEv) : ∀ s, CInv s → CInv (crun c s sched) := by
  induction sched with
  | nil => intro s h; exact h
  | cons e rest ih => intro s h; exact ih _ (cinv_step c hc s e h)

theorem cinv_init (session0 : Bool) (n : Nat) : CInv (CState.init session0 n) := by
  refine ⟨⟨fun i hi => absurd hi (init_no_holder _ _ _), fun i _ hi _ => absurd hi (init_no_holder _ _ _)⟩, ?_, ?_, ?_, ?_, ?_, ?_⟩
  · intro i hi
    simp only [CState.init, SState.init, List.getElem?_replicate] at hi ⊢
    split at hi
    · rename_i hlt; simp [hlt]
    · cases hi
  · intro p hp; simp [CState.init] at hp
  · intro e; simp [CState.init, timesOf, Consec]
  · intro _; rfl
  · intro hne; simp [CState.init, timesOf] at hne
  · intro i l hi _; exact absurd hi (init_no_holder _ _ _)

/-- **Consecutive steps, no time twice, clock = steps — per session state, under session requests** (repaired
tree: flag on the instance, `lock()` unconditional): for every initial situation, any number of requests and every
schedule of acquisitions, endings, clock reads/writes and `end-session` / `begin-session` / restore requests, the
times logged in each session state are consecutive (no gap, none twice), and the clock of the current one is its
first logged time plus the number of steps logged (0 if nothing was logged).  A session state begun while a
`run_step` was between its read and its write starts at that step's time instead of 0 (see the examples) — it is
still consecutive. -/
theorem C18_consecutive_sessions (c : SCfg) (hc : c.mutexOk = true) (session0 : Bool) (n : Nat) (sched : List CEv) :
    (∀ e : Nat, Consec (timesOf e (crun c (CState.init session0 n) sched).log)) ∧
    (∀ e : Nat, (timesOf e (crun c (CState.init session0 n) sched).log).Nodup) ∧
    (timesOf (crun c (CState.init session0 n) sched).epoch (crun c (CState.init session0 n) sched).log = [] →
      (crun c (CState.init session0 n) sched).clock = 0) ∧
    (timesOf (crun c (CState.init session0 n) sched).epoch (crun c (CState.init session0 n) sched).log ≠ [] →
      (timesOf (crun c (CState.init session0 n) sched).epoch (crun c (CState.init session0 n) sched).log).headD 0 +
        (timesOf (crun c (CState.init session0 n) sched).epoch (crun c (CState.init session0 n) sched).log).length =
        (crun c (CState.init session0 n) sched).clock) := by
  have h := cinv_run c hc sched _ (cinv_init session0 n)
  refine ⟨h.old, ?_, h.cur0, h.cur⟩
  intro e
  have := h.old e
  unfold Consec at this
  rw [this]
  exact List.nodup_range'

/-- what is NOT true, on the repaired tree as well (the statement's quantifier has no session requests):
(1) a `begin-session` between two steps of a running request: the *request* logs 0, 1 and then 0 again — its
response mixes two session states, each of them consecutive; (2) a `begin-session` between the read and the
write of one `run_step`: the new session state starts at time 2 and its clock at 3. -/
example :
    let c : SCfg := ⟨true, false, false, false⟩
    (crun c (CState.init true 1) [.sess (.acq 0), .rd 0, .wr 0, .rd 0, .wr 0, .sess .beginS, .rd 0, .wr 0]).log =
      [(0, 0), (0, 1), (1, 0)] ∧
    (crun c (CState.init true 1) [.sess (.acq 0), .rd 0, .wr 0, .rd 0, .wr 0, .rd 0, .sess .beginS, .wr 0]).log =
      [(0, 0), (0, 1), (1, 2)] ∧
    (crun c (CState.init true 1) [.sess (.acq 0), .rd 0, .wr 0, .rd 0, .wr 0, .rd 0, .sess .beginS, .wr 0]).clock = 3 := by
  decide

/-- with the flag in the session state (before the repair) the per-session clause fails too: request 1 gets in
after the `begin-session`, both read time 0 of the new session state, time 0 is logged twice. -/
example :
    timesOf 1 (crun ⟨false, true, true, false⟩ (CState.init true 2)
      [.sess (.acq 0), .sess .beginS, .sess (.acq 1), .rd 0, .rd 1, .wr 0, .wr 1]).log = [0, 0] := by decide

#print axioms C18_consecutive_sessions

end Bptk.C18.Sess

/-! ### The generator protocol (wave 6): release on client-gone from the shape of the streamer -/
namespace Bptk.C18.Gen

/-- the streamer of the current tree (the per-run obligation is stated on the shape read off the source by `ast`;
this copy documents it and anchors the examples):
`try: yield; yield "["; while …: (if first: … else: yield ","); (if …: run_step else: run_step);
 (if result: yield … else: yield …); yield "]"  except: pass  finally: unlock()`, then `if adapter: save`. -/
def streamerNow : List Tok :=
  [.tryB, .yld, .yld, .other, .condB true, .condB false, .other, .endCond false, .condB false, .yld, .endCond false,
   .condB false, .other, .endCond false, .condB false, .other, .endCond false,
   .condB false, .yld, .endCond false, .condB false, .yld, .endCond false, .endCond true, .yld,
   .exceptB true, .other, .finallyB, .unlock, .endTry, .condB false, .other, .endCond false]

/-- round-4 seed: the closing `yield "]"` moved into the `finally` clause, in front of `unlock()`. -/
def streamerYieldInFinally : List Tok :=
  [.tryB, .yld, .yld, .other, .condB true, .condB false, .other, .endCond false, .condB false, .other, .endCond false,
   .condB false, .other, .endCond false, .condB false, .yld, .endCond false,
   .condB false, .yld, .endCond false, .condB false, .yld, .endCond false, .endCond true,
   .exceptB true, .other, .finallyB, .yld, .unlock, .endTry, .condB false, .other, .endCond false]

theorem closeSafe_sound (prog : List Tok) (h : closeSafe prog = true) (k : Nat) (hk : k ∈ yieldIdx prog) :
    genClose prog (.suspended k) = (.closed, true) := by
  have := List.all_eq_true.mp h k hk
  simp only [Bool.and_eq_true, Bool.not_eq_true'] at this
  simp [genClose, this.1, this.2]

/-- and conversely: if the shape is not safe there is a yield at which `close()` either never reaches `unlock()`
or is answered by another `yield` (the frame stays suspended). -/
theorem closeSafe_complete (prog : List Tok) (h : closeSafe prog = false) :
    ∃ k ∈ yieldIdx prog, genClose prog (.suspended k) ≠ (.closed, true) := by
  obtain ⟨k, hk, hbad⟩ := List.all_eq_false.mp (by simpa [closeSafe] using h :
    (yieldIdx prog).all (fun k => (closeAt prog k).unlocked && !(closeAt prog k).stuck) = false)
  refine ⟨k, hk, ?_⟩
  intro heq
  apply hbad
  simp only [genClose] at heq
  cases hs : (closeAt prog k).stuck <;> cases hu : (closeAt prog k).unlocked <;> simp_all

example : closeSafe streamerNow = true := by decide
example : closeSafe streamerYieldInFinally = false := by decide

/-- what happens on the seeded shape: closing at the first step's chunk is caught by the bare `except`, the
`finally` yields again (RuntimeError in the closer, frame left suspended), `unlock()` is not reached; closing at the
yield inside the `finally` skips the `unlock()` behind it. -/
example : genClose streamerYieldInFinally (.suspended 15) = (.stuckAt 15, false) ∧
    genClose streamerYieldInFinally (.suspended 27) = (.closed, false) := by decide

/-- variations: without the bare `except` the exception propagates through the `finally` — a `yield` there is still
an error; an `unlock()` placed before the `yield` in the `finally` is executed (the lock is released although
the close fails); an `unlock()` only inside an `if` does not count. -/
example : closeSafe [.tryB, .yld, .finallyB, .unlock, .endTry] = true ∧
    closeAt [.tryB, .yld, .finallyB, .yld, .unlock, .endTry] 1 = ⟨false, true⟩ ∧
    closeAt [.tryB, .yld, .exceptB true, .other, .finallyB, .unlock, .yld, .endTry] 1 = ⟨true, true⟩ ∧
    closeAt [.tryB, .yld, .exceptB true, .other, .finallyB, .condB false, .unlock, .endCond false, .endTry] 1 = ⟨false, false⟩ ∧
    closeAt [.condB true, .tryB, .yld, .exceptB true, .other, .endTry, .endCond true, .unlock] 2 = ⟨false, true⟩ ∧
    closeAt [.tryB, .yld, .exceptB false, .other, .finallyB, .unlock, .endTry] 1 = ⟨true, false⟩ := by decide

end Bptk.C18.Gen

namespace Bptk.C18

/-- **Release from the shape of the streamer**: if closing the generator at every `yield` executes `unlock()` and
reaches no further `yield` (`closeSafe`, kernel-decided on the token list read off the real source), and the fact
`unlockOnClientGone` of the machine is that shape fact, then — together with the two other release facts — clause
(f) holds for every stop time, request list and schedule (client-gone events at every suspension point included). -/
theorem C18_release_of_shape (c : Cfg) (prog : List Gen.Tok) (hs : Gen.closeSafe prog = true)
    (hg : c.unlockOnClientGone = Gen.closeSafe prog) (hd : c.streamUnlocksOnDone = true) (he : c.unlockOnError = true)
    (stop : Nat) (ks : List Kind) (sched : Schedule) : ClRelease (run c (State.init stop ks) sched) :=
  C18_release c ((releaseOk_iff c).mpr ⟨hd, he, by rw [hg, hs]⟩) stop ks sched

/-- **witness for yield-in-finally**: a machine whose client-gone fact is the shape fact of the seeded streamer
violates the statement (a stream closed by its client ends holding the lock). -/
theorem C18_witness_yield_in_finally (c : Cfg) (hg : c.unlockOnClientGone = Gen.closeSafe Gen.streamerYieldInFinally) :
    ¬ C18_full c :=
  C18_witness_client_gone c (by rw [hg]; decide)

#print axioms Gen.closeSafe_sound
#print axioms Gen.closeSafe_complete
#print axioms C18_release_of_shape
#print axioms C18_witness_yield_in_finally

end Bptk.C18
