import Bptk.Core.C18
/-!
C18 — property theorems.  Quantifier: every stop time, every list of concurrent requests (any number of
threads, any `numberSteps`), every schedule (`List (thread id × event)`), unbounded.
-/
namespace Bptk.C18

def sumLen (ths : List Thread) : Nat := (ths.map (fun t => t.res.length)).sum

/-- The full property for configuration `c`, on the state reached by an arbitrary schedule (every prefix of
a schedule is a schedule, so the clauses hold in every intermediate state as well). -/
def C18_full (c : Cfg) : Prop :=
  ∀ (stop : Nat) (ks : List Kind) (sched : Schedule),
    let s := run c (State.init stop ks) sched
    -- (a) mutual exclusion between acquire and release
    (∀ (i j : Nat) (ti tj : Thread), s.ths[i]? = some ti → s.ths[j]? = some tj → ti.holds = true → tj.holds = true → i = j) ∧
    -- (b) while a request holds the lock no other request is past its lock test …
    (∀ (i j : Nat) (ti tj : Thread), s.ths[i]? = some ti → s.ths[j]? = some tj → i ≠ j → ti.holds = true → tj.pc.active = false) ∧
    -- (b') … and the next action of any other unfinished request is its refusal, with an empty response
    (∀ (i j : Nat) (ti tj tj' : Thread), s.ths[i]? = some ti → s.ths[j]? = some tj → i ≠ j → ti.holds = true → tj.pc ≠ .done →
        (step c s (j, .go)).1.ths[j]? = some tj' → tj'.st = .refused ∧ tj'.pc = .done ∧ tj'.res = []) ∧
    -- (c) every response contains consecutive steps
    (∀ t ∈ s.ths, t.res = List.range' (t.res.headD 0) t.res.length) ∧
    -- (d) no simulation time is produced twice
    s.sh.produced.Nodup ∧
    -- (e) the session clock advanced by exactly the number of steps returned
    s.sh.clock = sumLen s.ths ∧
    -- (f) the lock is taken only while some unfinished request holds it: free after every terminating request
    (s.sh.lock = true → ∃ t ∈ s.ths, t.holds = true) ∧ (∀ t ∈ s.ths, t.pc = .done → t.holds = false)

/-! ### Invariant -/

/-- per-thread invariant relative to the shared state and the (ghost) owner of the lock. -/
structure TInv (sh : Shared) (o : Option Nat) (i : Nat) (t : Thread) : Prop where
  own : t.holds = true ↔ o = some i
  preFree : t.pc.pre = true → t.holds = false ∧ t.res = []
  actHolds : t.pc.active = true → t.holds = true
  doneFree : t.pc = .done → t.holds = false
  consec : t.res = List.range' t.base t.res.length
  cur : t.holds = true → t.base + t.res.length = sh.clock
  locCur : (t.pc = .sim ∨ t.pc = .write) → t.loc = sh.clock
  suspOk : t.susp = true → t.pc ≠ .done → (t.pc = .genStart ∨ t.holds = true)
  noGen : t.pc ≠ .genStart

structure Inv (s : State) : Prop where
  ex : ∃ o : Option Nat, s.sh.lock = o.isSome ∧ (∀ i t, s.ths[i]? = some t → TInv s.sh o i t) ∧
    (∀ i, o = some i → i < s.ths.length)
  prod : s.sh.produced = List.range s.sh.clock
  sum : sumLen s.ths = s.sh.clock

theorem inv_init (stop : Nat) (ks : List Kind) : Inv (State.init stop ks) := by
  refine ⟨⟨none, rfl, ?_, by simp⟩, rfl, ?_⟩
  · intro i t h
    simp only [State.init, List.getElem?_map, Option.map_eq_some_iff] at h
    obtain ⟨k, _, rfl⟩ := h
    constructor <;> simp [Thread.mk', Pc.pre, Pc.active]
  · simp only [State.init, sumLen, List.map_map]
    induction ks with
    | nil => rfl
    | cons k rest ih => simpa [Thread.mk'] using ih

/-- other threads keep their invariant when thread `i` moves: either nothing they depend on changed, or
`i` was/becomes the owner (then they do not hold the lock, and everything about the clock is vacuous). -/
theorem TInv_frame {sh sh' : Shared} {o o' : Option Nat} {i j : Nat} {t : Thread}
    (h : TInv sh o j t) (hij : j ≠ i)
    (hc : sh'.clock = sh.clock ∨ o = some i)
    (ho : o' = o ∨ ((o = none ∨ o = some i) ∧ (o' = none ∨ o' = some i))) : TInv sh' o' j t := by
  have hnot : (o = none ∨ o = some i) → t.holds = false := by
    intro h1
    cases hh : t.holds with
    | false => rfl
    | true =>
      have := h.own.mp hh
      rcases h1 with h1 | h1 <;> simp_all
  have hown' : t.holds = true ↔ o' = some j := by
    rcases ho with rfl | ⟨h1, h2⟩
    · exact h.own
    · have := hnot h1
      constructor
      · intro hh; simp_all
      · intro hh; rcases h2 with h2 | h2 <;> simp_all
  refine ⟨hown', h.preFree, h.actHolds, h.doneFree, h.consec, ?_, ?_, h.suspOk, h.noGen⟩
  · intro hh
    rcases hc with hc | hc
    · rw [hc]; exact h.cur hh
    · have := hnot (Or.inr hc); simp_all
  · intro hp
    rcases hc with hc | hc
    · rw [hc]; exact h.locCur hp
    · have h1 := hnot (Or.inr hc)
      have h2 := h.actHolds (by rcases hp with hp | hp <;> simp [hp, Pc.active])
      simp_all

theorem range'_snoc (b n : Nat) : List.range' b n ++ [b + n] = List.range' b (n + 1) := by
  rw [List.range'_concat]; simp

/-- the owner after a transition of thread `i`. -/
def newOwner (o : Option Nat) (i : Nat) (t t' : Thread) : Option Nat :=
  if t'.holds then some i else if t.holds then none else o

theorem TInv_iff (sh : Shared) (o : Option Nat) (i : Nat) (t : Thread) :
    TInv sh o i t ↔
      ((t.holds = true ↔ o = some i) ∧ (t.pc.pre = true → t.holds = false ∧ t.res = []) ∧
       (t.pc.active = true → t.holds = true) ∧ (t.pc = .done → t.holds = false) ∧
       (t.res = List.range' t.base t.res.length) ∧ (t.holds = true → t.base + t.res.length = sh.clock) ∧
       ((t.pc = .sim ∨ t.pc = .write) → t.loc = sh.clock) ∧
       (t.susp = true → t.pc ≠ .done → (t.pc = .genStart ∨ t.holds = true)) ∧ t.pc ≠ .genStart) :=
  ⟨fun h => ⟨h.1, h.2, h.3, h.4, h.5, h.6, h.7, h.8, h.9⟩, fun h => ⟨h.1, h.2.1, h.2.2.1, h.2.2.2.1, h.2.2.2.2.1,
    h.2.2.2.2.2.1, h.2.2.2.2.2.2.1, h.2.2.2.2.2.2.2.1, h.2.2.2.2.2.2.2.2⟩⟩

/-- What one transition of thread `i` does to the invariant (good configuration). -/
def Spec (sh : Shared) (o : Option Nat) (i : Nat) (t : Thread) (r : Shared × Thread × Lbl) : Prop :=
    r.1.lock = (newOwner o i t r.2.1).isSome ∧
    TInv r.1 (newOwner o i t r.2.1) i r.2.1 ∧
    (r.1.clock = sh.clock ∨ o = some i) ∧
    (newOwner o i t r.2.1 = o ∨ ((o = none ∨ o = some i) ∧ (newOwner o i t r.2.1 = none ∨ newOwner o i t r.2.1 = some i))) ∧
    ((r.1.clock = sh.clock ∧ r.1.produced = sh.produced ∧ r.2.1.res.length = t.res.length) ∨
     (r.1.clock = sh.clock + 1 ∧ r.1.produced = sh.produced ++ [sh.clock] ∧ r.2.1.res.length = t.res.length + 1))

theorem stepT_spec (c : Cfg) (hc : c.good = true) (sh : Shared) (o : Option Nat) (i : Nat) (t : Thread) (ev : Ev)
    (hl : sh.lock = o.isSome) (ht : TInv sh o i t) : Spec sh o i t (stepT c sh t ev) := by
  obtain ⟨a, b, d, e, f⟩ := c
  simp only [Cfg.good, Bool.and_eq_true] at hc
  obtain ⟨⟨⟨⟨rfl, rfl⟩, rfl⟩, rfl⟩, rfl⟩ := hc
  obtain ⟨h1, h2, h3, h4, h5, h6, h7, h8, h9⟩ := ht
  obtain ⟨kind, pc, st, rem, first, loc, res, msgs, susp, holds, base⟩ := t
  obtain ⟨lock, clock, stop, produced⟩ := sh
  simp only at h1 h2 h3 h4 h5 h6 h7 h8 h9 hl
  cases ev
  · cases pc
    case start =>
      cases lock <;> cases kind <;> by_cases hr0 : rem = 0 <;>
        simp [Spec, TInv_iff, stepT, stepGo, readLock, testAndSet, refuse, acquired, newOwner, Pc.pre, Pc.active, hr0] at * <;> grind
    case checked =>
      cases lock <;> cases kind <;> by_cases hr0 : rem = 0 <;>
        simp [Spec, TInv_iff, stepT, stepGo, testAndSet, refuse, acquired, newOwner, Pc.pre, Pc.active, hr0] at * <;> grind
    case genStart => simp at h9
    case prog =>
      by_cases hcs : clock ≤ stop <;> cases first <;>
        simp [Spec, TInv_iff, stepT, stepGo, newOwner, Pc.pre, Pc.active, hcs] at * <;> grind
    case read =>
      by_cases hcs : clock ≤ stop <;> by_cases hr1 : rem ≤ 1 <;> cases kind <;>
        simp [Spec, TInv_iff, stepT, stepGo, afterStep, newOwner, Pc.pre, Pc.active, hcs, hr1] at * <;> grind
    case write =>
      have hsn := range'_snoc base res.length
      by_cases hr1 : rem ≤ 1 <;> cases kind <;>
        simp [Spec, TInv_iff, stepT, stepGo, afterStep, newOwner, Pc.pre, Pc.active, hr1] at * <;> grind
    all_goals
      simp [Spec, TInv_iff, stepT, stepGo, newOwner, Pc.pre, Pc.active] at * <;> grind
  · cases pc <;> cases kind <;>
      simp [Spec, TInv_iff, stepT, stepFail, newOwner, Pc.pre, Pc.active] at * <;> grind
  · cases susp <;> cases pc <;>
      simp [Spec, TInv_iff, stepT, stepGone, newOwner, Pc.pre, Pc.active] at * <;> grind

theorem sumLen_set (ths : List Thread) (i : Nat) (t t' : Thread) (h : ths[i]? = some t) :
    sumLen (ths.set i t') + t.res.length = sumLen ths + t'.res.length := by
  induction ths generalizing i with
  | nil => simp at h
  | cons x rest ih =>
    cases i with
    | zero => simp at h; subst h; simp [sumLen]; omega
    | succ n =>
      simp at h
      have := ih n h
      simp [sumLen] at this ⊢; omega

theorem inv_step (c : Cfg) (hc : c.good = true) (s : State) (a : Nat × Ev) (h : Inv s) : Inv (step c s a).1 := by
  unfold step
  cases hget : s.ths[a.1]? with
  | none => exact h
  | some t =>
    obtain ⟨o, hl, hall, hex⟩ := h.ex
    obtain ⟨s1, s2, s3, s4, s5⟩ := stepT_spec c hc s.sh o a.1 t a.2 hl (hall _ _ hget)
    have hlen : a.1 < s.ths.length := by
      have := List.getElem?_eq_some_iff.mp hget; exact this.1
    refine ⟨⟨newOwner o a.1 t (stepT c s.sh t a.2).2.1, s1, ?_, ?_⟩, ?_, ?_⟩
    · intro j tj hj
      simp only [List.getElem?_set] at hj
      by_cases hij : a.1 = j
      · subst hij
        simp [hlen] at hj
        subst hj; exact s2
      · simp [hij] at hj
        exact TInv_frame (hall _ _ hj) (fun h => hij h.symm) s3 s4
    · intro j hj
      simp only [List.length_set]
      unfold newOwner at hj
      split at hj
      · simp at hj; omega
      · split at hj
        · simp at hj
        · exact hex j hj
    · show (stepT c s.sh t a.2).1.produced = List.range (stepT c s.sh t a.2).1.clock
      rcases s5 with ⟨e1, e2, _⟩ | ⟨e1, e2, _⟩
      · rw [e1, e2]; exact h.prod
      · rw [e1, e2, h.prod, List.range_succ]
    · show sumLen (s.ths.set a.1 (stepT c s.sh t a.2).2.1) = (stepT c s.sh t a.2).1.clock
      have hs := sumLen_set s.ths a.1 t (stepT c s.sh t a.2).2.1 hget
      have := h.sum
      rcases s5 with ⟨e1, _, e3⟩ | ⟨e1, _, e3⟩ <;> omega

theorem inv_run (c : Cfg) (hc : c.good = true) (sched : Schedule) : ∀ s, Inv s → Inv (run c s sched) := by
  induction sched with
  | nil => intro s h; exact h
  | cons a rest ih => intro s h; exact ih _ (inv_step c hc s a h)

theorem inv_reachable (c : Cfg) (hc : c.good = true) (stop : Nat) (ks : List Kind) (sched : Schedule) :
    Inv (run c (State.init stop ks) sched) := inv_run c hc sched _ (inv_init stop ks)

theorem consec_head (b : Nat) (l : List Nat) (h : l = List.range' b l.length) :
    l = List.range' (l.headD 0) l.length := by
  cases l with
  | nil => rfl
  | cons x rest =>
    simp only [List.length_cons, List.range'_succ, List.cons.injEq] at h
    simp only [List.headD_cons]
    obtain ⟨rfl, h2⟩ := h
    simpa [List.range'_succ] using h2

/-- a request that has not passed its lock test is refused by its next action when the lock is taken. -/
theorem refused_when_locked (c : Cfg) (hc : c.good = true) (sh : Shared) (t : Thread) (hl : sh.lock = true)
    (hp : t.pc.pre = true) (hg : t.pc ≠ .genStart) (hr : t.res = []) :
    (stepT c sh t .go).2.1.st = .refused ∧ (stepT c sh t .go).2.1.pc = .done ∧ (stepT c sh t .go).2.1.res = [] := by
  obtain ⟨a, b, d, e, f⟩ := c
  simp only [Cfg.good, Bool.and_eq_true] at hc
  obtain ⟨⟨⟨⟨rfl, rfl⟩, rfl⟩, rfl⟩, rfl⟩ := hc
  obtain ⟨kind, pc, st, rem, first, loc, res, msgs, susp, holds, base⟩ := t
  simp only at hp hg hr
  cases pc <;> cases kind <;> simp [Pc.pre] at hp hg <;>
    simp [stepT, stepGo, readLock, testAndSet, refuse, hl, hr]

theorem C18_full_of_good (c : Cfg) (hc : c.good = true) : C18_full c := by
  intro stop ks sched s
  have hinv : Inv s := inv_reachable c hc stop ks sched
  obtain ⟨o, hl, hall, hex⟩ := hinv.ex
  have mutex : ∀ (i j : Nat) (ti tj : Thread), s.ths[i]? = some ti → s.ths[j]? = some tj →
      ti.holds = true → tj.holds = true → i = j := by
    intro i j ti tj hi hj h1 h2
    have a := (hall i ti hi).own.mp h1
    have b := (hall j tj hj).own.mp h2
    rw [a] at b; exact Option.some.inj b
  refine ⟨mutex, ?_, ?_, ?_, ?_, ?_, ?_, ?_⟩
  · intro i j ti tj hi hj hne h1
    cases hact : tj.pc.active with
    | false => rfl
    | true => exact absurd (mutex i j ti tj hi hj h1 ((hall j tj hj).actHolds hact)) hne
  · intro i j ti tj tj' hi hj hne h1 hnd hstep
    have hjnot : tj.holds = false := by
      cases hh : tj.holds with
      | false => rfl
      | true => exact absurd (mutex i j ti tj hi hj h1 hh) hne
    have hjinv := hall j tj hj
    have hpre : tj.pc.pre = true := by
      have hna : tj.pc.active = false := by
        cases hact : tj.pc.active with
        | false => rfl
        | true => have := hjinv.actHolds hact; simp [hjnot] at this
      revert hna hnd; cases tj.pc <;> simp [Pc.pre, Pc.active]
    have hlock : s.sh.lock = true := by
      rw [hl, (hall i ti hi).own.mp h1]; rfl
    have hlen : j < s.ths.length := (List.getElem?_eq_some_iff.mp hj).1
    simp only [step, hj, List.getElem?_set, hlen] at hstep
    simp at hstep
    subst hstep
    exact refused_when_locked c hc s.sh tj hlock hpre hjinv.noGen (hjinv.preFree hpre).2
  · intro t ht
    obtain ⟨i, hi⟩ := List.getElem?_of_mem ht
    exact consec_head _ _ (hall i t hi).consec
  · rw [hinv.prod]; exact List.nodup_range
  · exact hinv.sum.symm
  · intro hlk
    rw [hl] at hlk
    cases o with
    | none => simp at hlk
    | some i =>
      have hlen := hex i rfl
      refine ⟨s.ths[i], List.getElem_mem hlen, ?_⟩
      exact (hall i _ (List.getElem?_eq_getElem hlen)).own.mpr rfl
  · intro t ht hd
    obtain ⟨i, hi⟩ := List.getElem?_of_mem ht
    exact (hall i t hi).doneFree hd

/-! ### What holds whatever the configuration -/

theorem stepT_len (c : Cfg) (sh : Shared) (t : Thread) (ev : Ev) :
    (stepT c sh t ev).2.1.res.length + sh.produced.length = t.res.length + (stepT c sh t ev).1.produced.length := by
  obtain ⟨kind, pc, st, rem, first, loc, res, msgs, susp, holds, base⟩ := t
  cases ev
  · cases pc <;> cases kind <;>
      simp [stepT, stepGo, readLock, testAndSet, setLock, refuse, acquired, afterStep] <;> grind
  · simp only [stepT, stepFail]; grind
  · simp only [stepT, stepGone]; grind

/-- Whatever the locking discipline: every step result contained in some response was logged exactly once
for that response (the responses together are as long as the log of produced times). -/
theorem C18_partial (c : Cfg) (stop : Nat) (ks : List Kind) (sched : Schedule) :
    sumLen (run c (State.init stop ks) sched).ths = (run c (State.init stop ks) sched).sh.produced.length := by
  have one : ∀ (s : State) (a : Nat × Ev), sumLen s.ths = s.sh.produced.length →
      sumLen (step c s a).1.ths = (step c s a).1.sh.produced.length := by
    intro s a h
    unfold step
    cases hget : s.ths[a.1]? with
    | none => exact h
    | some t =>
      have h1 := stepT_len c s.sh t a.2
      have h2 := sumLen_set s.ths a.1 t (stepT c s.sh t a.2).2.1 hget
      show sumLen (s.ths.set a.1 (stepT c s.sh t a.2).2.1) = (stepT c s.sh t a.2).1.produced.length
      omega
  have gen : ∀ (sched : Schedule) (s : State), sumLen s.ths = s.sh.produced.length →
      sumLen (run c s sched).ths = (run c s sched).sh.produced.length := by
    intro sched
    induction sched with
    | nil => intro s h; exact h
    | cons a rest ih => intro s h; exact ih _ (one s a h)
  apply gen
  have := (inv_init stop ks).sum
  simpa [State.init] using this

/-! ### Negation witnesses (one per mechanism fact) -/

theorem not_full_of_two_holders (c : Cfg) (stop : Nat) (ks : List Kind) (sched : Schedule) (i j : Nat) (hij : i ≠ j)
    (hi : (run c (State.init stop ks) sched).ths[i]?.map (·.holds) = some true)
    (hj : (run c (State.init stop ks) sched).ths[j]?.map (·.holds) = some true) : ¬ C18_full c := by
  intro hf
  obtain ⟨ti, h1, h2⟩ := Option.map_eq_some_iff.mp hi
  obtain ⟨tj, h3, h4⟩ := Option.map_eq_some_iff.mp hj
  exact hij ((hf stop ks sched).1 i j ti tj h1 h3 h2 h4)

theorem not_full_of_active_while_held (c : Cfg) (stop : Nat) (ks : List Kind) (sched : Schedule) (i j : Nat) (hij : i ≠ j)
    (hi : (run c (State.init stop ks) sched).ths[i]?.map (·.holds) = some true)
    (hj : (run c (State.init stop ks) sched).ths[j]?.map (·.pc.active) = some true) : ¬ C18_full c := by
  intro hf
  obtain ⟨ti, h1, h2⟩ := Option.map_eq_some_iff.mp hi
  obtain ⟨tj, h3, h4⟩ := Option.map_eq_some_iff.mp hj
  have := (hf stop ks sched).2.1 i j ti tj h1 h3 hij h2
  simp [h4] at this

theorem not_full_of_done_holding (c : Cfg) (stop : Nat) (ks : List Kind) (sched : Schedule) (i : Nat)
    (hi : (run c (State.init stop ks) sched).ths[i]?.map (fun t => decide (t.pc = .done) && t.holds) = some true) :
    ¬ C18_full c := by
  intro hf
  obtain ⟨ti, h1, h2⟩ := Option.map_eq_some_iff.mp hi
  simp only [Bool.and_eq_true, decide_eq_true_eq] at h2
  have := (hf stop ks sched).2.2.2.2.2.2.2 ti (List.mem_of_getElem? h1) h2.1
  simp [h2.2] at this

/-- check-then-act acquisition (`is_locked()` … `lock()`): two concurrent `run-steps` both pass the test
before either sets the lock; both are inside the critical section. -/
theorem C18_witness_toctou (c : Cfg) (h : c.lockIsTestAndSet = false) : ¬ C18_full c := by
  obtain ⟨a, b, d, e, f⟩ := c
  simp only at h; subst h
  apply not_full_of_two_holders _ 5 [.runSteps 1, .runSteps 1] [(0, .go), (1, .go), (0, .go), (1, .go)] 0 1 (by decide) <;>
    cases b <;> cases d <;> cases e <;> cases f <;> decide

/-- `run-step` only tests the lock: it passes the test, then a `run-steps` acquires, and the single step
runs inside the other request's critical section. -/
theorem C18_witness_run_step_unlocked (c : Cfg) (h : c.runStepTakesLock = false) : ¬ C18_full c := by
  obtain ⟨a, b, d, e, f⟩ := c
  simp only at h; subst h
  apply not_full_of_active_while_held _ 5 [.runSteps 1, .runStep] [(1, .go), (0, .go), (0, .go)] 0 1 (by decide) <;>
    cases a <;> cases d <;> cases e <;> cases f <;> decide

/-- a stream that runs to completion never unlocks (sequential: one request, no concurrency). -/
theorem C18_witness_stream_completion (c : Cfg) (h : c.streamUnlocksOnDone = false) : ¬ C18_full c := by
  obtain ⟨a, b, d, e, f⟩ := c
  simp only at h; subst h
  apply not_full_of_done_holding _ 1 [.stream] (List.replicate 18 (0, .go)) 0
  cases a <;> cases b <;> cases e <;> cases f <;> decide

/-- a raising `run_step` leaves the lock set. -/
theorem C18_witness_error (c : Cfg) (h : c.unlockOnError = false) : ¬ C18_full c := by
  obtain ⟨a, b, d, e, f⟩ := c
  simp only at h; subst h
  apply not_full_of_done_holding _ 5 [.runSteps 1] [(0, .go), (0, .go), (0, .go), (0, .fail)] 0
  cases a <;> cases b <;> cases d <;> cases f <;> decide

/-- closing a suspended stream leaves the lock set. -/
theorem C18_witness_client_gone (c : Cfg) (h : c.unlockOnClientGone = false) : ¬ C18_full c := by
  obtain ⟨a, b, d, e, f⟩ := c
  simp only at h; subst h
  apply not_full_of_done_holding _ 5 [.stream]
    (if a then [(0, .go), (0, .gone)] else [(0, .go), (0, .go), (0, .go), (0, .gone)]) 0
  cases a <;> cases b <;> cases d <;> cases e <;> decide

/-! ### Non-vacuity: concrete runs of the good configuration -/

def goodCfg : Cfg := ⟨true, true, true, true, true⟩

/-- a `run-steps 2`, a stream and a `run-step` interleaved: the stream is refused while the `run-steps`
holds the lock, the `run-step` runs afterwards; times 0,1 and 2 are produced once each. -/
example :
    let s := run goodCfg (State.init 3 [.runSteps 2, .stream, .runStep])
      [(0, .go), (0, .go), (0, .go), (1, .go), (0, .go), (0, .go), (0, .go), (0, .go), (0, .go), (0, .go),
       (2, .go), (2, .go), (2, .go), (2, .go), (2, .go)]
    s.ths.map (fun t => (t.st, t.res)) = [(.ok, [0, 1]), (.refused, []), (.ok, [2])] ∧
      s.sh.clock = 3 ∧ s.sh.lock = false ∧ s.sh.produced = [0, 1, 2] := by decide

/-- a stream over stop time 1 whose client goes away after the first step's chunk: lock released. -/
example :
    let s := run goodCfg (State.init 1 [.stream])
      [(0, .go), (0, .go), (0, .go), (0, .go), (0, .go), (0, .go), (0, .go), (0, .gone)]
    s.ths.map (fun t => (t.st, t.res, t.holds)) = [(.gone, [0], false)] ∧ s.sh.lock = false := by decide

#print axioms C18_full_of_good
#print axioms C18_partial
#print axioms C18_witness_toctou
#print axioms C18_witness_run_step_unlocked
#print axioms C18_witness_stream_completion
#print axioms C18_witness_error
#print axioms C18_witness_client_gone

end Bptk.C18
