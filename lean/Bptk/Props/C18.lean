import Bptk.Core.C18
/-!
C18 — property theorems.  Quantifier: every stop time, every list of concurrent requests (any number of
threads, any `numberSteps`), every schedule (`List (thread id × event)`), unbounded.
-/
namespace Bptk.C18

def sumLen (ths : List Thread) : Nat := (ths.map (fun t => t.res.length)).sum

/-- The full property for configuration `c`, on the state reached by an arbitrary schedule (every prefix of
a schedule is a schedule, so the clauses hold in every intermediate state as well). -/
def C18_full (c : Cfg) : Prop :=
  ∀ (stop : Nat) (ks : List Kind) (sched : Schedule),
    let s := run c (State.init stop ks) sched
    -- (a) mutual exclusion between acquire and release
    (∀ (i j : Nat) (ti tj : Thread), s.ths[i]? = some ti → s.ths[j]? = some tj → ti.holds = true → tj.holds = true → i = j) ∧
    -- (b) while a request holds the lock no other request is past its lock test …
    (∀ (i j : Nat) (ti tj : Thread), s.ths[i]? = some ti → s.ths[j]? = some tj → i ≠ j → ti.holds = true → tj.pc.active = false) ∧
    -- (b') … and the next action of any other unfinished request is its refusal, with an empty response
    (∀ (i j : Nat) (ti tj tj' : Thread), s.ths[i]? = some ti → s.ths[j]? = some tj → i ≠ j → ti.holds = true → tj.pc ≠ .done →
        (step c s (j, .go)).1.ths[j]? = some tj' → tj'.st = .refused ∧ tj'.pc = .done ∧ tj'.res = []) ∧
    -- (c) every response contains consecutive steps
    (∀ t ∈ s.ths, t.res = List.range' (t.res.headD 0) t.res.length) ∧
    -- (d) no simulation time is produced twice
    s.sh.produced.Nodup ∧
    -- (e) the session clock advanced by exactly the number of steps returned
    s.sh.clock = sumLen s.ths ∧
    -- (f) the lock is taken only while some unfinished request holds it: free after every terminating request
    (s.sh.lock = true → ∃ t ∈ s.ths, t.holds = true) ∧ (∀ t ∈ s.ths, t.pc = .done → t.holds = false)

/-! ### Invariant -/

/-- per-thread invariant relative to the shared state and the (ghost) owner of the lock. -/
structure TInv (sh : Shared) (o : Option Nat) (i : Nat) (t : Thread) : Prop where
  own : t.holds = true ↔ o = some i
  preFree : t.pc.pre = true → t.holds = false ∧ t.res = []
  actHolds : t.pc.active = true → t.holds = true
  doneFree : t.pc = .done → t.holds = false
  consec : t.res = List.range' t.base t.res.length
  cur : t.holds = true → t.base + t.res.length = sh.clock
  locCur : (t.pc = .sim ∨ t.pc = .write) → t.loc = sh.clock
  suspOk : t.susp = true → t.pc ≠ .done → (t.pc = .genStart ∨ t.holds = true)

structure Inv (s : State) : Prop where
  ex : ∃ o : Option Nat, s.sh.lock = o.isSome ∧ ∀ i t, s.ths[i]? = some t → TInv s.sh o i t
  prod : s.sh.produced = List.range s.sh.clock
  sum : sumLen s.ths = s.sh.clock

theorem inv_init (stop : Nat) (ks : List Kind) : Inv (State.init stop ks) := by
  refine ⟨⟨none, rfl, ?_⟩, rfl, ?_⟩
  · intro i t h
    simp only [State.init, List.getElem?_map, Option.map_eq_some_iff] at h
    obtain ⟨k, _, rfl⟩ := h
    constructor <;> simp [Thread.mk', Pc.pre, Pc.active]
  · simp only [State.init, sumLen, List.map_map]
    induction ks with
    | nil => rfl
    | cons k rest ih => simpa [Thread.mk'] using ih

/-- other threads keep their invariant when thread `i` moves: either nothing they depend on changed, or
`i` was/becomes the owner (then they do not hold the lock, and everything about the clock is vacuous). -/
theorem TInv_frame {sh sh' : Shared} {o o' : Option Nat} {i j : Nat} {t : Thread}
    (h : TInv sh o j t) (hij : j ≠ i)
    (hc : sh'.clock = sh.clock ∨ o = some i)
    (ho : o' = o ∨ ((o = none ∨ o = some i) ∧ (o' = none ∨ o' = some i))) : TInv sh' o' j t := by
  have hnot : (o = none ∨ o = some i) → t.holds = false := by
    intro h1
    cases hh : t.holds with
    | false => rfl
    | true =>
      have := h.own.mp hh
      rcases h1 with h1 | h1 <;> simp_all
  have hown' : t.holds = true ↔ o' = some j := by
    rcases ho with rfl | ⟨h1, h2⟩
    · exact h.own
    · have := hnot h1
      constructor
      · intro hh; simp_all
      · intro hh; rcases h2 with h2 | h2 <;> simp_all
  refine ⟨hown', h.preFree, h.actHolds, h.doneFree, h.consec, ?_, ?_, h.suspOk⟩
  · intro hh
    rcases hc with hc | hc
    · rw [hc]; exact h.cur hh
    · have := hnot (Or.inr hc); simp_all
  · intro hp
    rcases hc with hc | hc
    · rw [hc]; exact h.locCur hp
    · have h1 := hnot (Or.inr hc)
      have h2 := h.actHolds (by rcases hp with hp | hp <;> simp [hp, Pc.active])
      simp_all

theorem range'_snoc (b n : Nat) : List.range' b n ++ [b + n] = List.range' b (n + 1) := by
  rw [List.range'_concat]; simp

/-- the owner after a transition of thread `i`. -/
def newOwner (o : Option Nat) (i : Nat) (t t' : Thread) : Option Nat :=
  if t'.holds then some i else if t.holds then none else o

/-- What one transition of thread `i` does to the invariant (good configuration). -/
theorem stepT_spec (c : Cfg) (hc : c.good = true) (sh : Shared) (o : Option Nat) (i : Nat) (t : Thread) (ev : Ev)
    (hl : sh.lock = o.isSome) (ht : TInv sh o i t) :
    (stepT c sh t ev).1.lock = (newOwner o i t (stepT c sh t ev).2.1).isSome ∧
    TInv (stepT c sh t ev).1 (newOwner o i t (stepT c sh t ev).2.1) i (stepT c sh t ev).2.1 ∧
    ((stepT c sh t ev).1.clock = sh.clock ∨ o = some i) ∧
    (((stepT c sh t ev).1.clock = sh.clock ∧ (stepT c sh t ev).1.produced = sh.produced ∧
        (stepT c sh t ev).2.1.res.length = t.res.length) ∨
     ((stepT c sh t ev).1.clock = sh.clock + 1 ∧ (stepT c sh t ev).1.produced = sh.produced ++ [sh.clock] ∧
        (stepT c sh t ev).2.1.res.length = t.res.length + 1)) := by
  obtain ⟨a, b, d, e, f⟩ := c
  simp only [Cfg.good, Bool.and_eq_true] at hc
  obtain ⟨⟨⟨⟨rfl, rfl⟩, rfl⟩, rfl⟩, rfl⟩ := hc
  obtain ⟨h1, h2, h3, h4, h5, h6, h7, h8⟩ := ht
  obtain ⟨kind, pc, st, rem, first, loc, res, msgs, susp, holds, base⟩ := t
  obtain ⟨lock, clock, stop, produced⟩ := sh
  simp only at h1 h2 h3 h4 h5 h6 h7 h8 hl
  cases ev
  · cases pc <;> cases kind <;>
      simp [stepT, stepGo, readLock, testAndSet, setLock, refuse, acquired, afterStep, newOwner, Pc.pre, Pc.active] at * <;>
      sorry
  · cases pc <;> cases kind <;>
      simp [stepT, stepFail, newOwner, Pc.pre, Pc.active] at * <;> sorry
  · cases pc <;> cases kind <;>
      simp [stepT, stepGone, newOwner, Pc.pre, Pc.active] at * <;> trace_state <;> sorry

end Bptk.C18
