import Bptk.Core.C16
/-!
C16 — property theorems.  Quantifier: every number of initial instances, with or without an external state
adapter, every request sequence (= every interleaving, at request granularity, of the per-owner request lists;
owners: every instance id and the server-level object that `/run`, `/equations`, `/agents` use), every owner.
Requests: begin-session (with settings), run-step (with settings), session-results, end-session, keep-alive, stop,
timeout, instance creation during the history, `/run` (with settings), `/equations`, `/agents`; an instance that
timed out is restored lazily from its externalised state by its next request.
-/
namespace Bptk.C16
open Bptk.C06 (Store)

/-- The full property: the responses an owner `t` (an instance, or the server-level object) gets in an
interleaved history are those it gets when the requests of all other owners (including their creation, stop,
timeout and lazy restoration) are never made. -/
def C16_full (c : Cfg) : Prop :=
  ∀ (fac : Obj) (k : Nat) (ad : Bool) (ops : List (Nat × Req)) (t : Option Nat),
    respsOf t (resps c (Server.initF fac k ad) ops) = respsOf t (resps c (Server.initF fac k ad) (proj t ops))

def Req.noSetting : Req → Bool
  | .runStep st => st.isEmpty
  | .beginSession st => st.isEmpty
  | .run st => st.isEmpty
  | _ => true

/-! ### nothing shared: the cell `g` is neither read nor written -/

theorem writeMod_good (c : Cfg) (h : c.instancesShareNothing = true) (g : Proc) (m u : Store) :
    writeMod c g m u = (g, Store.update m u) := by
  simp [writeMod, h]

theorem effOf_good (c : Cfg) (h : c.instancesShareNothing = true) (g : Proc) (m : Store) : effOf c g m = m := by
  simp [effOf, h]

/-- settings that are empty write nothing, whatever is shared -/
theorem writeMod_nil (c : Cfg) (g : Proc) (m : Store) : writeMod c g m [] = (g, m) := by
  simp only [writeMod]; split
  · rfl
  · split <;> rfl

theorem writeScn_good (c : Cfg) (h : c.instancesShareNothing = true) (g : Proc) (m u : Store) :
    writeScn c g m u = (g, Store.update m u) := by
  simp [writeScn, h]

theorem readScn_good (c : Cfg) (h : c.instancesShareNothing = true) (g : Proc) (m : Store) : readScn c g m = m := by
  simp [readScn, h]

theorem writeScn_nil (c : Cfg) (g : Proc) (m : Store) : writeScn c g m [] = (g, m) := by
  simp only [writeScn]; split
  · rfl
  · split
    · rfl
    · split <;> rfl

theorem objBegin_good (c : Cfg) (h : c.instancesShareNothing = true) (g g' : Proc) (o : Obj) (st : Store) :
    objBegin c g o st = (g, (objBegin c g' o st).2) := by
  simp [objBegin, writeScn_good c h]

theorem objStep_good (c : Cfg) (h : c.instancesShareNothing = true) (g g' : Proc) (o : Obj) (s : Sess) (st : Store) :
    objStep c g o s st = (g, (objStep c g' o s st).2) := by
  simp [objStep, writeMod_good c h, effOf_good c h, readScn_good c h]

theorem replayFold_good (c : Cfg) (h : c.instancesShareNothing = true) (g g' : Proc) :
    ∀ (l : List Store) (m : Store) (a : List Store),
      l.foldl (replayStep c) (g, m, a) = (g, (l.foldl (replayStep c) (g', m, a)).2) := by
  intro l
  induction l with
  | nil => intro m a; rfl
  | cons st rest ih =>
      intro m a
      simp only [List.foldl_cons, replayStep, writeMod_good c h, effOf_good c h]
      exact ih _ _

theorem replay_good (c : Cfg) (h : c.instancesShareNothing = true) (g g' : Proc) (o : Obj) (s : Sess) :
    replay c g o s = (g, (replay c g' o s).2) := by
  simp only [replay, writeScn_good c h, readScn_good c h]
  rw [replayFold_good c h g g']

theorem revive_good (c : Cfg) (h : c.instancesShareNothing = true) (ad : Bool) (g g' : Proc) (src : Obj) (x : Inst) :
    revive c ad g src x = (g, (revive c ad g' src x).2) := by
  simp only [revive]
  split
  · rfl
  · split
    · split
      · rw [replay_good c h g g']
      · rfl
    · rfl

/-- without an adapter nothing is ever restored -/
theorem revive_noAd (c : Cfg) (g : Proc) (src : Obj) (x : Inst) : revive c false g src x = (g, x, false) := by
  simp [revive]

/-- with nothing shared, a request's response, the instance's next state and whether an object was taken do not
depend on the process-wide cell, and the cell is not written. -/
theorem stepInst_good (c : Cfg) (h : c.instancesShareNothing = true) (ad : Bool) (g g' : Proc) (src : Obj) (x : Inst)
    (r : Req) : stepInst c ad g src x r = (g, (stepInst c ad g' src x r).2) := by
  have hr := revive_good c h ad g g' src x
  cases r <;> simp only [stepInst] <;> (try rfl)
  all_goals rw [hr]
  all_goals simp only [h, Bool.not_true, Bool.false_and, Bool.false_eq_true, if_false]
  · split
    · rw [objBegin_good c h g g', objBegin_good c h (revive c ad g' src x).1 g']
    · rfl
  · split
    · rw [objBegin_good c h g g', objBegin_good c h (revive c ad g' src x).1 g']
    · rfl
  · split
    · split
      · rfl
      · rw [objStep_good c h g g', objStep_good c h (revive c ad g' src x).1 g']
    · rfl
  · split <;> rfl
  · split <;> rfl
  · split <;> rfl

theorem stepInst_indep (c : Cfg) (h : c.instancesShareNothing = true) (ad : Bool) (g g' : Proc) (src : Obj) (x : Inst)
    (r : Req) : (stepInst c ad g src x r).2 = (stepInst c ad g' src x r).2 := by
  rw [stepInst_good c h ad g g']

theorem stepInst_keeps_g (c : Cfg) (h : c.instancesShareNothing = true) (ad : Bool) (g : Proc) (src : Obj) (x : Inst)
    (r : Req) : (stepInst c ad g src x r).1 = g := by
  rw [stepInst_good c h ad g ⟨[], [], []⟩]

theorem stepOwn_good (c : Cfg) (h : c.instancesShareNothing = true) (g g' : Proc) (o : Obj) (r : Req) :
    stepOwn c g o r = (g, (stepOwn c g' o r).2) := by
  cases r <;> simp [stepOwn, writeScn_good c h, readScn_good c h, effOf_good c h]

theorem stepOwn_indep (c : Cfg) (h : c.instancesShareNothing = true) (g g' : Proc) (o : Obj) (r : Req) :
    (stepOwn c g o r).2 = (stepOwn c g' o r).2 := by
  rw [stepOwn_good c h g g']

theorem stepOwn_keeps_g (c : Cfg) (h : c.instancesShareNothing = true) (g : Proc) (o : Obj) (r : Req) :
    (stepOwn c g o r).1 = g := by
  rw [stepOwn_good c h g ⟨[], [], []⟩]

/-- without an adapter, a request that carries no setting never writes the process-wide cell. -/
theorem stepInst_g (c : Cfg) (hH : c.sharedIsHandlerDefaults = false) (g : Proc) (src : Obj) (x : Inst) (r : Req)
    (h : r.noSetting = true) : (stepInst c false g src x r).1 = g := by
  cases r with
  | runStep st =>
    simp only [Req.noSetting, List.isEmpty_iff] at h; subst h
    simp only [stepInst, revive_noAd]
    split
    · split
      · rfl
      · simp [objStep, writeMod_nil]
    · rfl
  | beginSession st =>
    simp only [Req.noSetting, List.isEmpty_iff] at h; subst h
    simp only [stepInst, revive_noAd, hH, Bool.and_false, Bool.false_eq_true, if_false]
    split
    · simp [objBegin, writeScn_nil]
    · rfl
  | beginOmit =>
    simp only [stepInst, revive_noAd, hH, Bool.and_false, Bool.false_eq_true, if_false]
    split
    · simp [objBegin, writeScn_nil]
    · rfl
  | _ => simp only [stepInst, revive_noAd] <;> (try split) <;> rfl

theorem stepOwn_g (c : Cfg) (g : Proc) (o : Obj) (r : Req) (h : r.noSetting = true) : (stepOwn c g o r).1 = g := by
  cases r with
  | run st =>
    simp only [Req.noSetting, List.isEmpty_iff] at h; subst h
    simp [stepOwn, writeScn_nil]
  | _ => rfl

/-- **Freshness**: with `freshObjects`, whatever happened on the server before, the object the next started or
restored instance gets is a new factory product — one no earlier instance has written to. -/
theorem takeObj_fresh (c : Cfg) (h : c.freshObjects = true) (s : Server) : takeObj c s = s.fac := by
  simp [takeObj, h]

/-- with the good mechanism, or without an adapter, looking an id up touches nobody -/
theorem preRestore_id (c : Cfg) (s : Server) (op : Nat × Req) (h : c.restoreOnlyAddressed = true ∨ s.ad = false) :
    preRestore c s op = s := by
  rcases h with h | h <;> simp [preRestore, h]

/-! taking an object from `_make_bptk` and sparing one touch only the spare list and the factory counter -/
@[simp] theorem tookObj_g (c : Cfg) (s : Server) : (tookObj c s).g = s.g := by
  unfold tookObj; split; · rfl
  split <;> rfl
@[simp] theorem tookObj_ad (c : Cfg) (s : Server) : (tookObj c s).ad = s.ad := by
  unfold tookObj; split; · rfl
  split <;> rfl
@[simp] theorem tookObj_own (c : Cfg) (s : Server) : (tookObj c s).own = s.own := by
  unfold tookObj; split; · rfl
  split <;> rfl
@[simp] theorem tookObj_insts (c : Cfg) (s : Server) : (tookObj c s).insts = s.insts := by
  unfold tookObj; split; · rfl
  split <;> rfl
@[simp] theorem spareObj_ad (c : Cfg) (s : Server) (x : Inst) (r : Req) : (spareObj c s x r).ad = s.ad := by
  unfold spareObj; split <;> rfl
@[simp] theorem spareObj_own (c : Cfg) (s : Server) (x : Inst) (r : Req) : (spareObj c s x r).own = s.own := by
  unfold spareObj; split <;> rfl
@[simp] theorem tookObj_fac (c : Cfg) (s : Server) : (tookObj c s).fac = s.fac := by
  unfold tookObj; split; · rfl
  split <;> rfl
@[simp] theorem spareObj_fac (c : Cfg) (s : Server) (x : Inst) (r : Req) : (spareObj c s x r).fac = s.fac := by
  unfold spareObj; split <;> rfl
@[simp] theorem tookIf_fac (c : Cfg) (s : Server) (b : Bool) : (if b = true then tookObj c s else s).fac = s.fac := by
  split <;> simp
@[simp] theorem tookIf_ad (c : Cfg) (s : Server) (b : Bool) : (if b = true then tookObj c s else s).ad = s.ad := by
  split <;> simp
@[simp] theorem tookIf_own (c : Cfg) (s : Server) (b : Bool) : (if b = true then tookObj c s else s).own = s.own := by
  split <;> simp

theorem stepNone_frame (c : Cfg) (s : Server) (i : Nat) (r : Req) :
    (stepNone c s i r).1.g = s.g ∧ (stepNone c s i r).1.ad = s.ad ∧ (stepNone c s i r).1.own = s.own ∧
    ∀ j, j ≠ i → (stepNone c s i r).1.insts j = s.insts j := by
  cases r <;> simp [stepNone, updFn]
  intro j hj; simp [hj]

theorem stepNone_fac (c : Cfg) (s : Server) (i : Nat) (r : Req) : (stepNone c s i r).1.fac = s.fac := by
  cases r <;> simp [stepNone]

theorem stepNone_local (c : Cfg) (hF : c.freshObjects = true) (s s' : Server) (i : Nat) (r : Req)
    (h : s.insts i = s'.insts i) (hfac : s.fac = s'.fac) :
    (stepNone c s i r).2 = (stepNone c s' i r).2 ∧ (stepNone c s i r).1.insts i = (stepNone c s' i r).1.insts i := by
  cases r <;> simp [stepNone, updFn, h, takeObj_fresh c hF, hfac]

/-- the factory's output is a constant of the server -/
theorem step_fac (c : Cfg) (s : Server) (op : Nat × Req) : (step c s op).1.fac = s.fac := by
  unfold step
  have hp : (preRestore c s op).fac = s.fac := by unfold preRestore; split <;> rfl
  by_cases hs : op.2.serverLevel = true
  · simp only [hs, if_true]
  · simp only [hs, Bool.false_eq_true, if_false]
    cases hx : (preRestore c s op).insts op.1 with
    | none => simp only []; rw [stepNone_fac]; exact hp
    | some x => simp [hp]

/-- a request leaves every other owner's part of the server alone, and never changes whether an adapter exists -/
theorem step_other (c : Cfg) (s : Server) (op : Nat × Req) (t : Option Nat) (h : owner op ≠ t)
    (hR : c.restoreOnlyAddressed = true ∨ s.ad = false) :
    comp t (step c s op).1 = comp t s ∧ (step c s op).1.ad = s.ad := by
  unfold step
  simp only [preRestore_id c s op hR]
  by_cases hs : op.2.serverLevel = true
  · simp only [hs, if_true]
    refine ⟨?_, by first | rfl | trivial⟩
    cases t with
    | none => simp [owner, hs] at h
    | some i => rfl
  · simp only [hs]
    have ho : owner op = some op.1 := by simp [owner, hs]
    cases hx : s.insts op.1 with
    | none =>
      simp only [Bool.false_eq_true, if_false]
      obtain ⟨_, f2, f3, f4⟩ := stepNone_frame c s op.1 op.2
      refine ⟨?_, f2⟩
      cases t with
      | none => simp [comp, f3]
      | some i =>
        have : i ≠ op.1 := fun e => h (by rw [ho, e])
        simp [comp, f4 i this]
    | some x =>
      simp only [Bool.false_eq_true, if_false]
      refine ⟨?_, by simp⟩
      cases t with
      | none => simp [comp]
      | some i =>
        have : i ≠ op.1 := fun e => h (by rw [ho, e])
        simp [comp, updFn, this]

/-- locality: the response to a request and its owner's next state are determined by the owner's part of the
server (plus the shared cell when something is shared). -/
theorem step_local (c : Cfg) (s s' : Server) (op : Nat × Req)
    (hc : comp (owner op) s = comp (owner op) s') (had : s.ad = s'.ad)
    (hg : c.instancesShareNothing = true ∨ s.g = s'.g) (hR : c.restoreOnlyAddressed = true ∨ s.ad = false)
    (hF : c.freshObjects = true) (hfac : s.fac = s'.fac) :
    (step c s op).2 = (step c s' op).2 ∧ comp (owner op) (step c s op).1 = comp (owner op) (step c s' op).1 ∧
    (c.instancesShareNothing = true ∨ (step c s op).1.g = (step c s' op).1.g) := by
  have hR' : c.restoreOnlyAddressed = true ∨ s'.ad = false := by rw [← had]; exact hR
  unfold step
  simp only [preRestore_id c s op hR, preRestore_id c s' op hR']
  by_cases hs : op.2.serverLevel = true
  · simp only [hs, if_true]
    have ho : owner op = none := by simp [owner, hs]
    rw [ho] at hc ⊢
    have hc' : s.own = s'.own := by simpa [comp] using hc
    rw [hc']
    rcases hg with hg | hg
    · have := stepOwn_indep c hg s.g s'.g s'.own op.2
      exact ⟨by rw [this], by simp [comp, this], Or.inl hg⟩
    · rw [hg]; exact ⟨rfl, rfl, Or.inr rfl⟩
  · simp only [hs]
    have ho : owner op = some op.1 := by simp [owner, hs]
    rw [ho] at hc ⊢
    simp only [comp] at hc
    rw [← hc, ← had]
    cases hx : s.insts op.1 with
    | none =>
      simp only [Bool.false_eq_true, if_false]
      have hl := stepNone_local c hF s s' op.1 op.2 hc hfac
      have f := stepNone_frame c s op.1 op.2
      have f' := stepNone_frame c s' op.1 op.2
      refine ⟨hl.1, by simpa [comp] using hl.2, ?_⟩
      rcases hg with hg | hg
      · exact Or.inl hg
      · exact Or.inr (by rw [f.1, f'.1, hg])
    | some x =>
      simp only [Bool.false_eq_true, if_false]
      rw [takeObj_fresh c hF s, takeObj_fresh c hF s', ← hfac]
      rcases hg with hg | hg
      · have := stepInst_indep c hg s.ad s.g s'.g s.fac x op.2
        exact ⟨by rw [this], by simp [comp, updFn, this], Or.inl hg⟩
      · rw [hg]; exact ⟨rfl, by simp [comp, updFn], Or.inr rfl⟩

/-- without an adapter, a request without a setting never writes the shared cell -/
theorem step_g (c : Cfg) (hH : c.sharedIsHandlerDefaults = false) (s : Server) (op : Nat × Req) (had : s.ad = false)
    (h : op.2.noSetting = true) :
    (step c s op).1.g = s.g := by
  unfold step
  simp only [preRestore_id c s op (Or.inr had)]
  by_cases hs : op.2.serverLevel = true
  · simp only [hs, if_true]; exact stepOwn_g c s.g s.own op.2 h
  · simp only [hs]
    cases hx : s.insts op.1 with
    | none => simp only [Bool.false_eq_true, if_false]; exact (stepNone_frame c s op.1 op.2).1
    | some x => simp only [Bool.false_eq_true, if_false, had]; exact stepInst_g c hH s.g _ x op.2 h

/-- with nothing shared no request writes the shared cell -/
theorem step_keeps_g (c : Cfg) (h : c.instancesShareNothing = true) (s : Server) (op : Nat × Req)
    (hR : c.restoreOnlyAddressed = true ∨ s.ad = false) : (step c s op).1.g = s.g := by
  unfold step
  simp only [preRestore_id c s op hR]
  by_cases hs : op.2.serverLevel = true
  · simp only [hs, if_true]; exact stepOwn_keeps_g c h s.g s.own op.2
  · simp only [hs]
    cases hx : s.insts op.1 with
    | none => simp only [Bool.false_eq_true, if_false]; exact (stepNone_frame c s op.1 op.2).1
    | some x => simp only [Bool.false_eq_true, if_false]; exact stepInst_keeps_g c h s.ad s.g _ x op.2

/-- the generalised commutation lemma: two servers that agree on owner `t`'s part (and, when something is
shared, on the shared cell) answer `t`'s requests alike, whatever is addressed to the others in between. -/
theorem proj_resps (c : Cfg) (hF : c.freshObjects = true)
    (hH : c.sharedIsHandlerDefaults = false ∨ (c.instancesShareNothing = true ∧ c.restoreOnlyAddressed = true))
    (t : Option Nat) (ops : List (Nat × Req))
    (hops : (c.instancesShareNothing = true ∧ c.restoreOnlyAddressed = true) ∨
      ∀ op ∈ ops, owner op ≠ t → op.2.noSetting = true) :
    ∀ (s s' : Server), comp t s = comp t s' → s.ad = s'.ad → s.fac = s'.fac →
      ((c.instancesShareNothing = true ∧ c.restoreOnlyAddressed = true) ∨ (s.g = s'.g ∧ s.ad = false)) →
      respsOf t (resps c s ops) = respsOf t (resps c s' (proj t ops)) := by
  induction ops with
  | nil => intro s s' _ _ _ _; rfl
  | cons op rest ih =>
    intro s s' hi had hfac hg
    have hR : c.restoreOnlyAddressed = true ∨ s.ad = false := by
      rcases hg with h | h
      · exact Or.inl h.2
      · exact Or.inr h.2
    have hR' : c.restoreOnlyAddressed = true ∨ s'.ad = false := by rw [← had]; exact hR
    have hrest : (c.instancesShareNothing = true ∧ c.restoreOnlyAddressed = true) ∨
        ∀ op ∈ rest, owner op ≠ t → op.2.noSetting = true := by
      rcases hops with h | h
      · exact Or.inl h
      · exact Or.inr (fun o ho => h o (List.mem_cons_of_mem _ ho))
    by_cases hop : owner op = t
    · -- `t`'s own request: kept by the projection; same part, same answer, same next part
      have hp : proj t (op :: rest) = op :: proj t rest := by simp [proj, hop]
      rw [hp]
      simp only [resps, respsOf, hop, List.filter_cons, beq_self_eq_true, if_true, List.map_cons]
      subst hop
      have hg' : c.instancesShareNothing = true ∨ s.g = s'.g := by
        rcases hg with h | h
        · exact Or.inl h.1
        · exact Or.inr h.1
      obtain ⟨h1, h2, h3⟩ := step_local c s s' op hi had hg' hR hF hfac
      rw [h1]
      congr 1
      have a1 := (step_other c s op (some (op.1 + 1)) (by
        simp only [owner]; split <;> simp) hR).2
      have a2 := (step_other c s' op (some (op.1 + 1)) (by
        simp only [owner]; split <;> simp) hR').2
      apply ih hrest _ _ h2 (by rw [a1, a2, had]) (by rw [step_fac, step_fac, hfac])
      rcases hg with h | h
      · exact Or.inl h
      · rcases h3 with h3 | h3
        · exact Or.inr ⟨by rw [step_keeps_g c h3 s op hR, step_keeps_g c h3 s' op hR']; exact h.1,
            by rw [a1]; exact h.2⟩
        · exact Or.inr ⟨h3, by rw [a1]; exact h.2⟩
    · -- another owner's request: dropped by the projection; `t`'s part is untouched
      have hp : proj t (op :: rest) = proj t rest := by simp [proj, hop]
      rw [hp]
      have hb : (owner op == t) = false := by simpa using hop
      simp only [resps, respsOf, List.filter_cons, hb]
      have ho := step_other c s op t hop hR
      apply ih hrest
      · rw [ho.1]; exact hi
      · rw [ho.2]; exact had
      · rw [step_fac]; exact hfac
      · rcases hg with hg | hg
        · exact Or.inl hg
        · rcases hops with h | h
          · exact Or.inl h
          · rcases hH with hH | hH
            · refine Or.inr ⟨?_, by rw [ho.2]; exact hg.2⟩
              rw [step_g c hH s op hg.2 (h op List.mem_cons_self hop)]; exact hg.1
            · exact Or.inl hH

theorem C16_full_of_good (c : Cfg) (h : c.instancesShareNothing = true) (hr : c.restoreOnlyAddressed = true)
    (hF : c.freshObjects = true) : C16_full c := by
  intro fac k ad ops t
  exact proj_resps c hF (Or.inr ⟨h, hr⟩) t ops (Or.inl ⟨h, hr⟩) _ _ rfl rfl rfl (Or.inl ⟨h, hr⟩)

/-- The responses carry what the numbers are a function of (time index, effective settings of every step of the
live simulation; logged rows; the settings a run reads), so for ANY numeric simulator `Sim` the actual response
values of an owner in an interleaving equal those of its own requests alone. -/
theorem C16_values {R : Type} (Sim : Option Resp → R) (c : Cfg) (h : c.instancesShareNothing = true)
    (hr : c.restoreOnlyAddressed = true) (hF : c.freshObjects = true) (fac : Obj) (k : Nat) (ad : Bool)
    (ops : List (Nat × Req)) (t : Option Nat) :
    (respsOf t (resps c (Server.initF fac k ad) ops)).map Sim =
    (respsOf t (resps c (Server.initF fac k ad) (proj t ops))).map Sim := by
  rw [C16_full_of_good c h hr hF fac k ad ops t]

/-- a history that never addresses owner `t` leaves `t`'s part of the server and the adapter flag as they were -/
theorem final_other (c : Cfg) (hr : c.restoreOnlyAddressed = true) (t : Option Nat) (pre : List (Nat × Req))
    (hpre : ∀ op ∈ pre, owner op ≠ t) :
    ∀ s : Server, comp t (final c s pre) = comp t s ∧ (final c s pre).ad = s.ad ∧ (final c s pre).fac = s.fac := by
  induction pre with
  | nil => intro s; exact ⟨rfl, rfl, rfl⟩
  | cons op rest ih =>
      intro s
      have ho := step_other c s op t (hpre op List.mem_cons_self) (Or.inl hr)
      have := ih (fun o h => hpre o (List.mem_cons_of_mem _ h)) (step c s op).1
      simp only [final]
      exact ⟨by rw [this.1, ho.1], by rw [this.2.1, ho.2], by rw [this.2.2, step_fac]⟩

/-- **Lifecycle isolation**: the responses of an instance are a function of the requests addressed to it since
its creation (and of its externalised state, which only its own requests write) only.  Whatever happened on the
server before instance `i` was started — any history `pre` of starts, sessions with settings, stops, timeouts,
restorations, `/run`s of other owners, on a server with any number of initial instances — and whatever is
interleaved with its requests afterwards, instance `i` answers exactly as on a brand-new, otherwise empty server
that receives only its own requests (the first of which is its `create`). -/
theorem C16_lifecycle (c : Cfg) (h : c.instancesShareNothing = true) (hr : c.restoreOnlyAddressed = true)
    (hF : c.freshObjects = true) (fac : Obj) (k : Nat) (ad : Bool) (pre ops : List (Nat × Req)) (i : Nat) (hk : k ≤ i)
    (hpre : ∀ op ∈ pre, owner op ≠ some i) :
    respsOf (some i) (resps c (final c (Server.initF fac k ad) pre) ops) =
    respsOf (some i) (resps c (Server.initF fac 0 ad) (proj (some i) ops)) := by
  have hf := final_other c hr (some i) pre hpre (Server.initF fac k ad)
  apply proj_resps c hF (Or.inr ⟨h, hr⟩) (some i) ops (Or.inl ⟨h, hr⟩) _ _ _ _ _ (Or.inl ⟨h, hr⟩)
  · rw [hf.1]
    have : ¬ i < k := by omega
    simp [comp, Server.initF, this]
  · rw [hf.2.1]; rfl
  · rw [hf.2.2]; rfl

/-- Whatever the factory shares (no adapter configured, objects fresh): an owner is unaffected by everything
addressed to the others that carries no setting — instances created, sessions begun and ended, steps without
settings, results, keep-alive, `/equations`, `/agents`, `/run` without settings, **stop and timeout**. -/
theorem C16_partial (c : Cfg) (hF : c.freshObjects = true) (hH : c.sharedIsHandlerDefaults = false) (k : Nat) (ops : List (Nat × Req)) (t : Option Nat)
    (h : ∀ op ∈ ops, owner op ≠ t → op.2.noSetting = true) :
    respsOf t (resps c (Server.init k) ops) = respsOf t (resps c (Server.init k) (proj t ops)) :=
  proj_resps c hF (Or.inl hH) t ops (Or.inr h) _ _ rfl rfl rfl (Or.inr ⟨rfl, rfl⟩)

/-- stop, timeout and creation are local (instance of `C16_partial`, stated on its own as in the property). -/
theorem C16_stop_timeout_local (c : Cfg) (hF : c.freshObjects = true) (hH : c.sharedIsHandlerDefaults = false) (k : Nat) (ops : List (Nat × Req)) (t : Option Nat)
    (h : ∀ op ∈ ops, owner op ≠ t → (op.2 = .stop ∨ op.2 = .expire ∨ op.2 = .create)) :
    respsOf t (resps c (Server.init k) ops) = respsOf t (resps c (Server.init k) (proj t ops)) := by
  apply C16_partial c hF hH
  intro op ho hne
  rcases h op ho hne with h | h | h <;> simp [h, Req.noSetting]

/-- Two requests of different owners commute when nothing is shared: each gets the same response in either
order, and both orders leave every owner's part of the server and the adapter flag the same.
(Request-handler granularity: what two handlers running concurrently for different instances may do, as long as
each handler is atomic, equals the sequential result in either order.) -/
theorem C16_commute (c : Cfg) (h : c.instancesShareNothing = true) (hr : c.restoreOnlyAddressed = true)
    (hF : c.freshObjects = true) (s : Server) (a b : Nat × Req) (hab : owner a ≠ owner b) :
    (step c (step c s b).1 a).2 = (step c s a).2 ∧
    (step c (step c s a).1 b).2 = (step c s b).2 ∧
    (∀ t, comp t (step c (step c s a).1 b).1 = comp t (step c (step c s b).1 a).1) ∧
    (step c (step c s a).1 b).1.ad = (step c (step c s b).1 a).1.ad := by
  have R : ∀ s' : Server, c.restoreOnlyAddressed = true ∨ s'.ad = false := fun _ => Or.inl hr
  have ob := step_other c s b (owner a) (Ne.symm hab) (R _)
  have oa := step_other c s a (owner b) hab (R _)
  have la := step_local c (step c s b).1 s a ob.1 ob.2 (Or.inl h) (R _) hF (step_fac c s b)
  have lb := step_local c (step c s a).1 s b oa.1 oa.2 (Or.inl h) (R _) hF (step_fac c s a)
  refine ⟨la.1, lb.1, ?_, ?_⟩
  · intro t
    by_cases ha : owner a = t
    · subst ha
      rw [(step_other c (step c s a).1 b (owner a) (Ne.symm hab) (R _)).1, la.2.1]
    · by_cases hb : owner b = t
      · subst hb
        rw [(step_other c (step c s b).1 a (owner b) hab (R _)).1, lb.2.1]
      · rw [(step_other c (step c s a).1 b t hb (R _)).1, (step_other c s a t ha (R _)).1,
            (step_other c (step c s b).1 a t ha (R _)).1, (step_other c s b t hb (R _)).1]
  · rw [(step_other c (step c s a).1 b (some (b.1 + a.1 + 1)) (by simp only [owner]; split <;> simp <;> omega) (R _)).2,
        (step_other c s a (some (b.1 + a.1 + 1)) (by simp only [owner]; split <;> simp <;> omega) (R _)).2,
        (step_other c (step c s b).1 a (some (b.1 + a.1 + 1)) (by simp only [owner]; split <;> simp <;> omega) (R _)).2,
        (step_other c s b (some (b.1 + a.1 + 1)) (by simp only [owner]; split <;> simp <;> omega) (R _)).2]

/-! ### witnesses -/

def noSt : Store := []

/-- Negation witness for a factory whose products share a cell (the base model's points table): a points
setting applied through instance 0 changes the step instance 1 returns. -/
theorem C16_witness_shared (c : Cfg) (h : c.instancesShareNothing = false) (hk : c.sharedIsScenarioDicts = false)
    (hh : c.sharedIsHandlerDefaults = false) :
    ¬ C16_full c := by
  intro hf
  have := hf Obj.fresh 2 false [(0, .beginSession noSt), (1, .beginSession noSt), (0, .runStep [(2, 5)]), (1, .runStep noSt),
    (1, .runStep noSt)] (some 1)
  obtain ⟨a, b, d, e, f⟩ := c; simp only at h hk hh; subst h hk hh
  revert this; cases b <;> cases d <;> decide

/-- same mechanism through the begin-session settings, an instance created during the history, and the
server-level `/run`: its points settings reach the instance. -/
theorem C16_witness_shared_run (c : Cfg) (h : c.instancesShareNothing = false) (hk : c.sharedIsScenarioDicts = false)
    (hh : c.sharedIsHandlerDefaults = false) :
    ¬ C16_full c := by
  intro hf
  have := hf Obj.fresh 0 true [(3, .create), (3, .beginSession [(2, 2)]), (0, .run [(2, 7)]), (3, .runStep noSt)] (some 3)
  obtain ⟨a, b, d, e, f⟩ := c; simp only at h hk hh; subst h hk hh
  revert this; cases b <;> cases d <;> decide

/-- Negation witness for the OTHER thing factory products can share — state that survives across factory calls
in the process: a process-wide cache hands the same mutable scenario dictionaries to two factory products
(`sharedIsScenarioDicts`).  Instance 0 begins a session with a session-level setting `constant = 5`
(`configure_settings` writes it into the shared dictionary); instance 1, which began its session before, sets up
its simulation at its first step and applies `constant = 5`; alone it runs with the file's `constant = 1`.
Step-level settings do not leak this way, session-level ones do — also into the server-level object (`/run`). -/
theorem C16_witness_shared_cache (c : Cfg) (h : c.instancesShareNothing = false) (hk : c.sharedIsScenarioDicts = true) :
    ¬ C16_full c := by
  intro hf
  have := hf Obj.fresh 2 false [(1, .beginSession noSt), (0, .beginSession [(0, 5)]), (1, .runStep noSt), (0, .run noSt)] (some 1)
  obtain ⟨a, b, d, e, f⟩ := c; simp only at h hk; subst h hk
  revert this; cases b <;> cases d <;> cases f <;> decide

theorem C16_witness_shared_cache_run (c : Cfg) (h : c.instancesShareNothing = false) (hk : c.sharedIsScenarioDicts = true) :
    ¬ C16_full c := by
  intro hf
  have := hf Obj.fresh 1 false [(0, .beginSession [(1, 7)]), (0, .run noSt)] none
  obtain ⟨a, b, d, e, f⟩ := c; simp only at h hk; subst h hk
  revert this; cases b <;> cases d <;> cases f <;> decide

/-- Negation witness for HANDLER-level state (`sharedIsHandlerDefaults`): a class attribute of the server keeps the
optional parts of the last begin-session request.  Instance 0 begins a session with settings `k2 = 7`; instance 1
then begins a session whose body has NO `settings` key and gets `k2 = 7`; alone it gets the empty default. -/
theorem C16_witness_handler_defaults (c : Cfg) (h : c.instancesShareNothing = false)
    (hk : c.sharedIsHandlerDefaults = true) : ¬ C16_full c := by
  intro hf
  have := hf Obj.fresh 2 false [(0, .beginSession [(1, 7)]), (1, .beginOmit), (1, .runStep noSt)] (some 1)
  obtain ⟨a, b, d, e, f⟩ := c; simp only at h hk; subst h hk
  revert this; cases b <;> cases d <;> cases e <;> decide

/-- an instance with an externalised session (one step), then — not externalised — the session ended and a new one
begun with another setting; instance 0 is stopped and a late keep-alive for it arrives; instance 1 steps. -/
def restoreOps : List (Nat × Req) :=
  [(1, .beginSession noSt), (1, .runStep noSt), (1, .endSession), (1, .beginSession [(0, 5)]), (0, .stop), (0, .keepAlive),
   (1, .runStep noSt), (1, .results)]

/-- the same with a request to an id that never existed. -/
def restoreOpsGhost : List (Nat × Req) :=
  [(1, .beginSession noSt), (1, .runStep noSt), (1, .endSession), (7, .results), (1, .runStep noSt)]

/-- Negation witness for the restore-everything mechanism (`restoreOnlyAddressed = false`), whatever else holds:
on a server with adapter the late keep-alive for the stopped instance 0 rebuilds instance 1 from the store — its
next step continues the OLD session (time 1, constant 1 instead of time 0, constant 5). -/
theorem C16_witness_restore_all (c : Cfg) (h : c.restoreOnlyAddressed = false) : ¬ C16_full c := by
  intro hf
  have := hf Obj.fresh 2 true restoreOps (some 1)
  obtain ⟨a, b, d, e, f⟩ := c; simp only at h; subst h
  revert this; cases a <;> cases d <;> cases e <;> cases f <;> decide

theorem C16_witness_restore_all_ghost (c : Cfg) (h : c.restoreOnlyAddressed = false) : ¬ C16_full c := by
  intro hf
  have := hf Obj.fresh 2 true restoreOpsGhost (some 1)
  obtain ⟨a, b, d, e, f⟩ := c; simp only at h; subst h
  revert this; cases a <;> cases d <;> cases e <;> cases f <;> decide

/-- "A request to an absent id touches no other instance", stated on its own: with the good mechanism (or without
adapter) a request addressed to an id that is not in memory — never existed, stopped, timed out — leaves every other
owner's part of the server exactly as it was, whatever the request is and whatever the store holds. -/
theorem C16_absent_touches_nobody (c : Cfg) (s : Server) (op : Nat × Req) (t : Option Nat)
    (hr : c.restoreOnlyAddressed = true ∨ s.ad = false) (_habs : absent s.insts op.1 = true) (ht : owner op ≠ t) :
    comp t (step c s op).1 = comp t s :=
  (step_other c s op t ht hr).1

theorem C16_absent_touches_others (c : Cfg) (h : c.restoreOnlyAddressed = false) :
    ∃ (s : Server) (op : Nat × Req) (t : Option Nat), absent s.insts op.1 = true ∧ owner op ≠ t ∧
      comp t (step c s op).1 ≠ comp t s := by
  refine ⟨final c (Server.initAd 2 true) (restoreOps.take 5), (0, .keepAlive), some 1, ?_, ?_, ?_⟩
  all_goals (obtain ⟨a, b, d, e, f⟩ := c; simp only at h; subst h; cases a <;> cases d <;> cases e <;> cases f <;> decide)

/-- instance 0 gets a session-level setting for `k2` (key 1: an element its scenario does not list) and a
step-level one for `tbl2` (key 3), and is stopped; then instance 1 is started, begins a session and steps. -/
def recycleOps : List (Nat × Req) :=
  [(0, .beginSession [(1, 7)]), (0, .runStep [(3, 4)]), (0, .stop), (1, .create), (1, .beginSession noSt), (1, .runStep noSt)]

/-- Negation witness for recycled objects with an incomplete reset (`freshObjects = false`), whatever else
holds: the instance started after the stop gets the stopped instance's object — `end_session()` reset its caches
and session, but the settings written into its scenario (`k2 = 7`) and model (`tbl2 = 4`) are still there, and the
new instance's first step is computed under them. -/
theorem C16_witness_recycled (c : Cfg) (h : c.freshObjects = false) : ¬ C16_full c := by
  intro hf
  have := hf Obj.fresh 1 false recycleOps (some 1)
  obtain ⟨a, b, d, e, f⟩ := c; simp only at h; subst h
  revert this; cases a <;> cases b <;> cases e <;> cases f <;> decide

/-- … and the same object reaches an instance RESTORED from the adapter after a timeout (`_make_bptk` again). -/
theorem C16_witness_recycled_restore (c : Cfg) (h : c.freshObjects = false) (hr : c.restoreOnlyAddressed = true) :
    ¬ C16_full c := by
  intro hf
  have := hf Obj.fresh 2 true [(1, .beginSession noSt), (1, .runStep noSt), (1, .expire), (0, .beginSession [(1, 7)]), (0, .runStep noSt),
    (0, .stop), (1, .runStep noSt)] (some 1)
  obtain ⟨a, b, d, e, f⟩ := c; simp only at h hr; subst h hr
  revert this; cases a <;> cases e <;> cases f <;> decide

/-- Non-vacuity: three instances plus one created during the history, an adapter, interleaved sessions with
different settings (begin-session and run-step, constants and points, listed and unlisted elements), `/run` with a
setting in between, a stop followed by a start, a timeout followed by the lazy restoration of the timed-out
instance — instance 1's responses with their values. -/
example :
    respsOf (some 1) (resps ⟨true, true, true, false, false⟩ (Server.initAd 3 true)
      [(0, .beginSession noSt), (1, .beginSession [(1, 4)]), (0, .runStep [(0, 7)]), (1, .runStep [(2, 2)]), (2, .beginSession noSt),
       (2, .stop), (5, .create), (0, .run [(3, 9)]), (0, .runStep noSt), (1, .runStep noSt), (1, .expire), (5, .beginSession [(2, 3)]),
       (1, .results), (0, .keepAlive), (1, .runStep [(0, 6)]), (1, .endSession), (0, .equations)])
    = [some .started,
       some (.stepped 0 [[(0, 1), (1, 4), (2, 2)]]),
       some (.stepped 1 [[(0, 1), (1, 4), (2, 2)], [(0, 1), (1, 4), (2, 2)]]),
       some .swept,
       some (.results [(0, [(0, 1), (1, 4), (2, 2)]), (1, [(0, 1), (1, 4), (2, 2)])]),
       some (.stepped 2 [[(0, 1), (1, 4), (2, 2)], [(0, 1), (1, 4), (2, 2)], [(0, 6), (1, 4), (2, 2)]]),
       some .ended] := by
  decide

/-- Non-vacuity over another factory output (scenario files with own constants, base constants and points): the
server-level object and an instance started during the history, with the values they return. -/
example :
    let fac : Obj := { scn := [(0, 1), (1, 2), (2, 1)], mod := [], sess := none }
    respsOf (some 4) (resps ⟨true, true, true, false, false⟩ (Server.initF fac 1 false)
      [(0, .beginSession [(1, 7)]), (0, .run [(3, 2)]), (4, .create), (0, .runStep noSt), (4, .beginSession [(2, 6)]), (4, .runStep [(1, 3)])])
    = [some .created, some .started, some (.stepped 0 [[(0, 1), (1, 3), (2, 6)]])] := by
  decide

#print axioms C16_full_of_good
#print axioms C16_values
#print axioms C16_lifecycle
#print axioms takeObj_fresh
#print axioms C16_partial
#print axioms C16_stop_timeout_local
#print axioms C16_commute
#print axioms C16_witness_shared
#print axioms C16_witness_shared_run
#print axioms C16_witness_shared_cache
#print axioms C16_witness_shared_cache_run
#print axioms C16_witness_handler_defaults
#print axioms C16_witness_restore_all
#print axioms C16_witness_restore_all_ghost
#print axioms C16_absent_touches_nobody
#print axioms C16_absent_touches_others
#print axioms C16_witness_recycled
#print axioms C16_witness_recycled_restore

end Bptk.C16
