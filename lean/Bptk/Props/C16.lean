import Bptk.Core.C16
/-!
C16 — property theorems.  Quantifier: every number of initial instances, with or without an external state
adapter, every request sequence (= every interleaving, at request granularity, of the per-owner request lists;
owners: every instance id and the server-level object that `/run`, `/equations`, `/agents` use), every owner.
Requests: begin-session (with settings), run-step (with settings), session-results, end-session, keep-alive, stop,
timeout, instance creation during the history, `/run` (with settings), `/equations`, `/agents`; an instance that
timed out is restored lazily from its externalised state by its next request.
-/
namespace Bptk.C16

/-- The full property: the responses an owner `t` (an instance, or the server-level object) gets in an
interleaved history are those it gets when the requests of all other owners (including their creation, stop,
timeout and lazy restoration) are never made. -/
def C16_full (c : Cfg) : Prop :=
  ∀ (k : Nat) (ad : Bool) (ops : List (Nat × Req)) (t : Option Nat),
    respsOf t (resps c (Server.initAd k ad) ops) = respsOf t (resps c (Server.initAd k ad) (proj t ops))

def Req.noSetting : Req → Bool
  | .runStep (some _) => false
  | .beginSession (some _) => false
  | .run (some _) => false
  | _ => true

theorem applySetting_indep (c : Cfg) (h : c.instancesShareNothing = true) (g g' : Int) (k : Int) (s : Option Int) :
    (applySetting c g k s).2 = (applySetting c g' k s).2 := by
  simp [applySetting, h]

theorem applySetting_g (c : Cfg) (h : c.instancesShareNothing = true) (g : Int) (k : Int) (s : Option Int) :
    (applySetting c g k s).1 = g := by
  simp [applySetting, h]

theorem applySetting_none (c : Cfg) (g : Int) (k : Int) : (applySetting c g k none).1 = g := by
  simp only [applySetting]; split <;> rfl

theorem revive_indep (c : Cfg) (h : c.instancesShareNothing = true) (ad : Bool) (g g' : Int) (x : Inst) :
    (revive c ad g x).2 = (revive c ad g' x).2 := by
  simp only [revive]
  split
  · rfl
  · split
    · split
      · simp [applySetting, h]
      · rfl
    · rfl

theorem revive_g (c : Cfg) (h : c.instancesShareNothing = true) (ad : Bool) (g : Int) (x : Inst) :
    (revive c ad g x).1 = g := by
  simp only [revive]
  split
  · rfl
  · split
    · split
      · simp [applySetting, h]
      · rfl
    · rfl

/-- without an adapter nothing is ever restored -/
theorem revive_noAd (c : Cfg) (g : Int) (x : Inst) : revive c false g x = (g, x) := by
  simp [revive]

/-- with nothing shared, a request's response and the instance's next state do not depend on the process-wide
cell, and the cell is not written. -/
theorem stepInst_indep (c : Cfg) (h : c.instancesShareNothing = true) (ad : Bool) (g g' : Int) (x : Inst) (r : Req) :
    (stepInst c ad g x r).2 = (stepInst c ad g' x r).2 := by
  have hr := revive_indep c h ad g g' x
  have h1 := revive_g c h ad g x
  have h2 := revive_g c h ad g' x
  cases r <;> simp only [stepInst, runStep] <;> (try rfl)
  all_goals rw [hr]
  all_goals (try split) <;> (try split) <;> simp [applySetting, h]

theorem stepInst_keeps_g (c : Cfg) (h : c.instancesShareNothing = true) (ad : Bool) (g : Int) (x : Inst) (r : Req) :
    (stepInst c ad g x r).1 = g := by
  have h1 := revive_g c h ad g x
  cases r <;> simp only [stepInst, runStep] <;> (try rfl)
  all_goals (try split) <;> (try split) <;> simp [applySetting, h, h1]

theorem stepOwn_indep (c : Cfg) (h : c.instancesShareNothing = true) (g g' : Int) (x : Inst) (r : Req) :
    (stepOwn c g x r).2 = (stepOwn c g' x r).2 := by
  cases r <;> simp [stepOwn, applySetting, h]

theorem stepOwn_keeps_g (c : Cfg) (h : c.instancesShareNothing = true) (g : Int) (x : Inst) (r : Req) :
    (stepOwn c g x r).1 = g := by
  cases r <;> simp [stepOwn, applySetting, h]

/-- without an adapter, a request that carries no setting never writes the process-wide cell. -/
theorem stepInst_g (c : Cfg) (g : Int) (x : Inst) (r : Req) (h : r.noSetting = true) :
    (stepInst c false g x r).1 = g := by
  cases r with
  | runStep s =>
    cases s with
    | some v => simp [Req.noSetting] at h
    | none =>
      simp only [stepInst, runStep, revive_noAd]
      split
      · split
        · rfl
        · exact applySetting_none c g x.knob
      · rfl
  | beginSession s =>
    cases s with
    | some v => simp [Req.noSetting] at h
    | none =>
      simp only [stepInst, revive_noAd]
      split
      · exact applySetting_none c g x.knob
      · rfl
  | _ => simp only [stepInst, revive_noAd] <;> (try split) <;> rfl

theorem stepOwn_g (c : Cfg) (g : Int) (x : Inst) (r : Req) (h : r.noSetting = true) : (stepOwn c g x r).1 = g := by
  cases r with
  | run s =>
    cases s with
    | some v => simp [Req.noSetting] at h
    | none => exact applySetting_none c g x.knob
  | _ => rfl

/-- with the good mechanism, or without an adapter, looking an id up touches nobody -/
theorem preRestore_id (c : Cfg) (s : Server) (op : Nat × Req) (h : c.restoreOnlyAddressed = true ∨ s.ad = false) :
    preRestore c s op = s := by
  rcases h with h | h <;> simp [preRestore, h]

theorem stepNone_frame (s : Server) (i : Nat) (r : Req) :
    (stepNone s i r).1.g = s.g ∧ (stepNone s i r).1.ad = s.ad ∧ (stepNone s i r).1.own = s.own ∧
    ∀ j, j ≠ i → (stepNone s i r).1.insts j = s.insts j := by
  cases r <;> simp [stepNone, updFn]
  intro j hj; simp [hj]

theorem stepNone_local (s s' : Server) (i : Nat) (r : Req) (h : s.insts i = s'.insts i) :
    (stepNone s i r).2 = (stepNone s' i r).2 ∧ (stepNone s i r).1.insts i = (stepNone s' i r).1.insts i := by
  cases r <;> simp [stepNone, updFn, h]

/-- a request leaves every other owner's part of the server alone, and never changes whether an adapter exists -/
theorem step_other (c : Cfg) (s : Server) (op : Nat × Req) (t : Option Nat) (h : owner op ≠ t)
    (hR : c.restoreOnlyAddressed = true ∨ s.ad = false) :
    comp t (step c s op).1 = comp t s ∧ (step c s op).1.ad = s.ad := by
  unfold step
  simp only [preRestore_id c s op hR]
  by_cases hs : op.2.serverLevel = true
  · simp only [hs, if_true]
    refine ⟨?_, by first | rfl | trivial⟩
    cases t with
    | none => simp [owner, hs] at h
    | some i => rfl
  · simp only [hs]
    have ho : owner op = some op.1 := by simp [owner, hs]
    cases hx : s.insts op.1 with
    | none =>
      simp only [Bool.false_eq_true, if_false]
      obtain ⟨_, f2, f3, f4⟩ := stepNone_frame s op.1 op.2
      refine ⟨?_, f2⟩
      cases t with
      | none => simp [comp, f3]
      | some i =>
        have : i ≠ op.1 := fun e => h (by rw [ho, e])
        simp [comp, f4 i this]
    | some x =>
      simp only [Bool.false_eq_true, if_false]
      refine ⟨?_, by first | rfl | trivial⟩
      cases t with
      | none => rfl
      | some i =>
        have : i ≠ op.1 := fun e => h (by rw [ho, e])
        simp [comp, updFn, this]

/-- locality: the response to a request and its owner's next state are determined by the owner's part of the
server (plus the shared cell when something is shared). -/
theorem step_local (c : Cfg) (s s' : Server) (op : Nat × Req)
    (hc : comp (owner op) s = comp (owner op) s') (had : s.ad = s'.ad)
    (hg : c.instancesShareNothing = true ∨ s.g = s'.g) (hR : c.restoreOnlyAddressed = true ∨ s.ad = false) :
    (step c s op).2 = (step c s' op).2 ∧ comp (owner op) (step c s op).1 = comp (owner op) (step c s' op).1 ∧
    (c.instancesShareNothing = true ∨ (step c s op).1.g = (step c s' op).1.g) := by
  have hR' : c.restoreOnlyAddressed = true ∨ s'.ad = false := by rw [← had]; exact hR
  unfold step
  simp only [preRestore_id c s op hR, preRestore_id c s' op hR']
  by_cases hs : op.2.serverLevel = true
  · simp only [hs, if_true]
    have ho : owner op = none := by simp [owner, hs]
    rw [ho] at hc ⊢
    simp only [comp, Option.some.injEq] at hc
    rw [hc]
    rcases hg with hg | hg
    · have := stepOwn_indep c hg s.g s'.g s'.own op.2
      exact ⟨by rw [this], by simp [comp, this], Or.inl hg⟩
    · rw [hg]; exact ⟨rfl, rfl, Or.inr rfl⟩
  · simp only [hs]
    have ho : owner op = some op.1 := by simp [owner, hs]
    rw [ho] at hc ⊢
    simp only [comp] at hc
    rw [← hc, ← had]
    cases hx : s.insts op.1 with
    | none =>
      simp only [Bool.false_eq_true, if_false]
      have hl := stepNone_local s s' op.1 op.2 hc
      have f := stepNone_frame s op.1 op.2
      have f' := stepNone_frame s' op.1 op.2
      refine ⟨hl.1, by simpa [comp] using hl.2, ?_⟩
      rcases hg with hg | hg
      · exact Or.inl hg
      · exact Or.inr (by rw [f.1, f'.1, hg])
    | some x =>
      simp only [Bool.false_eq_true, if_false]
      rcases hg with hg | hg
      · have := stepInst_indep c hg s.ad s.g s'.g x op.2
        exact ⟨by rw [this], by simp [comp, updFn, this], Or.inl hg⟩
      · rw [hg]; exact ⟨rfl, by simp [comp, updFn], Or.inr rfl⟩

/-- without an adapter, a request without a setting never writes the shared cell -/
theorem step_g (c : Cfg) (s : Server) (op : Nat × Req) (had : s.ad = false) (h : op.2.noSetting = true) :
    (step c s op).1.g = s.g := by
  unfold step
  simp only [preRestore_id c s op (Or.inr had)]
  by_cases hs : op.2.serverLevel = true
  · simp only [hs, if_true]; exact stepOwn_g c s.g s.own op.2 h
  · simp only [hs]
    cases hx : s.insts op.1 with
    | none => simp only [Bool.false_eq_true, if_false]; exact (stepNone_frame s op.1 op.2).1
    | some x => simp only [Bool.false_eq_true, if_false, had]; exact stepInst_g c s.g x op.2 h

/-- with nothing shared no request writes the shared cell -/
theorem step_keeps_g (c : Cfg) (h : c.instancesShareNothing = true) (s : Server) (op : Nat × Req)
    (hR : c.restoreOnlyAddressed = true ∨ s.ad = false) : (step c s op).1.g = s.g := by
  unfold step
  simp only [preRestore_id c s op hR]
  by_cases hs : op.2.serverLevel = true
  · simp only [hs, if_true]; exact stepOwn_keeps_g c h s.g s.own op.2
  · simp only [hs]
    cases hx : s.insts op.1 with
    | none => simp only [Bool.false_eq_true, if_false]; exact (stepNone_frame s op.1 op.2).1
    | some x => simp only [Bool.false_eq_true, if_false]; exact stepInst_keeps_g c h s.ad s.g x op.2

/-- the generalised commutation lemma: two servers that agree on owner `t`'s part (and, when something is
shared, on the shared cell) answer `t`'s requests alike, whatever is addressed to the others in between. -/
theorem proj_resps (c : Cfg) (t : Option Nat) (ops : List (Nat × Req))
    (hops : (c.instancesShareNothing = true ∧ c.restoreOnlyAddressed = true) ∨
      ∀ op ∈ ops, owner op ≠ t → op.2.noSetting = true) :
    ∀ (s s' : Server), comp t s = comp t s' → s.ad = s'.ad →
      ((c.instancesShareNothing = true ∧ c.restoreOnlyAddressed = true) ∨ (s.g = s'.g ∧ s.ad = false)) →
      respsOf t (resps c s ops) = respsOf t (resps c s' (proj t ops)) := by
  induction ops with
  | nil => intro s s' _ _ _; rfl
  | cons op rest ih =>
    intro s s' hi had hg
    have hR : c.restoreOnlyAddressed = true ∨ s.ad = false := by
      rcases hg with h | h
      · exact Or.inl h.2
      · exact Or.inr h.2
    have hR' : c.restoreOnlyAddressed = true ∨ s'.ad = false := by rw [← had]; exact hR
    have hrest : (c.instancesShareNothing = true ∧ c.restoreOnlyAddressed = true) ∨
        ∀ op ∈ rest, owner op ≠ t → op.2.noSetting = true := by
      rcases hops with h | h
      · exact Or.inl h
      · exact Or.inr (fun o ho => h o (List.mem_cons_of_mem _ ho))
    by_cases hop : owner op = t
    · -- `t`'s own request: kept by the projection; same part, same answer, same next part
      have hp : proj t (op :: rest) = op :: proj t rest := by simp [proj, hop]
      rw [hp]
      simp only [resps, respsOf, hop, List.filter_cons, beq_self_eq_true, if_true, List.map_cons]
      subst hop
      have hg' : c.instancesShareNothing = true ∨ s.g = s'.g := by
        rcases hg with h | h
        · exact Or.inl h.1
        · exact Or.inr h.1
      obtain ⟨h1, h2, h3⟩ := step_local c s s' op hi had hg' hR
      rw [h1]
      congr 1
      have a1 := (step_other c s op (some (op.1 + 1)) (by
        simp only [owner]; split <;> simp) hR).2
      have a2 := (step_other c s' op (some (op.1 + 1)) (by
        simp only [owner]; split <;> simp) hR').2
      apply ih hrest _ _ h2 (by rw [a1, a2, had])
      rcases hg with h | h
      · exact Or.inl h
      · rcases h3 with h3 | h3
        · exact Or.inr ⟨by rw [step_keeps_g c h3 s op hR, step_keeps_g c h3 s' op hR']; exact h.1,
            by rw [a1]; exact h.2⟩
        · exact Or.inr ⟨h3, by rw [a1]; exact h.2⟩
    · -- another owner's request: dropped by the projection; `t`'s part is untouched
      have hp : proj t (op :: rest) = proj t rest := by simp [proj, hop]
      rw [hp]
      have hb : (owner op == t) = false := by simpa using hop
      simp only [resps, respsOf, List.filter_cons, hb]
      have ho := step_other c s op t hop hR
      apply ih hrest
      · rw [ho.1]; exact hi
      · rw [ho.2]; exact had
      · rcases hg with hg | hg
        · exact Or.inl hg
        · rcases hops with h | h
          · exact Or.inl h
          · refine Or.inr ⟨?_, by rw [ho.2]; exact hg.2⟩
            rw [step_g c s op hg.2 (h op List.mem_cons_self hop)]; exact hg.1

theorem C16_full_of_good (c : Cfg) (h : c.instancesShareNothing = true) (hr : c.restoreOnlyAddressed = true) :
    C16_full c := by
  intro k ad ops t
  exact proj_resps c t ops (Or.inl ⟨h, hr⟩) _ _ rfl rfl (Or.inl ⟨h, hr⟩)

/-- Whatever the factory shares (no adapter configured): an owner is unaffected by everything addressed to the
others that carries no setting — instances created, sessions begun and ended, steps without settings, results,
keep-alive, `/equations`, `/agents`, `/run` without settings, **stop and timeout**. -/
theorem C16_partial (c : Cfg) (k : Nat) (ops : List (Nat × Req)) (t : Option Nat)
    (h : ∀ op ∈ ops, owner op ≠ t → op.2.noSetting = true) :
    respsOf t (resps c (Server.init k) ops) = respsOf t (resps c (Server.init k) (proj t ops)) :=
  proj_resps c t ops (Or.inr h) _ _ rfl rfl (Or.inr ⟨rfl, rfl⟩)

/-- stop, timeout and creation are local (instance of `C16_partial`, stated on its own as in the property). -/
theorem C16_stop_timeout_local (c : Cfg) (k : Nat) (ops : List (Nat × Req)) (t : Option Nat)
    (h : ∀ op ∈ ops, owner op ≠ t → (op.2 = .stop ∨ op.2 = .expire ∨ op.2 = .create)) :
    respsOf t (resps c (Server.init k) ops) = respsOf t (resps c (Server.init k) (proj t ops)) := by
  apply C16_partial
  intro op ho hne
  rcases h op ho hne with h | h | h <;> simp [h, Req.noSetting]

/-- Two requests of different owners commute when nothing is shared: each gets the same response in either
order, and both orders leave every owner's part of the server, the shared cell and the adapter flag the same.
(Request-handler granularity: what two handlers running concurrently for different instances may do, as long as
each handler is atomic, equals the sequential result in either order.) -/
theorem C16_commute (c : Cfg) (h : c.instancesShareNothing = true) (hr : c.restoreOnlyAddressed = true)
    (s : Server) (a b : Nat × Req)
    (hab : owner a ≠ owner b) :
    (step c (step c s b).1 a).2 = (step c s a).2 ∧
    (step c (step c s a).1 b).2 = (step c s b).2 ∧
    (∀ t, comp t (step c (step c s a).1 b).1 = comp t (step c (step c s b).1 a).1) ∧
    (step c (step c s a).1 b).1.ad = (step c (step c s b).1 a).1.ad := by
  have ob := step_other c s b (owner a) (Ne.symm hab) (Or.inl hr)
  have oa := step_other c s a (owner b) hab (Or.inl hr)
  have la := step_local c (step c s b).1 s a ob.1 ob.2 (Or.inl h) (Or.inl hr)
  have lb := step_local c (step c s a).1 s b oa.1 oa.2 (Or.inl h) (Or.inl hr)
  refine ⟨la.1, lb.1, ?_, ?_⟩
  · intro t
    by_cases ha : owner a = t
    · subst ha
      rw [(step_other c (step c s a).1 b (owner a) (Ne.symm hab) (Or.inl hr)).1, la.2.1]
    · by_cases hb : owner b = t
      · subst hb
        rw [(step_other c (step c s b).1 a (owner b) hab (Or.inl hr)).1, lb.2.1]
      · rw [(step_other c (step c s a).1 b t hb (Or.inl hr)).1, (step_other c s a t ha (Or.inl hr)).1,
            (step_other c (step c s b).1 a t ha (Or.inl hr)).1, (step_other c s b t hb (Or.inl hr)).1]
  · rw [(step_other c (step c s a).1 b (some (b.1 + a.1 + 1)) (by simp only [owner]; split <;> simp <;> omega) (Or.inl hr)).2,
        (step_other c s a (some (b.1 + a.1 + 1)) (by simp only [owner]; split <;> simp <;> omega) (Or.inl hr)).2,
        (step_other c (step c s b).1 a (some (b.1 + a.1 + 1)) (by simp only [owner]; split <;> simp <;> omega) (Or.inl hr)).2,
        (step_other c s b (some (b.1 + a.1 + 1)) (by simp only [owner]; split <;> simp <;> omega) (Or.inl hr)).2]

/-- Negation witness for a factory whose products share a cell: a setting applied through instance 0 changes
the step instance 1 returns. -/
theorem C16_witness_shared (c : Cfg) (h : c.instancesShareNothing = false) : ¬ C16_full c := by
  intro hf
  have := hf 2 false [(0, .beginSession none), (1, .beginSession none), (0, .runStep (some 5)), (1, .runStep none),
    (1, .runStep none)] (some 1)
  obtain ⟨a, b⟩ := c; simp only at h; subst h
  revert this; cases b <;> decide

/-- same mechanism through the begin-session settings, an instance created during the history, and the
server-level `/run`: its settings reach the instance. -/
theorem C16_witness_shared_run (c : Cfg) (h : c.instancesShareNothing = false) : ¬ C16_full c := by
  intro hf
  have := hf 0 true [(3, .create), (3, .beginSession (some 2)), (0, .run (some 7)), (3, .runStep none)] (some 3)
  obtain ⟨a, b⟩ := c; simp only at h; subst h
  revert this; cases b <;> decide

/-- an instance with an externalised session (one step), then — not externalised — the session ended and a new one
begun with another setting; instance 0 is stopped and a late keep-alive for it arrives; instance 1 steps. -/
def restoreOps : List (Nat × Req) :=
  [(1, .beginSession none), (1, .runStep none), (1, .endSession), (1, .beginSession (some 5)), (0, .stop), (0, .keepAlive),
   (1, .runStep none), (1, .results)]

/-- the same with a request to an id that never existed, and a timed-out instance revived by its own request. -/
def restoreOpsGhost : List (Nat × Req) :=
  [(1, .beginSession none), (1, .runStep none), (1, .endSession), (7, .results), (1, .runStep none)]

/-- Negation witness for the restore-everything mechanism (`restoreOnlyAddressed = false`), whatever the factory
shares: on a server with adapter the late keep-alive for the stopped instance 0 rebuilds instance 1 from the
store — its next step continues the OLD session (`stepped 1 …` with the old knob instead of `stepped 0 0 5`). -/
theorem C16_witness_restore_all (c : Cfg) (h : c.restoreOnlyAddressed = false) : ¬ C16_full c := by
  intro hf
  have := hf 2 true restoreOps (some 1)
  obtain ⟨a, b⟩ := c; simp only at h; subst h
  revert this; cases a <;> decide

/-- … and a request to an id that never existed does the same (instance 1 had ended its session: alone it is
answered "no data" / save error, interleaved it steps the resurrected session). -/
theorem C16_witness_restore_all_ghost (c : Cfg) (h : c.restoreOnlyAddressed = false) : ¬ C16_full c := by
  intro hf
  have := hf 2 true restoreOpsGhost (some 1)
  obtain ⟨a, b⟩ := c; simp only at h; subst h
  revert this; cases a <;> decide

/-- "A request to an absent id touches no other instance", stated on its own: with the good mechanism (or without
adapter) a request addressed to an id that is not in memory — never existed, stopped, timed out — leaves every other
owner's part of the server exactly as it was, whatever the request is and whatever the store holds. -/
theorem C16_absent_touches_nobody (c : Cfg) (s : Server) (op : Nat × Req) (t : Option Nat)
    (hr : c.restoreOnlyAddressed = true ∨ s.ad = false) (_habs : absent s.insts op.1 = true) (ht : owner op ≠ t) :
    comp t (step c s op).1 = comp t s :=
  (step_other c s op t ht hr).1

/-- … and with the defective mechanism it does not: a concrete server state where a keep-alive for a stopped
instance changes another, live instance. -/
theorem C16_absent_touches_others (c : Cfg) (h : c.restoreOnlyAddressed = false) :
    ∃ (s : Server) (op : Nat × Req) (t : Option Nat), absent s.insts op.1 = true ∧ owner op ≠ t ∧
      comp t (step c s op).1 ≠ comp t s := by
  refine ⟨final c (Server.initAd 2 true) (restoreOps.take 5), (0, .keepAlive), some 1, ?_, ?_, ?_⟩
  all_goals (obtain ⟨a, b⟩ := c; simp only at h; subst h; cases a <;> decide)

/-- Non-vacuity: three instances plus one created during the history, an adapter, interleaved sessions with
different settings (begin-session and run-step), `/run` with a setting in between, a stop, a timeout followed by
the lazy restoration of the timed-out instance. -/
example :
    respsOf (some 1) (resps ⟨true, true⟩ (Server.initAd 3 true)
      [(0, .beginSession none), (1, .beginSession (some 4)), (0, .runStep (some 7)), (1, .runStep (some 2)), (2, .beginSession none),
       (5, .create), (0, .run (some 9)), (0, .runStep none), (2, .stop), (1, .runStep none), (1, .expire), (5, .beginSession (some 3)),
       (1, .results), (0, .keepAlive), (1, .runStep none), (1, .endSession), (0, .equations)])
    = [some .started, some (.stepped 0 0 2), some (.stepped 1 2 2), some .swept, some (.results [(0, 0), (1, 2)]),
       some (.stepped 2 4 2), some .ended] := by
  decide

#print axioms C16_full_of_good
#print axioms C16_partial
#print axioms C16_stop_timeout_local
#print axioms C16_commute
#print axioms C16_witness_shared
#print axioms C16_witness_shared_run
#print axioms C16_witness_restore_all
#print axioms C16_witness_restore_all_ghost
#print axioms C16_absent_touches_nobody
#print axioms C16_absent_touches_others

end Bptk.C16
