import Bptk.Core.C16
/-!
C16 — property theorems.  Quantifier: every number of instances, every request sequence addressed to them
(= every interleaving, at request granularity, of the per-instance request lists), every instance.
-/
namespace Bptk.C16

/-- The full property: the responses instance `i` gives in an interleaved history are those it gives when
the requests to all other instances (including their stop and their timeout) are never made. -/
def C16_full (c : Cfg) : Prop :=
  ∀ (k : Nat) (ops : List (Nat × Req)) (i : Nat),
    respsOf i (resps c (Server.init k) ops) = respsOf i (resps c (Server.init k) (proj i ops))

def Req.noSetting : Req → Bool
  | .runStep (some _) => false
  | _ => true

/-- with nothing shared, a request's response and the instance's next state do not depend on the process-wide cell. -/
theorem stepInst_indep (c : Cfg) (h : c.instancesShareNothing = true) (g g' : Int) (x : Inst) (r : Req) :
    (stepInst c g x r).2 = (stepInst c g' x r).2 := by
  cases r <;> simp only [stepInst, runStep, h, if_true] <;> (try split) <;> (try split) <;> rfl

/-- a request without a setting never writes the process-wide cell. -/
theorem stepInst_g (c : Cfg) (g : Int) (x : Inst) (r : Req) (h : r.noSetting = true) : (stepInst c g x r).1 = g := by
  cases r with
  | runStep s =>
    cases s with
    | some v => simp [Req.noSetting] at h
    | none => simp only [stepInst, runStep]; split <;> (try split) <;> simp
  | _ => simp only [stepInst] <;> (try split) <;> rfl

theorem step_other (c : Cfg) (s : Server) (op : Nat × Req) (i : Nat) (h : op.1 ≠ i) :
    (step c s op).1.insts[i]? = s.insts[i]? := by
  unfold step
  cases hg : s.insts[op.1]? with
  | none => rfl
  | some x => simp [List.getElem?_set, h]

theorem step_g (c : Cfg) (s : Server) (op : Nat × Req) (h : op.2.noSetting = true) : (step c s op).1.g = s.g := by
  unfold step
  cases hg : s.insts[op.1]? with
  | none => rfl
  | some x => exact stepInst_g c s.g x op.2 h

/-- the generalised commutation lemma: two servers that agree on instance `i` (and, when something is shared,
on the shared cell) answer `i`'s requests alike, whatever is addressed to the others in between. -/
theorem proj_resps (c : Cfg) (i : Nat) (ops : List (Nat × Req))
    (hops : c.instancesShareNothing = true ∨ ∀ op ∈ ops, op.1 ≠ i → op.2.noSetting = true) :
    ∀ (s s' : Server), s.insts[i]? = s'.insts[i]? → (c.instancesShareNothing = true ∨ s.g = s'.g) →
      respsOf i (resps c s ops) = respsOf i (resps c s' (proj i ops)) := by
  induction ops with
  | nil => intro s s' _ _; rfl
  | cons op rest ih =>
    intro s s' hi hg
    have hrest : c.instancesShareNothing = true ∨ ∀ op ∈ rest, op.1 ≠ i → op.2.noSetting = true := by
      rcases hops with h | h
      · exact Or.inl h
      · exact Or.inr (fun o ho => h o (List.mem_cons_of_mem _ ho))
    by_cases hop : op.1 = i
    · -- addressed to `i`: kept by the projection; same instance state, same answer, same next state
      have hp : proj i (op :: rest) = op :: proj i rest := by simp [proj, hop]
      rw [hp]
      simp only [resps, respsOf, hop, List.filter_cons, beq_self_eq_true, if_true, List.map_cons]
      have hstep : (step c s op).2 = (step c s' op).2 ∧ (step c s op).1.insts[i]? = (step c s' op).1.insts[i]? ∧
          (c.instancesShareNothing = true ∨ (step c s op).1.g = (step c s' op).1.g) := by
        unfold step
        rw [hop]
        cases h1 : s.insts[i]? with
        | none =>
          rw [h1] at hi; rw [← hi]
          exact ⟨rfl, by simp [h1, ← hi], hg⟩
        | some x =>
          rw [h1] at hi; rw [← hi]
          have hl : i < s.insts.length := (List.getElem?_eq_some_iff.mp h1).1
          have hl' : i < s'.insts.length := (List.getElem?_eq_some_iff.mp hi.symm).1
          rcases hg with hg | hg
          · have := stepInst_indep c hg s.g s'.g x op.2
            refine ⟨by simp [this], by simp [List.getElem?_set, hl, hl', this], Or.inl hg⟩
          · rw [hg]
            exact ⟨rfl, by simp [List.getElem?_set, hl, hl'], Or.inr rfl⟩
      rw [hstep.1]
      congr 1
      exact ih hrest _ _ hstep.2.1 hstep.2.2
    · -- addressed to another instance: dropped by the projection; `i` is untouched
      have hp : proj i (op :: rest) = proj i rest := by simp [proj, hop]
      rw [hp]
      have hb : (op.1 == i) = false := by simpa using hop
      simp only [resps, respsOf, List.filter_cons, hb]
      apply ih hrest
      · rw [step_other c s op i hop]; exact hi
      · rcases hg with hg | hg
        · exact Or.inl hg
        · rcases hops with h | h
          · exact Or.inl h
          · exact Or.inr (by rw [step_g c s op (h op (List.mem_cons_self) hop)]; exact hg)

theorem C16_full_of_good (c : Cfg) (h : c.instancesShareNothing = true) : C16_full c := by
  intro k ops i
  exact proj_resps c i ops (Or.inl h) _ _ rfl (Or.inl h)

/-- Whatever the factory shares: an instance is unaffected by everything addressed to the others that carries
no setting — sessions begun and ended, steps without settings, results, keep-alive, **stop and timeout**. -/
theorem C16_partial (c : Cfg) (k : Nat) (ops : List (Nat × Req)) (i : Nat)
    (h : ∀ op ∈ ops, op.1 ≠ i → op.2.noSetting = true) :
    respsOf i (resps c (Server.init k) ops) = respsOf i (resps c (Server.init k) (proj i ops)) :=
  proj_resps c i ops (Or.inr h) _ _ rfl (Or.inr rfl)

/-- stop and timeout are local (instance of `C16_partial`, stated on its own as in the property). -/
theorem C16_stop_timeout_local (c : Cfg) (k : Nat) (ops : List (Nat × Req)) (i : Nat)
    (h : ∀ op ∈ ops, op.1 ≠ i → (op.2 = .stop ∨ op.2 = .expire)) :
    respsOf i (resps c (Server.init k) ops) = respsOf i (resps c (Server.init k) (proj i ops)) := by
  apply C16_partial
  intro op ho hne
  rcases h op ho hne with h | h <;> simp [h, Req.noSetting]

/-- Negation witness for a factory whose products share a cell: a setting applied through instance 0 changes
the step instance 1 returns. -/
theorem C16_witness_shared (c : Cfg) (h : c.instancesShareNothing = false) : ¬ C16_full c := by
  intro hf
  have := hf 2 [(0, .beginSession), (1, .beginSession), (0, .runStep (some 5)), (1, .runStep none), (1, .runStep none)] 1
  cases c; simp only at h; subst h
  revert this; decide

/-- Non-vacuity: three instances, interleaved sessions with different settings, a stop and a timeout. -/
example :
    respsOf 1 (resps ⟨true⟩ (Server.init 3)
      [(0, .beginSession), (1, .beginSession), (0, .runStep (some 7)), (1, .runStep (some 2)), (2, .beginSession),
       (0, .runStep none), (2, .stop), (1, .runStep none), (0, .expire), (1, .results), (0, .keepAlive), (1, .endSession)])
    = [some .started, some (.stepped 0 0 2), some (.stepped 1 2 2), some (.results [(0, 0), (1, 2)]), some .ended] := by
  decide

#print axioms C16_full_of_good
#print axioms C16_partial
#print axioms C16_stop_timeout_local
#print axioms C16_witness_shared

end Bptk.C16
