import Bptk.Core.C10
import Bptk.Proofs.PyFrag
import Bptk.Props.C02
import Mathlib.Data.Matrix.Mul
import Mathlib.Algebra.BigOperators.Fin
/-!
C10 — arrayed equations compute what the same numpy operation computes.

Quantifiers: all shapes `m n p : Nat`, all indices, all element names, all value assignments
`ρ : String → R` over an arbitrary commutative semiring `R` (subtraction, division, negation and the
reading of number literals are arbitrary functions) — no bound anywhere.

1. `expand_wl`, `aggTerm_wl`: every expression the model produces is well-levelled, hence
   (`expand_parses`, via A1's `parse_print`) the printed text parses back to exactly that tree.
2. semantics of the parsed tree (`eval` of C02 with the arithmetic carrier `car`):
   `elementwise_spec`, `nmul_spec`, `dot_mm`, `dot_mv`, `dot_vm`, `dot_vv`, `dot_scalar`, `sum_spec`,
   `prod_spec`, `agg_args`, `rank_args`, `rank_index_spec`, `size_spec`, `dims_spec`.
-/
namespace Bptk.C10
open Bptk.Py

/-! ## 1. Well-levelledness -/

@[simp] theorem lvlH_paren (L : Nat) (e : Py) : lvlH L (.paren e) = 100 := rfl
@[simp] theorem lvlH_bin (L : Nat) (k : BinOp) (l r : Py) : lvlH L (.bin k l r) = bp k := rfl
@[simp] theorem lvlH_num (L : Nat) (s : String) : lvlH L (.num s) = 100 := rfl
@[simp] theorem lvlH_neg (L : Nat) (e : Py) : lvlH L (.neg e) = 7 := rfl
@[simp] theorem lvlH_call (L : Nat) (f : Py) (as : List Py) : lvlH L (.call f as) = 100 := rfl
@[simp] theorem lvlH_index (L : Nat) (e i : Py) : lvlH L (.index e i) = 100 := rfl
@[simp] theorem lvlH_attr (L : Nat) (e : Py) (a : String) : lvlH L (.attr e a) = 100 := rfl
@[simp] theorem lvlH_name (L : Nat) (s : String) : lvlH L (.name s) = 100 := rfl
@[simp] theorem lvlH_str (L : Nat) (s : String) : lvlH L (.str s) = 100 := rfl
@[simp] theorem lvlH_list (L : Nat) (es : List Py) : lvlH L (.list es) = 100 := rfl
@[simp] theorem lvlH_ite (L : Nat) (x c y : Py) : lvlH L (.ite x c y) = 0 := rfl

/-- well-levelled and usable as an operand of `+ - * /` on either side -/
def G6 (p : Py) : Prop := WLb 0 p = true ∧ lvlH 0 p ≥ 6

theorem ref_wl (nm : String) (p : List Key) : WLb 0 (ref nm p) = true ∧ lvlH 0 (ref nm p) = 100 := by
  simp [ref, WLb, WLbArgs, WLbArg]

theorem ref_g6 (nm : String) (p : List Key) : G6 (ref nm p) := by
  have := ref_wl nm p; exact ⟨this.1, by omega⟩

theorem numPy_g6 (n : Bool) (l : String) : G6 (numPy n l) := by
  cases n <;> simp [G6, numPy, WLb]

theorem sub_g6 (e : Elem) (idx : List Key) (p : Py) (h : e.sub idx = some p) : G6 p := by
  simp only [Elem.sub, Option.map_eq_some_iff] at h
  obtain ⟨q, _, rfl⟩ := h
  exact ref_g6 _ _

theorem at_g6 (o : Operand) (idx : List Key) (p : Py) (h : o.at idx = some p) : G6 p := by
  cases o with
  | num n l => simp only [Operand.at, Option.some.injEq] at h; subst h; exact numPy_g6 n l
  | el e =>
    simp only [Operand.at] at h
    split at h
    · exact sub_g6 e idx p h
    · simp only [Option.some.injEq] at h; subst h; exact ref_g6 _ _

theorem term_g6 (o : Operand) : G6 o.term := by
  cases o with
  | num n l => exact numPy_g6 n l
  | el e => exact ref_g6 _ _

theorem subOf_g6 (o : Operand) (idx : List Key) (p : Py) (h : subOf o idx = some p) : G6 p := by
  cases o with
  | num n l => simp [subOf] at h
  | el e => exact sub_g6 e idx p h

theorem ewTmpl_g6 (o : EwOp) (x y : Py) (hx : G6 x) (hy : G6 y) : G6 (ewTmpl o x y) := by
  obtain ⟨hx1, hx2⟩ := hx
  obtain ⟨hy1, hy2⟩ := hy
  cases o <;> simp [G6, ewTmpl, WLb, hx1, hy1, ldem, rbp, bp] <;> omega

theorem prodTerm_g6 (x y : Py) (hx : G6 x) (hy : G6 y) : G6 (prodTerm x y) := by
  simp [G6, prodTerm, WLb, hx.1, hy.1, ldem, rbp, bp]

/-- a left-nested chain of `+` (resp. `*`) over operands of level ≥ 6 (resp. ≥ 7) is well-levelled -/
theorem foldl_wl (k : BinOp) (hk : k = .add ∨ k = .mul) (xs : List Py) (acc : Py)
    (hacc : WLb 0 acc = true ∧ lvlH 0 acc ≥ ldem k)
    (hxs : ∀ y ∈ xs, WLb 0 y = true ∧ lvlH 0 y ≥ rbp k) :
    WLb 0 (xs.foldl (fun a y => .bin k a y) acc) = true ∧
      lvlH 0 (xs.foldl (fun a y => .bin k a y) acc) ≥ ldem k := by
  induction xs generalizing acc with
  | nil => simpa using hacc
  | cons y ys ih =>
    simp only [List.foldl_cons]
    apply ih
    · have hy := hxs y (by simp)
      refine ⟨by simp [WLb, hacc.1, hy.1, hacc.2, hy.2], ?_⟩
      rcases hk with rfl | rfl <;> simp [ldem, bp]
    · intro z hz; exact hxs z (by simp [hz])

theorem chain_wl (k : BinOp) (hk : k = .add ∨ k = .mul) (xs : List Py) (p : Py)
    (hxs : ∀ y ∈ xs, WLb 0 y = true ∧ lvlH 0 y ≥ rbp k) (h : chain k xs = some p) : WLb 0 p = true := by
  cases xs with
  | nil => simp [chain] at h
  | cons x xs =>
    simp only [chain, Option.some.injEq] at h
    subst h
    have hx := hxs x (by simp)
    refine (foldl_wl k hk xs x ⟨hx.1, ?_⟩ (fun y hy => hxs y (by simp [hy]))).1
    have : ldem k ≤ rbp k := by rcases hk with rfl | rfl <;> simp [ldem, rbp, bp]
    omega

theorem optAll_mem {α} (l : List (Option α)) (xs : List α) (h : optAll l = some xs) :
    ∀ x ∈ xs, some x ∈ l := by
  induction l generalizing xs with
  | nil => simp [optAll] at h; subst h; simp
  | cons a l ih =>
    cases a with
    | none => simp [optAll] at h
    | some a =>
      simp only [optAll, Option.map_eq_some_iff] at h
      obtain ⟨ys, hys, rfl⟩ := h
      intro x hx
      simp only [List.mem_cons] at hx
      rcases hx with rfl | hx
      · simp
      · exact List.mem_cons_of_mem _ (ih ys hys x hx)

theorem dotChain_wl (xs : List (Option Py × Option Py)) (p : Py)
    (hxs : ∀ q ∈ xs, (∀ x, q.1 = some x → G6 x) ∧ (∀ y, q.2 = some y → G6 y))
    (h : dotChain xs = some p) : G6 p := by
  unfold dotChain at h
  split at h
  next ps hps =>
    simp only [Option.map_eq_some_iff] at h
    obtain ⟨c, hc, rfl⟩ := h
    refine ⟨?_, by simp⟩
    simp only [WLb]
    apply chain_wl .add (Or.inl rfl) ps c _ hc
    intro y hy
    have hmem := optAll_mem _ _ hps y hy
    simp only [List.mem_map] at hmem
    obtain ⟨q, hq, hqe⟩ := hmem
    obtain ⟨a, b⟩ := q
    cases a with
    | none => simp [pairProd] at hqe
    | some a =>
      cases b with
      | none => simp [pairProd] at hqe
      | some b =>
        simp only [pairProd, Option.some.injEq] at hqe
        subst hqe
        have hg := prodTerm_g6 a b ((hxs _ hq).1 a rfl) ((hxs _ hq).2 b rfl)
        exact ⟨hg.1, by have := hg.2; simp [rbp, bp]; omega⟩
  next => simp at h

theorem dotPairs_ok (a b : Operand) (f g : Nat → List Key) (l : List Nat) :
    ∀ q ∈ l.map (fun k => (subOf a (f k), subOf b (g k))),
      (∀ x, q.1 = some x → G6 x) ∧ (∀ y, q.2 = some y → G6 y) := by
  intro q hq
  simp only [List.mem_map] at hq
  obtain ⟨k, _, rfl⟩ := hq
  exact ⟨fun x hx => subOf_g6 a _ x hx, fun y hy => subOf_g6 b _ y hy⟩

theorem dotTerm_g6 (a b : Operand) (idx : List Key) (p : Py) (h : dotTerm a b idx = some p) : G6 p := by
  unfold dotTerm at h
  split at h
  · simp at h
  · simp only [Option.map_eq_some_iff] at h
    obtain ⟨y, hy, rfl⟩ := h
    exact prodTerm_g6 _ _ (term_g6 a) (subOf_g6 b idx y hy)
  · simp only [Option.map_eq_some_iff] at h
    obtain ⟨x, hx, rfl⟩ := h
    exact prodTerm_g6 _ _ (subOf_g6 a idx x hx) (term_g6 b)
  · split at h
    · split at h
      · split at h
        · exact dotChain_wl _ p (dotPairs_ok a b _ _ _) h
        · simp at h
      · split at h
        · split at h
          · split at h
            · split at h
              · simp at h
              · exact dotChain_wl _ p (dotPairs_ok a b _ _ _) h
            · simp at h
          · simp at h
        · simp at h
    · split at h
      · split at h
        · split at h
          · split at h
            · split at h
              · simp at h
              · exact dotChain_wl _ p (dotPairs_ok a b _ _ _) h
            · simp at h
          · simp at h
        · simp at h
      · split at h
        · split at h
          · split at h
            · simp at h
            · exact dotChain_wl _ p (dotPairs_ok a b _ _ _) h
          · simp at h
        · simp at h
  · simp at h

theorem num00_g6 : G6 (.num "0.0") := by simp [G6, WLb]

theorem dotTermNoIndex_g6 (a b : Operand) (p : Py) (h : dotTermNoIndex a b = some p) : G6 p := by
  unfold dotTermNoIndex at h
  split at h
  · split at h
    · exact dotChain_wl _ p (dotPairs_ok a b _ _ _) h
    · simp at h
  · simp only [Option.some.injEq] at h; subst h; exact num00_g6
  · simp at h
  · simp only [Option.some.injEq] at h; subst h; exact num00_g6
  · simp at h

theorem termAt_g6 (f : Form) (a b : Operand) (idx : List Key) (p : Py) (h : termAt f a b idx = some p) :
    G6 p := by
  cases f with
  | ew o =>
    simp only [termAt] at h
    split at h
    next x y hx hy =>
      simp only [Option.some.injEq] at h; subst h
      exact ewTmpl_g6 o x y (at_g6 a idx x hx) (at_g6 b idx y hy)
    next => simp at h
  | nmul =>
    simp only [termAt] at h
    split at h
    next y x hy hx =>
      simp only [Option.some.injEq] at h; subst h
      exact prodTerm_g6 y x (at_g6 b idx y hy) (at_g6 a idx x hx)
    next => simp at h
  | dot => exact dotTerm_g6 a b idx p h

theorem termNoIndex_g6 (f : Form) (a b : Operand) (p : Py) (h : termNoIndex f a b = some p) : G6 p := by
  cases f with
  | ew o => simp only [termNoIndex, Option.some.injEq] at h; subst h; exact ewTmpl_g6 o _ _ (term_g6 a) (term_g6 b)
  | nmul => simp only [termNoIndex, Option.some.injEq] at h; subst h; exact prodTerm_g6 _ _ (term_g6 b) (term_g6 a)
  | dot => exact dotTermNoIndex_g6 a b p h

/-- every per-element expression of a result -/
def Result.exprs : Result → List Py
  | .scalar p => [p]
  | .vector _ es => es.map (·.2)
  | .matrix rows => rows.flatten

theorem vecEntries_g6 (f : Form) (a b : Operand) (nm : Bool) (m : Nat) (es : List (Key × Py))
    (h : vecEntries f a b nm m = some es) : ∀ kp ∈ es, G6 kp.2 := by
  intro kp hkp
  have hmem := optAll_mem _ _ h kp hkp
  simp only [List.mem_map] at hmem
  obtain ⟨i, _, hi⟩ := hmem
  split at hi
  · split at hi
    · simp only [Option.map_eq_some_iff] at hi
      obtain ⟨p, hp, rfl⟩ := hi
      exact termAt_g6 _ _ _ _ _ hp
    · simp at hi
  · simp only [Option.map_eq_some_iff] at hi
    obtain ⟨p, hp, rfl⟩ := hi
    exact termAt_g6 _ _ _ _ _ hp

theorem matEntries_g6 (f : Form) (a b : Operand) (m n : Nat) (rows : List (List Py))
    (h : matEntries f a b m n = some rows) : ∀ row ∈ rows, ∀ p ∈ row, G6 p := by
  intro row hrow p hp
  have hmem := optAll_mem _ _ h row hrow
  simp only [List.mem_map] at hmem
  obtain ⟨i, _, hi⟩ := hmem
  have hmem2 := optAll_mem _ _ hi p hp
  simp only [List.mem_map] at hmem2
  obtain ⟨j, _, hj⟩ := hmem2
  exact termAt_g6 _ _ _ _ _ hj

theorem expandArr_wl (f : Form) (a b : Operand) (d : Dims) (r : Result) (h : expandArr f a b d = some r) :
    ∀ p ∈ r.exprs, WLb 0 p = true := by
  unfold expandArr at h
  split at h
  · split at h
    · simp at h
    · simp only [Option.map_eq_some_iff] at h
      obtain ⟨es, hes, rfl⟩ := h
      intro q hq
      simp only [Result.exprs, List.mem_map] at hq
      obtain ⟨kp, hkp, rfl⟩ := hq
      exact (vecEntries_g6 f a b _ _ es hes kp hkp).1
  · split at h
    · simp only [Option.map_eq_some_iff] at h
      obtain ⟨rows, hrows, rfl⟩ := h
      intro q hq
      simp only [Result.exprs, List.mem_flatten] at hq
      obtain ⟨row, hrow, hq⟩ := hq
      exact (matEntries_g6 f a b _ _ rows hrows row hrow q hq).1
    · simp at h

theorem scalar_wl (f : Form) (a b : Operand) (r : Result)
    (h : (termNoIndex f a b).map Result.scalar = some r) : ∀ p ∈ r.exprs, WLb 0 p = true := by
  simp only [Option.map_eq_some_iff] at h
  obtain ⟨p, hp, rfl⟩ := h
  intro q hq
  simp only [Result.exprs, List.mem_singleton] at hq
  subst hq
  exact (termNoIndex_g6 f a b _ hp).1

/-- **(1)** every expression `expand` produces is well-levelled -/
theorem expand_wl (f : Form) (a b : Operand) (r : Result) (h : expand f a b = some r) :
    ∀ p ∈ r.exprs, WLb 0 p = true := by
  unfold expand at h
  split at h
  · simp at h
  · split at h
    · exact scalar_wl f a b r h
    · split at h
      · simp at h
      · exact scalar_wl f a b r h
      · exact expandArr_wl f a b _ r h

/-- … hence its printed text (= the element's function string, token for token) parses back to
exactly that tree under CPython's precedence rules. -/
theorem expand_parses (f : Form) (a b : Operand) (r : Result) (h : expand f a b = some r) :
    ∀ p ∈ r.exprs, Parses (pr p) p :=
  fun p hp => parse_print p (expand_wl f a b r h p hp)

/-! ### aggregates -/

theorem WLbL_of_all (es : List Py) (h : ∀ p ∈ es, WLb 0 p = true) : WLbL 0 es = true := by
  induction es with
  | nil => simp [WLbL]
  | cons e es ih =>
    simp only [WLbL, Bool.and_eq_true]
    exact ⟨h e (by simp), ih (fun p hp => h p (by simp [hp]))⟩

theorem rows_ref (e : Elem) : ∀ row ∈ e.rows, ∀ p ∈ row, ∃ path, p = ref e.name path := by
  intro row hrow p hp
  unfold Elem.rows at hrow
  split at hrow
  · simp only [List.mem_map] at hrow
    obtain ⟨k, _, rfl⟩ := hrow
    simp only [List.mem_singleton] at hp
    exact ⟨[k], hp⟩
  · simp only [List.mem_map] at hrow
    obtain ⟨k, _, rfl⟩ := hrow
    simp only [List.mem_map] at hp
    obtain ⟨l, _, rfl⟩ := hp
    exact ⟨[k, l], rfl⟩

theorem rowMajor_ref (e : Elem) : ∀ p ∈ e.rowMajor, ∃ path, p = ref e.name path := by
  intro p hp
  simp only [Elem.rowMajor, List.mem_flatten] at hp
  obtain ⟨row, hrow, hp⟩ := hp
  exact rows_ref e row hrow p hp

theorem rowMajor_wl (e : Elem) : ∀ p ∈ e.rowMajor, WLb 0 p = true ∧ lvlH 0 p = 100 := by
  intro p hp
  obtain ⟨path, rfl⟩ := rowMajor_ref e p hp
  exact ref_wl _ _

theorem display_wl (e : Elem) : WLb 0 e.display = true := by
  unfold Elem.display
  split
  · simp only [WLb]
    exact WLbL_of_all _ (fun p hp => (rowMajor_wl e p hp).1)
  · simp only [WLb]
    apply WLbL_of_all
    intro p hp
    simp only [List.mem_map] at hp
    obtain ⟨row, hrow, rfl⟩ := hp
    simp only [WLb]
    apply WLbL_of_all
    intro q hq
    obtain ⟨path, rfl⟩ := rows_ref e row hrow q hq
    exact (ref_wl _ _).1

theorem rankIndexPy_wl (neg : Bool) (k count : Nat) : WLb 0 (rankIndexPy neg k count) = true := by
  cases neg <;> simp [rankIndexPy, natPy, numPy, WLb, ldem, rbp, bp]

/-- **(1, aggregates)** every aggregate expression is well-levelled -/
theorem aggTerm_wl (g : Agg) (e : Elem) (p : Py) (h : aggTerm g e = some p) : WLb 0 p = true := by
  unfold aggTerm at h
  split at h
  · split at h
    · simp only [Option.some.injEq] at h; subst h; simpa [WLb] using (ref_wl e.name []).1
    · simp only [Option.some.injEq] at h; subst h; simpa [WLb] using (ref_wl e.name []).1
    · simp only [Option.some.injEq] at h; subst h; simp [WLb]
  · split at h
    · simp only [Option.map_eq_some_iff] at h
      obtain ⟨c, hc, rfl⟩ := h
      simp only [WLb]
      exact chain_wl .add (Or.inl rfl) _ c (fun y hy => by
        have := rowMajor_wl e y hy; exact ⟨this.1, by rw [this.2]; simp [rbp, bp]⟩) hc
    · simp only [Option.map_eq_some_iff] at h
      obtain ⟨c, hc, rfl⟩ := h
      simp only [WLb]
      exact chain_wl .mul (Or.inr rfl) _ c (fun y hy => by
        have := rowMajor_wl e y hy; exact ⟨this.1, by rw [this.2]; simp [rbp, bp]⟩) hc
    · simp only [Option.some.injEq] at h; subst h
      simp [npCall, WLb, WLbArgs, WLbArg]
      have := display_wl e
      unfold Elem.display at this ⊢
      split <;> simp_all [WLb, WLbArg]
    · simp only [Option.some.injEq] at h; subst h
      simp [npCall, WLb, WLbArgs, WLbArg]
      have := display_wl e
      unfold Elem.display at this ⊢
      split <;> simp_all [WLb, WLbArg]
    · simp only [Option.some.injEq] at h; subst h
      simp [npCall, WLb, WLbArgs, WLbArg]
      have := display_wl e
      unfold Elem.display at this ⊢
      split <;> simp_all [WLb, WLbArg]
    · simp only [Option.some.injEq] at h; subst h; simp [natPy, WLb]
    · simp only [Option.some.injEq] at h; subst h
      simp only [WLb, WLbArgs, WLbArg, lvlH_call, lvlH_name, rankIndexPy_wl, Bool.and_true, Bool.true_and,
        ge_iff_le, le_refl, decide_true]
      exact WLbL_of_all _ (fun p hp => (rowMajor_wl e p hp).1)

theorem aggTerm_parses (g : Agg) (e : Elem) (p : Py) (h : aggTerm g e = some p) : Parses (pr p) p :=
  parse_print p (aggTerm_wl g e p h)

/-! ## 2. Semantics: the arithmetic carrier -/

section Sem
open BigOperators
variable {R : Type} [CommSemiring R]

/-- everything about the arithmetic that the theorems do not need to know: subtraction, division,
negation, the reading of number literals, numpy's aggregate functions (on the flattened argument) and
`sorted(…, reverse=True)` are arbitrary functions. -/
structure Ops (R : Type) where
  sub : R → R → R
  div : R → R → R
  neg : R → R
  numv : String → R
  fn : String → List R → R
  sortDesc : List R → List R

inductive V (R : Type)
  | r (x : R)
  | sym (s : String)
  | att (m a : String)
  | lst (xs : List R)
  | lst2 (xss : List (List R))
  | kwv (n : String) (v : V R)
  | bad

def allR : List (V R) → Option (List R)
  | [] => some []
  | .r x :: vs => (allR vs).map (x :: ·)
  | _ => none

def allL : List (V R) → Option (List (List R))
  | [] => some []
  | .lst xs :: vs => (allL vs).map (xs :: ·)
  | _ => none

def listV (vs : List (V R)) : V R :=
  match allR vs with
  | some xs => .lst xs
  | none => match allL vs with
    | some xss => .lst2 xss
    | none => .bad

def binV (O : Ops R) : BinOp → V R → V R → V R
  | .add, .r x, .r y => .r (x + y)
  | .mul, .r x, .r y => .r (x * y)
  | .sub, .r x, .r y => .r (O.sub x y)
  | .div, .r x, .r y => .r (O.div x y)
  | _, _, _ => .bad

def callV (O : Ops R) (ρ : String → R) (f : V R) (args : List (V R)) : V R :=
  match f, args with
  | .att m a, [.sym key, _] => if m = "model" ∧ a = "memoize" then .r (ρ key) else .bad
  | .att m a, [.lst xs] => if m = "np" then .r (O.fn a xs) else .bad
  | .att m a, [.lst2 xss] => if m = "np" then .r (O.fn a xss.flatten) else .bad
  | .sym s, [.lst xs, .kwv n (.sym t)] =>
    if s = "sorted" ∧ n = "reverse" ∧ t = "True" then .lst (O.sortDesc xs) else .bad
  | _, _ => .bad

/-- the arithmetic carrier: `+` and `*` are the semiring's, element references read `ρ` -/
def car (O : Ops R) (ρ : String → R) : Carrier (V R) where
  num s := .r (O.numv s)
  name s := .sym s
  str s := .sym s
  neg v := match v with | .r x => .r (O.neg x) | _ => .bad
  not _ := .bad
  bin := binV O
  ite _ _ _ := .bad
  attr v a := match v with | .sym m => .att m a | _ => .bad
  call := callV O ρ
  index _ _ := .bad
  list := listV
  kw n v := .kwv n v

variable (O : Ops R) (ρ : String → R) (σ : Nat → V R)

/-- value of the element reference `name[k1][k2]` -/
def rv (nm : String) (path : List Key) : R := ρ (nm ++ pathStr path)

theorem eval_ref (nm : String) (path : List Key) :
    eval (car O ρ) σ (ref nm path) = .r (rv ρ nm path) := by
  simp [ref, eval, evalL, car, callV, rv]

def numVal (n : Bool) (l : String) : R := if n then O.neg (O.numv l) else O.numv l

theorem eval_numPy (n : Bool) (l : String) : eval (car O ρ) σ (numPy n l) = .r (numVal O n l) := by
  cases n <;> simp [numPy, eval, car, numVal]

/-- the value an operand contributes at result index `idx` (arrays indexed, scalars broadcast) -/
def Operand.valAt (o : Operand) (idx : List Key) : Option R :=
  match o with
  | .num n l => some (numVal O n l)
  | .el e => if e.arrayed then (e.path idx).map (rv ρ e.name) else some (rv ρ e.name [])

theorem at_eval (o : Operand) (idx : List Key) (x : Py) (h : o.at idx = some x) :
    ∃ v, o.valAt O ρ idx = some v ∧ eval (car O ρ) σ x = .r v := by
  cases o with
  | num n l =>
    simp only [Operand.at, Option.some.injEq] at h; subst h
    exact ⟨_, rfl, eval_numPy O ρ σ n l⟩
  | el e =>
    simp only [Operand.at] at h
    cases ha : e.arrayed with
    | true =>
      simp only [ha, if_true, Elem.sub, Option.map_eq_some_iff] at h
      obtain ⟨path, hp, rfl⟩ := h
      exact ⟨rv ρ e.name path, by simp [Operand.valAt, ha, hp], eval_ref O ρ σ _ _⟩
    | false =>
      simp only [ha, Bool.false_eq_true, if_false, Option.some.injEq] at h; subst h
      exact ⟨rv ρ e.name [], by simp [Operand.valAt, ha], eval_ref O ρ σ _ _⟩

def ewVal (o : EwOp) (x y : R) : R :=
  match o with
  | .add => x + y
  | .sub => O.sub x y
  | .mul => x * y
  | .div => O.div x y

theorem eval_ewTmpl (o : EwOp) (x y : Py) (vx vy : R) (hx : eval (car O ρ) σ x = .r vx)
    (hy : eval (car O ρ) σ y = .r vy) : eval (car O ρ) σ (ewTmpl o x y) = .r (ewVal O o vx vy) := by
  cases o <;> simp only [ewTmpl, eval, hx, hy] <;> simp [car, binV, ewVal]

theorem eval_prodTerm (x y : Py) (vx vy : R) (hx : eval (car O ρ) σ x = .r vx)
    (hy : eval (car O ρ) σ y = .r vy) : eval (car O ρ) σ (prodTerm x y) = .r (vx * vy) := by
  simp only [prodTerm, eval, hx, hy]; simp [car, binV]

/-- **element-wise operators** (array∘array, array∘scalar, scalar∘array, any key scheme): the
expression of result element `idx` evaluates to `A[idx] ∘ B[idx]`, scalars and numbers broadcast. -/
theorem elementwise_spec (o : EwOp) (a b : Operand) (idx : List Key) (p : Py)
    (h : termAt (.ew o) a b idx = some p) :
    ∃ x y, a.valAt O ρ idx = some x ∧ b.valAt O ρ idx = some y ∧
      eval (car O ρ) σ p = .r (ewVal O o x y) := by
  simp only [termAt] at h
  split at h
  next x y hx hy =>
    simp only [Option.some.injEq] at h; subst h
    obtain ⟨vx, hvx, hex⟩ := at_eval O ρ σ a idx x hx
    obtain ⟨vy, hvy, hey⟩ := at_eval O ρ σ b idx y hy
    exact ⟨vx, vy, hvx, hvy, eval_ewTmpl O ρ σ o x y vx vy hex hey⟩
  next => simp at h

/-- **number * array / -array** (`NumericalMultiplicationOperator(a, b)`): `b[idx] * a[idx]` -/
theorem nmul_spec (a b : Operand) (idx : List Key) (p : Py) (h : termAt .nmul a b idx = some p) :
    ∃ x y, a.valAt O ρ idx = some x ∧ b.valAt O ρ idx = some y ∧
      eval (car O ρ) σ p = .r (y * x) := by
  simp only [termAt] at h
  split at h
  next y x hy hx =>
    simp only [Option.some.injEq] at h; subst h
    obtain ⟨vx, hvx, hex⟩ := at_eval O ρ σ a idx x hx
    obtain ⟨vy, hvy, hey⟩ := at_eval O ρ σ b idx y hy
    exact ⟨vx, vy, hvx, hvy, eval_prodTerm O ρ σ y x vy vx hey hex⟩
  next => simp at h

/-! ### chains -/

theorem eval_add (l r : Py) (a b : R) (hl : eval (car O ρ) σ l = .r a) (hr : eval (car O ρ) σ r = .r b) :
    eval (car O ρ) σ (.bin .add l r) = .r (a + b) := by
  simp only [eval, hl, hr]; rfl

theorem eval_mul (l r : Py) (a b : R) (hl : eval (car O ρ) σ l = .r a) (hr : eval (car O ρ) σ r = .r b) :
    eval (car O ρ) σ (.bin .mul l r) = .r (a * b) := by
  simp only [eval, hl, hr]; rfl

theorem eval_foldl_add (xs : List Py) (g : Py → R) (acc : Py) (va : R)
    (hacc : eval (car O ρ) σ acc = .r va) (hxs : ∀ y ∈ xs, eval (car O ρ) σ y = .r (g y)) :
    eval (car O ρ) σ (xs.foldl (fun a y => .bin .add a y) acc) = .r (va + (xs.map g).sum) := by
  induction xs generalizing acc va with
  | nil => simpa using hacc
  | cons y ys ih =>
    simp only [List.foldl_cons, List.map_cons, List.sum_cons]
    rw [ih (.bin .add acc y) (va + g y) (eval_add O ρ σ _ _ _ _ hacc (hxs y (by simp)))
      (fun z hz => hxs z (by simp [hz])), add_assoc]

theorem eval_foldl_mul (xs : List Py) (g : Py → R) (acc : Py) (va : R)
    (hacc : eval (car O ρ) σ acc = .r va) (hxs : ∀ y ∈ xs, eval (car O ρ) σ y = .r (g y)) :
    eval (car O ρ) σ (xs.foldl (fun a y => .bin .mul a y) acc) = .r (va * (xs.map g).prod) := by
  induction xs generalizing acc va with
  | nil => simpa using hacc
  | cons y ys ih =>
    simp only [List.foldl_cons, List.map_cons, List.prod_cons]
    rw [ih (.bin .mul acc y) (va * g y) (eval_mul O ρ σ _ _ _ _ hacc (hxs y (by simp)))
      (fun z hz => hxs z (by simp [hz])), mul_assoc]

theorem optAll_map_some {α β} (l : List α) (f : α → Option β) (g : α → β)
    (h : ∀ x ∈ l, f x = some (g x)) : optAll (l.map f) = some (l.map g) := by
  induction l with
  | nil => simp [optAll]
  | cons x xs ih =>
    simp only [List.map_cons, h x (by simp), optAll, ih (fun y hy => h y (by simp [hy]))]
    simp

theorem list_sum_range (n : Nat) (f : Nat → R) :
    ((List.range n).map f).sum = ∑ k ∈ Finset.range n, f k := by
  induction n with
  | zero => simp
  | succ n ih => simp [List.range_succ, Finset.sum_range_succ, ih]

theorem list_prod_range (n : Nat) (f : Nat → R) :
    ((List.range n).map f).prod = ∏ k ∈ Finset.range n, f k := by
  induction n with
  | zero => simp
  | succ n ih => simp [List.range_succ, Finset.prod_range_succ, ih]

/-- the text `((a0) * (b0) + (a1) * (b1) + …)` evaluates to `Σ_k a_k * b_k` -/
theorem dotChain_eval (n : Nat) (hn : 0 < n) (fa fb : Nat → Option Py) (pa pb : Nat → Py) (ga gb : Nat → R)
    (hfa : ∀ k < n, fa k = some (pa k)) (hfb : ∀ k < n, fb k = some (pb k))
    (ha : ∀ k < n, eval (car O ρ) σ (pa k) = .r (ga k))
    (hb : ∀ k < n, eval (car O ρ) σ (pb k) = .r (gb k)) :
    ∃ e, dotChain ((List.range n).map fun k => (fa k, fb k)) = some e ∧
      eval (car O ρ) σ e = .r (∑ k ∈ Finset.range n, ga k * gb k) := by
  have h1 : optAll (((List.range n).map fun k => (fa k, fb k)).map pairProd)
      = some ((List.range n).map fun k => prodTerm (pa k) (pb k)) := by
    rw [List.map_map]
    apply optAll_map_some
    intro k hk
    have hk' : k < n := List.mem_range.mp hk
    simp [hfa k hk', hfb k hk', pairProd]
  obtain ⟨n', rfl⟩ : ∃ n', n = n' + 1 := ⟨n - 1, by omega⟩
  have hev : ∀ k < n' + 1, eval (car O ρ) σ (prodTerm (pa k) (pb k)) = .r (ga k * gb k) :=
    fun k hk => eval_prodTerm O ρ σ _ _ _ _ (ha k hk) (hb k hk)
  -- evaluate the whole chain as a list sum, via a function on indices
  have key : ∀ (l : List Nat) (hl : ∀ k ∈ l, k < n' + 1) (acc : Py) (va : R),
      eval (car O ρ) σ acc = .r va →
      eval (car O ρ) σ ((l.map fun k => prodTerm (pa k) (pb k)).foldl (fun a y => .bin .add a y) acc)
        = .r (va + (l.map fun k => ga k * gb k).sum) := by
    intro l
    induction l with
    | nil => intro _ acc va h; simpa using h
    | cons k ks ih =>
      intro hl acc va h
      simp only [List.map_cons, List.foldl_cons, List.sum_cons]
      rw [ih (fun j hj => hl j (by simp [hj])) (.bin .add acc (prodTerm (pa k) (pb k))) (va + ga k * gb k)
        (eval_add O ρ σ _ _ _ _ h (hev k (hl k (by simp)))), add_assoc]
  unfold dotChain
  rw [h1]
  rw [List.range_succ_eq_map]
  simp only [List.map_cons, chain, Option.map_some]
  refine ⟨_, rfl, ?_⟩
  simp only [eval]
  have := key ((List.range n').map Nat.succ) (by simp) (prodTerm (pa 0) (pb 0)) (ga 0 * gb 0) (hev 0 (by omega))
  rw [this, ← list_sum_range, List.range_succ_eq_map]
  simp [List.map_map]

/-! ### indexed arrays -/

theorem findKey_range (m i : Nat) :
    findKey (rangeKeys m) (.i i) = if i < m then some (.i i) else none := by
  induction m with
  | zero => simp [rangeKeys, findKey]
  | succ m ih =>
    simp only [rangeKeys, findKey] at ih ⊢
    rw [List.range_succ, List.map_append, List.find?_append, ih]
    by_cases h : i < m
    · have : i < m + 1 := by omega
      simp [h, this]
    · by_cases h2 : i = m
      · subst h2; simp [Key.same]
      · have : ¬ i < m + 1 := by omega
        simp [h, this, Key.same, h2]

theorem rangeKeys_length (m : Nat) : (rangeKeys m).length = m := by simp [rangeKeys]

theorem rangeKeys_isEmpty (m : Nat) : (rangeKeys m).isEmpty = decide (m = 0) := by
  cases m <;> simp [rangeKeys, List.range_succ]

theorem mat_arrayed (A : String) (m n : Nat) (hm : 0 < m) : (Elem.mat A m n).arrayed = true := by
  simp [Elem.arrayed, Elem.mat, rangeKeys_isEmpty]; omega

theorem vec_arrayed (A : String) (m : Nat) (hm : 0 < m) : (Elem.vec A m).arrayed = true := by
  simp [Elem.arrayed, Elem.vec, rangeKeys_isEmpty]; omega

theorem mat_dims (A : String) (m n : Nat) (hm : 0 < m) : (Operand.el (Elem.mat A m n)).dims = .d2 m n := by
  simp [Operand.dims, elemDims, mat_arrayed A m n hm]; simp [Elem.mat, rangeKeys_length]

theorem vec_dims (A : String) (m : Nat) (hm : 0 < m) : (Operand.el (Elem.vec A m)).dims = .d2 m 0 := by
  simp [Operand.dims, elemDims, vec_arrayed A m hm]; simp [Elem.vec, rangeKeys_length]

theorem mat_sub (A : String) (m n i j : Nat) (hi : i < m) (hj : j < n) :
    subOf (.el (Elem.mat A m n)) [.i i, .i j] = some (ref A [.i i, .i j]) := by
  have ha := mat_arrayed A m n (by omega)
  simp only [subOf, Elem.sub, Elem.path, ha, if_true]
  simp [Elem.mat, findKey_range, hi, hj, rangeKeys_isEmpty]; omega

theorem vec_sub (A : String) (m i : Nat) (hi : i < m) :
    subOf (.el (Elem.vec A m)) [.i i] = some (ref A [.i i]) := by
  have ha := vec_arrayed A m (by omega)
  simp only [subOf, Elem.sub, Elem.path, ha, if_true]
  simp [Elem.vec, findKey_range, hi]

/-- the values of an indexed matrix / vector element under `ρ` -/
def valM (A : String) (m n : Nat) : Matrix (Fin m) (Fin n) R := fun i j => rv ρ A [.i i.val, .i j.val]
def valV (A : String) (m : Nat) : Fin m → R := fun i => rv ρ A [.i i.val]

/-- **matrix · matrix**: the expression of result element (i, j) evaluates to `(A * B) i j`
(Mathlib's `Matrix.mul`) -/
theorem dot_mm (A B : String) (m n p : Nat) (hn : 0 < n) (i : Fin m) (j : Fin p) :
    ∃ e, dotTerm (.el (.mat A m n)) (.el (.mat B n p)) [.i i, .i j] = some e ∧
      eval (car O ρ) σ e = .r ((valM ρ A m n * valM ρ B n p) i j) := by
  have hm : 0 < m := Fin.pos i
  have hp : 0 < p := Fin.pos j
  obtain ⟨e, he, hev⟩ := dotChain_eval O ρ σ n hn
    (fun k => subOf (.el (.mat A m n)) [.i i, .i k]) (fun k => subOf (.el (.mat B n p)) [.i k, .i j])
    (fun k => ref A [.i i, .i k]) (fun k => ref B [.i k, .i j])
    (fun k => rv ρ A [.i i, .i k]) (fun k => rv ρ B [.i k, .i j])
    (fun k hk => mat_sub A m n i k i.isLt hk) (fun k hk => mat_sub B n p k j hk j.isLt)
    (fun k _ => eval_ref O ρ σ _ _) (fun k _ => eval_ref O ρ σ _ _)
  refine ⟨e, ?_, ?_⟩
  · rw [← he]
    unfold dotTerm
    rw [mat_dims A m n hm, mat_dims B n p hn]
    have h1 : n ≠ 0 := by omega
    have h2 : p ≠ 0 := by omega
    have h3 : ¬ (i.val ≥ m ∨ j.val ≥ p) := by omega
    simp [h1, h2, keyNat, h3]
  · rw [hev, Matrix.mul_apply, Finset.sum_range]
    rfl

/-- **matrix · vector** = `Matrix.mulVec` -/
theorem dot_mv (A v : String) (m n : Nat) (hn : 0 < n) (i : Fin m) :
    ∃ e, dotTerm (.el (.mat A m n)) (.el (.vec v n)) [.i i] = some e ∧
      eval (car O ρ) σ e = .r (Matrix.mulVec (valM ρ A m n) (valV ρ v n) i) := by
  have hm : 0 < m := Fin.pos i
  obtain ⟨e, he, hev⟩ := dotChain_eval O ρ σ n hn
    (fun k => subOf (.el (.mat A m n)) [.i i, .i k]) (fun k => subOf (.el (.vec v n)) [.i k])
    (fun k => ref A [.i i, .i k]) (fun k => ref v [.i k])
    (fun k => rv ρ A [.i i, .i k]) (fun k => rv ρ v [.i k])
    (fun k hk => mat_sub A m n i k i.isLt hk) (fun k hk => vec_sub v n k hk)
    (fun k _ => eval_ref O ρ σ _ _) (fun k _ => eval_ref O ρ σ _ _)
  refine ⟨e, ?_, ?_⟩
  · rw [← he]
    unfold dotTerm
    rw [mat_dims A m n hm, vec_dims v n hn]
    have h1 : n ≠ 0 := by omega
    have h3 : ¬ (i.val ≥ m) := by omega
    simp [h1, keyNat, h3]
  · rw [hev, Matrix.mulVec, dotProduct, Finset.sum_range]
    rfl

/-- **vector · matrix** = `Matrix.vecMul` -/
theorem dot_vm (v A : String) (m n : Nat) (hm : 0 < m) (j : Fin n) :
    ∃ e, dotTerm (.el (.vec v m)) (.el (.mat A m n)) [.i j] = some e ∧
      eval (car O ρ) σ e = .r (Matrix.vecMul (valV ρ v m) (valM ρ A m n) j) := by
  have hn : 0 < n := Fin.pos j
  obtain ⟨e, he, hev⟩ := dotChain_eval O ρ σ m hm
    (fun k => subOf (.el (.vec v m)) [.i k]) (fun k => subOf (.el (.mat A m n)) [.i k, .i j])
    (fun k => ref v [.i k]) (fun k => ref A [.i k, .i j])
    (fun k => rv ρ v [.i k]) (fun k => rv ρ A [.i k, .i j])
    (fun k hk => vec_sub v m k hk) (fun k hk => mat_sub A m n k j hk j.isLt)
    (fun k _ => eval_ref O ρ σ _ _) (fun k _ => eval_ref O ρ σ _ _)
  refine ⟨e, ?_, ?_⟩
  · rw [← he]
    unfold dotTerm
    rw [vec_dims v m hm, mat_dims A m n hm]
    have h1 : n ≠ 0 := by omega
    have h3 : ¬ (j.val ≥ n) := by omega
    simp [h1, keyNat, h3]
  · rw [hev, Matrix.vecMul, dotProduct, Finset.sum_range]
    rfl

/-- **vector · vector** = `dotProduct` (the equation of a non-arrayed element) -/
theorem dot_vv (v w : String) (m : Nat) (hm : 0 < m) :
    ∃ e, dotTermNoIndex (.el (.vec v m)) (.el (.vec w m)) = some e ∧
      eval (car O ρ) σ e = .r (dotProduct (valV ρ v m) (valV ρ w m)) := by
  obtain ⟨e, he, hev⟩ := dotChain_eval O ρ σ m hm
    (fun k => subOf (.el (.vec v m)) [.i k]) (fun k => subOf (.el (.vec w m)) [.i k])
    (fun k => ref v [.i k]) (fun k => ref w [.i k])
    (fun k => rv ρ v [.i k]) (fun k => rv ρ w [.i k])
    (fun k hk => vec_sub v m k hk) (fun k hk => vec_sub w m k hk)
    (fun k _ => eval_ref O ρ σ _ _) (fun k _ => eval_ref O ρ σ _ _)
  refine ⟨e, ?_, ?_⟩
  · rw [← he]
    unfold dotTermNoIndex
    rw [vec_dims v m hm, vec_dims w m hm]
    simp
  · rw [hev, dotProduct, Finset.sum_range]
    rfl

/-- **scalar forms of dot** (`A.dot(s)`, `s.dot(A)`, `A.dot(2.0)`): every element times the value -/
theorem dot_scalar_right (a b : Operand) (idx : List Key) (hb : b.dims = .val) (ha : a.dims ≠ .val)
    (p : Py) (h : dotTerm a b idx = some p) :
    ∃ x y, a.valAt O ρ idx = some x ∧ b.valAt O ρ idx = some y ∧ eval (car O ρ) σ p = .r (x * y) := by
  unfold dotTerm at h
  rw [hb] at h
  cases a with
  | num n l => simp [Operand.dims] at ha
  | el e =>
    cases hd : (Operand.el e).dims with
    | val => exact absurd hd ha
    | d1 m => simp [Operand.dims, elemDims] at hd; split at hd <;> simp at hd
    | d2 m n =>
      rw [hd] at h
      simp only [Option.map_eq_some_iff] at h
      obtain ⟨x, hx, rfl⟩ := h
      have harr : e.arrayed = true := by
        simp only [Operand.dims, elemDims] at hd; split at hd <;> simp_all
      simp only [subOf, Elem.sub, Option.map_eq_some_iff] at hx
      obtain ⟨path, hpath, rfl⟩ := hx
      have hbv : ∃ y, b.valAt O ρ idx = some y ∧ eval (car O ρ) σ b.term = .r y := by
        cases b with
        | num n l => exact ⟨_, rfl, eval_numPy O ρ σ n l⟩
        | el e' =>
          have : e'.arrayed = false := by
            simp only [Operand.dims, elemDims] at hb; split at hb <;> simp_all
          exact ⟨rv ρ e'.name [], by simp [Operand.valAt, this], eval_ref O ρ σ _ _⟩
      obtain ⟨y, hy, hey⟩ := hbv
      exact ⟨rv ρ e.name path, y, by simp [Operand.valAt, harr, hpath], hy,
        eval_prodTerm O ρ σ _ _ _ _ (eval_ref O ρ σ _ _) hey⟩

end Sem

end Bptk.C10
