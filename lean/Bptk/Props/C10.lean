import Bptk.Core.C10
import Bptk.Proofs.PyFrag
import Bptk.Props.C02
import Mathlib.Data.Matrix.Mul
import Mathlib.Algebra.BigOperators.Fin
/-!
C10 — arrayed equations compute what the same numpy operation computes.

Quantifiers: all shapes `m n p : Nat`, all indices, all element names, all value assignments
`ρ : String → R` over an arbitrary commutative semiring `R` (subtraction, division, negation and the
reading of number literals are arbitrary functions) — no bound anywhere.

1. `expand_wl`, `aggTerm_wl`: every expression the model produces is well-levelled, hence
   (`expand_parses`, via A1's `parse_print`) the printed text parses back to exactly that tree.
2. semantics of the parsed tree (`eval` of C02 with the arithmetic carrier `car`):
   `elementwise_spec`, `nmul_spec`, `dot_mm`, `dot_mv`, `dot_vm`, `dot_vv`, `dot_scalar`, `sum_spec`,
   `prod_spec`, `agg_args`, `rank_args`, `rank_index_spec`, `size_spec`, `dims_spec`.
-/
namespace Bptk.C10
open Bptk.Py

/-! ## 1. Well-levelledness -/

@[simp] theorem lvlH_paren (L : Nat) (e : Py) : lvlH L (.paren e) = 100 := rfl
@[simp] theorem lvlH_bin (L : Nat) (k : BinOp) (l r : Py) : lvlH L (.bin k l r) = bp k := rfl
@[simp] theorem lvlH_num (L : Nat) (s : String) : lvlH L (.num s) = 100 := rfl
@[simp] theorem lvlH_neg (L : Nat) (e : Py) : lvlH L (.neg e) = 7 := rfl
@[simp] theorem lvlH_call (L : Nat) (f : Py) (as : List Py) : lvlH L (.call f as) = 100 := rfl
@[simp] theorem lvlH_index (L : Nat) (e i : Py) : lvlH L (.index e i) = 100 := rfl
@[simp] theorem lvlH_attr (L : Nat) (e : Py) (a : String) : lvlH L (.attr e a) = 100 := rfl
@[simp] theorem lvlH_name (L : Nat) (s : String) : lvlH L (.name s) = 100 := rfl
@[simp] theorem lvlH_str (L : Nat) (s : String) : lvlH L (.str s) = 100 := rfl
@[simp] theorem lvlH_list (L : Nat) (es : List Py) : lvlH L (.list es) = 100 := rfl
@[simp] theorem lvlH_ite (L : Nat) (x c y : Py) : lvlH L (.ite x c y) = 0 := rfl

/-- well-levelled and usable as an operand of `+ - * /` on either side -/
def G6 (p : Py) : Prop := WLb 0 p = true ∧ lvlH 0 p ≥ 6

theorem ref_wl (nm : String) (p : List Key) : WLb 0 (ref nm p) = true ∧ lvlH 0 (ref nm p) = 100 := by
  simp [ref, WLb, WLbArgs, WLbArg]

theorem ref_g6 (nm : String) (p : List Key) : G6 (ref nm p) := by
  have := ref_wl nm p; exact ⟨this.1, by omega⟩

theorem numPy_g6 (n : Bool) (l : String) : G6 (numPy n l) := by
  cases n <;> simp [G6, numPy, WLb]

theorem sub_g6 (e : Elem) (idx : List Key) (p : Py) (h : e.sub idx = some p) : G6 p := by
  simp only [Elem.sub, Option.map_eq_some_iff] at h
  obtain ⟨q, _, rfl⟩ := h
  exact ref_g6 _ _

theorem at_g6 (o : Operand) (idx : List Key) (p : Py) (h : o.at idx = some p) : G6 p := by
  cases o with
  | num n l => simp only [Operand.at, Option.some.injEq] at h; subst h; exact numPy_g6 n l
  | el e =>
    simp only [Operand.at] at h
    split at h
    · exact sub_g6 e idx p h
    · simp only [Option.some.injEq] at h; subst h; exact ref_g6 _ _

theorem term_g6 (o : Operand) : G6 o.term := by
  cases o with
  | num n l => exact numPy_g6 n l
  | el e => exact ref_g6 _ _

theorem subOf_g6 (o : Operand) (idx : List Key) (p : Py) (h : subOf o idx = some p) : G6 p := by
  cases o with
  | num n l => simp [subOf] at h
  | el e => exact sub_g6 e idx p h

theorem ewTmpl_g6 (o : EwOp) (x y : Py) (hx : G6 x) (hy : G6 y) : G6 (ewTmpl o x y) := by
  obtain ⟨hx1, hx2⟩ := hx
  obtain ⟨hy1, hy2⟩ := hy
  cases o <;> simp [G6, ewTmpl, WLb, hx1, hy1, ldem, rbp, bp] <;> omega

theorem prodTerm_g6 (x y : Py) (hx : G6 x) (hy : G6 y) : G6 (prodTerm x y) := by
  simp [G6, prodTerm, WLb, hx.1, hy.1, ldem, rbp, bp]

/-- a left-nested chain of `+` (resp. `*`) over operands of level ≥ 6 (resp. ≥ 7) is well-levelled -/
theorem foldl_wl (k : BinOp) (hk : k = .add ∨ k = .mul) (xs : List Py) (acc : Py)
    (hacc : WLb 0 acc = true ∧ lvlH 0 acc ≥ ldem k)
    (hxs : ∀ y ∈ xs, WLb 0 y = true ∧ lvlH 0 y ≥ rbp k) :
    WLb 0 (xs.foldl (fun a y => .bin k a y) acc) = true ∧
      lvlH 0 (xs.foldl (fun a y => .bin k a y) acc) ≥ ldem k := by
  induction xs generalizing acc with
  | nil => simpa using hacc
  | cons y ys ih =>
    simp only [List.foldl_cons]
    apply ih
    · have hy := hxs y (by simp)
      refine ⟨by simp [WLb, hacc.1, hy.1, hacc.2, hy.2], ?_⟩
      rcases hk with rfl | rfl <;> simp [ldem, bp]
    · intro z hz; exact hxs z (by simp [hz])

theorem chain_wl (k : BinOp) (hk : k = .add ∨ k = .mul) (xs : List Py) (p : Py)
    (hxs : ∀ y ∈ xs, WLb 0 y = true ∧ lvlH 0 y ≥ rbp k) (h : chain k xs = some p) : WLb 0 p = true := by
  cases xs with
  | nil => simp [chain] at h
  | cons x xs =>
    simp only [chain, Option.some.injEq] at h
    subst h
    have hx := hxs x (by simp)
    refine (foldl_wl k hk xs x ⟨hx.1, ?_⟩ (fun y hy => hxs y (by simp [hy]))).1
    have : ldem k ≤ rbp k := by rcases hk with rfl | rfl <;> simp [ldem, rbp, bp]
    omega

theorem optAll_mem {α} (l : List (Option α)) (xs : List α) (h : optAll l = some xs) :
    ∀ x ∈ xs, some x ∈ l := by
  induction l generalizing xs with
  | nil => simp [optAll] at h; subst h; simp
  | cons a l ih =>
    cases a with
    | none => simp [optAll] at h
    | some a =>
      simp only [optAll, Option.map_eq_some_iff] at h
      obtain ⟨ys, hys, rfl⟩ := h
      intro x hx
      simp only [List.mem_cons] at hx
      rcases hx with rfl | hx
      · simp
      · exact List.mem_cons_of_mem _ (ih ys hys x hx)

theorem dotChain_wl (xs : List (Option Py × Option Py)) (p : Py)
    (hxs : ∀ q ∈ xs, (∀ x, q.1 = some x → G6 x) ∧ (∀ y, q.2 = some y → G6 y))
    (h : dotChain xs = some p) : G6 p := by
  unfold dotChain at h
  split at h
  next ps hps =>
    simp only [Option.map_eq_some_iff] at h
    obtain ⟨c, hc, rfl⟩ := h
    refine ⟨?_, by simp⟩
    simp only [WLb]
    apply chain_wl .add (Or.inl rfl) ps c _ hc
    intro y hy
    have hmem := optAll_mem _ _ hps y hy
    simp only [List.mem_map] at hmem
    obtain ⟨q, hq, hqe⟩ := hmem
    obtain ⟨a, b⟩ := q
    cases a with
    | none => simp [pairProd] at hqe
    | some a =>
      cases b with
      | none => simp [pairProd] at hqe
      | some b =>
        simp only [pairProd, Option.some.injEq] at hqe
        subst hqe
        have hg := prodTerm_g6 a b ((hxs _ hq).1 a rfl) ((hxs _ hq).2 b rfl)
        exact ⟨hg.1, by have := hg.2; simp [rbp, bp]; omega⟩
  next => simp at h

theorem dotPairs_ok (a b : Operand) (f g : Nat → List Key) (l : List Nat) :
    ∀ q ∈ l.map (fun k => (subOf a (f k), subOf b (g k))),
      (∀ x, q.1 = some x → G6 x) ∧ (∀ y, q.2 = some y → G6 y) := by
  intro q hq
  simp only [List.mem_map] at hq
  obtain ⟨k, _, rfl⟩ := hq
  exact ⟨fun x hx => subOf_g6 a _ x hx, fun y hy => subOf_g6 b _ y hy⟩

theorem dotTerm_g6 (a b : Operand) (idx : List Key) (p : Py) (h : dotTerm a b idx = some p) : G6 p := by
  unfold dotTerm at h
  split at h
  · simp at h
  · simp only [Option.map_eq_some_iff] at h
    obtain ⟨y, hy, rfl⟩ := h
    exact prodTerm_g6 _ _ (term_g6 a) (subOf_g6 b idx y hy)
  · simp only [Option.map_eq_some_iff] at h
    obtain ⟨x, hx, rfl⟩ := h
    exact prodTerm_g6 _ _ (subOf_g6 a idx x hx) (term_g6 b)
  · split at h
    · split at h
      · split at h
        · exact dotChain_wl _ p (dotPairs_ok a b _ _ _) h
        · simp at h
      · split at h
        · split at h
          · split at h
            · split at h
              · simp at h
              · exact dotChain_wl _ p (dotPairs_ok a b _ _ _) h
            · simp at h
          · simp at h
        · simp at h
    · split at h
      · split at h
        · split at h
          · split at h
            · split at h
              · simp at h
              · exact dotChain_wl _ p (dotPairs_ok a b _ _ _) h
            · simp at h
          · simp at h
        · simp at h
      · split at h
        · split at h
          · split at h
            · simp at h
            · exact dotChain_wl _ p (dotPairs_ok a b _ _ _) h
          · simp at h
        · simp at h
  · simp at h

theorem num00_g6 : G6 (.num "0.0") := by simp [G6, WLb]

theorem dotTermNoIndex_g6 (a b : Operand) (p : Py) (h : dotTermNoIndex a b = some p) : G6 p := by
  unfold dotTermNoIndex at h
  split at h
  · split at h
    · exact dotChain_wl _ p (dotPairs_ok a b _ _ _) h
    · simp at h
  · simp only [Option.some.injEq] at h; subst h; exact num00_g6
  · simp at h
  · simp only [Option.some.injEq] at h; subst h; exact num00_g6
  · simp at h

theorem termAt_g6 (f : Form) (a b : Operand) (idx : List Key) (p : Py) (h : termAt f a b idx = some p) :
    G6 p := by
  cases f with
  | ew o =>
    simp only [termAt] at h
    split at h
    next x y hx hy =>
      simp only [Option.some.injEq] at h; subst h
      exact ewTmpl_g6 o x y (at_g6 a idx x hx) (at_g6 b idx y hy)
    next => simp at h
  | nmul =>
    simp only [termAt] at h
    split at h
    next y x hy hx =>
      simp only [Option.some.injEq] at h; subst h
      exact prodTerm_g6 y x (at_g6 b idx y hy) (at_g6 a idx x hx)
    next => simp at h
  | dot => exact dotTerm_g6 a b idx p h

theorem termNoIndex_g6 (f : Form) (a b : Operand) (p : Py) (h : termNoIndex f a b = some p) : G6 p := by
  cases f with
  | ew o => simp only [termNoIndex, Option.some.injEq] at h; subst h; exact ewTmpl_g6 o _ _ (term_g6 a) (term_g6 b)
  | nmul => simp only [termNoIndex, Option.some.injEq] at h; subst h; exact prodTerm_g6 _ _ (term_g6 b) (term_g6 a)
  | dot => exact dotTermNoIndex_g6 a b p h

/-- every per-element expression of a result -/
def Result.exprs : Result → List Py
  | .scalar p => [p]
  | .vector _ es => es.map (·.2)
  | .matrix rows => rows.flatten

theorem vecEntries_g6 (f : Form) (a b : Operand) (nm : Bool) (m : Nat) (es : List (Key × Py))
    (h : vecEntries f a b nm m = some es) : ∀ kp ∈ es, G6 kp.2 := by
  intro kp hkp
  have hmem := optAll_mem _ _ h kp hkp
  simp only [List.mem_map] at hmem
  obtain ⟨i, _, hi⟩ := hmem
  split at hi
  · split at hi
    · simp only [Option.map_eq_some_iff] at hi
      obtain ⟨p, hp, rfl⟩ := hi
      exact termAt_g6 _ _ _ _ _ hp
    · simp at hi
  · simp only [Option.map_eq_some_iff] at hi
    obtain ⟨p, hp, rfl⟩ := hi
    exact termAt_g6 _ _ _ _ _ hp

theorem matEntries_g6 (f : Form) (a b : Operand) (m n : Nat) (rows : List (List Py))
    (h : matEntries f a b m n = some rows) : ∀ row ∈ rows, ∀ p ∈ row, G6 p := by
  intro row hrow p hp
  have hmem := optAll_mem _ _ h row hrow
  simp only [List.mem_map] at hmem
  obtain ⟨i, _, hi⟩ := hmem
  have hmem2 := optAll_mem _ _ hi p hp
  simp only [List.mem_map] at hmem2
  obtain ⟨j, _, hj⟩ := hmem2
  exact termAt_g6 _ _ _ _ _ hj

theorem expandArr_wl (f : Form) (a b : Operand) (d : Dims) (r : Result) (h : expandArr f a b d = some r) :
    ∀ p ∈ r.exprs, WLb 0 p = true := by
  unfold expandArr at h
  split at h
  · split at h
    · simp at h
    · simp only [Option.map_eq_some_iff] at h
      obtain ⟨es, hes, rfl⟩ := h
      intro q hq
      simp only [Result.exprs, List.mem_map] at hq
      obtain ⟨kp, hkp, rfl⟩ := hq
      exact (vecEntries_g6 f a b _ _ es hes kp hkp).1
  · split at h
    · simp only [Option.map_eq_some_iff] at h
      obtain ⟨rows, hrows, rfl⟩ := h
      intro q hq
      simp only [Result.exprs, List.mem_flatten] at hq
      obtain ⟨row, hrow, hq⟩ := hq
      exact (matEntries_g6 f a b _ _ rows hrows row hrow q hq).1
    · simp at h

theorem scalar_wl (f : Form) (a b : Operand) (r : Result)
    (h : (termNoIndex f a b).map Result.scalar = some r) : ∀ p ∈ r.exprs, WLb 0 p = true := by
  simp only [Option.map_eq_some_iff] at h
  obtain ⟨p, hp, rfl⟩ := h
  intro q hq
  simp only [Result.exprs, List.mem_singleton] at hq
  subst hq
  exact (termNoIndex_g6 f a b _ hp).1

/-- **(1)** every expression `expand` produces is well-levelled -/
theorem expand_wl (f : Form) (a b : Operand) (r : Result) (h : expand f a b = some r) :
    ∀ p ∈ r.exprs, WLb 0 p = true := by
  unfold expand at h
  split at h
  · simp at h
  · split at h
    · exact scalar_wl f a b r h
    · split at h
      · simp at h
      · exact scalar_wl f a b r h
      · exact expandArr_wl f a b _ r h

/-- … hence its printed text (= the element's function string, token for token) parses back to
exactly that tree under CPython's precedence rules. -/
theorem expand_parses (f : Form) (a b : Operand) (r : Result) (h : expand f a b = some r) :
    ∀ p ∈ r.exprs, Parses (pr p) p :=
  fun p hp => parse_print p (expand_wl f a b r h p hp)

/-! ### aggregates -/

theorem WLbL_of_all (es : List Py) (h : ∀ p ∈ es, WLb 0 p = true) : WLbL 0 es = true := by
  induction es with
  | nil => simp [WLbL]
  | cons e es ih =>
    simp only [WLbL, Bool.and_eq_true]
    exact ⟨h e (by simp), ih (fun p hp => h p (by simp [hp]))⟩

theorem rows_ref (e : Elem) : ∀ row ∈ e.rows, ∀ p ∈ row, ∃ path, p = ref e.name path := by
  intro row hrow p hp
  unfold Elem.rows at hrow
  split at hrow
  · simp only [List.mem_map] at hrow
    obtain ⟨k, _, rfl⟩ := hrow
    simp only [List.mem_singleton] at hp
    exact ⟨[k], hp⟩
  · simp only [List.mem_map] at hrow
    obtain ⟨k, _, rfl⟩ := hrow
    simp only [List.mem_map] at hp
    obtain ⟨l, _, rfl⟩ := hp
    exact ⟨[k, l], rfl⟩

theorem rowMajor_ref (e : Elem) : ∀ p ∈ e.rowMajor, ∃ path, p = ref e.name path := by
  intro p hp
  simp only [Elem.rowMajor, List.mem_flatten] at hp
  obtain ⟨row, hrow, hp⟩ := hp
  exact rows_ref e row hrow p hp

theorem rowMajor_wl (e : Elem) : ∀ p ∈ e.rowMajor, WLb 0 p = true ∧ lvlH 0 p = 100 := by
  intro p hp
  obtain ⟨path, rfl⟩ := rowMajor_ref e p hp
  exact ref_wl _ _

theorem display_wl (e : Elem) : WLb 0 e.display = true := by
  unfold Elem.display
  split
  · simp only [WLb]
    exact WLbL_of_all _ (fun p hp => (rowMajor_wl e p hp).1)
  · simp only [WLb]
    apply WLbL_of_all
    intro p hp
    simp only [List.mem_map] at hp
    obtain ⟨row, hrow, rfl⟩ := hp
    simp only [WLb]
    apply WLbL_of_all
    intro q hq
    obtain ⟨path, rfl⟩ := rows_ref e row hrow q hq
    exact (ref_wl _ _).1

theorem rankIndexPy_wl (neg : Bool) (k count : Nat) : WLb 0 (rankIndexPy neg k count) = true := by
  cases neg <;> simp [rankIndexPy, natPy, numPy, WLb, ldem, rbp, bp]

theorem npCall_wl (fn : String) (e : Elem) : WLb 0 (npCall fn e.display) = true := by
  have := display_wl e
  unfold Elem.display at this ⊢
  split <;> simp_all [npCall, WLb, WLbArgs, WLbArg]

/-- **(1, aggregates)** every aggregate expression is well-levelled -/
theorem aggTerm_wl (g : Agg) (e : Elem) (p : Py) (h : aggTerm g e = some p) : WLb 0 p = true := by
  unfold aggTerm at h
  split at h
  · cases g with
    | sum =>
      simp only [aggArr, Option.map_eq_some_iff] at h
      obtain ⟨c, hc, rfl⟩ := h
      simp only [WLb]
      exact chain_wl .add (Or.inl rfl) _ c (fun y hy => by
        have := rowMajor_wl e y hy; exact ⟨this.1, by rw [this.2]; simp [rbp, bp]⟩) hc
    | prod =>
      simp only [aggArr, Option.map_eq_some_iff] at h
      obtain ⟨c, hc, rfl⟩ := h
      simp only [WLb]
      exact chain_wl .mul (Or.inr rfl) _ c (fun y hy => by
        have := rowMajor_wl e y hy; exact ⟨this.1, by rw [this.2]; simp [rbp, bp]⟩) hc
    | mean => simp only [aggArr, Option.some.injEq] at h; subst h; exact npCall_wl _ e
    | median => simp only [aggArr, Option.some.injEq] at h; subst h; exact npCall_wl _ e
    | std => simp only [aggArr, Option.some.injEq] at h; subst h; exact npCall_wl _ e
    | size => simp only [aggArr, Option.some.injEq] at h; subst h; simp [natPy, WLb]
    | rank neg k =>
      simp only [aggArr, Option.some.injEq] at h; subst h
      simp only [sortedCall, WLb, WLbArgs, WLbArg, lvlH_call, lvlH_name, rankIndexPy_wl, Bool.and_true,
        Bool.true_and, ge_iff_le, le_refl, decide_true]
      exact WLbL_of_all _ (fun p hp => (rowMajor_wl e p hp).1)
  · simp only [Option.some.injEq] at h; subst h
    cases g <;> simp [aggScalar, WLb] <;> exact (ref_wl e.name []).1

theorem aggTerm_parses (g : Agg) (e : Elem) (p : Py) (h : aggTerm g e = some p) : Parses (pr p) p :=
  parse_print p (aggTerm_wl g e p h)

/-! ## 2. Semantics: the arithmetic carrier -/

section Sem
open BigOperators
variable {R : Type} [CommSemiring R]

/-- everything about the arithmetic that the theorems do not need to know: subtraction, division,
negation, the reading of number literals, numpy's aggregate functions (on the flattened argument) and
`sorted(…, reverse=True)` are arbitrary functions. -/
structure Ops (R : Type) where
  sub : R → R → R
  div : R → R → R
  neg : R → R
  numv : String → R
  fn : String → List R → R
  sortDesc : List R → List R

inductive V (R : Type)
  | r (x : R)
  | sym (s : String)
  | att (m a : String)
  | lst (xs : List R)
  | lst2 (xss : List (List R))
  | kwv (n : String) (v : V R)
  | bad

def allR : List (V R) → Option (List R)
  | [] => some []
  | .r x :: vs => (allR vs).map (x :: ·)
  | _ => none

def allL : List (V R) → Option (List (List R))
  | [] => some []
  | .lst xs :: vs => (allL vs).map (xs :: ·)
  | _ => none

def listV (vs : List (V R)) : V R :=
  match allR vs with
  | some xs => .lst xs
  | none => match allL vs with
    | some xss => .lst2 xss
    | none => .bad

def binV (O : Ops R) : BinOp → V R → V R → V R
  | .add, .r x, .r y => .r (x + y)
  | .mul, .r x, .r y => .r (x * y)
  | .sub, .r x, .r y => .r (O.sub x y)
  | .div, .r x, .r y => .r (O.div x y)
  | _, _, _ => .bad

def callV (O : Ops R) (ρ : String → R) (f : V R) (args : List (V R)) : V R :=
  match f, args with
  | .att m a, [.sym key, _] => if m = "model" ∧ a = "memoize" then .r (ρ key) else .bad
  | .att m a, [.lst xs] => if m = "np" then .r (O.fn a xs) else .bad
  | .att m a, [.lst2 xss] => if m = "np" then .r (O.fn a xss.flatten) else .bad
  | .sym s, [.lst xs, .kwv n (.sym t)] =>
    if s = "sorted" ∧ n = "reverse" ∧ t = "True" then .lst (O.sortDesc xs) else .bad
  | _, _ => .bad

/-- the arithmetic carrier: `+` and `*` are the semiring's, element references read `ρ` -/
def car (O : Ops R) (ρ : String → R) : Carrier (V R) where
  num s := .r (O.numv s)
  name s := .sym s
  str s := .sym s
  neg v := match v with | .r x => .r (O.neg x) | _ => .bad
  not _ := .bad
  bin := binV O
  ite _ _ _ := .bad
  attr v a := match v with | .sym m => .att m a | _ => .bad
  call := callV O ρ
  index _ _ := .bad
  list := listV
  kw n v := .kwv n v

variable (O : Ops R) (ρ : String → R) (σ : Nat → V R)

/-- value of the element reference `name[k1][k2]` -/
def rv (nm : String) (path : List Key) : R := ρ (nm ++ pathStr path)

theorem eval_ref (nm : String) (path : List Key) :
    eval (car O ρ) σ (ref nm path) = .r (rv ρ nm path) := by
  simp [ref, eval, evalL, car, callV, rv]

def numVal (n : Bool) (l : String) : R := if n then O.neg (O.numv l) else O.numv l

theorem eval_numPy (n : Bool) (l : String) : eval (car O ρ) σ (numPy n l) = .r (numVal O n l) := by
  cases n <;> simp [numPy, eval, car, numVal]

/-- the value an operand contributes at result index `idx` (arrays indexed, scalars broadcast) -/
def Operand.valAt (o : Operand) (idx : List Key) : Option R :=
  match o with
  | .num n l => some (numVal O n l)
  | .el e => if e.arrayed then (e.path idx).map (rv ρ e.name) else some (rv ρ e.name [])

theorem at_eval (o : Operand) (idx : List Key) (x : Py) (h : o.at idx = some x) :
    ∃ v, o.valAt O ρ idx = some v ∧ eval (car O ρ) σ x = .r v := by
  cases o with
  | num n l =>
    simp only [Operand.at, Option.some.injEq] at h; subst h
    exact ⟨_, rfl, eval_numPy O ρ σ n l⟩
  | el e =>
    simp only [Operand.at] at h
    cases ha : e.arrayed with
    | true =>
      simp only [ha, if_true, Elem.sub, Option.map_eq_some_iff] at h
      obtain ⟨path, hp, rfl⟩ := h
      exact ⟨rv ρ e.name path, by simp [Operand.valAt, ha, hp], eval_ref O ρ σ _ _⟩
    | false =>
      simp only [ha, Bool.false_eq_true, if_false, Option.some.injEq] at h; subst h
      exact ⟨rv ρ e.name [], by simp [Operand.valAt, ha], eval_ref O ρ σ _ _⟩

def ewVal (o : EwOp) (x y : R) : R :=
  match o with
  | .add => x + y
  | .sub => O.sub x y
  | .mul => x * y
  | .div => O.div x y

theorem eval_ewTmpl (o : EwOp) (x y : Py) (vx vy : R) (hx : eval (car O ρ) σ x = .r vx)
    (hy : eval (car O ρ) σ y = .r vy) : eval (car O ρ) σ (ewTmpl o x y) = .r (ewVal O o vx vy) := by
  cases o <;> simp only [ewTmpl, eval, hx, hy] <;> simp [car, binV, ewVal]

theorem eval_prodTerm (x y : Py) (vx vy : R) (hx : eval (car O ρ) σ x = .r vx)
    (hy : eval (car O ρ) σ y = .r vy) : eval (car O ρ) σ (prodTerm x y) = .r (vx * vy) := by
  simp only [prodTerm, eval, hx, hy]; simp [car, binV]

/-- **element-wise operators** (array∘array, array∘scalar, scalar∘array, any key scheme): the
expression of result element `idx` evaluates to `A[idx] ∘ B[idx]`, scalars and numbers broadcast. -/
theorem elementwise_spec (o : EwOp) (a b : Operand) (idx : List Key) (p : Py)
    (h : termAt (.ew o) a b idx = some p) :
    ∃ x y, a.valAt O ρ idx = some x ∧ b.valAt O ρ idx = some y ∧
      eval (car O ρ) σ p = .r (ewVal O o x y) := by
  simp only [termAt] at h
  split at h
  next x y hx hy =>
    simp only [Option.some.injEq] at h; subst h
    obtain ⟨vx, hvx, hex⟩ := at_eval O ρ σ a idx x hx
    obtain ⟨vy, hvy, hey⟩ := at_eval O ρ σ b idx y hy
    exact ⟨vx, vy, hvx, hvy, eval_ewTmpl O ρ σ o x y vx vy hex hey⟩
  next => simp at h

/-- **number * array / -array** (`NumericalMultiplicationOperator(a, b)`): `b[idx] * a[idx]` -/
theorem nmul_spec (a b : Operand) (idx : List Key) (p : Py) (h : termAt .nmul a b idx = some p) :
    ∃ x y, a.valAt O ρ idx = some x ∧ b.valAt O ρ idx = some y ∧
      eval (car O ρ) σ p = .r (y * x) := by
  simp only [termAt] at h
  split at h
  next y x hy hx =>
    simp only [Option.some.injEq] at h; subst h
    obtain ⟨vx, hvx, hex⟩ := at_eval O ρ σ a idx x hx
    obtain ⟨vy, hvy, hey⟩ := at_eval O ρ σ b idx y hy
    exact ⟨vx, vy, hvx, hvy, eval_prodTerm O ρ σ y x vy vx hey hex⟩
  next => simp at h

/-! ### chains -/

theorem eval_add (l r : Py) (a b : R) (hl : eval (car O ρ) σ l = .r a) (hr : eval (car O ρ) σ r = .r b) :
    eval (car O ρ) σ (.bin .add l r) = .r (a + b) := by
  simp only [eval, hl, hr]; rfl

theorem eval_mul (l r : Py) (a b : R) (hl : eval (car O ρ) σ l = .r a) (hr : eval (car O ρ) σ r = .r b) :
    eval (car O ρ) σ (.bin .mul l r) = .r (a * b) := by
  simp only [eval, hl, hr]; rfl

theorem eval_foldl_add (xs : List Py) (g : Py → R) (acc : Py) (va : R)
    (hacc : eval (car O ρ) σ acc = .r va) (hxs : ∀ y ∈ xs, eval (car O ρ) σ y = .r (g y)) :
    eval (car O ρ) σ (xs.foldl (fun a y => .bin .add a y) acc) = .r (va + (xs.map g).sum) := by
  induction xs generalizing acc va with
  | nil => simpa using hacc
  | cons y ys ih =>
    simp only [List.foldl_cons, List.map_cons, List.sum_cons]
    rw [ih (.bin .add acc y) (va + g y) (eval_add O ρ σ _ _ _ _ hacc (hxs y (by simp)))
      (fun z hz => hxs z (by simp [hz])), add_assoc]

theorem eval_foldl_mul (xs : List Py) (g : Py → R) (acc : Py) (va : R)
    (hacc : eval (car O ρ) σ acc = .r va) (hxs : ∀ y ∈ xs, eval (car O ρ) σ y = .r (g y)) :
    eval (car O ρ) σ (xs.foldl (fun a y => .bin .mul a y) acc) = .r (va * (xs.map g).prod) := by
  induction xs generalizing acc va with
  | nil => simpa using hacc
  | cons y ys ih =>
    simp only [List.foldl_cons, List.map_cons, List.prod_cons]
    rw [ih (.bin .mul acc y) (va * g y) (eval_mul O ρ σ _ _ _ _ hacc (hxs y (by simp)))
      (fun z hz => hxs z (by simp [hz])), mul_assoc]

theorem optAll_map_some {α β} (l : List α) (f : α → Option β) (g : α → β)
    (h : ∀ x ∈ l, f x = some (g x)) : optAll (l.map f) = some (l.map g) := by
  induction l with
  | nil => simp [optAll]
  | cons x xs ih =>
    simp only [List.map_cons, h x (by simp), optAll, ih (fun y hy => h y (by simp [hy]))]
    simp

theorem list_sum_range (n : Nat) (f : Nat → R) :
    ((List.range n).map f).sum = ∑ k ∈ Finset.range n, f k := by
  induction n with
  | zero => simp
  | succ n ih => simp [List.range_succ, Finset.sum_range_succ, ih]

theorem list_prod_range (n : Nat) (f : Nat → R) :
    ((List.range n).map f).prod = ∏ k ∈ Finset.range n, f k := by
  induction n with
  | zero => simp
  | succ n ih => simp [List.range_succ, Finset.prod_range_succ, ih]

/-- the text `((a0) * (b0) + (a1) * (b1) + …)` evaluates to `Σ_k a_k * b_k` -/
theorem dotChain_eval (n : Nat) (hn : 0 < n) (fa fb : Nat → Option Py) (pa pb : Nat → Py) (ga gb : Nat → R)
    (hfa : ∀ k < n, fa k = some (pa k)) (hfb : ∀ k < n, fb k = some (pb k))
    (ha : ∀ k < n, eval (car O ρ) σ (pa k) = .r (ga k))
    (hb : ∀ k < n, eval (car O ρ) σ (pb k) = .r (gb k)) :
    ∃ e, dotChain ((List.range n).map fun k => (fa k, fb k)) = some e ∧
      eval (car O ρ) σ e = .r (∑ k ∈ Finset.range n, ga k * gb k) := by
  have h1 : optAll (((List.range n).map fun k => (fa k, fb k)).map pairProd)
      = some ((List.range n).map fun k => prodTerm (pa k) (pb k)) := by
    rw [List.map_map]
    apply optAll_map_some
    intro k hk
    have hk' : k < n := List.mem_range.mp hk
    simp [hfa k hk', hfb k hk', pairProd]
  obtain ⟨n', rfl⟩ : ∃ n', n = n' + 1 := ⟨n - 1, by omega⟩
  have hev : ∀ k < n' + 1, eval (car O ρ) σ (prodTerm (pa k) (pb k)) = .r (ga k * gb k) :=
    fun k hk => eval_prodTerm O ρ σ _ _ _ _ (ha k hk) (hb k hk)
  -- evaluate the whole chain as a list sum, via a function on indices
  have key : ∀ (l : List Nat) (hl : ∀ k ∈ l, k < n' + 1) (acc : Py) (va : R),
      eval (car O ρ) σ acc = .r va →
      eval (car O ρ) σ ((l.map fun k => prodTerm (pa k) (pb k)).foldl (fun a y => .bin .add a y) acc)
        = .r (va + (l.map fun k => ga k * gb k).sum) := by
    intro l
    induction l with
    | nil => intro _ acc va h; simpa using h
    | cons k ks ih =>
      intro hl acc va h
      simp only [List.map_cons, List.foldl_cons, List.sum_cons]
      rw [ih (fun j hj => hl j (by simp [hj])) (.bin .add acc (prodTerm (pa k) (pb k))) (va + ga k * gb k)
        (eval_add O ρ σ _ _ _ _ h (hev k (hl k (by simp)))), add_assoc]
  unfold dotChain
  rw [h1]
  rw [List.range_succ_eq_map]
  simp only [List.map_cons, chain, Option.map_some]
  refine ⟨_, rfl, ?_⟩
  simp only [eval]
  have := key ((List.range n').map Nat.succ) (by simp) (prodTerm (pa 0) (pb 0)) (ga 0 * gb 0) (hev 0 (by omega))
  rw [this, ← list_sum_range, List.range_succ_eq_map]
  simp [List.map_map]

/-! ### indexed arrays -/

theorem findKey_range (m i : Nat) :
    findKey (rangeKeys m) (.i i) = if i < m then some (.i i) else none := by
  induction m with
  | zero => simp [rangeKeys, findKey]
  | succ m ih =>
    simp only [rangeKeys, findKey] at ih ⊢
    rw [List.range_succ, List.map_append, List.find?_append, ih]
    by_cases h : i < m
    · have : i < m + 1 := by omega
      simp [h, this]
    · by_cases h2 : i = m
      · subst h2; simp [Key.same]
      · have : ¬ i < m + 1 := by omega
        simp [h, this, Key.same, h2]

theorem rangeKeys_length (m : Nat) : (rangeKeys m).length = m := by simp [rangeKeys]

theorem rangeKeys_isEmpty (m : Nat) : (rangeKeys m).isEmpty = decide (m = 0) := by
  cases m <;> simp [rangeKeys, List.range_succ]

theorem mat_arrayed (A : String) (m n : Nat) (hm : 0 < m) : (Elem.mat A m n).arrayed = true := by
  simp [Elem.arrayed, Elem.mat, rangeKeys_isEmpty]; omega

theorem vec_arrayed (A : String) (m : Nat) (hm : 0 < m) : (Elem.vec A m).arrayed = true := by
  simp [Elem.arrayed, Elem.vec, rangeKeys_isEmpty]; omega

theorem mat_dims (A : String) (m n : Nat) (hm : 0 < m) : (Operand.el (Elem.mat A m n)).dims = .d2 m n := by
  simp [Operand.dims, elemDims, mat_arrayed A m n hm]; simp [Elem.mat, rangeKeys_length]

theorem vec_dims (A : String) (m : Nat) (hm : 0 < m) : (Operand.el (Elem.vec A m)).dims = .d2 m 0 := by
  simp [Operand.dims, elemDims, vec_arrayed A m hm]; simp [Elem.vec, rangeKeys_length]

theorem mat_sub (A : String) (m n i j : Nat) (hi : i < m) (hj : j < n) :
    subOf (.el (Elem.mat A m n)) [.i i, .i j] = some (ref A [.i i, .i j]) := by
  have ha := mat_arrayed A m n (by omega)
  simp only [subOf, Elem.sub, Elem.path, ha, if_true]
  simp [Elem.mat, findKey_range, hi, hj, rangeKeys_isEmpty]; omega

theorem vec_sub (A : String) (m i : Nat) (hi : i < m) :
    subOf (.el (Elem.vec A m)) [.i i] = some (ref A [.i i]) := by
  have ha := vec_arrayed A m (by omega)
  simp only [subOf, Elem.sub, Elem.path, ha, if_true]
  simp [Elem.vec, findKey_range, hi]

/-- the values of an indexed matrix / vector element under `ρ` -/
def valM (A : String) (m n : Nat) : Matrix (Fin m) (Fin n) R := fun i j => rv ρ A [.i i.val, .i j.val]
def valV (A : String) (m : Nat) : Fin m → R := fun i => rv ρ A [.i i.val]

/-- **matrix · matrix**: the expression of result element (i, j) evaluates to `(A * B) i j`
(Mathlib's `Matrix.mul`) -/
theorem dot_mm (A B : String) (m n p : Nat) (hn : 0 < n) (i : Fin m) (j : Fin p) :
    ∃ e, termAt .dot (.el (.mat A m n)) (.el (.mat B n p)) [.i i, .i j] = some e ∧
      eval (car O ρ) σ e = .r ((valM ρ A m n * valM ρ B n p) i j) := by
  have hm : 0 < m := Fin.pos i
  have hp : 0 < p := Fin.pos j
  obtain ⟨e, he, hev⟩ := dotChain_eval O ρ σ n hn
    (fun k => subOf (.el (.mat A m n)) [.i i, .i k]) (fun k => subOf (.el (.mat B n p)) [.i k, .i j])
    (fun k => ref A [.i i, .i k]) (fun k => ref B [.i k, .i j])
    (fun k => rv ρ A [.i i, .i k]) (fun k => rv ρ B [.i k, .i j])
    (fun k hk => mat_sub A m n i k i.isLt hk) (fun k hk => mat_sub B n p k j hk j.isLt)
    (fun k _ => eval_ref O ρ σ _ _) (fun k _ => eval_ref O ρ σ _ _)
  refine ⟨e, ?_, ?_⟩
  · rw [← he]
    simp only [termAt]
    unfold dotTerm
    rw [mat_dims A m n hm, mat_dims B n p hn]
    have h1 : n ≠ 0 := by omega
    have h2 : p ≠ 0 := by omega
    have h3 : ¬ (i.val ≥ m ∨ j.val ≥ p) := by omega
    simp [h1, h2, keyNat, h3]
  · rw [hev, Matrix.mul_apply, Finset.sum_range]
    rfl

/-- **matrix · vector** = `Matrix.mulVec` -/
theorem dot_mv (A v : String) (m n : Nat) (hn : 0 < n) (i : Fin m) :
    ∃ e, termAt .dot (.el (.mat A m n)) (.el (.vec v n)) [.i i] = some e ∧
      eval (car O ρ) σ e = .r (Matrix.mulVec (valM ρ A m n) (valV ρ v n) i) := by
  have hm : 0 < m := Fin.pos i
  obtain ⟨e, he, hev⟩ := dotChain_eval O ρ σ n hn
    (fun k => subOf (.el (.mat A m n)) [.i i, .i k]) (fun k => subOf (.el (.vec v n)) [.i k])
    (fun k => ref A [.i i, .i k]) (fun k => ref v [.i k])
    (fun k => rv ρ A [.i i, .i k]) (fun k => rv ρ v [.i k])
    (fun k hk => mat_sub A m n i k i.isLt hk) (fun k hk => vec_sub v n k hk)
    (fun k _ => eval_ref O ρ σ _ _) (fun k _ => eval_ref O ρ σ _ _)
  refine ⟨e, ?_, ?_⟩
  · rw [← he]
    simp only [termAt]
    unfold dotTerm
    rw [mat_dims A m n hm, vec_dims v n hn]
    have h1 : n ≠ 0 := by omega
    have h3 : ¬ (i.val ≥ m) := by omega
    simp [h1, keyNat, h3]
  · rw [hev, Matrix.mulVec, dotProduct, Finset.sum_range]
    rfl

/-- **vector · matrix** = `Matrix.vecMul` -/
theorem dot_vm (v A : String) (m n : Nat) (hm : 0 < m) (j : Fin n) :
    ∃ e, termAt .dot (.el (.vec v m)) (.el (.mat A m n)) [.i j] = some e ∧
      eval (car O ρ) σ e = .r (Matrix.vecMul (valV ρ v m) (valM ρ A m n) j) := by
  have hn : 0 < n := Fin.pos j
  obtain ⟨e, he, hev⟩ := dotChain_eval O ρ σ m hm
    (fun k => subOf (.el (.vec v m)) [.i k]) (fun k => subOf (.el (.mat A m n)) [.i k, .i j])
    (fun k => ref v [.i k]) (fun k => ref A [.i k, .i j])
    (fun k => rv ρ v [.i k]) (fun k => rv ρ A [.i k, .i j])
    (fun k hk => vec_sub v m k hk) (fun k hk => mat_sub A m n k j hk j.isLt)
    (fun k _ => eval_ref O ρ σ _ _) (fun k _ => eval_ref O ρ σ _ _)
  refine ⟨e, ?_, ?_⟩
  · rw [← he]
    simp only [termAt]
    unfold dotTerm
    rw [vec_dims v m hm, mat_dims A m n hm]
    have h1 : n ≠ 0 := by omega
    have h3 : ¬ (j.val ≥ n) := by omega
    simp [h1, keyNat, h3]
  · rw [hev, Matrix.vecMul, dotProduct, Finset.sum_range]
    rfl

/-- **vector · vector** = `dotProduct` (the equation of a non-arrayed element) -/
theorem dot_vv (v w : String) (m : Nat) (hm : 0 < m) :
    ∃ e, termNoIndex .dot (.el (.vec v m)) (.el (.vec w m)) = some e ∧
      eval (car O ρ) σ e = .r (dotProduct (valV ρ v m) (valV ρ w m)) := by
  obtain ⟨e, he, hev⟩ := dotChain_eval O ρ σ m hm
    (fun k => subOf (.el (.vec v m)) [.i k]) (fun k => subOf (.el (.vec w m)) [.i k])
    (fun k => ref v [.i k]) (fun k => ref w [.i k])
    (fun k => rv ρ v [.i k]) (fun k => rv ρ w [.i k])
    (fun k hk => vec_sub v m k hk) (fun k hk => vec_sub w m k hk)
    (fun k _ => eval_ref O ρ σ _ _) (fun k _ => eval_ref O ρ σ _ _)
  refine ⟨e, ?_, ?_⟩
  · rw [← he]
    simp only [termNoIndex]
    unfold dotTermNoIndex
    rw [vec_dims v m hm, vec_dims w m hm]
    simp
  · rw [hev, dotProduct, Finset.sum_range]
    rfl

/-- **scalar forms of dot** (`A.dot(s)`, `s.dot(A)`, `A.dot(2.0)`): every element times the value -/
theorem dot_scalar_right (a b : Operand) (idx : List Key) (hb : b.dims = .val) (ha : a.dims ≠ .val)
    (p : Py) (h : termAt .dot a b idx = some p) :
    ∃ x y, a.valAt O ρ idx = some x ∧ b.valAt O ρ idx = some y ∧ eval (car O ρ) σ p = .r (x * y) := by
  simp only [termAt] at h
  unfold dotTerm at h
  rw [hb] at h
  cases a with
  | num n l => simp [Operand.dims] at ha
  | el e =>
    cases hd : (Operand.el e).dims with
    | val => exact absurd hd ha
    | d1 m => simp [Operand.dims, elemDims] at hd; split at hd <;> simp at hd
    | d2 m n =>
      rw [hd] at h
      simp only [Option.map_eq_some_iff] at h
      obtain ⟨x, hx, rfl⟩ := h
      have harr : e.arrayed = true := by
        simp only [Operand.dims, elemDims] at hd; split at hd <;> simp_all
      simp only [subOf, Elem.sub, Option.map_eq_some_iff] at hx
      obtain ⟨path, hpath, rfl⟩ := hx
      have hbv : ∃ y, b.valAt O ρ idx = some y ∧ eval (car O ρ) σ b.term = .r y := by
        cases b with
        | num n l => exact ⟨_, rfl, eval_numPy O ρ σ n l⟩
        | el e' =>
          have : e'.arrayed = false := by
            simp only [Operand.dims, elemDims] at hb; split at hb <;> simp_all
          exact ⟨rv ρ e'.name [], by simp [Operand.valAt, this], eval_ref O ρ σ _ _⟩
      obtain ⟨y, hy, hey⟩ := hbv
      exact ⟨rv ρ e.name path, y, by simp [Operand.valAt, harr, hpath], hy,
        eval_prodTerm O ρ σ _ _ _ _ (eval_ref O ρ σ _ _) hey⟩

/-! ### aggregates -/

/-- key paths of the sub-elements, row by row -/
def Elem.paths (e : Elem) : List (List Key) :=
  if e.inner.isEmpty then e.keys.map fun k => [k]
  else (e.keys.map fun k => e.inner.map fun l => [k, l]).flatten

theorem rowMajor_eq (e : Elem) : e.rowMajor = e.paths.map (ref e.name) := by
  unfold Elem.rowMajor Elem.rows Elem.paths
  split
  · simp only [List.map_map, Function.comp_def]
    induction e.keys with
    | nil => simp
    | cons k ks ih => simp [ih]
  · simp [List.map_flatten, List.map_map, Function.comp_def]

/-- the values of all sub-elements in row-major order -/
def Elem.vals (e : Elem) : List R := e.paths.map (rv ρ e.name)

/-- **sum**: a left-nested `+` chain over the row-major element list = the sum of all entries -/
theorem sum_spec (e : Elem) (p : Py) (ha : e.arrayed = true) (h : aggTerm .sum e = some p) :
    eval (car O ρ) σ p = .r (e.vals ρ).sum := by
  simp only [aggTerm, ha, if_true, aggArr, Option.map_eq_some_iff] at h
  obtain ⟨c, hc, rfl⟩ := h
  rw [rowMajor_eq] at hc
  cases hp : e.paths with
  | nil => simp [hp, chain] at hc
  | cons x xs =>
    simp only [hp, List.map_cons, chain, Option.some.injEq] at hc
    subst hc
    simp only [eval]
    have key : ∀ (l : List (List Key)) (acc : Py) (va : R), eval (car O ρ) σ acc = .r va →
        eval (car O ρ) σ ((l.map (ref e.name)).foldl (fun a y => .bin .add a y) acc)
          = .r (va + (l.map (rv ρ e.name)).sum) := by
      intro l
      induction l with
      | nil => intro acc va h; simpa using h
      | cons k ks ih =>
        intro acc va h
        simp only [List.map_cons, List.foldl_cons, List.sum_cons]
        rw [ih _ _ (eval_add O ρ σ _ _ _ _ h (eval_ref O ρ σ _ _)), add_assoc]
    rw [key xs _ _ (eval_ref O ρ σ _ _)]
    simp [Elem.vals, hp]

/-- **product**: a left-nested `*` chain over the row-major element list = the product of all entries -/
theorem prod_spec (e : Elem) (p : Py) (ha : e.arrayed = true) (h : aggTerm .prod e = some p) :
    eval (car O ρ) σ p = .r (e.vals ρ).prod := by
  simp only [aggTerm, ha, if_true, aggArr, Option.map_eq_some_iff] at h
  obtain ⟨c, hc, rfl⟩ := h
  rw [rowMajor_eq] at hc
  cases hp : e.paths with
  | nil => simp [hp, chain] at hc
  | cons x xs =>
    simp only [hp, List.map_cons, chain, Option.some.injEq] at hc
    subst hc
    simp only [eval]
    have key : ∀ (l : List (List Key)) (acc : Py) (va : R), eval (car O ρ) σ acc = .r va →
        eval (car O ρ) σ ((l.map (ref e.name)).foldl (fun a y => .bin .mul a y) acc)
          = .r (va * (l.map (rv ρ e.name)).prod) := by
      intro l
      induction l with
      | nil => intro acc va h; simpa using h
      | cons k ks ih =>
        intro acc va h
        simp only [List.map_cons, List.foldl_cons, List.prod_cons]
        rw [ih _ _ (eval_mul O ρ σ _ _ _ _ h (eval_ref O ρ σ _ _)), mul_assoc]
    rw [key xs _ _ (eval_ref O ρ σ _ _)]
    simp [Elem.vals, hp]

/-- the row-major value list of an indexed matrix is the double sum / product of Mathlib -/
theorem mat_vals_sum (A : String) (m n : Nat) (hn : 0 < n) :
    ((Elem.mat A m n).vals ρ).sum = ∑ i : Fin m, ∑ j : Fin n, valM ρ A m n i j := by
  have hi : (rangeKeys n).isEmpty = false := by rw [rangeKeys_isEmpty]; simp; omega
  have hi' : (Elem.mat A m n).inner.isEmpty = false := hi
  simp only [Elem.vals, Elem.paths, hi', Bool.false_eq_true, if_false]
  simp only [Elem.mat, rangeKeys, List.map_map, valM]
  rw [← Finset.sum_range (fun i => ∑ j : Fin n, rv ρ A [.i i, .i j.val])]
  clear hi'
  induction m with
  | zero => simp
  | succ m ih =>
    rw [List.range_succ, List.map_append, List.flatten_append, List.map_append, List.sum_append, ih,
      Finset.sum_range_succ]
    congr 1
    simp only [List.map_cons, List.map_nil, List.flatten_cons, List.flatten_nil, List.append_nil,
      Function.comp_def, List.map_map]
    rw [list_sum_range n (fun j => rv ρ A [Key.i m, Key.i j]), Finset.sum_range]

theorem evalL_refs (nm : String) (l : List (List Key)) :
    evalL (car O ρ) σ (l.map (ref nm)) = l.map (fun p => V.r (rv ρ nm p)) := by
  induction l with
  | nil => simp [evalL]
  | cons x xs ih => simp [evalL, ih, eval_ref]

omit [CommSemiring R] in
theorem allR_map (xs : List R) : allR (xs.map V.r) = some xs := by
  induction xs with
  | nil => simp [allR]
  | cons x xs ih => simp [allR, ih]

/-- the flat list display `[e1, e2, …]` of all sub-elements evaluates to the row-major value list -/
theorem eval_flat_list (e : Elem) : eval (car O ρ) σ (.list e.rowMajor) = .lst (e.vals ρ) := by
  simp only [eval, rowMajor_eq, evalL_refs]
  have : (e.paths.map fun p => V.r (rv ρ e.name p)) = (e.vals ρ).map V.r := by simp [Elem.vals]
  rw [this]
  simp [car, listV, allR_map]

/-- **rank** receives exactly the row-major element list, sorted descending, and selects with the
index expression over `count` = number of all entries -/
theorem rank_args (e : Elem) (neg : Bool) (k : Nat) (ha : e.arrayed = true) :
    aggTerm (.rank neg k) e = some (.index (sortedCall e) (rankIndexPy neg k e.count)) ∧
      eval (car O ρ) σ (sortedCall e) = .lst (O.sortDesc (e.vals ρ)) := by
  refine ⟨by simp [aggTerm, ha, aggArr], ?_⟩
  have h := eval_flat_list O ρ σ e
  simp only [sortedCall, eval, evalL] at h ⊢
  rw [h]
  simp [car, callV]

/-- **mean / median / std** of a vector receive exactly the row-major element list -/
theorem agg_args_vec (e : Elem) (fn : String) (hi : e.inner.isEmpty = true) :
    eval (car O ρ) σ (npCall fn e.display) = .r (O.fn fn (e.vals ρ)) := by
  have h := eval_flat_list O ρ σ e
  simp only [npCall, Elem.display, hi, if_true, eval, evalL] at h ⊢
  rw [h]
  simp [car, callV]

end Sem

/-! ### rank index, size, dimensions -/

mutual
/-- integer / boolean reading of the index expression of `arr_rank` -/
def evZ (nv : String → Int) : Py → Int
  | .num s => nv s
  | .neg e => - evZ nv e
  | .paren e => evZ nv e
  | .bin .sub l r => evZ nv l - evZ nv r
  | .ite x c y => if evB nv c then evZ nv x else evZ nv y
  | _ => 0
def evB (nv : String → Int) : Py → Bool
  | .paren e => evB nv e
  | .bin .or l r => evB nv l || evB nv r
  | .bin .lt l r => decide (evZ nv l < evZ nv r)
  | .bin .gt l r => decide (evZ nv l > evZ nv r)
  | _ => false
end

/-- **rank index**: the emitted index expression computes `count-1` when `k < 0` or `k > count`
(the smallest element), else `k-1` (the k-th largest; `k = 0` gives `-1`, Python's last = smallest) -/
theorem rank_index_spec (nv : String → Int) (neg : Bool) (k count : Nat)
    (h0 : nv "0" = 0) (h1 : nv "1" = 1) (hk : nv (toString k) = k) (hc : nv (toString count) = count) :
    evZ nv (rankIndexPy neg k count) = rankIndex (if neg then -(k : Int) else k) count := by
  cases neg <;>
    simp only [rankIndexPy, numPy, natPy, evZ, evB, h0, h1, hk, hc, rankIndex, Bool.or_eq_true,
      decide_eq_true_eq, Bool.false_eq_true, if_false, if_true]

theorem rankIndex_in (k : Int) (count : Nat) (h1 : 1 ≤ k) (h2 : k ≤ count) :
    rankIndex k count = k - 1 ∧ 0 ≤ k - 1 ∧ k - 1 < count := by
  unfold rankIndex
  have : ¬ (k < 0 ∨ k > count) := by omega
  simp [this]; omega

theorem rankIndex_out (k : Int) (count : Nat) (h : k < 0 ∨ k > count) : rankIndex k count = count - 1 := by
  simp [rankIndex, h]

theorem rankIndex_zero (count : Nat) : rankIndex 0 count = -1 := by
  simp [rankIndex]

/-- **size** is the literal number of outer keys (the documented "vector size") -/
theorem size_spec (e : Elem) (ha : e.arrayed = true) : aggTerm .size e = some (natPy e.keys.length) := by
  simp [aggTerm, ha, aggArr]

/-- numpy's shape rules for the operations of the property, stated independently of the code:
element-wise operators need equal shapes or a scalar; `dot` follows `np.dot` on 0/1/2-dimensional
operands, except that scalar·scalar is refused. -/
inductive Shape
  | sc
  | v (m : Nat)
  | mx (m n : Nat)
deriving DecidableEq, Repr

def npEw : Shape → Shape → Option Shape
  | .sc, s => some s
  | s, .sc => some s
  | s, t => if s = t then some s else none

def npDot : Shape → Shape → Option Shape
  | .sc, .sc => none
  | .sc, s => some s
  | s, .sc => some s
  | .v m, .v m' => if m = m' then some .sc else none
  | .v m, .mx m' n => if m = m' then some (.v n) else none
  | .mx m n, .v n' => if n = n' then some (.v m) else none
  | .mx m n, .mx n' p => if n = n' then some (.mx m p) else none

/-- how an element of a given shape reports its dimensions (`matrix_size`) -/
def Shape.dims : Shape → Dims
  | .sc => .val
  | .v m => .d2 m 0
  | .mx m n => .d2 m n

/-- the shape a resolved dimension stands for -/
def Dims.shape : Dims → Shape
  | .val => .sc
  | .d1 m => .v m
  | .d2 m n => if n = 0 then .v m else .mx m n

def Shape.ok : Shape → Prop
  | .sc => True
  | .v m => m ≠ 0
  | .mx m n => m ≠ 0 ∧ n ≠ 0

/-- **dimension rules** (`resolve_dimensions`): for operands reporting the dimensions of shapes `s`, `t`
(any sizes, including 1×N, N×1, 1×1 and length-1 vectors) the resolved result dimensions are exactly
numpy's result shape, and every mismatch is a rejection. -/
theorem dims_spec (f : Form) (a b : Operand) (s t : Shape) (hs : s.ok) (ht : t.ok)
    (ha : a.dims = s.dims) (hb : b.dims = t.dims) :
    (resolve f a b).map Dims.shape = (match f with | .dot => npDot s t | _ => npEw s t) := by
  cases f with
  | dot =>
    simp only [resolve, resolveDot, ha, hb]
    cases s <;> cases t <;> simp_all [Shape.dims, npDot, Dims.shape, Shape.ok]
    all_goals (try omega)
  | ew o =>
    simp only [resolve, resolveEw, ha, hb]
    cases s <;> cases t <;> simp_all [Shape.dims, npEw, Dims.shape, Shape.ok]
    all_goals (try omega)
  | nmul =>
    simp only [resolve, resolveEw, ha, hb]
    cases s <;> cases t <;> simp_all [Shape.dims, npEw, Dims.shape, Shape.ok]
    all_goals (try omega)

/-- a rejected resolution rejects the equation: `expand` is `none` whenever the constructor check or
the dimension rules refuse the operands -/
theorem expand_none_of_resolve (f : Form) (a b : Operand) (harr : (a.arrayed || b.arrayed) = true)
    (h : resolve f a b = none) : expand f a b = none := by
  unfold expand
  split
  · rfl
  · simp [harr, h]

theorem expand_none_of_ctor (f : Form) (a b : Operand) (h : ctorOK f a b = false) : expand f a b = none := by
  simp [expand, h]

/-! ### the entries of a result are the per-index terms -/

theorem optAll_eq {α} (l : List (Option α)) (xs : List α) (h : optAll l = some xs) : l = xs.map some := by
  induction l generalizing xs with
  | nil => simp [optAll] at h; subst h; rfl
  | cons a l ih =>
    cases a with
    | none => simp [optAll] at h
    | some a =>
      simp only [optAll, Option.map_eq_some_iff] at h
      obtain ⟨ys, hys, rfl⟩ := h
      simp [ih ys hys]

theorem optAll_range {α} (m : Nat) (F : Nat → Option α) (xs : List α)
    (h : optAll ((List.range m).map F) = some xs) (i : Nat) (x : α) (hx : xs[i]? = some x) : F i = some x := by
  have h1 := optAll_eq _ _ h
  have h2 : ((List.range m).map F)[i]? = (xs.map some)[i]? := by rw [h1]
  simp only [List.getElem?_map, hx, Option.map_some] at h2
  cases hr : (List.range m)[i]? with
  | none => simp [hr] at h2
  | some k =>
    have : k = i := by
      have := List.getElem?_eq_some_iff.mp hr
      obtain ⟨hlt, hk⟩ := this
      simpa using hk.symm
    subst this
    simpa [hr] using h2

/-- entry (i, j) of a matrix result is the term of the clone carrying index `[i, j]` -/
theorem matEntries_entry (f : Form) (a b : Operand) (m n : Nat) (rows : List (List Py))
    (h : matEntries f a b m n = some rows) (i j : Nat) (row : List Py) (p : Py)
    (hr : rows[i]? = some row) (hp : row[j]? = some p) : termAt f a b [.i i, .i j] = some p := by
  have h1 := optAll_range m _ rows h i row hr
  exact optAll_range n _ row h1 j p hp

/-- entry i of an indexed vector result is the term of the clone carrying index `[i]` -/
theorem vecEntries_entry (f : Form) (a b : Operand) (m : Nat) (es : List (Key × Py))
    (h : vecEntries f a b false m = some es) (i : Nat) (kp : Key × Py) (hk : es[i]? = some kp) :
    kp.1 = .i i ∧ termAt f a b [.i i] = some kp.2 := by
  have h1 := optAll_range m _ es h i kp hk
  simp only [Bool.false_eq_true, if_false, Option.map_eq_some_iff] at h1
  obtain ⟨p, hp, rfl⟩ := h1
  exact ⟨rfl, hp⟩

/-! # Wave 2 — matrix aggregates, nested operands, Stock targets, explicit dimensions, conservativity -/

/-! ## 3. `agg_args` for matrices -/

section SemAgg
open BigOperators
variable {R : Type} [CommSemiring R]
variable (O : Ops R) (ρ : String → R) (σ : Nat → V R)

omit [CommSemiring R] in
theorem allL_map (xss : List (List R)) : allL (xss.map V.lst) = some xss := by
  induction xss with
  | nil => simp [allL]
  | cons x xs ih => simp [allL, ih]

omit [CommSemiring R] in
theorem listV_lsts (xss : List (List R)) (h : xss ≠ []) : listV (xss.map V.lst) = .lst2 xss := by
  cases xss with
  | nil => exact absurd rfl h
  | cons x xs =>
    have := allL_map (x :: xs)
    simp only [List.map_cons] at this
    simp [listV, allR, this]

theorem eval_ref_list (nm : String) (l : List (List Key)) :
    eval (car O ρ) σ (.list (l.map (ref nm))) = .lst (l.map (rv ρ nm)) := by
  simp only [eval, evalL_refs]
  have : (l.map fun p => V.r (rv ρ nm p)) = (l.map (rv ρ nm)).map V.r := by simp
  rw [this]
  show listV ((l.map (rv ρ nm)).map V.r) = _
  simp only [listV, allR_map]

theorem evalL_rows (nm : String) (ll : List (List (List Key))) :
    evalL (car O ρ) σ (ll.map fun l => Py.list (l.map (ref nm))) = (ll.map fun l => l.map (rv ρ nm)).map V.lst := by
  induction ll with
  | nil => simp [evalL]
  | cons l ls ih => simp only [List.map_cons, evalL, ih, eval_ref_list]

/-- key paths row by row -/
def Elem.pathRows (e : Elem) : List (List (List Key)) := e.keys.map fun k => e.inner.map fun l => [k, l]

theorem rows_eq_mat (e : Elem) (hi : e.inner.isEmpty = false) :
    e.rows = e.pathRows.map fun l => l.map (ref e.name) := by
  simp [Elem.rows, hi, Elem.pathRows, List.map_map, Function.comp_def]

omit [CommSemiring R] in
theorem vals_eq_mat (e : Elem) (hi : e.inner.isEmpty = false) :
    e.vals ρ = (e.pathRows.map fun l => l.map (rv ρ e.name)).flatten := by
  simp [Elem.vals, Elem.paths, hi, Elem.pathRows, List.map_flatten, List.map_map, Function.comp_def]

/-- **mean / median / std of a matrix**: the nested list display `[[a00, a01, …], [a10, …], …]` evaluates to
the list of rows, and the numpy function receives (the flattening of it =) exactly the row-major entry list -/
theorem agg_args_mat (e : Elem) (fn : String) (hi : e.inner.isEmpty = false) :
    eval (car O ρ) σ e.display = (if e.keys = [] then .lst [] else .lst2 (e.pathRows.map fun l => l.map (rv ρ e.name))) ∧
    eval (car O ρ) σ (npCall fn e.display) = .r (O.fn fn (e.vals ρ)) := by
  have hd : eval (car O ρ) σ e.display
      = (if e.keys = [] then .lst [] else .lst2 (e.pathRows.map fun l => l.map (rv ρ e.name))) := by
    simp only [Elem.display, hi, Bool.false_eq_true, if_false, eval, rows_eq_mat e hi, List.map_map, Function.comp_def]
    rw [evalL_rows]
    by_cases hk : e.keys = []
    · simp [hk, Elem.pathRows, car, listV, allR]
    · simp only [hk, if_false]
      have : (e.pathRows.map fun l => l.map (rv ρ e.name)) ≠ [] := by
        simp [Elem.pathRows, hk]
      exact listV_lsts _ this
  refine ⟨hd, ?_⟩
  simp only [npCall, eval, evalL] at hd ⊢
  rw [hd, vals_eq_mat ρ e hi]
  by_cases hk : e.keys = []
  · simp [hk, car, callV, Elem.pathRows]
  · simp [hk, car, callV]

/-- **mean / median / std** (vector or matrix, indexed or named): numpy receives exactly the row-major entry list -/
theorem agg_args (e : Elem) (fn : String) :
    eval (car O ρ) σ (npCall fn e.display) = .r (O.fn fn (e.vals ρ)) := by
  cases hi : e.inner.isEmpty with
  | true => exact agg_args_vec O ρ σ e fn hi
  | false => exact (agg_args_mat O ρ σ e fn hi).2
end SemAgg

/-! ## 4. Nested operator operands (`clone_with_index` at every level, `arrayed_term`) -/

/-- the time argument is printable as a call argument (`t`, `t-model.dt`) -/
def TmOK (tm : Py) : Prop := WLbArg 0 tm = true

theorem tNow_ok : TmOK tNow := by simp [TmOK, tNow, WLbArg]
theorem tPrev_ok : TmOK tPrev := by simp [TmOK, tPrev, WLbArg, WLb, ldem, rbp, bp]

theorem refT_g6 (tm : Py) (h : TmOK tm) (nm : String) (p : List Key) : G6 (refT tm nm p) := by
  unfold TmOK at h
  simp [G6, refT, WLb, WLbArgs, WLbArg, h]

/-! ### aggregates as operands: generic sub-element reference `mk` -/

theorem rowsM_flat (mk : List Key → Py) (e : Elem) : (e.rowsM mk).flatten = e.paths.map mk := by
  unfold Elem.rowsM Elem.paths
  split
  · simp only [List.map_map, Function.comp_def]
    induction e.keys with
    | nil => simp
    | cons k ks ih => simp [ih]
  · simp [List.map_flatten, List.map_map, Function.comp_def]

theorem rowsM_rows (mk : List Key → Py) (e : Elem) (hi : e.inner.isEmpty = false) :
    e.rowsM mk = e.pathRows.map fun l => l.map mk := by
  simp [Elem.rowsM, hi, Elem.pathRows, List.map_map, Function.comp_def]

theorem aggArrM_g6 (mk : List Key → Py) (hmk : ∀ p, WLb 0 (mk p) = true ∧ lvlH 0 (mk p) = 100)
    (g : Agg) (e : Elem) (p : Py) (h : aggArrM mk g e = some p) : G6 p := by
  have hflat : ∀ y ∈ (e.rowsM mk).flatten, WLb 0 y = true ∧ lvlH 0 y = 100 := by
    intro y hy
    rw [rowsM_flat] at hy
    simp only [List.mem_map] at hy
    obtain ⟨pth, _, rfl⟩ := hy
    exact hmk pth
  have hdisp : WLb 0 (e.displayM mk) = true ∧ WLbArg 0 (e.displayM mk) = true := by
    unfold Elem.displayM
    split
    · have := WLbL_of_all _ (fun q hq => (hflat q hq).1)
      simp [WLb, WLbArg, this]
    · next hi =>
      have hi' : e.inner.isEmpty = false := by simpa using hi
      have : WLbL 0 ((e.rowsM mk).map Py.list) = true := by
        apply WLbL_of_all
        intro q hq
        simp only [List.mem_map] at hq
        obtain ⟨row, hrow, rfl⟩ := hq
        simp only [WLb]
        apply WLbL_of_all
        intro y hy
        exact (hflat y (List.mem_flatten.mpr ⟨row, hrow, hy⟩)).1
      simp [WLb, WLbArg, this]
  cases g with
  | sum =>
    simp only [aggArrM, Option.map_eq_some_iff] at h
    obtain ⟨c, hc, rfl⟩ := h
    refine ⟨?_, by simp⟩
    simp only [WLb]
    exact chain_wl .add (Or.inl rfl) _ c (fun y hy => by
      have := hflat y hy; exact ⟨this.1, by rw [this.2]; simp [rbp, bp]⟩) hc
  | prod =>
    simp only [aggArrM, Option.map_eq_some_iff] at h
    obtain ⟨c, hc, rfl⟩ := h
    refine ⟨?_, by simp⟩
    simp only [WLb]
    exact chain_wl .mul (Or.inr rfl) _ c (fun y hy => by
      have := hflat y hy; exact ⟨this.1, by rw [this.2]; simp [rbp, bp]⟩) hc
  | mean => simp only [aggArrM, Option.some.injEq] at h; subst h; simp [G6, npCall, WLb, WLbArgs, hdisp.2]
  | median => simp only [aggArrM, Option.some.injEq] at h; subst h; simp [G6, npCall, WLb, WLbArgs, hdisp.2]
  | std => simp only [aggArrM, Option.some.injEq] at h; subst h; simp [G6, npCall, WLb, WLbArgs, hdisp.2]
  | size => simp only [aggArrM, Option.some.injEq] at h; subst h; simp [G6, natPy, WLb]
  | rank neg k =>
    simp only [aggArrM, Option.some.injEq] at h; subst h
    have := WLbL_of_all _ (fun q hq => (hflat q hq).1)
    simp [G6, WLb, WLbArgs, WLbArg, rankIndexPy_wl, this]

theorem aggTermT_g6 (tm : Py) (htm : TmOK tm) (g : Agg) (e : Elem) (p : Py) (h : aggTermT tm g e = some p) : G6 p := by
  unfold aggTermT at h
  split at h
  · exact aggArrM_g6 _ (fun pth => by have := refT_g6 tm htm e.name pth; exact ⟨this.1, by simp [refT]⟩) g e p h
  · simp only [Option.some.injEq] at h; subst h
    have := refT_g6 tm htm e.name []
    cases g <;> simp [aggScalarM, G6, WLb, this.1]

/-- at time `t` the generic aggregate text is the wave-1 `aggTerm` -/
theorem aggTermT_now (g : Agg) (e : Elem) : aggTermT tNow g e = aggTerm g e := by
  unfold aggTermT aggTerm
  split
  · cases g <;> rfl
  · cases g <;> rfl

theorem subT_g6 (tm : Py) (h : TmOK tm) (e : Elem) (idx : List Key) (p : Py) (hp : e.subT tm idx = some p) : G6 p := by
  simp only [Elem.subT, Option.map_eq_some_iff] at hp
  obtain ⟨q, _, rfl⟩ := hp
  exact refT_g6 tm h _ _

theorem subEl_g6 (tm : Py) (h : TmOK tm) (x : Ex) (idx : List Key) (p : Py) (hp : x.subEl tm idx = some p) : G6 p := by
  cases x with
  | el e => exact subT_g6 tm h e idx p hp
  | num n l => simp [Ex.subEl] at hp
  | op f a b => simp [Ex.subEl] at hp
  | agg g e => simp [Ex.subEl] at hp

theorem opt2_g6 (f : Py → Py → Py) (hf : ∀ x y, G6 x → G6 y → G6 (f x y)) (ox oy : Option Py)
    (hx : ∀ x, ox = some x → G6 x) (hy : ∀ y, oy = some y → G6 y) (p : Py) (h : opt2 f ox oy = some p) : G6 p := by
  cases ox with
  | none => simp [opt2] at h
  | some x =>
    cases oy with
    | none => simp [opt2] at h
    | some y =>
      simp only [opt2, Option.some.injEq] at h
      subst h
      exact hf x y (hx x rfl) (hy y rfl)

theorem dotPairsE_ok (fa fb : Nat → Option Py) (l : List Nat)
    (ha : ∀ k x, fa k = some x → G6 x) (hb : ∀ k y, fb k = some y → G6 y) :
    ∀ q ∈ l.map (fun k => (fa k, fb k)), (∀ x, q.1 = some x → G6 x) ∧ (∀ y, q.2 = some y → G6 y) := by
  intro q hq
  simp only [List.mem_map] at hq
  obtain ⟨k, _, rfl⟩ := hq
  exact ⟨fun x hx => ha k x hx, fun y hy => hb k y hy⟩

/-- every term of a (nested) operand tree is well-levelled and usable as an operand of `+ - * /` -/
theorem Ex.term_g6 (tm : Py) (h : TmOK tm) (x : Ex) : ∀ (I : Option (List Key)) (p : Py), x.term tm I = some p → G6 p := by
  induction x with
  | num n l => intro I p hp; simp only [Ex.term, Option.some.injEq] at hp; subst hp; exact numPy_g6 n l
  | el e => intro I p hp; simp only [Ex.term, Option.some.injEq] at hp; subst hp; exact refT_g6 tm h _ _
  | agg g e => intro I p hp; simp only [Ex.term] at hp; exact aggTermT_g6 tm h g e p hp
  | op f a b iha ihb =>
    intro I p hp
    have hopA : ∀ (c : Bool) idx q, (if c = true then a.subEl tm idx else a.term tm I) = some q → G6 q := by
      intro c idx q hq
      split at hq
      · exact subEl_g6 tm h a idx q hq
      · exact iha I q hq
    have hopB : ∀ (c : Bool) idx q, (if c = true then b.subEl tm idx else b.term tm I) = some q → G6 q := by
      intro c idx q hq
      split at hq
      · exact subEl_g6 tm h b idx q hq
      · exact ihb I q hq
    cases f with
    | ew o =>
      simp only [Ex.term] at hp
      split at hp
      · split at hp
        · simp only [Option.some.injEq] at hp; subst hp; exact num00_g6
        · exact opt2_g6 _ (ewTmpl_g6 o) _ _ (hopA _ _) (hopB _ _) p hp
      · exact opt2_g6 _ (ewTmpl_g6 o) _ _ (iha I) (ihb I) p hp
    | nmul =>
      simp only [Ex.term] at hp
      split at hp
      · split at hp
        · simp only [Option.some.injEq] at hp; subst hp; exact num00_g6
        · exact opt2_g6 _ prodTerm_g6 _ _ (hopB _ _) (hopA _ _) p hp
      · exact opt2_g6 _ prodTerm_g6 _ _ (ihb I) (iha I) p hp
    | dot =>
      have hsA : ∀ ix q, (match a with | .el e => e.subT tm ix | _ => a.term tm (some ix)) = some q → G6 q := by
        intro ix q hq
        split at hq
        · exact subT_g6 tm h _ ix q hq
        · exact iha _ q hq
      have hsB : ∀ ix q, (match b with | .el e => e.subT tm ix | _ => b.term tm (some ix)) = some q → G6 q := by
        intro ix q hq
        split at hq
        · exact subT_g6 tm h _ ix q hq
        · exact ihb _ q hq
      have hch : ∀ (fa fb : Nat → Option Py) (l : List Nat) q,
          (∀ k x, fa k = some x → G6 x) → (∀ k y, fb k = some y → G6 y) →
          dotChain (l.map fun k => (fa k, fb k)) = some q → G6 q :=
        fun fa fb l q ha hb hq => dotChain_wl _ q (dotPairsE_ok fa fb l ha hb) hq
      simp only [Ex.term] at hp
      split at hp
      · split at hp
        · -- no index
          split at hp
          · simp at hp
          · split at hp
            · split at hp
              · simp at hp
              · split at hp
                · split at hp
                  · exact hch _ _ _ p (fun k x => subEl_g6 tm h a _ x) (fun k y => subEl_g6 tm h b _ y) hp
                  · simp at hp
                · simp only [Option.some.injEq] at hp; subst hp; exact num00_g6
            · simp only [Option.some.injEq] at hp; subst hp; exact num00_g6
        · -- index
          split at hp
          · split at hp
            · simp at hp
            · exact opt2_g6 _ prodTerm_g6 _ _ (iha _) (fun y => subEl_g6 tm h b _ y) p hp
          · split at hp
            · exact opt2_g6 _ prodTerm_g6 _ _ (fun y => subEl_g6 tm h a _ y) (ihb _) p hp
            · split at hp
              · split at hp
                · split at hp
                  · exact hch _ _ _ p (fun k x => subEl_g6 tm h a _ x) (fun k y => subEl_g6 tm h b _ y) hp
                  · simp at hp
                · split at hp
                  · split at hp
                    · split at hp
                      · split at hp
                        · simp at hp
                        · exact hch _ _ _ p (fun k x => hsA _ x) (fun k y => hsB _ y) hp
                      · simp at hp
                    · simp at hp
                  · simp at hp
              · split at hp
                · split at hp
                  · split at hp
                    · split at hp
                      · split at hp
                        · simp at hp
                        · exact hch _ _ _ p (fun k x => hsA _ x) (fun k y => hsB _ y) hp
                      · simp at hp
                    · simp at hp
                  · simp at hp
                · split at hp
                  · split at hp
                    · split at hp
                      · simp at hp
                      · exact hch _ _ _ p (fun k x => hsA _ x) (fun k y => hsB _ y) hp
                    · simp at hp
                  · simp at hp
      · simp at hp

/-! ### semantics of nested operands -/
def Agg.isRank : Agg → Bool
  | .rank _ _ => true
  | _ => false

/-- no `arr_rank` among the operands: its subscript expression is outside the arithmetic carrier (`rank_args` and
`rank_index_spec` are its theorems); every other aggregate has a value in the carrier -/
def Ex.rankFree : Ex → Bool
  | .agg g _ => !g.isRank
  | .op _ a b => a.rankFree && b.rankFree
  | _ => true

section Sem2
open BigOperators
variable {R : Type} [CommSemiring R]
variable (O : Ops R) (ρ : String → R) (σ : Nat → V R)

theorem eval_refT (tm : Py) (nm : String) (path : List Key) :
    eval (car O ρ) σ (refT tm nm path) = .r (rv ρ nm path) := by
  simp [refT, eval, evalL, car, callV, rv]

/-- the entry of an element at an index: arrays are indexed (stored key path), scalars broadcast -/
def Elem.valAt (e : Elem) (idx : List Key) : R :=
  if e.arrayed then (match e.path idx with | some p => rv ρ e.name p | none => 0) else rv ρ e.name []

/-- numpy's `dot` on values given pointwise, by the operands' dimensions: a scalar operand multiplies every
entry; vector·vector, vector·matrix, matrix·vector and matrix·matrix are the sums over the shared axis -/
def dotVal (d1 d2 : Dims) (A B : List Key → R) (idx : List Key) : R :=
  if d1 = .val ∨ d2 = .val then A idx * B idx
  else if d1.isVec then
    if d2.isVec then ∑ k ∈ Finset.range d1.rows, A [.i k] * B [.i k]
    else ∑ k ∈ Finset.range d1.rows, A [.i k] * B [.i k, idx.headD (.i 0)]
  else if d2.isVec then ∑ k ∈ Finset.range d1.snd, A [idx.headD (.i 0), .i k] * B [.i k]
  else ∑ k ∈ Finset.range d1.snd, A [idx.headD (.i 0), .i k] * B [.i k, idx.getD 1 (.i 0)]

/-- the value of an aggregate operand: list sum / product of the row-major entries, numpy's function of exactly that
list, the number of outer keys; of a non-arrayed element as coded (`(x)` for sum/product, `0.0` otherwise) -/
def aggVal (g : Agg) (e : Elem) : R :=
  if e.arrayed then
    match g with
    | .sum => (e.vals ρ).sum
    | .prod => (e.vals ρ).prod
    | .mean => O.fn "mean" (e.vals ρ)
    | .median => O.fn "median" (e.vals ρ)
    | .std => O.fn "std" (e.vals ρ)
    | .size => O.numv (toString e.keys.length)
    | .rank _ _ => 0
  else
    match g with
    | .sum => rv ρ e.name []
    | .prod => rv ρ e.name []
    | _ => O.numv "0.0"

theorem chainM_add_eval (mk : List Key → Py) (gv : List Key → R) (hev : ∀ p, eval (car O ρ) σ (mk p) = .r (gv p))
    (l : List (List Key)) (c : Py) (h : chain .add (l.map mk) = some c) :
    eval (car O ρ) σ c = .r (l.map gv).sum := by
  cases l with
  | nil => simp [chain] at h
  | cons x xs =>
    simp only [List.map_cons, chain, Option.some.injEq] at h
    subst h
    have key : ∀ (l : List (List Key)) (acc : Py) (va : R), eval (car O ρ) σ acc = .r va →
        eval (car O ρ) σ ((l.map mk).foldl (fun a y => .bin .add a y) acc) = .r (va + (l.map gv).sum) := by
      intro l
      induction l with
      | nil => intro acc va h; simpa using h
      | cons k ks ih =>
        intro acc va h
        simp only [List.map_cons, List.foldl_cons, List.sum_cons]
        rw [ih _ _ (eval_add O ρ σ _ _ _ _ h (hev k)), add_assoc]
    rw [key xs _ _ (hev x)]
    simp

theorem chainM_mul_eval (mk : List Key → Py) (gv : List Key → R) (hev : ∀ p, eval (car O ρ) σ (mk p) = .r (gv p))
    (l : List (List Key)) (c : Py) (h : chain .mul (l.map mk) = some c) :
    eval (car O ρ) σ c = .r (l.map gv).prod := by
  cases l with
  | nil => simp [chain] at h
  | cons x xs =>
    simp only [List.map_cons, chain, Option.some.injEq] at h
    subst h
    have key : ∀ (l : List (List Key)) (acc : Py) (va : R), eval (car O ρ) σ acc = .r va →
        eval (car O ρ) σ ((l.map mk).foldl (fun a y => .bin .mul a y) acc) = .r (va * (l.map gv).prod) := by
      intro l
      induction l with
      | nil => intro acc va h; simpa using h
      | cons k ks ih =>
        intro acc va h
        simp only [List.map_cons, List.foldl_cons, List.prod_cons]
        rw [ih _ _ (eval_mul O ρ σ _ _ _ _ h (hev k)), mul_assoc]
    rw [key xs _ _ (hev x)]
    simp

theorem evalL_mk (mk : List Key → Py) (gv : List Key → R) (hev : ∀ p, eval (car O ρ) σ (mk p) = .r (gv p))
    (l : List (List Key)) : evalL (car O ρ) σ (l.map mk) = (l.map gv).map V.r := by
  induction l with
  | nil => simp [evalL]
  | cons x xs ih => simp [evalL, ih, hev]

theorem listM_eval (mk : List Key → Py) (gv : List Key → R) (hev : ∀ p, eval (car O ρ) σ (mk p) = .r (gv p))
    (l : List (List Key)) : eval (car O ρ) σ (.list (l.map mk)) = .lst (l.map gv) := by
  simp only [eval, evalL_mk O ρ σ mk gv hev]
  show listV ((l.map gv).map V.r) = _
  simp only [listV, allR_map]

theorem rowsM_evalL (mk : List Key → Py) (gv : List Key → R) (hev : ∀ p, eval (car O ρ) σ (mk p) = .r (gv p))
    (ll : List (List (List Key))) :
    evalL (car O ρ) σ (ll.map fun l => Py.list (l.map mk)) = (ll.map fun l => l.map gv).map V.lst := by
  induction ll with
  | nil => simp [evalL]
  | cons l ls ih => simp only [List.map_cons, evalL, ih, listM_eval O ρ σ mk gv hev]

theorem displayM_np (mk : List Key → Py) (e : Elem) (hev : ∀ p, eval (car O ρ) σ (mk p) = .r (rv ρ e.name p))
    (fn : String) : eval (car O ρ) σ (npCall fn (e.displayM mk)) = .r (O.fn fn (e.vals ρ)) := by
  cases hi : e.inner.isEmpty with
  | true =>
    have h := listM_eval O ρ σ mk (rv ρ e.name) hev e.paths
    simp only [npCall, Elem.displayM, hi, if_true, rowsM_flat, eval, evalL] at h ⊢
    rw [h]
    simp [car, callV, Elem.vals]
  | false =>
    have hd : eval (car O ρ) σ (e.displayM mk)
        = (if e.keys = [] then .lst [] else .lst2 (e.pathRows.map fun l => l.map (rv ρ e.name))) := by
      simp only [Elem.displayM, hi, Bool.false_eq_true, if_false, eval, rowsM_rows mk e hi, List.map_map, Function.comp_def]
      rw [rowsM_evalL O ρ σ mk (rv ρ e.name) hev]
      by_cases hk : e.keys = []
      · simp [hk, Elem.pathRows, car, listV, allR]
      · simp only [hk, if_false]
        have : (e.pathRows.map fun l => l.map (rv ρ e.name)) ≠ [] := by simp [Elem.pathRows, hk]
        exact listV_lsts _ this
    simp only [npCall, eval, evalL] at hd ⊢
    rw [hd, vals_eq_mat ρ e hi]
    by_cases hk : e.keys = []
    · simp [hk, car, callV, Elem.pathRows]
    · simp [hk, car, callV]

/-- **aggregates as operands**: the aggregate's text (any time argument) evaluates to `aggVal` -/
theorem aggTermT_eval (tm : Py) (g : Agg) (e : Elem) (hg : g.isRank = false) (p : Py) (h : aggTermT tm g e = some p) :
    eval (car O ρ) σ p = .r (aggVal O ρ g e) := by
  have hev : ∀ pth, eval (car O ρ) σ (refT tm e.name pth) = .r (rv ρ e.name pth) := fun pth => eval_refT O ρ σ tm _ pth
  unfold aggTermT at h
  cases ha : e.arrayed with
  | true =>
    simp only [ha, if_true] at h
    cases g with
    | sum =>
      simp only [aggArrM, rowsM_flat, Option.map_eq_some_iff] at h
      obtain ⟨c, hc, rfl⟩ := h
      simp only [eval, chainM_add_eval O ρ σ _ _ hev _ c hc]
      simp [aggVal, ha, Elem.vals]
    | prod =>
      simp only [aggArrM, rowsM_flat, Option.map_eq_some_iff] at h
      obtain ⟨c, hc, rfl⟩ := h
      simp only [eval, chainM_mul_eval O ρ σ _ _ hev _ c hc]
      simp [aggVal, ha, Elem.vals]
    | mean => simp only [aggArrM, Option.some.injEq] at h; subst h; rw [displayM_np O ρ σ _ e hev]; simp [aggVal, ha]
    | median => simp only [aggArrM, Option.some.injEq] at h; subst h; rw [displayM_np O ρ σ _ e hev]; simp [aggVal, ha]
    | std => simp only [aggArrM, Option.some.injEq] at h; subst h; rw [displayM_np O ρ σ _ e hev]; simp [aggVal, ha]
    | size => simp only [aggArrM, Option.some.injEq] at h; subst h; simp [natPy, eval, car, aggVal, ha]
    | rank neg k => simp [Agg.isRank] at hg
  | false =>
    simp only [ha, Bool.false_eq_true, if_false, Option.some.injEq] at h; subst h
    cases g with
    | sum => simp only [aggScalarM, eval, hev]; simp [aggVal, ha]
    | prod => simp only [aggScalarM, eval, hev]; simp [aggVal, ha]
    | mean => simp [aggScalarM, eval, car, aggVal, ha]
    | median => simp [aggScalarM, eval, car, aggVal, ha]
    | std => simp [aggScalarM, eval, car, aggVal, ha]
    | size => simp [aggScalarM, eval, car, aggVal, ha]
    | rank neg k => simp [Agg.isRank] at hg

/-- **the numpy meaning of an operand tree**, entry by entry: element-wise operators act entry-wise with
scalars broadcast, `dot` sums over the shared axis — by structural recursion over the tree -/
def Ex.valD : Ex → List Key → R
  | .agg g e, _ => aggVal O ρ g e
  | .num n l, _ => numVal O n l
  | .el e, idx => e.valAt ρ idx
  | .op (.ew o) a b, idx => ewVal O o (a.valD idx) (b.valD idx)
  | .op .nmul a b, idx => b.valD idx * a.valD idx
  | .op .dot a b, idx =>
    dotVal (a.dims.getD .val) (b.dims.getD .val) (fun ix => a.valD ix) (fun ix => b.valD ix) idx

theorem path_nonarr (e : Elem) (h : e.arrayed = false) (ix pth : List Key) (hp : e.path ix = some pth) : pth = [] := by
  unfold Elem.path at hp
  split at hp
  · simpa using hp.symm
  · simp [h] at hp
  · simp [h] at hp
  · simp at hp

theorem subT_eval (tm : Py) (e : Elem) (ix : List Key) (q : Py) (h : e.subT tm ix = some q) :
    eval (car O ρ) σ q = .r (e.valAt ρ ix) := by
  simp only [Elem.subT, Option.map_eq_some_iff] at h
  obtain ⟨pth, hp, rfl⟩ := h
  rw [eval_refT]
  cases ha : e.arrayed with
  | true => simp [Elem.valAt, ha, hp]
  | false => simp [Elem.valAt, ha, path_nonarr e ha ix pth hp]

theorem subEl_eval (tm : Py) (x : Ex) (ix : List Key) (q : Py) (h : x.subEl tm ix = some q) :
    eval (car O ρ) σ q = .r (x.valD O ρ ix) := by
  cases x with
  | el e => simpa [Ex.valD] using subT_eval O ρ σ tm e ix q h
  | num n l => simp [Ex.subEl] at h
  | op f a b => simp [Ex.subEl] at h
  | agg g e => simp [Ex.subEl] at h

theorem opt2_eval (f : Py → Py → Py) (g : R → R → R)
    (hf : ∀ x y vx vy, eval (car O ρ) σ x = .r vx → eval (car O ρ) σ y = .r vy → eval (car O ρ) σ (f x y) = .r (g vx vy))
    (ox oy : Option Py) (vx vy : R)
    (hx : ∀ x, ox = some x → eval (car O ρ) σ x = .r vx) (hy : ∀ y, oy = some y → eval (car O ρ) σ y = .r vy)
    (p : Py) (h : opt2 f ox oy = some p) : eval (car O ρ) σ p = .r (g vx vy) := by
  cases ox with
  | none => simp [opt2] at h
  | some x =>
    cases oy with
    | none => simp [opt2] at h
    | some y =>
      simp only [opt2, Option.some.injEq] at h
      subst h
      exact hf x y vx vy (hx x rfl) (hy y rfl)

theorem optAll_map_some' {α β} (l : List α) (f : α → Option β) (ps : List β) (h : optAll (l.map f) = some ps) :
    ∀ k ∈ l, ∃ v, f k = some v := by
  induction l generalizing ps with
  | nil => intro k hk; simp at hk
  | cons a l ih =>
    cases hf : f a with
    | none => simp [optAll, hf] at h
    | some v =>
      simp only [List.map_cons, hf, optAll, Option.map_eq_some_iff] at h
      obtain ⟨ys, hys, _⟩ := h
      intro k hk
      simp only [List.mem_cons] at hk
      rcases hk with rfl | hk
      · exact ⟨v, hf⟩
      · exact ih ys hys k hk

/-- a produced dot chain evaluates to the sum of the products of what its parts evaluate to -/
theorem dotChain_spec (n : Nat) (fa fb : Nat → Option Py) (ga gb : Nat → R) (e : Py)
    (ha : ∀ k < n, ∀ x, fa k = some x → eval (car O ρ) σ x = .r (ga k))
    (hb : ∀ k < n, ∀ y, fb k = some y → eval (car O ρ) σ y = .r (gb k))
    (h : dotChain ((List.range n).map fun k => (fa k, fb k)) = some e) :
    eval (car O ρ) σ e = .r (∑ k ∈ Finset.range n, ga k * gb k) := by
  have hn : 0 < n := by
    rcases Nat.eq_zero_or_pos n with rfl | hpos
    · simp [dotChain, optAll, chain] at h
    · exact hpos
  have hall : ∀ k < n, ∃ x y, fa k = some x ∧ fb k = some y := by
    intro k hk
    unfold dotChain at h
    split at h
    next ps hps =>
      rw [List.map_map] at hps
      obtain ⟨v, hv⟩ := optAll_map_some' _ _ ps hps k (List.mem_range.mpr hk)
      simp only [Function.comp] at hv
      cases hx : fa k with
      | none => simp [hx, pairProd] at hv
      | some x =>
        cases hy : fb k with
        | none => simp [hx, hy, pairProd] at hv
        | some y => exact ⟨x, y, rfl, rfl⟩
    next => simp at h
  obtain ⟨e', he', hev⟩ := dotChain_eval O ρ σ n hn fa fb
    (fun k => (fa k).getD (.num "0")) (fun k => (fb k).getD (.num "0")) ga gb
    (fun k hk => by obtain ⟨x, y, hx, _⟩ := hall k hk; simp [hx])
    (fun k hk => by obtain ⟨x, y, _, hy⟩ := hall k hk; simp [hy])
    (fun k hk => by obtain ⟨x, y, hx, _⟩ := hall k hk; simpa [hx] using ha k hk x hx)
    (fun k hk => by obtain ⟨x, y, _, hy⟩ := hall k hk; simpa [hy] using hb k hk y hy)
  rw [he'] at h
  simp only [Option.some.injEq] at h
  subst h
  exact hev

omit [CommSemiring R] in
theorem resolveEwD_val (d1 d2 : Dims) (h : resolveEwD d1 d2 = some .val) : d1 = .val ∧ d2 = .val := by
  unfold resolveEwD at h
  by_cases h1 : d1 = .val <;> by_cases h2 : d2 = .val <;> simp_all

theorem arrEl_dims (a : Ex) (h : a.arrEl = true) : ∃ m n, a.dims = some (.d2 m n) := by
  cases a with
  | el e => simp only [Ex.arrEl] at h; exact ⟨e.keys.length, e.inner.length, by simp [Ex.dims, elemDims, h]⟩
  | num n l => simp [Ex.arrEl] at h
  | op f a b => simp [Ex.arrEl] at h
  | agg g e => simp [Ex.arrEl] at h


theorem notArr_of_val (a : Ex) (h : a.dims = some .val) : a.arrEl = false := by
  cases hc : a.arrEl with
  | false => rfl
  | true => obtain ⟨m, n, hd⟩ := arrEl_dims a hc; rw [hd] at h; simp at h

theorem eval_prodTerm' (x y : Py) (vx vy : R) (hx : eval (car O ρ) σ x = .r vx)
    (hy : eval (car O ρ) σ y = .r vy) : eval (car O ρ) σ (prodTerm x y) = .r (vx * vy) :=
  eval_prodTerm O ρ σ x y vx vy hx hy

/-- **nested operands** (`clone_with_index` at every level, `arrayed_term` of the dot product): the term
of the clone of ANY operand tree carrying index `idx` evaluates to the numpy entry `valD x idx`; without an
index (scalar-valued trees) to `valD x []`.  Structural induction over the operand tree. -/
theorem nested_spec (tm : Py) (x : Ex) (hrf : x.rankFree = true) :
    (∀ idx p, x.arrEl = false → x.term tm (some idx) = some p →
      eval (car O ρ) σ p = .r (x.valD O ρ idx)) ∧
    (∀ p, x.arrEl = false → x.dims = some .val → x.term tm none = some p →
      eval (car O ρ) σ p = .r (x.valD O ρ [])) := by
  induction x with
  | agg g e =>
    have hg : g.isRank = false := by simpa [Ex.rankFree] using hrf
    refine ⟨fun idx p _ hp => ?_, fun p _ _ hp => ?_⟩ <;>
    · simp only [Ex.term] at hp
      simpa [Ex.valD] using aggTermT_eval O ρ σ tm g e hg p hp
  | num n l =>
    refine ⟨fun idx p _ hp => ?_, fun p _ _ hp => ?_⟩ <;>
    · simp only [Ex.term, Option.some.injEq] at hp; subst hp
      simpa [Ex.valD] using eval_numPy O ρ σ n l
  | el e =>
    refine ⟨fun idx p ha hp => ?_, fun p ha _ hp => ?_⟩ <;>
    · simp only [Ex.arrEl] at ha
      simp only [Ex.term, Option.some.injEq] at hp; subst hp
      rw [eval_refT]; simp [Ex.valD, Elem.valAt, ha]
  | op f a b iha ihb =>
    have hrf' : a.rankFree = true ∧ b.rankFree = true := by simpa [Ex.rankFree] using hrf
    have iha := iha hrf'.1
    have ihb := ihb hrf'.2
    have hopA : ∀ idx q, (if a.arrEl = true then a.subEl tm idx else a.term tm (some idx)) = some q →
        eval (car O ρ) σ q = .r (a.valD O ρ idx) := by
      intro idx q hq
      by_cases hc : a.arrEl = true
      · rw [if_pos hc] at hq; exact subEl_eval O ρ σ tm a idx q hq
      · rw [if_neg hc] at hq; exact iha.1 idx q (by simpa using hc) hq
    have hopB : ∀ idx q, (if b.arrEl = true then b.subEl tm idx else b.term tm (some idx)) = some q →
        eval (car O ρ) σ q = .r (b.valD O ρ idx) := by
      intro idx q hq
      by_cases hc : b.arrEl = true
      · rw [if_pos hc] at hq; exact subEl_eval O ρ σ tm b idx q hq
      · rw [if_neg hc] at hq; exact ihb.1 idx q (by simpa using hc) hq
    have hsA : ∀ ix q, (match a with | .el e => e.subT tm ix | _ => a.term tm (some ix)) = some q →
        eval (car O ρ) σ q = .r (a.valD O ρ ix) := by
      intro ix q hq
      cases a with
      | el e => simpa [Ex.valD] using subT_eval O ρ σ tm e ix q hq
      | num n l => exact iha.1 ix q rfl hq
      | op g c d => exact iha.1 ix q rfl hq
      | agg g e => exact iha.1 ix q rfl hq
    have hsB : ∀ ix q, (match b with | .el e => e.subT tm ix | _ => b.term tm (some ix)) = some q →
        eval (car O ρ) σ q = .r (b.valD O ρ ix) := by
      intro ix q hq
      cases b with
      | el e => simpa [Ex.valD] using subT_eval O ρ σ tm e ix q hq
      | num n l => exact ihb.1 ix q rfl hq
      | op g c d => exact ihb.1 ix q rfl hq
      | agg g e => exact ihb.1 ix q rfl hq
    cases f with
    | ew o =>
      constructor
      · intro idx p _ hp
        simp only [Ex.term] at hp
        split at hp
        · exact opt2_eval O ρ σ _ (ewVal O o) (eval_ewTmpl O ρ σ o) _ _ _ _ (hopA idx) (hopB idx) p hp
        · next hc =>
          have hc' : a.arrEl = false ∧ b.arrEl = false := by simpa using hc
          exact opt2_eval O ρ σ _ (ewVal O o) (eval_ewTmpl O ρ σ o) _ _ _ _
            (fun x hx => iha.1 idx x hc'.1 hx) (fun y hy => ihb.1 idx y hc'.2 hy) p hp
      · intro p _ hd hp
        simp only [Ex.dims] at hd
        cases hda : a.dims with
        | none => simp [hda] at hd
        | some d1 =>
          cases hdb : b.dims with
          | none => simp [hda, hdb] at hd
          | some d2 =>
            simp only [hda, hdb] at hd
            obtain ⟨h1, h2⟩ := resolveEwD_val _ _ hd
            subst h1; subst h2
            have haE := notArr_of_val a hda
            have hbE := notArr_of_val b hdb
            simp only [Ex.term, haE, hbE, Bool.or_self, Bool.false_eq_true, if_false] at hp
            exact opt2_eval O ρ σ _ (ewVal O o) (eval_ewTmpl O ρ σ o) _ _ _ _
              (fun x hx => iha.2 x haE hda hx) (fun y hy => ihb.2 y hbE hdb hy) p hp
    | nmul =>
      constructor
      · intro idx p _ hp
        simp only [Ex.term] at hp
        split at hp
        · exact opt2_eval O ρ σ _ (· * ·) (eval_prodTerm' O ρ σ) _ _ _ _ (hopB idx) (hopA idx) p hp
        · next hc =>
          have hc' : a.arrEl = false ∧ b.arrEl = false := by simpa using hc
          exact opt2_eval O ρ σ _ (· * ·) (eval_prodTerm' O ρ σ) _ _ _ _
            (fun y hy => ihb.1 idx y hc'.2 hy) (fun x hx => iha.1 idx x hc'.1 hx) p hp
      · intro p _ hd hp
        simp only [Ex.dims] at hd
        cases hda : a.dims with
        | none => simp [hda] at hd
        | some d1 =>
          cases hdb : b.dims with
          | none => simp [hda, hdb] at hd
          | some d2 =>
            simp only [hda, hdb] at hd
            obtain ⟨h1, h2⟩ := resolveEwD_val _ _ hd
            subst h1; subst h2
            have haE := notArr_of_val a hda
            have hbE := notArr_of_val b hdb
            simp only [Ex.term, haE, hbE, Bool.or_self, Bool.false_eq_true, if_false] at hp
            exact opt2_eval O ρ σ _ (· * ·) (eval_prodTerm' O ρ σ) _ _ _ _
              (fun y hy => ihb.2 y hbE hdb hy) (fun x hx => iha.2 x haE hda hx) p hp
    | dot =>
      have hchain : ∀ (n : Nat) (fa fb : Nat → Option Py) (ga gb : Nat → R) (e : Py),
          (∀ k, ∀ x, fa k = some x → eval (car O ρ) σ x = .r (ga k)) →
          (∀ k, ∀ y, fb k = some y → eval (car O ρ) σ y = .r (gb k)) →
          dotChain ((List.range n).map fun k => (fa k, fb k)) = some e →
          eval (car O ρ) σ e = .r (∑ k ∈ Finset.range n, ga k * gb k) :=
        fun n fa fb ga gb e ha hb h => dotChain_spec O ρ σ n fa fb ga gb e (fun k _ => ha k) (fun k _ => hb k) h
      constructor
      · intro idx p _ hp
        simp only [Ex.term] at hp
        cases hda : a.dims with
        | none => simp [hda] at hp
        | some d1 =>
          cases hdb : b.dims with
          | none => simp [hda, hdb] at hp
          | some d2 =>
            simp only [hda, hdb] at hp
            have hv : (Ex.op .dot a b).valD O ρ idx
                = dotVal d1 d2 (fun ix => a.valD O ρ ix) (fun ix => b.valD O ρ ix) idx := by
              simp [Ex.valD, hda, hdb]
            rw [hv]
            by_cases h1 : d1 = .val
            · subst h1
              by_cases h2 : d2 = .val
              · subst h2; simp at hp
              · simp only [if_true, h2, if_false] at hp
                have haE := notArr_of_val a hda
                have := opt2_eval O ρ σ _ (· * ·) (eval_prodTerm' O ρ σ) _ _ _ _
                  (fun x hx => iha.1 idx x haE hx) (fun y hy => subEl_eval O ρ σ tm b idx y hy) p hp
                simpa [dotVal] using this
            · by_cases h2 : d2 = .val
              · subst h2
                simp only [h1, if_false, if_true] at hp
                have hbE := notArr_of_val b hdb
                have := opt2_eval O ρ σ _ (· * ·) (eval_prodTerm' O ρ σ) _ _ _ _
                  (fun x hx => subEl_eval O ρ σ tm a idx x hx) (fun y hy => ihb.1 idx y hbE hy) p hp
                simpa [dotVal] using this
              · simp only [h1, h2, if_false] at hp
                by_cases hv1 : d1.isVec = true
                · by_cases hv2 : d2.isVec = true
                  · simp only [hv1, hv2, if_true] at hp
                    split at hp
                    · have := hchain _ _ _ (fun k => a.valD O ρ [.i k]) (fun k => b.valD O ρ [.i k]) p
                        (fun k x hx => subEl_eval O ρ σ tm a _ x hx) (fun k y hy => subEl_eval O ρ σ tm b _ y hy) hp
                      simpa [dotVal, h1, h2, hv1, hv2] using this
                    · simp at hp
                  · simp only [hv1, hv2, if_true, Bool.false_eq_true, if_false] at hp
                    split at hp
                    · next hr =>
                      split at hp
                      · next j rest =>
                        split at hp
                        · next jn hj =>
                          split at hp
                          · simp at hp
                          · have := hchain _ _ _ (fun k => a.valD O ρ [.i k]) (fun k => b.valD O ρ [.i k, j]) p
                              (fun k x hx => hsA _ x hx) (fun k y hy => hsB _ y hy) hp
                            simpa [dotVal, h1, h2, hv1, hv2, hr] using this
                        · simp at hp
                      · simp at hp
                    · simp at hp
                · by_cases hv2 : d2.isVec = true
                  · simp only [hv1, hv2, if_true, Bool.false_eq_true, if_false] at hp
                    split at hp
                    · split at hp
                      · next i rest =>
                        split at hp
                        · split at hp
                          · simp at hp
                          · have := hchain _ _ _ (fun k => a.valD O ρ [i, .i k]) (fun k => b.valD O ρ [.i k]) p
                              (fun k x hx => hsA _ x hx) (fun k y hy => hsB _ y hy) hp
                            simpa [dotVal, h1, h2, hv1, hv2] using this
                        · simp at hp
                      · simp at hp
                    · simp at hp
                  · simp only [hv1, hv2, Bool.false_eq_true, if_false] at hp
                    split at hp
                    · next i j =>
                      split at hp
                      · split at hp
                        · simp at hp
                        · have := hchain _ _ _ (fun k => a.valD O ρ [i, .i k]) (fun k => b.valD O ρ [.i k, j]) p
                            (fun k x hx => hsA _ x hx) (fun k y hy => hsB _ y hy) hp
                          simpa [dotVal, h1, h2, hv1, hv2] using this
                      · simp at hp
                    · simp at hp
      · intro p _ hd hp
        simp only [Ex.dims] at hd
        simp only [Ex.term] at hp
        cases hda : a.dims with
        | none => simp [hda] at hp
        | some d1 =>
          cases hdb : b.dims with
          | none => simp [hda, hdb] at hp
          | some d2 =>
            simp only [hda, hdb] at hp hd
            have hv : (Ex.op .dot a b).valD O ρ []
                = dotVal d1 d2 (fun ix => a.valD O ρ ix) (fun ix => b.valD O ρ ix) [] := by
              simp [Ex.valD, hda, hdb]
            rw [hv]
            by_cases h1 : d1 = .val
            · subst h1; simp at hp
            · by_cases hv1 : d1.isVec = true
              · by_cases h2 : d2 = .val
                · subst h2; simp [h1, hv1] at hp
                · by_cases hv2 : d2.isVec = true
                  · simp only [h1, h2, hv1, hv2, if_true, if_false] at hp
                    split at hp
                    · have := hchain _ _ _ (fun k => a.valD O ρ [.i k]) (fun k => b.valD O ρ [.i k]) p
                        (fun k x hx => subEl_eval O ρ σ tm a _ x hx) (fun k y hy => subEl_eval O ρ σ tm b _ y hy) hp
                      simpa [dotVal, h1, h2, hv1, hv2] using this
                    · simp at hp
                  · -- "0.0" but then the resolved dimensions are not -1
                    exfalso
                    simp [resolveDotD, h1, h2, hv1, hv2] at hd
              · exfalso
                simp [resolveDotD, h1, hv1] at hd
                by_cases h2 : d2 = .val
                · simp [h2] at hd; exact h1 hd
                · simp [h2] at hd
                  split at hd
                  · split at hd <;> simp at hd
                  · split at hd <;> simp at hd


/-! ### the numpy meaning in Mathlib's terms -/

omit [CommSemiring R] in
theorem isVec_d2 (m n : Nat) (hn : n ≠ 0) : (Dims.d2 m n).isVec = false := by
  cases n with
  | zero => exact absurd rfl hn
  | succ n => rfl

/-- entries of a matrix- / vector-valued operand tree as Mathlib objects -/
def Ex.matD (x : Ex) (m n : Nat) : Matrix (Fin m) (Fin n) R := fun i j => x.valD O ρ [.i i.val, .i j.val]
def Ex.vecD (x : Ex) (m : Nat) : Fin m → R := fun i => x.valD O ρ [.i i.val]

/-- element-wise operators act entry by entry on the operands' entries (scalars broadcast), at every level -/
theorem valD_ew (o : EwOp) (a b : Ex) (idx : List Key) :
    (Ex.op (.ew o) a b).valD O ρ idx = ewVal O o (a.valD O ρ idx) (b.valD O ρ idx) := rfl

theorem valD_nmul (a b : Ex) (idx : List Key) :
    (Ex.op .nmul a b).valD O ρ idx = b.valD O ρ idx * a.valD O ρ idx := rfl

/-- matrix·matrix of arbitrary operand trees = `Matrix.mul` of their entry matrices -/
theorem valD_dot_mm (a b : Ex) (m n p : Nat) (hn : n ≠ 0) (hp : p ≠ 0)
    (ha : a.dims = some (.d2 m n)) (hb : b.dims = some (.d2 n p)) (i : Fin m) (j : Fin p) :
    (Ex.op .dot a b).valD O ρ [.i i, .i j] = (a.matD O ρ m n * b.matD O ρ n p) i j := by
  have hL : (Ex.op .dot a b).valD O ρ [.i i, .i j]
      = ∑ k ∈ Finset.range n, a.valD O ρ [.i i, .i k] * b.valD O ρ [.i k, .i j] := by
    simp [Ex.valD, ha, hb, dotVal, isVec_d2 m n hn, isVec_d2 n p hp, Dims.snd]
  rw [hL, Matrix.mul_apply, Finset.sum_range]
  rfl

/-- matrix·vector = `Matrix.mulVec` (the vector operand may report `[n, 0]` or `[n]`) -/
theorem valD_dot_mv (a b : Ex) (m n : Nat) (d : Dims) (hn : n ≠ 0) (hd : d.isVec = true)
    (ha : a.dims = some (.d2 m n)) (hb : b.dims = some d) (i : Fin m) :
    (Ex.op .dot a b).valD O ρ [.i i] = Matrix.mulVec (a.matD O ρ m n) (b.vecD O ρ n) i := by
  have hdv : d ≠ .val := by intro h; subst h; simp [Dims.isVec] at hd
  have hL : (Ex.op .dot a b).valD O ρ [.i i]
      = ∑ k ∈ Finset.range n, a.valD O ρ [.i i, .i k] * b.valD O ρ [.i k] := by
    simp [Ex.valD, ha, hb, dotVal, isVec_d2 m n hn, hd, hdv, Dims.snd]
  rw [hL, Matrix.mulVec, dotProduct, Finset.sum_range]
  rfl

/-- vector·matrix = `Matrix.vecMul` -/
theorem valD_dot_vm (a b : Ex) (m n : Nat) (d : Dims) (hn : n ≠ 0) (hd : d.isVec = true) (hr : d.rows = m)
    (ha : a.dims = some d) (hb : b.dims = some (.d2 m n)) (j : Fin n) :
    (Ex.op .dot a b).valD O ρ [.i j] = Matrix.vecMul (a.vecD O ρ m) (b.matD O ρ m n) j := by
  have hdv : d ≠ .val := by intro h; subst h; simp [Dims.isVec] at hd
  have hL : (Ex.op .dot a b).valD O ρ [.i j]
      = ∑ k ∈ Finset.range m, a.valD O ρ [.i k] * b.valD O ρ [.i k, .i j] := by
    simp [Ex.valD, ha, hb, dotVal, isVec_d2 m n hn, hd, hdv, hr]
  rw [hL, Matrix.vecMul, dotProduct, Finset.sum_range]
  rfl

/-- vector·vector = `dotProduct` -/
theorem valD_dot_vv (a b : Ex) (m : Nat) (d d' : Dims) (hd : d.isVec = true) (hd' : d'.isVec = true)
    (hr : d.rows = m) (ha : a.dims = some d) (hb : b.dims = some d') (idx : List Key) :
    (Ex.op .dot a b).valD O ρ idx = dotProduct (a.vecD O ρ m) (b.vecD O ρ m) := by
  have hdv : d ≠ .val := by intro h; subst h; simp [Dims.isVec] at hd
  have hdv' : d' ≠ .val := by intro h; subst h; simp [Dims.isVec] at hd'
  have hL : (Ex.op .dot a b).valD O ρ idx
      = ∑ k ∈ Finset.range m, a.valD O ρ [.i k] * b.valD O ρ [.i k] := by
    simp [Ex.valD, ha, hb, dotVal, hd, hd', hdv, hdv', hr]
  rw [hL, dotProduct, Finset.sum_range]
  rfl

/-! ### what `expandE` distributes are the per-index terms -/

omit [CommSemiring R] in
theorem matEntriesE_entry (tm : Py) (x : Ex) (m n : Nat) (rows : List (List Py))
    (h : matEntriesE tm x m n = some rows) (i j : Nat) (row : List Py) (p : Py)
    (hr : rows[i]? = some row) (hp : row[j]? = some p) : x.term tm (some [.i i, .i j]) = some p := by
  have h1 := optAll_range m _ rows h i row hr
  exact optAll_range n _ row h1 j p hp

omit [CommSemiring R] in
theorem vecEntriesE_entry (tm : Py) (f : Form) (a b : Ex) (nm : Bool) (m : Nat) (es : List (Key × Py))
    (h : vecEntriesE tm f a b nm m = some es) (i : Nat) (kp : Key × Py) (hk : es[i]? = some kp) :
    vecIndexE f a b nm i = some kp.1 ∧ (Ex.op f a b).term tm (some [kp.1]) = some kp.2 := by
  have h1 := optAll_range m _ es h i kp hk
  split at h1
  · next k hk' =>
    simp only [Option.map_eq_some_iff] at h1
    obtain ⟨p, hp, rfl⟩ := h1
    exact ⟨hk', hp⟩
  · simp at h1

omit [CommSemiring R] in
theorem dims_noArr (x : Ex) : x.anyArr = false → ∀ d, x.dims = some d → d = .val := by
  induction x with
  | num n l => intro _ d h; simpa [Ex.dims] using h.symm
  | agg g e => intro _ d h; simpa [Ex.dims] using h.symm
  | el e => intro ha d h; simp only [Ex.anyArr] at ha; simp [Ex.dims, elemDims, ha] at h; exact h.symm
  | op f a b iha ihb =>
    intro ha d h
    simp only [Ex.anyArr, Bool.or_eq_false_iff] at ha
    simp only [Ex.dims] at h
    cases hda : a.dims with
    | none => simp [hda] at h
    | some d1 =>
      cases hdb : b.dims with
      | none => simp [hda, hdb] at h
      | some d2 =>
        have e1 := iha ha.1 d1 hda
        have e2 := ihb ha.2 d2 hdb
        subst e1; subst e2
        simp only [hda, hdb] at h
        cases f <;> simp [resolveDotD, resolveEwD] at h <;> exact h.symm

omit [CommSemiring R] in
theorem term_none_dims (tm : Py) (x : Ex) : x.anyArr = false → ∀ p, x.term tm none = some p → x.dims = some .val := by
  induction x with
  | num n l => intro _ p _; rfl
  | agg g e => intro _ p _; rfl
  | el e => intro ha p _; simp only [Ex.anyArr] at ha; simp [Ex.dims, elemDims, ha]
  | op f a b iha ihb =>
    intro ha p hp
    simp only [Ex.anyArr, Bool.or_eq_false_iff] at ha
    have haE : a.arrEl = false := by cases a <;> simp_all [Ex.arrEl, Ex.anyArr]
    have hbE : b.arrEl = false := by cases b <;> simp_all [Ex.arrEl, Ex.anyArr]
    cases f with
    | ew o =>
      simp only [Ex.term, haE, hbE, Bool.or_self, Bool.false_eq_true, if_false] at hp
      cases hta : a.term tm none with
      | none => simp [hta, opt2] at hp
      | some pa =>
        cases htb : b.term tm none with
        | none => simp [hta, htb, opt2] at hp
        | some pb => simp [Ex.dims, iha ha.1 pa hta, ihb ha.2 pb htb, resolveEwD]
    | nmul =>
      simp only [Ex.term, haE, hbE, Bool.or_self, Bool.false_eq_true, if_false] at hp
      cases hta : a.term tm none with
      | none => simp [hta, opt2] at hp
      | some pa =>
        cases htb : b.term tm none with
        | none => simp [hta, htb, opt2] at hp
        | some pb => simp [Ex.dims, iha ha.1 pa hta, ihb ha.2 pb htb, resolveEwD]
    | dot =>
      simp only [Ex.term] at hp
      cases hda : a.dims with
      | none => simp [hda] at hp
      | some d1 =>
        cases hdb : b.dims with
        | none => simp [hda, hdb] at hp
        | some d2 =>
          have e1 := dims_noArr a ha.1 d1 hda
          subst e1
          simp [hda, hdb] at hp

/-- **expansion of a nested equation** (`_handle_arrayed`, generic branch): every entry the expansion
assigns evaluates to the numpy entry of the whole operand tree at that index. -/
theorem expandE_spec (tm : Py) (x : Ex) (hrf : x.rankFree = true) (r : Result) (h : expandE tm x = some r) :
    (∀ p, r = .scalar p → eval (car O ρ) σ p = .r (x.valD O ρ [])) ∧
    (∀ nm es, r = .vector nm es → ∀ kp ∈ es, eval (car O ρ) σ kp.2 = .r (x.valD O ρ [kp.1])) ∧
    (∀ rows, r = .matrix rows → ∀ i j row p, rows[i]? = some row → row[j]? = some p →
      eval (car O ρ) σ p = .r (x.valD O ρ [.i i, .i j])) := by
  cases x with
  | num n l => simp [expandE] at h
  | el e => simp [expandE] at h
  | agg g e => simp [expandE] at h
  | op f a b =>
    have hE : (Ex.op f a b).arrEl = false := rfl
    have hs := nested_spec O ρ σ tm (Ex.op f a b) hrf
    simp only [expandE] at h
    split at h
    · simp at h
    · split at h
      · next hna =>
        simp only [Option.map_eq_some_iff] at h
        obtain ⟨p, hp, rfl⟩ := h
        have hd := term_none_dims tm (Ex.op f a b) (by simpa using hna) p hp
        refine ⟨fun q hq => ?_, fun nm es hq => by simp at hq, fun rows hq => by simp at hq⟩
        simp only [Result.scalar.injEq] at hq; subst hq
        exact hs.2 p hE hd hp
      · split at h
        · simp at h
        · next hd =>
          simp only [Option.map_eq_some_iff] at h
          obtain ⟨p, hp, rfl⟩ := h
          refine ⟨fun q hq => ?_, fun nm es hq => by simp at hq, fun rows hq => by simp at hq⟩
          simp only [Result.scalar.injEq] at hq; subst hq
          exact hs.2 p hE hd hp
        · split at h
          · split at h
            · simp at h
            · simp only [Option.map_eq_some_iff] at h
              obtain ⟨es, hes, rfl⟩ := h
              refine ⟨fun q hq => by simp at hq, fun nm es' hq kp hkp => ?_, fun rows hq => by simp at hq⟩
              simp only [Result.vector.injEq] at hq
              obtain ⟨_, rfl⟩ := hq
              obtain ⟨i, hi⟩ := List.getElem?_of_mem hkp
              have := (vecEntriesE_entry tm f a b _ _ es hes i kp hi).2
              exact hs.1 [kp.1] kp.2 hE this
          · split at h
            · simp only [Option.map_eq_some_iff] at h
              obtain ⟨rows, hrows, rfl⟩ := h
              refine ⟨fun q hq => by simp at hq, fun nm es hq => by simp at hq, fun rows' hq i j row p hr hp => ?_⟩
              simp only [Result.matrix.injEq] at hq; subst hq
              exact hs.1 _ p hE (matEntriesE_entry tm _ _ _ rows hrows i j row p hr hp)
            · simp at h


/-! ### Stock targets -/

/-- what the Stock branch assigns: each listed sub-stock is the one stored under the index the flow term
was cloned with, and the flow evaluates to the numpy entry of the operand tree at that index -/
theorem stockAssign_spec (s : Elem) (x : Ex) (hrf : x.rankFree = true) (l : List (List Key × Py)) (h : stockAssign s x = some l) :
    ∀ e ∈ l, G6 e.2 ∧ ∃ idx, s.path idx = some e.1 ∧ eval (car O ρ) σ e.2 = .r (x.valD O ρ idx) := by
  cases x with
  | num n l' => simp [stockAssign] at h
  | el e => simp [stockAssign] at h
  | agg g e => simp [stockAssign] at h
  | op f a b =>
    have hE : (Ex.op f a b).arrEl = false := rfl
    have hs := nested_spec O ρ σ tPrev (Ex.op f a b) hrf
    have hg := Ex.term_g6 tPrev tPrev_ok (Ex.op f a b)
    simp only [stockAssign] at h
    split at h
    · simp at h
    · next hws =>
      have hsa : s.arrayed = true := by
        cases hc : s.arrayed with
        | true => rfl
        | false => simp [hc] at hws
      split at h
      · next hna =>
        simp only [Option.map_eq_some_iff] at h
        obtain ⟨p, hp, rfl⟩ := h
        intro e he
        simp only [List.mem_singleton] at he; subst he
        have hd := term_none_dims tPrev (Ex.op f a b) (by simpa using hna) p hp
        exact ⟨hg none p hp, [], rfl, hs.2 p hE hd hp⟩
      · split at h
        · simp at h
        · next hd =>
          simp only [Option.map_eq_some_iff] at h
          obtain ⟨p, hp, rfl⟩ := h
          intro e he
          simp only [List.mem_singleton] at he; subst he
          exact ⟨hg none p hp, [], rfl, hs.2 p hE hd hp⟩
        · split at h
          · split at h
            · simp at h
            · intro e he
              have hmem := optAll_mem _ _ h e he
              simp only [List.mem_map] at hmem
              obtain ⟨i, _, hi⟩ := hmem
              split at hi
              · next k hk =>
                split at hi
                · next k' p hk' hp =>
                  simp only [Option.some.injEq] at hi; subst hi
                  refine ⟨hg _ p hp, [k], ?_, hs.1 [k] p hE hp⟩
                  simp [Elem.path, hsa, hk']
                · simp at hi
              · simp at hi
          · split at h
            · simp only [Option.map_eq_some_iff] at h
              obtain ⟨rows, hrows, rfl⟩ := h
              intro e he
              simp only [List.mem_flatten] at he
              obtain ⟨row, hrow, he⟩ := he
              have hmem := optAll_mem _ _ hrows row hrow
              simp only [List.mem_map] at hmem
              obtain ⟨i, _, hi⟩ := hmem
              have hmem2 := optAll_mem _ _ hi e he
              simp only [List.mem_map] at hmem2
              obtain ⟨j, _, hj⟩ := hmem2
              split at hj
              · next pth p hpth hp =>
                simp only [Option.some.injEq] at hj; subst hj
                exact ⟨hg _ p hp, [.i i, .i j], hpth, hs.1 _ p hE hp⟩
              · simp at hj
            · simp at h

end Sem2

/-- the stock function string around a well-levelled initial value and flow is well-levelled … -/
theorem stockFs_wl (nm : String) (init p : Py) (hi : WLb 0 init = true) (hp : WLb 0 p = true) :
    WLb 0 (stockFs nm init (some p)) = true := by
  have := (refT_g6 tPrev tPrev_ok nm []).1
  simp [stockFs, WLb, hi, hp, this, ldem, rbp, bp]

/-- … hence parses back (CPython precedence) to the conditional `init if t <= starttime else prev + dt*(flow)` -/
theorem stockFs_parses (nm : String) (init p : Py) (hi : WLb 0 init = true) (hp : WLb 0 p = true) :
    Parses (pr (stockFs nm init (some p))) (stockFs nm init (some p)) :=
  parse_print _ (stockFs_wl nm init p hi hp)

/-- every flow reference the element branch assigns is a reference to a sub-element of `e` at `t-model.dt` -/
theorem stockAssignEl_refs (s e : Elem) (l : List (List Key × Py)) (h : stockAssignEl s e = some l) :
    ∀ q ∈ l, ∃ pe, q.2 = refT tPrev e.name pe := by
  simp only [stockAssignEl] at h
  split at h
  · simp at h
  · split at h
    · simp at h
    · simp only [Option.map_eq_some_iff] at h
      obtain ⟨rows, hrows, rfl⟩ := h
      intro q hq
      simp only [List.mem_append, List.mem_flatten, List.mem_singleton] at hq
      rcases hq with ⟨row, hrow, hq⟩ | rfl
      · have hmem := optAll_mem _ _ hrows row hrow
        simp only [List.mem_map] at hmem
        obtain ⟨k, _, hk⟩ := hmem
        split at hk
        · split at hk
          · split at hk
            · simp at hk
            · simp only [Option.map_eq_some_iff] at hk
              obtain ⟨leaves, hl, rfl⟩ := hk
              simp only [List.mem_append, List.mem_singleton] at hq
              rcases hq with hq | rfl
              · have hm2 := optAll_mem _ _ hl q hq
                simp only [List.mem_map] at hm2
                obtain ⟨l', _, hl'⟩ := hm2
                split at hl'
                · simp only [Option.some.injEq] at hl'; subst hl'; exact ⟨_, rfl⟩
                · simp at hl'
              · exact ⟨_, rfl⟩
          · simp only [Option.some.injEq] at hk; subst hk
            simp only [List.mem_singleton] at hq; subst hq; exact ⟨_, rfl⟩
        · simp at hk
      · exact ⟨_, rfl⟩

/-! ### well-levelledness of nested expansions -/

theorem expandE_wl (tm : Py) (htm : TmOK tm) (x : Ex) (r : Result) (h : expandE tm x = some r) :
    ∀ p ∈ r.exprs, WLb 0 p = true := by
  cases x with
  | num n l => simp [expandE] at h
  | el e => simp [expandE] at h
  | agg g e => simp [expandE] at h
  | op f a b =>
    have hg := Ex.term_g6 tm htm (Ex.op f a b)
    have hsc : ∀ r, ((Ex.op f a b).term tm none).map Result.scalar = some r → ∀ p ∈ r.exprs, WLb 0 p = true := by
      intro r hr
      simp only [Option.map_eq_some_iff] at hr
      obtain ⟨p, hp, rfl⟩ := hr
      intro q hq
      simp only [Result.exprs, List.mem_singleton] at hq; subst hq
      exact (hg none _ hp).1
    simp only [expandE] at h
    split at h
    · simp at h
    · split at h
      · exact hsc r h
      · split at h
        · simp at h
        · exact hsc r h
        · split at h
          · split at h
            · simp at h
            · simp only [Option.map_eq_some_iff] at h
              obtain ⟨es, hes, rfl⟩ := h
              intro q hq
              simp only [Result.exprs, List.mem_map] at hq
              obtain ⟨kp, hkp, rfl⟩ := hq
              obtain ⟨i, hi⟩ := List.getElem?_of_mem hkp
              exact (hg _ _ (vecEntriesE_entry tm f a b _ _ es hes i kp hi).2).1
          · split at h
            · simp only [Option.map_eq_some_iff] at h
              obtain ⟨rows, hrows, rfl⟩ := h
              intro q hq
              simp only [Result.exprs, List.mem_flatten] at hq
              obtain ⟨row, hrow, hq⟩ := hq
              obtain ⟨i, hi⟩ := List.getElem?_of_mem hrow
              obtain ⟨j, hj⟩ := List.getElem?_of_mem hq
              exact (hg _ _ (matEntriesE_entry tm _ _ _ rows hrows i j row q hi hj)).1
            · simp at h

/-- … hence the text of every entry of a nested expansion parses back to exactly the modelled tree -/
theorem expandE_parses (tm : Py) (htm : TmOK tm) (x : Ex) (r : Result) (h : expandE tm x = some r) :
    ∀ p ∈ r.exprs, Parses (pr p) p :=
  fun p hp => parse_print p (expandE_wl tm htm x r h p hp)

/-! ### `arr_sum(dimension)` -/

/-- with an explicit dimension the aggregate is either refused (depth not reached: empty text) or exactly
the `"*"` aggregate, to which `sum_spec` / `prod_spec` apply -/
theorem aggDim_spec (g : Agg) (dim : Nat) (e : Elem) (p : Py) (h : aggDim g dim e = some p) :
    (g = .sum ∨ g = .prod) ∧ aggTerm g e = some p ∧ (e.arrayed = true → e.depth ≤ dim) := by
  cases g <;> simp only [aggDim] at h <;> (try (simp at h)) <;>
  · split at h
    · next hna => exact ⟨by simp, h, fun ha => by simp [ha] at hna⟩
    · split at h
      · simp at h
      · next hd => exact ⟨by simp, h, fun _ => by omega⟩

theorem aggDim_none (g : Agg) (dim : Nat) (e : Elem) (ha : e.arrayed = true) (hd : dim < e.depth) :
    aggDim g dim e = none := by
  cases g <;> simp [aggDim, ha, hd]

/-! ## 5. The nested model restricted to flat operands is the wave-1 model -/

theorem refT_now (nm : String) (p : List Key) : refT tNow nm p = ref nm p := rfl
theorem subT_now (e : Elem) (idx : List Key) : e.subT tNow idx = e.sub idx := rfl

theorem opnd_flat (o : Operand) (idx : List Key) :
    (if (Ex.ofOperand o).arrEl = true then (Ex.ofOperand o).subEl tNow idx
     else (Ex.ofOperand o).term tNow (some idx)) = o.at idx := by
  cases o with
  | num n l => simp [Ex.ofOperand, Ex.arrEl, Ex.term, Operand.at]
  | el e =>
    cases h : e.arrayed <;> simp [Ex.ofOperand, Ex.arrEl, Ex.term, Operand.at, Ex.subEl, h, subT_now, refT_now]

theorem term_flat_notArr (o : Operand) (I : Option (List Key)) (h : (Ex.ofOperand o).arrEl = false) :
    (Ex.ofOperand o).term tNow I = some o.term := by
  cases o with
  | num n l => simp [Ex.ofOperand, Ex.term, Operand.term]
  | el e => simp [Ex.ofOperand, Ex.term, Operand.term, refT_now]

theorem at_notArr (o : Operand) (idx : List Key) (h : (Ex.ofOperand o).arrEl = false) : o.at idx = some o.term := by
  cases o with
  | num n l => simp [Operand.at, Operand.term]
  | el e => simp only [Ex.ofOperand, Ex.arrEl] at h; simp [Operand.at, Operand.term, h]

theorem opt2_eq (f : Py → Py → Py) (ox oy : Option Py) :
    opt2 f ox oy = (match ox, oy with | some x, some y => some (f x y) | _, _ => none) := by
  cases ox <;> cases oy <;> rfl

theorem dims_flat (o : Operand) : (Ex.ofOperand o).dims = some o.dims := by
  cases o <;> rfl

theorem operand_dims_cases (o : Operand) : o.dims = .val ∨ ∃ m n, o.dims = .d2 m n ∧ 0 < m := by
  cases o with
  | num n l => left; rfl
  | el e =>
    simp only [Operand.dims, elemDims]
    cases h : e.arrayed with
    | false => left; simp
    | true =>
      right
      refine ⟨e.keys.length, e.inner.length, by simp, ?_⟩
      simp only [Elem.arrayed, Bool.not_eq_eq_eq_not, Bool.not_true, List.isEmpty_eq_false_iff] at h
      exact List.length_pos_of_ne_nil h

theorem subEl_flat (o : Operand) (idx : List Key) : (Ex.ofOperand o).subEl tNow idx = subOf o idx := by
  cases o <;> simp [Ex.ofOperand, Ex.subEl, subOf, subT_now]

theorem subA_flat (o : Operand) (hd : o.dims ≠ .val) (ix : List Key) :
    (match Ex.ofOperand o with | .el e => e.subT tNow ix | _ => (Ex.ofOperand o).term tNow (some ix)) = subOf o ix := by
  cases o with
  | num n l => simp [Operand.dims] at hd
  | el e => simp [Ex.ofOperand, subOf, subT_now]

/-- on flat operands the nested model is the wave-1 model: same per-index term … -/
theorem term_flat (f : Form) (a b : Operand) (idx : List Key) :
    (Ex.op f (.ofOperand a) (.ofOperand b)).term tNow (some idx) = termAt f a b idx := by
  cases f with
  | ew o =>
    simp only [Ex.term, termAt]
    split
    · rw [opnd_flat, opnd_flat]
      cases a.at idx <;> cases b.at idx <;> rfl
    · next hc =>
      have hc' : (Ex.ofOperand a).arrEl = false ∧ (Ex.ofOperand b).arrEl = false := by simpa using hc
      rw [term_flat_notArr a _ hc'.1, term_flat_notArr b _ hc'.2, at_notArr a idx hc'.1, at_notArr b idx hc'.2]
      rfl
  | nmul =>
    simp only [Ex.term, termAt]
    split
    · rw [opnd_flat, opnd_flat]
      cases b.at idx <;> cases a.at idx <;> rfl
    · next hc =>
      have hc' : (Ex.ofOperand a).arrEl = false ∧ (Ex.ofOperand b).arrEl = false := by simpa using hc
      rw [term_flat_notArr a _ hc'.1, term_flat_notArr b _ hc'.2, at_notArr a idx hc'.1, at_notArr b idx hc'.2]
      rfl
  | dot =>
    simp only [Ex.term, termAt, dims_flat]
    unfold dotTerm
    rcases operand_dims_cases a with ha | ⟨m, n, ha, hm⟩ <;> rcases operand_dims_cases b with hb | ⟨m', n', hb, hm'⟩
    · simp [ha, hb]
    · have hbn : b.dims ≠ .val := by simp [hb]
      have haE : (Ex.ofOperand a).arrEl = false := by
        cases a with
        | num _ _ => rfl
        | el e => simp only [Operand.dims, elemDims] at ha; simp only [Ex.ofOperand, Ex.arrEl]; split at ha <;> simp_all
      simp only [ha, hb, term_flat_notArr a _ haE, subEl_flat]
      cases subOf b idx <;> simp [opt2]
    · have hbE : (Ex.ofOperand b).arrEl = false := by
        cases b with
        | num _ _ => rfl
        | el e => simp only [Operand.dims, elemDims] at hb; simp only [Ex.ofOperand, Ex.arrEl]; split at hb <;> simp_all
      simp only [ha, hb, term_flat_notArr b _ hbE, subEl_flat]
      cases subOf a idx <;> simp [opt2]
    · cases a with
      | num _ _ => simp [Operand.dims] at ha
      | el ea =>
        cases b with
        | num _ _ => simp [Operand.dims] at hb
        | el eb =>
          simp only [ha, hb, Ex.ofOperand, Ex.subEl, subOf, subT_now]
          cases n with
          | zero =>
            cases n' with
            | zero => by_cases hmm : m = m' <;> simp [Dims.isVec, Dims.rows, hmm]
            | succ n' => simp [Dims.isVec, Dims.rows, Dims.snd]
          | succ n =>
            cases n' with
            | zero => simp [Dims.isVec, Dims.rows, Dims.snd]
            | succ n' => simp [Dims.isVec, Dims.rows, Dims.snd]


theorem arrEl_flat (o : Operand) : (Ex.ofOperand o).arrEl = o.arrayed := by cases o <;> rfl
theorem anyArr_flat (o : Operand) : (Ex.ofOperand o).anyArr = o.arrayed := by cases o <;> rfl
theorem wf_flat (o : Operand) : (Ex.ofOperand o).wf = true := by cases o <;> rfl

theorem ctor_flat (f : Form) (a b : Operand) : ctorE f (.ofOperand a) (.ofOperand b) = ctorOK f a b := by
  cases f <;> cases a <;> cases b <;> simp [ctorE, ctorOK, Ex.ofOperand, Ex.namedArr]

theorem dimsOp_flat (f : Form) (a b : Operand) :
    (Ex.op f (.ofOperand a) (.ofOperand b)).dims = resolve f a b := by
  simp only [Ex.dims, dims_flat]
  cases f with
  | ew o => rfl
  | nmul => rfl
  | dot =>
    simp only [resolve, resolveDot, resolveDotD]
    rcases operand_dims_cases a with ha | ⟨m, n, ha, _⟩ <;> rcases operand_dims_cases b with hb | ⟨m', n', hb, _⟩
    · simp [ha, hb]
    · simp [ha, hb]
    · simp [ha, hb]
    · rw [ha, hb]
      cases n <;> cases n' <;> simp [Dims.isVec, Dims.rows, Dims.snd] <;> congr

theorem isNamed_flat (f : Form) (a b : Operand) : isNamedE f (.ofOperand a) (.ofOperand b) = isNamed f a b := by
  cases f <;> cases a <;> cases b <;> simp [isNamedE, isNamed, Ex.ofOperand, Ex.namedOf, Ex.arrEl, Operand.arrayed] <;> congr

theorem indexKey_flat (f : Form) (a b : Operand) (i : Nat) :
    indexKeyE f (.ofOperand a) (.ofOperand b) i = indexKey f a b i := by
  cases f <;> cases a <;> cases b <;> simp [indexKeyE, indexKey, Ex.ofOperand, Ex.keysOf, Ex.arrEl, Operand.arrayed] <;> congr

theorem vecEntries_flat (f : Form) (a b : Operand) (nm : Bool) (m : Nat) :
    vecEntriesE tNow f (.ofOperand a) (.ofOperand b) nm m = vecEntries f a b nm m := by
  unfold vecEntriesE vecEntries
  congr 1
  apply List.map_congr_left
  intro i _
  cases nm with
  | true => simp only [vecIndexE, if_true, indexKey_flat, term_flat]
  | false => simp [vecIndexE, term_flat]

theorem matEntries_flat (f : Form) (a b : Operand) (m n : Nat) :
    matEntriesE tNow (Ex.op f (.ofOperand a) (.ofOperand b)) m n = matEntries f a b m n := by
  unfold matEntriesE matEntries
  simp only [term_flat]

theorem termNone_flat (f : Form) (a b : Operand)
    (h : (a.arrayed || b.arrayed) = false ∨ f = .dot) :
    (Ex.op f (.ofOperand a) (.ofOperand b)).term tNow none = termNoIndex f a b := by
  cases f with
  | ew o =>
    rcases h with h | h
    · have h' : a.arrayed = false ∧ b.arrayed = false := by simpa using h
      simp only [Ex.term, arrEl_flat, h'.1, h'.2, Bool.or_self, Bool.false_eq_true, if_false, termNoIndex]
      rw [term_flat_notArr a _ (by rw [arrEl_flat]; exact h'.1), term_flat_notArr b _ (by rw [arrEl_flat]; exact h'.2)]
      rfl
    · simp at h
  | nmul =>
    rcases h with h | h
    · have h' : a.arrayed = false ∧ b.arrayed = false := by simpa using h
      simp only [Ex.term, arrEl_flat, h'.1, h'.2, Bool.or_self, Bool.false_eq_true, if_false, termNoIndex]
      rw [term_flat_notArr a _ (by rw [arrEl_flat]; exact h'.1), term_flat_notArr b _ (by rw [arrEl_flat]; exact h'.2)]
      rfl
    · simp at h
  | dot =>
    simp only [Ex.term, dims_flat, termNoIndex, dotTermNoIndex, subEl_flat]
    rcases operand_dims_cases a with ha | ⟨m, n, ha, _⟩ <;> rcases operand_dims_cases b with hb | ⟨m', n', hb, _⟩
    · simp [ha, hb]
    · simp [ha, hb]
    · rw [ha, hb]; cases n <;> simp [Dims.isVec]
    · rw [ha, hb]
      cases n <;> cases n' <;> simp [Dims.isVec, Dims.rows] <;> congr

theorem arrayed_dims (o : Operand) (h : o.arrayed = true) : ∃ m n, o.dims = .d2 m n := by
  cases o with
  | num _ _ => simp [Operand.arrayed] at h
  | el e => simp only [Operand.arrayed] at h; exact ⟨e.keys.length, e.inner.length, by simp [Operand.dims, elemDims, h]⟩

theorem resolveEw_ne_val (a b : Operand) (h : (a.arrayed || b.arrayed) = true) : resolveEw a b ≠ some .val := by
  simp only [resolveEw]
  rcases operand_dims_cases a with ha | ⟨m, n, ha, _⟩ <;> rcases operand_dims_cases b with hb | ⟨m', n', hb, _⟩
  · exfalso
    simp only [Bool.or_eq_true] at h
    rcases h with h | h
    · obtain ⟨_, _, hd⟩ := arrayed_dims a h; rw [hd] at ha; simp at ha
    · obtain ⟨_, _, hd⟩ := arrayed_dims b h; rw [hd] at hb; simp at hb
  · simp [ha, hb]
  · simp [ha, hb]
  · rw [ha, hb]; simp only [ne_eq, reduceCtorEq, not_false_eq_true, and_self, if_true]; split <;> simp

/-- **conservative extension**: on flat operands (numbers, elements) the nested model `expandE` IS the
wave-1 model `expand`, so every wave-1 theorem is a statement about `expandE` on flat trees. -/
theorem expandE_flat (f : Form) (a b : Operand) :
    expandE tNow (Ex.op f (.ofOperand a) (.ofOperand b)) = expand f a b := by
  simp only [expandE, expand, Ex.wf, wf_flat, ctor_flat, Bool.true_and, Ex.anyArr, anyArr_flat, dimsOp_flat]
  split
  · rfl
  · split
    · next h => rw [termNone_flat f a b (Or.inl (by simpa using h))]
    · next hnot harr =>
      have harr' : (a.arrayed || b.arrayed) = true := by
        cases ha : a.arrayed <;> cases hb : b.arrayed <;> simp_all
      cases hr : resolve f a b with
      | none => rfl
      | some d =>
        cases d with
        | val =>
          simp only
          cases f with
          | dot => rw [termNone_flat .dot a b (Or.inr rfl)]
          | ew o => exact absurd hr (resolveEw_ne_val a b harr')
          | nmul => exact absurd hr (resolveEw_ne_val a b harr')
        | d1 m => simp only [expandArr, isNamed_flat, vecEntries_flat, Dims.isVec, if_true]
        | d2 m n =>
          simp only [expandArr]
          split
          · simp only [isNamed_flat, vecEntries_flat]
          · simp only [matEntries_flat]

/-! ## 6. Wave 3 — re-shape histories: a use sees only the current descriptions -/

/-- a use never changes what later operations see -/
theorem stepStore_use (st : Store) (o : HOp) (h : o.isSetup = false) : stepStore st o = st := by
  cases o <;> simp_all [HOp.isSetup, stepStore]

theorem stepReply_setup (st : Store) (o : HOp) (h : o.isSetup = true) : stepReply st o = none := by
  cases o <;> simp_all [HOp.isSetup, stepReply]

theorem runHist_append (st : Store) (h1 h2 : List HOp) :
    runHist st (h1 ++ h2) = ((runHist (runHist st h1).1 h2).1, (runHist st h1).2 ++ (runHist (runHist st h1).1 h2).2) := by
  induction h1 generalizing st with
  | nil => simp [runHist]
  | cons o os ih =>
    simp only [List.cons_append, runHist, ih]
    cases stepReply st o <;> simp

/-- the store after a history is the store after its set-up operations alone: uses leave no trace -/
theorem runHist_store (st : Store) (h : List HOp) :
    (runHist st h).1 = (runHist st (h.filter HOp.isSetup)).1 := by
  induction h generalizing st with
  | nil => rfl
  | cons o os ih =>
    cases ho : o.isSetup with
    | true => simp only [List.filter_cons, ho, if_true, runHist]; exact ih _
    | false => simp only [List.filter_cons, ho, Bool.false_eq_true, if_false, runHist, stepStore_use st o ho]; exact ih _

/-- **history independence**: what an equation expands to after ANY history is `expandE` of the operand
descriptions produced by the set-up operations of that history — earlier uses (and what they asked the
elements) are irrelevant -/
theorem use_after_history (st : Store) (h : List HOp) (x : RefEx) :
    (runHist st (h ++ [.use x])).2 =
      (runHist st h).2 ++ [.res (expandE tNow (x.resolve (runHist st (h.filter HOp.isSetup)).1))] := by
  rw [runHist_append, ← runHist_store]
  simp [runHist, stepReply]

theorem agg_after_history (st : Store) (h : List HOp) (g : Agg) (nm : String) :
    (runHist st (h ++ [.agg g nm])).2 =
      (runHist st h).2 ++ [.term (aggTerm g ((runHist st (h.filter HOp.isSetup)).1.get nm))] := by
  rw [runHist_append, ← runHist_store]
  simp [runHist, stepReply]

/-- set-ups produce no reply; a set-up that does not concern the operands … is still just a store update -/
theorem setups_reply_nothing (st : Store) (h : List HOp) (hs : ∀ o ∈ h, o.isSetup = true) : (runHist st h).2 = [] := by
  induction h generalizing st with
  | nil => rfl
  | cons o os ih =>
    simp only [runHist, stepReply_setup st o (hs o (by simp))]
    exact ih _ (fun o' ho' => hs o' (by simp [ho']))

/-- non-vacuity (kernel): a 2x2 used, re-shaped to 2x3 (same row count), used again: the second use sees 2x3 —
`A.dot(v2)` is now refused and `A.dot(v3)` accepted -/
example :
    (match (runHist [] [.setupMat "A" 2 2, .setupVec "v" 2, .setupVec "w" 3, .use (.op .dot (.ref "A") (.ref "v")),
        .setupMat "A" 2 3, .use (.op .dot (.ref "A") (.ref "v")), .use (.op .dot (.ref "A") (.ref "w"))]).2 with
     | [.res (some _), .res none, .res (some _)] => true
     | _ => false) = true := by decide +kernel

/-! ## 7. Wave 5 — nested equations relative to the probed re-indexing mechanism; corollaries; witness -/

def cfgGood : Cfg := ⟨true⟩

/-- with re-cloning at every level the mechanism-parametrised model IS the nested model -/
theorem termC_good (tm : Py) (x : Ex) : ∀ I, x.termC ⟨true⟩ tm I I = x.term tm I := by
  induction x with
  | num n l => intro I; rfl
  | el e => intro I; rfl
  | agg g e => intro I; rfl
  | op f a b iha ihb =>
    intro I
    cases f with
    | ew o => simp only [Ex.termC, Ex.term, iha, ihb]
    | nmul => simp only [Ex.termC, Ex.term, iha, ihb]
    | dot => simp only [Ex.termC, Ex.term, iha, ihb, if_true]

theorem termI_good (c : Cfg) (h : c.reindexAll = true) (tm : Py) (x : Ex) (I : Option (List Key)) :
    x.termI c tm I = x.term tm I := by
  cases c with
  | mk r => simp only at h; subst h; exact termC_good tm x I

theorem expandEC_good (c : Cfg) (h : c.reindexAll = true) (tm : Py) (x : Ex) : expandEC c tm x = expandE tm x := by
  cases x with
  | num n l => rfl
  | el e => rfl
  | agg g e => rfl
  | op f a b =>
    simp only [expandEC, expandE, vecEntriesC, vecEntriesE, matEntriesC, matEntriesE, termI_good c h]

section SemN
open BigOperators
variable {R : Type} [CommSemiring R]

/-- **C10 for nested equations, at full strength**, relative to the probed mechanism `c`: for EVERY operand tree `x`
(any depth, any shapes), time argument, commutative semiring and value assignment, the term of the clone of `x`
carrying index `idx` — including every term the dot product obtains from a compound operand through
`arrayed_term` — evaluates to the numpy entry `valD x idx`; scalar-valued trees without index to `valD x []`;
and every entry the expansion of an equation assigns is the numpy entry of the whole tree at that index. -/
def C10_nested_full (c : Cfg) : Prop :=
  ∀ (R : Type) [CommSemiring R] (O : Ops R) (ρ : String → R) (σ : Nat → V R) (tm : Py) (x : Ex), x.rankFree = true →
    (∀ idx p, x.arrEl = false → x.termI c tm (some idx) = some p →
      eval (car O ρ) σ p = .r (x.valD O ρ idx)) ∧
    (∀ p, x.arrEl = false → x.dims = some .val → x.termI c tm none = some p →
      eval (car O ρ) σ p = .r (x.valD O ρ [])) ∧
    (∀ r, expandEC c tm x = some r →
      (∀ p, r = .scalar p → eval (car O ρ) σ p = .r (x.valD O ρ [])) ∧
      (∀ nm es, r = .vector nm es → ∀ kp ∈ es, eval (car O ρ) σ kp.2 = .r (x.valD O ρ [kp.1])) ∧
      (∀ rows, r = .matrix rows → ∀ i j row p, rows[i]? = some row → row[j]? = some p →
        eval (car O ρ) σ p = .r (x.valD O ρ [.i i, .i j])))

theorem C10_nested_full_of_good (c : Cfg) (h : c.reindexAll = true) : C10_nested_full c := by
  intro R _ O ρ σ tm x hrf
  refine ⟨fun idx p ha hp => ?_, fun p ha hd hp => ?_, fun r hr => ?_⟩
  · rw [termI_good c h] at hp; exact (nested_spec O ρ σ tm x hrf).1 idx p ha hp
  · rw [termI_good c h] at hp; exact (nested_spec O ρ σ tm x hrf).2 p ha hd hp
  · rw [expandEC_good c h] at hr; exact expandE_spec O ρ σ tm x hrf r hr

variable (O : Ops R) (ρ : String → R) (σ : Nat → V R)

theorem mat_path (A : String) (m n i j : Nat) (hi : i < m) (hj : j < n) :
    (Elem.mat A m n).path [.i i, .i j] = some [.i i, .i j] := by
  have ha := mat_arrayed A m n (by omega)
  simp only [Elem.path, ha, if_true]
  simp [Elem.mat, findKey_range, hi, hj, rangeKeys_isEmpty]; omega

theorem vec_path (A : String) (m i : Nat) (hi : i < m) : (Elem.vec A m).path [.i i] = some [.i i] := by
  have ha := vec_arrayed A m (by omega)
  simp only [Elem.path, ha, if_true]
  simp [Elem.vec, findKey_range, hi]

/-- the entry matrix of an indexed matrix element is `valM` -/
theorem matD_el (A : String) (m n : Nat) : (Ex.el (Elem.mat A m n)).matD O ρ m n = valM ρ A m n := by
  funext i j
  have hm : 0 < m := Fin.pos i
  simp only [Ex.matD, Ex.valD, Elem.valAt, mat_arrayed A m n hm, if_true, mat_path A m n i j i.isLt j.isLt, valM]
  rfl

theorem vecD_el (v : String) (m : Nat) : (Ex.el (Elem.vec v m)).vecD O ρ m = valV ρ v m := by
  funext i
  have hm : 0 < m := Fin.pos i
  simp only [Ex.vecD, Ex.valD, Elem.valAt, vec_arrayed v m hm, if_true, vec_path v m i i.isLt, valV]
  rfl

theorem el_mat_dims (A : String) (m n : Nat) (hm : 0 < m) : (Ex.el (Elem.mat A m n)).dims = some (.d2 m n) := by
  have := mat_dims A m n hm
  simpa [Ex.dims, Operand.dims] using this

/-- `dot(A, f(u, w))[i] = Σ_k A[i][k] * f(u[k], w[k])` — matrix · (element-wise expression of two vector-valued
operand trees), all sizes, all trees `u`, `w`: the text produced for result entry `i` evaluates to the
matrix–vector product of `A` with the entry-wise `f` of the operands' entries -/
theorem dot_mv_ew (tm : Py) (A : String) (m n : Nat) (hn : n ≠ 0) (o : EwOp) (u w : Ex)
    (hu : u.dims = some (.d2 n 0)) (hw : w.dims = some (.d2 n 0)) (hur : u.rankFree = true) (hwr : w.rankFree = true)
    (i : Fin m) (p : Py)
    (h : (Ex.op .dot (.el (.mat A m n)) (.op (.ew o) u w)).term tm (some [.i i]) = some p) :
    eval (car O ρ) σ p = .r (Matrix.mulVec (valM ρ A m n)
      (fun k : Fin n => ewVal O o (u.valD O ρ [.i k]) (w.valD O ρ [.i k])) i) := by
  rw [(nested_spec O ρ σ tm (Ex.op .dot (.el (.mat A m n)) (.op (.ew o) u w)) (by simp [Ex.rankFree, hur, hwr])).1 [.i i] p rfl h]
  have hB : (Ex.op (.ew o) u w).dims = some (.d2 n 0) := by simp [Ex.dims, hu, hw, resolveEwD]
  rw [valD_dot_mv O ρ _ _ m n (.d2 n 0) hn rfl (el_mat_dims A m n (Fin.pos i)) hB i, matD_el]
  rfl

/-- matrix · (matrix-valued element-wise expression): `dot(A, f(U, W))[i][j] = Σ_k A[i][k] * f(U[k][j], W[k][j])` -/
theorem dot_mm_ew (tm : Py) (A : String) (m n q : Nat) (hn : n ≠ 0) (hq : q ≠ 0) (o : EwOp) (u w : Ex)
    (hu : u.dims = some (.d2 n q)) (hw : w.dims = some (.d2 n q)) (hur : u.rankFree = true) (hwr : w.rankFree = true)
    (i : Fin m) (j : Fin q) (p : Py)
    (h : (Ex.op .dot (.el (.mat A m n)) (.op (.ew o) u w)).term tm (some [.i i, .i j]) = some p) :
    eval (car O ρ) σ p = .r ((valM ρ A m n *
      (Matrix.of fun (k : Fin n) (l : Fin q) => ewVal O o (u.valD O ρ [.i k, .i l]) (w.valD O ρ [.i k, .i l]))) i j) := by
  rw [(nested_spec O ρ σ tm (Ex.op .dot (.el (.mat A m n)) (.op (.ew o) u w)) (by simp [Ex.rankFree, hur, hwr])).1 [.i i, .i j] p rfl h]
  have hB : (Ex.op (.ew o) u w).dims = some (.d2 n q) := by simp [Ex.dims, hu, hw, resolveEwD]
  rw [valD_dot_mm O ρ _ _ m n q hn hq (el_mat_dims A m n (Fin.pos i)) hB i j, matD_el]
  rfl

/-- dot ∘ dot: `A.dot(B.dot(x))[i] = (A *ᵥ (B *ᵥ x))[i]` for any vector-valued operand tree `x` -/
theorem dot_dot_mv (tm : Py) (A B : String) (m n q : Nat) (hn : n ≠ 0) (hq : q ≠ 0) (x : Ex) (d : Dims)
    (hd : d.isVec = true) (hx : x.dims = some d) (hr : d.rows = q) (hxr : x.rankFree = true) (i : Fin m) (p : Py)
    (h : (Ex.op .dot (.el (.mat A m n)) (.op .dot (.el (.mat B n q)) x)).term tm (some [.i i]) = some p) :
    eval (car O ρ) σ p = .r (Matrix.mulVec (valM ρ A m n) (Matrix.mulVec (valM ρ B n q) (x.vecD O ρ q)) i) := by
  rw [(nested_spec O ρ σ tm _ (by simp [Ex.rankFree, hxr])).1 [.i i] p rfl h]
  have hdv : d ≠ .val := by intro h'; subst h'; simp [Dims.isVec] at hd
  have hB : (Ex.op .dot (.el (.mat B n q)) x).dims = some (.d1 n) := by
    have hnp : 0 < n := Nat.pos_of_ne_zero hn
    have hBd := el_mat_dims B n q hnp
    simp only [Ex.dims] at hBd ⊢
    rw [hBd, hx]
    have hr' : q = d.rows := hr.symm
    simp only [resolveDotD, hdv, isVec_d2 n q hq, hd, Dims.snd, ← hr', reduceCtorEq, if_false, Bool.false_eq_true, if_true]
    simp [Dims.rows]
  rw [valD_dot_mv O ρ _ _ m n (.d1 n) hn rfl (el_mat_dims A m n (Fin.pos i)) hB i, matD_el]
  congr 2
  funext k
  have hnp : 0 < n := Fin.pos k
  simp only [Ex.vecD]
  rw [valD_dot_mv O ρ _ _ n q d hq hd (el_mat_dims B n q hnp) hx k, matD_el]

/-- element-wise ∘ dot: `(c ∘ A.dot(x))[i] = c[i] ∘ (A *ᵥ x)[i]` -/
theorem ew_dot_mv (tm : Py) (o : EwOp) (cE : Ex) (A : String) (m n : Nat) (hn : n ≠ 0) (x : Ex) (d : Dims)
    (hd : d.isVec = true) (hx : x.dims = some d) (hcr : cE.rankFree = true) (hxr : x.rankFree = true) (i : Fin m) (p : Py)
    (h : (Ex.op (.ew o) cE (.op .dot (.el (.mat A m n)) x)).term tm (some [.i i]) = some p) :
    eval (car O ρ) σ p = .r (ewVal O o (cE.valD O ρ [.i i]) (Matrix.mulVec (valM ρ A m n) (x.vecD O ρ n) i)) := by
  rw [(nested_spec O ρ σ tm _ (by simp [Ex.rankFree, hcr, hxr])).1 [.i i] p rfl h, valD_ew,
    valD_dot_mv O ρ _ _ m n d hn hd (el_mat_dims A m n (Fin.pos i)) hx i, matD_el]

end SemN

/-! ### the witness: switching `self.index` in place violates it -/

def wOps : Ops Nat := ⟨Nat.sub, Nat.div, id, fun _ => 0, fun _ _ => 0, id⟩
def wRho (s : String) : Nat := if s == "M[0][1]" || s == "a[1]" then 1 else 0
/-- `M.dot((a + b) + c)`, M 1×2, a b c of length 2 -/
def wX : Ex :=
  .op .dot (.el (.mat "M" 1 2)) (.op (.ew .add) (.op (.ew .add) (.el (.vec "a" 2)) (.el (.vec "b" 2))) (.el (.vec "c" 2)))
def rOf : V Nat → Option Nat
  | .r x => some x
  | _ => none

theorem wX_bad_value :
    (wX.termI ⟨false⟩ tNow (some [.i 0])).map (fun p => rOf (eval (car wOps wRho) (fun _ => .bad) p)) = some (some 0) := by
  decide +kernel

theorem wX_good_value :
    (wX.termI ⟨true⟩ tNow (some [.i 0])).map (fun p => rOf (eval (car wOps wRho) (fun _ => .bad) p)) = some (some 1) := by
  decide +kernel

theorem wX_numpy : wX.valD wOps wRho [.i 0] = 1 := by decide +kernel

/-- **witness**: when `arrayed_term` only switches the operand's own index (nested operators keep the outer result
index), `M.dot((a+b)+c)` with M 1×2 evaluates entry 0 to `M[0][0]*((a[0]+b[0])+c[0]) + M[0][1]*((a[0]+b[0])+c[1])`
— 0 instead of numpy's 1 for `M[0][1] = a[1] = 1`, all other entries 0 -/
theorem C10_nested_witness (c : Cfg) (h : c.reindexAll = false) : ¬ C10_nested_full c := by
  cases c with
  | mk r =>
    simp only at h; subst h
    intro hf
    have h1 := (hf Nat wOps wRho (fun _ => .bad) tNow wX rfl).1 [.i 0]
    have hb := wX_bad_value
    cases hp : wX.termI ⟨false⟩ tNow (some [.i 0]) with
    | none => rw [hp] at hb; simp at hb
    | some p =>
      rw [hp] at hb
      simp only [Option.map_some, Option.some.injEq] at hb
      have := h1 p rfl hp
      rw [this, wX_numpy] at hb
      simp [rOf] at hb

/-! ## 8. Wave 6 — mismatching shapes are rejected, never evaluated (operand trees; probed comparison) -/

/-- numpy's shape of an operand tree, by numpy's own rules (`npEw`, `npDot`), independent of the code -/
def Ex.npShape : Ex → Option Shape
  | .num _ _ => some .sc
  | .agg _ _ => some .sc
  | .el e => some (elemDims e).shape
  | .op f a b =>
    match a.npShape, b.npShape with
    | some s, some t => (match f with | .dot => npDot s t | _ => npEw s t)
    | _, _ => none

/-- the element-wise build succeeds iff one side is a value or the resolved dimensions agree -/
theorem resolveEwD_some_iff (d1 d2 : Dims) :
    (resolveEwD d1 d2).isSome = true ↔ (d1 = .val ∨ d2 = .val ∨ d1 = d2) := by
  unfold resolveEwD
  by_cases h1 : d1 = .val <;> by_cases h2 : d2 = .val <;> by_cases h3 : d1 = d2 <;> simp_all

/-- dot succeeds iff not both are values and, for two arrays, the inner dimensions agree -/
theorem resolveDotD_some_iff (d1 d2 : Dims) :
    (resolveDotD d1 d2).isSome = true ↔
      (¬ (d1 = .val ∧ d2 = .val) ∧
        (d1 = .val ∨ d2 = .val ∨ (if d1.isVec then d1.rows = d2.rows else d1.snd = d2.rows))) := by
  unfold resolveDotD
  by_cases h1 : d1 = .val <;> by_cases h2 : d2 = .val <;> simp [h1, h2]
  cases hv1 : d1.isVec <;> cases hv2 : d2.isVec <;> simp <;> split <;> simp_all

theorem isVec_shape (d : Dims) (h : d.isVec = true) : d.shape = .v d.rows := by
  cases d with
  | val => simp [Dims.isVec] at h
  | d1 m => rfl
  | d2 m n =>
    cases n with
    | zero => rfl
    | succ n => simp [Dims.isVec] at h

theorem notVec_shape (d : Dims) (h : d.isVec = false) (hv : d ≠ .val) : d.shape = .mx d.rows d.snd ∧ d.snd ≠ 0 := by
  cases d with
  | val => exact absurd rfl hv
  | d1 m => simp [Dims.isVec] at h
  | d2 m n =>
    cases n with
    | zero => simp [Dims.isVec] at h
    | succ n => simp [Dims.shape, Dims.rows, Dims.snd]

theorem shape_sc (d : Dims) : d.shape = .sc ↔ d = .val := by
  cases d with
  | val => simp [Dims.shape]
  | d1 m => simp [Dims.shape]
  | d2 m n => simp [Dims.shape]; split <;> simp

theorem resolveEwD_shape (d1 d2 d : Dims) (h : resolveEwD d1 d2 = some d) : npEw d1.shape d2.shape = some d.shape := by
  unfold resolveEwD at h
  by_cases h1 : d1 = .val
  · subst h1
    simp at h; subst h
    simp [Dims.shape, npEw]
  · by_cases h2 : d2 = .val
    · subst h2
      simp [h1] at h; subst h
      have : d1.shape ≠ .sc := fun hs => h1 ((shape_sc d1).mp hs)
      cases hs : d1.shape <;> simp_all [Dims.shape, npEw]
    · simp [h1, h2] at h
      obtain ⟨he, rfl⟩ := h
      subst he
      have : d1.shape ≠ .sc := fun hs => h1 ((shape_sc d1).mp hs)
      cases hs : d1.shape <;> simp_all [npEw]

theorem resolveDotD_shape (d1 d2 d : Dims) (h : resolveDotD d1 d2 = some d) : npDot d1.shape d2.shape = some d.shape := by
  unfold resolveDotD at h
  by_cases h1 : d1 = .val
  · subst h1
    by_cases h2 : d2 = .val
    · subst h2; simp at h
    · simp [h2] at h; subst h
      have : d2.shape ≠ .sc := fun hs => h2 ((shape_sc d2).mp hs)
      cases hs : d2.shape <;> simp_all [Dims.shape, npDot]
  · by_cases h2 : d2 = .val
    · subst h2
      simp [h1] at h; subst h
      have : d1.shape ≠ .sc := fun hs => h1 ((shape_sc d1).mp hs)
      cases hs : d1.shape <;> simp_all [Dims.shape, npDot]
    · simp only [h1, h2, if_false] at h
      cases hv1 : d1.isVec with
      | true =>
        cases hv2 : d2.isVec with
        | true =>
          simp only [hv1, hv2, if_true] at h
          rw [isVec_shape d1 hv1, isVec_shape d2 hv2]
          split at h
          · next he => simp only [Option.some.injEq] at h; subst h; simp [npDot, he, Dims.shape]
          · simp at h
        | false =>
          simp only [hv1, hv2, if_true, Bool.false_eq_true, if_false] at h
          obtain ⟨hs2, hn2⟩ := notVec_shape d2 hv2 h2
          rw [isVec_shape d1 hv1, hs2]
          split at h
          · next he => simp only [Option.some.injEq] at h; subst h; simp [npDot, he, Dims.shape]
          · simp at h
      | false =>
        obtain ⟨hs1, hn1⟩ := notVec_shape d1 hv1 h1
        cases hv2 : d2.isVec with
        | true =>
          simp only [hv1, hv2, if_true, Bool.false_eq_true, if_false] at h
          rw [hs1, isVec_shape d2 hv2]
          split at h
          · next he => simp only [Option.some.injEq] at h; subst h; simp [npDot, he, Dims.shape]
          · simp at h
        | false =>
          simp only [hv1, hv2, Bool.false_eq_true, if_false] at h
          obtain ⟨hs2, hn2⟩ := notVec_shape d2 hv2 h2
          rw [hs1, hs2]
          split at h
          · next he => simp only [Option.some.injEq] at h; subst h; simp [npDot, he, Dims.shape, hn2]
          · simp at h

/-- **accepted ⇒ numpy's shape**, for every operand tree: when `resolve_dimensions` succeeds anywhere in the tree,
numpy's rules give exactly the shape the resolved dimensions stand for -/
theorem dims_npShape (x : Ex) : ∀ d, x.dims = some d → x.npShape = some d.shape := by
  induction x with
  | num n l => intro d h; simp only [Ex.dims, Option.some.injEq] at h; subst h; rfl
  | agg g e => intro d h; simp only [Ex.dims, Option.some.injEq] at h; subst h; rfl
  | el e => intro d h; simp only [Ex.dims, Option.some.injEq] at h; subst h; rfl
  | op f a b iha ihb =>
    intro d h
    simp only [Ex.dims] at h
    cases hda : a.dims with
    | none => simp [hda] at h
    | some d1 =>
      cases hdb : b.dims with
      | none => simp [hda, hdb] at h
      | some d2 =>
        simp only [hda, hdb] at h
        simp only [Ex.npShape, iha d1 hda, ihb d2 hdb]
        cases f with
        | dot => exact resolveDotD_shape d1 d2 d h
        | ew o => exact resolveEwD_shape d1 d2 d h
        | nmul => exact resolveEwD_shape d1 d2 d h

/-- an expansion needs resolved dimensions -/
theorem expandE_dims (tm : Py) (x : Ex) (r : Result) (h : expandE tm x = some r) : ∃ d, x.dims = some d := by
  cases x with
  | num n l => simp [expandE] at h
  | el e => simp [expandE] at h
  | agg g e => simp [expandE] at h
  | op f a b =>
    simp only [expandE] at h
    split at h
    · simp at h
    · split at h
      · next hna =>
        simp only [Option.map_eq_some_iff] at h
        obtain ⟨p, hp, _⟩ := h
        exact ⟨.val, term_none_dims tm _ (by simpa using hna) p hp⟩
      · cases hd : (Ex.op f a b).dims with
        | none => simp [hd] at h
        | some d => exact ⟨d, rfl⟩

/-- **mismatching shapes are rejected, never evaluated**: an equation whose operand tree has no numpy shape (some
element-wise node with two arrays of different shapes, some dot node with disagreeing inner dimensions or two
values — at ANY depth) has no expansion: no entry, no text, no value -/
theorem expandE_rejects (tm : Py) (x : Ex) (h : x.npShape = none) : expandE tm x = none := by
  cases he : expandE tm x with
  | none => rfl
  | some r =>
    obtain ⟨d, hd⟩ := expandE_dims tm x r he
    rw [dims_npShape x d hd] at h
    simp at h

theorem dimsC_good (c : DimCfg) (h : c.checkEw = true) (x : Ex) : x.dimsC c = x.dims := by
  induction x with
  | num n l => rfl
  | el e => rfl
  | agg g e => rfl
  | op f a b iha ihb => cases f <;> simp [Ex.dimsC, Ex.dims, iha, ihb, h]

/-- the rejection clause relative to the probed comparison: whatever `resolve_dimensions` accepts has a numpy shape -/
def C10_rejects (c : DimCfg) : Prop :=
  ∀ (x : Ex) (d : Dims), x.dimsC c = some d → x.npShape = some d.shape

theorem C10_rejects_of_good (c : DimCfg) (h : c.checkEw = true) : C10_rejects c := by
  intro x d hd
  rw [dimsC_good c h] at hd
  exact dims_npShape x d hd

/-- 2×2 + 2×3 -/
def wRej : Ex := .op (.ew .add) (.el (.mat "A" 2 2)) (.el (.mat "B" 2 3))

/-- **witness**: when the element-wise `resolve_dimensions` returns the first array's dimensions without comparing,
`2x2 + 2x3` (which passes the constructor: same row count) resolves to `[2, 2]` although numpy has no shape for it -/
theorem C10_rejects_witness (c : DimCfg) (h : c.checkEw = false) : ¬ C10_rejects c := by
  cases c with
  | mk r =>
    simp only at h; subst h
    intro hf
    have h1 : wRej.dimsC ⟨false⟩ = some (.d2 2 2) := by decide +kernel
    have h2 : wRej.npShape = none := by decide +kernel
    have := hf wRej _ h1
    rw [h2] at this
    simp at this

/-! ## 9. Wave 7 — the result of an arrayed equation does not depend on what the target held before -/

/-- relative to the probed mechanism: after an arrayed equation was accepted, the target has exactly the entries of
the result (keys, columns, index names) whatever sub-elements it had before -/
def C10_target_full (c : TgtCfg) : Prop :=
  ∀ (old : Elem) (r : Result), r.isArr = true →
    (targetAfter c old r).keys = (r.descr old.name).keys ∧ (targetAfter c old r).inner = (r.descr old.name).inner ∧
      (targetAfter c old r).named = (r.descr old.name).named

theorem C10_target_full_of_good (c : TgtCfg) (h : c.resetTarget = true) (h2 : c.resetSameLayout = true) :
    C10_target_full c := by
  intro old r hr
  cases r with
  | scalar p => simp [Result.isArr] at hr
  | vector nm es => simp [targetAfter, h, h2]
  | matrix rows => simp [targetAfter, h, h2]

/-- **witness**: without the reset a 3-vector target assigned a 2-vector result keeps three entries -/
theorem C10_target_witness (c : TgtCfg) (h : c.resetTarget = false) : ¬ C10_target_full c := by
  cases c with
  | mk r l =>
    simp only at h; subst h
    intro hf
    have := (hf (Elem.vec "R" 3) (.vector false [(.i 0, .num "1"), (.i 1, .num "2")]) rfl).1
    revert this
    cases l <;> decide +kernel

/-- **witness** for a reset conditioned on the layout alone: a target holding a named vector over `north, south` that is
assigned a named-vector result over `east, coast` (same length, same kind of index) ends up with four entries — the
key set of the target is not the key set of the equation -/
theorem C10_target_witness_layout (c : TgtCfg) (h : c.resetSameLayout = false) : ¬ C10_target_full c := by
  cases c with
  | mk r l =>
    simp only at h; subst h
    intro hf
    have := (hf { name := "R", keys := [.s "north", .s "south"], inner := [], named := true }
      (.vector true [(.s "east", .num "1"), (.s "coast", .num "2")]) rfl).1
    revert this
    cases r <;> decide +kernel

/-- every kind of target that accepts an arrayed equation shows the entries of the equation -/
def C10_target_kinds (c : KindCfg) : Prop :=
  ∀ (α : Type) (zero v : α) (k : TKind), targetEntry c zero k v = v

theorem C10_target_kinds_of_good (c : KindCfg) (h : c.constantKeepsEquation = true) : C10_target_kinds c := by
  intro α zero v k
  cases k <;> simp [targetEntry, h]

/-- **witness** (known finding `constant-target-operator-dropped`): a Constant target accepts the equation and shows 0 -/
theorem C10_target_kinds_witness (c : KindCfg) (h : c.constantKeepsEquation = false) : ¬ C10_target_kinds c := by
  intro hf
  have := hf Nat 0 1 .constant
  simp [targetEntry, h] at this

/-! ## C10 at full strength (for the modelled operand kinds) -/

/-- The wave-2 clauses of `C10_full`.  For ALL operand TREES `x` (numbers, elements, operators over such
operands to any depth), time arguments `tm` printable as a call argument (`t`, `t-model.dt`), stocks `s`,
commutative semirings and value assignments:
* (matrix aggregates) mean/median/std of ANY arrayed element — vector or matrix, indexed or named — receive
  exactly the row-major entry list;
* (nested syntax) every entry of a nested expansion is well-levelled and parses back to the modelled tree;
* (nested semantics) the term of the clone of `x` with index `idx` — at every level, including what the dot
  product obtains from a compound operand through `arrayed_term` — evaluates to the numpy entry `valD x idx`
  (`nested_spec`), hence every entry `expandE` assigns is that entry (`expandE_spec`); `valD` is element-wise
  at `+ - * /` nodes and `Matrix.mul` / `mulVec` / `vecMul` / `dotProduct` of the operands' entry matrices
  at `dot` nodes, for operand trees of any depth;
* (conservativity) on flat operands `expandE` is the wave-1 `expand`;
* (Stock branch) every sub-stock the branch assigns is the one stored under the index its flow was cloned
  with, the flow evaluates to the numpy entry at that index, and the stock function string around it is
  well-levelled and parses; the element branch assigns references to the sub-elements of the equation;
* (explicit dimension) `arr_sum(d)` / `arr_prod(d)` is refused below the depth of the entries and otherwise
  the `"*"` aggregate. -/
def C10_wave2 : Prop :=
  (∀ (R : Type) [CommSemiring R] (O : Ops R) (ρ : String → R) (σ : Nat → V R),
    (∀ (e : Elem) (fn : String), eval (car O ρ) σ (npCall fn e.display) = .r (O.fn fn (e.vals ρ))) ∧
    (∀ (tm : Py) (x : Ex), x.rankFree = true → (∀ idx p, x.arrEl = false → x.term tm (some idx) = some p →
        eval (car O ρ) σ p = .r (x.valD O ρ idx)) ∧
      (∀ p, x.arrEl = false → x.dims = some .val → x.term tm none = some p →
        eval (car O ρ) σ p = .r (x.valD O ρ []))) ∧
    (∀ (tm : Py) (x : Ex) (r : Result), x.rankFree = true → expandE tm x = some r →
      (∀ p, r = .scalar p → eval (car O ρ) σ p = .r (x.valD O ρ [])) ∧
      (∀ nm es, r = .vector nm es → ∀ kp ∈ es, eval (car O ρ) σ kp.2 = .r (x.valD O ρ [kp.1])) ∧
      (∀ rows, r = .matrix rows → ∀ i j row p, rows[i]? = some row → row[j]? = some p →
        eval (car O ρ) σ p = .r (x.valD O ρ [.i i, .i j]))) ∧
    (∀ (o : EwOp) (a b : Ex) (idx : List Key), (Ex.op (.ew o) a b).valD O ρ idx = ewVal O o (a.valD O ρ idx) (b.valD O ρ idx)) ∧
    (∀ (a b : Ex) (idx : List Key), (Ex.op .nmul a b).valD O ρ idx = b.valD O ρ idx * a.valD O ρ idx) ∧
    (∀ (a b : Ex) (m n p : Nat), n ≠ 0 → p ≠ 0 → a.dims = some (.d2 m n) → b.dims = some (.d2 n p) → ∀ (i : Fin m) (j : Fin p),
      (Ex.op .dot a b).valD O ρ [.i i, .i j] = (a.matD O ρ m n * b.matD O ρ n p) i j) ∧
    (∀ (a b : Ex) (m n : Nat) (d : Dims), n ≠ 0 → d.isVec = true → a.dims = some (.d2 m n) → b.dims = some d → ∀ (i : Fin m),
      (Ex.op .dot a b).valD O ρ [.i i] = Matrix.mulVec (a.matD O ρ m n) (b.vecD O ρ n) i) ∧
    (∀ (a b : Ex) (m n : Nat) (d : Dims), n ≠ 0 → d.isVec = true → d.rows = m → a.dims = some d → b.dims = some (.d2 m n) → ∀ (j : Fin n),
      (Ex.op .dot a b).valD O ρ [.i j] = Matrix.vecMul (a.vecD O ρ m) (b.matD O ρ m n) j) ∧
    (∀ (a b : Ex) (m : Nat) (d d' : Dims), d.isVec = true → d'.isVec = true → d.rows = m → a.dims = some d → b.dims = some d' → ∀ idx,
      (Ex.op .dot a b).valD O ρ idx = dotProduct (a.vecD O ρ m) (b.vecD O ρ m)) ∧
    (∀ (s : Elem) (x : Ex) (l : List (List Key × Py)), x.rankFree = true → stockAssign s x = some l →
      ∀ e ∈ l, G6 e.2 ∧ ∃ idx, s.path idx = some e.1 ∧ eval (car O ρ) σ e.2 = .r (x.valD O ρ idx))) ∧
  (∀ (tm : Py), TmOK tm → ∀ (x : Ex) (r : Result), expandE tm x = some r → ∀ p ∈ r.exprs, WLb 0 p = true ∧ Parses (pr p) p) ∧
  (TmOK tNow ∧ TmOK tPrev) ∧
  (∀ (f : Form) (a b : Operand), expandE tNow (Ex.op f (.ofOperand a) (.ofOperand b)) = expand f a b) ∧
  (∀ (nm : String) (init p : Py), WLb 0 init = true → WLb 0 p = true →
    WLb 0 (stockFs nm init (some p)) = true ∧ Parses (pr (stockFs nm init (some p))) (stockFs nm init (some p))) ∧
  (∀ (s e : Elem) (l : List (List Key × Py)), stockAssignEl s e = some l → ∀ q ∈ l, ∃ pe, q.2 = refT tPrev e.name pe) ∧
  (∀ (g : Agg) (dim : Nat) (e : Elem) (p : Py), aggDim g dim e = some p →
    (g = .sum ∨ g = .prod) ∧ aggTerm g e = some p ∧ (e.arrayed = true → e.depth ≤ dim)) ∧
  (∀ (g : Agg) (dim : Nat) (e : Elem), e.arrayed = true → dim < e.depth → aggDim g dim e = none)

theorem C10_wave2_holds : C10_wave2 := by
  refine ⟨?_, fun tm htm x r h p hp => ⟨expandE_wl tm htm x r h p hp, expandE_parses tm htm x r h p hp⟩,
    ⟨tNow_ok, tPrev_ok⟩, expandE_flat,
    fun nm init p hi hp => ⟨stockFs_wl nm init p hi hp, stockFs_parses nm init p hi hp⟩,
    stockAssignEl_refs, aggDim_spec, aggDim_none⟩
  intro R _ O ρ σ
  exact ⟨agg_args O ρ σ, fun tm x hrf => nested_spec O ρ σ tm x hrf, fun tm x r hrf h => expandE_spec O ρ σ tm x hrf r h,
    valD_ew O ρ, valD_nmul O ρ,
    fun a b m n p hn hp ha hb i j => valD_dot_mm O ρ a b m n p hn hp ha hb i j,
    fun a b m n d hn hd ha hb i => valD_dot_mv O ρ a b m n d hn hd ha hb i,
    fun a b m n d hn hd hr ha hb j => valD_dot_vm O ρ a b m n d hn hd hr ha hb j,
    fun a b m d d' hd hd' hr ha hb idx => valD_dot_vv O ρ a b m d d' hd hd' hr ha hb idx,
    fun s x l hrf h => stockAssign_spec O ρ σ s x hrf l h⟩

/-- For ALL operator forms, operands (numbers, scalar elements, vectors and matrices of any size,
indexed or named), indices, commutative semirings `R` and value assignments `ρ`:
* (syntax) every emitted per-element expression and every aggregate expression is well-levelled and its
  printed text parses (CPython precedence) back to exactly the modelled tree;
* (element-wise) the expression at index `idx` evaluates to `A[idx] ∘ B[idx]` with scalars broadcast;
* (number*array) to `x * A[idx]`;
* (dot) matrix·matrix = `Matrix.mul`, matrix·vector = `mulVec`, vector·matrix = `vecMul`,
  vector·vector = `dotProduct`, array·scalar = entry times value;
* (aggregates) sum / product evaluate to the list sum / product of all entries in row-major order (for an
  indexed matrix: Mathlib's double sum); rank sorts exactly the row-major entry list and indexes it with
  `count-1` if `k<0 ∨ k>count` else `k-1`; mean/median/std of a vector receive exactly the entry list;
  size is the number of outer keys;
* (shapes) resolved dimensions = numpy's result shape for every pair of shapes, every mismatch (incl. 1×N,
  N×1, 1×1) is a rejection, and a refused constructor check / resolution rejects the whole equation;
* the entries of a matrix / vector result are the per-index terms the clauses above speak about. -/
def C10_full : Prop :=
  (∀ f a b r, expand f a b = some r → ∀ p ∈ r.exprs, WLb 0 p = true ∧ Parses (pr p) p) ∧
  (∀ g e p, aggTerm g e = some p → WLb 0 p = true ∧ Parses (pr p) p) ∧
  (∀ (R : Type) [CommSemiring R] (O : Ops R) (ρ : String → R) (σ : Nat → V R),
    (∀ o a b idx p, termAt (.ew o) a b idx = some p →
      ∃ x y, a.valAt O ρ idx = some x ∧ b.valAt O ρ idx = some y ∧ eval (car O ρ) σ p = .r (ewVal O o x y)) ∧
    (∀ a b idx p, termAt .nmul a b idx = some p →
      ∃ x y, a.valAt O ρ idx = some x ∧ b.valAt O ρ idx = some y ∧ eval (car O ρ) σ p = .r (y * x)) ∧
    (∀ A B m n p, 0 < n → ∀ (i : Fin m) (j : Fin p),
      ∃ e, termAt .dot (.el (.mat A m n)) (.el (.mat B n p)) [.i i, .i j] = some e ∧
        eval (car O ρ) σ e = .r ((valM ρ A m n * valM ρ B n p) i j)) ∧
    (∀ A v m n, 0 < n → ∀ (i : Fin m),
      ∃ e, termAt .dot (.el (.mat A m n)) (.el (.vec v n)) [.i i] = some e ∧
        eval (car O ρ) σ e = .r (Matrix.mulVec (valM ρ A m n) (valV ρ v n) i)) ∧
    (∀ v A m n, 0 < m → ∀ (j : Fin n),
      ∃ e, termAt .dot (.el (.vec v m)) (.el (.mat A m n)) [.i j] = some e ∧
        eval (car O ρ) σ e = .r (Matrix.vecMul (valV ρ v m) (valM ρ A m n) j)) ∧
    (∀ v w m, 0 < m →
      ∃ e, termNoIndex .dot (.el (.vec v m)) (.el (.vec w m)) = some e ∧
        eval (car O ρ) σ e = .r (dotProduct (valV ρ v m) (valV ρ w m))) ∧
    (∀ a b idx p, b.dims = .val → a.dims ≠ .val → termAt .dot a b idx = some p →
      ∃ x y, a.valAt O ρ idx = some x ∧ b.valAt O ρ idx = some y ∧ eval (car O ρ) σ p = .r (x * y)) ∧
    (∀ e p, e.arrayed = true → aggTerm .sum e = some p → eval (car O ρ) σ p = .r (e.vals ρ).sum) ∧
    (∀ e p, e.arrayed = true → aggTerm .prod e = some p → eval (car O ρ) σ p = .r (e.vals ρ).prod) ∧
    (∀ A m n, 0 < n → ((Elem.mat A m n).vals ρ).sum = ∑ i : Fin m, ∑ j : Fin n, valM ρ A m n i j) ∧
    (∀ e neg k, e.arrayed = true →
      aggTerm (.rank neg k) e = some (.index (sortedCall e) (rankIndexPy neg k e.count)) ∧
        eval (car O ρ) σ (sortedCall e) = .lst (O.sortDesc (e.vals ρ))) ∧
    (∀ (e : Elem) (fn : String), e.inner.isEmpty = true →
      eval (car O ρ) σ (npCall fn e.display) = .r (O.fn fn (e.vals ρ)))) ∧
  (∀ (nv : String → Int) (neg : Bool) (k count : Nat), nv "0" = 0 → nv "1" = 1 → nv (toString k) = (k : Int) → nv (toString count) = (count : Int) →
    evZ nv (rankIndexPy neg k count) = rankIndex (if neg then -(k : Int) else k) count) ∧
  (∀ e, e.arrayed = true → aggTerm .size e = some (natPy e.keys.length)) ∧
  (∀ f a b s t, Shape.ok s → Shape.ok t → a.dims = s.dims → b.dims = t.dims →
    (resolve f a b).map Dims.shape = (match f with | .dot => npDot s t | _ => npEw s t)) ∧
  (∀ f a b, (a.arrayed || b.arrayed) = true → resolve f a b = none → expand f a b = none) ∧
  (∀ f a b, ctorOK f a b = false → expand f a b = none) ∧
  (∀ f a b m n rows, matEntries f a b m n = some rows → ∀ i j row p, rows[i]? = some row → row[j]? = some p →
    termAt f a b [.i i, .i j] = some p) ∧
  (∀ f a b m es, vecEntries f a b false m = some es → ∀ i kp, es[i]? = some kp →
    kp.1 = .i i ∧ termAt f a b [.i i] = some kp.2) ∧
  -- wave 2
  C10_wave2 ∧
  -- wave 3: history independence of uses on one model
  (∀ (st : Store) (h : List HOp), (runHist st h).1 = (runHist st (h.filter HOp.isSetup)).1) ∧
  (∀ (st : Store) (h : List HOp) (x : RefEx), (runHist st (h ++ [.use x])).2 =
      (runHist st h).2 ++ [.res (expandE tNow (x.resolve (runHist st (h.filter HOp.isSetup)).1))]) ∧
  (∀ (st : Store) (h : List HOp) (g : Agg) (nm : String), (runHist st (h ++ [.agg g nm])).2 =
      (runHist st h).2 ++ [.term (aggTerm g ((runHist st (h.filter HOp.isSetup)).1.get nm))]) ∧
  -- wave 5: nested equations under the mechanism of the repaired code
  C10_nested_full ⟨true⟩ ∧
  -- wave 6: mismatching shapes are rejected, never evaluated — operand trees of any depth
  C10_rejects ⟨true⟩ ∧
  (∀ (tm : Py) (x : Ex), x.npShape = none → expandE tm x = none) ∧
  (∀ d1 d2 : Dims, (resolveEwD d1 d2).isSome = true ↔ (d1 = .val ∨ d2 = .val ∨ d1 = d2)) ∧
  (∀ d1 d2 : Dims, (resolveDotD d1 d2).isSome = true ↔
      (¬ (d1 = .val ∧ d2 = .val) ∧
        (d1 = .val ∨ d2 = .val ∨ (if d1.isVec then d1.rows = d2.rows else d1.snd = d2.rows)))) ∧
  -- wave 7: the target holds exactly the result's entries (mechanism of the repaired code)
  C10_target_full ⟨true, true⟩

theorem C10_full_holds : C10_full := by
  refine ⟨fun f a b r h p hp => ⟨expand_wl f a b r h p hp, expand_parses f a b r h p hp⟩,
    fun g e p h => ⟨aggTerm_wl g e p h, aggTerm_parses g e p h⟩, ?_, ?_, size_spec, dims_spec,
    expand_none_of_resolve, expand_none_of_ctor, matEntries_entry, vecEntries_entry, C10_wave2_holds,
    runHist_store, use_after_history, agg_after_history,
    C10_nested_full_of_good ⟨true⟩ rfl, C10_rejects_of_good ⟨true⟩ rfl, expandE_rejects,
    resolveEwD_some_iff, resolveDotD_some_iff, C10_target_full_of_good ⟨true, true⟩ rfl rfl⟩
  · intro R _ O ρ σ
    exact ⟨elementwise_spec O ρ σ, nmul_spec O ρ σ, dot_mm O ρ σ, dot_mv O ρ σ, dot_vm O ρ σ, dot_vv O ρ σ,
      fun a b idx p hb ha h => dot_scalar_right O ρ σ a b idx hb ha p h,
      fun e p ha h => sum_spec O ρ σ e p ha h, fun e p ha h => prod_spec O ρ σ e p ha h,
      mat_vals_sum ρ, fun e neg k ha => rank_args O ρ σ e neg k ha, fun e fn hi => agg_args_vec O ρ σ e fn hi⟩
  · exact rank_index_spec

/-! ### non-vacuity: concrete instances computed by the kernel -/

example : (expand .dot (.el (.mat "A" 2 3)) (.el (.mat "B" 3 2))).map (fun r => r.exprs.length) = some 4 ∧
    (expand .dot (.el (.mat "A" 2 3)) (.el (.mat "B" 2 3))) = none ∧
    (expand (.ew .add) (.el (.vec "v" 3)) (.el (.mat "A" 3 1))) = none ∧
    (expand (.ew .add) (.el (.vec "v" 3)) (.el (.mat "A" 1 3))) = none ∧
    (expand .nmul (.num false "2.0") (.el (.mat "A" 1 1))).map (fun r => r.exprs.map pr)
      = some [[.lp, .name "model", .dot, .name "memoize", .lp, .str "A[0][0]", .comma, .name "t", .rp, .rp,
               .op .mul, .lp, .num "2.0", .rp]] := by decide +kernel

/-- over ℕ with `ρ` = length of the reference name: (1×2 · 2) evaluates to 4·4 + 7·4 … computed -/
example : (match dotTerm (.el (.mat "A" 1 2)) (.el (.vec "v" 2)) [.i 0] with
    | some e => (match eval (car (R := Nat) ⟨Nat.sub, Nat.div, id, fun _ => 0, fun _ _ => 0, id⟩ String.length) (fun _ => .bad) e with
        | .r x => x
        | _ => 0)
    | none => 0) = 7 * 4 + 7 * 4 := by decide +kernel

/-- wave 2 non-vacuity: a depth-3 nested dot product is accepted and its first entry is the modelled token
list; the same tree with a mismatching inner shape is rejected; an arrayed stock receives per-index flows at
`t-model.dt`; `arr_sum(1)` of a matrix is refused, `arr_sum(2)` is the full chain. -/
example :
    (expandE tNow (.op .dot (.el (.mat "M" 1 2)) (.op (.ew .add) (.op (.ew .add) (.el (.vec "a" 2)) (.el (.vec "b" 2))) (.el (.vec "c" 2))))).map
        (fun r => r.exprs.length) = some 1 ∧
    (expandE tNow (.op .dot (.el (.mat "M" 1 2)) (.op (.ew .add) (.op (.ew .add) (.el (.vec "a" 2)) (.el (.vec "b" 3))) (.el (.vec "c" 2))))) = none ∧
    (stockAssign (.vec "S" 2) (.op (.ew .mul) (.el (.vec "a" 2)) (.op (.ew .sub) (.el (.vec "b" 2)) (.num false "2.0")))).map
        (fun l => l.map (·.1)) = some [[.i 0], [.i 1]] ∧
    aggDim .sum 1 (.mat "A" 2 2) = none ∧
    (aggDim .sum 2 (.mat "A" 2 2)).isSome = true := by decide +kernel

#print axioms C10_full_holds
#print axioms C10_wave2_holds
#print axioms C10_nested_full_of_good
#print axioms C10_nested_witness
#print axioms C10_rejects_of_good
#print axioms C10_rejects_witness
#print axioms C10_target_full_of_good
#print axioms C10_target_witness
#print axioms C10_target_witness_layout
#print axioms C10_target_kinds_of_good
#print axioms C10_target_kinds_witness
#print axioms expandE_rejects
#print axioms aggTermT_eval
#print axioms dot_mv_ew
#print axioms dot_dot_mv
#print axioms agg_args_mat
#print axioms use_after_history
#print axioms runHist_store
#print axioms nested_spec
#print axioms expandE_spec
#print axioms expandE_flat
#print axioms agg_args
#print axioms stockAssign_spec
#print axioms valD_dot_mm
#print axioms expand_wl
#print axioms dot_mm
#print axioms dims_spec

end Bptk.C10
