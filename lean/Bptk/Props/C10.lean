import Bptk.Core.C10
import Bptk.Proofs.PyFrag
import Bptk.Props.C02
import Mathlib.Data.Matrix.Mul
import Mathlib.Algebra.BigOperators.Fin
/-!
C10 — arrayed equations compute what the same numpy operation computes.

Quantifiers: all shapes `m n p : Nat`, all indices, all element names, all value assignments
`ρ : String → R` over an arbitrary commutative semiring `R` (subtraction, division, negation and the
reading of number literals are arbitrary functions) — no bound anywhere.

1. `expand_wl`, `aggTerm_wl`: every expression the model produces is well-levelled, hence
   (`expand_parses`, via A1's `parse_print`) the printed text parses back to exactly that tree.
2. semantics of the parsed tree (`eval` of C02 with the arithmetic carrier `car`):
   `elementwise_spec`, `nmul_spec`, `dot_mm`, `dot_mv`, `dot_vm`, `dot_vv`, `dot_scalar`, `sum_spec`,
   `prod_spec`, `agg_args`, `rank_args`, `rank_index_spec`, `size_spec`, `dims_spec`.
-/
namespace Bptk.C10
open Bptk.Py

/-! ## 1. Well-levelledness -/

@[simp] theorem lvlH_paren (L : Nat) (e : Py) : lvlH L (.paren e) = 100 := rfl
@[simp] theorem lvlH_bin (L : Nat) (k : BinOp) (l r : Py) : lvlH L (.bin k l r) = bp k := rfl
@[simp] theorem lvlH_num (L : Nat) (s : String) : lvlH L (.num s) = 100 := rfl
@[simp] theorem lvlH_neg (L : Nat) (e : Py) : lvlH L (.neg e) = 7 := rfl
@[simp] theorem lvlH_call (L : Nat) (f : Py) (as : List Py) : lvlH L (.call f as) = 100 := rfl
@[simp] theorem lvlH_index (L : Nat) (e i : Py) : lvlH L (.index e i) = 100 := rfl
@[simp] theorem lvlH_attr (L : Nat) (e : Py) (a : String) : lvlH L (.attr e a) = 100 := rfl
@[simp] theorem lvlH_name (L : Nat) (s : String) : lvlH L (.name s) = 100 := rfl
@[simp] theorem lvlH_str (L : Nat) (s : String) : lvlH L (.str s) = 100 := rfl
@[simp] theorem lvlH_list (L : Nat) (es : List Py) : lvlH L (.list es) = 100 := rfl
@[simp] theorem lvlH_ite (L : Nat) (x c y : Py) : lvlH L (.ite x c y) = 0 := rfl

/-- well-levelled and usable as an operand of `+ - * /` on either side -/
def G6 (p : Py) : Prop := WLb 0 p = true ∧ lvlH 0 p ≥ 6

theorem ref_wl (nm : String) (p : List Key) : WLb 0 (ref nm p) = true ∧ lvlH 0 (ref nm p) = 100 := by
  simp [ref, WLb, WLbArgs, WLbArg]

theorem ref_g6 (nm : String) (p : List Key) : G6 (ref nm p) := by
  have := ref_wl nm p; exact ⟨this.1, by omega⟩

theorem numPy_g6 (n : Bool) (l : String) : G6 (numPy n l) := by
  cases n <;> simp [G6, numPy, WLb]

theorem sub_g6 (e : Elem) (idx : List Key) (p : Py) (h : e.sub idx = some p) : G6 p := by
  simp only [Elem.sub, Option.map_eq_some_iff] at h
  obtain ⟨q, _, rfl⟩ := h
  exact ref_g6 _ _

theorem at_g6 (o : Operand) (idx : List Key) (p : Py) (h : o.at idx = some p) : G6 p := by
  cases o with
  | num n l => simp only [Operand.at, Option.some.injEq] at h; subst h; exact numPy_g6 n l
  | el e =>
    simp only [Operand.at] at h
    split at h
    · exact sub_g6 e idx p h
    · simp only [Option.some.injEq] at h; subst h; exact ref_g6 _ _

theorem term_g6 (o : Operand) : G6 o.term := by
  cases o with
  | num n l => exact numPy_g6 n l
  | el e => exact ref_g6 _ _

theorem subOf_g6 (o : Operand) (idx : List Key) (p : Py) (h : subOf o idx = some p) : G6 p := by
  cases o with
  | num n l => simp [subOf] at h
  | el e => exact sub_g6 e idx p h

theorem ewTmpl_g6 (o : EwOp) (x y : Py) (hx : G6 x) (hy : G6 y) : G6 (ewTmpl o x y) := by
  obtain ⟨hx1, hx2⟩ := hx
  obtain ⟨hy1, hy2⟩ := hy
  cases o <;> simp [G6, ewTmpl, WLb, hx1, hy1, ldem, rbp, bp] <;> omega

theorem prodTerm_g6 (x y : Py) (hx : G6 x) (hy : G6 y) : G6 (prodTerm x y) := by
  simp [G6, prodTerm, WLb, hx.1, hy.1, ldem, rbp, bp]

/-- a left-nested chain of `+` (resp. `*`) over operands of level ≥ 6 (resp. ≥ 7) is well-levelled -/
theorem foldl_wl (k : BinOp) (hk : k = .add ∨ k = .mul) (xs : List Py) (acc : Py)
    (hacc : WLb 0 acc = true ∧ lvlH 0 acc ≥ ldem k)
    (hxs : ∀ y ∈ xs, WLb 0 y = true ∧ lvlH 0 y ≥ rbp k) :
    WLb 0 (xs.foldl (fun a y => .bin k a y) acc) = true ∧
      lvlH 0 (xs.foldl (fun a y => .bin k a y) acc) ≥ ldem k := by
  induction xs generalizing acc with
  | nil => simpa using hacc
  | cons y ys ih =>
    simp only [List.foldl_cons]
    apply ih
    · have hy := hxs y (by simp)
      refine ⟨by simp [WLb, hacc.1, hy.1, hacc.2, hy.2], ?_⟩
      rcases hk with rfl | rfl <;> simp [ldem, bp]
    · intro z hz; exact hxs z (by simp [hz])

theorem chain_wl (k : BinOp) (hk : k = .add ∨ k = .mul) (xs : List Py) (p : Py)
    (hxs : ∀ y ∈ xs, WLb 0 y = true ∧ lvlH 0 y ≥ rbp k) (h : chain k xs = some p) : WLb 0 p = true := by
  cases xs with
  | nil => simp [chain] at h
  | cons x xs =>
    simp only [chain, Option.some.injEq] at h
    subst h
    have hx := hxs x (by simp)
    refine (foldl_wl k hk xs x ⟨hx.1, ?_⟩ (fun y hy => hxs y (by simp [hy]))).1
    have : ldem k ≤ rbp k := by rcases hk with rfl | rfl <;> simp [ldem, rbp, bp]
    omega

theorem optAll_mem {α} (l : List (Option α)) (xs : List α) (h : optAll l = some xs) :
    ∀ x ∈ xs, some x ∈ l := by
  induction l generalizing xs with
  | nil => simp [optAll] at h; subst h; simp
  | cons a l ih =>
    cases a with
    | none => simp [optAll] at h
    | some a =>
      simp only [optAll, Option.map_eq_some_iff] at h
      obtain ⟨ys, hys, rfl⟩ := h
      intro x hx
      simp only [List.mem_cons] at hx
      rcases hx with rfl | hx
      · simp
      · exact List.mem_cons_of_mem _ (ih ys hys x hx)

theorem dotChain_wl (xs : List (Option Py × Option Py)) (p : Py)
    (hxs : ∀ q ∈ xs, (∀ x, q.1 = some x → G6 x) ∧ (∀ y, q.2 = some y → G6 y))
    (h : dotChain xs = some p) : G6 p := by
  unfold dotChain at h
  split at h
  next ps hps =>
    simp only [Option.map_eq_some_iff] at h
    obtain ⟨c, hc, rfl⟩ := h
    refine ⟨?_, by simp⟩
    simp only [WLb]
    apply chain_wl .add (Or.inl rfl) ps c _ hc
    intro y hy
    have hmem := optAll_mem _ _ hps y hy
    simp only [List.mem_map] at hmem
    obtain ⟨q, hq, hqe⟩ := hmem
    obtain ⟨a, b⟩ := q
    cases a with
    | none => simp [pairProd] at hqe
    | some a =>
      cases b with
      | none => simp [pairProd] at hqe
      | some b =>
        simp only [pairProd, Option.some.injEq] at hqe
        subst hqe
        have hg := prodTerm_g6 a b ((hxs _ hq).1 a rfl) ((hxs _ hq).2 b rfl)
        exact ⟨hg.1, by have := hg.2; simp [rbp, bp]; omega⟩
  next => simp at h

theorem dotPairs_ok (a b : Operand) (f g : Nat → List Key) (l : List Nat) :
    ∀ q ∈ l.map (fun k => (subOf a (f k), subOf b (g k))),
      (∀ x, q.1 = some x → G6 x) ∧ (∀ y, q.2 = some y → G6 y) := by
  intro q hq
  simp only [List.mem_map] at hq
  obtain ⟨k, _, rfl⟩ := hq
  exact ⟨fun x hx => subOf_g6 a _ x hx, fun y hy => subOf_g6 b _ y hy⟩

theorem dotTerm_g6 (a b : Operand) (idx : List Key) (p : Py) (h : dotTerm a b idx = some p) : G6 p := by
  unfold dotTerm at h
  split at h
  · simp at h
  · simp only [Option.map_eq_some_iff] at h
    obtain ⟨y, hy, rfl⟩ := h
    exact prodTerm_g6 _ _ (term_g6 a) (subOf_g6 b idx y hy)
  · simp only [Option.map_eq_some_iff] at h
    obtain ⟨x, hx, rfl⟩ := h
    exact prodTerm_g6 _ _ (subOf_g6 a idx x hx) (term_g6 b)
  · split at h
    · split at h
      · split at h
        · exact dotChain_wl _ p (dotPairs_ok a b _ _ _) h
        · simp at h
      · split at h
        · split at h
          · split at h
            · split at h
              · simp at h
              · exact dotChain_wl _ p (dotPairs_ok a b _ _ _) h
            · simp at h
          · simp at h
        · simp at h
    · split at h
      · split at h
        · split at h
          · split at h
            · split at h
              · simp at h
              · exact dotChain_wl _ p (dotPairs_ok a b _ _ _) h
            · simp at h
          · simp at h
        · simp at h
      · split at h
        · split at h
          · split at h
            · simp at h
            · exact dotChain_wl _ p (dotPairs_ok a b _ _ _) h
          · simp at h
        · simp at h
  · simp at h

theorem num00_g6 : G6 (.num "0.0") := by simp [G6, WLb]

theorem dotTermNoIndex_g6 (a b : Operand) (p : Py) (h : dotTermNoIndex a b = some p) : G6 p := by
  unfold dotTermNoIndex at h
  split at h
  · split at h
    · exact dotChain_wl _ p (dotPairs_ok a b _ _ _) h
    · simp at h
  · simp only [Option.some.injEq] at h; subst h; exact num00_g6
  · simp at h
  · simp only [Option.some.injEq] at h; subst h; exact num00_g6
  · simp at h

theorem termAt_g6 (f : Form) (a b : Operand) (idx : List Key) (p : Py) (h : termAt f a b idx = some p) :
    G6 p := by
  cases f with
  | ew o =>
    simp only [termAt] at h
    split at h
    next x y hx hy =>
      simp only [Option.some.injEq] at h; subst h
      exact ewTmpl_g6 o x y (at_g6 a idx x hx) (at_g6 b idx y hy)
    next => simp at h
  | nmul =>
    simp only [termAt] at h
    split at h
    next y x hy hx =>
      simp only [Option.some.injEq] at h; subst h
      exact prodTerm_g6 y x (at_g6 b idx y hy) (at_g6 a idx x hx)
    next => simp at h
  | dot => exact dotTerm_g6 a b idx p h

theorem termNoIndex_g6 (f : Form) (a b : Operand) (p : Py) (h : termNoIndex f a b = some p) : G6 p := by
  cases f with
  | ew o => simp only [termNoIndex, Option.some.injEq] at h; subst h; exact ewTmpl_g6 o _ _ (term_g6 a) (term_g6 b)
  | nmul => simp only [termNoIndex, Option.some.injEq] at h; subst h; exact prodTerm_g6 _ _ (term_g6 b) (term_g6 a)
  | dot => exact dotTermNoIndex_g6 a b p h

/-- every per-element expression of a result -/
def Result.exprs : Result → List Py
  | .scalar p => [p]
  | .vector _ es => es.map (·.2)
  | .matrix rows => rows.flatten

theorem vecEntries_g6 (f : Form) (a b : Operand) (nm : Bool) (m : Nat) (es : List (Key × Py))
    (h : vecEntries f a b nm m = some es) : ∀ kp ∈ es, G6 kp.2 := by
  intro kp hkp
  have hmem := optAll_mem _ _ h kp hkp
  simp only [List.mem_map] at hmem
  obtain ⟨i, _, hi⟩ := hmem
  split at hi
  · split at hi
    · simp only [Option.map_eq_some_iff] at hi
      obtain ⟨p, hp, rfl⟩ := hi
      exact termAt_g6 _ _ _ _ _ hp
    · simp at hi
  · simp only [Option.map_eq_some_iff] at hi
    obtain ⟨p, hp, rfl⟩ := hi
    exact termAt_g6 _ _ _ _ _ hp

theorem matEntries_g6 (f : Form) (a b : Operand) (m n : Nat) (rows : List (List Py))
    (h : matEntries f a b m n = some rows) : ∀ row ∈ rows, ∀ p ∈ row, G6 p := by
  intro row hrow p hp
  have hmem := optAll_mem _ _ h row hrow
  simp only [List.mem_map] at hmem
  obtain ⟨i, _, hi⟩ := hmem
  have hmem2 := optAll_mem _ _ hi p hp
  simp only [List.mem_map] at hmem2
  obtain ⟨j, _, hj⟩ := hmem2
  exact termAt_g6 _ _ _ _ _ hj

theorem expandArr_wl (f : Form) (a b : Operand) (d : Dims) (r : Result) (h : expandArr f a b d = some r) :
    ∀ p ∈ r.exprs, WLb 0 p = true := by
  unfold expandArr at h
  split at h
  · split at h
    · simp at h
    · simp only [Option.map_eq_some_iff] at h
      obtain ⟨es, hes, rfl⟩ := h
      intro q hq
      simp only [Result.exprs, List.mem_map] at hq
      obtain ⟨kp, hkp, rfl⟩ := hq
      exact (vecEntries_g6 f a b _ _ es hes kp hkp).1
  · split at h
    · simp only [Option.map_eq_some_iff] at h
      obtain ⟨rows, hrows, rfl⟩ := h
      intro q hq
      simp only [Result.exprs, List.mem_flatten] at hq
      obtain ⟨row, hrow, hq⟩ := hq
      exact (matEntries_g6 f a b _ _ rows hrows row hrow q hq).1
    · simp at h

theorem scalar_wl (f : Form) (a b : Operand) (r : Result)
    (h : (termNoIndex f a b).map Result.scalar = some r) : ∀ p ∈ r.exprs, WLb 0 p = true := by
  simp only [Option.map_eq_some_iff] at h
  obtain ⟨p, hp, rfl⟩ := h
  intro q hq
  simp only [Result.exprs, List.mem_singleton] at hq
  subst hq
  exact (termNoIndex_g6 f a b _ hp).1

/-- **(1)** every expression `expand` produces is well-levelled -/
theorem expand_wl (f : Form) (a b : Operand) (r : Result) (h : expand f a b = some r) :
    ∀ p ∈ r.exprs, WLb 0 p = true := by
  unfold expand at h
  split at h
  · simp at h
  · split at h
    · exact scalar_wl f a b r h
    · split at h
      · simp at h
      · exact scalar_wl f a b r h
      · exact expandArr_wl f a b _ r h

/-- … hence its printed text (= the element's function string, token for token) parses back to
exactly that tree under CPython's precedence rules. -/
theorem expand_parses (f : Form) (a b : Operand) (r : Result) (h : expand f a b = some r) :
    ∀ p ∈ r.exprs, Parses (pr p) p :=
  fun p hp => parse_print p (expand_wl f a b r h p hp)

/-! ### aggregates -/

theorem WLbL_of_all (es : List Py) (h : ∀ p ∈ es, WLb 0 p = true) : WLbL 0 es = true := by
  induction es with
  | nil => simp [WLbL]
  | cons e es ih =>
    simp only [WLbL, Bool.and_eq_true]
    exact ⟨h e (by simp), ih (fun p hp => h p (by simp [hp]))⟩

theorem rows_ref (e : Elem) : ∀ row ∈ e.rows, ∀ p ∈ row, ∃ path, p = ref e.name path := by
  intro row hrow p hp
  unfold Elem.rows at hrow
  split at hrow
  · simp only [List.mem_map] at hrow
    obtain ⟨k, _, rfl⟩ := hrow
    simp only [List.mem_singleton] at hp
    exact ⟨[k], hp⟩
  · simp only [List.mem_map] at hrow
    obtain ⟨k, _, rfl⟩ := hrow
    simp only [List.mem_map] at hp
    obtain ⟨l, _, rfl⟩ := hp
    exact ⟨[k, l], rfl⟩

theorem rowMajor_ref (e : Elem) : ∀ p ∈ e.rowMajor, ∃ path, p = ref e.name path := by
  intro p hp
  simp only [Elem.rowMajor, List.mem_flatten] at hp
  obtain ⟨row, hrow, hp⟩ := hp
  exact rows_ref e row hrow p hp

theorem rowMajor_wl (e : Elem) : ∀ p ∈ e.rowMajor, WLb 0 p = true ∧ lvlH 0 p = 100 := by
  intro p hp
  obtain ⟨path, rfl⟩ := rowMajor_ref e p hp
  exact ref_wl _ _

theorem display_wl (e : Elem) : WLb 0 e.display = true := by
  unfold Elem.display
  split
  · simp only [WLb]
    exact WLbL_of_all _ (fun p hp => (rowMajor_wl e p hp).1)
  · simp only [WLb]
    apply WLbL_of_all
    intro p hp
    simp only [List.mem_map] at hp
    obtain ⟨row, hrow, rfl⟩ := hp
    simp only [WLb]
    apply WLbL_of_all
    intro q hq
    obtain ⟨path, rfl⟩ := rows_ref e row hrow q hq
    exact (ref_wl _ _).1

theorem rankIndexPy_wl (neg : Bool) (k count : Nat) : WLb 0 (rankIndexPy neg k count) = true := by
  cases neg <;> simp [rankIndexPy, natPy, numPy, WLb, ldem, rbp, bp]

theorem npCall_wl (fn : String) (e : Elem) : WLb 0 (npCall fn e.display) = true := by
  have := display_wl e
  unfold Elem.display at this ⊢
  split <;> simp_all [npCall, WLb, WLbArgs, WLbArg]

/-- **(1, aggregates)** every aggregate expression is well-levelled -/
theorem aggTerm_wl (g : Agg) (e : Elem) (p : Py) (h : aggTerm g e = some p) : WLb 0 p = true := by
  unfold aggTerm at h
  split at h
  · cases g with
    | sum =>
      simp only [aggArr, Option.map_eq_some_iff] at h
      obtain ⟨c, hc, rfl⟩ := h
      simp only [WLb]
      exact chain_wl .add (Or.inl rfl) _ c (fun y hy => by
        have := rowMajor_wl e y hy; exact ⟨this.1, by rw [this.2]; simp [rbp, bp]⟩) hc
    | prod =>
      simp only [aggArr, Option.map_eq_some_iff] at h
      obtain ⟨c, hc, rfl⟩ := h
      simp only [WLb]
      exact chain_wl .mul (Or.inr rfl) _ c (fun y hy => by
        have := rowMajor_wl e y hy; exact ⟨this.1, by rw [this.2]; simp [rbp, bp]⟩) hc
    | mean => simp only [aggArr, Option.some.injEq] at h; subst h; exact npCall_wl _ e
    | median => simp only [aggArr, Option.some.injEq] at h; subst h; exact npCall_wl _ e
    | std => simp only [aggArr, Option.some.injEq] at h; subst h; exact npCall_wl _ e
    | size => simp only [aggArr, Option.some.injEq] at h; subst h; simp [natPy, WLb]
    | rank neg k =>
      simp only [aggArr, Option.some.injEq] at h; subst h
      simp only [sortedCall, WLb, WLbArgs, WLbArg, lvlH_call, lvlH_name, rankIndexPy_wl, Bool.and_true,
        Bool.true_and, ge_iff_le, le_refl, decide_true]
      exact WLbL_of_all _ (fun p hp => (rowMajor_wl e p hp).1)
  · simp only [Option.some.injEq] at h; subst h
    cases g <;> simp [aggScalar, WLb] <;> exact (ref_wl e.name []).1

theorem aggTerm_parses (g : Agg) (e : Elem) (p : Py) (h : aggTerm g e = some p) : Parses (pr p) p :=
  parse_print p (aggTerm_wl g e p h)

/-! ## 2. Semantics: the arithmetic carrier -/

section Sem
open BigOperators
variable {R : Type} [CommSemiring R]

/-- everything about the arithmetic that the theorems do not need to know: subtraction, division,
negation, the reading of number literals, numpy's aggregate functions (on the flattened argument) and
`sorted(…, reverse=True)` are arbitrary functions. -/
structure Ops (R : Type) where
  sub : R → R → R
  div : R → R → R
  neg : R → R
  numv : String → R
  fn : String → List R → R
  sortDesc : List R → List R

inductive V (R : Type)
  | r (x : R)
  | sym (s : String)
  | att (m a : String)
  | lst (xs : List R)
  | lst2 (xss : List (List R))
  | kwv (n : String) (v : V R)
  | bad

def allR : List (V R) → Option (List R)
  | [] => some []
  | .r x :: vs => (allR vs).map (x :: ·)
  | _ => none

def allL : List (V R) → Option (List (List R))
  | [] => some []
  | .lst xs :: vs => (allL vs).map (xs :: ·)
  | _ => none

def listV (vs : List (V R)) : V R :=
  match allR vs with
  | some xs => .lst xs
  | none => match allL vs with
    | some xss => .lst2 xss
    | none => .bad

def binV (O : Ops R) : BinOp → V R → V R → V R
  | .add, .r x, .r y => .r (x + y)
  | .mul, .r x, .r y => .r (x * y)
  | .sub, .r x, .r y => .r (O.sub x y)
  | .div, .r x, .r y => .r (O.div x y)
  | _, _, _ => .bad

def callV (O : Ops R) (ρ : String → R) (f : V R) (args : List (V R)) : V R :=
  match f, args with
  | .att m a, [.sym key, _] => if m = "model" ∧ a = "memoize" then .r (ρ key) else .bad
  | .att m a, [.lst xs] => if m = "np" then .r (O.fn a xs) else .bad
  | .att m a, [.lst2 xss] => if m = "np" then .r (O.fn a xss.flatten) else .bad
  | .sym s, [.lst xs, .kwv n (.sym t)] =>
    if s = "sorted" ∧ n = "reverse" ∧ t = "True" then .lst (O.sortDesc xs) else .bad
  | _, _ => .bad

/-- the arithmetic carrier: `+` and `*` are the semiring's, element references read `ρ` -/
def car (O : Ops R) (ρ : String → R) : Carrier (V R) where
  num s := .r (O.numv s)
  name s := .sym s
  str s := .sym s
  neg v := match v with | .r x => .r (O.neg x) | _ => .bad
  not _ := .bad
  bin := binV O
  ite _ _ _ := .bad
  attr v a := match v with | .sym m => .att m a | _ => .bad
  call := callV O ρ
  index _ _ := .bad
  list := listV
  kw n v := .kwv n v

variable (O : Ops R) (ρ : String → R) (σ : Nat → V R)

/-- value of the element reference `name[k1][k2]` -/
def rv (nm : String) (path : List Key) : R := ρ (nm ++ pathStr path)

theorem eval_ref (nm : String) (path : List Key) :
    eval (car O ρ) σ (ref nm path) = .r (rv ρ nm path) := by
  simp [ref, eval, evalL, car, callV, rv]

def numVal (n : Bool) (l : String) : R := if n then O.neg (O.numv l) else O.numv l

theorem eval_numPy (n : Bool) (l : String) : eval (car O ρ) σ (numPy n l) = .r (numVal O n l) := by
  cases n <;> simp [numPy, eval, car, numVal]

/-- the value an operand contributes at result index `idx` (arrays indexed, scalars broadcast) -/
def Operand.valAt (o : Operand) (idx : List Key) : Option R :=
  match o with
  | .num n l => some (numVal O n l)
  | .el e => if e.arrayed then (e.path idx).map (rv ρ e.name) else some (rv ρ e.name [])

theorem at_eval (o : Operand) (idx : List Key) (x : Py) (h : o.at idx = some x) :
    ∃ v, o.valAt O ρ idx = some v ∧ eval (car O ρ) σ x = .r v := by
  cases o with
  | num n l =>
    simp only [Operand.at, Option.some.injEq] at h; subst h
    exact ⟨_, rfl, eval_numPy O ρ σ n l⟩
  | el e =>
    simp only [Operand.at] at h
    cases ha : e.arrayed with
    | true =>
      simp only [ha, if_true, Elem.sub, Option.map_eq_some_iff] at h
      obtain ⟨path, hp, rfl⟩ := h
      exact ⟨rv ρ e.name path, by simp [Operand.valAt, ha, hp], eval_ref O ρ σ _ _⟩
    | false =>
      simp only [ha, Bool.false_eq_true, if_false, Option.some.injEq] at h; subst h
      exact ⟨rv ρ e.name [], by simp [Operand.valAt, ha], eval_ref O ρ σ _ _⟩

def ewVal (o : EwOp) (x y : R) : R :=
  match o with
  | .add => x + y
  | .sub => O.sub x y
  | .mul => x * y
  | .div => O.div x y

theorem eval_ewTmpl (o : EwOp) (x y : Py) (vx vy : R) (hx : eval (car O ρ) σ x = .r vx)
    (hy : eval (car O ρ) σ y = .r vy) : eval (car O ρ) σ (ewTmpl o x y) = .r (ewVal O o vx vy) := by
  cases o <;> simp only [ewTmpl, eval, hx, hy] <;> simp [car, binV, ewVal]

theorem eval_prodTerm (x y : Py) (vx vy : R) (hx : eval (car O ρ) σ x = .r vx)
    (hy : eval (car O ρ) σ y = .r vy) : eval (car O ρ) σ (prodTerm x y) = .r (vx * vy) := by
  simp only [prodTerm, eval, hx, hy]; simp [car, binV]

/-- **element-wise operators** (array∘array, array∘scalar, scalar∘array, any key scheme): the
expression of result element `idx` evaluates to `A[idx] ∘ B[idx]`, scalars and numbers broadcast. -/
theorem elementwise_spec (o : EwOp) (a b : Operand) (idx : List Key) (p : Py)
    (h : termAt (.ew o) a b idx = some p) :
    ∃ x y, a.valAt O ρ idx = some x ∧ b.valAt O ρ idx = some y ∧
      eval (car O ρ) σ p = .r (ewVal O o x y) := by
  simp only [termAt] at h
  split at h
  next x y hx hy =>
    simp only [Option.some.injEq] at h; subst h
    obtain ⟨vx, hvx, hex⟩ := at_eval O ρ σ a idx x hx
    obtain ⟨vy, hvy, hey⟩ := at_eval O ρ σ b idx y hy
    exact ⟨vx, vy, hvx, hvy, eval_ewTmpl O ρ σ o x y vx vy hex hey⟩
  next => simp at h

/-- **number * array / -array** (`NumericalMultiplicationOperator(a, b)`): `b[idx] * a[idx]` -/
theorem nmul_spec (a b : Operand) (idx : List Key) (p : Py) (h : termAt .nmul a b idx = some p) :
    ∃ x y, a.valAt O ρ idx = some x ∧ b.valAt O ρ idx = some y ∧
      eval (car O ρ) σ p = .r (y * x) := by
  simp only [termAt] at h
  split at h
  next y x hy hx =>
    simp only [Option.some.injEq] at h; subst h
    obtain ⟨vx, hvx, hex⟩ := at_eval O ρ σ a idx x hx
    obtain ⟨vy, hvy, hey⟩ := at_eval O ρ σ b idx y hy
    exact ⟨vx, vy, hvx, hvy, eval_prodTerm O ρ σ y x vy vx hey hex⟩
  next => simp at h

/-! ### chains -/

theorem eval_add (l r : Py) (a b : R) (hl : eval (car O ρ) σ l = .r a) (hr : eval (car O ρ) σ r = .r b) :
    eval (car O ρ) σ (.bin .add l r) = .r (a + b) := by
  simp only [eval, hl, hr]; rfl

theorem eval_mul (l r : Py) (a b : R) (hl : eval (car O ρ) σ l = .r a) (hr : eval (car O ρ) σ r = .r b) :
    eval (car O ρ) σ (.bin .mul l r) = .r (a * b) := by
  simp only [eval, hl, hr]; rfl

theorem eval_foldl_add (xs : List Py) (g : Py → R) (acc : Py) (va : R)
    (hacc : eval (car O ρ) σ acc = .r va) (hxs : ∀ y ∈ xs, eval (car O ρ) σ y = .r (g y)) :
    eval (car O ρ) σ (xs.foldl (fun a y => .bin .add a y) acc) = .r (va + (xs.map g).sum) := by
  induction xs generalizing acc va with
  | nil => simpa using hacc
  | cons y ys ih =>
    simp only [List.foldl_cons, List.map_cons, List.sum_cons]
    rw [ih (.bin .add acc y) (va + g y) (eval_add O ρ σ _ _ _ _ hacc (hxs y (by simp)))
      (fun z hz => hxs z (by simp [hz])), add_assoc]

theorem eval_foldl_mul (xs : List Py) (g : Py → R) (acc : Py) (va : R)
    (hacc : eval (car O ρ) σ acc = .r va) (hxs : ∀ y ∈ xs, eval (car O ρ) σ y = .r (g y)) :
    eval (car O ρ) σ (xs.foldl (fun a y => .bin .mul a y) acc) = .r (va * (xs.map g).prod) := by
  induction xs generalizing acc va with
  | nil => simpa using hacc
  | cons y ys ih =>
    simp only [List.foldl_cons, List.map_cons, List.prod_cons]
    rw [ih (.bin .mul acc y) (va * g y) (eval_mul O ρ σ _ _ _ _ hacc (hxs y (by simp)))
      (fun z hz => hxs z (by simp [hz])), mul_assoc]

theorem optAll_map_some {α β} (l : List α) (f : α → Option β) (g : α → β)
    (h : ∀ x ∈ l, f x = some (g x)) : optAll (l.map f) = some (l.map g) := by
  induction l with
  | nil => simp [optAll]
  | cons x xs ih =>
    simp only [List.map_cons, h x (by simp), optAll, ih (fun y hy => h y (by simp [hy]))]
    simp

theorem list_sum_range (n : Nat) (f : Nat → R) :
    ((List.range n).map f).sum = ∑ k ∈ Finset.range n, f k := by
  induction n with
  | zero => simp
  | succ n ih => simp [List.range_succ, Finset.sum_range_succ, ih]

theorem list_prod_range (n : Nat) (f : Nat → R) :
    ((List.range n).map f).prod = ∏ k ∈ Finset.range n, f k := by
  induction n with
  | zero => simp
  | succ n ih => simp [List.range_succ, Finset.prod_range_succ, ih]

/-- the text `((a0) * (b0) + (a1) * (b1) + …)` evaluates to `Σ_k a_k * b_k` -/
theorem dotChain_eval (n : Nat) (hn : 0 < n) (fa fb : Nat → Option Py) (pa pb : Nat → Py) (ga gb : Nat → R)
    (hfa : ∀ k < n, fa k = some (pa k)) (hfb : ∀ k < n, fb k = some (pb k))
    (ha : ∀ k < n, eval (car O ρ) σ (pa k) = .r (ga k))
    (hb : ∀ k < n, eval (car O ρ) σ (pb k) = .r (gb k)) :
    ∃ e, dotChain ((List.range n).map fun k => (fa k, fb k)) = some e ∧
      eval (car O ρ) σ e = .r (∑ k ∈ Finset.range n, ga k * gb k) := by
  have h1 : optAll (((List.range n).map fun k => (fa k, fb k)).map pairProd)
      = some ((List.range n).map fun k => prodTerm (pa k) (pb k)) := by
    rw [List.map_map]
    apply optAll_map_some
    intro k hk
    have hk' : k < n := List.mem_range.mp hk
    simp [hfa k hk', hfb k hk', pairProd]
  obtain ⟨n', rfl⟩ : ∃ n', n = n' + 1 := ⟨n - 1, by omega⟩
  have hev : ∀ k < n' + 1, eval (car O ρ) σ (prodTerm (pa k) (pb k)) = .r (ga k * gb k) :=
    fun k hk => eval_prodTerm O ρ σ _ _ _ _ (ha k hk) (hb k hk)
  -- evaluate the whole chain as a list sum, via a function on indices
  have key : ∀ (l : List Nat) (hl : ∀ k ∈ l, k < n' + 1) (acc : Py) (va : R),
      eval (car O ρ) σ acc = .r va →
      eval (car O ρ) σ ((l.map fun k => prodTerm (pa k) (pb k)).foldl (fun a y => .bin .add a y) acc)
        = .r (va + (l.map fun k => ga k * gb k).sum) := by
    intro l
    induction l with
    | nil => intro _ acc va h; simpa using h
    | cons k ks ih =>
      intro hl acc va h
      simp only [List.map_cons, List.foldl_cons, List.sum_cons]
      rw [ih (fun j hj => hl j (by simp [hj])) (.bin .add acc (prodTerm (pa k) (pb k))) (va + ga k * gb k)
        (eval_add O ρ σ _ _ _ _ h (hev k (hl k (by simp)))), add_assoc]
  unfold dotChain
  rw [h1]
  rw [List.range_succ_eq_map]
  simp only [List.map_cons, chain, Option.map_some]
  refine ⟨_, rfl, ?_⟩
  simp only [eval]
  have := key ((List.range n').map Nat.succ) (by simp) (prodTerm (pa 0) (pb 0)) (ga 0 * gb 0) (hev 0 (by omega))
  rw [this, ← list_sum_range, List.range_succ_eq_map]
  simp [List.map_map]

/-! ### indexed arrays -/

theorem findKey_range (m i : Nat) :
    findKey (rangeKeys m) (.i i) = if i < m then some (.i i) else none := by
  induction m with
  | zero => simp [rangeKeys, findKey]
  | succ m ih =>
    simp only [rangeKeys, findKey] at ih ⊢
    rw [List.range_succ, List.map_append, List.find?_append, ih]
    by_cases h : i < m
    · have : i < m + 1 := by omega
      simp [h, this]
    · by_cases h2 : i = m
      · subst h2; simp [Key.same]
      · have : ¬ i < m + 1 := by omega
        simp [h, this, Key.same, h2]

theorem rangeKeys_length (m : Nat) : (rangeKeys m).length = m := by simp [rangeKeys]

theorem rangeKeys_isEmpty (m : Nat) : (rangeKeys m).isEmpty = decide (m = 0) := by
  cases m <;> simp [rangeKeys, List.range_succ]

theorem mat_arrayed (A : String) (m n : Nat) (hm : 0 < m) : (Elem.mat A m n).arrayed = true := by
  simp [Elem.arrayed, Elem.mat, rangeKeys_isEmpty]; omega

theorem vec_arrayed (A : String) (m : Nat) (hm : 0 < m) : (Elem.vec A m).arrayed = true := by
  simp [Elem.arrayed, Elem.vec, rangeKeys_isEmpty]; omega

theorem mat_dims (A : String) (m n : Nat) (hm : 0 < m) : (Operand.el (Elem.mat A m n)).dims = .d2 m n := by
  simp [Operand.dims, elemDims, mat_arrayed A m n hm]; simp [Elem.mat, rangeKeys_length]

theorem vec_dims (A : String) (m : Nat) (hm : 0 < m) : (Operand.el (Elem.vec A m)).dims = .d2 m 0 := by
  simp [Operand.dims, elemDims, vec_arrayed A m hm]; simp [Elem.vec, rangeKeys_length]

theorem mat_sub (A : String) (m n i j : Nat) (hi : i < m) (hj : j < n) :
    subOf (.el (Elem.mat A m n)) [.i i, .i j] = some (ref A [.i i, .i j]) := by
  have ha := mat_arrayed A m n (by omega)
  simp only [subOf, Elem.sub, Elem.path, ha, if_true]
  simp [Elem.mat, findKey_range, hi, hj, rangeKeys_isEmpty]; omega

theorem vec_sub (A : String) (m i : Nat) (hi : i < m) :
    subOf (.el (Elem.vec A m)) [.i i] = some (ref A [.i i]) := by
  have ha := vec_arrayed A m (by omega)
  simp only [subOf, Elem.sub, Elem.path, ha, if_true]
  simp [Elem.vec, findKey_range, hi]

/-- the values of an indexed matrix / vector element under `ρ` -/
def valM (A : String) (m n : Nat) : Matrix (Fin m) (Fin n) R := fun i j => rv ρ A [.i i.val, .i j.val]
def valV (A : String) (m : Nat) : Fin m → R := fun i => rv ρ A [.i i.val]

/-- **matrix · matrix**: the expression of result element (i, j) evaluates to `(A * B) i j`
(Mathlib's `Matrix.mul`) -/
theorem dot_mm (A B : String) (m n p : Nat) (hn : 0 < n) (i : Fin m) (j : Fin p) :
    ∃ e, termAt .dot (.el (.mat A m n)) (.el (.mat B n p)) [.i i, .i j] = some e ∧
      eval (car O ρ) σ e = .r ((valM ρ A m n * valM ρ B n p) i j) := by
  have hm : 0 < m := Fin.pos i
  have hp : 0 < p := Fin.pos j
  obtain ⟨e, he, hev⟩ := dotChain_eval O ρ σ n hn
    (fun k => subOf (.el (.mat A m n)) [.i i, .i k]) (fun k => subOf (.el (.mat B n p)) [.i k, .i j])
    (fun k => ref A [.i i, .i k]) (fun k => ref B [.i k, .i j])
    (fun k => rv ρ A [.i i, .i k]) (fun k => rv ρ B [.i k, .i j])
    (fun k hk => mat_sub A m n i k i.isLt hk) (fun k hk => mat_sub B n p k j hk j.isLt)
    (fun k _ => eval_ref O ρ σ _ _) (fun k _ => eval_ref O ρ σ _ _)
  refine ⟨e, ?_, ?_⟩
  · rw [← he]
    simp only [termAt]
    unfold dotTerm
    rw [mat_dims A m n hm, mat_dims B n p hn]
    have h1 : n ≠ 0 := by omega
    have h2 : p ≠ 0 := by omega
    have h3 : ¬ (i.val ≥ m ∨ j.val ≥ p) := by omega
    simp [h1, h2, keyNat, h3]
  · rw [hev, Matrix.mul_apply, Finset.sum_range]
    rfl

/-- **matrix · vector** = `Matrix.mulVec` -/
theorem dot_mv (A v : String) (m n : Nat) (hn : 0 < n) (i : Fin m) :
    ∃ e, termAt .dot (.el (.mat A m n)) (.el (.vec v n)) [.i i] = some e ∧
      eval (car O ρ) σ e = .r (Matrix.mulVec (valM ρ A m n) (valV ρ v n) i) := by
  have hm : 0 < m := Fin.pos i
  obtain ⟨e, he, hev⟩ := dotChain_eval O ρ σ n hn
    (fun k => subOf (.el (.mat A m n)) [.i i, .i k]) (fun k => subOf (.el (.vec v n)) [.i k])
    (fun k => ref A [.i i, .i k]) (fun k => ref v [.i k])
    (fun k => rv ρ A [.i i, .i k]) (fun k => rv ρ v [.i k])
    (fun k hk => mat_sub A m n i k i.isLt hk) (fun k hk => vec_sub v n k hk)
    (fun k _ => eval_ref O ρ σ _ _) (fun k _ => eval_ref O ρ σ _ _)
  refine ⟨e, ?_, ?_⟩
  · rw [← he]
    simp only [termAt]
    unfold dotTerm
    rw [mat_dims A m n hm, vec_dims v n hn]
    have h1 : n ≠ 0 := by omega
    have h3 : ¬ (i.val ≥ m) := by omega
    simp [h1, keyNat, h3]
  · rw [hev, Matrix.mulVec, dotProduct, Finset.sum_range]
    rfl

/-- **vector · matrix** = `Matrix.vecMul` -/
theorem dot_vm (v A : String) (m n : Nat) (hm : 0 < m) (j : Fin n) :
    ∃ e, termAt .dot (.el (.vec v m)) (.el (.mat A m n)) [.i j] = some e ∧
      eval (car O ρ) σ e = .r (Matrix.vecMul (valV ρ v m) (valM ρ A m n) j) := by
  have hn : 0 < n := Fin.pos j
  obtain ⟨e, he, hev⟩ := dotChain_eval O ρ σ m hm
    (fun k => subOf (.el (.vec v m)) [.i k]) (fun k => subOf (.el (.mat A m n)) [.i k, .i j])
    (fun k => ref v [.i k]) (fun k => ref A [.i k, .i j])
    (fun k => rv ρ v [.i k]) (fun k => rv ρ A [.i k, .i j])
    (fun k hk => vec_sub v m k hk) (fun k hk => mat_sub A m n k j hk j.isLt)
    (fun k _ => eval_ref O ρ σ _ _) (fun k _ => eval_ref O ρ σ _ _)
  refine ⟨e, ?_, ?_⟩
  · rw [← he]
    simp only [termAt]
    unfold dotTerm
    rw [vec_dims v m hm, mat_dims A m n hm]
    have h1 : n ≠ 0 := by omega
    have h3 : ¬ (j.val ≥ n) := by omega
    simp [h1, keyNat, h3]
  · rw [hev, Matrix.vecMul, dotProduct, Finset.sum_range]
    rfl

/-- **vector · vector** = `dotProduct` (the equation of a non-arrayed element) -/
theorem dot_vv (v w : String) (m : Nat) (hm : 0 < m) :
    ∃ e, termNoIndex .dot (.el (.vec v m)) (.el (.vec w m)) = some e ∧
      eval (car O ρ) σ e = .r (dotProduct (valV ρ v m) (valV ρ w m)) := by
  obtain ⟨e, he, hev⟩ := dotChain_eval O ρ σ m hm
    (fun k => subOf (.el (.vec v m)) [.i k]) (fun k => subOf (.el (.vec w m)) [.i k])
    (fun k => ref v [.i k]) (fun k => ref w [.i k])
    (fun k => rv ρ v [.i k]) (fun k => rv ρ w [.i k])
    (fun k hk => vec_sub v m k hk) (fun k hk => vec_sub w m k hk)
    (fun k _ => eval_ref O ρ σ _ _) (fun k _ => eval_ref O ρ σ _ _)
  refine ⟨e, ?_, ?_⟩
  · rw [← he]
    simp only [termNoIndex]
    unfold dotTermNoIndex
    rw [vec_dims v m hm, vec_dims w m hm]
    simp
  · rw [hev, dotProduct, Finset.sum_range]
    rfl

/-- **scalar forms of dot** (`A.dot(s)`, `s.dot(A)`, `A.dot(2.0)`): every element times the value -/
theorem dot_scalar_right (a b : Operand) (idx : List Key) (hb : b.dims = .val) (ha : a.dims ≠ .val)
    (p : Py) (h : termAt .dot a b idx = some p) :
    ∃ x y, a.valAt O ρ idx = some x ∧ b.valAt O ρ idx = some y ∧ eval (car O ρ) σ p = .r (x * y) := by
  simp only [termAt] at h
  unfold dotTerm at h
  rw [hb] at h
  cases a with
  | num n l => simp [Operand.dims] at ha
  | el e =>
    cases hd : (Operand.el e).dims with
    | val => exact absurd hd ha
    | d1 m => simp [Operand.dims, elemDims] at hd; split at hd <;> simp at hd
    | d2 m n =>
      rw [hd] at h
      simp only [Option.map_eq_some_iff] at h
      obtain ⟨x, hx, rfl⟩ := h
      have harr : e.arrayed = true := by
        simp only [Operand.dims, elemDims] at hd; split at hd <;> simp_all
      simp only [subOf, Elem.sub, Option.map_eq_some_iff] at hx
      obtain ⟨path, hpath, rfl⟩ := hx
      have hbv : ∃ y, b.valAt O ρ idx = some y ∧ eval (car O ρ) σ b.term = .r y := by
        cases b with
        | num n l => exact ⟨_, rfl, eval_numPy O ρ σ n l⟩
        | el e' =>
          have : e'.arrayed = false := by
            simp only [Operand.dims, elemDims] at hb; split at hb <;> simp_all
          exact ⟨rv ρ e'.name [], by simp [Operand.valAt, this], eval_ref O ρ σ _ _⟩
      obtain ⟨y, hy, hey⟩ := hbv
      exact ⟨rv ρ e.name path, y, by simp [Operand.valAt, harr, hpath], hy,
        eval_prodTerm O ρ σ _ _ _ _ (eval_ref O ρ σ _ _) hey⟩

/-! ### aggregates -/

/-- key paths of the sub-elements, row by row -/
def Elem.paths (e : Elem) : List (List Key) :=
  if e.inner.isEmpty then e.keys.map fun k => [k]
  else (e.keys.map fun k => e.inner.map fun l => [k, l]).flatten

theorem rowMajor_eq (e : Elem) : e.rowMajor = e.paths.map (ref e.name) := by
  unfold Elem.rowMajor Elem.rows Elem.paths
  split
  · simp only [List.map_map, Function.comp_def]
    induction e.keys with
    | nil => simp
    | cons k ks ih => simp [ih]
  · simp [List.map_flatten, List.map_map, Function.comp_def]

/-- the values of all sub-elements in row-major order -/
def Elem.vals (e : Elem) : List R := e.paths.map (rv ρ e.name)

/-- **sum**: a left-nested `+` chain over the row-major element list = the sum of all entries -/
theorem sum_spec (e : Elem) (p : Py) (ha : e.arrayed = true) (h : aggTerm .sum e = some p) :
    eval (car O ρ) σ p = .r (e.vals ρ).sum := by
  simp only [aggTerm, ha, if_true, aggArr, Option.map_eq_some_iff] at h
  obtain ⟨c, hc, rfl⟩ := h
  rw [rowMajor_eq] at hc
  cases hp : e.paths with
  | nil => simp [hp, chain] at hc
  | cons x xs =>
    simp only [hp, List.map_cons, chain, Option.some.injEq] at hc
    subst hc
    simp only [eval]
    have key : ∀ (l : List (List Key)) (acc : Py) (va : R), eval (car O ρ) σ acc = .r va →
        eval (car O ρ) σ ((l.map (ref e.name)).foldl (fun a y => .bin .add a y) acc)
          = .r (va + (l.map (rv ρ e.name)).sum) := by
      intro l
      induction l with
      | nil => intro acc va h; simpa using h
      | cons k ks ih =>
        intro acc va h
        simp only [List.map_cons, List.foldl_cons, List.sum_cons]
        rw [ih _ _ (eval_add O ρ σ _ _ _ _ h (eval_ref O ρ σ _ _)), add_assoc]
    rw [key xs _ _ (eval_ref O ρ σ _ _)]
    simp [Elem.vals, hp]

/-- **product**: a left-nested `*` chain over the row-major element list = the product of all entries -/
theorem prod_spec (e : Elem) (p : Py) (ha : e.arrayed = true) (h : aggTerm .prod e = some p) :
    eval (car O ρ) σ p = .r (e.vals ρ).prod := by
  simp only [aggTerm, ha, if_true, aggArr, Option.map_eq_some_iff] at h
  obtain ⟨c, hc, rfl⟩ := h
  rw [rowMajor_eq] at hc
  cases hp : e.paths with
  | nil => simp [hp, chain] at hc
  | cons x xs =>
    simp only [hp, List.map_cons, chain, Option.some.injEq] at hc
    subst hc
    simp only [eval]
    have key : ∀ (l : List (List Key)) (acc : Py) (va : R), eval (car O ρ) σ acc = .r va →
        eval (car O ρ) σ ((l.map (ref e.name)).foldl (fun a y => .bin .mul a y) acc)
          = .r (va * (l.map (rv ρ e.name)).prod) := by
      intro l
      induction l with
      | nil => intro acc va h; simpa using h
      | cons k ks ih =>
        intro acc va h
        simp only [List.map_cons, List.foldl_cons, List.prod_cons]
        rw [ih _ _ (eval_mul O ρ σ _ _ _ _ h (eval_ref O ρ σ _ _)), mul_assoc]
    rw [key xs _ _ (eval_ref O ρ σ _ _)]
    simp [Elem.vals, hp]

/-- the row-major value list of an indexed matrix is the double sum / product of Mathlib -/
theorem mat_vals_sum (A : String) (m n : Nat) (hn : 0 < n) :
    ((Elem.mat A m n).vals ρ).sum = ∑ i : Fin m, ∑ j : Fin n, valM ρ A m n i j := by
  have hi : (rangeKeys n).isEmpty = false := by rw [rangeKeys_isEmpty]; simp; omega
  have hi' : (Elem.mat A m n).inner.isEmpty = false := hi
  simp only [Elem.vals, Elem.paths, hi', Bool.false_eq_true, if_false]
  simp only [Elem.mat, rangeKeys, List.map_map, valM]
  rw [← Finset.sum_range (fun i => ∑ j : Fin n, rv ρ A [.i i, .i j.val])]
  clear hi'
  induction m with
  | zero => simp
  | succ m ih =>
    rw [List.range_succ, List.map_append, List.flatten_append, List.map_append, List.sum_append, ih,
      Finset.sum_range_succ]
    congr 1
    simp only [List.map_cons, List.map_nil, List.flatten_cons, List.flatten_nil, List.append_nil,
      Function.comp_def, List.map_map]
    rw [list_sum_range n (fun j => rv ρ A [Key.i m, Key.i j]), Finset.sum_range]

theorem evalL_refs (nm : String) (l : List (List Key)) :
    evalL (car O ρ) σ (l.map (ref nm)) = l.map (fun p => V.r (rv ρ nm p)) := by
  induction l with
  | nil => simp [evalL]
  | cons x xs ih => simp [evalL, ih, eval_ref]

omit [CommSemiring R] in
theorem allR_map (xs : List R) : allR (xs.map V.r) = some xs := by
  induction xs with
  | nil => simp [allR]
  | cons x xs ih => simp [allR, ih]

/-- the flat list display `[e1, e2, …]` of all sub-elements evaluates to the row-major value list -/
theorem eval_flat_list (e : Elem) : eval (car O ρ) σ (.list e.rowMajor) = .lst (e.vals ρ) := by
  simp only [eval, rowMajor_eq, evalL_refs]
  have : (e.paths.map fun p => V.r (rv ρ e.name p)) = (e.vals ρ).map V.r := by simp [Elem.vals]
  rw [this]
  simp [car, listV, allR_map]

/-- **rank** receives exactly the row-major element list, sorted descending, and selects with the
index expression over `count` = number of all entries -/
theorem rank_args (e : Elem) (neg : Bool) (k : Nat) (ha : e.arrayed = true) :
    aggTerm (.rank neg k) e = some (.index (sortedCall e) (rankIndexPy neg k e.count)) ∧
      eval (car O ρ) σ (sortedCall e) = .lst (O.sortDesc (e.vals ρ)) := by
  refine ⟨by simp [aggTerm, ha, aggArr], ?_⟩
  have h := eval_flat_list O ρ σ e
  simp only [sortedCall, eval, evalL] at h ⊢
  rw [h]
  simp [car, callV]

/-- **mean / median / std** of a vector receive exactly the row-major element list -/
theorem agg_args_vec (e : Elem) (fn : String) (hi : e.inner.isEmpty = true) :
    eval (car O ρ) σ (npCall fn e.display) = .r (O.fn fn (e.vals ρ)) := by
  have h := eval_flat_list O ρ σ e
  simp only [npCall, Elem.display, hi, if_true, eval, evalL] at h ⊢
  rw [h]
  simp [car, callV]

end Sem

/-! ### rank index, size, dimensions -/

mutual
/-- integer / boolean reading of the index expression of `arr_rank` -/
def evZ (nv : String → Int) : Py → Int
  | .num s => nv s
  | .neg e => - evZ nv e
  | .paren e => evZ nv e
  | .bin .sub l r => evZ nv l - evZ nv r
  | .ite x c y => if evB nv c then evZ nv x else evZ nv y
  | _ => 0
def evB (nv : String → Int) : Py → Bool
  | .paren e => evB nv e
  | .bin .or l r => evB nv l || evB nv r
  | .bin .lt l r => decide (evZ nv l < evZ nv r)
  | .bin .gt l r => decide (evZ nv l > evZ nv r)
  | _ => false
end

/-- **rank index**: the emitted index expression computes `count-1` when `k < 0` or `k > count`
(the smallest element), else `k-1` (the k-th largest; `k = 0` gives `-1`, Python's last = smallest) -/
theorem rank_index_spec (nv : String → Int) (neg : Bool) (k count : Nat)
    (h0 : nv "0" = 0) (h1 : nv "1" = 1) (hk : nv (toString k) = k) (hc : nv (toString count) = count) :
    evZ nv (rankIndexPy neg k count) = rankIndex (if neg then -(k : Int) else k) count := by
  cases neg <;>
    simp only [rankIndexPy, numPy, natPy, evZ, evB, h0, h1, hk, hc, rankIndex, Bool.or_eq_true,
      decide_eq_true_eq, Bool.false_eq_true, if_false, if_true]

theorem rankIndex_in (k : Int) (count : Nat) (h1 : 1 ≤ k) (h2 : k ≤ count) :
    rankIndex k count = k - 1 ∧ 0 ≤ k - 1 ∧ k - 1 < count := by
  unfold rankIndex
  have : ¬ (k < 0 ∨ k > count) := by omega
  simp [this]; omega

theorem rankIndex_out (k : Int) (count : Nat) (h : k < 0 ∨ k > count) : rankIndex k count = count - 1 := by
  simp [rankIndex, h]

theorem rankIndex_zero (count : Nat) : rankIndex 0 count = -1 := by
  simp [rankIndex]

/-- **size** is the literal number of outer keys (the documented "vector size") -/
theorem size_spec (e : Elem) (ha : e.arrayed = true) : aggTerm .size e = some (natPy e.keys.length) := by
  simp [aggTerm, ha, aggArr]

/-- numpy's shape rules for the operations of the property, stated independently of the code:
element-wise operators need equal shapes or a scalar; `dot` follows `np.dot` on 0/1/2-dimensional
operands, except that scalar·scalar is refused. -/
inductive Shape
  | sc
  | v (m : Nat)
  | mx (m n : Nat)
deriving DecidableEq, Repr

def npEw : Shape → Shape → Option Shape
  | .sc, s => some s
  | s, .sc => some s
  | s, t => if s = t then some s else none

def npDot : Shape → Shape → Option Shape
  | .sc, .sc => none
  | .sc, s => some s
  | s, .sc => some s
  | .v m, .v m' => if m = m' then some .sc else none
  | .v m, .mx m' n => if m = m' then some (.v n) else none
  | .mx m n, .v n' => if n = n' then some (.v m) else none
  | .mx m n, .mx n' p => if n = n' then some (.mx m p) else none

/-- how an element of a given shape reports its dimensions (`matrix_size`) -/
def Shape.dims : Shape → Dims
  | .sc => .val
  | .v m => .d2 m 0
  | .mx m n => .d2 m n

/-- the shape a resolved dimension stands for -/
def Dims.shape : Dims → Shape
  | .val => .sc
  | .d1 m => .v m
  | .d2 m n => if n = 0 then .v m else .mx m n

def Shape.ok : Shape → Prop
  | .sc => True
  | .v m => m ≠ 0
  | .mx m n => m ≠ 0 ∧ n ≠ 0

/-- **dimension rules** (`resolve_dimensions`): for operands reporting the dimensions of shapes `s`, `t`
(any sizes, including 1×N, N×1, 1×1 and length-1 vectors) the resolved result dimensions are exactly
numpy's result shape, and every mismatch is a rejection. -/
theorem dims_spec (f : Form) (a b : Operand) (s t : Shape) (hs : s.ok) (ht : t.ok)
    (ha : a.dims = s.dims) (hb : b.dims = t.dims) :
    (resolve f a b).map Dims.shape = (match f with | .dot => npDot s t | _ => npEw s t) := by
  cases f with
  | dot =>
    simp only [resolve, resolveDot, ha, hb]
    cases s <;> cases t <;> simp_all [Shape.dims, npDot, Dims.shape, Shape.ok]
    all_goals (try omega)
  | ew o =>
    simp only [resolve, resolveEw, ha, hb]
    cases s <;> cases t <;> simp_all [Shape.dims, npEw, Dims.shape, Shape.ok]
    all_goals (try omega)
  | nmul =>
    simp only [resolve, resolveEw, ha, hb]
    cases s <;> cases t <;> simp_all [Shape.dims, npEw, Dims.shape, Shape.ok]
    all_goals (try omega)

/-- a rejected resolution rejects the equation: `expand` is `none` whenever the constructor check or
the dimension rules refuse the operands -/
theorem expand_none_of_resolve (f : Form) (a b : Operand) (harr : (a.arrayed || b.arrayed) = true)
    (h : resolve f a b = none) : expand f a b = none := by
  unfold expand
  split
  · rfl
  · simp [harr, h]

theorem expand_none_of_ctor (f : Form) (a b : Operand) (h : ctorOK f a b = false) : expand f a b = none := by
  simp [expand, h]

/-! ### the entries of a result are the per-index terms -/

theorem optAll_eq {α} (l : List (Option α)) (xs : List α) (h : optAll l = some xs) : l = xs.map some := by
  induction l generalizing xs with
  | nil => simp [optAll] at h; subst h; rfl
  | cons a l ih =>
    cases a with
    | none => simp [optAll] at h
    | some a =>
      simp only [optAll, Option.map_eq_some_iff] at h
      obtain ⟨ys, hys, rfl⟩ := h
      simp [ih ys hys]

theorem optAll_range {α} (m : Nat) (F : Nat → Option α) (xs : List α)
    (h : optAll ((List.range m).map F) = some xs) (i : Nat) (x : α) (hx : xs[i]? = some x) : F i = some x := by
  have h1 := optAll_eq _ _ h
  have h2 : ((List.range m).map F)[i]? = (xs.map some)[i]? := by rw [h1]
  simp only [List.getElem?_map, hx, Option.map_some] at h2
  cases hr : (List.range m)[i]? with
  | none => simp [hr] at h2
  | some k =>
    have : k = i := by
      have := List.getElem?_eq_some_iff.mp hr
      obtain ⟨hlt, hk⟩ := this
      simpa using hk.symm
    subst this
    simpa [hr] using h2

/-- entry (i, j) of a matrix result is the term of the clone carrying index `[i, j]` -/
theorem matEntries_entry (f : Form) (a b : Operand) (m n : Nat) (rows : List (List Py))
    (h : matEntries f a b m n = some rows) (i j : Nat) (row : List Py) (p : Py)
    (hr : rows[i]? = some row) (hp : row[j]? = some p) : termAt f a b [.i i, .i j] = some p := by
  have h1 := optAll_range m _ rows h i row hr
  exact optAll_range n _ row h1 j p hp

/-- entry i of an indexed vector result is the term of the clone carrying index `[i]` -/
theorem vecEntries_entry (f : Form) (a b : Operand) (m : Nat) (es : List (Key × Py))
    (h : vecEntries f a b false m = some es) (i : Nat) (kp : Key × Py) (hk : es[i]? = some kp) :
    kp.1 = .i i ∧ termAt f a b [.i i] = some kp.2 := by
  have h1 := optAll_range m _ es h i kp hk
  simp only [Bool.false_eq_true, if_false, Option.map_eq_some_iff] at h1
  obtain ⟨p, hp, rfl⟩ := h1
  exact ⟨rfl, hp⟩

/-! ## C10 at full strength (for the modelled operand kinds) -/

/-- For ALL operator forms, operands (numbers, scalar elements, vectors and matrices of any size,
indexed or named), indices, commutative semirings `R` and value assignments `ρ`:
* (syntax) every emitted per-element expression and every aggregate expression is well-levelled and its
  printed text parses (CPython precedence) back to exactly the modelled tree;
* (element-wise) the expression at index `idx` evaluates to `A[idx] ∘ B[idx]` with scalars broadcast;
* (number*array) to `x * A[idx]`;
* (dot) matrix·matrix = `Matrix.mul`, matrix·vector = `mulVec`, vector·matrix = `vecMul`,
  vector·vector = `dotProduct`, array·scalar = entry times value;
* (aggregates) sum / product evaluate to the list sum / product of all entries in row-major order (for an
  indexed matrix: Mathlib's double sum); rank sorts exactly the row-major entry list and indexes it with
  `count-1` if `k<0 ∨ k>count` else `k-1`; mean/median/std of a vector receive exactly the entry list;
  size is the number of outer keys;
* (shapes) resolved dimensions = numpy's result shape for every pair of shapes, every mismatch (incl. 1×N,
  N×1, 1×1) is a rejection, and a refused constructor check / resolution rejects the whole equation;
* the entries of a matrix / vector result are the per-index terms the clauses above speak about. -/
def C10_full : Prop :=
  (∀ f a b r, expand f a b = some r → ∀ p ∈ r.exprs, WLb 0 p = true ∧ Parses (pr p) p) ∧
  (∀ g e p, aggTerm g e = some p → WLb 0 p = true ∧ Parses (pr p) p) ∧
  (∀ (R : Type) [CommSemiring R] (O : Ops R) (ρ : String → R) (σ : Nat → V R),
    (∀ o a b idx p, termAt (.ew o) a b idx = some p →
      ∃ x y, a.valAt O ρ idx = some x ∧ b.valAt O ρ idx = some y ∧ eval (car O ρ) σ p = .r (ewVal O o x y)) ∧
    (∀ a b idx p, termAt .nmul a b idx = some p →
      ∃ x y, a.valAt O ρ idx = some x ∧ b.valAt O ρ idx = some y ∧ eval (car O ρ) σ p = .r (y * x)) ∧
    (∀ A B m n p, 0 < n → ∀ (i : Fin m) (j : Fin p),
      ∃ e, termAt .dot (.el (.mat A m n)) (.el (.mat B n p)) [.i i, .i j] = some e ∧
        eval (car O ρ) σ e = .r ((valM ρ A m n * valM ρ B n p) i j)) ∧
    (∀ A v m n, 0 < n → ∀ (i : Fin m),
      ∃ e, termAt .dot (.el (.mat A m n)) (.el (.vec v n)) [.i i] = some e ∧
        eval (car O ρ) σ e = .r (Matrix.mulVec (valM ρ A m n) (valV ρ v n) i)) ∧
    (∀ v A m n, 0 < m → ∀ (j : Fin n),
      ∃ e, termAt .dot (.el (.vec v m)) (.el (.mat A m n)) [.i j] = some e ∧
        eval (car O ρ) σ e = .r (Matrix.vecMul (valV ρ v m) (valM ρ A m n) j)) ∧
    (∀ v w m, 0 < m →
      ∃ e, termNoIndex .dot (.el (.vec v m)) (.el (.vec w m)) = some e ∧
        eval (car O ρ) σ e = .r (dotProduct (valV ρ v m) (valV ρ w m))) ∧
    (∀ a b idx p, b.dims = .val → a.dims ≠ .val → termAt .dot a b idx = some p →
      ∃ x y, a.valAt O ρ idx = some x ∧ b.valAt O ρ idx = some y ∧ eval (car O ρ) σ p = .r (x * y)) ∧
    (∀ e p, e.arrayed = true → aggTerm .sum e = some p → eval (car O ρ) σ p = .r (e.vals ρ).sum) ∧
    (∀ e p, e.arrayed = true → aggTerm .prod e = some p → eval (car O ρ) σ p = .r (e.vals ρ).prod) ∧
    (∀ A m n, 0 < n → ((Elem.mat A m n).vals ρ).sum = ∑ i : Fin m, ∑ j : Fin n, valM ρ A m n i j) ∧
    (∀ e neg k, e.arrayed = true →
      aggTerm (.rank neg k) e = some (.index (sortedCall e) (rankIndexPy neg k e.count)) ∧
        eval (car O ρ) σ (sortedCall e) = .lst (O.sortDesc (e.vals ρ))) ∧
    (∀ (e : Elem) (fn : String), e.inner.isEmpty = true →
      eval (car O ρ) σ (npCall fn e.display) = .r (O.fn fn (e.vals ρ)))) ∧
  (∀ (nv : String → Int) (neg : Bool) (k count : Nat), nv "0" = 0 → nv "1" = 1 → nv (toString k) = (k : Int) → nv (toString count) = (count : Int) →
    evZ nv (rankIndexPy neg k count) = rankIndex (if neg then -(k : Int) else k) count) ∧
  (∀ e, e.arrayed = true → aggTerm .size e = some (natPy e.keys.length)) ∧
  (∀ f a b s t, Shape.ok s → Shape.ok t → a.dims = s.dims → b.dims = t.dims →
    (resolve f a b).map Dims.shape = (match f with | .dot => npDot s t | _ => npEw s t)) ∧
  (∀ f a b, (a.arrayed || b.arrayed) = true → resolve f a b = none → expand f a b = none) ∧
  (∀ f a b, ctorOK f a b = false → expand f a b = none) ∧
  (∀ f a b m n rows, matEntries f a b m n = some rows → ∀ i j row p, rows[i]? = some row → row[j]? = some p →
    termAt f a b [.i i, .i j] = some p) ∧
  (∀ f a b m es, vecEntries f a b false m = some es → ∀ i kp, es[i]? = some kp →
    kp.1 = .i i ∧ termAt f a b [.i i] = some kp.2)

theorem C10_full_holds : C10_full := by
  refine ⟨fun f a b r h p hp => ⟨expand_wl f a b r h p hp, expand_parses f a b r h p hp⟩,
    fun g e p h => ⟨aggTerm_wl g e p h, aggTerm_parses g e p h⟩, ?_, ?_, size_spec, dims_spec,
    expand_none_of_resolve, expand_none_of_ctor, matEntries_entry, vecEntries_entry⟩
  · intro R _ O ρ σ
    exact ⟨elementwise_spec O ρ σ, nmul_spec O ρ σ, dot_mm O ρ σ, dot_mv O ρ σ, dot_vm O ρ σ, dot_vv O ρ σ,
      fun a b idx p hb ha h => dot_scalar_right O ρ σ a b idx hb ha p h,
      fun e p ha h => sum_spec O ρ σ e p ha h, fun e p ha h => prod_spec O ρ σ e p ha h,
      mat_vals_sum ρ, fun e neg k ha => rank_args O ρ σ e neg k ha, fun e fn hi => agg_args_vec O ρ σ e fn hi⟩
  · exact rank_index_spec

/-! ### non-vacuity: concrete instances computed by the kernel -/

example : (expand .dot (.el (.mat "A" 2 3)) (.el (.mat "B" 3 2))).map (fun r => r.exprs.length) = some 4 ∧
    (expand .dot (.el (.mat "A" 2 3)) (.el (.mat "B" 2 3))) = none ∧
    (expand (.ew .add) (.el (.vec "v" 3)) (.el (.mat "A" 3 1))) = none ∧
    (expand (.ew .add) (.el (.vec "v" 3)) (.el (.mat "A" 1 3))) = none ∧
    (expand .nmul (.num false "2.0") (.el (.mat "A" 1 1))).map (fun r => r.exprs.map pr)
      = some [[.lp, .name "model", .dot, .name "memoize", .lp, .str "A[0][0]", .comma, .name "t", .rp, .rp,
               .op .mul, .lp, .num "2.0", .rp]] := by decide +kernel

/-- over ℕ with `ρ` = length of the reference name: (1×2 · 2) evaluates to 4·4 + 7·4 … computed -/
example : (match dotTerm (.el (.mat "A" 1 2)) (.el (.vec "v" 2)) [.i 0] with
    | some e => (match eval (car (R := Nat) ⟨Nat.sub, Nat.div, id, fun _ => 0, fun _ _ => 0, id⟩ String.length) (fun _ => .bad) e with
        | .r x => x
        | _ => 0)
    | none => 0) = 7 * 4 + 7 * 4 := by decide +kernel

#print axioms C10_full_holds
#print axioms expand_wl
#print axioms dot_mm
#print axioms dims_spec

end Bptk.C10
