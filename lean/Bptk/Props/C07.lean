import Bptk.Core.C07
/-!
C07 — property theorems.  Quantifier: all dictionaries / stores / file lists / run specs (unbounded).
-/
namespace Bptk.C07
open Bptk.C06

/-! ### dictionary lemmas -/

theorem get_set (s : Store) (k v k' : Nat) :
    Store.get (Store.set s k v) k' = if k' = k then some v else Store.get s k' := by
  induction s with
  | nil =>
      simp only [Store.set, Store.get]
      by_cases h : k = k'
      · subst h; simp
      · have : ¬ k' = k := fun e => h e.symm
        simp [h, this]
  | cons p rest ih =>
      obtain ⟨a, b⟩ := p
      simp only [Store.set]
      by_cases h : a = k
      · subst h
        simp only [if_true, Store.get]
        by_cases h2 : a = k'
        · subst h2; simp
        · have : ¬ k' = a := fun e => h2 e.symm
          simp [h2, this]
      · simp only [if_neg h, Store.get]
        by_cases h2 : a = k'
        · subst h2; simp [h]
        · simp only [if_neg h2]; exact ih

theorem get_append (s t : Store) (k : Nat) :
    Store.get (s ++ t) k = match Store.get s k with | some v => some v | none => Store.get t k := by
  induction s with
  | nil => simp [Store.get]
  | cons p rest ih =>
      obtain ⟨a, b⟩ := p
      simp only [List.cons_append, Store.get]
      split
      · rfl
      · exact ih

/-- `update`: the newest binding wins, older ones remain otherwise -/
theorem get_update (s d : Store) (k : Nat) : Store.get (Store.update s d) k = over (lastOf d) (Store.get s) k := by
  induction d generalizing s with
  | nil => simp [Store.update, over, lastOf, Store.get]
  | cons p rest ih =>
      obtain ⟨a, b⟩ := p
      have h := ih (Store.set s a b)
      simp only [Store.update, List.foldl_cons] at h ⊢
      rw [h]
      simp only [over, lastOf, List.reverse_cons, get_append, get_set, Store.get]
      cases Store.get rest.reverse k with
      | some v => rfl
      | none =>
          simp only []
          by_cases hk : k = a
          · subst hk; simp
          · have : ¬ a = k := fun h => hk h.symm
            simp [hk, this]

/-- `fill`: existing bindings win, the base fills the gaps -/
theorem get_fill (d b : Store) (k : Nat) : Store.get (Store.fill d b) k = oplus d b k := by
  induction b generalizing d with
  | nil => simp [Store.fill, oplus, Store.get]; cases Store.get d k <;> rfl
  | cons p rest ih =>
      obtain ⟨a, v⟩ := p
      simp only [Store.fill, List.foldl_cons]
      cases hd : Store.get d a with
      | some w =>
          have h := ih d
          simp only [Store.fill] at h
          simp only [hd]
          rw [h]
          simp only [oplus, Store.get]
          cases hk : Store.get d k with
          | some x => rfl
          | none =>
              simp only []
              split
              · rename_i hak; subst hak; rw [hd] at hk; cases hk
              · rfl
      | none =>
          have h := ih (d ++ [(a, v)])
          simp only [Store.fill] at h
          simp only [hd]
          rw [h]
          simp only [oplus, get_append, Store.get]
          cases hk : Store.get d k with
          | some x => rfl
          | none =>
              simp only []
              by_cases hak : a = k
              · simp [hak]
              · simp [hak]

/-! ### resolution: `effective = scenario ⊕ base` per channel -/

theorem resolve_dict (mrs : RunSpec) (bc bp : Store) (d : Dict) (k : Nat) :
    Store.get (resolveDict mrs bc bp d).consts k = oplus d.consts bc k ∧
    Store.get (resolveDict mrs bc bp d).pts k = oplus d.pts bp k ∧
    (resolveDict mrs bc bp d).rs = mrs.override d :=
  ⟨get_fill _ _ _, get_fill _ _ _, rfl⟩

theorem resolve_file (c : Cfg) (hc : c.fileRunspecsKept = true) (mrs : RunSpec) (files : List FileEntry) (d : Dict) (k : Nat) :
    Store.get (resolveFile c mrs files d).consts k = oplus d.consts (allBaseConsts files) k ∧
    Store.get (resolveFile c mrs files d).pts k = oplus d.pts (allBasePts files) k ∧
    (resolveFile c mrs files d).rs = mrs.override d :=
  ⟨get_fill _ _ _, get_fill _ _ _, by simp [resolveFile, hc]⟩

theorem resolve_settings (s : Settings) (d : Dict) (k : Nat) :
    Store.get (resolveSettings s d).consts k = over (lastOf d.consts) (Store.get s.consts) k ∧
    Store.get (resolveSettings s d).pts k = over (lastOf d.pts) (Store.get s.pts) k ∧
    (resolveSettings s d).rs = s.rs.override d :=
  ⟨get_update _ _ _, get_update _ _ _, rfl⟩

/-- base values spread over several files: a key defined in exactly one place is found wherever that
file sits in the list (two-file form; duplicate base keys are documented as lossy by the code). -/
theorem multi_file_merge (f g : FileEntry) (k : Nat)
    (hdis : Store.get f.bc k = none ∨ Store.get g.bc k = none) :
    Store.get (allBaseConsts [f, g]) k = Store.get (allBaseConsts [g, f]) k := by
  simp only [allBaseConsts, List.foldl_cons, List.foldl_nil, get_update, over, Store.get]
  have key : ∀ s : Store, Store.get s k = none → lastOf s k = none := by
    intro s; simp only [lastOf]
    induction s with
    | nil => intro _; rfl
    | cons p rest ih =>
        obtain ⟨a, b⟩ := p
        simp only [Store.get, List.reverse_cons, get_append]
        split
        · intro h; cases h
        · intro h; rw [ih h]
  cases hdis with
  | inl h => rw [key _ h]
  | inr h => rw [key _ h]

/-! ### application: what the simulated model carries = the effective settings -/

/-- C07 at full strength for one scenario: whatever the channel delivered (`s`), the model that is
simulated reads, for every constant and graphical function, the scenario's value where it has one and its
own otherwise, and integrates from the scenario's start time to its stop time with its dt; file-channel
run specs are the scenario's. -/
def C07_full (c : Cfg) : Prop :=
  (∀ (m : ModelSt) (s : Settings) (k : Nat),
    (applyTo c m s).const k = over (lastOf s.consts) m.const k ∧
    (applyTo c m s).points k = over (lastOf s.pts) m.points k ∧
    (applyTo c m s).rs = s.rs) ∧
  (∀ (mrs : RunSpec) (files : List FileEntry) (d : Dict), (resolveFile c mrs files d).rs = mrs.override d)

theorem C07_partial (c : Cfg) (m : ModelSt) (s : Settings) (k : Nat) :
    (applyTo c m s).const k = over (lastOf s.consts) m.const k ∧
    (applyTo c m s).points k = over (lastOf s.pts) m.points k ∧
    (applyTo c m s).rs.stop = s.rs.stop ∧ (applyTo c m s).rs.dt = s.rs.dt :=
  ⟨get_update _ _ _, get_update _ _ _, rfl, rfl⟩

theorem C07_full_of_good (c : Cfg) (h : c.good = true) : C07_full c := by
  simp only [Cfg.good, Bool.and_eq_true] at h
  refine ⟨fun m s k => ⟨get_update _ _ _, get_update _ _ _, ?_⟩, fun mrs files d => by simp [resolveFile, h.2]⟩
  simp [applyTo, h.1]

/-- `applied = effective` composed with the dict channel: scenario wins, base fills, model's own otherwise
(for dictionaries without repeated keys `lastOf = get`; stated through `lastOf` of the completed store). -/
theorem C07_applied_dict (c : Cfg) (h : c.good = true) (m : ModelSt) (bc bp : Store) (d : Dict) (k : Nat) :
    (applyTo c m (resolveDict m.rs bc bp d)).rs = m.rs.override d ∧
    (applyTo c m (resolveDict m.rs bc bp d)).const k = over (lastOf (Store.fill d.consts bc)) m.const k :=
  ⟨((C07_full_of_good c h).1 m _ k).2.2, ((C07_full_of_good c h).1 m _ k).1⟩

/-- a scenario without overrides under a manager without base values reproduces the model's own behaviour -/
theorem C07_no_override (c : Cfg) (h : c.good = true) (m : ModelSt) :
    applyTo c m (resolveDict m.rs [] [] { consts := [], pts := [], start := none, stop := none, dt := none }) = m := by
  simp only [Cfg.good, Bool.and_eq_true] at h
  simp [applyTo, resolveDict, Store.fill, Store.update, RunSpec.override, h.1]

theorem C07_witness_start (c : Cfg) (h : c.runspecStartApplied = false) : ¬ C07_full c := by
  intro hf
  have := (hf.1 { eqs := [], pts := [], rs := ⟨0, 4, 1⟩ } { consts := [], pts := [], rs := ⟨1, 3, 1⟩ } 0).2.2
  obtain ⟨a, b⟩ := c
  simp only at h; subst h
  revert this; cases b <;> decide

theorem C07_witness_file (c : Cfg) (h : c.fileRunspecsKept = false) : ¬ C07_full c := by
  intro hf
  have := hf.2 ⟨0, 4, 1⟩ [] { consts := [], pts := [], start := some 1, stop := some 3, dt := none }
  obtain ⟨a, b⟩ := c
  simp only at h; subst h
  revert this; cases a <;> decide

/-- Non-vacuity: base constants spread over two files, scenario overriding one of them, run specs given. -/
example :
    let files : List FileEntry := [⟨[(0, 5), (1, 6)], [], []⟩, ⟨[(2, 7)], [(0, 9)], []⟩]
    let s := resolveFile ⟨true, true⟩ ⟨0, 4, 2⟩ files { consts := [(1, 60)], pts := [], start := some 1, stop := none, dt := some 1 }
    (Store.get s.consts 0, Store.get s.consts 1, Store.get s.consts 2, Store.get s.pts 0, s.rs) =
      (some 5, some 60, some 7, some 9, ⟨1, 4, 1⟩) := by decide

#print axioms C07_full_of_good
#print axioms C07_partial
#print axioms C07_applied_dict
#print axioms C07_no_override
#print axioms C07_witness_start
#print axioms C07_witness_file
#print axioms resolve_dict
#print axioms resolve_file
#print axioms resolve_settings
#print axioms multi_file_merge

end Bptk.C07
