import Bptk.Core.C07
/-!
C07 — property theorems.  Quantifier: all dictionaries / stores / file lists / run specs (unbounded).
-/
namespace Bptk.C07
open Bptk.C06

/-! ### dictionary lemmas -/

theorem get_set (s : Store) (k v k' : Nat) :
    Store.get (Store.set s k v) k' = if k' = k then some v else Store.get s k' := by
  induction s with
  | nil =>
      simp only [Store.set, Store.get]
      by_cases h : k = k'
      · subst h; simp
      · have : ¬ k' = k := fun e => h e.symm
        simp [h, this]
  | cons p rest ih =>
      obtain ⟨a, b⟩ := p
      simp only [Store.set]
      by_cases h : a = k
      · subst h
        simp only [if_true, Store.get]
        by_cases h2 : a = k'
        · subst h2; simp
        · have : ¬ k' = a := fun e => h2 e.symm
          simp [h2, this]
      · simp only [if_neg h, Store.get]
        by_cases h2 : a = k'
        · subst h2; simp [h]
        · simp only [if_neg h2]; exact ih

theorem get_append (s t : Store) (k : Nat) :
    Store.get (s ++ t) k = match Store.get s k with | some v => some v | none => Store.get t k := by
  induction s with
  | nil => simp [Store.get]
  | cons p rest ih =>
      obtain ⟨a, b⟩ := p
      simp only [List.cons_append, Store.get]
      split
      · rfl
      · exact ih

/-- `update`: the newest binding wins, older ones remain otherwise -/
theorem get_update (s d : Store) (k : Nat) : Store.get (Store.update s d) k = over (lastOf d) (Store.get s) k := by
  induction d generalizing s with
  | nil => simp [Store.update, over, lastOf, Store.get]
  | cons p rest ih =>
      obtain ⟨a, b⟩ := p
      have h := ih (Store.set s a b)
      simp only [Store.update, List.foldl_cons] at h ⊢
      rw [h]
      simp only [over, lastOf, List.reverse_cons, get_append, get_set, Store.get]
      cases Store.get rest.reverse k with
      | some v => rfl
      | none =>
          simp only []
          by_cases hk : k = a
          · subst hk; simp
          · have : ¬ a = k := fun h => hk h.symm
            simp [hk, this]

/-- `fill`: existing bindings win, the base fills the gaps -/
theorem get_fill (d b : Store) (k : Nat) : Store.get (Store.fill d b) k = oplus d b k := by
  induction b generalizing d with
  | nil => simp [Store.fill, oplus, Store.get]; cases Store.get d k <;> rfl
  | cons p rest ih =>
      obtain ⟨a, v⟩ := p
      simp only [Store.fill, List.foldl_cons]
      cases hd : Store.get d a with
      | some w =>
          have h := ih d
          simp only [Store.fill] at h
          simp only [hd]
          rw [h]
          simp only [oplus, Store.get]
          cases hk : Store.get d k with
          | some x => rfl
          | none =>
              simp only []
              split
              · rename_i hak; subst hak; rw [hd] at hk; cases hk
              · rfl
      | none =>
          have h := ih (d ++ [(a, v)])
          simp only [Store.fill] at h
          simp only [hd]
          rw [h]
          simp only [oplus, get_append, Store.get]
          cases hk : Store.get d k with
          | some x => rfl
          | none =>
              simp only []
              by_cases hak : a = k
              · simp [hak]
              · simp [hak]

/-! ### resolution: `effective = scenario ⊕ base` per channel -/

theorem resolve_dict (mrs : RunSpec) (bc bp : Store) (d : Dict) (k : Nat) :
    Store.get (resolveDict mrs bc bp d).consts k = oplus d.consts bc k ∧
    Store.get (resolveDict mrs bc bp d).pts k = oplus d.pts bp k ∧
    (resolveDict mrs bc bp d).rs = mrs.override d :=
  ⟨get_fill _ _ _, get_fill _ _ _, rfl⟩

theorem resolve_file (c : Cfg) (hc : c.fileRunspecsKept = true) (mrs : RunSpec) (files : List FileEntry) (d : Dict) (k : Nat) :
    Store.get (resolveFile c mrs files d).consts k = oplus d.consts (allBaseConsts files) k ∧
    Store.get (resolveFile c mrs files d).pts k = oplus d.pts (allBasePts files) k ∧
    (resolveFile c mrs files d).rs = mrs.override d :=
  ⟨get_fill _ _ _, get_fill _ _ _, by simp [resolveFile, hc]⟩

theorem resolve_settings (s : Settings) (d : Dict) (k : Nat) :
    Store.get (resolveSettings s d).consts k = over (lastOf d.consts) (Store.get s.consts) k ∧
    Store.get (resolveSettings s d).pts k = over (lastOf d.pts) (Store.get s.pts) k ∧
    (resolveSettings s d).rs = s.rs.override d :=
  ⟨get_update _ _ _, get_update _ _ _, rfl⟩

/-- base values spread over several files: a key defined in exactly one place is found wherever that
file sits in the list (two-file form; duplicate base keys are documented as lossy by the code). -/
theorem multi_file_merge (f g : FileEntry) (k : Nat)
    (hdis : Store.get f.bc k = none ∨ Store.get g.bc k = none) :
    Store.get (allBaseConsts [f, g]) k = Store.get (allBaseConsts [g, f]) k := by
  simp only [allBaseConsts, List.foldl_cons, List.foldl_nil, get_update, over, Store.get]
  have key : ∀ s : Store, Store.get s k = none → lastOf s k = none := by
    intro s; simp only [lastOf]
    induction s with
    | nil => intro _; rfl
    | cons p rest ih =>
        obtain ⟨a, b⟩ := p
        simp only [Store.get, List.reverse_cons, get_append]
        split
        · intro h; cases h
        · intro h; rw [ih h]
  cases hdis with
  | inl h => rw [key _ h]
  | inr h => rw [key _ h]

/-- `get = none → lastOf = none` (a key that is not bound has no last binding) -/
theorem lastOf_none_of_get_none (s : Store) (k : Nat) (h : Store.get s k = none) : lastOf s k = none := by
  simp only [lastOf]
  induction s with
  | nil => rfl
  | cons p rest ih =>
      obtain ⟨a, b⟩ := p
      simp only [Store.get, List.reverse_cons, get_append] at h ⊢
      split at h
      · cases h
      · rw [ih h]; rename_i hne; simp [hne]

/-- the fold of `__get_all_base_constants/points` over ANY number of files: the last file (in reading
order) that binds the key decides, the accumulator answers otherwise -/
theorem get_foldl_update (p : FileEntry → Store) (fs : List FileEntry) (acc : Store) (k : Nat) :
    Store.get (fs.foldl (fun a f => Store.update a (p f)) acc) k =
      match lastDef p fs k with | some v => some v | none => Store.get acc k := by
  induction fs generalizing acc with
  | nil => simp [lastDef]
  | cons f rest ih =>
      simp only [List.foldl_cons, lastDef]
      rw [ih]
      cases lastDef p rest k with
      | some v => rfl
      | none => simp only [get_update, over]; cases lastOf (p f) k <;> rfl

theorem allBaseConsts_eq (fs : List FileEntry) (k : Nat) :
    Store.get (allBaseConsts fs) k = lastDef (·.bc) fs k := by
  simp only [allBaseConsts]
  rw [get_foldl_update (·.bc)]
  cases lastDef (·.bc) fs k <;> simp [Store.get]

theorem allBasePts_eq (fs : List FileEntry) (k : Nat) :
    Store.get (allBasePts fs) k = lastDef (·.bp) fs k := by
  simp only [allBasePts]
  rw [get_foldl_update (·.bp)]
  cases lastDef (·.bp) fs k <;> simp [Store.get]

theorem lastDef_none (p : FileEntry → Store) (fs : List FileEntry) (k : Nat) :
    lastDef p fs k = none ↔ ∀ f ∈ fs, lastOf (p f) k = none := by
  induction fs with
  | nil => simp [lastDef]
  | cons f rest ih =>
      simp only [lastDef, List.mem_cons, forall_eq_or_imp]
      cases h : lastDef p rest k with
      | some v =>
          simp only [reduceCtorEq, false_iff]
          intro ⟨_, h2⟩
          rw [ih.mpr h2] at h; cases h
      | none => simp only []; exact ⟨fun h1 => ⟨h1, ih.mp h⟩, fun h1 => h1.1⟩

theorem lastDef_some (p : FileEntry → Store) (fs : List FileEntry) (k v : Nat) (h : lastDef p fs k = some v) :
    ∃ f ∈ fs, lastOf (p f) k = some v := by
  induction fs with
  | nil => simp [lastDef] at h
  | cons f rest ih =>
      simp only [lastDef] at h
      cases h2 : lastDef p rest k with
      | some w =>
          rw [h2] at h; simp only [Option.some.injEq] at h; subst h
          obtain ⟨g, hg, hv⟩ := ih h2
          exact ⟨g, List.mem_cons_of_mem _ hg, hv⟩
      | none => rw [h2] at h; exact ⟨f, List.mem_cons_self, h⟩

/-- **n files, any order.**  If the files that bind a base key agree on its value (in particular: if no
key is bound by two files), the merged base value of that key does not depend on the order in which the
files are read, nor on how often a file is listed: two file lists with the same members give the same value. -/
theorem merge_consistent (p : FileEntry → Store) (fs fs' : List FileEntry) (k : Nat)
    (hmem : ∀ f, f ∈ fs ↔ f ∈ fs')
    (hcons : ∀ f ∈ fs, ∀ g ∈ fs, ∀ v w, lastOf (p f) k = some v → lastOf (p g) k = some w → v = w) :
    lastDef p fs k = lastDef p fs' k := by
  cases h : lastDef p fs k with
  | none =>
      have h1 := (lastDef_none p fs k).mp h
      exact ((lastDef_none p fs' k).mpr fun f hf => h1 f ((hmem f).mpr hf)).symm
  | some v =>
      obtain ⟨f, hf, hv⟩ := lastDef_some p fs k v h
      cases h' : lastDef p fs' k with
      | none =>
          have := (lastDef_none p fs' k).mp h' f ((hmem f).mp hf)
          rw [this] at hv; cases hv
      | some w =>
          obtain ⟨g, hg, hw⟩ := lastDef_some p fs' k w h'
          rw [hcons f hf g ((hmem g).mpr hg) v w hv hw]

/-- pairwise key-disjoint files are consistent -/
theorem consistent_of_pairwise (p : FileEntry → Store) (fs : List FileEntry) (k : Nat)
    (hd : fs.Pairwise (fun f g => Store.get (p f) k = none ∨ Store.get (p g) k = none)) :
    ∀ f ∈ fs, ∀ g ∈ fs, ∀ v w, lastOf (p f) k = some v → lastOf (p g) k = some w → v = w := by
  induction fs with
  | nil => intro f hf; cases hf
  | cons x xs ih =>
      rw [List.pairwise_cons] at hd
      intro f hf g hg v w hv hw
      have clash : ∀ a ∈ xs, ∀ u u', lastOf (p x) k = some u → lastOf (p a) k = some u' → False := by
        intro a ha u u' h1 h2
        cases hd.1 a ha with
        | inl h => rw [lastOf_none_of_get_none _ _ h] at h1; cases h1
        | inr h => rw [lastOf_none_of_get_none _ _ h] at h2; cases h2
      rcases List.mem_cons.mp hf with rfl | hf' <;> rcases List.mem_cons.mp hg with rfl | hg'
      · rw [hv] at hw; exact Option.some.inj hw
      · exact (clash g hg' v w hv hw).elim
      · exact (clash f hf' w v hw hv).elim
      · exact ih hd.2 f hf' g hg' v w hv hw

/-- **`multi_file_merge` for n files**: base constants and base points spread over any number of files
with no key bound by two files: every permutation of the file list yields the same base values. -/
theorem multi_file_merge_n (fs fs' : List FileEntry) (k : Nat) (hperm : fs.Perm fs')
    (hc : fs.Pairwise (fun f g => Store.get f.bc k = none ∨ Store.get g.bc k = none))
    (hp : fs.Pairwise (fun f g => Store.get f.bp k = none ∨ Store.get g.bp k = none)) :
    Store.get (allBaseConsts fs) k = Store.get (allBaseConsts fs') k ∧
    Store.get (allBasePts fs) k = Store.get (allBasePts fs') k := by
  rw [allBaseConsts_eq, allBaseConsts_eq, allBasePts_eq, allBasePts_eq]
  exact ⟨merge_consistent (·.bc) fs fs' k (fun f => hperm.mem_iff) (consistent_of_pairwise (·.bc) fs k hc),
         merge_consistent (·.bp) fs fs' k (fun f => hperm.mem_iff) (consistent_of_pairwise (·.bp) fs k hp)⟩

/-- the effective settings of a file scenario do not depend on the file order (n files) -/
theorem resolve_file_order (c : Cfg) (mrs : RunSpec) (fs fs' : List FileEntry) (d : Dict) (k : Nat) (hperm : fs.Perm fs')
    (hc : fs.Pairwise (fun f g => Store.get f.bc k = none ∨ Store.get g.bc k = none))
    (hp : fs.Pairwise (fun f g => Store.get f.bp k = none ∨ Store.get g.bp k = none)) :
    Store.get (resolveFile c mrs fs d).consts k = Store.get (resolveFile c mrs fs' d).consts k ∧
    Store.get (resolveFile c mrs fs d).pts k = Store.get (resolveFile c mrs fs' d).pts k := by
  obtain ⟨h1, h2⟩ := multi_file_merge_n fs fs' k hperm hc hp
  simp only [resolveFile, get_fill, oplus, h1, h2, and_self]

/-! ### application: what the simulated model carries = the effective settings -/

/-! ### the sibling clause: base values apply to every scenario of the manager unless it overrides them -/

/-- the shared machine and the per-scenario references are in step -/
structure MInv (bc bp : Store) (st : MState) (σ : Nat → Option Settings) : Prop where
  bc_eq : st.bc = bc
  bp_eq : st.bp = bp
  view_eq : ∀ i, mview st i = σ i
  noalias : ∀ i s, st.scns i = some s → s.cAlias = false ∧ s.pAlias = false

theorem minv_init (bc bp : Store) : MInv bc bp (MState.init bc bp) (fun _ => none) :=
  ⟨rfl, rfl, fun _ => rfl, fun i s h => by simp [MState.init] at h⟩

theorem minv_step (c : Cfg) (hc : c.scenarioOwnsDicts = true) (mrs : RunSpec) (bc bp : Store) (st : MState)
    (σ : Nat → Option Settings) (inv : MInv bc bp st σ) (op : MOp) :
    MInv bc bp (mstep c mrs st op) (fun i => msoloStep mrs bc bp i (σ i) op) := by
  obtain ⟨hbc, hbp, hview, hna⟩ := inv
  cases op with
  | add j d =>
      refine ⟨hbc, hbp, ?_, ?_⟩
      · intro i
        simp only [mstep, hc, Bool.not_true, Bool.false_and, mview, updFn, msoloStep]
        by_cases hij : i = j
        · subst hij; simp [resolveDict, hbc, hbp]
        · have : ¬ j = i := fun e => hij e.symm
          simp only [hij, this, if_false]
          have := hview i; simp only [mview] at this; exact this
      · intro i s hs
        simp only [mstep, hc, Bool.not_true, Bool.false_and, updFn] at hs
        by_cases hij : i = j
        · simp only [hij, if_true, Option.some.injEq] at hs; subst hs; exact ⟨rfl, rfl⟩
        · simp only [hij, if_false] at hs; exact hna i s hs
  | configure j d =>
      cases hj : st.scns j with
      | none =>
          have e : mstep c mrs st (.configure j d) = st := by simp [mstep, hj]
          rw [e]
          refine ⟨hbc, hbp, ?_, hna⟩
          intro i
          simp only [msoloStep]
          by_cases hij : j = i
          · subst hij
            have := hview j; simp only [mview, hj, Option.map_none] at this
            simp [← this, mview, hj]
          · simp only [hij, if_false]; exact hview i
      | some s =>
          obtain ⟨hca, hpa⟩ := hna j s hj
          refine ⟨?_, ?_, ?_, ?_⟩
          · simp [mstep, hj, hca, hbc]
          · simp [mstep, hj, hpa, hbp]
          · intro i
            simp only [mstep, hj, hca, hpa, mview, updFn, msoloStep, Bool.false_eq_true, if_false]
            by_cases hij : i = j
            · subst hij
              have := hview i; simp only [mview, hj, Option.map_some, hca, hpa, Bool.false_eq_true, if_false] at this
              simp [← this, resolveSettings]
            · have hji : ¬ j = i := fun e => hij e.symm
              simp only [hij, hji, if_false]
              have := hview i; simp only [mview] at this; exact this
          · intro i s' hs
            simp only [mstep, hj, updFn] at hs
            by_cases hij : i = j
            · simp only [hij, if_true, Option.some.injEq] at hs; subst hs; exact ⟨hca, hpa⟩
            · simp only [hij, if_false] at hs; exact hna i s' hs

theorem minv_run (c : Cfg) (hc : c.scenarioOwnsDicts = true) (mrs : RunSpec) (bc bp : Store) (ops : List MOp) :
    ∀ (st : MState) (σ : Nat → Option Settings), MInv bc bp st σ →
      MInv bc bp (ops.foldl (mstep c mrs) st) (fun i => ops.foldl (msoloStep mrs bc bp i) (σ i)) := by
  induction ops with
  | nil => intro st σ inv; exact inv
  | cons op rest ih =>
      intro st σ inv
      simp only [List.foldl_cons]
      exact ih _ _ (minv_step c hc mrs bc bp st σ inv op)

/-- **Siblings.**  Whatever is registered on, or set for, other scenarios of the manager — before or after —
scenario `i` carries exactly what the operations addressed to it make of `scenario ⊕ base`, with the base
values the manager was registered with; and the manager's base values stay what they were. -/
theorem siblings_isolated (c : Cfg) (hc : c.scenarioOwnsDicts = true) (mrs : RunSpec) (bc bp : Store) (ops : List MOp) (i : Nat) :
    mview (mexec c mrs bc bp ops) i = msolo mrs bc bp i ops ∧
    (mexec c mrs bc bp ops).bc = bc ∧ (mexec c mrs bc bp ops).bp = bp := by
  have inv := minv_run c hc mrs bc bp ops _ _ (minv_init bc bp)
  exact ⟨inv.view_eq i, inv.bc_eq, inv.bp_eq⟩

theorem msolo_not_addressed (mrs : RunSpec) (bc bp : Store) (i : Nat) (post : List MOp) (h : ∀ op ∈ post, op.addr ≠ i)
    (s : Option Settings) : post.foldl (msoloStep mrs bc bp i) s = s := by
  induction post generalizing s with
  | nil => rfl
  | cons op rest ih =>
      simp only [List.foldl_cons]
      have h1 : msoloStep mrs bc bp i s op = s := by
        have := h op List.mem_cons_self
        cases op <;> simp_all [msoloStep, MOp.addr]
      rw [h1]
      exact ih (fun o ho => h o (List.mem_cons_of_mem _ ho)) s

/-- A scenario registered **without overrides** reads the base values — for every key — when settings were
supplied to siblings *before* its registration (`pre`, arbitrary) and *after* it (`post`, arbitrary operations
addressed to other scenarios). -/
theorem sibling_reads_base (c : Cfg) (hc : c.scenarioOwnsDicts = true) (mrs : RunSpec) (bc bp : Store)
    (pre post : List MOp) (i : Nat) (hpost : ∀ op ∈ post, op.addr ≠ i) :
    ∃ s, mview (mexec c mrs bc bp (pre ++ MOp.add i emptyDict :: post)) i = some s ∧ s.rs = mrs ∧
      ∀ k, Store.get s.consts k = Store.get bc k ∧ Store.get s.pts k = Store.get bp k := by
  refine ⟨resolveDict mrs bc bp emptyDict, ?_, ?_, ?_⟩
  · rw [(siblings_isolated c hc mrs bc bp _ i).1]
    simp only [msolo, List.foldl_append, List.foldl_cons]
    rw [msolo_not_addressed mrs bc bp i post hpost]
    simp [msoloStep]
  · simp [resolveDict, emptyDict, RunSpec.override]
  · intro k
    have := resolve_dict mrs bc bp emptyDict k
    simp only [emptyDict, oplus, Store.get] at this
    exact ⟨this.1, this.2.1⟩

/-- C07 at full strength: (1) whatever the channel delivered (`s`), the model that is
simulated reads, for every constant and graphical function, the scenario's value where it has one and its
own otherwise, and integrates from the scenario's start time to its stop time with its dt; (2) file-channel
run specs are the scenario's; (3) **every** scenario of a manager carries `scenario ⊕ base` completed by the
settings addressed to it — for all histories of registrations and settings on the manager's scenarios —
and the manager's base values are never rewritten; (4) a run-spec override is taken over whenever its key is present —
whatever its value, `starttime: 0` included (registration, scenario files, session settings go through `rsOver`);
(5) application reaches evaluation: after any history of applied settings, evaluations and model-level resets, an
evaluation reads every graphical function from the model's current points table — no derived copy survives a settings change. -/
def C07_full (c : Cfg) : Prop :=
  (∀ (m : ModelSt) (s : Settings) (k : Nat),
    (applyTo c m s).const k = over (lastOf s.consts) m.const k ∧
    (applyTo c m s).points k = over (lastOf s.pts) m.points k ∧
    (applyTo c m s).rs = s.rs) ∧
  (∀ (mrs : RunSpec) (files : List FileEntry) (d : Dict), (resolveFile c mrs files d).rs = mrs.override d) ∧
  (∀ (mrs : RunSpec) (bc bp : Store) (ops : List MOp) (i : Nat),
    mview (mexec c mrs bc bp ops) i = msolo mrs bc bp i ops ∧
    (mexec c mrs bc bp ops).bc = bc ∧ (mexec c mrs bc bp ops).bp = bp) ∧
  (∀ (r : RunSpec) (d : Dict), rsOver c r d = r.override d) ∧
  (∀ (m : ModelSt) (ops : List EOp) (k : Nat), readPts c (eexec c m ops) k = (eexec c m ops).m.points k)

theorem C07_partial (c : Cfg) (m : ModelSt) (s : Settings) (k : Nat) :
    (applyTo c m s).const k = over (lastOf s.consts) m.const k ∧
    (applyTo c m s).points k = over (lastOf s.pts) m.points k ∧
    (applyTo c m s).rs.stop = s.rs.stop ∧ (applyTo c m s).rs.dt = s.rs.dt :=
  ⟨get_update _ _ _, get_update _ _ _, rfl, rfl⟩

theorem C07_full_of_good (c : Cfg) (h : c.good = true) : C07_full c := by
  simp only [Cfg.good, Bool.and_eq_true] at h
  refine ⟨fun m s k => ⟨get_update _ _ _, get_update _ _ _, ?_⟩, fun mrs files d => by simp [resolveFile, h.1.1.1.2],
          fun mrs bc bp ops i => siblings_isolated c h.1.1.2 mrs bc bp ops i, fun r d => by simp [rsOver, h.1.2],
          fun m ops k => by simp [readPts, h.2]⟩
  simp [applyTo, h.1.1.1.1]

/-- `applied = effective` composed with the dict channel: scenario wins, base fills, model's own otherwise
(for dictionaries without repeated keys `lastOf = get`; stated through `lastOf` of the completed store). -/
theorem C07_applied_dict (c : Cfg) (h : c.good = true) (m : ModelSt) (bc bp : Store) (d : Dict) (k : Nat) :
    (applyTo c m (resolveDict m.rs bc bp d)).rs = m.rs.override d ∧
    (applyTo c m (resolveDict m.rs bc bp d)).const k = over (lastOf (Store.fill d.consts bc)) m.const k :=
  ⟨((C07_full_of_good c h).1 m _ k).2.2, ((C07_full_of_good c h).1 m _ k).1⟩

/-- a scenario without overrides under a manager without base values reproduces the model's own behaviour -/
theorem C07_no_override (c : Cfg) (h : c.good = true) (m : ModelSt) :
    applyTo c m (resolveDict m.rs [] [] { consts := [], pts := [], start := none, stop := none, dt := none }) = m := by
  simp only [Cfg.good, Bool.and_eq_true] at h
  simp [applyTo, resolveDict, Store.fill, Store.update, RunSpec.override, h.1.1.1.1]

theorem C07_witness_start (c : Cfg) (h : c.runspecStartApplied = false) : ¬ C07_full c := by
  intro hf
  have := (hf.1 { eqs := [], pts := [], rs := ⟨0, 4, 1⟩ } { consts := [], pts := [], rs := ⟨1, 3, 1⟩ } 0).2.2
  obtain ⟨a, b, o, q, e⟩ := c
  simp only at h; subst h
  revert this; cases b <;> cases o <;> cases q <;> cases e <;> decide

theorem C07_witness_file (c : Cfg) (h : c.fileRunspecsKept = false) : ¬ C07_full c := by
  intro hf
  have := hf.2.1 ⟨0, 4, 1⟩ [] { consts := [], pts := [], start := some 1, stop := some 3, dt := none }
  obtain ⟨a, b, o, q, e⟩ := c
  simp only at h; subst h
  revert this; cases a <;> cases o <;> cases q <;> cases e <;> decide

/-- dictionary identity as a mechanism fact: when a scenario without an own block receives the manager's base
dictionary itself, settings for one scenario rewrite the base values for a sibling registered BEFORE and
one registered AFTER (and the manager's base values themselves). -/
theorem C07_witness_shared_base (c : Cfg) (h : c.scenarioOwnsDicts = false) : ¬ C07_full c := by
  intro hf
  have := (hf.2.2.1 ⟨0, 4, 1⟩ [(0, 2)] []
    [.add 0 emptyDict, .add 1 emptyDict, .configure 1 { emptyDict with consts := [(0, 5)] }, .add 2 emptyDict] 0).1
  obtain ⟨a, b, o, q, e⟩ := c
  simp only at h; subst h
  revert this; cases a <;> cases b <;> cases q <;> cases e <;> decide

/-- truthiness instead of presence: model start 1, override `starttime: 0` — the scenario keeps start 1 -/
theorem C07_witness_falsy_override (c : Cfg) (h : c.overrideByPresence = false) : ¬ C07_full c := by
  intro hf
  have := hf.2.2.2.1 ⟨1, 5, 2⟩ { emptyDict with start := some 0 }
  obtain ⟨a, b, o, q, e⟩ := c
  simp only at h; subst h
  revert this; cases a <;> cases b <;> cases o <;> cases e <;> decide

/-- a derived table that only `Model.reset_cache()` drops: evaluate, supply points `p0 := 7` as settings, evaluate — the
second evaluation still reads the table built from the old points (3) -/
theorem C07_witness_derived_table (c : Cfg) (h : c.evalReadsCurrent = false) : ¬ C07_full c := by
  intro hf
  have := hf.2.2.2.2 { eqs := [], pts := [(0, 3)], rs := ⟨0, 4, 2⟩ }
    [.eval, .apply { consts := [], pts := [(0, 7)], rs := ⟨0, 4, 2⟩ }, .eval] 0
  obtain ⟨a, b, o, q, e⟩ := c
  simp only at h; subst h
  revert this; cases a <;> cases b <;> cases o <;> cases q <;> decide

/-- … and the model-level reset would have dropped it: with `.modelReset` before the second evaluation the new table is read -/
example : ∀ a b o q, let c : Cfg := ⟨a, b, o, q, false⟩
    readPts c (eexec c { eqs := [], pts := [(0, 3)], rs := ⟨0, 4, 2⟩ }
      [.eval, .apply { consts := [], pts := [(0, 7)], rs := ⟨0, 4, 2⟩ }, .modelReset, .eval]) 0 = some 7 := by
  intro a b o q; cases a <;> cases b <;> cases o <;> cases q <;> decide

/-- with the fact, the channels as the code runs them are the channels the statement demands -/
theorem resolveC_eq (c : Cfg) (h : c.overrideByPresence = true) (mrs : RunSpec) (bc bp : Store) (files : List FileEntry)
    (s : Settings) (d : Dict) :
    resolveDictC c mrs bc bp d = resolveDict mrs bc bp d ∧ resolveFileC c mrs files d = resolveFile c mrs files d ∧
    resolveSettingsC c s d = resolveSettings s d := by
  simp [resolveDictC, resolveFileC, resolveSettingsC, rsOver, h, resolveDict, resolveFile, resolveSettings]

/-- the same history, read at the late scenario and at the manager: all three are rewritten -/
example : ∀ a b, let c : Cfg := ⟨a, b, false, true, true⟩
    let st := mexec c ⟨0, 4, 1⟩ [(0, 2)] []
      [.add 0 emptyDict, .add 1 emptyDict, .configure 1 { emptyDict with consts := [(0, 5)] }, .add 2 emptyDict]
    ((mview st 0).map (·.consts), (mview st 2).map (·.consts), st.bc) = (some [(0, 5)], some [(0, 5)], [(0, 5)]) := by
  intro a b; cases a <;> cases b <;> decide

/-- Non-vacuity: base constants spread over two files, scenario overriding one of them, run specs given. -/
example :
    let files : List FileEntry := [⟨[(0, 5), (1, 6)], [], []⟩, ⟨[(2, 7)], [(0, 9)], []⟩]
    let s := resolveFile ⟨true, true, true, true, true⟩ ⟨0, 4, 2⟩ files { consts := [(1, 60)], pts := [], start := some 1, stop := none, dt := some 1 }
    (Store.get s.consts 0, Store.get s.consts 1, Store.get s.consts 2, Store.get s.pts 0, s.rs) =
      (some 5, some 60, some 7, some 9, ⟨1, 4, 1⟩) := by decide

#print axioms C07_full_of_good
#print axioms C07_partial
#print axioms C07_applied_dict
#print axioms C07_no_override
#print axioms C07_witness_start
#print axioms C07_witness_file
#print axioms resolve_dict
#print axioms resolve_file
#print axioms resolve_settings
#print axioms multi_file_merge
#print axioms multi_file_merge_n
#print axioms merge_consistent
#print axioms resolve_file_order
#print axioms siblings_isolated
#print axioms sibling_reads_base
#print axioms C07_witness_shared_base
#print axioms C07_witness_falsy_override
#print axioms C07_witness_derived_table
#print axioms resolveC_eq

end Bptk.C07
