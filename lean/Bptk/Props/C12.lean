import Bptk.Core.C12
import Mathlib.Tactic.Linarith
import Mathlib.Tactic.Ring
/-!
C12 — property theorems.  Quantifier: every program (arbitrary functions giving the population actions
of the four callbacks), every integer start/stop, every `n = 1/dt ≥ 1`, every initial population, both
settings of the data-collection switch; whole runs (`run`) and externally driven single steps
(`runStep`/`stepOut`).  No bound.
-/
namespace Bptk.C12

/-! ### population invariant (ids strictly increasing = creation order, all below `next`) -/

structure PopOK (p : Pop) : Prop where
  sorted : p.agents.Pairwise (· < ·)
  bound : ∀ a ∈ p.agents, a < p.next

theorem popOK_create (p : Pop) (h : PopOK p) : PopOK p.create := by
  constructor
  · simp only [Pop.create]
    rw [List.pairwise_append]
    refine ⟨h.sorted, by simp, ?_⟩
    intro a ha b hb
    simp at hb; subst hb
    exact h.bound a ha
  · intro a ha
    simp only [Pop.create, List.mem_append, List.mem_singleton] at ha ⊢
    rcases ha with ha | rfl
    · have := h.bound a ha; omega
    · omega

theorem popOK_delete (p : Pop) (ids : List Nat) (h : PopOK p) : PopOK (p.delete ids) := by
  constructor
  · exact List.Pairwise.sublist List.filter_sublist h.sorted
  · intro a ha
    exact h.bound a (List.mem_filter.mp ha).1

theorem popOK_apply (p : Pop) (a : Act) (h : PopOK p) : PopOK (p.apply a) := by
  cases a with
  | create => exact popOK_create p h
  | delete ids => exact popOK_delete p ids h

theorem popOK_foldl (acts : List Act) : ∀ p, PopOK p → PopOK (acts.foldl Pop.apply p) := by
  induction acts with
  | nil => intro p h; exact h
  | cons a rest ih => intro p h; exact ih _ (popOK_apply p a h)

theorem next_mono_apply (p : Pop) (a : Act) : p.next ≤ (p.apply a).next := by
  cases a <;> simp [Pop.apply, Pop.create, Pop.delete]

/-! ### the agent loop -/

/-- invariant of the loop: done ++ todo is strictly increasing and below `next`. -/
structure LoopInv (l : LoopSt) (acc : List Nat) : Prop where
  sorted : (acc ++ l.todo).Pairwise (· < ·)
  bound : ∀ a ∈ acc ++ l.todo, a < l.pop.next
  popOK : PopOK l.pop

theorem loopInv_act (l : LoopSt) (acc : List Nat) (a : Act) (h : LoopInv l acc) :
    LoopInv (loopAct l a) acc := by
  cases a with
  | delete ids => exact ⟨h.sorted, h.bound, popOK_delete _ ids h.popOK⟩
  | create =>
    simp only [loopAct]
    by_cases hal : l.aliased = true
    · simp only [hal, if_true]
      refine ⟨?_, ?_, popOK_create _ h.popOK⟩
      · rw [← List.append_assoc, List.pairwise_append]
        refine ⟨h.sorted, by simp, ?_⟩
        intro x hx y hy
        simp at hy; subst hy
        exact h.bound x hx
      · intro x hx
        simp only [Pop.create]
        rw [← List.append_assoc, List.mem_append] at hx
        rcases hx with hx | hx
        · have := h.bound x hx; omega
        · simp at hx; omega
    · simp only [hal]
      refine ⟨h.sorted, ?_, popOK_create _ h.popOK⟩
      intro x hx
      have := h.bound x hx
      simp only [Pop.create]; omega

theorem loopInv_foldl (acts : List Act) : ∀ l acc, LoopInv l acc → LoopInv (acts.foldl loopAct l) acc := by
  induction acts with
  | nil => intro l acc h; exact h
  | cons a rest ih => intro l acc h; exact ih _ _ (loopInv_act l acc a h)

/-- the actions of one agent only ever *append* freshly created ids to the iterated list. -/
theorem loopAct_todo (l : LoopSt) (a : Act) :
    ∃ new, (loopAct l a).todo = l.todo ++ new ∧ (∀ x ∈ new, l.pop.next ≤ x ∧ x < (loopAct l a).pop.next) ∧
      l.pop.next ≤ (loopAct l a).pop.next := by
  cases a with
  | delete ids => exact ⟨[], by simp [loopAct], by simp, by simp [loopAct, Pop.delete]⟩
  | create =>
    by_cases hal : l.aliased = true
    · refine ⟨[l.pop.next], by simp [loopAct, hal], ?_, by simp [loopAct, Pop.create]⟩
      intro x hx; simp at hx; subst hx; simp [loopAct, Pop.create]
    · exact ⟨[], by simp [loopAct, hal], by simp, by simp [loopAct, Pop.create]⟩

theorem foldl_loopAct_todo (acts : List Act) : ∀ l : LoopSt,
    ∃ new, (acts.foldl loopAct l).todo = l.todo ++ new ∧
      (∀ x ∈ new, l.pop.next ≤ x ∧ x < (acts.foldl loopAct l).pop.next) ∧
      l.pop.next ≤ (acts.foldl loopAct l).pop.next := by
  induction acts with
  | nil => intro l; exact ⟨[], by simp, by simp, by simp⟩
  | cons a rest ih =>
    intro l
    obtain ⟨n1, h1, b1, m1⟩ := loopAct_todo l a
    obtain ⟨n2, h2, b2, m2⟩ := ih (loopAct l a)
    refine ⟨n1 ++ n2, ?_, ?_, ?_⟩
    · simp only [List.foldl_cons, h2, h1, List.append_assoc]
    · intro x hx
      simp only [List.foldl_cons]
      rcases List.mem_append.mp hx with hx | hx
      · have := b1 x hx; omega
      · have := b2 x hx; omega
    · simp only [List.foldl_cons]; omega

/-- once the iterated object is no longer `model.agents` (after any deletion), it never grows. -/
theorem foldl_loopAct_frozen (acts : List Act) : ∀ l : LoopSt, l.aliased = false →
    (acts.foldl loopAct l).todo = l.todo ∧ (acts.foldl loopAct l).aliased = false := by
  induction acts with
  | nil => intro l h; exact ⟨rfl, h⟩
  | cons a rest ih =>
    intro l h
    have h1 : (loopAct l a).todo = l.todo ∧ (loopAct l a).aliased = false := by
      cases a <;> simp [loopAct, h]
    obtain ⟨h2, h3⟩ := ih _ h1.2
    exact ⟨by simp only [List.foldl_cons, h2, h1.1], by simp only [List.foldl_cons, h3]⟩

/-- a deletion freezes the iterated object. -/
theorem loopAct_delete_freezes (l : LoopSt) (ids : List Nat) : (loopAct l (.delete ids)).aliased = false := rfl

/-- while still aliased, a creation is appended to the iterated object (acts in this very step). -/
theorem loopAct_create_aliased (l : LoopSt) (h : l.aliased = true) :
    (loopAct l .create).todo = l.todo ++ [l.pop.next] := by simp [loopAct, h]

theorem agentLoop_inv (P : Prog) (r : Int) (s : Nat) : ∀ (fuel : Nat) (l : LoopSt) (acc : List Nat),
    LoopInv l acc →
    (agentLoop P r s fuel l acc).1.Pairwise (· < ·) ∧ PopOK (agentLoop P r s fuel l acc).2.1.pop := by
  intro fuel
  induction fuel with
  | zero =>
    intro l acc h
    simp only [agentLoop]
    exact ⟨(List.pairwise_append.mp h.sorted).1, h.popOK⟩
  | succ f ih =>
    intro l acc h
    unfold agentLoop
    split
    · exact ⟨(List.pairwise_append.mp h.sorted).1, h.popOK⟩
    · rename_i a rest htodo
      apply ih
      apply loopInv_foldl
      refine ⟨?_, ?_, h.popOK⟩
      · simpa [htodo] using h.sorted
      · intro x hx; apply h.bound; simpa [htodo] using hx

/-- if the loop terminates, the acting agents are: everybody already done, the whole iterated list as
it was, then only agents created *during* the loop (ids ≥ the `next` at entry). -/
theorem agentLoop_prefix (P : Prog) (r : Int) (s : Nat) : ∀ (fuel : Nat) (l : LoopSt) (acc : List Nat),
    (agentLoop P r s fuel l acc).2.2 = false →
    ∃ extra, (agentLoop P r s fuel l acc).1 = acc ++ l.todo ++ extra ∧
      (∀ x ∈ extra, l.pop.next ≤ x) ∧ l.pop.next ≤ (agentLoop P r s fuel l acc).2.1.pop.next := by
  intro fuel
  induction fuel with
  | zero =>
    intro l acc h
    simp only [agentLoop] at h ⊢
    have : l.todo = [] := by simpa using h
    exact ⟨[], by simp [this], by simp, Nat.le_refl _⟩
  | succ f ih =>
    intro l acc h
    unfold agentLoop at h ⊢
    split at h
    · rename_i htodo
      simp only [htodo]
      exact ⟨[], by simp, by simp, Nat.le_refl _⟩
    · rename_i a rest htodo
      simp only [htodo]
      obtain ⟨extra, he, hb, hm⟩ := ih _ _ h
      obtain ⟨new, hn, hnb, hnm⟩ := foldl_loopAct_todo (P.handle r s a ++ P.act r s a) { l with todo := rest }
      refine ⟨new ++ extra, ?_, ?_, ?_⟩
      · rw [he, hn]; simp
      · intro x hx
        rcases List.mem_append.mp hx with hx | hx
        · exact (hnb x hx).1
        · have := hb x hx; simp only at hnm; omega
      · simp only at hnm; omega

/-- a program whose handlers/acts create no agent in this step (deletions allowed). -/
def NoCreate (P : Prog) (r : Int) (s : Nat) : Prop :=
  ∀ a, Act.create ∉ P.handle r s a ++ P.act r s a

theorem foldl_loopAct_nocreate (acts : List Act) (hc : Act.create ∉ acts) : ∀ l : LoopSt,
    (acts.foldl loopAct l).todo = l.todo := by
  induction acts with
  | nil => intro l; rfl
  | cons a rest ih =>
    intro l
    have ha : a ≠ .create := fun h => hc (by simp [h])
    have hr : Act.create ∉ rest := fun h => hc (by simp [h])
    simp only [List.foldl_cons, ih hr]
    cases a with
    | create => exact absurd rfl ha
    | delete ids => rfl

/-- without creations the loop needs no more fuel than agents and exactly the entry list acts. -/
theorem agentLoop_nocreate (P : Prog) (r : Int) (s : Nat) (hc : NoCreate P r s) :
    ∀ (fuel : Nat) (l : LoopSt) (acc : List Nat), l.todo.length ≤ fuel →
    (agentLoop P r s fuel l acc).1 = acc ++ l.todo ∧ (agentLoop P r s fuel l acc).2.2 = false := by
  intro fuel
  induction fuel with
  | zero =>
    intro l acc h
    have : l.todo = [] := List.length_eq_zero_iff.mp (by omega)
    simp [agentLoop, this]
  | succ f ih =>
    intro l acc h
    unfold agentLoop
    split
    · rename_i htodo; simp [htodo]
    · rename_i a rest htodo
      have ht := foldl_loopAct_nocreate _ (hc a) { l with todo := rest }
      have hlen : ((P.handle r s a ++ P.act r s a).foldl loopAct { l with todo := rest }).todo.length ≤ f := by
        rw [ht]; simp [htodo] at h; simpa using h
      obtain ⟨h1, h2⟩ := ih _ (acc ++ [a]) hlen
      rw [h1, h2, ht]
      simp [htodo]

/-! ### one step (`run_step` body) -/

/-- what the property says about one step, for the population `pop` it starts from. -/
structure StepShape (P : Prog) (sp : Spec) (pop : Pop) (r : Int) (s : Nat) : Prop where
  /-- begin_round, then (handle_events a, act a) for the acting agents, then end_round, then the
  statistics (iff data collection is on or this is the final step of the run specs) -/
  events : (stepOut P sp pop r s).events =
    [⟨r, s, .beginRound⟩] ++ (stepOut P sp pop r s).acted.flatMap (agentCalls r s) ++ [⟨r, s, .endRound⟩] ++
      (if collects sp r s then [⟨r, s, .collect (stepOut P sp pop r s).pop.agents⟩] else [])
  entry : (stepOut P sp pop r s).entry = (P.beginRound r s).foldl Pop.apply pop
  /-- creation order, nobody twice -/
  order : (stepOut P sp pop r s).acted.Pairwise (· < ·)
  /-- every agent that is live when the loop is entered acts, in list order, before anybody else;
  the others were created during this very step -/
  live : (stepOut P sp pop r s).stuck = false →
    ∃ extra, (stepOut P sp pop r s).acted = (stepOut P sp pop r s).entry.agents ++ extra ∧
      ∀ x ∈ extra, (stepOut P sp pop r s).entry.next ≤ x
  /-- when handlers and acts create nobody, exactly the live agents act and the step terminates -/
  exact : NoCreate P r s → (stepOut P sp pop r s).entry.agents.length ≤ sp.fuel →
    (stepOut P sp pop r s).acted = (stepOut P sp pop r s).entry.agents ∧ (stepOut P sp pop r s).stuck = false
  popOK : PopOK (stepOut P sp pop r s).pop

theorem stepShape (P : Prog) (sp : Spec) (pop : Pop) (r : Int) (s : Nat) (h : PopOK pop) :
    StepShape P sp pop r s := by
  have h1 : PopOK ((P.beginRound r s).foldl Pop.apply pop) := popOK_foldl _ _ h
  have hinv : LoopInv (⟨((P.beginRound r s).foldl Pop.apply pop).agents, true,
      (P.beginRound r s).foldl Pop.apply pop⟩ : LoopSt) [] :=
    ⟨by simpa using h1.sorted, by simpa using h1.bound, h1⟩
  have hl := agentLoop_inv P r s sp.fuel _ _ hinv
  refine ⟨rfl, rfl, hl.1, ?_, ?_, ?_⟩
  · intro hs
    obtain ⟨extra, he, hb, _⟩ := agentLoop_prefix P r s sp.fuel _ [] hs
    exact ⟨extra, by simpa [stepOut] using he, hb⟩
  · intro hc hf
    have := agentLoop_nocreate P r s hc sp.fuel
      (⟨((P.beginRound r s).foldl Pop.apply pop).agents, true, (P.beginRound r s).foldl Pop.apply pop⟩ : LoopSt) [] hf
    exact ⟨by simpa [stepOut] using this.1, this.2⟩
  · exact popOK_foldl _ _ hl.2

/-! ### the grid of steps -/

theorem grid_mem (sp : Spec) (r : Int) (s : Nat) :
    (r, s) ∈ grid sp ↔ sp.start ≤ r ∧ r ≤ sp.stop ∧ s < sp.n := by
  simp only [grid, rounds, List.mem_flatMap, List.mem_map, List.mem_range, Prod.mk.injEq]
  constructor
  · rintro ⟨_, ⟨k, hk, rfl⟩, s', hs', rfl, rfl⟩
    omega
  · rintro ⟨h1, h2, h3⟩
    exact ⟨r, ⟨(r - sp.start).toNat, by omega, by omega⟩, s, h3, rfl, rfl⟩

/-- time labels `round + step/n` strictly increase along the grid: every step once, in time order. -/
theorem grid_increasing (sp : Spec) :
    (grid sp).Pairwise (fun p q => timeNum sp.n p < timeNum sp.n q) := by
  simp only [grid, rounds]
  rw [List.pairwise_flatMap]
  constructor
  · intro r _
    rw [List.pairwise_map]
    exact List.Pairwise.imp (fun {a b} (hab : a < b) => by simp only [timeNum]; omega) List.pairwise_lt_range
  · rw [List.pairwise_map]
    refine List.Pairwise.imp ?_ List.pairwise_lt_range
    intro a b hab x hx y hy
    simp only [List.mem_map, List.mem_range] at hx hy
    obtain ⟨s1, hs1, rfl⟩ := hx
    obtain ⟨s2, hs2, rfl⟩ := hy
    simp only [timeNum]
    have h1 : ((a : Int) + 1) * sp.n ≤ (b : Int) * sp.n :=
      Int.mul_le_mul_of_nonneg_right (by omega) (by omega)
    have h2 : (sp.start + (a : Int)) * sp.n = sp.start * sp.n + a * sp.n := by ring
    have h3 : (sp.start + (b : Int)) * sp.n = sp.start * sp.n + b * sp.n := by ring
    have h4 : ((a : Int) + 1) * sp.n = a * sp.n + sp.n := by ring
    rw [h2, h3]
    omega

theorem grid_nodup (sp : Spec) : (grid sp).Nodup :=
  (grid_increasing sp).imp (fun {p q} (h : timeNum sp.n p < timeNum sp.n q) => by
    intro he; subst he; omega)

/-- the grid ends with the last step of the stop round. -/
theorem grid_last (sp : Spec) (h : sp.start ≤ sp.stop) (hn : 0 < sp.n) :
    ∃ init, grid sp = init ++ [(sp.stop, sp.n - 1)] := by
  obtain ⟨m, hm⟩ : ∃ m, (sp.stop + 1 - sp.start).toNat = m + 1 := ⟨(sp.stop - sp.start).toNat, by omega⟩
  obtain ⟨n', hn'⟩ : ∃ n', sp.n = n' + 1 := ⟨sp.n - 1, by omega⟩
  have hstop : sp.start + (m : Int) = sp.stop := by omega
  simp only [grid, rounds, hm, hn', List.range_succ, List.map_append, List.flatMap_append, List.map_cons,
    List.map_nil, List.flatMap_cons, List.flatMap_nil, List.append_nil, hstop, Nat.add_sub_cancel]
  exact ⟨_, (List.append_assoc _ _ _).symm⟩

/-! ### whole runs as a fold over the grid -/

def runPositions (c : Cfg) (P : Prog) (sp : Spec) (st : St) (ps : List (Int × Nat)) : St :=
  ps.foldl (fun st p => runStep c P sp st p.1 p.2) st

/-- the nested loops of `SimultaneousScheduler.run` visit the grid positions in grid order. -/
theorem run_eq_positions (c : Cfg) (P : Prog) (sp : Spec) (pop0 : Pop) :
    run c P sp pop0 = runPositions c P sp (St.init pop0) (grid sp) := by
  have hr : runRound c P sp = fun acc x => List.foldl (fun st (p : Int × Nat) => runStep c P sp st p.1 p.2) acc
      ((List.range sp.n).map (fun s => (x, s))) := by
    funext st r; simp [runRound, List.foldl_map]
  simp only [run, runPositions, grid, List.foldl_flatMap, hr]

/-- the progress expression cannot raise: repaired formula, or the old one with a positive stop time. -/
def Safe (c : Cfg) (sp : Spec) : Prop := c.progressBySpan = true ∨ 0 < sp.stop

theorem progressOf_safe (c : Cfg) (sp : Spec) (h : Safe c sp) (r : Int) (s : Nat) :
    ∃ p, progressOf c sp r s = some p := by
  unfold progressOf
  rcases h with h | h
  · simp only [h, if_true]; split <;> exact ⟨_, rfl⟩
  · by_cases hc : c.progressBySpan = true
    · simp only [hc, if_true]; split <;> exact ⟨_, rfl⟩
    · have : sp.stop ≠ 0 := by omega
      simp [hc, this]

theorem runStep_safe (c : Cfg) (P : Prog) (sp : Spec) (h : Safe c sp) (st : St) (hc : st.crashed = false)
    (r : Int) (s : Nat) :
    (runStep c P sp st r s).crashed = false ∧
    (runStep c P sp st r s).log = st.log ++ (stepOut P sp st.pop r s).events ∧
    (runStep c P sp st r s).pop = (stepOut P sp st.pop r s).pop ∧
    (runStep c P sp st r s).stuck = (st.stuck || (stepOut P sp st.pop r s).stuck) ∧
    progressOf c sp r s = some (runStep c P sp st r s).progress := by
  obtain ⟨p, hp⟩ := progressOf_safe c sp h r s
  simp [runStep, hc, hp]

/-- the specified log: the step blocks in order, each starting from the population the previous left. -/
def blocks (P : Prog) (sp : Spec) : Pop → List (Int × Nat) → List Ev
  | _, [] => []
  | pop, p :: ps => (stepOut P sp pop p.1 p.2).events ++ blocks P sp (stepOut P sp pop p.1 p.2).pop ps

def popAfter (P : Prog) (sp : Spec) : Pop → List (Int × Nat) → Pop
  | pop, [] => pop
  | pop, p :: ps => popAfter P sp (stepOut P sp pop p.1 p.2).pop ps

theorem runPositions_spec (c : Cfg) (P : Prog) (sp : Spec) (h : Safe c sp) :
    ∀ (ps : List (Int × Nat)) (st : St), st.crashed = false →
      (runPositions c P sp st ps).crashed = false ∧
      (runPositions c P sp st ps).log = st.log ++ blocks P sp st.pop ps ∧
      (runPositions c P sp st ps).pop = popAfter P sp st.pop ps := by
  intro ps
  induction ps with
  | nil => intro st hc; simp [runPositions, blocks, popAfter, hc]
  | cons p rest ih =>
    intro st hc
    obtain ⟨h1, h2, h3, _, _⟩ := runStep_safe c P sp h st hc p.1 p.2
    obtain ⟨i1, i2, i3⟩ := ih _ h1
    simp only [runPositions, List.foldl_cons] at i1 i2 i3 ⊢
    refine ⟨i1, ?_, ?_⟩
    · rw [i2, h2, h3]; simp [blocks]
    · rw [i3, h3]; simp [popAfter]

theorem popAfter_ok (P : Prog) (sp : Spec) : ∀ (ps : List (Int × Nat)) (pop : Pop), PopOK pop →
    PopOK (popAfter P sp pop ps) := by
  intro ps
  induction ps with
  | nil => intro pop h; exact h
  | cons p rest ih => intro pop h; exact ih _ (stepShape P sp pop p.1 p.2 h).popOK

theorem stepOut_events (P : Prog) (sp : Spec) (pop : Pop) (r : Int) (s : Nat) :
    (stepOut P sp pop r s).events =
    [⟨r, s, .beginRound⟩] ++ (stepOut P sp pop r s).acted.flatMap (agentCalls r s) ++ [⟨r, s, .endRound⟩] ++
      (if collects sp r s then [⟨r, s, .collect (stepOut P sp pop r s).pop.agents⟩] else []) := rfl

theorem filter_agentCalls (k : Call → Bool) (hh : ∀ a, k (.handle a) = false) (ha : ∀ a, k (.act a) = false)
    (r : Int) (s : Nat) (l : List Nat) :
    (l.flatMap (agentCalls r s)).filter (fun e => k e.call) = [] := by
  induction l with
  | nil => rfl
  | cons a rest ih => simp [List.flatMap_cons, agentCalls, hh, ha, ih]

theorem positions_begin (P : Prog) (sp : Spec) : ∀ (ps : List (Int × Nat)) (pop : Pop),
    positionsOf isBegin (blocks P sp pop ps) = ps := by
  intro ps
  induction ps with
  | nil => intro pop; rfl
  | cons p rest ih =>
    intro pop
    have ih' := ih (stepOut P sp pop p.1 p.2).pop
    simp only [positionsOf] at ih' ⊢
    rw [blocks, stepOut_events]
    simp only [List.filter_append, List.map_append, ih',
      filter_agentCalls isBegin (fun _ => rfl) (fun _ => rfl)]
    split <;> simp [isBegin, pos]

theorem positions_end (P : Prog) (sp : Spec) : ∀ (ps : List (Int × Nat)) (pop : Pop),
    positionsOf isEnd (blocks P sp pop ps) = ps := by
  intro ps
  induction ps with
  | nil => intro pop; rfl
  | cons p rest ih =>
    intro pop
    have ih' := ih (stepOut P sp pop p.1 p.2).pop
    simp only [positionsOf] at ih' ⊢
    rw [blocks, stepOut_events]
    simp only [List.filter_append, List.map_append, ih',
      filter_agentCalls isEnd (fun _ => rfl) (fun _ => rfl)]
    split <;> simp [isEnd, pos]

theorem positions_collect (P : Prog) (sp : Spec) : ∀ (ps : List (Int × Nat)) (pop : Pop),
    positionsOf isCollect (blocks P sp pop ps) = ps.filter (fun p => collects sp p.1 p.2) := by
  intro ps
  induction ps with
  | nil => intro pop; rfl
  | cons p rest ih =>
    intro pop
    have ih' := ih (stepOut P sp pop p.1 p.2).pop
    simp only [positionsOf] at ih' ⊢
    rw [blocks, stepOut_events]
    simp only [List.filter_append, List.map_append, ih',
      filter_agentCalls isCollect (fun _ => rfl) (fun _ => rfl)]
    by_cases hc : collects sp p.1 p.2 = true
    · simp [hc, isCollect, pos]
    · simp [hc, isCollect]

theorem filter_eq_singleton {α : Type} [DecidableEq α] (x : α) : ∀ (l : List α), l.Nodup → x ∈ l →
    l.filter (fun y => y == x) = [x] := by
  intro l
  induction l with
  | nil => intro _ h; simp at h
  | cons a rest ih =>
    intro hn hx
    simp only [List.nodup_cons] at hn
    by_cases hax : a = x
    · subst hax
      have : rest.filter (fun y => y == a) = [] := by
        rw [List.filter_eq_nil_iff]; intro y hy; simp; intro he; subst he; exact hn.1 hy
      simp [this]
    · have hx' : x ∈ rest := by
        rcases List.mem_cons.mp hx with h | h
        · exact absurd h.symm hax
        · exact h
      simp [hax, ih hn.2 hx']

/-- data collection on: one statistics record per step; off: only for the final step. -/
theorem grid_collects (sp : Spec) (hn : 0 < sp.n) :
    (sp.collectOn = true → (grid sp).filter (fun p => collects sp p.1 p.2) = grid sp) ∧
    (sp.collectOn = false → sp.start ≤ sp.stop →
      (grid sp).filter (fun p => collects sp p.1 p.2) = [(sp.stop, sp.n - 1)]) := by
  constructor
  · intro h
    rw [List.filter_eq_self]
    intro p _; simp [collects, h]
  · intro h hs
    have hmem : (sp.stop, sp.n - 1) ∈ grid sp := (grid_mem sp _ _).mpr ⟨hs, Int.le_refl _, by omega⟩
    rw [← filter_eq_singleton _ _ (grid_nodup sp) hmem]
    apply List.filter_congr
    intro p _
    obtain ⟨r, s⟩ := p
    simp only [collects, h, Bool.false_or]
    rw [Bool.eq_iff_iff]
    simp only [Bool.and_eq_true, beq_iff_eq, Prod.mk.injEq]
    constructor
    · rintro ⟨a, b⟩; exact ⟨a, by omega⟩
    · rintro ⟨a, b⟩; exact ⟨a, by omega⟩

/-- after the last step of a run the progress is complete (the runner does not skip the scenario). -/
theorem final_progress (c : Cfg) (sp : Spec) (h : Safe c sp) (hs : sp.start ≤ sp.stop) (hn : 0 < sp.n)
    (p : Frac) (hp : progressOf c sp sp.stop (sp.n - 1) = some p) : p.lt1 = false := by
  have hcast : ((sp.n - 1 : Nat) : Int) = (sp.n : Int) - 1 := by omega
  unfold progressOf at hp
  by_cases hc : c.progressBySpan = true
  · simp only [hc, if_true] at hp
    have htot : 0 < (sp.stop - sp.start + 1) * (sp.n : Int) := Int.mul_pos (by omega) (by omega)
    simp only [gt_iff_lt, htot, if_true, Option.some.injEq] at hp
    subst hp
    simp only [Frac.lt1, gt_iff_lt, htot, if_true, hcast]
    have : (sp.stop - sp.start) * (sp.n : Int) + ((sp.n : Int) - 1) + 1 = (sp.stop - sp.start + 1) * (sp.n : Int) := by ring
    rw [this]; simp
  · have hpos : 0 < sp.stop := by
      rcases h with h | h
      · exact absurd h hc
      · exact h
    have hne : sp.stop ≠ 0 := by omega
    simp only [hc, hne, if_false, Bool.false_eq_true, Option.some.injEq] at hp
    subst hp
    have hden : 0 < (sp.n : Int) * sp.stop := Int.mul_pos (by omega) hpos
    simp only [Frac.lt1, gt_iff_lt, hden, if_true, hcast]
    have : sp.stop * (sp.n : Int) = (sp.n : Int) * sp.stop := by ring
    rw [this]
    simp; omega

/-! ### the property -/

/-- whole-run clauses. -/
structure RunClauses (c : Cfg) (P : Prog) (sp : Spec) (pop0 : Pop) : Prop where
  noCrash : (run c P sp pop0).crashed = false
  /-- the log is exactly the sequence of step blocks of the grid positions, in grid order -/
  log : (run c P sp pop0).log = blocks P sp pop0 (grid sp)
  begins : positionsOf isBegin (run c P sp pop0).log = grid sp
  ends : positionsOf isEnd (run c P sp pop0).log = grid sp
  collectOn : sp.collectOn = true → positionsOf isCollect (run c P sp pop0).log = grid sp
  collectOff : sp.collectOn = false → sp.start ≤ sp.stop →
    positionsOf isCollect (run c P sp pop0).log = [(sp.stop, sp.n - 1)]
  notSkipped : sp.start ≤ sp.stop → skipped (run c P sp pop0) = false
  popOK : PopOK (run c P sp pop0).pop

/-- externally driven single steps (`scheduler.run_step(model, r, s)`, `Model.run_step(s)` with r = 0). -/
def StepClauses (c : Cfg) (P : Prog) (sp : Spec) : Prop :=
  ∀ (st : St) (r : Int) (s : Nat), st.crashed = false →
    (runStep c P sp st r s).crashed = false ∧
    (runStep c P sp st r s).log = st.log ++ (stepOut P sp st.pop r s).events ∧
    (runStep c P sp st r s).pop = (stepOut P sp st.pop r s).pop

theorem runClauses_of_safe (c : Cfg) (P : Prog) (sp : Spec) (pop0 : Pop) (h : Safe c sp) (hn : 0 < sp.n)
    (hp : PopOK pop0) : RunClauses c P sp pop0 := by
  have hspec := runPositions_spec c P sp h (grid sp) (St.init pop0) rfl
  rw [← run_eq_positions] at hspec
  obtain ⟨h1, h2, h3⟩ := hspec
  have hlog : (run c P sp pop0).log = blocks P sp pop0 (grid sp) := by simpa [St.init] using h2
  refine ⟨h1, hlog, ?_, ?_, ?_, ?_, ?_, ?_⟩
  · rw [hlog]; exact positions_begin P sp _ _
  · rw [hlog]; exact positions_end P sp _ _
  · intro hc; rw [hlog, positions_collect]; exact (grid_collects sp hn).1 hc
  · intro hc hs; rw [hlog, positions_collect]; exact (grid_collects sp hn).2 hc hs
  · intro hs
    obtain ⟨init, hi⟩ := grid_last sp hs hn
    have hrun : run c P sp pop0 =
        runStep c P sp (runPositions c P sp (St.init pop0) init) sp.stop (sp.n - 1) := by
      rw [run_eq_positions, hi]; simp [runPositions, List.foldl_append]
    have hcr := (runPositions_spec c P sp h init (St.init pop0) rfl).1
    have hprog := (runStep_safe c P sp h _ hcr sp.stop (sp.n - 1)).2.2.2.2
    rw [← hrun] at hprog
    exact final_progress c sp h hs hn _ hprog
  · rw [h3]; exact popAfter_ok P sp _ _ hp

theorem stepClauses_of_safe (c : Cfg) (P : Prog) (sp : Spec) (h : Safe c sp) : StepClauses c P sp := by
  intro st r s hc
  obtain ⟨h1, h2, h3, _, _⟩ := runStep_safe c P sp h st hc r s
  exact ⟨h1, h2, h3⟩

/-- The full property for configuration `c`: for every program, all integer start/stop, every
`n = 1/dt ≥ 1`, both settings of the collection switch, every well-formed initial population. -/
def C12_full (c : Cfg) : Prop :=
  ∀ (P : Prog) (sp : Spec) (pop0 : Pop), 0 < sp.n → PopOK pop0 →
    RunClauses c P sp pop0 ∧ StepClauses c P sp ∧
    (∀ pop r s, PopOK pop → StepShape P sp pop r s) ∧
    (∀ r s, (r, s) ∈ grid sp ↔ sp.start ≤ r ∧ r ≤ sp.stop ∧ s < sp.n) ∧
    (grid sp).Pairwise (fun p q => timeNum sp.n p < timeNum sp.n q)

theorem C12_full_of_good (c : Cfg) (h : c.progressBySpan = true) : C12_full c := by
  intro P sp pop0 hn hp
  exact ⟨runClauses_of_safe c P sp pop0 (Or.inl h) hn hp, stepClauses_of_safe c P sp (Or.inl h),
    fun pop r s hpop => stepShape P sp pop r s hpop, grid_mem sp, grid_increasing sp⟩

/-- What holds whatever the progress formula is: everything, for positive stop times. -/
theorem C12_partial (c : Cfg) (P : Prog) (sp : Spec) (pop0 : Pop) (hn : 0 < sp.n) (hp : PopOK pop0)
    (hstop : 0 < sp.stop) :
    RunClauses c P sp pop0 ∧ StepClauses c P sp ∧
    (∀ pop r s, PopOK pop → StepShape P sp pop r s) ∧
    (∀ r s, (r, s) ∈ grid sp ↔ sp.start ≤ r ∧ r ≤ sp.stop ∧ s < sp.n) ∧
    (grid sp).Pairwise (fun p q => timeNum sp.n p < timeNum sp.n q) :=
  ⟨runClauses_of_safe c P sp pop0 (Or.inr hstop) hn hp, stepClauses_of_safe c P sp (Or.inr hstop),
    fun pop r s hpop => stepShape P sp pop r s hpop, grid_mem sp, grid_increasing sp⟩

def quietProg : Prog :=
  { beginRound := fun _ _ => [], handle := fun _ _ _ => [], act := fun _ _ _ => [], endRound := fun _ _ => [] }

theorem popOK_one : PopOK { agents := [0], next := 1 } := ⟨by simp, by simp⟩

/-- Negation witness, `time / stoptime` with stop = 0: `run_specs(0, 0, .5)` raises in the first step. -/
theorem C12_witness_zero (c : Cfg) (h : c.progressBySpan = false) : ¬ C12_full c := by
  intro hf
  have := (hf quietProg { start := 0, stop := 0, n := 2, collectOn := true, fuel := 8 }
    { agents := [0], next := 1 } (by decide) popOK_one).1.noCrash
  cases c; simp only at h; subst h
  revert this; decide

/-- Negation witness, `time / stoptime` with stop < 0: `run_specs(-3, -1, .5)` runs all six steps and ends
with progress (-1·2+1)/(2·(-1)) = 1/2 < 1, so `HybridRunner.run_scenario` skips the finished scenario. -/
theorem C12_witness_negative (c : Cfg) (h : c.progressBySpan = false) : ¬ C12_full c := by
  intro hf
  have := (hf quietProg { start := -3, stop := -1, n := 2, collectOn := true, fuel := 8 }
    { agents := [0], next := 1 } (by decide) popOK_one).1.notSkipped (by decide)
  cases c; simp only at h; subst h
  revert this; decide

/-- mid-step creation and deletion (concrete, as the iteration semantics dictate): in step (1,0) agent 0
creates agent 2 (acts in the same step: the iterated list is still `model.agents`), deletes agent 1
(still acts: the iterated list is the old object), creates agent 3 (acts from the next step on). -/
def midProg : Prog :=
  { quietProg with act := fun r s a => if r = 1 ∧ s = 0 ∧ a = 0 then [.create, .delete [1], .create] else [] }

example : (stepOut midProg { start := 1, stop := 2, n := 2, collectOn := true, fuel := 9 }
    { agents := [0, 1], next := 2 } 1 0).acted = [0, 1, 2] := by decide
example : (stepOut midProg { start := 1, stop := 2, n := 2, collectOn := true, fuel := 9 }
    { agents := [0, 1], next := 2 } 1 0).pop = { agents := [0, 2, 3], next := 4 } := by decide

/-- Non-vacuity: a run with mid-step creation/deletion terminates within the fuel, does not crash, and
has the 4 begin_round calls of the 2×2 grid. -/
example : (run ⟨true⟩ midProg { start := 1, stop := 2, n := 2, collectOn := false, fuel := 9 }
    { agents := [0, 1], next := 2 }).stuck = false ∧
    positionsOf isBegin (run ⟨true⟩ midProg { start := 1, stop := 2, n := 2, collectOn := false, fuel := 9 }
      { agents := [0, 1], next := 2 }).log = [(1, 0), (1, 1), (2, 0), (2, 1)] ∧
    positionsOf isCollect (run ⟨true⟩ midProg { start := 1, stop := 2, n := 2, collectOn := false, fuel := 9 }
      { agents := [0, 1], next := 2 }).log = [(2, 1)] := by decide

#print axioms C12_full_of_good
#print axioms C12_partial
#print axioms C12_witness_zero
#print axioms C12_witness_negative
#print axioms stepShape
#print axioms grid_increasing
#print axioms foldl_loopAct_frozen

end Bptk.C12
