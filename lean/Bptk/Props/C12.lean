import Bptk.Core.C12
import Mathlib.Tactic.Linarith
import Mathlib.Tactic.Ring
import Mathlib.Tactic.FieldSimp
import Mathlib.Tactic.NormNum
import Mathlib.Algebra.Order.Field.Basic
import Mathlib.Algebra.Order.Field.Rat
/-!
C12 — property theorems.  Quantifier: every program (arbitrary functions giving the population actions
of the four callbacks), every integer start/stop, every `n = 1/dt ≥ 1`, every initial population, both
settings of the data-collection switch; whole runs (`run`) and externally driven single steps
(`runStep`/`stepOut`).  No bound.
-/
namespace Bptk.C12

/-! ### population invariant (ids strictly increasing = creation order, all below `next`) -/

structure PopOK (p : Pop) : Prop where
  sorted : p.agents.Pairwise (· < ·)
  bound : ∀ a ∈ p.agents, a < p.next

theorem popOK_create (p : Pop) (h : PopOK p) : PopOK p.create := by
  constructor
  · simp only [Pop.create]
    rw [List.pairwise_append]
    refine ⟨h.sorted, by simp, ?_⟩
    intro a ha b hb
    simp at hb; subst hb
    exact h.bound a ha
  · intro a ha
    simp only [Pop.create, List.mem_append, List.mem_singleton] at ha ⊢
    rcases ha with ha | rfl
    · have := h.bound a ha; omega
    · omega

theorem popOK_delete (p : Pop) (ids : List Nat) (h : PopOK p) : PopOK (p.delete ids) := by
  constructor
  · exact List.Pairwise.sublist List.filter_sublist h.sorted
  · intro a ha
    exact h.bound a (List.mem_filter.mp ha).1

theorem popOK_apply (p : Pop) (a : Act) (h : PopOK p) : PopOK (p.apply a) := by
  cases a with
  | create => exact popOK_create p h
  | delete ids => exact popOK_delete p ids h

theorem popOK_foldl (acts : List Act) : ∀ p, PopOK p → PopOK (acts.foldl Pop.apply p) := by
  induction acts with
  | nil => intro p h; exact h
  | cons a rest ih => intro p h; exact ih _ (popOK_apply p a h)

theorem next_mono_apply (p : Pop) (a : Act) : p.next ≤ (p.apply a).next := by
  cases a <;> simp [Pop.apply, Pop.create, Pop.delete]

/-! ### the agent loop -/

/-- invariant of the loop: done ++ todo is strictly increasing and below `next`. -/
structure LoopInv (l : LoopSt) (acc : List Nat) : Prop where
  sorted : (acc ++ l.todo).Pairwise (· < ·)
  bound : ∀ a ∈ acc ++ l.todo, a < l.pop.next
  popOK : PopOK l.pop

theorem loopInv_act (l : LoopSt) (acc : List Nat) (a : Act) (h : LoopInv l acc) :
    LoopInv (loopAct l a) acc := by
  cases a with
  | delete ids => exact ⟨h.sorted, h.bound, popOK_delete _ ids h.popOK⟩
  | create =>
    simp only [loopAct]
    by_cases hal : l.aliased = true
    · simp only [hal, if_true]
      refine ⟨?_, ?_, popOK_create _ h.popOK⟩
      · rw [← List.append_assoc, List.pairwise_append]
        refine ⟨h.sorted, by simp, ?_⟩
        intro x hx y hy
        simp at hy; subst hy
        exact h.bound x hx
      · intro x hx
        simp only [Pop.create]
        rw [← List.append_assoc, List.mem_append] at hx
        rcases hx with hx | hx
        · have := h.bound x hx; omega
        · simp at hx; omega
    · simp only [hal]
      refine ⟨h.sorted, ?_, popOK_create _ h.popOK⟩
      intro x hx
      have := h.bound x hx
      simp only [Pop.create]; omega

theorem loopInv_foldl (acts : List Act) : ∀ l acc, LoopInv l acc → LoopInv (acts.foldl loopAct l) acc := by
  induction acts with
  | nil => intro l acc h; exact h
  | cons a rest ih => intro l acc h; exact ih _ _ (loopInv_act l acc a h)

/-- the actions of one agent only ever *append* freshly created ids to the iterated list. -/
theorem loopAct_todo (l : LoopSt) (a : Act) :
    ∃ new, (loopAct l a).todo = l.todo ++ new ∧ (∀ x ∈ new, l.pop.next ≤ x ∧ x < (loopAct l a).pop.next) ∧
      l.pop.next ≤ (loopAct l a).pop.next := by
  cases a with
  | delete ids => exact ⟨[], by simp [loopAct], by simp, by simp [loopAct, Pop.delete]⟩
  | create =>
    by_cases hal : l.aliased = true
    · refine ⟨[l.pop.next], by simp [loopAct, hal], ?_, by simp [loopAct, Pop.create]⟩
      intro x hx; simp at hx; subst hx; simp [loopAct, Pop.create]
    · exact ⟨[], by simp [loopAct, hal], by simp, by simp [loopAct, Pop.create]⟩

theorem foldl_loopAct_todo (acts : List Act) : ∀ l : LoopSt,
    ∃ new, (acts.foldl loopAct l).todo = l.todo ++ new ∧
      (∀ x ∈ new, l.pop.next ≤ x ∧ x < (acts.foldl loopAct l).pop.next) ∧
      l.pop.next ≤ (acts.foldl loopAct l).pop.next := by
  induction acts with
  | nil => intro l; exact ⟨[], by simp, by simp, by simp⟩
  | cons a rest ih =>
    intro l
    obtain ⟨n1, h1, b1, m1⟩ := loopAct_todo l a
    obtain ⟨n2, h2, b2, m2⟩ := ih (loopAct l a)
    refine ⟨n1 ++ n2, ?_, ?_, ?_⟩
    · simp only [List.foldl_cons, h2, h1, List.append_assoc]
    · intro x hx
      simp only [List.foldl_cons]
      rcases List.mem_append.mp hx with hx | hx
      · have := b1 x hx; omega
      · have := b2 x hx; omega
    · simp only [List.foldl_cons]; omega

/-- once the iterated object is no longer `model.agents` (after any deletion), it never grows. -/
theorem foldl_loopAct_frozen (acts : List Act) : ∀ l : LoopSt, l.aliased = false →
    (acts.foldl loopAct l).todo = l.todo ∧ (acts.foldl loopAct l).aliased = false := by
  induction acts with
  | nil => intro l h; exact ⟨rfl, h⟩
  | cons a rest ih =>
    intro l h
    have h1 : (loopAct l a).todo = l.todo ∧ (loopAct l a).aliased = false := by
      cases a <;> simp [loopAct, h]
    obtain ⟨h2, h3⟩ := ih _ h1.2
    exact ⟨by simp only [List.foldl_cons, h2, h1.1], by simp only [List.foldl_cons, h3]⟩

/-- a deletion freezes the iterated object. -/
theorem loopAct_delete_freezes (l : LoopSt) (ids : List Nat) : (loopAct l (.delete ids)).aliased = false := rfl

/-- while still aliased, a creation is appended to the iterated object (acts in this very step). -/
theorem loopAct_create_aliased (l : LoopSt) (h : l.aliased = true) :
    (loopAct l .create).todo = l.todo ++ [l.pop.next] := by simp [loopAct, h]

theorem agentLoop_inv (P : Prog) (r : Int) (s : Nat) : ∀ (fuel : Nat) (l : LoopSt) (acc : List Nat),
    LoopInv l acc →
    (agentLoop P r s fuel l acc).1.Pairwise (· < ·) ∧ PopOK (agentLoop P r s fuel l acc).2.1.pop := by
  intro fuel
  induction fuel with
  | zero =>
    intro l acc h
    simp only [agentLoop]
    exact ⟨(List.pairwise_append.mp h.sorted).1, h.popOK⟩
  | succ f ih =>
    intro l acc h
    unfold agentLoop
    split
    · exact ⟨(List.pairwise_append.mp h.sorted).1, h.popOK⟩
    · rename_i a rest htodo
      apply ih
      apply loopInv_foldl
      refine ⟨?_, ?_, h.popOK⟩
      · simpa [htodo] using h.sorted
      · intro x hx; apply h.bound; simpa [htodo] using hx

/-- if the loop terminates, the acting agents are: everybody already done, the whole iterated list as
it was, then only agents created *during* the loop (ids ≥ the `next` at entry). -/
theorem agentLoop_prefix (P : Prog) (r : Int) (s : Nat) : ∀ (fuel : Nat) (l : LoopSt) (acc : List Nat),
    (agentLoop P r s fuel l acc).2.2 = false →
    ∃ extra, (agentLoop P r s fuel l acc).1 = acc ++ l.todo ++ extra ∧
      (∀ x ∈ extra, l.pop.next ≤ x) ∧ l.pop.next ≤ (agentLoop P r s fuel l acc).2.1.pop.next := by
  intro fuel
  induction fuel with
  | zero =>
    intro l acc h
    simp only [agentLoop] at h ⊢
    have : l.todo = [] := by simpa using h
    exact ⟨[], by simp [this], by simp, Nat.le_refl _⟩
  | succ f ih =>
    intro l acc h
    unfold agentLoop at h ⊢
    split at h
    · rename_i htodo
      simp only [htodo]
      exact ⟨[], by simp, by simp, Nat.le_refl _⟩
    · rename_i a rest htodo
      simp only [htodo]
      obtain ⟨extra, he, hb, hm⟩ := ih _ _ h
      obtain ⟨new, hn, hnb, hnm⟩ := foldl_loopAct_todo (P.handle r s a ++ P.act r s a) { l with todo := rest }
      refine ⟨new ++ extra, ?_, ?_, ?_⟩
      · rw [he, hn]; simp
      · intro x hx
        rcases List.mem_append.mp hx with hx | hx
        · exact (hnb x hx).1
        · have := hb x hx; simp only at hnm; omega
      · simp only at hnm; omega

/-- a program whose handlers/acts create no agent in this step (deletions allowed). -/
def NoCreate (P : Prog) (r : Int) (s : Nat) : Prop :=
  ∀ a, Act.create ∉ P.handle r s a ++ P.act r s a

theorem foldl_loopAct_nocreate (acts : List Act) (hc : Act.create ∉ acts) : ∀ l : LoopSt,
    (acts.foldl loopAct l).todo = l.todo := by
  induction acts with
  | nil => intro l; rfl
  | cons a rest ih =>
    intro l
    have ha : a ≠ .create := fun h => hc (by simp [h])
    have hr : Act.create ∉ rest := fun h => hc (by simp [h])
    simp only [List.foldl_cons, ih hr]
    cases a with
    | create => exact absurd rfl ha
    | delete ids => rfl

/-- without creations the loop needs no more fuel than agents and exactly the entry list acts. -/
theorem agentLoop_nocreate (P : Prog) (r : Int) (s : Nat) (hc : NoCreate P r s) :
    ∀ (fuel : Nat) (l : LoopSt) (acc : List Nat), l.todo.length ≤ fuel →
    (agentLoop P r s fuel l acc).1 = acc ++ l.todo ∧ (agentLoop P r s fuel l acc).2.2 = false := by
  intro fuel
  induction fuel with
  | zero =>
    intro l acc h
    have : l.todo = [] := List.length_eq_zero_iff.mp (by omega)
    simp [agentLoop, this]
  | succ f ih =>
    intro l acc h
    unfold agentLoop
    split
    · rename_i htodo; simp [htodo]
    · rename_i a rest htodo
      have ht := foldl_loopAct_nocreate _ (hc a) { l with todo := rest }
      have hlen : ((P.handle r s a ++ P.act r s a).foldl loopAct { l with todo := rest }).todo.length ≤ f := by
        rw [ht]; simp [htodo] at h; simpa using h
      obtain ⟨h1, h2⟩ := ih _ (acc ++ [a]) hlen
      rw [h1, h2, ht]
      simp [htodo]

/-! ### one step (`run_step` body) -/

/-- what the property says about one step, for the population `pop` it starts from. -/
structure StepShape (P : Prog) (sp : Spec) (pop : Pop) (r : Int) (s : Nat) : Prop where
  /-- begin_round, then (handle_events a, act a) for the acting agents, then end_round, then the
  statistics (iff data collection is on or this is the final step of the run specs) -/
  events : (stepOut P sp pop r s).events =
    [⟨r, s, .beginRound⟩] ++ (stepOut P sp pop r s).acted.flatMap (agentCalls r s) ++ [⟨r, s, .endRound⟩] ++
      (if collects sp r s then [⟨r, s, .collect (stepOut P sp pop r s).pop.agents⟩] else [])
  entry : (stepOut P sp pop r s).entry = (P.beginRound r s).foldl Pop.apply pop
  /-- creation order, nobody twice -/
  order : (stepOut P sp pop r s).acted.Pairwise (· < ·)
  /-- every agent that is live when the loop is entered acts, in list order, before anybody else;
  the others were created during this very step -/
  live : (stepOut P sp pop r s).stuck = false →
    ∃ extra, (stepOut P sp pop r s).acted = (stepOut P sp pop r s).entry.agents ++ extra ∧
      ∀ x ∈ extra, (stepOut P sp pop r s).entry.next ≤ x
  /-- when handlers and acts create nobody, exactly the live agents act and the step terminates -/
  exact : NoCreate P r s → (stepOut P sp pop r s).entry.agents.length ≤ sp.fuel →
    (stepOut P sp pop r s).acted = (stepOut P sp pop r s).entry.agents ∧ (stepOut P sp pop r s).stuck = false
  popOK : PopOK (stepOut P sp pop r s).pop

theorem stepShape (P : Prog) (sp : Spec) (pop : Pop) (r : Int) (s : Nat) (h : PopOK pop) :
    StepShape P sp pop r s := by
  have h1 : PopOK ((P.beginRound r s).foldl Pop.apply pop) := popOK_foldl _ _ h
  have hinv : LoopInv (⟨((P.beginRound r s).foldl Pop.apply pop).agents, true,
      (P.beginRound r s).foldl Pop.apply pop⟩ : LoopSt) [] :=
    ⟨by simpa using h1.sorted, by simpa using h1.bound, h1⟩
  have hl := agentLoop_inv P r s sp.fuel _ _ hinv
  refine ⟨rfl, rfl, hl.1, ?_, ?_, ?_⟩
  · intro hs
    obtain ⟨extra, he, hb, _⟩ := agentLoop_prefix P r s sp.fuel _ [] hs
    exact ⟨extra, by simpa [stepOut] using he, hb⟩
  · intro hc hf
    have := agentLoop_nocreate P r s hc sp.fuel
      (⟨((P.beginRound r s).foldl Pop.apply pop).agents, true, (P.beginRound r s).foldl Pop.apply pop⟩ : LoopSt) [] hf
    exact ⟨by simpa [stepOut] using this.1, this.2⟩
  · exact popOK_foldl _ _ hl.2

/-! ### the grid of steps -/

theorem grid_mem (sp : Spec) (r : Int) (s : Nat) :
    (r, s) ∈ grid sp ↔ sp.start ≤ r ∧ r ≤ sp.stop ∧ s < sp.n := by
  simp only [grid, rounds, List.mem_flatMap, List.mem_map, List.mem_range, Prod.mk.injEq]
  constructor
  · rintro ⟨_, ⟨k, hk, rfl⟩, s', hs', rfl, rfl⟩
    omega
  · rintro ⟨h1, h2, h3⟩
    exact ⟨r, ⟨(r - sp.start).toNat, by omega, by omega⟩, s, h3, rfl, rfl⟩

/-- time labels `round + step/n` strictly increase along the grid: every step once, in time order. -/
theorem grid_increasing (sp : Spec) :
    (grid sp).Pairwise (fun p q => timeNum sp.n p < timeNum sp.n q) := by
  simp only [grid, rounds]
  rw [List.pairwise_flatMap]
  constructor
  · intro r _
    rw [List.pairwise_map]
    exact List.Pairwise.imp (fun {a b} (hab : a < b) => by simp only [timeNum]; omega) List.pairwise_lt_range
  · rw [List.pairwise_map]
    refine List.Pairwise.imp ?_ List.pairwise_lt_range
    intro a b hab x hx y hy
    simp only [List.mem_map, List.mem_range] at hx hy
    obtain ⟨s1, hs1, rfl⟩ := hx
    obtain ⟨s2, hs2, rfl⟩ := hy
    simp only [timeNum]
    have h1 : ((a : Int) + 1) * sp.n ≤ (b : Int) * sp.n :=
      Int.mul_le_mul_of_nonneg_right (by omega) (by omega)
    have h2 : (sp.start + (a : Int)) * sp.n = sp.start * sp.n + a * sp.n := by ring
    have h3 : (sp.start + (b : Int)) * sp.n = sp.start * sp.n + b * sp.n := by ring
    have h4 : ((a : Int) + 1) * sp.n = a * sp.n + sp.n := by ring
    rw [h2, h3]
    omega

theorem grid_nodup (sp : Spec) : (grid sp).Nodup :=
  (grid_increasing sp).imp (fun {p q} (h : timeNum sp.n p < timeNum sp.n q) => by
    intro he; subst he; omega)

/-- the grid ends with the last step of the stop round. -/
theorem grid_last (sp : Spec) (h : sp.start ≤ sp.stop) (hn : 0 < sp.n) :
    ∃ init, grid sp = init ++ [(sp.stop, sp.n - 1)] := by
  obtain ⟨m, hm⟩ : ∃ m, (sp.stop + 1 - sp.start).toNat = m + 1 := ⟨(sp.stop - sp.start).toNat, by omega⟩
  obtain ⟨n', hn'⟩ : ∃ n', sp.n = n' + 1 := ⟨sp.n - 1, by omega⟩
  have hstop : sp.start + (m : Int) = sp.stop := by omega
  simp only [grid, rounds, hm, hn', List.range_succ, List.map_append, List.flatMap_append, List.map_cons,
    List.map_nil, List.flatMap_cons, List.flatMap_nil, List.append_nil, hstop, Nat.add_sub_cancel]
  exact ⟨_, (List.append_assoc _ _ _).symm⟩

/-! ### whole runs as a fold over the grid -/

def runPositions (c : Cfg) (P : Prog) (sp : Spec) (st : St) (ps : List (Int × Nat)) : St :=
  ps.foldl (fun st p => runStep c P sp st p.1 p.2) st

/-- the nested loops of `SimultaneousScheduler.run` visit the grid positions in grid order. -/
theorem run_eq_positions (c : Cfg) (P : Prog) (sp : Spec) (pop0 : Pop) :
    run c P sp pop0 = runPositions c P sp (St.init pop0) (grid sp) := by
  have hr : runRound c P sp = fun acc x => List.foldl (fun st (p : Int × Nat) => runStep c P sp st p.1 p.2) acc
      ((List.range sp.n).map (fun s => (x, s))) := by
    funext st r; simp [runRound, List.foldl_map]
  simp only [run, runPositions, grid, List.foldl_flatMap, hr]

/-- the progress expression cannot raise: repaired formula, or the old one with a positive stop time. -/
def Safe (c : Cfg) (sp : Spec) : Prop := c.progressBySpan = true ∨ 0 < sp.stop

theorem progressOf_safe (c : Cfg) (sp : Spec) (h : Safe c sp) (r : Int) (s : Nat) :
    ∃ p, progressOf c sp r s = some p := by
  unfold progressOf
  rcases h with h | h
  · simp only [h, if_true]; split <;> exact ⟨_, rfl⟩
  · by_cases hc : c.progressBySpan = true
    · simp only [hc, if_true]; split <;> exact ⟨_, rfl⟩
    · have : sp.stop ≠ 0 := by omega
      simp [hc, this]

theorem runStep_safe (c : Cfg) (P : Prog) (sp : Spec) (h : Safe c sp) (st : St) (hc : st.crashed = false)
    (r : Int) (s : Nat) :
    (runStep c P sp st r s).crashed = false ∧
    (runStep c P sp st r s).log = st.log ++ (stepOut P sp st.pop r s).events ∧
    (runStep c P sp st r s).pop = (stepOut P sp st.pop r s).pop ∧
    (runStep c P sp st r s).stuck = (st.stuck || (stepOut P sp st.pop r s).stuck) ∧
    progressOf c sp r s = some (runStep c P sp st r s).progress := by
  obtain ⟨p, hp⟩ := progressOf_safe c sp h r s
  simp [runStep, hc, hp]

/-- the specified log: the step blocks in order, each starting from the population the previous left. -/
def blocks (P : Prog) (sp : Spec) : Pop → List (Int × Nat) → List Ev
  | _, [] => []
  | pop, p :: ps => (stepOut P sp pop p.1 p.2).events ++ blocks P sp (stepOut P sp pop p.1 p.2).pop ps

def popAfter (P : Prog) (sp : Spec) : Pop → List (Int × Nat) → Pop
  | pop, [] => pop
  | pop, p :: ps => popAfter P sp (stepOut P sp pop p.1 p.2).pop ps

theorem runPositions_spec (c : Cfg) (P : Prog) (sp : Spec) (h : Safe c sp) :
    ∀ (ps : List (Int × Nat)) (st : St), st.crashed = false →
      (runPositions c P sp st ps).crashed = false ∧
      (runPositions c P sp st ps).log = st.log ++ blocks P sp st.pop ps ∧
      (runPositions c P sp st ps).pop = popAfter P sp st.pop ps := by
  intro ps
  induction ps with
  | nil => intro st hc; simp [runPositions, blocks, popAfter, hc]
  | cons p rest ih =>
    intro st hc
    obtain ⟨h1, h2, h3, _, _⟩ := runStep_safe c P sp h st hc p.1 p.2
    obtain ⟨i1, i2, i3⟩ := ih _ h1
    simp only [runPositions, List.foldl_cons] at i1 i2 i3 ⊢
    refine ⟨i1, ?_, ?_⟩
    · rw [i2, h2, h3]; simp [blocks]
    · rw [i3, h3]; simp [popAfter]

theorem popAfter_ok (P : Prog) (sp : Spec) : ∀ (ps : List (Int × Nat)) (pop : Pop), PopOK pop →
    PopOK (popAfter P sp pop ps) := by
  intro ps
  induction ps with
  | nil => intro pop h; exact h
  | cons p rest ih => intro pop h; exact ih _ (stepShape P sp pop p.1 p.2 h).popOK

theorem stepOut_events (P : Prog) (sp : Spec) (pop : Pop) (r : Int) (s : Nat) :
    (stepOut P sp pop r s).events =
    [⟨r, s, .beginRound⟩] ++ (stepOut P sp pop r s).acted.flatMap (agentCalls r s) ++ [⟨r, s, .endRound⟩] ++
      (if collects sp r s then [⟨r, s, .collect (stepOut P sp pop r s).pop.agents⟩] else []) := rfl

theorem filter_agentCalls (k : Call → Bool) (hh : ∀ a, k (.handle a) = false) (ha : ∀ a, k (.act a) = false)
    (r : Int) (s : Nat) (l : List Nat) :
    (l.flatMap (agentCalls r s)).filter (fun e => k e.call) = [] := by
  induction l with
  | nil => rfl
  | cons a rest ih => simp [List.flatMap_cons, agentCalls, hh, ha, ih]

theorem positions_begin (P : Prog) (sp : Spec) : ∀ (ps : List (Int × Nat)) (pop : Pop),
    positionsOf isBegin (blocks P sp pop ps) = ps := by
  intro ps
  induction ps with
  | nil => intro pop; rfl
  | cons p rest ih =>
    intro pop
    have ih' := ih (stepOut P sp pop p.1 p.2).pop
    simp only [positionsOf] at ih' ⊢
    rw [blocks, stepOut_events]
    simp only [List.filter_append, List.map_append, ih',
      filter_agentCalls isBegin (fun _ => rfl) (fun _ => rfl)]
    split <;> simp [isBegin, pos]

theorem positions_end (P : Prog) (sp : Spec) : ∀ (ps : List (Int × Nat)) (pop : Pop),
    positionsOf isEnd (blocks P sp pop ps) = ps := by
  intro ps
  induction ps with
  | nil => intro pop; rfl
  | cons p rest ih =>
    intro pop
    have ih' := ih (stepOut P sp pop p.1 p.2).pop
    simp only [positionsOf] at ih' ⊢
    rw [blocks, stepOut_events]
    simp only [List.filter_append, List.map_append, ih',
      filter_agentCalls isEnd (fun _ => rfl) (fun _ => rfl)]
    split <;> simp [isEnd, pos]

theorem positions_collect (P : Prog) (sp : Spec) : ∀ (ps : List (Int × Nat)) (pop : Pop),
    positionsOf isCollect (blocks P sp pop ps) = ps.filter (fun p => collects sp p.1 p.2) := by
  intro ps
  induction ps with
  | nil => intro pop; rfl
  | cons p rest ih =>
    intro pop
    have ih' := ih (stepOut P sp pop p.1 p.2).pop
    simp only [positionsOf] at ih' ⊢
    rw [blocks, stepOut_events]
    simp only [List.filter_append, List.map_append, ih',
      filter_agentCalls isCollect (fun _ => rfl) (fun _ => rfl)]
    by_cases hc : collects sp p.1 p.2 = true
    · simp [hc, isCollect, pos]
    · simp [hc, isCollect]

theorem filter_eq_singleton {α : Type} [DecidableEq α] (x : α) : ∀ (l : List α), l.Nodup → x ∈ l →
    l.filter (fun y => y == x) = [x] := by
  intro l
  induction l with
  | nil => intro _ h; simp at h
  | cons a rest ih =>
    intro hn hx
    simp only [List.nodup_cons] at hn
    by_cases hax : a = x
    · subst hax
      have : rest.filter (fun y => y == a) = [] := by
        rw [List.filter_eq_nil_iff]; intro y hy; simp; intro he; subst he; exact hn.1 hy
      simp [this]
    · have hx' : x ∈ rest := by
        rcases List.mem_cons.mp hx with h | h
        · exact absurd h.symm hax
        · exact h
      simp [hax, ih hn.2 hx']

/-- data collection on: one statistics record per step; off: only for the final step. -/
theorem grid_collects (sp : Spec) (hn : 0 < sp.n) :
    (sp.collectOn = true → (grid sp).filter (fun p => collects sp p.1 p.2) = grid sp) ∧
    (sp.collectOn = false → sp.start ≤ sp.stop →
      (grid sp).filter (fun p => collects sp p.1 p.2) = [(sp.stop, sp.n - 1)]) := by
  constructor
  · intro h
    rw [List.filter_eq_self]
    intro p _; simp [collects, h]
  · intro h hs
    have hmem : (sp.stop, sp.n - 1) ∈ grid sp := (grid_mem sp _ _).mpr ⟨hs, Int.le_refl _, by omega⟩
    rw [← filter_eq_singleton _ _ (grid_nodup sp) hmem]
    apply List.filter_congr
    intro p _
    obtain ⟨r, s⟩ := p
    simp only [collects, h, Bool.false_or]
    rw [Bool.eq_iff_iff]
    simp only [Bool.and_eq_true, beq_iff_eq, Prod.mk.injEq]
    constructor
    · rintro ⟨a, b⟩; exact ⟨a, by omega⟩
    · rintro ⟨a, b⟩; exact ⟨a, by omega⟩

/-- after the last step of a run the progress is complete (the runner does not skip the scenario). -/
theorem final_progress (c : Cfg) (sp : Spec) (h : Safe c sp) (hs : sp.start ≤ sp.stop) (hn : 0 < sp.n)
    (p : Frac) (hp : progressOf c sp sp.stop (sp.n - 1) = some p) : p.lt1 = false := by
  have hcast : ((sp.n - 1 : Nat) : Int) = (sp.n : Int) - 1 := by omega
  unfold progressOf at hp
  by_cases hc : c.progressBySpan = true
  · simp only [hc, if_true] at hp
    have htot : 0 < (sp.stop - sp.start + 1) * (sp.n : Int) := Int.mul_pos (by omega) (by omega)
    simp only [gt_iff_lt, htot, if_true, Option.some.injEq] at hp
    subst hp
    simp only [Frac.lt1, gt_iff_lt, htot, if_true, hcast]
    have : (sp.stop - sp.start) * (sp.n : Int) + ((sp.n : Int) - 1) + 1 = (sp.stop - sp.start + 1) * (sp.n : Int) := by ring
    rw [this]; simp
  · have hpos : 0 < sp.stop := by
      rcases h with h | h
      · exact absurd h hc
      · exact h
    have hne : sp.stop ≠ 0 := by omega
    simp only [hc, hne, if_false, Bool.false_eq_true, Option.some.injEq] at hp
    subst hp
    have hden : 0 < (sp.n : Int) * sp.stop := Int.mul_pos (by omega) hpos
    simp only [Frac.lt1, gt_iff_lt, hden, if_true, hcast]
    have : sp.stop * (sp.n : Int) = (sp.n : Int) * sp.stop := by ring
    rw [this]
    simp; omega

/-! ### wave 2 (1): termination of a step under an explicit creation bound

Python never leaves `for agent in model.agents` when created agents keep creating agents.  Under the bound
"every agent creates at most `c` agents in its handlers/acts of this step, and agents with id ≥ `N` create
nobody" (nested creation among ids < `N` is allowed) the loop ends after at most `L + c·N` iterations
(`L` = agents live at loop entry): the termination assumption `stuck = false` is discharged. -/

structure CreateBound (P : Prog) (r : Int) (s : Nat) (N c : Nat) : Prop where
  each : ∀ a, creates (P.handle r s a ++ P.act r s a) ≤ c
  none_above : ∀ a, N ≤ a → creates (P.handle r s a ++ P.act r s a) = 0

theorem creates_cons (a : Act) (rest : List Act) :
    creates (a :: rest) = (if a = Act.create then 1 else 0) + creates rest := by
  by_cases h : a = Act.create
  · subst h; simp [creates]; omega
  · simp [creates, h]

theorem loopAct_todo_len (l : LoopSt) (a : Act) :
    (loopAct l a).todo.length ≤ l.todo.length + (if a = Act.create then 1 else 0) := by
  cases a with
  | delete ids => simp [loopAct]
  | create => by_cases h : l.aliased = true <;> simp [loopAct, h]

theorem foldl_loopAct_todo_len (acts : List Act) : ∀ l : LoopSt,
    (acts.foldl loopAct l).todo.length ≤ l.todo.length + creates acts := by
  induction acts with
  | nil => intro l; simp [creates]
  | cons a rest ih =>
    intro l
    have h1 := loopAct_todo_len l a
    have h2 := ih (loopAct l a)
    rw [creates_cons]
    simp only [List.foldl_cons]
    omega

/-- the measure `|todo| + c·(N − m)` (all ids still to come are ≥ m) strictly decreases per iteration. -/
theorem agentLoop_terminates (P : Prog) (r : Int) (s : Nat) (N c : Nat) (hb : CreateBound P r s N c) :
    ∀ (fuel : Nat) (l : LoopSt) (acc : List Nat) (m : Nat), LoopInv l acc → (∀ x ∈ l.todo, m ≤ x) →
      l.todo.length + c * (N - m) ≤ fuel → (agentLoop P r s fuel l acc).2.2 = false := by
  intro fuel
  induction fuel with
  | zero =>
    intro l acc m _ _ hf
    have : l.todo = [] := List.length_eq_zero_iff.mp (by omega)
    simp [agentLoop, this]
  | succ f ih =>
    intro l acc m hinv hm hf
    unfold agentLoop
    split
    · rfl
    · rename_i a rest htodo
      have hinv0 : LoopInv ({ l with todo := rest } : LoopSt) (acc ++ [a]) := by
        refine ⟨?_, ?_, hinv.popOK⟩
        · simpa [htodo] using hinv.sorted
        · intro x hx; apply hinv.bound; simpa [htodo] using hx
      have hinv' := loopInv_foldl (P.handle r s a ++ P.act r s a) _ _ hinv0
      obtain ⟨new, hn, hnb, _⟩ := foldl_loopAct_todo (P.handle r s a ++ P.act r s a) ({ l with todo := rest } : LoopSt)
      have ha_next : a < l.pop.next := hinv.bound a (by simp [htodo])
      have hsorted : (a :: rest).Pairwise (· < ·) := by
        have := (List.pairwise_append.mp hinv.sorted).2.1
        simpa [htodo] using this
      have ha_rest : ∀ x ∈ rest, a < x := fun x hx => List.rel_of_pairwise_cons hsorted hx
      have hma : m ≤ a := hm a (by simp [htodo])
      apply ih _ _ (a + 1) hinv'
      · intro x hx
        rw [hn] at hx
        rcases List.mem_append.mp hx with hx | hx
        · have := ha_rest x hx; omega
        · have := (hnb x hx).1; simp only at this; omega
      · have hlen := foldl_loopAct_todo_len (P.handle r s a ++ P.act r s a) ({ l with todo := rest } : LoopSt)
        simp only [htodo, List.length_cons] at hf
        simp only at hlen
        by_cases haN : a < N
        · have hc := hb.each a
          have h1 : c * (N - (a + 1)) + c ≤ c * (N - m) := by
            have h2 : N - (a + 1) + 1 ≤ N - m := by omega
            calc c * (N - (a + 1)) + c = c * (N - (a + 1) + 1) := by ring
              _ ≤ c * (N - m) := Nat.mul_le_mul_left c h2
          generalize c * (N - (a + 1)) = X at *
          generalize c * (N - m) = Y at *
          omega
        · have hc := hb.none_above a (by omega)
          have h0 : N - (a + 1) = 0 := by omega
          rw [h0, Nat.mul_zero]
          omega

/-- more fuel than needed changes nothing: the result of a terminating loop does not depend on the
model's fuel parameter. -/
theorem agentLoop_fuel_irrelevant (P : Prog) (r : Int) (s : Nat) : ∀ (f : Nat) (l : LoopSt) (acc : List Nat),
    (agentLoop P r s f l acc).2.2 = false → ∀ k, agentLoop P r s (f + k) l acc = agentLoop P r s f l acc := by
  intro f
  induction f with
  | zero =>
    intro l acc h k
    have ht : l.todo = [] := by simpa [agentLoop] using h
    cases k with
    | zero => rfl
    | succ k => simp [agentLoop, ht]
  | succ f ih =>
    intro l acc h k
    have hk : f + 1 + k = (f + k) + 1 := by omega
    rw [hk]
    unfold agentLoop at h ⊢
    split
    · rfl
    · rename_i a rest htodo
      simp only [htodo] at h
      exact ih _ _ h k

theorem stepOut_terminates (P : Prog) (sp : Spec) (pop : Pop) (r : Int) (s : Nat) (N c : Nat) (h : PopOK pop)
    (hb : CreateBound P r s N c) (hf : (stepOut P sp pop r s).entry.agents.length + c * N ≤ sp.fuel) :
    (stepOut P sp pop r s).stuck = false := by
  have h1 : PopOK ((P.beginRound r s).foldl Pop.apply pop) := popOK_foldl _ _ h
  have hinv : LoopInv (⟨((P.beginRound r s).foldl Pop.apply pop).agents, true,
      (P.beginRound r s).foldl Pop.apply pop⟩ : LoopSt) [] :=
    ⟨by simpa using h1.sorted, by simpa using h1.bound, h1⟩
  exact agentLoop_terminates P r s N c hb sp.fuel _ [] 0 hinv (fun _ _ => Nat.zero_le _) (by simpa [stepOut] using hf)

/-- the fuel of the spec covers `L + c·N` at every position of a sequence of steps. -/
def FuelOK (P : Prog) (sp : Spec) (N c : Nat) : Pop → List (Int × Nat) → Prop
  | _, [] => True
  | pop, p :: ps => (stepOut P sp pop p.1 p.2).entry.agents.length + c * N ≤ sp.fuel ∧
      FuelOK P sp N c (stepOut P sp pop p.1 p.2).pop ps

theorem runPositions_not_stuck (c : Cfg) (P : Prog) (sp : Spec) (h : Safe c sp) (N cb : Nat)
    (hb : ∀ r s, CreateBound P r s N cb) : ∀ (ps : List (Int × Nat)) (st : St), st.crashed = false →
      st.stuck = false → PopOK st.pop → FuelOK P sp N cb st.pop ps → (runPositions c P sp st ps).stuck = false := by
  intro ps
  induction ps with
  | nil => intro st _ hs _ _; simpa [runPositions] using hs
  | cons p rest ih =>
    intro st hc hs hp hf
    obtain ⟨h1, _, h3, h4, _⟩ := runStep_safe c P sp h st hc p.1 p.2
    have hst := stepOut_terminates P sp st.pop p.1 p.2 N cb hp (hb p.1 p.2) hf.1
    simp only [runPositions, List.foldl_cons]
    apply ih _ h1
    · rw [h4, hs, hst]; rfl
    · rw [h3]; exact (stepShape P sp st.pop p.1 p.2 hp).popOK
    · rw [h3]; exact hf.2

/-- whole runs terminate (no step is left hanging) under the creation bound. -/
theorem run_terminates (c : Cfg) (P : Prog) (sp : Spec) (pop0 : Pop) (h : Safe c sp) (hp : PopOK pop0) (N cb : Nat)
    (hb : ∀ r s, CreateBound P r s N cb) (hf : FuelOK P sp N cb pop0 (grid sp)) :
    (run c P sp pop0).stuck = false := by
  rw [run_eq_positions]
  exact runPositions_not_stuck c P sp h N cb hb (grid sp) (St.init pop0) rfl rfl hp hf

/-- the per-step clause without the termination assumption: under the bound, the live agents all act first,
in list order, followed only by agents created in this very step, strictly increasing in id. -/
theorem stepShape_bounded (P : Prog) (sp : Spec) (pop : Pop) (r : Int) (s : Nat) (N c : Nat) (h : PopOK pop)
    (hb : CreateBound P r s N c) (hf : (stepOut P sp pop r s).entry.agents.length + c * N ≤ sp.fuel) :
    ∃ extra, (stepOut P sp pop r s).acted = (stepOut P sp pop r s).entry.agents ++ extra ∧
      (∀ x ∈ extra, (stepOut P sp pop r s).entry.next ≤ x) ∧
      (stepOut P sp pop r s).acted.Pairwise (· < ·) := by
  have hs := stepOut_terminates P sp pop r s N c h hb hf
  obtain ⟨extra, he, hx⟩ := (stepShape P sp pop r s h).live hs
  exact ⟨extra, he, hx, (stepShape P sp pop r s h).order⟩

/-! ### wave 2 (3): cancellation through `scheduler.running` -/

def cancelAt (cancel : Int → Nat → Bool) (p : Int × Nat) : Bool := cancel p.1 p.2

def stepC' (c : Cfg) (P : Prog) (sp : Spec) (cancel : Int → Nat → Bool) (x : St × Bool) (p : Int × Nat) : St × Bool :=
  stepC c P sp cancel x p.1 p.2

theorem foldl_stepC_false (c : Cfg) (P : Prog) (sp : Spec) (cancel : Int → Nat → Bool) :
    ∀ (ps : List (Int × Nat)) (st : St), ps.foldl (stepC' c P sp cancel) (st, false) = (st, false) := by
  intro ps
  induction ps with
  | nil => intro st; rfl
  | cons p rest ih => intro st; simp [List.foldl_cons, stepC', stepC, ih]

theorem roundC_eq (c : Cfg) (P : Prog) (sp : Spec) (cancel : Int → Nat → Bool) (x : St × Bool) (r : Int) :
    roundC c P sp cancel x r = ((List.range sp.n).map (fun s => (r, s))).foldl (stepC' c P sp cancel) x := by
  obtain ⟨st, b⟩ := x
  cases b with
  | true => simp [roundC, List.foldl_map, stepC']
  | false => rw [foldl_stepC_false]; simp [roundC]

/-- the nested loops with their two `if self.running` tests = one test before every grid position. -/
theorem runC_eq_fold (c : Cfg) (P : Prog) (sp : Spec) (cancel : Int → Nat → Bool) (pop0 : Pop) (b : Bool) :
    runC c P sp cancel pop0 b = (grid sp).foldl (stepC' c P sp cancel) (St.init pop0, b) := by
  have hr : roundC c P sp cancel = fun acc r => List.foldl (stepC' c P sp cancel) acc
      ((List.range sp.n).map (fun s => (r, s))) := by
    funext x r; exact roundC_eq c P sp cancel x r
  simp only [runC, grid, List.foldl_flatMap, hr]

theorem foldl_stepC_cut (c : Cfg) (P : Prog) (sp : Spec) (cancel : Int → Nat → Bool) :
    ∀ (ps : List (Int × Nat)) (st : St),
      ps.foldl (stepC' c P sp cancel) (st, true) =
        (runPositions c P sp st (cut (cancelAt cancel) ps), !ps.any (cancelAt cancel)) := by
  intro ps
  induction ps with
  | nil => intro st; simp [runPositions, cut]
  | cons p rest ih =>
    intro st
    by_cases hp : cancelAt cancel p = true
    · have hp' : cancel p.1 p.2 = true := hp
      simp [List.foldl_cons, stepC', stepC, cut, hp, hp', foldl_stepC_false, runPositions]
    · have hp' : cancel p.1 p.2 = false := by simpa [cancelAt] using hp
      have hp'' : cancelAt cancel p = false := by simpa using hp
      simp only [List.foldl_cons, stepC', stepC, hp', if_true, Bool.not_false, cut, hp'', Bool.false_eq_true, if_false,
        List.any_cons, Bool.false_or]
      have := ih (runStep c P sp st p.1 p.2)
      rw [this]
      simp [runPositions]

theorem cut_prefix (f : Int × Nat → Bool) : ∀ ps : List (Int × Nat), ∃ rest, ps = cut f ps ++ rest := by
  intro ps
  induction ps with
  | nil => exact ⟨[], rfl⟩
  | cons p rest ih =>
    by_cases hp : f p = true
    · exact ⟨rest, by simp [cut, hp]⟩
    · obtain ⟨r, hr⟩ := ih
      exact ⟨r, by simp [cut, hp, ← hr]⟩

theorem cut_eq_self (f : Int × Nat → Bool) : ∀ ps : List (Int × Nat), (∀ p ∈ ps, f p = false) → cut f ps = ps := by
  intro ps
  induction ps with
  | nil => intro _; rfl
  | cons p rest ih =>
    intro h
    simp [cut, h p (by simp), ih (fun q hq => h q (by simp [hq]))]

/-- the steps executed before a cancellation takes effect: no step after the first cancelling one, and that
one is the last. -/
theorem cut_last (f : Int × Nat → Bool) : ∀ ps : List (Int × Nat), (∃ p ∈ ps, f p = true) →
    ∃ init p, cut f ps = init ++ [p] ∧ f p = true ∧ ∀ q ∈ init, f q = false := by
  intro ps
  induction ps with
  | nil => rintro ⟨p, hp, _⟩; simp at hp
  | cons q rest ih =>
    intro h
    by_cases hq : f q = true
    · exact ⟨[], q, by simp [cut, hq], hq, by simp⟩
    · have h' : ∃ p ∈ rest, f p = true := by
        obtain ⟨p, hp, hfp⟩ := h
        rcases List.mem_cons.mp hp with rfl | hp
        · exact absurd hfp hq
        · exact ⟨p, hp, hfp⟩
      obtain ⟨init, p, h1, h2, h3⟩ := ih h'
      refine ⟨q :: init, p, by simp [cut, hq, h1], h2, ?_⟩
      intro x hx
      rcases List.mem_cons.mp hx with rfl | hx
      · simpa using hq
      · exact h3 x hx

/-- progress of a grid position that is not the last one is below 1 (repaired formula). -/
theorem progress_lt1_before_last (c : Cfg) (hc : c.progressBySpan = true) (sp : Spec) (r : Int) (s : Nat)
    (hg : (r, s) ∈ grid sp) (hne : (r, s) ≠ (sp.stop, sp.n - 1)) :
    ∃ p, progressOf c sp r s = some p ∧ p.lt1 = true := by
  obtain ⟨h1, h2, h3⟩ := (grid_mem sp r s).mp hg
  have hn : (0 : Int) < sp.n := by omega
  have htot : 0 < (sp.stop - sp.start + 1) * (sp.n : Int) := Int.mul_pos (by omega) hn
  refine ⟨⟨(r - sp.start) * sp.n + s + 1, (sp.stop - sp.start + 1) * sp.n⟩, by simp [progressOf, hc, htot], ?_⟩
  simp only [Frac.lt1, gt_iff_lt, htot, if_true, decide_eq_true_eq]
  by_cases hr : r = sp.stop
  · have hs : s + 1 < sp.n := by
      by_contra hcon
      apply hne
      have : s = sp.n - 1 := by omega
      rw [this, hr]
    rw [hr]
    have : (sp.stop - sp.start + 1) * (sp.n : Int) = (sp.stop - sp.start) * sp.n + sp.n := by ring
    rw [this]; omega
  · have hlt : r - sp.start + 1 ≤ sp.stop - sp.start := by omega
    have hmul : (r - sp.start + 1) * (sp.n : Int) ≤ (sp.stop - sp.start) * sp.n :=
      Int.mul_le_mul_of_nonneg_right hlt (by omega)
    have e1 : (r - sp.start + 1) * (sp.n : Int) = (r - sp.start) * sp.n + sp.n := by ring
    have e2 : (sp.stop - sp.start + 1) * (sp.n : Int) = (sp.stop - sp.start) * sp.n + sp.n := by ring
    rw [e2]; rw [e1] at hmul
    omega

/-- what holds for a run in which callbacks may clear `scheduler.running`. -/
structure CancelClauses (c : Cfg) (P : Prog) (sp : Spec) (pop0 : Pop) (cancel : Int → Nat → Bool) : Prop where
  /-- the executed steps are the grid up to and including the first cancelling step, each once, in order,
  every one a complete step block -/
  log : (runC c P sp cancel pop0 true).1.log = blocks P sp pop0 (cut (cancelAt cancel) (grid sp))
  begins : positionsOf isBegin (runC c P sp cancel pop0 true).1.log = cut (cancelAt cancel) (grid sp)
  ends : positionsOf isEnd (runC c P sp cancel pop0 true).1.log = cut (cancelAt cancel) (grid sp)
  prefix_ : ∃ rest, grid sp = cut (cancelAt cancel) (grid sp) ++ rest
  /-- nobody cancels: the run is the uncancelled run -/
  none : (∀ p ∈ grid sp, cancelAt cancel p = false) → (runC c P sp cancel pop0 true).1 = run c P sp pop0
  flag : (runC c P sp cancel pop0 true).2 = !(grid sp).any (cancelAt cancel)
  /-- the flag is never set again: a run started with `running = False` executes nothing -/
  dead : runC c P sp cancel pop0 false = (St.init pop0, false)
  /-- cancelled before the last step: progress stays below 1, `HybridRunner.run_scenario` skips the scenario -/
  skipped : c.progressBySpan = true → (∃ p ∈ grid sp, cancelAt cancel p = true ∧ p ≠ (sp.stop, sp.n - 1) ∧
      ∀ q ∈ grid sp, cancelAt cancel q = true → timeNum sp.n p ≤ timeNum sp.n q) →
    skipped (runC c P sp cancel pop0 true).1 = true

theorem cut_mem (f : Int × Nat → Bool) : ∀ (ps : List (Int × Nat)) (q : Int × Nat), q ∈ cut f ps → q ∈ ps := by
  intro ps q hq
  obtain ⟨rest, hr⟩ := cut_prefix f ps
  rw [hr]; exact List.mem_append_left _ hq

theorem cancelClauses (c : Cfg) (P : Prog) (sp : Spec) (pop0 : Pop) (cancel : Int → Nat → Bool) (h : Safe c sp) :
    CancelClauses c P sp pop0 cancel := by
  have hrun : runC c P sp cancel pop0 true =
      (runPositions c P sp (St.init pop0) (cut (cancelAt cancel) (grid sp)), !(grid sp).any (cancelAt cancel)) := by
    rw [runC_eq_fold, foldl_stepC_cut]
  have hspec := runPositions_spec c P sp h (cut (cancelAt cancel) (grid sp)) (St.init pop0) rfl
  have hlog : (runC c P sp cancel pop0 true).1.log = blocks P sp pop0 (cut (cancelAt cancel) (grid sp)) := by
    rw [hrun]; simpa [St.init] using hspec.2.1
  refine ⟨hlog, by rw [hlog]; exact positions_begin P sp _ _, by rw [hlog]; exact positions_end P sp _ _,
    cut_prefix _ _, ?_, by rw [hrun], by rw [runC_eq_fold, foldl_stepC_false], ?_⟩
  · intro hn
    rw [hrun, cut_eq_self _ _ hn, run_eq_positions]
  · rintro hc ⟨p, hp, hfp, hne, hmin⟩
    obtain ⟨init, q, h1, h2, h3⟩ := cut_last (cancelAt cancel) (grid sp) ⟨p, hp, hfp⟩
    -- the last executed step is the first cancelling one, i.e. p
    have hq : q ∈ grid sp := cut_mem _ _ _ (by rw [h1]; simp)
    have hqp : q = p := by
      have hle := hmin q hq h2
      -- p is in the grid; were it before q it would be in `init` (not cancelling); so it is q
      obtain ⟨rest, hrest⟩ := cut_prefix (cancelAt cancel) (grid sp)
      rw [h1] at hrest
      have hinc := grid_increasing sp
      rw [hrest] at hinc hp
      rcases List.mem_append.mp hp with hp1 | hp2
      · rcases List.mem_append.mp hp1 with hp0 | hp0
        · have := h3 p hp0; rw [hfp] at this; cases this
        · simp at hp0; exact hp0.symm
      · have := (List.pairwise_append.mp hinc).2.2 q (by simp) p hp2
        omega
    subst hqp
    rw [hrun, h1]
    have hcr := (runPositions_spec c P sp h init (St.init pop0) rfl).1
    have hprog := (runStep_safe c P sp h _ hcr q.1 q.2).2.2.2.2
    obtain ⟨pr, hpr, hlt⟩ := progress_lt1_before_last c hc sp q.1 q.2 hp hne
    have : runPositions c P sp (St.init pop0) (init ++ [q]) =
        runStep c P sp (runPositions c P sp (St.init pop0) init) q.1 q.2 := by
      simp [runPositions, List.foldl_append]
    simp only [this, skipped]
    rw [hpr] at hprog
    simp only [Option.some.injEq] at hprog
    rw [← hprog]; exact hlt

/-! ### wave 2 (2): the float time label `round + step*dt` and the rational grid

A binary floating-point format with `prec` significand bits and least exponent `emin` (IEEE double: 53, −1074;
the upper exponent bound is irrelevant for |values| < 2^53): `Rep` are its numbers.  Any rounding that returns
representable arguments unchanged (every IEEE rounding mode does) computes `float(r) + float(s) * dt` without
error when `1/dt = 2^k`: the float label *is* the rational grid point `r + s/n`. -/

def Rep (prec : Nat) (emin : Int) (x : ℚ) : Prop :=
  ∃ (m e : Int), m.natAbs < 2 ^ prec ∧ emin ≤ e ∧ x = (m : ℚ) * (2 : ℚ) ^ e

structure Rounding (prec : Nat) (emin : Int) where
  rnd : ℚ → ℚ
  exact : ∀ x, Rep prec emin x → rnd x = x

/-- Python's `sim_round + step * model.dt` on such a format. -/
def floatLabel {prec : Nat} {emin : Int} (R : Rounding prec emin) (r : Int) (s : Nat) (dt : ℚ) : ℚ :=
  R.rnd (R.rnd (r : ℚ) + R.rnd (R.rnd (s : ℚ) * dt))

theorem label_exact_pow2 {prec : Nat} {emin : Int} (R : Rounding prec emin) (k : Nat) (r : Int) (s : Nat)
    (hemin : emin ≤ -(k : Int)) (hr : r.natAbs < 2 ^ prec) (hs : s < 2 ^ prec)
    (hsum : (r * 2 ^ k + s).natAbs < 2 ^ prec) :
    floatLabel R r s (1 / 2 ^ k) = (r : ℚ) + (s : ℚ) / 2 ^ k := by
  have h2 : (2 : ℚ) ^ (-(k : Int)) = 1 / 2 ^ k := by
    rw [zpow_neg, zpow_natCast]; simp
  have e0 : emin ≤ 0 := by omega
  have r1 : R.rnd (r : ℚ) = r := R.exact _ ⟨r, 0, hr, e0, by simp⟩
  have r2 : R.rnd (s : ℚ) = s := R.exact _ ⟨s, 0, by simpa using hs, e0, by simp⟩
  have r3 : R.rnd ((s : ℚ) * (1 / 2 ^ k)) = (s : ℚ) * (1 / 2 ^ k) :=
    R.exact _ ⟨s, -(k : Int), by simpa using hs, hemin, by rw [h2]; simp⟩
  have r4 : R.rnd ((r : ℚ) + (s : ℚ) * (1 / 2 ^ k)) = (r : ℚ) + (s : ℚ) * (1 / 2 ^ k) := by
    apply R.exact
    refine ⟨r * 2 ^ k + s, -(k : Int), hsum, hemin, ?_⟩
    rw [h2]
    have hpos : (2 : ℚ) ^ k ≠ 0 := by positivity
    push_cast
    field_simp
  unfold floatLabel
  rw [r1, r2, r3, r4]
  ring

/-- hence the float labels of a run with `n = 2^k` steps per round are the grid points `timeNum / n`, and are
strictly increasing along the grid. -/
theorem label_is_grid_point {prec : Nat} {emin : Int} (R : Rounding prec emin) (k : Nat) (r : Int) (s : Nat)
    (hemin : emin ≤ -(k : Int)) (hr : r.natAbs < 2 ^ prec) (hs : s < 2 ^ prec)
    (hsum : (r * 2 ^ k + s).natAbs < 2 ^ prec) :
    floatLabel R r s (1 / 2 ^ k) = (timeNum (2 ^ k) (r, s) : ℚ) / 2 ^ k := by
  rw [label_exact_pow2 R k r s hemin hr hs hsum]
  have hpos : (2 : ℚ) ^ k ≠ 0 := by positivity
  simp only [timeNum]
  push_cast
  field_simp

/-- IEEE doubles (Lean `Float`, evaluated by the kernel), witnesses only.  The code accepts every dt with
`round(1/dt) ≥ 1`, also dt = 0.1: there the literal label `0 + 3*0.1` is **not** the double nearest to the
grid point 3/10 (the property takes the label literally, so this is no violation — it is why the theorem above
needs `1/dt` to be a power of two); for dt = 0.25 the label is the grid point. -/
theorem float_label_tenth_off_grid : ((Float.ofInt 0 + Float.ofNat 3 * (0.1 : Float)) == (0.3 : Float)) = false := by
  decide +kernel

theorem float_label_quarter_on_grid : ((Float.ofInt 1 + Float.ofNat 3 * (0.25 : Float)) == (1.75 : Float)) = true := by
  decide +kernel

/-- labels with dt = 0.1 still increase strictly over a round (kernel-evaluated on all ten steps). -/
theorem float_label_tenth_increasing :
    ((List.range 9).all (fun s => Float.ofInt 2 + Float.ofNat s * (0.1 : Float) < Float.ofInt 2 + Float.ofNat (s + 1) * (0.1 : Float))
      && (Float.ofInt 2 + Float.ofNat 9 * (0.1 : Float) < Float.ofInt 3 + Float.ofNat 0 * (0.1 : Float))) = true := by
  decide +kernel

/-! ### wave 6 (1a): exactly which agents a step visits (iteration discipline: the live list object)

`for agent in model.agents` walks the list object bound at loop entry by index; `create_agent` appends to that
very object as long as `model.agents` still is it.  Ids are handed out consecutively, so the agents that join the
walk are a *contiguous run of ids starting at the `next_agent_id` of loop entry*; when no callback deleted
anybody (the object was never rebound) this run is everybody created in the loop. -/

/-- invariant: everything walked or still to be walked = the list at loop entry followed by `k` consecutive fresh ids;
while the object is still `model.agents`, these are all ids handed out since. -/
structure WalkInv (l : LoopSt) (acc base0 : List Nat) (next0 k : Nat) : Prop where
  shape : acc ++ l.todo = base0 ++ List.range' next0 k
  upto : l.aliased = true → next0 + k = l.pop.next
  mono : next0 + k ≤ l.pop.next

theorem walkInv_act (l : LoopSt) (acc base0 : List Nat) (next0 k : Nat) (a : Act) (h : WalkInv l acc base0 next0 k) :
    ∃ k', k ≤ k' ∧ WalkInv (loopAct l a) acc base0 next0 k' := by
  cases a with
  | delete ids =>
    refine ⟨k, Nat.le_refl _, ⟨h.shape, ?_, ?_⟩⟩
    · intro hal; simp [loopAct] at hal
    · simpa [loopAct, Pop.delete] using h.mono
  | create =>
    by_cases hal : l.aliased = true
    · refine ⟨k + 1, by omega, ⟨?_, ?_, ?_⟩⟩
      · have hu := h.upto hal
        simp only [loopAct, hal, if_true]
        rw [← List.append_assoc, h.shape, List.append_assoc]
        congr 1
        rw [List.range'_concat, Nat.one_mul, hu]
      · intro _; have := h.upto hal; simp [loopAct, Pop.create]; omega
      · have := h.upto hal; simp [loopAct, Pop.create]; omega
    · refine ⟨k, Nat.le_refl _, ⟨?_, ?_, ?_⟩⟩
      · simpa [loopAct, hal] using h.shape
      · intro h'; simp [loopAct] at h'; exact absurd h' hal
      · have := h.mono; simp [loopAct, Pop.create]; omega

theorem walkInv_foldl (acts : List Act) : ∀ (l : LoopSt) (acc base0 : List Nat) (next0 k : Nat),
    WalkInv l acc base0 next0 k → ∃ k', k ≤ k' ∧ WalkInv (acts.foldl loopAct l) acc base0 next0 k' := by
  induction acts with
  | nil => intro l acc base0 next0 k h; exact ⟨k, Nat.le_refl _, h⟩
  | cons a rest ih =>
    intro l acc base0 next0 k h
    obtain ⟨k1, hk1, h1⟩ := walkInv_act l acc base0 next0 k a h
    obtain ⟨k2, hk2, h2⟩ := ih _ acc base0 next0 k1 h1
    exact ⟨k2, by omega, h2⟩

/-- **exact visit list.** A terminating agent loop visits the list at loop entry followed by `k` consecutive new ids
`next0, next0+1, …`; if the list object was never rebound (final `aliased`), `k` is the number of all ids handed out
during the loop. -/
theorem agentLoop_exact (P : Prog) (r : Int) (s : Nat) : ∀ (fuel : Nat) (l : LoopSt) (acc base0 : List Nat) (next0 k : Nat),
    WalkInv l acc base0 next0 k → (agentLoop P r s fuel l acc).2.2 = false →
    ∃ k', k ≤ k' ∧ (agentLoop P r s fuel l acc).1 = base0 ++ List.range' next0 k' ∧
      next0 + k' ≤ (agentLoop P r s fuel l acc).2.1.pop.next ∧
      ((agentLoop P r s fuel l acc).2.1.aliased = true → next0 + k' = (agentLoop P r s fuel l acc).2.1.pop.next) := by
  intro fuel
  induction fuel with
  | zero =>
    intro l acc base0 next0 k h hs
    have ht : l.todo = [] := by simpa [agentLoop] using hs
    refine ⟨k, Nat.le_refl _, ?_, h.mono, h.upto⟩
    simpa [agentLoop, ht] using h.shape
  | succ f ih =>
    intro l acc base0 next0 k h hs
    unfold agentLoop at hs ⊢
    split
    · rename_i htodo
      refine ⟨k, Nat.le_refl _, ?_, h.mono, h.upto⟩
      simpa [htodo] using h.shape
    · rename_i a rest htodo
      simp only [htodo] at hs
      have h0 : WalkInv ({ l with todo := rest } : LoopSt) (acc ++ [a]) base0 next0 k :=
        ⟨by simpa [htodo] using h.shape, h.upto, h.mono⟩
      obtain ⟨k1, hk1, h1⟩ := walkInv_foldl (P.handle r s a ++ P.act r s a) _ _ base0 next0 k h0
      obtain ⟨k2, hk2, h2⟩ := ih _ _ base0 next0 k1 h1 hs
      exact ⟨k2, by omega, h2⟩

/-- one step, exactly: under the creation bound the step ends, and the acting agents are the agents live after
`begin_round`, in list order, followed by `k` consecutive ids from `next_agent_id` on — all ids created in the loop
when nobody was deleted in it. -/
theorem stepOut_exact (P : Prog) (sp : Spec) (pop : Pop) (r : Int) (s : Nat) (N c : Nat) (h : PopOK pop)
    (hb : CreateBound P r s N c) (hf : (stepOut P sp pop r s).entry.agents.length + c * N ≤ sp.fuel) :
    (stepOut P sp pop r s).stuck = false ∧
    ∃ k, (stepOut P sp pop r s).acted =
      (stepOut P sp pop r s).entry.agents ++ List.range' (stepOut P sp pop r s).entry.next k := by
  have hs := stepOut_terminates P sp pop r s N c h hb hf
  refine ⟨hs, ?_⟩
  have hw : WalkInv (⟨((P.beginRound r s).foldl Pop.apply pop).agents, true,
      (P.beginRound r s).foldl Pop.apply pop⟩ : LoopSt) [] ((P.beginRound r s).foldl Pop.apply pop).agents
      ((P.beginRound r s).foldl Pop.apply pop).next 0 := ⟨by simp, fun _ => by simp, by simp⟩
  obtain ⟨k, _, hk, _, _⟩ := agentLoop_exact P r s sp.fuel _ [] _ _ 0 hw (by simpa [stepOut] using hs)
  exact ⟨k, by simpa [stepOut] using hk⟩

/-- a program whose handlers/acts delete nobody in this step. -/
def NoDelete (P : Prog) (r : Int) (s : Nat) : Prop :=
  ∀ a, ∀ x ∈ P.handle r s a ++ P.act r s a, x = Act.create

theorem foldl_loopAct_aliased (acts : List Act) (hd : ∀ x ∈ acts, x = Act.create) : ∀ l : LoopSt,
    (acts.foldl loopAct l).aliased = l.aliased := by
  induction acts with
  | nil => intro l; rfl
  | cons a rest ih =>
    intro l
    have ha := hd a (by simp)
    subst ha
    simp only [List.foldl_cons]
    rw [ih (fun x hx => hd x (by simp [hx]))]
    rfl

theorem agentLoop_aliased (P : Prog) (r : Int) (s : Nat) (hd : NoDelete P r s) : ∀ (fuel : Nat) (l : LoopSt) (acc : List Nat),
    (agentLoop P r s fuel l acc).2.1.aliased = l.aliased := by
  intro fuel
  induction fuel with
  | zero => intro l acc; rfl
  | succ f ih =>
    intro l acc
    unfold agentLoop
    split
    · rfl
    · rename_i a rest htodo
      rw [ih, foldl_loopAct_aliased _ (hd a)]

/-- no deletion in the loop: **every** agent created during the step's loop acts in this very step (and creations
by those agents as well — nested), i.e. the acting agents are the entry list plus all ids handed out in the loop. -/
theorem stepOut_exact_nodelete (P : Prog) (sp : Spec) (pop : Pop) (r : Int) (s : Nat) (N c : Nat) (h : PopOK pop)
    (hb : CreateBound P r s N c) (hd : NoDelete P r s)
    (hf : (stepOut P sp pop r s).entry.agents.length + c * N ≤ sp.fuel) :
    ∃ k, (stepOut P sp pop r s).acted =
        (stepOut P sp pop r s).entry.agents ++ List.range' (stepOut P sp pop r s).entry.next k ∧
      (agentLoop P r s sp.fuel ⟨(stepOut P sp pop r s).entry.agents, true, (stepOut P sp pop r s).entry⟩ []).2.1.pop.next =
        (stepOut P sp pop r s).entry.next + k := by
  have hs := stepOut_terminates P sp pop r s N c h hb hf
  have hw : WalkInv (⟨((P.beginRound r s).foldl Pop.apply pop).agents, true,
      (P.beginRound r s).foldl Pop.apply pop⟩ : LoopSt) [] ((P.beginRound r s).foldl Pop.apply pop).agents
      ((P.beginRound r s).foldl Pop.apply pop).next 0 := ⟨by simp, fun _ => by simp, by simp⟩
  obtain ⟨k, _, hk, _, hal⟩ := agentLoop_exact P r s sp.fuel _ [] _ _ 0 hw (by simpa [stepOut] using hs)
  have := hal (by rw [agentLoop_aliased P r s hd])
  exact ⟨k, by simpa [stepOut] using hk, by simpa [stepOut] using this.symm⟩

/-! ### wave 6 (1b): the only non-terminating case

A program in which *every* agent creates an agent when it acts (and nobody deletes) never leaves the loop: for
every fuel the model reports `stuck` — Python's `for agent in model.agents` keeps finding a new last element.  By
`agentLoop_terminates` this cannot happen under any `CreateBound`. -/

theorem agentLoop_diverges (P : Prog) (r : Int) (s : Nat) (hall : ∀ a, P.handle r s a = [] ∧ P.act r s a = [Act.create]) :
    ∀ (fuel : Nat) (l : LoopSt) (acc : List Nat), l.aliased = true → l.todo ≠ [] →
      (agentLoop P r s fuel l acc).2.2 = true := by
  intro fuel
  induction fuel with
  | zero => intro l acc _ ht; simp [agentLoop, ht]
  | succ f ih =>
    intro l acc hal ht
    unfold agentLoop
    split
    · rename_i htodo; exact absurd htodo ht
    · rename_i a rest htodo
      obtain ⟨h1, h2⟩ := hall a
      apply ih
      · simp [h1, h2, loopAct, hal]
      · simp [h1, h2, loopAct, hal]

/-- if a step's loop is stuck for every fuel, the program admits no creation bound at all. -/
theorem stuck_forever_no_bound (P : Prog) (r : Int) (s : Nat) (l : LoopSt) (acc : List Nat) (hinv : LoopInv l acc)
    (hst : ∀ fuel, (agentLoop P r s fuel l acc).2.2 = true) : ∀ N c, ¬ CreateBound P r s N c := by
  intro N c hb
  have := agentLoop_terminates P r s N c hb (l.todo.length + c * (N - 0)) l acc 0 hinv (fun _ _ => Nat.zero_le _) (Nat.le_refl _)
  rw [hst] at this
  cases this

/-! ### wave 6 (1c): negative start / stop — floor numbering of rounds and steps

With `T = round·n + step ∈ ℤ` the absolute step index (`timeNum`), the nested loops are one flat loop over
`T = start·n … (stop+1)·n − 1` decoded with **floor** division: `round = ⌊T / n⌋`, `step = T mod n ≥ 0`.
Truncating division (`int(T / n)`) gives another round for negative `T` that is no multiple of `n`. -/

/-- floor decoding of an absolute step index. -/
def decodeT (n : Nat) (T : Int) : Int × Nat := (T / (n : Int), (T % (n : Int)).toNat)

theorem decode_timeNum (n : Nat) (hn : 0 < n) (r : Int) (s : Nat) (hs : s < n) : decodeT n (timeNum n (r, s)) = (r, s) := by
  have hn' : (n : Int) ≠ 0 := by omega
  simp only [decodeT, timeNum]
  have h1 : (r * (n : Int) + (s : Int)) / (n : Int) = r := by
    rw [Int.add_comm, Int.add_mul_ediv_right _ _ hn']
    have : (s : Int) / (n : Int) = 0 := Int.ediv_eq_zero_of_lt (by omega) (by omega)
    omega
  have h2 : (r * (n : Int) + (s : Int)) % (n : Int) = s := by
    rw [Int.add_comm, Int.add_mul_emod_self_right]
    exact Int.emod_eq_of_lt (by omega) (by omega)
  rw [h1, h2]; simp

/-- every grid position, also for negative rounds, is the floor decoding of its time index. -/
theorem grid_floor (sp : Spec) (p : Int × Nat) (hp : p ∈ grid sp) : decodeT sp.n (timeNum sp.n p) = p := by
  obtain ⟨r, s⟩ := p
  have := (grid_mem sp r s).mp hp
  exact decode_timeNum sp.n (by omega) r s this.2.2

theorem block_eq (n : Nat) (hn : 0 < n) (start : Int) (m : Nat) :
    (List.range n).map (fun s => (start + (m : Int), s)) =
      (List.range n).map (fun j => decodeT n (start * n + ((m * n + j : Nat) : Int))) := by
  apply List.map_congr_left
  intro j hj
  have hj' : j < n := List.mem_range.mp hj
  have : start * (n : Int) + ((m * n + j : Nat) : Int) = timeNum n (start + (m : Int), j) := by
    simp only [timeNum]; push_cast; ring
  rw [this, decode_timeNum n hn _ _ hj']

/-- the nested loops of `run` = ONE flat loop over the absolute step indices `start·n + k`, `k < rounds·n`, decoded by
floor division — for every integer start (negative included). -/
theorem grid_flat (sp : Spec) (hn : 0 < sp.n) :
    grid sp = (List.range ((sp.stop + 1 - sp.start).toNat * sp.n)).map
      (fun (k : Nat) => decodeT sp.n (sp.start * sp.n + ((k : Nat) : Int))) := by
  simp only [grid, rounds]
  generalize (sp.stop + 1 - sp.start).toNat = m
  induction m with
  | zero => simp
  | succ m ih =>
    rw [List.range_succ, List.map_append, List.flatMap_append, ih]
    have hmul : (m + 1) * sp.n = m * sp.n + sp.n := by ring
    rw [hmul, List.range_add, List.map_append]
    congr 1
    simp only [List.map_cons, List.map_nil, List.flatMap_cons, List.flatMap_nil, List.append_nil, List.map_map]
    have := block_eq sp.n hn sp.start m
    simpa [Function.comp_def] using this

/-- witness for truncating division: with dt = 0.5 the step of time index −1 (round −1, step 1) is decoded by
`int(T / n)` as round 0 — a flat loop that truncates runs `run_specs(-1, …, .5)` with wrong round numbers. -/
theorem trunc_decode_witness : Int.tdiv (timeNum 2 (-1, 1)) 2 ≠ -1 ∧ (timeNum 2 (-1, 1)) / 2 = -1 ∧
    decodeT 2 (timeNum 2 (-1, 1)) = (-1, 1) := by decide

/-! ### the property -/

/-- whole-run clauses. -/
structure RunClauses (c : Cfg) (P : Prog) (sp : Spec) (pop0 : Pop) : Prop where
  noCrash : (run c P sp pop0).crashed = false
  /-- the log is exactly the sequence of step blocks of the grid positions, in grid order -/
  log : (run c P sp pop0).log = blocks P sp pop0 (grid sp)
  begins : positionsOf isBegin (run c P sp pop0).log = grid sp
  ends : positionsOf isEnd (run c P sp pop0).log = grid sp
  collectOn : sp.collectOn = true → positionsOf isCollect (run c P sp pop0).log = grid sp
  collectOff : sp.collectOn = false → sp.start ≤ sp.stop →
    positionsOf isCollect (run c P sp pop0).log = [(sp.stop, sp.n - 1)]
  notSkipped : sp.start ≤ sp.stop → skipped (run c P sp pop0) = false
  popOK : PopOK (run c P sp pop0).pop

/-- externally driven single steps (`scheduler.run_step(model, r, s)`, `Model.run_step(s)` with r = 0). -/
def StepClauses (c : Cfg) (P : Prog) (sp : Spec) : Prop :=
  ∀ (st : St) (r : Int) (s : Nat), st.crashed = false →
    (runStep c P sp st r s).crashed = false ∧
    (runStep c P sp st r s).log = st.log ++ (stepOut P sp st.pop r s).events ∧
    (runStep c P sp st r s).pop = (stepOut P sp st.pop r s).pop

theorem runClauses_of_safe (c : Cfg) (P : Prog) (sp : Spec) (pop0 : Pop) (h : Safe c sp) (hn : 0 < sp.n)
    (hp : PopOK pop0) : RunClauses c P sp pop0 := by
  have hspec := runPositions_spec c P sp h (grid sp) (St.init pop0) rfl
  rw [← run_eq_positions] at hspec
  obtain ⟨h1, h2, h3⟩ := hspec
  have hlog : (run c P sp pop0).log = blocks P sp pop0 (grid sp) := by simpa [St.init] using h2
  refine ⟨h1, hlog, ?_, ?_, ?_, ?_, ?_, ?_⟩
  · rw [hlog]; exact positions_begin P sp _ _
  · rw [hlog]; exact positions_end P sp _ _
  · intro hc; rw [hlog, positions_collect]; exact (grid_collects sp hn).1 hc
  · intro hc hs; rw [hlog, positions_collect]; exact (grid_collects sp hn).2 hc hs
  · intro hs
    obtain ⟨init, hi⟩ := grid_last sp hs hn
    have hrun : run c P sp pop0 =
        runStep c P sp (runPositions c P sp (St.init pop0) init) sp.stop (sp.n - 1) := by
      rw [run_eq_positions, hi]; simp [runPositions, List.foldl_append]
    have hcr := (runPositions_spec c P sp h init (St.init pop0) rfl).1
    have hprog := (runStep_safe c P sp h _ hcr sp.stop (sp.n - 1)).2.2.2.2
    rw [← hrun] at hprog
    exact final_progress c sp h hs hn _ hprog
  · rw [h3]; exact popAfter_ok P sp _ _ hp

theorem stepClauses_of_safe (c : Cfg) (P : Prog) (sp : Spec) (h : Safe c sp) : StepClauses c P sp := by
  intro st r s hc
  obtain ⟨h1, h2, h3, _, _⟩ := runStep_safe c P sp h st hc r s
  exact ⟨h1, h2, h3⟩

/-- wave 2: termination is proved, not assumed, under an explicit creation bound. -/
structure TermClauses (c : Cfg) (P : Prog) (sp : Spec) (pop0 : Pop) : Prop where
  step : ∀ pop r s N cb, PopOK pop → CreateBound P r s N cb →
    (stepOut P sp pop r s).entry.agents.length + cb * N ≤ sp.fuel →
    (stepOut P sp pop r s).stuck = false ∧
    ∃ extra, (stepOut P sp pop r s).acted = (stepOut P sp pop r s).entry.agents ++ extra ∧
      (∀ x ∈ extra, (stepOut P sp pop r s).entry.next ≤ x) ∧ (stepOut P sp pop r s).acted.Pairwise (· < ·)
  run : ∀ N cb, (∀ r s, CreateBound P r s N cb) → FuelOK P sp N cb pop0 (grid sp) → (run c P sp pop0).stuck = false
  /-- wave 6: exactly the live list, then consecutive new ids -/
  visit : ∀ pop r s N cb, PopOK pop → CreateBound P r s N cb →
    (stepOut P sp pop r s).entry.agents.length + cb * N ≤ sp.fuel →
    ∃ k, (stepOut P sp pop r s).acted =
      (stepOut P sp pop r s).entry.agents ++ List.range' (stepOut P sp pop r s).entry.next k
  /-- wave 6: the grid is the flat loop over absolute step indices with floor decoding, for every integer start -/
  flat : 0 < sp.n → grid sp = (List.range ((sp.stop + 1 - sp.start).toNat * sp.n)).map
      (fun (k : Nat) => decodeT sp.n (sp.start * sp.n + ((k : Nat) : Int)))

theorem termClauses (c : Cfg) (P : Prog) (sp : Spec) (pop0 : Pop) (h : Safe c sp) (hp : PopOK pop0) :
    TermClauses c P sp pop0 :=
  ⟨fun pop r s N cb hpop hb hf => ⟨stepOut_terminates P sp pop r s N cb hpop hb hf,
      stepShape_bounded P sp pop r s N cb hpop hb hf⟩,
   fun N cb hb hf => run_terminates c P sp pop0 h hp N cb hb hf,
   fun pop r s N cb hpop hb hf => (stepOut_exact P sp pop r s N cb hpop hb hf).2,
   fun hn => grid_flat sp hn⟩

/-- The full property for configuration `c`: for every program, all integer start/stop, every
`n = 1/dt ≥ 1`, both settings of the collection switch, every well-formed initial population. -/
def C12_full (c : Cfg) : Prop :=
  ∀ (P : Prog) (sp : Spec) (pop0 : Pop), 0 < sp.n → PopOK pop0 →
    RunClauses c P sp pop0 ∧ StepClauses c P sp ∧
    (∀ pop r s, PopOK pop → StepShape P sp pop r s) ∧
    (∀ r s, (r, s) ∈ grid sp ↔ sp.start ≤ r ∧ r ≤ sp.stop ∧ s < sp.n) ∧
    (grid sp).Pairwise (fun p q => timeNum sp.n p < timeNum sp.n q) ∧
    TermClauses c P sp pop0 ∧ (∀ cancel, CancelClauses c P sp pop0 cancel)

theorem C12_full_of_good (c : Cfg) (h : c.progressBySpan = true) : C12_full c := by
  intro P sp pop0 hn hp
  exact ⟨runClauses_of_safe c P sp pop0 (Or.inl h) hn hp, stepClauses_of_safe c P sp (Or.inl h),
    fun pop r s hpop => stepShape P sp pop r s hpop, grid_mem sp, grid_increasing sp,
    termClauses c P sp pop0 (Or.inl h) hp, fun cancel => cancelClauses c P sp pop0 cancel (Or.inl h)⟩

/-- What holds whatever the progress formula is: everything, for positive stop times. -/
theorem C12_partial (c : Cfg) (P : Prog) (sp : Spec) (pop0 : Pop) (hn : 0 < sp.n) (hp : PopOK pop0)
    (hstop : 0 < sp.stop) :
    RunClauses c P sp pop0 ∧ StepClauses c P sp ∧
    (∀ pop r s, PopOK pop → StepShape P sp pop r s) ∧
    (∀ r s, (r, s) ∈ grid sp ↔ sp.start ≤ r ∧ r ≤ sp.stop ∧ s < sp.n) ∧
    (grid sp).Pairwise (fun p q => timeNum sp.n p < timeNum sp.n q) ∧
    TermClauses c P sp pop0 ∧ (∀ cancel, CancelClauses c P sp pop0 cancel) :=
  ⟨runClauses_of_safe c P sp pop0 (Or.inr hstop) hn hp, stepClauses_of_safe c P sp (Or.inr hstop),
    fun pop r s hpop => stepShape P sp pop r s hpop, grid_mem sp, grid_increasing sp,
    termClauses c P sp pop0 (Or.inr hstop) hp, fun cancel => cancelClauses c P sp pop0 cancel (Or.inr hstop)⟩

def quietProg : Prog :=
  { beginRound := fun _ _ => [], handle := fun _ _ _ => [], act := fun _ _ _ => [], endRound := fun _ _ => [] }

theorem popOK_one : PopOK { agents := [0], next := 1 } := ⟨by simp, by simp⟩

/-- Negation witness, `time / stoptime` with stop = 0: `run_specs(0, 0, .5)` raises in the first step. -/
theorem C12_witness_zero (c : Cfg) (h : c.progressBySpan = false) : ¬ C12_full c := by
  intro hf
  have := (hf quietProg { start := 0, stop := 0, n := 2, collectOn := true, fuel := 8 }
    { agents := [0], next := 1 } (by decide) popOK_one).1.noCrash
  cases c; simp only at h; subst h
  revert this; decide

/-- Negation witness, `time / stoptime` with stop < 0: `run_specs(-3, -1, .5)` runs all six steps and ends
with progress (-1·2+1)/(2·(-1)) = 1/2 < 1, so `HybridRunner.run_scenario` skips the finished scenario. -/
theorem C12_witness_negative (c : Cfg) (h : c.progressBySpan = false) : ¬ C12_full c := by
  intro hf
  have := (hf quietProg { start := -3, stop := -1, n := 2, collectOn := true, fuel := 8 }
    { agents := [0], next := 1 } (by decide) popOK_one).1.notSkipped (by decide)
  cases c; simp only at h; subst h
  revert this; decide

/-- mid-step creation and deletion (concrete, as the iteration semantics dictate): in step (1,0) agent 0
creates agent 2 (acts in the same step: the iterated list is still `model.agents`), deletes agent 1
(still acts: the iterated list is the old object), creates agent 3 (acts from the next step on). -/
def midProg : Prog :=
  { quietProg with act := fun r s a => if r = 1 ∧ s = 0 ∧ a = 0 then [.create, .delete [1], .create] else [] }

example : (stepOut midProg { start := 1, stop := 2, n := 2, collectOn := true, fuel := 9 }
    { agents := [0, 1], next := 2 } 1 0).acted = [0, 1, 2] := by decide
example : (stepOut midProg { start := 1, stop := 2, n := 2, collectOn := true, fuel := 9 }
    { agents := [0, 1], next := 2 } 1 0).pop = { agents := [0, 2, 3], next := 4 } := by decide

/-- Non-vacuity: a run with mid-step creation/deletion terminates within the fuel, does not crash, and
has the 4 begin_round calls of the 2×2 grid. -/
example : (run ⟨true⟩ midProg { start := 1, stop := 2, n := 2, collectOn := false, fuel := 9 }
    { agents := [0, 1], next := 2 }).stuck = false ∧
    positionsOf isBegin (run ⟨true⟩ midProg { start := 1, stop := 2, n := 2, collectOn := false, fuel := 9 }
      { agents := [0, 1], next := 2 }).log = [(1, 0), (1, 1), (2, 0), (2, 1)] ∧
    positionsOf isCollect (run ⟨true⟩ midProg { start := 1, stop := 2, n := 2, collectOn := false, fuel := 9 }
      { agents := [0, 1], next := 2 }).log = [(2, 1)] := by decide

/-! ### wave 3: history independence — a call depends on the run specs in force, not on earlier calls -/

theorem effSpec_good (h : SchedCfg) (hg : h.stepsFromSpecs = true) (sc : Sched) (sp : Spec) : effSpec h sc sp = sp := by
  simp [effSpec, stepsUsed, hg]

/-- with steps-per-round taken from the run specs in force, a call on a used scheduler does exactly what the
same call does on a fresh scheduler holding the same population. -/
theorem callOn_fresh (c : Cfg) (h : SchedCfg) (hg : h.stepsFromSpecs = true) (P : Prog) (sc : Sched) (call : SCall) :
    (callOn c h P sc call).2 = freshCall c P sc.pop call ∧ (callOn c h P sc call).1.cache = none := by
  cases call <;> simp [callOn, freshCall, effSpec_good h hg, cacheAfter, hg]

def SCall.spec : SCall → Spec
  | .run sp => sp
  | .step sp _ _ => sp

/-- every call of a history: (population it started from, its outcome). -/
def outcomes (c : Cfg) (h : SchedCfg) (P : Prog) : Sched → List SCall → List (Pop × SCall × St)
  | _, [] => []
  | sc, call :: rest => (sc.pop, call, (callOn c h P sc call).2) :: outcomes c h P (callOn c h P sc call).1 rest

theorem outcomes_fresh (c : Cfg) (h : SchedCfg) (hg : h.stepsFromSpecs = true) (P : Prog) :
    ∀ (calls : List SCall) (sc : Sched), ∀ x ∈ outcomes c h P sc calls, x.2.2 = freshCall c P x.1 x.2.1 := by
  intro calls
  induction calls with
  | nil => intro sc x hx; simp [outcomes] at hx
  | cons call rest ih =>
    intro sc x hx
    simp only [outcomes, List.mem_cons] at hx
    rcases hx with rfl | hx
    · exact (callOn_fresh c h hg P sc call).1
    · exact ih _ x hx

theorem callOn_popOK (c : Cfg) (h : SchedCfg) (hg : h.stepsFromSpecs = true) (P : Prog) (sc : Sched) (call : SCall)
    (hs : Safe c call.spec) (hn : 0 < call.spec.n) (hp : PopOK sc.pop) : PopOK (callOn c h P sc call).1.pop := by
  cases call with
  | run sp =>
    simp only [callOn, effSpec_good h hg]
    exact (runClauses_of_safe c P sp sc.pop hs hn hp).popOK
  | step sp r s =>
    simp only [callOn, effSpec_good h hg]
    rw [(runStep_safe c P sp hs (St.init sc.pop) rfl r s).2.2.1]
    exact (stepShape P sp sc.pop r s hp).popOK

/-- The history part of the property: after ANY earlier runs / steps under other run specs (other dt, start,
stop, collect switch), every whole run has all `RunClauses` **for the run specs in force** from the population
it starts with, and every externally driven step is the step block of the specification. -/
def C12_history (c : Cfg) (h : SchedCfg) : Prop :=
  ∀ (P : Prog) (pop0 : Pop) (calls : List SCall), PopOK pop0 → (∀ call ∈ calls, 0 < call.spec.n) →
    ∀ x ∈ outcomes c h P ⟨pop0, none⟩ calls,
      x.2.2 = freshCall c P x.1 x.2.1 ∧ PopOK x.1 ∧
      (∀ sp, x.2.1 = .run sp → RunClauses c P sp x.1) ∧
      (∀ sp r s, x.2.1 = .step sp r s → x.2.2.crashed = false ∧ x.2.2.log = (stepOut P sp x.1 r s).events ∧
        x.2.2.pop = (stepOut P sp x.1 r s).pop)

theorem outcomes_popOK (c : Cfg) (hc : c.progressBySpan = true) (h : SchedCfg) (hg : h.stepsFromSpecs = true) (P : Prog) :
    ∀ (calls : List SCall) (sc : Sched), PopOK sc.pop → (∀ call ∈ calls, 0 < call.spec.n) →
      ∀ x ∈ outcomes c h P sc calls, PopOK x.1 := by
  intro calls
  induction calls with
  | nil => intro sc _ _ x hx; simp [outcomes] at hx
  | cons call rest ih =>
    intro sc hp hn x hx
    simp only [outcomes, List.mem_cons] at hx
    rcases hx with rfl | hx
    · exact hp
    · exact ih _ (callOn_popOK c h hg P sc call (Or.inl hc) (hn call (by simp)) hp)
        (fun q hq => hn q (by simp [hq])) x hx

theorem mem_outcomes_call (c : Cfg) (h : SchedCfg) (P : Prog) : ∀ (calls : List SCall) (sc : Sched),
    ∀ x ∈ outcomes c h P sc calls, x.2.1 ∈ calls := by
  intro calls
  induction calls with
  | nil => intro sc x hx; simp [outcomes] at hx
  | cons call rest ih =>
    intro sc x hx
    simp only [outcomes, List.mem_cons] at hx
    rcases hx with rfl | hx
    · simp
    · exact List.mem_cons_of_mem _ (ih _ x hx)

theorem C12_history_of_good (c : Cfg) (hc : c.progressBySpan = true) (h : SchedCfg) (hg : h.stepsFromSpecs = true) :
    C12_history c h := by
  intro P pop0 calls hp hn x hx
  have hfresh := outcomes_fresh c h hg P calls ⟨pop0, none⟩ x hx
  have hpop := outcomes_popOK c hc h hg P calls ⟨pop0, none⟩ hp hn x hx
  have hcall := mem_outcomes_call c h P calls _ x hx
  refine ⟨hfresh, hpop, ?_, ?_⟩
  · intro sp hsp
    have hpos : 0 < sp.n := by have := hn _ hcall; rw [hsp] at this; exact this
    exact runClauses_of_safe c P sp x.1 (Or.inl hc) hpos hpop
  · intro sp r s hsp
    rw [hfresh, hsp]
    obtain ⟨h1, h2, h3, _, _⟩ := runStep_safe c P sp (Or.inl hc) (St.init x.1) rfl r s
    exact ⟨h1, by simpa [St.init, freshCall] using h2, by simpa [St.init, freshCall] using h3⟩

/-- Negation witness for a cached steps-per-round: `run_specs(0,0,1)`, run, `run_specs(0,0,0.5)`, run — the second
run executes one step instead of the two steps (0,0), (0,1) of its grid. -/
theorem C12_history_witness (c : Cfg) (hc : c.progressBySpan = true) (h : SchedCfg) (hb : h.stepsFromSpecs = false) :
    ¬ C12_history c h := by
  intro hf
  have hx := hf quietProg { agents := [0], next := 1 }
    [.run { start := 0, stop := 0, n := 1, collectOn := true, fuel := 8 },
     .run { start := 0, stop := 0, n := 2, collectOn := true, fuel := 8 }] popOK_one
    (by intro call hc; simp at hc; rcases hc with rfl | rfl <;> decide)
  cases c; simp only at hc; subst hc
  cases h; simp only at hb; subst hb
  have h2 := (hx _ (by simp [outcomes]; right; rfl)).1
  have h3 := congrArg (fun st : St => (positionsOf isBegin st.log).length) h2
  revert h3
  decide

/-- nested creation within the bound: agent 0 creates agent 2, agent 2 (created in this step) creates agent 3,
agent 3 (id ≥ N = 3) creates nobody; `c = 1`.  The step ends with fuel `L + c·N = 2 + 3`. -/
def nestedProg : Prog :=
  { quietProg with act := fun _ _ a => if a = 0 ∨ a = 2 then [.create] else [] }

example : CreateBound nestedProg 1 0 3 1 :=
  ⟨fun a => by
      by_cases h : a = 0 ∨ a = 2
      · simp [nestedProg, quietProg, h, creates]
      · simp [nestedProg, quietProg, h, creates],
   fun a ha => by
      have h : ¬ (a = 0 ∨ a = 2) := by omega
      simp [nestedProg, quietProg, h, creates]⟩

example : (stepOut nestedProg { start := 1, stop := 1, n := 1, collectOn := true, fuel := 5 }
    { agents := [0, 1], next := 2 } 1 0).acted = [0, 1, 2, 3] ∧
    (stepOut nestedProg { start := 1, stop := 1, n := 1, collectOn := true, fuel := 5 }
      { agents := [0, 1], next := 2 } 1 0).stuck = false := by decide

/-- cancellation: `scheduler.running` cleared in step (1,1) of a 2×2 grid — steps (1,0), (1,1) run, nothing after,
the flag stays false, progress 2/4 < 1 (the runner skips the scenario). -/
example :
    let r := runC ⟨true⟩ quietProg { start := 1, stop := 2, n := 2, collectOn := true, fuel := 9 }
      (fun r s => r == 1 && s == 1) { agents := [0], next := 1 } true
    positionsOf isBegin r.1.log = [(1, 0), (1, 1)] ∧ r.2 = false ∧ skipped r.1 = true ∧ r.1.progress = ⟨2, 4⟩ := by
  decide

/-- the rounding hypothesis is satisfiable (exact arithmetic is a rounding). -/
example : Rounding 53 (-1074) := ⟨id, fun _ _ => rfl⟩

#print axioms C12_full_of_good
#print axioms C12_partial
#print axioms C12_witness_zero
#print axioms C12_witness_negative
#print axioms stepShape
#print axioms grid_increasing
#print axioms foldl_loopAct_frozen
#print axioms agentLoop_exact
#print axioms stepOut_exact
#print axioms stepOut_exact_nodelete
#print axioms agentLoop_diverges
#print axioms stuck_forever_no_bound
#print axioms grid_flat
#print axioms grid_floor
#print axioms trunc_decode_witness
#print axioms C12_history_of_good
#print axioms C12_history_witness
#print axioms callOn_fresh
#print axioms agentLoop_terminates
#print axioms run_terminates
#print axioms agentLoop_fuel_irrelevant
#print axioms cancelClauses
#print axioms label_exact_pow2
#print axioms label_is_grid_point
#print axioms float_label_tenth_off_grid
#print axioms float_label_quarter_on_grid
#print axioms float_label_tenth_increasing

end Bptk.C12
