import Bptk.Core.C08
/-!
C08 — property theorems.

Quantifiers: every carrier `α` with arbitrary operations, every initial model, every edit / evaluate
history (`List (Op α)`), every fuel; every schedule (`List Nat`) of any number of worker threads.
-/
namespace Bptk.C08

/-! ## Part (a): sequential histories -/

/-- Reference semantics without memo: the value of an expression at grid index `k` under the
definitions `body` (big-step; a derivation exists iff the recursion terminates). -/
inductive Val {α : Type} (ops : Ops α) (body : Nat → Expr α) : Expr α → Nat → α → Prop where
  | lit (x : α) (k : Nat) : Val ops body (.lit x) k x
  | ref (n k : Nat) (v : α) : Val ops body (body n) k v → Val ops body (.ref n) k v
  | prev (n k : Nat) (v : α) : Val ops body (body n) k v → Val ops body (.prev n) (k + 1) v
  | bin (op : Nat) (a b : Expr α) (k : Nat) (x y : α) :
      Val ops body a k x → Val ops body b k y → Val ops body (.bin op a b) k (ops.bin op x y)
  | max0 (a : Expr α) (k : Nat) (x : α) : Val ops body a k x → Val ops body (.max0 a) k (ops.max0 x)
  | atStart0 (a b : Expr α) (v : α) : Val ops body a 0 v → Val ops body (.atStart a b) 0 v
  | atStartS (a b : Expr α) (k : Nat) (v : α) :
      Val ops body b (k + 1) v → Val ops body (.atStart a b) (k + 1) v
  | lookup (p : Nat) (a : Expr α) (k : Nat) (x : α) :
      Val ops body a k x → Val ops body (.lookup p a) k (ops.lookup p x)

/-- what a freshly built model with definitions `body` yields for `key`. -/
def Fresh {α : Type} (ops : Ops α) (body : Nat → Expr α) (key : Key) (v : α) : Prop :=
  Val ops body (body key.1) key.2 v

theorem Val.det {α : Type} {ops : Ops α} {body : Nat → Expr α} {e : Expr α} {k : Nat} {v w : α}
    (h1 : Val ops body e k v) (h2 : Val ops body e k w) : v = w := by
  induction h1 generalizing w with
  | lit x k => cases h2; rfl
  | ref n k v _ ih => cases h2 with | ref _ _ _ h => exact ih h
  | prev n k v _ ih => cases h2 with | prev _ _ _ h => exact ih h
  | bin op a b k x y _ _ iha ihb =>
      cases h2 with | bin _ _ _ _ x' y' ha hb => rw [iha ha, ihb hb]
  | max0 a k x _ ih => cases h2 with | max0 _ _ x' h => rw [ih h]
  | atStart0 a b v _ ih => cases h2 with | atStart0 _ _ _ h => exact ih h
  | atStartS a b k v _ ih => cases h2 with | atStartS _ _ _ _ h => exact ih h
  | lookup p a k x _ ih => cases h2 with | lookup _ _ _ x' h => rw [ih h]

/-- The memo invariant: every entry equals the fresh value under the current definitions. -/
def MemoInv {α : Type} (ops : Ops α) (body : Nat → Expr α) (m : Memo α) : Prop :=
  ∀ key v, look m key = some v → Fresh ops body key v

theorem memoInv_nil {α : Type} (ops : Ops α) (body : Nat → Expr α) : MemoInv ops body [] := by
  intro key v h; simp [look] at h

theorem look_cons {α : Type} (m : Memo α) (k key : Key) (v : α) :
    look ((k, v) :: m) key = if k = key then some v else look m key := rfl

theorem memoInv_cons {α : Type} {ops : Ops α} {body : Nat → Expr α} {m : Memo α} {key : Key} {v : α}
    (hm : MemoInv ops body m) (hv : Fresh ops body key v) : MemoInv ops body ((key, v) :: m) := by
  intro k w h
  rw [look_cons] at h
  split at h
  · rename_i hk; subst hk; cases h; exact hv
  · exact hm k w h

/-- soundness of a key evaluator -/
def EvSound {α : Type} (ops : Ops α) (body : Nat → Expr α) (ev : Memo α → Key → Memo α × Option α) : Prop :=
  ∀ m key, MemoInv ops body m →
    MemoInv ops body (ev m key).1 ∧ ∀ v, (ev m key).2 = some v → Fresh ops body key v

theorem evalE_sound {α : Type} (ops : Ops α) (body : Nat → Expr α)
    (ev : Memo α → Key → Memo α × Option α) (hev : EvSound ops body ev) :
    ∀ (e : Expr α) (k : Nat) (m : Memo α), MemoInv ops body m →
      MemoInv ops body (evalE ops ev e k m).1 ∧
      ∀ v, (evalE ops ev e k m).2 = some v → Val ops body e k v := by
  intro e
  induction e with
  | lit x =>
      intro k m hm
      refine ⟨hm, ?_⟩
      intro v h; simp [evalE] at h; subst h; exact Val.lit x k
  | ref n =>
      intro k m hm
      have := hev m (n, k) hm
      refine ⟨this.1, ?_⟩
      intro v h; exact Val.ref n k v (this.2 v h)
  | prev n =>
      intro k m hm
      cases k with
      | zero => exact ⟨hm, by intro v h; simp [evalE] at h⟩
      | succ k' =>
          have := hev m (n, k') hm
          refine ⟨this.1, ?_⟩
          intro v h; exact Val.prev n k' v (this.2 v h)
  | bin op a b iha ihb =>
      intro k m hm
      have ha := iha k m hm
      rcases hea : evalE ops ev a k m with ⟨m1, ra⟩
      rw [hea] at ha
      cases ra with
      | none => simp only [evalE, hea]; exact ⟨ha.1, by intro v h; simp at h⟩
      | some x =>
          have hb := ihb k m1 ha.1
          rcases heb : evalE ops ev b k m1 with ⟨m2, rb⟩
          rw [heb] at hb
          cases rb with
          | none => simp only [evalE, hea, heb]; exact ⟨hb.1, by intro v h; simp at h⟩
          | some y =>
              simp only [evalE, hea, heb]
              refine ⟨hb.1, ?_⟩
              intro v h; simp at h; subst h
              exact Val.bin op a b k x y (ha.2 x rfl) (hb.2 y rfl)
  | max0 a iha =>
      intro k m hm
      have ha := iha k m hm
      rcases hea : evalE ops ev a k m with ⟨m1, ra⟩
      rw [hea] at ha
      cases ra with
      | none => simp only [evalE, hea]; exact ⟨ha.1, by intro v h; simp at h⟩
      | some x =>
          simp only [evalE, hea]
          refine ⟨ha.1, ?_⟩
          intro v h; simp at h; subst h
          exact Val.max0 a k x (ha.2 x rfl)
  | atStart a b iha ihb =>
      intro k m hm
      cases k with
      | zero =>
          have ha := iha 0 m hm
          exact ⟨ha.1, fun v h => Val.atStart0 a b v (ha.2 v h)⟩
      | succ k' =>
          have hb := ihb (k' + 1) m hm
          exact ⟨hb.1, fun v h => Val.atStartS a b k' v (hb.2 v h)⟩
  | rnd =>
      intro k m hm
      exact ⟨hm, by intro v h; simp [evalE] at h⟩
  | lookup p a iha =>
      intro k m hm
      have ha := iha k m hm
      rcases hea : evalE ops ev a k m with ⟨m1, ra⟩
      rw [hea] at ha
      cases ra with
      | none => simp only [evalE, hea]; exact ⟨ha.1, by intro v h; simp at h⟩
      | some x =>
          simp only [evalE, hea]
          refine ⟨ha.1, ?_⟩
          intro v h; simp at h; subst h
          exact Val.lookup p a k x (ha.2 x rfl)

/-- `memoize` is sound for every fuel: it keeps the memo invariant and returns the fresh value. -/
theorem evalK_sound {α : Type} (ops : Ops α) (body : Nat → Expr α) :
    ∀ fuel, EvSound ops body (evalK ops body fuel) := by
  intro fuel
  induction fuel with
  | zero => intro m key hm; exact ⟨hm, by intro v h; simp [evalK] at h⟩
  | succ f ih =>
      intro m key hm
      simp only [evalK]
      cases hl : look m key with
      | some v =>
          refine ⟨hm, ?_⟩
          intro w h; simp at h; subst h; exact hm key v hl
      | none =>
          have he := evalE_sound ops body _ ih (body key.1) key.2 m hm
          rcases hee : evalE ops (evalK ops body f) (body key.1) key.2 m with ⟨m1, r⟩
          rw [hee] at he
          cases r with
          | none => exact ⟨he.1, by intro v h; simp at h⟩
          | some v =>
              have hv : Fresh ops body key v := he.2 v rfl
              refine ⟨memoInv_cons he.1 hv, ?_⟩
              intro w h; simp at h; subst h; exact hv

/-- Reachable states: the memo invariant holds after every history, given the cache-reset facts —
with respect to the points tables of the state (`Ops.withLk`). -/
def StInv {α : Type} (ops : Ops α) (s : St α) : Prop := MemoInv (ops.withLk s.lk) s.body s.memo

/-- with the fact `rejectedIsNoOp`, cache resets are never switched off. -/
theorem step_suspended {α : Type} (c : Cfg) (hj : c.rejectedIsNoOp = true) (ops : Ops α) (s : St α) (op : Op α)
    (h : s.suspended = false) : (step c ops s op).suspended = false := by
  cases op <;> simp [step, h, hj]

theorem run_suspended {α : Type} (c : Cfg) (hj : c.rejectedIsNoOp = true) (ops : Ops α) (h : List (Op α)) :
    ∀ s : St α, s.suspended = false → (run c ops s h).suspended = false := by
  induction h with
  | nil => intro s hs; exact hs
  | cons op rest ih => intro s hs; exact ih _ (step_suspended c hj ops s op hs)

theorem inv_step {α : Type} (c : Cfg) (hi : c.initialValueResetsCache = true)
    (ha : c.addEquationResetsCache = true) (hr : c.resetClearsAllStores = true) (hj : c.rejectedIsNoOp = true)
    (ops : Ops α) (s : St α) (op : Op α) (hsus : s.suspended = false)
    (h : StInv ops s) (hop : ∀ p f, op ≠ Op.setPoints p f) (hop2 : ∀ n e, op ≠ Op.rawEq n e) :
    StInv ops (step c ops s op) := by
  cases op with
  | setEq n e => simp only [step, hsus, StInv]; exact memoInv_nil _ _
  | setInit n e => simp only [step, hi, hsus, StInv]; exact memoInv_nil _ _
  | addEq n e => simp only [step, ha, hsus, StInv]; exact memoInv_nil _ _
  | reset => simp only [step, hsus, StInv]; exact memoInv_nil _ _
  | eval n k fuel => exact (evalK_sound (ops.withLk s.lk) s.body fuel s.memo (n, k) h).1
  | setPoints p f => exact absurd rfl (hop p f)
  | sreset => simp only [step, hr, StInv]; exact memoInv_nil _ _
  | rawEq n e => exact absurd rfl (hop2 n e)
  | rejected => simp only [step, hj, if_true]; exact h

/-- every settled history keeps the invariant: `d` tells whether points were written since the memo was last
emptied; an evaluation only happens when `d = false`. -/
theorem inv_run_from {α : Type} (c : Cfg) (hi : c.initialValueResetsCache = true)
    (ha : c.addEquationResetsCache = true) (hr : c.resetClearsAllStores = true) (hj : c.rejectedIsNoOp = true)
    (ops : Ops α) (h : List (Op α)) :
    ∀ (d : Bool) (s : St α), s.suspended = false → (d = false → StInv ops s) → settledFrom d h = true →
      StInv ops (run c ops s h) := by
  induction h with
  | nil =>
      intro d s _ hs hset
      simp only [settledFrom, Bool.not_eq_true'] at hset
      exact hs hset
  | cons op rest ih =>
      intro d s hsus hs hset
      simp only [run, List.foldl_cons]
      have hsus' := step_suspended c hj ops s op hsus
      cases op with
      | setPoints p f =>
          simp only [settledFrom] at hset
          exact ih true _ hsus' (by intro h; cases h) hset
      | eval n k fuel =>
          simp only [settledFrom, Bool.and_eq_true, Bool.not_eq_true'] at hset
          exact ih d _ hsus' (fun _ => inv_step c hi ha hr hj ops s _ hsus (hs hset.1) (by intro p f h; cases h) (by intro n e h; cases h)) hset.2
      | setEq n e =>
          simp only [settledFrom] at hset
          exact ih false _ hsus' (fun _ => by simp only [step, hsus, StInv]; exact memoInv_nil _ _) hset
      | setInit n e =>
          simp only [settledFrom] at hset
          exact ih false _ hsus' (fun _ => by simp only [step, hi, hsus, StInv]; exact memoInv_nil _ _) hset
      | addEq n e =>
          simp only [settledFrom] at hset
          exact ih false _ hsus' (fun _ => by simp only [step, ha, hsus, StInv]; exact memoInv_nil _ _) hset
      | reset =>
          simp only [settledFrom] at hset
          exact ih false _ hsus' (fun _ => by simp only [step, hsus, StInv]; exact memoInv_nil _ _) hset
      | sreset =>
          simp only [settledFrom] at hset
          exact ih false _ hsus' (fun _ => by simp only [step, hr, StInv]; exact memoInv_nil _ _) hset
      | rawEq n e =>
          simp only [settledFrom] at hset
          exact ih true _ hsus' (by intro h; cases h) hset
      | rejected =>
          simp only [settledFrom] at hset
          exact ih d _ hsus' (fun hd => by simp only [step, hj, if_true]; exact hs hd) hset

theorem inv_run {α : Type} (c : Cfg) (hi : c.initialValueResetsCache = true)
    (ha : c.addEquationResetsCache = true) (hr : c.resetClearsAllStores = true) (hj : c.rejectedIsNoOp = true)
    (ops : Ops α) (h : List (Op α)) (hset : settled h = true) :
    ∀ s : St α, s.suspended = false → StInv ops s → StInv ops (run c ops s h) :=
  fun s hsus hs => inv_run_from c hi ha hr hj ops h false s hsus (fun _ => hs) hset

/-- **Never stale** (clause 1): after any history of edits, cache resets, points edits (settled: followed by a
cache reset or another edit before the next evaluation) and evaluations on a model, whatever `element(t_k)`
returns is the value a freshly built model with the final definitions and points tables yields.
(Histories without points edits are always settled: the wave-1 statement is the special case.) -/
def C08_seq (c : Cfg) : Prop :=
  ∀ (α : Type) (ops : Ops α) (s0 : St α), s0.memo = [] → s0.suspended = false →
  ∀ (h : List (Op α)), settled h = true → ∀ (n k f1 f2 : Nat) (v w : α),
    query ops (run c ops s0 h) n k f1 = some v →
    query ops { run c ops s0 h with memo := [] } n k f2 = some w → v = w

theorem C08_fresh (c : Cfg) (hi : c.initialValueResetsCache = true)
    (ha : c.addEquationResetsCache = true) (hr : c.resetClearsAllStores = true) (hj : c.rejectedIsNoOp = true) : C08_seq c := by
  intro α ops s0 h0 hs0 h hset n k f1 f2 v w hv hw
  have hinv : StInv ops (run c ops s0 h) :=
    inv_run c hi ha hr hj ops h hset s0 hs0 (by simp only [StInv, h0]; exact memoInv_nil _ _)
  have h1 := (evalK_sound (ops.withLk (run c ops s0 h).lk) (run c ops s0 h).body f1 (run c ops s0 h).memo (n, k) hinv).2 v hv
  have h2 := (evalK_sound (ops.withLk (run c ops s0 h).lk) (run c ops s0 h).body f2 [] (n, k) (memoInv_nil _ _)).2 w hw
  exact Val.det h1 h2

/-- a history without points edits is settled (the wave-1 alphabet). -/
theorem settledFrom_false_of_noPoints {α : Type} (h : List (Op α)) (hn : ∀ op ∈ h, ∀ p f, op ≠ Op.setPoints p f)
    (hn2 : ∀ op ∈ h, ∀ n e, op ≠ Op.rawEq n e) : settledFrom false h = true := by
  induction h with
  | nil => rfl
  | cons op rest ih =>
      have hr : ∀ op ∈ rest, ∀ p f, op ≠ Op.setPoints p f := fun o ho => hn o (List.mem_cons_of_mem _ ho)
      have hr2 : ∀ op ∈ rest, ∀ n e, op ≠ Op.rawEq n e := fun o ho => hn2 o (List.mem_cons_of_mem _ ho)
      cases op with
      | setPoints p f => exact absurd rfl (hn _ (List.mem_cons_self ..) p f)
      | eval n k fuel => simp only [settledFrom, Bool.not_false, Bool.true_and]; exact ih hr hr2
      | setEq n e => simp only [settledFrom]; exact ih hr hr2
      | setInit n e => simp only [settledFrom]; exact ih hr hr2
      | addEq n e => simp only [settledFrom]; exact ih hr hr2
      | reset => simp only [settledFrom]; exact ih hr hr2
      | sreset => simp only [settledFrom]; exact ih hr hr2
      | rawEq n e => exact absurd rfl (hn2 _ (List.mem_cons_self ..) n e)
      | rejected => simp only [settledFrom]; exact ih hr hr2

/-- Evaluations alone never break the invariant, whatever the Cfg says (the partial result). -/
theorem C08_partial_evals (c : Cfg) {α : Type} (ops : Ops α) (s : St α) (hs : StInv ops s)
    (qs : List (Nat × Nat × Nat)) :
    StInv ops (run c ops s (qs.map fun q => Op.eval q.1 q.2.1 q.2.2)) := by
  induction qs generalizing s with
  | nil => exact hs
  | cons q rest ih =>
      exact ih _ ((evalK_sound (ops.withLk s.lk) s.body q.2.2 s.memo (q.1, q.2.1) hs).1)

/-- **Repeating returns identical results**: once a value was returned, every later evaluation of
the same key (with any positive fuel) returns the same value and leaves the memo unchanged. -/
theorem evalK_stored {α : Type} (ops : Ops α) (body : Nat → Expr α) (fuel : Nat) (m : Memo α)
    (key : Key) (v : α) (h : (evalK ops body fuel m key).2 = some v) :
    look (evalK ops body fuel m key).1 key = some v := by
  cases fuel with
  | zero => simp [evalK] at h
  | succ f =>
      simp only [evalK] at h ⊢
      cases hl : look m key with
      | some w => simp only [hl] at h ⊢; simp at h; subst h; rfl
      | none =>
          simp only [hl] at h ⊢
          rcases hee : evalE ops (evalK ops body f) (body key.1) key.2 m with ⟨m1, r⟩
          rw [hee] at h
          cases r with
          | none => simp at h
          | some x => simp at h; subst h; simp [look_cons]

theorem C08_repeat {α : Type} (ops : Ops α) (body : Nat → Expr α) (fuel fuel' : Nat) (m : Memo α)
    (key : Key) (v : α) (h : (evalK ops body fuel m key).2 = some v) :
    evalK ops body (fuel' + 1) (evalK ops body fuel m key).1 key
      = ((evalK ops body fuel m key).1, some v) := by
  simp [evalK, evalK_stored ops body fuel m key v h]

/-- **Whichever set of equations was requested, in whichever order** (sequential reading): from a
state satisfying the invariant, two arbitrary request sequences return the same value for a common
key. -/
theorem C08_requested_set (c : Cfg) {α : Type} (ops : Ops α) (s : St α) (hs : StInv ops s)
    (qs1 qs2 : List (Nat × Nat × Nat)) (n k f1 f2 : Nat) (v w : α)
    (h1 : query ops (run c ops s (qs1.map fun q => Op.eval q.1 q.2.1 q.2.2)) n k f1 = some v)
    (h2 : query ops (run c ops s (qs2.map fun q => Op.eval q.1 q.2.1 q.2.2)) n k f2 = some w) :
    v = w := by
  have body_eq : ∀ (qs : List (Nat × Nat × Nat)) (s : St α),
      (run c ops s (qs.map fun q => Op.eval q.1 q.2.1 q.2.2)).body = s.body := by
    intro qs
    induction qs with
    | nil => intro s; rfl
    | cons q rest ih => intro s; simp only [List.map_cons, run, List.foldl_cons] at ih ⊢; rw [ih]; rfl
  have lk_eq : ∀ (qs : List (Nat × Nat × Nat)) (s : St α),
      (run c ops s (qs.map fun q => Op.eval q.1 q.2.1 q.2.2)).lk = s.lk := by
    intro qs
    induction qs with
    | nil => intro s; rfl
    | cons q rest ih => intro s; simp only [List.map_cons, run, List.foldl_cons] at ih ⊢; rw [ih]; rfl
  have i1 := C08_partial_evals c ops s hs qs1
  have i2 := C08_partial_evals c ops s hs qs2
  have e1 := (evalK_sound _ _ f1 _ (n, k) i1).2 v h1
  have e2 := (evalK_sound _ _ f2 _ (n, k) i2).2 w h2
  rw [body_eq, lk_eq] at e1 e2
  exact Val.det e1 e2

/-! ### Negation witnesses for the stale-memo mechanisms (carrier `Int`) -/

def intOps : Ops Int := { bin := fun op x y => match op with | 0 => x + y | 1 => x - y | 2 => x * y | _ => x / y
                          max0 := fun x => if x < 0 then 0 else x }

/-- elements: 0 = stock `s`, 1 = converter `k`. -/
def wKinds : Nat → Kind := fun n => if n = 0 then .stock else .other
def wInit : St Int :=
  { kind := wKinds, eqn := fun _ => none, init := fun _ => .lit 0, body := fun _ => .lit 0, memo := [], dt := 1 }

/-- `s.equation = 2; s.initial_value = 1; k.equation = s*2; k(t_2); s.initial_value = 10` -/
def wStaleInit : List (Op Int) :=
  [.setEq 0 (.lit 2), .setInit 0 (.lit 1), .setEq 1 (.bin 2 (.ref 0) (.lit 2)), .eval 1 2 20,
   .setInit 0 (.lit 10)]

theorem C08_witness_stale_init (c : Cfg) (h : c.initialValueResetsCache = false) : ¬ C08_seq c := by
  intro hf
  have := hf Int intOps wInit rfl rfl wStaleInit (by decide) 1 2 20 20 10 28
  obtain ⟨i, a, f, o, r, j⟩ := c
  simp only at h; subst h
  cases a <;> cases f <;> cases o <;> cases r <;> cases j <;> exact absurd (this (by decide) (by decide)) (by decide)

/-- `c = 1+1 (converter 1); k = c*3 (converter 2); k(t_0); model.add_equation('c', lambda t: 5)` -/
def wStaleAdd : List (Op Int) :=
  [.setEq 1 (.bin 0 (.lit 1) (.lit 1)), .setEq 2 (.bin 2 (.ref 1) (.lit 3)), .eval 2 0 20, .addEq 1 (.lit 5)]

theorem C08_witness_stale_add (c : Cfg) (h : c.addEquationResetsCache = false) : ¬ C08_seq c := by
  intro hf
  have := hf Int intOps wInit rfl rfl wStaleAdd (by decide) 2 0 20 20 6 15
  obtain ⟨i, a, f, o, r, j⟩ := c
  simp only at h; subst h
  cases i <;> cases f <;> cases o <;> cases r <;> cases j <;> exact absurd (this (by decide) (by decide)) (by decide)

/-- Non-vacuity of part (a): a history with every kind of operation whose final query is defined and
equals the fresh value (stock 0 with init 10, inflow 2·dt per step; k = 2·s ⇒ k(t_2) = 28). -/
example : query intOps (run ⟨true, true, true, true, true, true⟩ intOps wInit
    (wStaleInit ++ [.eval 1 2 20, .reset, .addEq 3 (.lit 7), .eval 1 1 20])) 1 2 20 = some 28 := by decide


/-! ## (wave 2) total correctness: the memoised evaluation terminates whenever the fresh one does -/

/-- completeness of the memoised evaluator at expression level: a big-step derivation of `v` bounds the fuel
from which `evalE` (over `evalK`) returns `v`, from every memo that satisfies the invariant — hits only
shorten the work, and they return the same value (`Val.det`). -/
theorem evalE_complete {α : Type} (ops : Ops α) (body : Nat → Expr α) {e : Expr α} {k : Nat} {v : α}
    (h : Val ops body e k v) :
    ∃ f0, ∀ f, f0 ≤ f → ∀ m, MemoInv ops body m →
      ∃ m', evalE ops (evalK ops body f) e k m = (m', some v) ∧ MemoInv ops body m' := by
  induction h with
  | lit x k => exact ⟨0, fun f _ m hm => ⟨m, rfl, hm⟩⟩
  | ref n k v hv ih =>
      obtain ⟨f0, h0⟩ := ih
      refine ⟨f0 + 1, fun f hf m hm => ?_⟩
      obtain ⟨f', rfl⟩ : ∃ f', f = f' + 1 := ⟨f - 1, by omega⟩
      simp only [evalE, evalK]
      cases hl : look m (n, k) with
      | some w =>
          have : w = v := Val.det (hm (n, k) w hl) hv
          subst this
          exact ⟨m, rfl, hm⟩
      | none =>
          obtain ⟨m1, he, hm1⟩ := h0 f' (by omega) m hm
          simp only [he]
          exact ⟨((n, k), v) :: m1, rfl, memoInv_cons hm1 hv⟩
  | prev n k v hv ih =>
      obtain ⟨f0, h0⟩ := ih
      refine ⟨f0 + 1, fun f hf m hm => ?_⟩
      obtain ⟨f', rfl⟩ : ∃ f', f = f' + 1 := ⟨f - 1, by omega⟩
      simp only [evalE, evalK]
      cases hl : look m (n, k) with
      | some w =>
          have : w = v := Val.det (hm (n, k) w hl) hv
          subst this
          exact ⟨m, rfl, hm⟩
      | none =>
          obtain ⟨m1, he, hm1⟩ := h0 f' (by omega) m hm
          simp only [he]
          exact ⟨((n, k), v) :: m1, rfl, memoInv_cons hm1 hv⟩
  | bin op a b k x y _ _ iha ihb =>
      obtain ⟨fa, ha⟩ := iha
      obtain ⟨fb, hb⟩ := ihb
      refine ⟨max fa fb, fun f hf m hm => ?_⟩
      obtain ⟨m1, he1, hm1⟩ := ha f (by omega) m hm
      obtain ⟨m2, he2, hm2⟩ := hb f (by omega) m1 hm1
      exact ⟨m2, by simp only [evalE, he1, he2], hm2⟩
  | max0 a k x _ ih =>
      obtain ⟨fa, ha⟩ := ih
      refine ⟨fa, fun f hf m hm => ?_⟩
      obtain ⟨m1, he1, hm1⟩ := ha f hf m hm
      exact ⟨m1, by simp only [evalE, he1], hm1⟩
  | atStart0 a b v _ ih =>
      obtain ⟨fa, ha⟩ := ih
      refine ⟨fa, fun f hf m hm => ?_⟩
      obtain ⟨m1, he1, hm1⟩ := ha f hf m hm
      exact ⟨m1, by simp only [evalE, he1], hm1⟩
  | atStartS a b k v _ ih =>
      obtain ⟨fb, hb⟩ := ih
      refine ⟨fb, fun f hf m hm => ?_⟩
      obtain ⟨m1, he1, hm1⟩ := hb f hf m hm
      exact ⟨m1, by simp only [evalE, he1], hm1⟩
  | lookup p a k x _ ih =>
      obtain ⟨fa, ha⟩ := ih
      refine ⟨fa, fun f hf m hm => ?_⟩
      obtain ⟨m1, he1, hm1⟩ := ha f hf m hm
      exact ⟨m1, by simp only [evalE, he1], hm1⟩

/-- **evalK_complete**: if the fresh value of `key` exists (the un-memoised recursion terminates), `memoize`
returns it for every sufficiently large fuel, from every memo satisfying the invariant. -/
theorem evalK_complete {α : Type} (ops : Ops α) (body : Nat → Expr α) (key : Key) (v : α)
    (h : Fresh ops body key v) :
    ∃ f0, ∀ f, f0 ≤ f → ∀ m, MemoInv ops body m → (evalK ops body f m key).2 = some v := by
  obtain ⟨f0, h0⟩ := evalE_complete ops body (Val.ref key.1 key.2 v h)
  refine ⟨f0, fun f hf m hm => ?_⟩
  obtain ⟨m', he, _⟩ := h0 f hf m hm
  simp only [evalE] at he
  rw [he]

/-- **Termination / total correctness of `C08_fresh`** (clause 1, completed): after any settled history, if the
freshly built model yields `w` for `element(t_k)` (its recursion ends within some fuel), then the edited model
with its memo also terminates — for every fuel from some bound on — and returns that same `w`. -/
def C08_term (c : Cfg) : Prop :=
  ∀ (α : Type) (ops : Ops α) (s0 : St α), s0.memo = [] → s0.suspended = false →
  ∀ (h : List (Op α)), settled h = true → ∀ (n k f2 : Nat) (w : α),
    query ops { run c ops s0 h with memo := [] } n k f2 = some w →
    ∃ f0, ∀ f1, f0 ≤ f1 → query ops (run c ops s0 h) n k f1 = some w

theorem C08_fresh_terminates (c : Cfg) (hi : c.initialValueResetsCache = true)
    (ha : c.addEquationResetsCache = true) (hr : c.resetClearsAllStores = true) (hj : c.rejectedIsNoOp = true) : C08_term c := by
  intro α ops s0 h0 hs0 h hset n k f2 w hw
  have hinv : StInv ops (run c ops s0 h) :=
    inv_run c hi ha hr hj ops h hset s0 hs0 (by simp only [StInv, h0]; exact memoInv_nil _ _)
  have hF : Fresh (ops.withLk (run c ops s0 h).lk) (run c ops s0 h).body (n, k) w :=
    (evalK_sound (ops.withLk (run c ops s0 h).lk) (run c ops s0 h).body f2 [] (n, k) (memoInv_nil _ _)).2 w hw
  obtain ⟨f0, hf0⟩ := evalK_complete _ _ (n, k) w hF
  exact ⟨f0, fun f1 hf1 => hf0 f1 hf1 _ hinv⟩

/-! ### acyclic models: the fresh evaluation itself terminates -/

/-- evaluating `e` at index `k` meets no stochastic term and no look-back before the start time. -/
def SafeE {α : Type} : Expr α → Nat → Prop
  | .lit _, _ => True
  | .ref _, _ => True
  | .prev _, k => 0 < k
  | .bin _ a b, k => SafeE a k ∧ SafeE b k
  | .max0 a, k => SafeE a k
  | .atStart a _, 0 => SafeE a 0
  | .atStart _ b, k + 1 => SafeE b (k + 1)
  | .rnd, _ => False
  | .lookup _ a, k => SafeE a k

/-- **Acyclicity**: a measure on (element, time) keys that strictly decreases along every dependency the
element's lambda requests (`depsE`: same-time references go down in rank, stock look-backs go down in time). -/
structure Acyclic {α : Type} (body : Nat → Expr α) (μ : Key → Nat) : Prop where
  safe : ∀ n k, SafeE (body n) k
  desc : ∀ n k, ∀ key' ∈ depsE (body n) k, μ key' < μ (n, k)

theorem val_of_deps {α : Type} (ops : Ops α) (body : Nat → Expr α) :
    ∀ (e : Expr α) (k : Nat), SafeE e k → (∀ key' ∈ depsE e k, ∃ v, Fresh ops body key' v) →
      ∃ v, Val ops body e k v := by
  intro e
  induction e with
  | lit x => intro k _ _; exact ⟨x, Val.lit x k⟩
  | ref n =>
      intro k _ hd
      obtain ⟨v, hv⟩ := hd (n, k) (by simp [depsE])
      exact ⟨v, Val.ref n k v hv⟩
  | prev n =>
      intro k hs hd
      cases k with
      | zero => simp [SafeE] at hs
      | succ k' =>
          obtain ⟨v, hv⟩ := hd (n, k') (by simp [depsE])
          exact ⟨v, Val.prev n k' v hv⟩
  | bin op a b iha ihb =>
      intro k hs hd
      obtain ⟨x, hx⟩ := iha k hs.1 (fun key' hk => hd key' (by simp only [depsE, List.mem_append]; exact Or.inl hk))
      obtain ⟨y, hy⟩ := ihb k hs.2 (fun key' hk => hd key' (by simp only [depsE, List.mem_append]; exact Or.inr hk))
      exact ⟨_, Val.bin op a b k x y hx hy⟩
  | max0 a iha =>
      intro k hs hd
      obtain ⟨x, hx⟩ := iha k hs hd
      exact ⟨_, Val.max0 a k x hx⟩
  | atStart a b iha ihb =>
      intro k hs hd
      cases k with
      | zero =>
          obtain ⟨x, hx⟩ := iha 0 hs hd
          exact ⟨x, Val.atStart0 a b x hx⟩
      | succ k' =>
          obtain ⟨x, hx⟩ := ihb (k' + 1) hs hd
          exact ⟨x, Val.atStartS a b k' x hx⟩
  | rnd => intro k hs _; simp [SafeE] at hs
  | lookup p a iha =>
      intro k hs hd
      obtain ⟨x, hx⟩ := iha k hs hd
      exact ⟨_, Val.lookup p a k x hx⟩

/-- in an acyclic model every (element, time) has a fresh value: the un-memoised recursion terminates. -/
theorem val_total_aux {α : Type} (ops : Ops α) (body : Nat → Expr α) (μ : Key → Nat) (hA : Acyclic body μ) :
    ∀ (m : Nat) (key : Key), μ key < m → ∃ v, Fresh ops body key v := by
  intro m
  induction m with
  | zero => intro key h; exact absurd h (Nat.not_lt_zero _)
  | succ m ih =>
      intro key h
      obtain ⟨n, k⟩ := key
      exact val_of_deps ops body (body n) k (hA.safe n k)
        (fun key' hk => ih key' (Nat.lt_of_lt_of_le (hA.desc n k key' hk) (Nat.le_of_lt_succ h)))

theorem val_total {α : Type} (ops : Ops α) (body : Nat → Expr α) (μ : Key → Nat) (hA : Acyclic body μ) :
    ∀ key : Key, ∃ v, Fresh ops body key v :=
  fun key => val_total_aux ops body μ hA (μ key + 1) key (Nat.lt_succ_self _)

/-- **C08_total**: on an acyclic model (acyclic under the FINAL definitions), after any settled history both the
edited model with its memo and the freshly built model terminate, and with the same value. -/
theorem C08_total (c : Cfg) (hi : c.initialValueResetsCache = true) (ha : c.addEquationResetsCache = true)
    (hr : c.resetClearsAllStores = true) (hj : c.rejectedIsNoOp = true)
    {α : Type} (ops : Ops α) (s0 : St α) (h0 : s0.memo = []) (hs0 : s0.suspended = false) (h : List (Op α)) (hset : settled h = true)
    (μ : Key → Nat) (hA : Acyclic (run c ops s0 h).body μ) (n k : Nat) :
    ∃ v f0, ∀ f, f0 ≤ f →
      query ops (run c ops s0 h) n k f = some v ∧
      query ops { run c ops s0 h with memo := [] } n k f = some v := by
  have hinv : StInv ops (run c ops s0 h) :=
    inv_run c hi ha hr hj ops h hset s0 hs0 (by simp only [StInv, h0]; exact memoInv_nil _ _)
  obtain ⟨v, hv⟩ := val_total (ops.withLk (run c ops s0 h).lk) _ μ hA (n, k)
  obtain ⟨f0, hf0⟩ := evalK_complete _ _ (n, k) v hv
  exact ⟨v, f0, fun f hf => ⟨hf0 f hf _ hinv, hf0 f hf [] (memoInv_nil _ _)⟩⟩

/-- non-vacuity of `Acyclic`: the stock-and-converter model of the witnesses (`s' = 2·dt`, `k = 2·s`), with
`μ (n, t) = 2·t + n`. -/
def wBody : Nat → Expr Int := fun n =>
  if n = 0 then .atStart (.lit 1) (.bin 0 (.prev 0) (.bin 2 (.lit 1) (.lit 2))) else .bin 2 (.ref 0) (.lit 2)

example : Acyclic wBody (fun key => 2 * key.2 + key.1) := by
  constructor
  · intro n k
    by_cases hn : n = 0
    · subst hn; cases k <;> simp [wBody, SafeE]
    · simp [wBody, hn, SafeE]
  · intro n k key' hk
    by_cases hn : n = 0
    · subst hn
      cases k with
      | zero => simp [wBody, depsE] at hk
      | succ k' => simp [wBody, depsE] at hk; subst hk; dsimp only; omega
    · simp [wBody, hn, depsE] at hk; subst hk; dsimp only; omega

/-! ### points edits that are NOT settled are stale (what `settled` excludes, shown on the model; the harness
shows the same on the real code: `model.points` is a plain dict) -/

/-- `k = LOOKUP(3, "p0")`; `k(t_0)`; `model.points["p0"] = <other table>`; `k(t_0)` again: the memo answers 3, a
fresh model 103. -/
theorem points_unsettled_stale :
    query intOps (run ⟨true, true, true, true, true, true⟩ intOps wInit
        [.setEq 1 (.lookup 0 (.lit 3)), .eval 1 0 20, .setPoints 0 (fun x => x + 100)]) 1 0 20 = some 3 ∧
    query intOps { run ⟨true, true, true, true, true, true⟩ intOps wInit
        [.setEq 1 (.lookup 0 (.lit 3)), .eval 1 0 20, .setPoints 0 (fun x => x + 100)] with memo := [] } 1 0 20
      = some 103 := by decide

/-- … and settled by a `reset_cache` it is fresh again (non-vacuity of the points clause of `C08_seq`). -/
example : settled ([.setEq 1 (.lookup 0 (.lit 3)), .eval 1 0 20, .setPoints 0 (fun x => x + 100), .reset] : List (Op Int)) = true ∧
    query intOps (run ⟨true, true, true, true, true, true⟩ intOps wInit
        [.setEq 1 (.lookup 0 (.lit 3)), .eval 1 0 20, .setPoints 0 (fun x => x + 100), .reset]) 1 0 20 = some 103 := by
  decide



/-! ## (wave 5) the dependency structure behind cache invalidation -/

/-- `m` (transitively) uses `n` under the definitions `body`. -/
inductive Reach {α : Type} (body : Nat → Expr α) : Nat → Nat → Prop where
  | direct (m n : Nat) : mentions (body m) n = true → Reach body m n
  | step (m j n : Nat) : mentions (body m) j = true → Reach body j n → Reach body m n

/-- a derivation that never touches `n` survives the change of `n`'s definition. -/
theorem val_irrelevant {α : Type} (ops : Ops α) (body : Nat → Expr α) (n : Nat) (e' : Expr α)
    {e : Expr α} {k : Nat} {v : α} (h : Val ops body e k v) :
    (∀ j, mentions e j = true → j ≠ n ∧ ¬ Reach body j n) → Val ops (updFn body n e') e k v := by
  induction h with
  | lit x k => intro _; exact Val.lit x k
  | ref j k v _ ih =>
      intro hm
      obtain ⟨hj, hr⟩ := hm j (by simp [mentions])
      have hb : updFn body n e' j = body j := by simp [updFn, hj]
      refine Val.ref j k v ?_
      rw [hb]
      exact ih (fun i hi => ⟨fun hin => hr (hin ▸ Reach.direct j i hi), fun hin => hr (Reach.step j i n hi hin)⟩)
  | prev j k v _ ih =>
      intro hm
      obtain ⟨hj, hr⟩ := hm j (by simp [mentions])
      have hb : updFn body n e' j = body j := by simp [updFn, hj]
      refine Val.prev j k v ?_
      rw [hb]
      exact ih (fun i hi => ⟨fun hin => hr (hin ▸ Reach.direct j i hi), fun hin => hr (Reach.step j i n hi hin)⟩)
  | bin op a b k x y _ _ iha ihb =>
      intro hm
      exact Val.bin op a b k x y (iha (fun j hj => hm j (by simp [mentions, hj])))
        (ihb (fun j hj => hm j (by simp [mentions, hj])))
  | max0 a k x _ ih => intro hm; exact Val.max0 a k x (ih (fun j hj => hm j (by simpa [mentions] using hj)))
  | atStart0 a b v _ ih =>
      intro hm; exact Val.atStart0 a b v (ih (fun j hj => hm j (by simp [mentions, hj])))
  | atStartS a b k v _ ih =>
      intro hm; exact Val.atStartS a b k v (ih (fun j hj => hm j (by simp [mentions, hj])))
  | lookup p a k x _ ih => intro hm; exact Val.lookup p a k x (ih (fun j hj => hm j (by simpa [mentions] using hj)))

theorem look_clearSel {α : Type} (m : Memo α) (S : Nat → Bool) (key : Key) (v : α)
    (h : look (clearSel m S) key = some v) : look m key = some v ∧ S key.1 = false := by
  induction m with
  | nil => simp [clearSel, look] at h
  | cons e rest ih =>
      obtain ⟨k, w⟩ := e
      simp only [clearSel, List.filter_cons] at h ih
      by_cases hS : S k.1 = true
      · simp only [hS, Bool.not_true] at h
        have := ih h
        refine ⟨?_, this.2⟩
        rw [look_cons]
        split
        · rename_i hk; rw [← hk, hS] at this; exact absurd this.2 (by simp)
        · exact this.1
      · have hS' : S k.1 = false := by simpa using hS
        simp only [hS', Bool.not_false, if_true] at h
        rw [look_cons] at h ⊢
        split at h
        · rename_i hk; refine ⟨by simp [hk, h], by rw [← hk]; exact hS'⟩
        · rename_i hk; have := ih h; exact ⟨by simp [hk, this.1], this.2⟩

/-- **the criterion**: a cleared set that contains the changed element and all its transitive users (under the
definitions the memo was computed with) keeps the memo invariant across the change. -/
theorem memoInv_clearSel {α : Type} (ops : Ops α) (body : Nat → Expr α) (m : Memo α) (n : Nat) (e' : Expr α)
    (S : Nat → Bool) (hS : ∀ j, (j = n ∨ Reach body j n) → S j = true) (hm : MemoInv ops body m) :
    MemoInv ops (updFn body n e') (clearSel m S) := by
  intro key v h
  obtain ⟨hl, hk⟩ := look_clearSel m S key v h
  have hne : key.1 ≠ n := fun e => by rw [hS key.1 (Or.inl e)] at hk; cases hk
  have hnr : ¬ Reach body key.1 n := fun r => by rw [hS key.1 (Or.inr r)] at hk; cases hk
  have hv : Val ops body (body key.1) key.2 v := hm key v hl
  have hb : updFn body n e' key.1 = body key.1 := by simp [updFn, hne]
  show Val ops (updFn body n e') (updFn body n e' key.1) key.2 v
  rw [hb]
  exact val_irrelevant ops body n e' hv
    (fun i hi => ⟨fun hin => hnr (hin ▸ Reach.direct key.1 i hi), fun hin => hnr (Reach.step key.1 i n hi hin)⟩)

/-- a policy is complete when it clears the changed element and every transitive user of it. -/
def Complete {α : Type} (sel : St α → Nat → Nat → Bool) : Prop :=
  ∀ s n j, (j = n ∨ Reach s.body j n) → sel s n j = true

theorem selAll_complete {α : Type} : Complete (selAll : St α → Nat → Nat → Bool) := fun _ _ _ _ => rfl

/-- under a selective policy only a cache reset settles a points write (an edit no longer empties the memo). -/
def settledSelFrom {α : Type} : Bool → List (Op α) → Bool
  | d, [] => !d
  | _, .setPoints _ _ :: r => settledSelFrom true r
  | d, .eval _ _ _ :: r => !d && settledSelFrom d r
  | _, .reset :: r => settledSelFrom false r
  | _, .sreset :: r => settledSelFrom false r
  | _, .rawEq _ _ :: r => settledSelFrom true r
  | d, .rejected :: r => settledSelFrom d r
  | d, .setEq _ _ :: r => settledSelFrom d r
  | d, .setInit _ _ :: r => settledSelFrom d r
  | d, .addEq _ _ :: r => settledSelFrom d r

theorem inv_run_sel_from {α : Type} (sel : St α → Nat → Nat → Bool) (hc : Complete sel) (ops : Ops α)
    (h : List (Op α)) : ∀ (d : Bool) (s : St α), (d = false → StInv ops s) → settledSelFrom d h = true →
      StInv ops (runSel sel ops s h) := by
  induction h with
  | nil =>
      intro d s hs hset
      simp only [settledSelFrom, Bool.not_eq_true'] at hset
      exact hs hset
  | cons op rest ih =>
      intro d s hs hset
      simp only [runSel, List.foldl_cons]
      cases op with
      | setPoints p f =>
          simp only [settledSelFrom] at hset
          exact ih true _ (by intro h; cases h) hset
      | eval n k fuel =>
          simp only [settledSelFrom, Bool.and_eq_true, Bool.not_eq_true'] at hset
          exact ih d _ (fun _ => (evalK_sound (ops.withLk s.lk) s.body fuel s.memo (n, k) (hs hset.1)).1) hset.2
      | reset =>
          simp only [settledSelFrom] at hset
          exact ih false _ (fun _ => memoInv_nil _ _) hset
      | sreset =>
          simp only [settledSelFrom] at hset
          exact ih false _ (fun _ => memoInv_nil _ _) hset
      | rawEq n e =>
          simp only [settledSelFrom] at hset
          exact ih true _ (by intro h; cases h) hset
      | rejected =>
          simp only [settledSelFrom] at hset
          exact ih d _ hs hset
      | setEq n e =>
          simp only [settledSelFrom] at hset
          exact ih d _ (fun hd => memoInv_clearSel _ s.body s.memo n _ (sel s n) (hc s n) (hs hd)) hset
      | setInit n e =>
          simp only [settledSelFrom] at hset
          exact ih d _ (fun hd => memoInv_clearSel _ s.body s.memo n _ (sel s n) (hc s n) (hs hd)) hset
      | addEq n e =>
          simp only [settledSelFrom] at hset
          exact ih d _ (fun hd => memoInv_clearSel _ s.body s.memo n _ (sel s n) (hc s n) (hs hd)) hset

/-- **C08_fresh for every complete selective policy**: after any history (points writes settled by a reset),
whatever `element(t_k)` returns is what the freshly built model yields — and it terminates whenever that does. -/
theorem C08_fresh_selective {α : Type} (sel : St α → Nat → Nat → Bool) (hc : Complete sel) (ops : Ops α)
    (s0 : St α) (h0 : s0.memo = []) (h : List (Op α)) (hset : settledSelFrom false h = true) (n k f2 : Nat) (w : α)
    (hw : query ops { runSel sel ops s0 h with memo := [] } n k f2 = some w) :
    (∀ f1 v, query ops (runSel sel ops s0 h) n k f1 = some v → v = w) ∧
    ∃ f0, ∀ f1, f0 ≤ f1 → query ops (runSel sel ops s0 h) n k f1 = some w := by
  have hinv : StInv ops (runSel sel ops s0 h) :=
    inv_run_sel_from sel hc ops h false s0 (fun _ => by simp only [StInv, h0]; exact memoInv_nil _ _) hset
  have hF := (evalK_sound (ops.withLk (runSel sel ops s0 h).lk) (runSel sel ops s0 h).body f2 [] (n, k)
    (memoInv_nil _ _)).2 w hw
  refine ⟨fun f1 v hv => Val.det ((evalK_sound _ _ f1 _ (n, k) hinv).2 v hv) hF, ?_⟩
  obtain ⟨f0, hf0⟩ := evalK_complete _ _ (n, k) w hF
  exact ⟨f0, fun f1 hf1 => hf0 f1 hf1 _ hinv⟩

/-- clearing everything is the complete policy `selAll`, and it is what `step` does when the two cache-reset
facts hold: the code's behaviour is the instance `C08_fresh_selective selAll`. -/
theorem clearSel_all {α : Type} (m : Memo α) : clearSel m (fun _ => true) = [] := by
  simp [clearSel]

theorem stepSel_all_eq_step {α : Type} (c : Cfg) (hi : c.initialValueResetsCache = true)
    (ha : c.addEquationResetsCache = true) (ho : c.operandsThroughMemo = true) (hr : c.resetClearsAllStores = true)
    (hj : c.rejectedIsNoOp = true) (ops : Ops α) (s : St α) (hsus : s.suspended = false) (op : Op α) :
    stepSel selAll ops s op = step c ops s op := by
  have hall : ∀ n, clearSel s.memo (selAll s n) = [] := fun n => clearSel_all s.memo
  cases op <;> simp [stepSel, step, installed, hall, hi, ha, ho, hr, hj, hsus]

theorem runSel_all_eq_run {α : Type} (c : Cfg) (hi : c.initialValueResetsCache = true)
    (ha : c.addEquationResetsCache = true) (ho : c.operandsThroughMemo = true) (hr : c.resetClearsAllStores = true)
    (hj : c.rejectedIsNoOp = true) (ops : Ops α) (h : List (Op α)) :
    ∀ s : St α, s.suspended = false → runSel selAll ops s h = run c ops s h := by
  induction h with
  | nil => intro s _; rfl
  | cons op rest ih =>
      intro s hsus
      simp only [runSel, run, List.foldl_cons] at ih ⊢
      rw [stepSel_all_eq_step c hi ha ho hr hj ops s hsus]; exact ih _ (step_suspended c hj ops s op hsus)

/-! ### an incomplete users relation is unsound (the `\w+` name matcher) -/

/-- elements: 0 = constant `c` (plain name), 1 = constant named `mod.c` (a dot: invisible to `\w+`), 2 = converter
`k = mod.c * 3`.  `k(t_0); mod.c.equation = 5; k(t_0)`: the matcher finds no user of `mod.c`, keeps `k`'s entry,
and answers 6 where a fresh model yields 15; with a matcher that sees every name (or with `selAll`) it is 15. -/
def wVisible : Nat → Bool := fun n => n != 1

def wSelHist : List (Op Int) :=
  [.setEq 1 (.lit 2), .setEq 2 (.bin 2 (.ref 1) (.lit 3)), .eval 2 0 20, .setEq 1 (.lit 5)]

theorem C08_witness_selective_matcher :
    query intOps (runSel (selMatcher wVisible) intOps wInit wSelHist) 2 0 20 = some 6 ∧
    query intOps { runSel (selMatcher wVisible) intOps wInit wSelHist with memo := [] } 2 0 20 = some 15 ∧
    query intOps (runSel (selMatcher (fun _ => true)) intOps wInit wSelHist) 2 0 20 = some 15 ∧
    query intOps (runSel selAll intOps wInit wSelHist) 2 0 20 = some 15 := by decide

/-- hence the matcher policy is not complete: it misses a user. -/
theorem selMatcher_incomplete : ¬ Complete (selMatcher wVisible : St Int → Nat → Nat → Bool) := by
  intro hc
  have h := (C08_fresh_selective (selMatcher wVisible) hc intOps wInit rfl wSelHist (by decide) 2 0 20 15
    C08_witness_selective_matcher.2.1).1 20 6 C08_witness_selective_matcher.1
  exact absurd h (by decide)


/-! ## Part (b): the worker threads of one run, every schedule -/

/-- "The value reported is the value every dependent consumed": every value `memoize` ever handed out
for a key — to a dependent element's lambda or to a worker's result dict — is the value the memo
holds for that key.  (Hence any two values handed out for one key are equal.) -/
def AgreeP {α : Type} (memo : Memo α) (log : Log α) : Prop :=
  ∀ e ∈ log, look memo e.2.1 = some e.2.2

instance {α : Type} [DecidableEq α] (memo : Memo α) (log : Log α) : Decidable (AgreeP memo log) := by
  unfold AgreeP; infer_instance

theorem ret_log {α : Type} (th : Thread α) (rest : List (Frame α)) (key : Key) (v : α) (log : Log α) :
    ∃ c, (ret th rest key v log).2 = (c, key, v) :: log := by
  cases rest with
  | nil => exact ⟨none, rfl⟩
  | cons p ps => exact ⟨some p.key, rfl⟩

theorem agree_ret {α : Type} {memo : Memo α} {log : Log α} (h : AgreeP memo log)
    (th : Thread α) (rest : List (Frame α)) (key : Key) (v : α) (hv : look memo key = some v) :
    AgreeP memo (ret th rest key v log).2 := by
  obtain ⟨c, hc⟩ := ret_log th rest key v log
  rw [hc]
  intro e he
  rcases List.mem_cons.mp he with rfl | he
  · exact hv
  · exact h e he

theorem agree_cons {α : Type} {memo : Memo α} {log : Log α} (h : AgreeP memo log)
    (key : Key) (v : α) (hn : look memo key = none) : AgreeP ((key, v) :: memo) log := by
  intro e he
  have := h e he
  rw [look_cons]
  split
  · rename_i hk; rw [hk] at hn; rw [hn] at this; cases this
  · exact this

theorem tstep_agree {α : Type} (c : Cfg) (hc : c.memoizeFirstStoreWins = true) (sys : Sys α)
    (tid : Nat) (memo : Memo α) (log : Log α) (th : Thread α) (h : AgreeP memo log) :
    AgreeP (tstep c sys tid memo log th).1 (tstep c sys tid memo log th).2.1 := by
  unfold tstep
  split
  · split <;> exact h
  · rename_i fr rest _
    split
    · split <;> exact h
    · split
      · rename_i v hv; exact agree_ret h th rest fr.key v hv
      · exact h
    · split
      · exact h
      · split <;> exact h
    · rename_i v _
      simp only [hc, if_true]
      split
      · rename_i w hw; exact agree_ret h th rest fr.key w hw
      · rename_i hn
        exact agree_ret (agree_cons h fr.key v hn) th rest fr.key v (by simp [look_cons])

theorem cstep_agree {α : Type} (c : Cfg) (hc : c.memoizeFirstStoreWins = true) (sys : Sys α)
    (s : CState α) (tid : Nat) (h : AgreeP s.memo s.log) :
    AgreeP (cstep c sys s tid).memo (cstep c sys s tid).log := by
  unfold cstep
  split
  · exact h
  · rename_i th _
    exact tstep_agree c hc sys tid s.memo s.log th h

theorem exec_agree {α : Type} (c : Cfg) (hc : c.memoizeFirstStoreWins = true) (sys : Sys α)
    (sched : List Nat) : ∀ s : CState α, AgreeP s.memo s.log →
      AgreeP (exec c sys s sched).memo (exec c sys s sched).log := by
  induction sched with
  | nil => intro s h; exact h
  | cons t rest ih => intro s h; exact ih _ (cstep_agree c hc sys s t h)

/-- **Never ambiguous** (clause 2), at full strength: for every system of equations — stochastic
ones included — every initial memo, every set and order of requested (equation, time) lists (one
worker thread per list) and every schedule, at every point of the run all values handed out agree
with the memo. -/
def C08_conc (c : Cfg) : Prop :=
  ∀ (α : Type) (sys : Sys α) (m0 : Memo α) (reqs : List (List Key)) (sched : List Nat),
    AgreeP (exec c sys (initC m0 reqs) sched).memo (exec c sys (initC m0 reqs) sched).log

theorem C08_stochastic_threads (c : Cfg) (hc : c.memoizeFirstStoreWins = true) : C08_conc c := by
  intro α sys m0 reqs sched
  exact exec_agree c hc sys sched _ (by intro e he; simp [initC] at he)

/-- a single value per key: two values handed out for the same key are equal. -/
theorem C08_single_value (c : Cfg) (hc : c.memoizeFirstStoreWins = true) {α : Type} (sys : Sys α)
    (m0 : Memo α) (reqs : List (List Key)) (sched : List Nat) (e1 e2 : Option Key × Key × α)
    (h1 : e1 ∈ (exec c sys (initC m0 reqs) sched).log) (h2 : e2 ∈ (exec c sys (initC m0 reqs) sched).log)
    (hk : e1.2.1 = e2.2.1) : e1.2.2 = e2.2.2 := by
  have a1 := C08_stochastic_threads c hc α sys m0 reqs sched e1 h1
  have a2 := C08_stochastic_threads c hc α sys m0 reqs sched e2 h2
  rw [hk, a2] at a1
  exact (Option.some.inj a1).symm

/-! ### Without the first-store rule: deterministic systems are still unambiguous -/

def FrameOK {α : Type} (sys : Sys α) (F : Key → α) (fr : Frame α) : Prop :=
  match fr.phase with
  | .enter => True
  | .hit => True
  | .compute => ∃ done, sys.deps fr.key = done ++ fr.pend ∧ fr.got = done.map F
  | .store v => v = F fr.key

def Link {α : Type} (fr : Frame α) : List (Frame α) → Prop
  | [] => True
  | p :: _ => p.phase = Phase.compute ∧ ∃ ds, p.pend = fr.key :: ds

def StackOK {α : Type} (sys : Sys α) (F : Key → α) : List (Frame α) → Prop
  | [] => True
  | fr :: rest => FrameOK sys F fr ∧ Link fr rest ∧ StackOK sys F rest

def MemoF {α : Type} (F : Key → α) (memo : Memo α) : Prop := ∀ key v, look memo key = some v → v = F key
def LogF {α : Type} (F : Key → α) (memo : Memo α) (log : Log α) : Prop :=
  ∀ e ∈ log, e.2.2 = F e.2.1 ∧ ∃ w, look memo e.2.1 = some w

theorem link_key {α : Type} {fr fr' : Frame α} (hk : fr'.key = fr.key) (rest : List (Frame α))
    (h : Link fr rest) : Link fr' rest := by
  cases rest with
  | nil => trivial
  | cons p ps => simp only [Link] at h ⊢; rw [hk]; exact h

theorem ret_stack {α : Type} (sys : Sys α) (F : Key → α) (th : Thread α) (fr : Frame α)
    (rest : List (Frame α)) (v : α) (log : Log α)
    (hrest : StackOK sys F rest) (hlink : Link fr rest) (hv : v = F fr.key) :
    StackOK sys F (ret th rest fr.key v log).1.stack := by
  cases rest with
  | nil => simp [ret, StackOK]
  | cons p ps =>
      obtain ⟨hp, hlp, hps⟩ := hrest
      obtain ⟨hph, ds, hds⟩ := hlink
      simp only [ret, StackOK]
      refine ⟨?_, link_key rfl ps hlp, hps⟩
      simp only [FrameOK, hph] at hp ⊢
      obtain ⟨done, hd, hg⟩ := hp
      refine ⟨done ++ [fr.key], ?_, ?_⟩
      · rw [hd, hds]; simp
      · rw [hg, hv]; simp

theorem ret_logF {α : Type} (F : Key → α) (memo : Memo α) (th : Thread α) (rest : List (Frame α))
    (key : Key) (v : α) (log : Log α) (hl : LogF F memo log) (hv : v = F key)
    (hw : ∃ w, look memo key = some w) : LogF F memo (ret th rest key v log).2 := by
  obtain ⟨c, hc⟩ := ret_log th rest key v log
  rw [hc]
  intro e he
  rcases List.mem_cons.mp he with rfl | he
  · exact ⟨hv, hw⟩
  · exact hl e he

theorem logF_cons {α : Type} (F : Key → α) (memo : Memo α) (log : Log α) (key : Key) (v : α)
    (hl : LogF F memo log) : LogF F ((key, v) :: memo) log := by
  intro e he
  obtain ⟨h1, w, hw⟩ := hl e he
  refine ⟨h1, ?_⟩
  rw [look_cons]
  split
  · exact ⟨v, rfl⟩
  · exact ⟨w, hw⟩

theorem memoF_cons {α : Type} (F : Key → α) (memo : Memo α) (key : Key) (v : α)
    (hm : MemoF F memo) (hv : v = F key) : MemoF F ((key, v) :: memo) := by
  intro k w h
  rw [look_cons] at h
  split at h
  · rename_i hk; subst hk; cases h; exact hv
  · exact hm k w h

/-- one action of one thread keeps: memo values = `F`, handed-out values = `F`, stacks well-formed. -/
theorem tstep_det {α : Type} (c : Cfg) (sys : Sys α) (F : Key → α)
    (hdet : ∀ key, sys.stoch key = false)
    (hF : ∀ key, F key = sys.comb key ((sys.deps key).map F) none)
    (tid : Nat) (memo : Memo α) (log : Log α) (th : Thread α)
    (hm : MemoF F memo) (hl : LogF F memo log) (hs : StackOK sys F th.stack) :
    MemoF F (tstep c sys tid memo log th).1 ∧
    LogF F (tstep c sys tid memo log th).1 (tstep c sys tid memo log th).2.1 ∧
    StackOK sys F (tstep c sys tid memo log th).2.2.stack := by
  unfold tstep
  split
  · rename_i hst
    split
    · exact ⟨hm, hl, hs⟩
    · exact ⟨hm, hl, by simp [StackOK, FrameOK, Link]⟩
  · rename_i fr rest hst
    rw [hst] at hs
    obtain ⟨hfr, hlink, hrest⟩ := hs
    split
    · -- enter
      rename_i hph
      split
      · exact ⟨hm, hl, by simp only [StackOK]; exact ⟨by simp [FrameOK], link_key rfl rest hlink, hrest⟩⟩
      · refine ⟨hm, hl, ?_⟩
        simp only [StackOK]
        exact ⟨by simp only [FrameOK]; exact ⟨[], by simp, by simp⟩, link_key rfl rest hlink, hrest⟩
    · -- hit
      split
      · rename_i v hv
        have hvF := hm fr.key v hv
        exact ⟨hm, ret_logF F memo th rest fr.key v log hl hvF ⟨v, hv⟩,
               ret_stack sys F th fr rest v log hrest hlink hvF⟩
      · exact ⟨hm, hl, by rw [hst]; exact ⟨hfr, hlink, hrest⟩⟩
    · -- compute
      rename_i hph
      split
      · rename_i d ds hpend
        refine ⟨hm, hl, ?_⟩
        simp only [StackOK]
        exact ⟨by simp [FrameOK], ⟨hph, ds, hpend⟩, hfr, hlink, hrest⟩
      · rename_i hpend
        have hnd := hdet fr.key
        split
        · rename_i hst'; rw [hnd] at hst'; cases hst'
        · refine ⟨hm, hl, ?_⟩
          simp only [StackOK]
          refine ⟨?_, link_key rfl rest hlink, hrest⟩
          simp only [FrameOK, hph] at hfr ⊢
          obtain ⟨done, hd, hg⟩ := hfr
          rw [hpend, List.append_nil] at hd
          rw [hF fr.key, hd, hg]
    · -- store
      rename_i v hph
      have hvF : v = F fr.key := by simpa only [FrameOK, hph] using hfr
      split
      · split
        · rename_i w hw
          have hwF := hm fr.key w hw
          exact ⟨hm, ret_logF F memo th rest fr.key w log hl hwF ⟨w, hw⟩,
                 ret_stack sys F th fr rest w log hrest hlink hwF⟩
        · exact ⟨memoF_cons F memo fr.key v hm hvF,
                 ret_logF F _ th rest fr.key v log (logF_cons F memo log fr.key v hl) hvF ⟨v, by simp [look_cons]⟩,
                 ret_stack sys F th fr rest v log hrest hlink hvF⟩
      · exact ⟨memoF_cons F memo fr.key v hm hvF,
               ret_logF F _ th rest fr.key v log (logF_cons F memo log fr.key v hl) hvF ⟨v, by simp [look_cons]⟩,
               ret_stack sys F th fr rest v log hrest hlink hvF⟩

structure DetInv {α : Type} (sys : Sys α) (F : Key → α) (s : CState α) : Prop where
  memoF : MemoF F s.memo
  logF : LogF F s.memo s.log
  stacks : ∀ th ∈ s.threads, StackOK sys F th.stack

theorem cstep_det {α : Type} (c : Cfg) (sys : Sys α) (F : Key → α)
    (hdet : ∀ key, sys.stoch key = false)
    (hF : ∀ key, F key = sys.comb key ((sys.deps key).map F) none)
    (s : CState α) (tid : Nat) (h : DetInv sys F s) : DetInv sys F (cstep c sys s tid) := by
  unfold cstep
  split
  · exact h
  · rename_i th hth
    have hmem : th ∈ s.threads := List.mem_of_getElem? hth
    have := tstep_det c sys F hdet hF tid s.memo s.log th h.memoF h.logF (h.stacks th hmem)
    refine ⟨this.1, this.2.1, ?_⟩
    intro t ht
    rcases List.mem_or_eq_of_mem_set ht with ht | rfl
    · exact h.stacks t ht
    · exact this.2.2

theorem exec_det {α : Type} (c : Cfg) (sys : Sys α) (F : Key → α)
    (hdet : ∀ key, sys.stoch key = false)
    (hF : ∀ key, F key = sys.comb key ((sys.deps key).map F) none)
    (sched : List Nat) : ∀ s : CState α, DetInv sys F s → DetInv sys F (exec c sys s sched) := by
  induction sched with
  | nil => intro s h; exact h
  | cons t rest ih => intro s h; exact ih _ (cstep_det c sys F hdet hF s t h)

/-- **Deterministic equations are unambiguous whatever the store rule**: if no element is stochastic
and the equations have a solution `F` (they do when the model is acyclic: the fresh values), then for
every Cfg, every schedule: every value handed out or stored is `F key` — racing computations store
equal values — so reported = consumed. -/
theorem C08_deterministic_threads (c : Cfg) {α : Type} (sys : Sys α) (F : Key → α)
    (hdet : ∀ key, sys.stoch key = false)
    (hF : ∀ key, F key = sys.comb key ((sys.deps key).map F) none)
    (m0 : Memo α) (hm0 : MemoF F m0) (reqs : List (List Key)) (sched : List Nat) :
    AgreeP (exec c sys (initC m0 reqs) sched).memo (exec c sys (initC m0 reqs) sched).log ∧
    ∀ e ∈ (exec c sys (initC m0 reqs) sched).log, e.2.2 = F e.2.1 := by
  have hinit : DetInv sys F (initC m0 reqs) := by
    refine ⟨hm0, by intro e he; simp [initC] at he, ?_⟩
    intro th hth
    simp only [initC, List.mem_map] at hth
    obtain ⟨r, _, rfl⟩ := hth
    simp [StackOK]
  have h := exec_det c sys F hdet hF sched _ hinit
  refine ⟨?_, fun e he => (h.logF e he).1⟩
  intro e he
  obtain ⟨h1, w, hw⟩ := h.logF e he
  rw [hw, h1, h.memoF _ w hw]

/-! ### Negation witness for the unlocked miss path (carrier `Int`) -/

/-- one stochastic element without dependencies; the two workers draw 0 and 100. -/
def wSys : Sys Int :=
  { deps := fun _ => [], comb := fun _ _ d => d.getD 0, stoch := fun _ => true,
    oracle := fun tid n => 100 * tid + n }

/-- both workers request `(r, t_0)`; both miss before either stores:
`[T0 call, T0 miss, T1 call, T1 miss, T0 compute, T1 compute, T0 store+return, T1 store+return]`. -/
def wSched : List Nat := [0, 0, 1, 1, 0, 1, 0, 1]

theorem C08_witness_race (c : Cfg) (h : c.memoizeFirstStoreWins = false) : ¬ C08_conc c := by
  intro hf
  have := hf Int wSys [] [[(0, 0)], [(0, 0)]] wSched
  obtain ⟨i, a, f, o, r, j⟩ := c
  simp only at h; subst h
  cases i <;> cases a <;> cases o <;> cases r <;> cases j <;> exact absurd this (by decide)

/-- Non-vacuity of part (b): the same racing schedule under the first-store rule — both workers
finish and both report the value stored first (0); and a 2-level deterministic system finishes. -/
example : (exec ⟨true, true, true, true, true, true⟩ wSys (initC [] [[(0, 0)], [(0, 0)]]) wSched).log
    = [(none, (0, 0), 0), (none, (0, 0), 0)] := by decide

/-! ## (wave 6) definitions are read through the memo, never copied

`C08_seq` compares the edited model with "the same bodies, empty memo".  That is the freshly built model only if
the installed function of an element IS its current definition — which fails when the term generator copies the
VALUE an operand has at definition time into the function string: a later edit of the operand resets the memo, the
recomputation uses the copied number, and even a cache-free evaluation of the installed bodies is stale against a
model built from the final definitions.  The criterion `memoInv_clearSel` (and `Reach`) speak about the installed
bodies, so they need the same fact to mean what they say about definitions. -/

/-- **the installed function of an element is built from its definition alone**: after `element.equation = e` the
function is `build … (some e)`, whatever the other elements currently are. -/
def C08_defs (c : Cfg) : Prop :=
  ∀ (α : Type) (ops : Ops α) (s : St α) (n : Nat) (e : Expr α),
    (step c ops s (.setEq n e)).body n = build s.dt (s.kind n) n (s.init n) (some e)

theorem C08_defs_of_fact (c : Cfg) (h : c.operandsThroughMemo = true) : C08_defs c := by
  intro α ops s n e
  simp [step, installed, h, updFn]

/-- with the fact, what a model built from the final definitions yields is what `C08_seq` calls fresh: the body of
every element defined through a setter is `build` of its current equation and initial value. -/
theorem body_is_definition (c : Cfg) (h : c.operandsThroughMemo = true) {α : Type} (ops : Ops α) (s : St α)
    (n : Nat) (e : Expr α) :
    (step c ops s (.setEq n e)).body n = build s.dt (s.kind n) n ((step c ops s (.setEq n e)).init n)
      ((step c ops s (.setEq n e)).eqn n) := by
  simp [step, installed, h, updFn]

/-- **definition-time copy**: constant `c = 2` (element 1), `k = c * 3` (element 2) defined while `c` is 2: the
installed function of `k` is `2 * 3` — evaluated with every operand answering 7 it yields 6, the definition 21. -/
theorem C08_witness_baked (c : Cfg) (h : c.operandsThroughMemo = false) : ¬ C08_defs c := by
  intro hd
  have h1 := hd Int intOps (run c intOps wInit [.setEq 1 (.lit 2)]) 2 (.bin 2 (.ref 1) (.lit 3))
  have h2 := congrArg (fun b => (evalE intOps (fun m _ => (m, some (7 : Int))) b 0 []).2) h1
  obtain ⟨i, a, f, o, r, j⟩ := c
  simp only at h; subst h
  revert h2
  cases i <;> cases a <;> cases f <;> cases r <;> cases j <;> decide

/-- … and the edited model is then stale against a model built from the final definitions although every memo was
reset: `c = 2; k = c*3; c = 5; k(t_0)` answers 6; defining in the order `c = 5; k = c*3` (the final definitions) 15. -/
theorem baked_is_stale :
    query intOps (run ⟨true, true, true, false, true, true⟩ intOps wInit
      [.setEq 1 (.lit 2), .setEq 2 (.bin 2 (.ref 1) (.lit 3)), .setEq 1 (.lit 5)]) 2 0 20 = some 6 ∧
    query intOps (run ⟨true, true, true, true, true, true⟩ intOps wInit
      [.setEq 1 (.lit 2), .setEq 2 (.bin 2 (.ref 1) (.lit 3)), .setEq 1 (.lit 5)]) 2 0 20 = some 15 := by decide

/-! ## (wave 8) every reset path clears every store the lookup consults

`MemoInv` speaks about THE memo.  If `memoize` answers from a second store before it looks into the memo, a reset
path that empties `model.memo` alone leaves values behind that the next lookup still finds.  `Model.reset_cache` and
`add_equation` (all edits of the modelling API) and `SimulationScenario.reset_cache` (bptk.reset_scenario_cache,
begin_session, end_session) are separate paths; `St.memo2` holds what a lookup can still find after the memo alone
was emptied, `Op.sreset` is the scenario-level path, `Op.rawEq` the raw write `scenario.setup_constants` makes. -/

/-- **after a scenario-level reset the lookup finds nothing**: whatever was evaluated before. -/
def C08_stores (c : Cfg) : Prop :=
  ∀ (α : Type) (ops : Ops α) (s : St α), (step c ops s .sreset).memo = []

theorem C08_stores_of_fact (c : Cfg) (h : c.resetClearsAllStores = true) : C08_stores c := by
  intro α ops s
  simp [step, h]

/-- **a second store missed by the scenario-level path**: `c = 1+1; k = c*3; k(t_0)`; the scenario sets `c = 5`
(raw write) and resets its cache; `k(t_0)` answers 6 from the surviving store, a freshly built model 15. -/
def wStoreHist : List (Op Int) :=
  [.setEq 1 (.bin 0 (.lit 1) (.lit 1)), .setEq 2 (.bin 2 (.ref 1) (.lit 3)), .eval 2 0 20, .rawEq 1 (.lit 5), .sreset]

theorem C08_witness_second_store (c : Cfg) (h : c.resetClearsAllStores = false) : ¬ C08_seq c := by
  intro hf
  have := hf Int intOps wInit rfl rfl wStoreHist (by decide) 2 0 20 20 6 15
  obtain ⟨i, a, f, o, r, j⟩ := c
  simp only at h; subst h
  cases i <;> cases a <;> cases f <;> cases o <;> cases j <;> exact absurd (this (by decide) (by decide)) (by decide)

/-! ## (wave 10) a rejected call leaves the model as it was -/

/-- **an API call the code rejects with an exception is a no-op**: the state after it is the state before it (in
particular, later edits still empty the stores). -/
def C08_rejected (c : Cfg) : Prop :=
  ∀ (α : Type) (ops : Ops α) (s : St α), step c ops s .rejected = s

theorem C08_rejected_of_fact (c : Cfg) (h : c.rejectedIsNoOp = true) : C08_rejected c := by
  intro α ops s; simp [step, h]

/-- **a suspension counter left raised**: `c = 1+1; k = c*3; k(t_0)`; a set-up call that raises; `c.equation = 5`;
`k(t_0)` still answers 6 (the edit's cache reset is a no-op from then on), a freshly built model 15. -/
def wRejectHist : List (Op Int) :=
  [.setEq 1 (.bin 0 (.lit 1) (.lit 1)), .setEq 2 (.bin 2 (.ref 1) (.lit 3)), .eval 2 0 20, .rejected, .setEq 1 (.lit 5)]

theorem C08_witness_rejected (c : Cfg) (h : c.rejectedIsNoOp = false) : ¬ C08_seq c := by
  intro hf
  have := hf Int intOps wInit rfl rfl wRejectHist (by decide) 2 0 20 20 6 15
  obtain ⟨i, a, f, o, r, j⟩ := c
  simp only at h; subst h
  cases i <;> cases a <;> cases f <;> cases o <;> cases r <;> exact absurd (this (by decide) (by decide)) (by decide)

/-! ## The full property -/

/-- never stale (partial correctness, `C08_seq`) ∧ the edited model terminates whenever the fresh one does, with
the same value (`C08_term`, wave 2) ∧ never ambiguous (`C08_conc`). -/
def C08_full (c : Cfg) : Prop := C08_seq c ∧ C08_term c ∧ C08_conc c ∧ C08_defs c ∧ C08_stores c ∧ C08_rejected c

theorem C08_full_of_good (c : Cfg) (h : c.good = true) : C08_full c := by
  simp only [Cfg.good, Bool.and_eq_true] at h
  exact ⟨C08_fresh c h.1.1.1.1.1 h.1.1.1.1.2 h.1.2 h.2, C08_fresh_terminates c h.1.1.1.1.1 h.1.1.1.1.2 h.1.2 h.2,
    C08_stochastic_threads c h.1.1.1.2, C08_defs_of_fact c h.1.1.2, C08_stores_of_fact c h.1.2, C08_rejected_of_fact c h.2⟩

theorem C08_witness_baked_full (c : Cfg) (h : c.operandsThroughMemo = false) : ¬ C08_full c :=
  fun hf => C08_witness_baked c h hf.2.2.2.1

theorem C08_witness_second_store_full (c : Cfg) (h : c.resetClearsAllStores = false) : ¬ C08_full c :=
  fun hf => C08_witness_second_store c h hf.1

theorem C08_witness_rejected_full (c : Cfg) (h : c.rejectedIsNoOp = false) : ¬ C08_full c :=
  fun hf => C08_witness_rejected c h hf.1

theorem C08_witness_stale_init_full (c : Cfg) (h : c.initialValueResetsCache = false) : ¬ C08_full c :=
  fun hf => C08_witness_stale_init c h hf.1
theorem C08_witness_stale_add_full (c : Cfg) (h : c.addEquationResetsCache = false) : ¬ C08_full c :=
  fun hf => C08_witness_stale_add c h hf.1
theorem C08_witness_race_full (c : Cfg) (h : c.memoizeFirstStoreWins = false) : ¬ C08_full c :=
  fun hf => C08_witness_race c h hf.2.2.1

#print axioms C08_full_of_good
#print axioms C08_fresh
#print axioms C08_fresh_terminates
#print axioms evalK_complete
#print axioms val_total
#print axioms C08_total
#print axioms points_unsettled_stale
#print axioms memoInv_clearSel
#print axioms C08_fresh_selective
#print axioms runSel_all_eq_run
#print axioms C08_witness_selective_matcher
#print axioms selMatcher_incomplete
#print axioms settledFrom_false_of_noPoints
#print axioms C08_stochastic_threads
#print axioms C08_deterministic_threads
#print axioms C08_partial_evals
#print axioms C08_repeat
#print axioms C08_requested_set
#print axioms C08_single_value
#print axioms C08_witness_stale_init_full
#print axioms C08_witness_stale_add_full
#print axioms C08_witness_race_full
#print axioms C08_defs_of_fact
#print axioms C08_witness_baked_full
#print axioms C08_stores_of_fact
#print axioms C08_witness_second_store_full
#print axioms C08_rejected_of_fact
#print axioms C08_witness_rejected_full
#print axioms baked_is_stale

end Bptk.C08
