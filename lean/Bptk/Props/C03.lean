import Bptk.Props.C02
import Bptk.Core.C03
/-!
C03 — the XMILE transpiler preserves the meaning of every supported equation.

Quantifier: every equation tree that is the XMILE reading of its own token sequence (`XWL`), any size,
any nesting — structural induction, no bound; every XMILE operator table that agrees with CPython's
(`precAgree`, decidable) ; every generator configuration satisfying the decidable `good`.
The configuration (operator / builtin templates, identifier rendering, unknown-builtin behaviour) is
regenerated from /repo on every run (`Bptk.Gen.C03`), where `good cfg xmilePrec` is decided by the kernel.
-/
namespace Bptk.C03
open Bptk.Py
set_option linter.unusedSectionVars false

/-! ### Decidable side conditions on the probed configuration -/

/-- every infix operator is emitted bare, with the image of its symbol under the token map -/
def opOK (c : Cfg) (P : XPrec) : Bool :=
  allOps.all fun k => decide (c.opT k = [.hole 0, .op (P.img k), .hole 1])

/-- the template is a primary: it may stand in any operand position of the bare infix text -/
def primOK (t : Tmpl) : Bool := decide (lvlH 0 (shapeOf t) ≥ 100)

/-- every builtin template tolerates ANY operand text the generator can produce in every placeholder
position (A1 `tableOK 1`: every operand text is at least an `or`-expression — a conditional is always
emitted parenthesised —, so placeholders must sit in parentheses, call-argument, condition or branch
positions) and is itself a primary -/
def fnsOK (c : Cfg) : Bool := tableOK 1 c.fns && c.fns.all primOK

/-- `(not {})` tolerates operands of level ≥ 3 (comparisons and tighter) and is a primary -/
def notOK (c : Cfg) : Bool := tmplOK 3 c.notT && primOK c.notT

def identOK (c : Cfg) : Bool :=
  decide (c.identT = idToks "probe" false) && decide (c.identInitT = idToks "probe" true)

private def h0 : Py := .hole 0
private def h1 : Py := .hole 1
private def h2 : Py := .hole 2
private def selfCall (m : String) (args : List Py) : Py := .call (.attr (.name "self") m) args
private def modCall (md f : String) (args : List Py) : Py := .call (.attr (.name md) f) args

/-- what each construct / builtin of the C03 vocabulary is meant to compute, as a parenthesis-free
Python tree over its operands (`hole i` = i-th XMILE argument) -/
def specFn : String → Nat → Option Py
  | "()", 1 => some h0
  | "if", 3 => some (.ite h1 h0 h2)                     -- IF h0 THEN h1 ELSE h2
  | "abs", 1 => some (.call (.name "abs") [h0])
  | "min", 2 => some (.call (.name "min") [.list [h0, h1]])
  | "max", 2 => some (.call (.name "max") [.list [h0, h1]])
  | "min", 3 => some (.call (.name "min") [.list [h0, h1, h2]])
  | "max", 3 => some (.call (.name "max") [.list [h0, h1, h2]])
  | "sqrt", 1 => some (.bin .pow h0 (.num "0.5"))
  | "exp", 1 => some (modCall "np" "exp" [h0])
  | "ln", 1 => some (modCall "np" "log" [h0])
  | "log10", 1 => some (modCall "np" "log10" [h0])
  | "int", 1 => some (modCall "math" "floor" [h0])
  | "round", 1 => some (.call (.name "round") [h0])
  | "sin", 1 => some (modCall "math" "sin" [h0])
  | "cos", 1 => some (modCall "math" "cos" [h0])
  | "tan", 1 => some (modCall "math" "tan" [h0])
  | "arcsin", 1 => some (modCall "np" "arcsin" [h0])
  | "arccos", 1 => some (modCall "np" "arccos" [h0])
  | "arctan", 1 => some (modCall "np" "arctan" [h0])
  | "safediv", 2 => some (.ite (.num "0") (.bin .eq h1 (.num "0")) (.bin .div h0 h1))
  | "safediv", 3 => some (.ite h2 (.bin .eq h1 (.num "0")) (.bin .div h0 h1))
  | "step", 2 => some (.ite (.num "0") (.bin .lt (.name "t") h1) h0)
  | "ramp", 2 => some (selfCall "ramp" [h0, h1, .name "t"])
  | "percent", 1 => some (.bin .mul h0 (.num "100"))
  | "rootn", 2 => some (selfCall "rootn" [h0, h1])
  | "pi", 0 => some (.attr (.name "math") "pi")
  | "time", 0 => some (.name "t")
  | "dt", 0 => some (.attr (.name "self") "dt")
  | "starttime", 0 => some (.attr (.name "self") "starttime")
  | "stoptime", 0 => some (.attr (.name "self") "stoptime")
  | "init", 1 => some h0                                -- operand evaluated at the start time
  | _, _ => none

def specOK (c : Cfg) : Bool :=
  (c.fns.all fun t => match specFn t.cls t.arity with
    | some s => beqPy (erase (shapeOf t)) s
    | none => true)
  && beqPy (erase (shapeOf c.notT)) (.not h0)

/-- the supported vocabulary of C03 (function name, arity) -/
def vocabulary : List (String × Nat) :=
  [("()", 1), ("if", 3), ("abs", 1), ("min", 2), ("max", 2), ("sqrt", 1), ("exp", 1), ("ln", 1),
   ("log10", 1), ("int", 1), ("round", 1), ("sin", 1), ("cos", 1), ("tan", 1), ("arcsin", 1),
   ("arccos", 1), ("arctan", 1), ("safediv", 2), ("safediv", 3), ("step", 2), ("ramp", 2),
   ("percent", 1), ("rootn", 2), ("pi", 0), ("time", 0), ("dt", 0), ("starttime", 0),
   ("stoptime", 0), ("init", 1)]

def vocabOK (c : Cfg) : Bool := vocabulary.all fun (f, n) => (findFn c f n).isSome

def good (c : Cfg) (P : XPrec) : Bool :=
  opOK c P && fnsOK c && notOK c && identOK c && specOK c && vocabOK c && c.unknownBuiltinRaises

/-! ### Helper lemmas -/

theorem mem_allOps (k : XOp) : k ∈ allOps := by cases k <;> simp [allOps]

theorem precAgree_op (P : XPrec) (h : precAgree P = true) (k : XOp) :
    Py.bp (P.img k) ≥ P.bp k ∧ P.ldem k ≥ Py.ldem (P.img k) ∧ P.rdem k ≥ Py.rbp (P.img k) := by
  unfold precAgree at h
  simp only [Bool.and_eq_true, List.all_eq_true] at h
  have := h.1 k (mem_allOps k)
  simp only [opAgree, Bool.and_eq_true, decide_eq_true_eq] at this
  exact ⟨this.1.1, this.1.2, this.2⟩

theorem precAgree_un (P : XPrec) (h : precAgree P = true) :
    P.img .sub = .sub ∧ P.negLvl ≤ 7 ∧ P.negDem ≥ 7 ∧ P.notDem ≥ 3 := by
  unfold precAgree at h
  simp only [Bool.and_eq_true] at h
  have := h.2
  simp only [unaryAgree, Bool.and_eq_true, decide_eq_true_eq] at this
  exact ⟨this.1.1.1, this.1.1.2, this.1.2, this.2⟩

theorem opOK_op (c : Cfg) (P : XPrec) (h : opOK c P = true) (k : XOp) :
    c.opT k = [.hole 0, .op (P.img k), .hole 1] := by
  unfold opOK at h
  simp only [List.all_eq_true, decide_eq_true_eq] at h
  exact h k (mem_allOps k)

theorem findFn_mem (c : Cfg) (f : String) (n : Nat) (t : Tmpl) (h : findFn c f n = some t) :
    t ∈ c.fns ∧ t.cls = f ∧ t.arity = n := by
  unfold findFn at h
  have hm := List.mem_of_find?_eq_some h
  have hp := List.find?_some h
  simp only [Bool.and_eq_true, beq_iff_eq] at hp
  exact ⟨hm, hp.1, hp.2⟩

theorem fnsOK_tmpl (c : Cfg) (h : fnsOK c = true) (t : Tmpl) (ht : t ∈ c.fns) :
    tmplOK 1 t = true ∧ lvlH 0 (shapeOf t) ≥ 100 := by
  unfold fnsOK at h
  simp only [Bool.and_eq_true] at h
  constructor
  · have := h.1
    unfold tableOK at this
    rw [List.all_eq_true] at this
    exact this t ht
  · have := h.2
    rw [List.all_eq_true] at this
    have := this t ht
    simpa [primOK] using this

theorem good1_of (L : Nat) (p : Py) (h : Good L p) (hl : lvl p ≥ 100) : Good 1 p := ⟨h.1, by omega, h.2.2⟩

theorem bp_pos (k : BinOp) : Py.bp k ≥ 1 := by cases k <;> simp [Py.bp]

theorem pr_idPy (s : String) (init : Bool) : pr (idPy s init) = idToks s init := by
  cases init <;> simp [idPy, idToks, pr, prArgs]

theorem good_idPy (s : String) (init : Bool) : Good 1 (idPy s init) ∧ lvl (idPy s init) = 100 := by
  cases init <;> simp [idPy, Good, WLb, WLbArgs, WLbArg, lvlH, lvl, noHole, noHoleL]

/-- one template step: operands `σ` that are good for level `L`, plugged into a template that is
`tmplOK L` and a primary, give a good primary whose printing is the formatted text. -/
theorem tmpl_step (L : Nat) (t : Tmpl) (ht : tmplOK L t = true) (hp : lvlH 0 (shapeOf t) ≥ 100)
    (σ : Nat → Py) (hσ : ∀ i, Good L (σ i)) (τ : Nat → List Tok) (hτ : ∀ i, τ i = pr (σ i)) :
    Good 1 (subst σ (shapeOf t)) ∧ lvl (subst σ (shapeOf t)) ≥ 100 ∧
      substToks τ t.toks = pr (subst σ (shapeOf t)) := by
  have hs := tmplOK_shape L t ht
  have hg := subst_good L σ hσ (shapeOf t) hs.2.1 hs.2.2
  have hl : lvl (subst σ (shapeOf t)) ≥ 100 := by
    have h1 : lvlH 0 (subst σ (shapeOf t)) ≥ lvlH 0 (shapeOf t) := by
      cases hsh : shapeOf t with
      | hole i => rw [hsh] at hp; simp [lvlH] at hp
      | _ => simp [subst, lvlH, lvl]
    have h2 := lvlH0_le (subst σ (shapeOf t))
    omega
  refine ⟨good1_of L _ hg hl, hl, ?_⟩
  · rw [pr_subst, hs.1]
    exact substToks_congr _ _ hτ _

theorem nthD_toks (l : List Py) (gs : List (List Tok)) (h : gs = l.map pr) (i : Nat) :
    nthD [Tok.name "MISSING"] gs i = pr (nthD (.name "MISSING") l i) := by
  rw [h, nthD_map]

theorem good_sel3 (a b c : Py) (ha : Good 1 a) (hb : Good 1 b) (hc : Good 1 c) (i : Nat) :
    Good 1 (sel3 a b c i) := by
  match i with
  | 0 => exact ha
  | 1 => exact hb
  | _ + 2 => exact hc

theorem pr_sel3 (a b c : Py) (i : Nat) : sel3 (pr a) (pr b) (pr c) i = pr (sel3 a b c i) := by
  match i with
  | 0 => rfl
  | 1 => rfl
  | _ + 2 => rfl

/-! ### Main lemma: the emitted text is the printing of a well-levelled Python tree -/

section
variable (c : Cfg) (P : XPrec) (hP : precAgree P = true) (hO : opOK c P = true)
  (hF : fnsOK c = true) (hN : notOK c = true)
include hP hO hF hN

mutual
theorem gen_trans (x : X) (init : Bool) (hx : XWL P x = true) (hk : known c x = true) :
    Good 1 (trans c P init x) ∧ lvl (trans c P init x) ≥ xlvl P x ∧
      gen c init x = pr (trans c P init x) := by
  match x, hx, hk with
  | .num s, _, _ => simp [trans, gen, Good, WLb, lvl, noHole, xlvl, pr]
  | .nothing, hx, _ => simp [XWL] at hx
  | .id s, _, _ =>
    have := good_idPy s init
    exact ⟨this.1, by simp [trans, xlvl, this.2], by simp [trans, gen, pr_idPy]⟩
  | .paren e, hx, hk =>
    simp only [XWL] at hx
    simp only [known] at hk
    have ih := gen_trans e init hx hk
    simp only [trans, gen, fnToks, fnShape]
    cases hf : findFn c "()" 1 with
    | none => simp [substToks, subst, Good, WLb, lvl, noHole, xlvl, pr]
    | some t =>
      have hm := findFn_mem c _ _ t hf
      have ht := fnsOK_tmpl c hF t hm.1
      have := tmpl_step 1 t ht.1 ht.2 (fun _ => trans c P init e) (fun _ => ih.1)
        (fun _ => gen c init e) (fun _ => ih.2.2)
      exact ⟨this.1, by simp only [xlvl]; exact this.2.1, this.2.2⟩
  | .neg e, hx, hk =>
    simp only [XWL, Bool.and_eq_true, decide_eq_true_eq] at hx
    simp only [known] at hk
    have ih := gen_trans e init hx.1 hk
    have hu := precAgree_un P hP
    have hl : lvl (trans c P init e) ≥ 7 := by have := ih.2.1; have := hx.2; omega
    have hlH := lvlH_noHole _ ih.1.2.2
    refine ⟨⟨?_, by simp [trans, lvl], ?_⟩, ?_, ?_⟩
    · simp only [trans, WLb, Bool.and_eq_true, decide_eq_true_eq]; exact ⟨ih.1.1, by omega⟩
    · simp only [trans, noHole]; exact ih.1.2.2
    · simp only [trans, lvl, xlvl]; exact hu.2.1
    · have ho := opOK_op c P hO .sub
      simp only [trans, gen, ho, hu.1, substToks, sel2, pr, ih.2.2]
      simp
  | .notp e, hx, hk =>
    simp only [XWL, Bool.and_eq_true, decide_eq_true_eq] at hx
    simp only [known] at hk
    have ih := gen_trans e init hx.1 hk
    have hu := precAgree_un P hP
    have hl : lvl (trans c P init e) ≥ 3 := by have := ih.2.1; have := hx.2; omega
    unfold notOK at hN
    simp only [Bool.and_eq_true] at hN
    have hp : lvlH 0 (shapeOf c.notT) ≥ 100 := by simpa [primOK] using hN.2
    have := tmpl_step 3 c.notT hN.1 hp (fun _ => trans c P init e) (fun _ => ⟨ih.1.1, hl, ih.1.2.2⟩)
      (fun _ => gen c init e) (fun _ => ih.2.2)
    simp only [trans, gen]
    exact ⟨this.1, by simp only [xlvl]; exact this.2.1, this.2.2⟩
  | .bin k l r, hx, hk =>
    simp only [XWL, Bool.and_eq_true, decide_eq_true_eq] at hx
    simp only [known, Bool.and_eq_true] at hk
    obtain ⟨⟨⟨hxl, hxr⟩, hdl⟩, hdr⟩ := hx
    have ihl := gen_trans l init hxl hk.1
    have ihr := gen_trans r init hxr hk.2
    have ha := precAgree_op P hP k
    have hlHl := lvlH_noHole _ ihl.1.2.2
    have hlHr := lvlH_noHole _ ihr.1.2.2
    refine ⟨⟨?_, by simp only [trans, lvl]; exact bp_pos _, ?_⟩, ?_, ?_⟩
    · simp only [trans, WLb, Bool.and_eq_true, decide_eq_true_eq]
      refine ⟨⟨⟨ihl.1.1, ihr.1.1⟩, ?_⟩, ?_⟩
      · have := ihl.2.1; omega
      · have := ihr.2.1; omega
    · simp only [trans, noHole, Bool.and_eq_true]; exact ⟨ihl.1.2.2, ihr.1.2.2⟩
    · simp only [trans, lvl, xlvl]; exact ha.1
    · have ho := opOK_op c P hO k
      simp only [trans, gen, ho, substToks, sel2, pr, ihl.2.2, ihr.2.2]
      simp
  | .ite cnd a b, hx, hk =>
    simp only [XWL, Bool.and_eq_true] at hx
    simp only [known, Bool.and_eq_true] at hk
    have ihc := gen_trans cnd init hx.1.1 hk.1.1
    have iha := gen_trans a init hx.1.2 hk.1.2
    have ihb := gen_trans b init hx.2 hk.2
    simp only [trans, gen, fnToks, fnShape]
    cases hf : findFn c "if" 3 with
    | none => simp [substToks, subst, Good, WLb, lvl, noHole, xlvl, pr]
    | some t =>
      have hm := findFn_mem c _ _ t hf
      have ht := fnsOK_tmpl c hF t hm.1
      have := tmpl_step 1 t ht.1 ht.2 (sel3 (trans c P init cnd) (trans c P init a) (trans c P init b))
        (good_sel3 _ _ _ ihc.1 iha.1 ihb.1)
        (sel3 (gen c init cnd) (gen c init a) (gen c init b))
        (by intro i; rw [ihc.2.2, iha.2.2, ihb.2.2]; exact pr_sel3 _ _ _ i)
      exact ⟨this.1, by simp [xlvl], this.2.2⟩
  | .call f args, hx, hk =>
    simp only [XWL] at hx
    simp only [known, Bool.and_eq_true] at hk
    have ih := genL_transL args (initMode init f) hx hk.2
    simp only [trans, gen, fnToks, fnShape]
    cases hf : findFn c f args.length with
    | none => simp [hf] at hk
    | some t =>
      have hm := findFn_mem c _ _ t hf
      have ht := fnsOK_tmpl c hF t hm.1
      have := tmpl_step 1 t ht.1 ht.2 (nthD (.name "MISSING") (transL c P (initMode init f) args))
        (nthD_good 1 (by decide) _ ih.1)
        (nthD [Tok.name "MISSING"] (genL c (initMode init f) args))
        (nthD_toks _ _ ih.2)
      exact ⟨this.1, by simp only [xlvl]; exact this.2.1, this.2.2⟩
theorem genL_transL (xs : List X) (init : Bool) (hx : XWLL P xs = true) (hk : knownL c xs = true) :
    (∀ p ∈ transL c P init xs, Good 1 p) ∧ genL c init xs = (transL c P init xs).map pr := by
  match xs, hx, hk with
  | [], _, _ => simp [transL, genL]
  | e :: es, hx, hk =>
    simp only [XWLL, Bool.and_eq_true] at hx
    simp only [knownL, Bool.and_eq_true] at hk
    have h1 := gen_trans e init hx.1 hk.1
    have h2 := genL_transL es init hx.2 hk.2
    constructor
    · intro p hp
      simp only [transL, List.mem_cons] at hp
      rcases hp with rfl | hp
      · exact h1.1
      · exact h2.1 p hp
    · simp [genL, transL, h1.2.2, h2.2]
end

/-- **Grouping.** For every XMILE operator table that agrees with CPython's and every configuration
with bare infix operators, operand-tolerant primary builtin templates, and for EVERY equation tree
that is the XMILE reading of its tokens: the emitted text parses (CPython precedence) to the image of
that tree — operators by the token map, every builtin applied to its operands as units. -/
theorem prec_agree (x : X) (init : Bool) (hx : XWL P x = true) (hk : known c x = true) :
    Parses (gen c init x) (trans c P init x) := by
  have h := gen_trans c P hP hO hF hN x init hx hk
  rw [h.2.2]
  exact parse_print _ h.1.1

end

#print axioms prec_agree

/-! ### Values: carrier-generic reference semantics of an equation tree -/

variable {α : Type}

mutual
/-- XMILE reference semantics with uninterpreted operations: operators by their meaning, a variable
is its (opaque) value at the current time — at the start time inside INIT —, a builtin is its shape
evaluated on the VALUES of its arguments (each argument a unit). -/
def xeval (C : Carrier α) (c : Cfg) (P : XPrec) (init : Bool) : X → α
  | .num s => C.num s
  | .nothing => C.name "NOTHING"
  | .id s => eval C (fun _ => C.name "MISSING") (idPy s init)
  | .paren e => xeval C c P init e
  | .neg e => C.neg (xeval C c P init e)
  | .notp e => C.not (xeval C c P init e)
  | .bin k l r => C.bin (P.img k) (xeval C c P init l) (xeval C c P init r)
  | .ite cnd a b => C.ite (xeval C c P init a) (xeval C c P init cnd) (xeval C c P init b)
  | .call f args =>
    eval C (nthD (C.name "MISSING") (xevalL C c P (initMode init f) args)) (fnShape c f args.length)
def xevalL (C : Carrier α) (c : Cfg) (P : XPrec) (init : Bool) : List X → List α
  | [] => []
  | e :: es => xeval C c P init e :: xevalL C c P init es
end

/-- the three structural templates denote what they should: `()` is transparent, `if` is the
conditional with (then, condition, else) = (arg 1, arg 0, arg 2), `not` is negation -/
def shapesOK (c : Cfg) : Bool :=
  (match findFn c "()" 1 with
   | some t => beqPy (erase (shapeOf t)) (.hole 0)
   | none => false) &&
  (match findFn c "if" 3 with
   | some t => beqPy (erase (shapeOf t)) (.ite (.hole 1) (.hole 0) (.hole 2))
   | none => false) &&
  beqPy (erase (shapeOf c.notT)) (.not (.hole 0))

theorem eval_paren_shape (c : Cfg) (hS : shapesOK c = true) (C : Carrier α) (ρ : Nat → α) :
    eval C ρ (fnShape c "()" 1) = ρ 0 := by
  unfold shapesOK at hS
  simp only [Bool.and_eq_true] at hS
  have h := hS.1.1
  unfold fnShape
  cases hf : findFn c "()" 1 with
  | none => simp [hf] at h
  | some t =>
    simp only [hf] at h
    rw [← eval_erase, beqPy_eq _ _ h]
    simp [eval]

theorem eval_ite_shape (c : Cfg) (hS : shapesOK c = true) (C : Carrier α) (ρ : Nat → α) :
    eval C ρ (fnShape c "if" 3) = C.ite (ρ 1) (ρ 0) (ρ 2) := by
  unfold shapesOK at hS
  simp only [Bool.and_eq_true] at hS
  have h := hS.1.2
  unfold fnShape
  cases hf : findFn c "if" 3 with
  | none => simp [hf] at h
  | some t =>
    simp only [hf] at h
    rw [← eval_erase, beqPy_eq _ _ h]
    simp [eval]

theorem eval_not_shape (c : Cfg) (hS : shapesOK c = true) (C : Carrier α) (ρ : Nat → α) :
    eval C ρ (shapeOf c.notT) = C.not (ρ 0) := by
  unfold shapesOK at hS
  simp only [Bool.and_eq_true] at hS
  rw [← eval_erase, beqPy_eq _ _ hS.2]
  simp [eval]

mutual
/-- **Values.** In any arithmetic (every carrier with uninterpreted operations) the Python tree
denotes the XMILE reference value of the equation tree: same operation tree, same order. -/
theorem eval_trans (c : Cfg) (P : XPrec) (hS : shapesOK c = true) (C : Carrier α) (x : X) (init : Bool) :
    eval C (fun _ => C.name "MISSING") (trans c P init x) = xeval C c P init x := by
  match x with
  | .num s => simp [trans, xeval, eval]
  | .nothing => simp [trans, xeval, eval]
  | .id s => simp [trans, xeval]
  | .paren e =>
    simp only [trans, xeval, eval_subst, eval_paren_shape c hS]
    exact eval_trans c P hS C e init
  | .neg e => simp only [trans, xeval, eval]; rw [eval_trans c P hS C e init]
  | .notp e =>
    simp only [trans, xeval, eval_subst, eval_not_shape c hS]
    rw [eval_trans c P hS C e init]
  | .bin k l r =>
    simp only [trans, xeval, eval]
    rw [eval_trans c P hS C l init, eval_trans c P hS C r init]
  | .ite cnd a b =>
    simp only [trans, xeval, eval_subst, eval_ite_shape c hS, sel3]
    rw [eval_trans c P hS C cnd init, eval_trans c P hS C a init, eval_trans c P hS C b init]
  | .call f args =>
    simp only [trans, xeval, eval_subst]
    congr 1
    funext i
    rw [nthD_map_eval, evalL_transL c P hS C args (initMode init f)]
theorem evalL_transL (c : Cfg) (P : XPrec) (hS : shapesOK c = true) (C : Carrier α) (xs : List X)
    (init : Bool) :
    evalL C (fun _ => C.name "MISSING") (transL c P init xs) = xevalL C c P init xs := by
  match xs with
  | [] => simp [transL, evalL, xevalL]
  | e :: es =>
    simp only [transL, evalL, xevalL]
    rw [eval_trans c P hS C e init, evalL_transL c P hS C es init]
end

/-! ### Per program: what a successful validation means -/

theorem validate_sound (c : Cfg) (P : XPrec) (ts : List XTok) (ir x : X)
    (h : validate c P ts ir = some x) :
    flat x = ts ∧ XWL P x = true ∧ flat ir = ts ∧ gen c false ir = gen c false x := by
  unfold validate at h
  split at h
  · split at h
    · rename_i hc
      simp only [Bool.and_eq_true, decide_eq_true_eq] at hc
      cases h
      exact ⟨hc.1.1.1, hc.1.1.2, hc.1.2, hc.2⟩
    · cases h
  · cases h

/-! ### Names: the model of `sanitizeName` -/


/-- names of the ASCII identifier domain: no backslash (92) -/
def plain (l : List Nat) : Prop := ∀ c ∈ l, c ≠ 92

def f1 (c : Nat) : List Nat :=
  if c = 10 ∨ c = 32 then [95] else if c = 34 ∨ c = 45 ∨ c = 39 then [] else [c]

theorem stage1_cons (c : Nat) (r : List Nat) (h : c ≠ 92) : stage1 (c :: r) = f1 c ++ stage1 r := by
  rw [stage1]
  · simp only [f1]
    split
    · simp
    · split <;> simp
  · intro r' hc; exact absurd hc h

theorem stage1_plain (l : List Nat) (h : plain l) : stage1 l = l.flatMap f1 := by
  induction l with
  | nil => simp [stage1]
  | cons c r ih =>
    have hc : c ≠ 92 := h c (by simp)
    have hr : plain r := fun x hx => h x (by simp [hx])
    rw [stage1_cons c r hc, ih hr]; simp

def spUs (c : Nat) : Nat := if c = 32 then 95 else c

theorem f1_spUs (c : Nat) : f1 (spUs c) = f1 c := by
  unfold spUs f1
  by_cases h : c = 32
  · subst h; simp
  · simp [h]

theorem plain_map (g : Nat → Nat) (hg : ∀ c, g c = 92 → c = 92) (l : List Nat) (h : plain l) : plain (l.map g) := by
  intro c hc
  simp only [List.mem_map] at hc
  obtain ⟨a, ha, rfl⟩ := hc
  intro h92
  exact h a ha (hg a h92)

theorem flatMap_map_f1 (g : Nat → Nat) (hg : ∀ c, f1 (g c) = f1 c) (l : List Nat) :
    (l.map g).flatMap f1 = l.flatMap f1 := by
  induction l with
  | nil => rfl
  | cons c r ih => simp [hg c, ih]

/-- blanks and underscores are interchangeable in a name -/
theorem sanitize_space (l : List Nat) (h : plain l) : sanL (l.map spUs) = sanL l := by
  have hp : plain (l.map spUs) := plain_map spUs (by intro c; unfold spUs; split <;> omega) l h
  unfold sanL
  rw [stage1_plain _ hp, stage1_plain _ h, flatMap_map_f1 spUs f1_spUs]

/-- delete every double quote (34) -/
def unquote : List Nat → List Nat
  | [] => []
  | c :: r => if c = 34 then unquote r else c :: unquote r

theorem plain_unquote (l : List Nat) (h : plain l) : plain (unquote l) := by
  induction l with
  | nil => simpa [unquote] using h
  | cons c r ih =>
    have hr : plain r := fun x hx => h x (by simp [hx])
    intro x hx
    simp only [unquote] at hx
    split at hx
    · exact ih hr x hx
    · simp only [List.mem_cons] at hx
      rcases hx with rfl | hx
      · exact h x (by simp)
      · exact ih hr x hx

theorem flatMap_unquote (l : List Nat) : (unquote l).flatMap f1 = l.flatMap f1 := by
  induction l with
  | nil => rfl
  | cons c r ih =>
    simp only [unquote]
    split
    · rename_i hc; subst hc; simp [f1, ih]
    · simp [ih]

/-- quoting does not matter -/
theorem sanitize_quote (l : List Nat) (h : plain l) : sanL (unquote l) = sanL l := by
  unfold sanL
  rw [stage1_plain _ (plain_unquote l h), stage1_plain _ h, flatMap_unquote]

theorem lowerC_fix (c : Nat) (h : c < 65 ∨ c > 90) : lowerC c = c := by
  unfold lowerC; split <;> omega

theorem lowerC_eq_small (c k : Nat) (hk : k < 65 ∨ (90 < k ∧ k < 97)) : lowerC c = k ↔ c = k := by
  unfold lowerC; split <;> omega

theorem f1_lower (c : Nat) : f1 (lowerC c) = (f1 c).map lowerC := by
  unfold f1
  have h10 := lowerC_eq_small c 10 (by omega)
  have h32 := lowerC_eq_small c 32 (by omega)
  have h34 := lowerC_eq_small c 34 (by omega)
  have h45 := lowerC_eq_small c 45 (by omega)
  have h39 := lowerC_eq_small c 39 (by omega)
  simp only [h10, h32, h34, h45, h39]
  split
  · simp [lowerC]
  · split <;> simp

theorem flatMap_f1_lower (l : List Nat) : (l.map lowerC).flatMap f1 = (l.flatMap f1).map lowerC := by
  induction l with
  | nil => rfl
  | cons c r ih => simp [f1_lower, ih]

theorem collapse_lower (b : Bool) (l : List Nat) : collapse b (l.map lowerC) = (collapse b l).map lowerC := by
  induction l generalizing b with
  | nil => simp [collapse]
  | cons c r ih =>
    have h95 := lowerC_eq_small c 95 (by omega)
    simp only [List.map_cons, collapse, h95]
    split
    · cases b <;> simp [ih, lowerC]
    · simp [ih]

theorem stripDot_ne (c : Nat) (r : List Nat) (h : c ≠ 46) : stripDot (c :: r) = c :: r := by
  rw [stripDot]
  intro r' hh
  injection hh with h1 _
  exact h h1

theorem stripDot_lower (l : List Nat) : stripDot (l.map lowerC) = (stripDot l).map lowerC := by
  cases l with
  | nil => simp [stripDot]
  | cons c r =>
    have h46 := lowerC_eq_small c 46 (by omega)
    by_cases hc : c = 46
    · subst hc; simp [stripDot, lowerC]
    · have : lowerC c ≠ 46 := fun h => hc (h46.mp h)
      simp only [List.map_cons]
      rw [stripDot_ne _ _ this, stripDot_ne _ _ hc]
      simp

theorem lowerC_idem (c : Nat) : lowerC (lowerC c) = lowerC c := by
  unfold lowerC; split <;> (try split) <;> omega

theorem upper_lower (c : Nat) : upperC (lowerC c) = upperC c := by
  unfold upperC lowerC; split <;> (try split) <;> (try split) <;> omega

theorem camel_lower (b : Bool) (l : List Nat) : camelAux b (l.map lowerC) = camelAux b l := by
  induction l generalizing b with
  | nil => simp [camelAux]
  | cons c r ih =>
    have h95 := lowerC_eq_small c 95 (by omega)
    simp only [List.map_cons, camelAux, h95, ih, lowerC_idem, upper_lower]

/-- letter case does not matter -/
theorem sanitize_lower (l : List Nat) (h : plain l) : sanL (l.map lowerC) = sanL l := by
  have hp : plain (l.map lowerC) := plain_map lowerC (fun c hc => (lowerC_eq_small c 92 (by omega)).mp hc) l h
  unfold sanL
  rw [stage1_plain _ hp, stage1_plain _ h, flatMap_f1_lower, collapse_lower, stripDot_lower, camel_lower]


/-- canonical spelling of a name: quotes deleted, blanks as underscores, lower case -/
def canonN (l : List Nat) : List Nat := ((unquote l).map spUs).map lowerC

theorem sanitize_canon (l : List Nat) (h : plain l) : sanL (canonN l) = sanL l := by
  have h1 := plain_unquote l h
  have h2 : plain ((unquote l).map spUs) := plain_map spUs (by intro c; unfold spUs; split <;> omega) _ h1
  unfold canonN
  rw [sanitize_lower _ h2, sanitize_space _ h1, sanitize_quote _ h]

/-- **Names.** Two spellings of a name that differ only in letter case, blanks vs underscores and
quoting are mapped to the same Python identifier. -/
theorem sanitize_equiv (a b : List Nat) (ha : plain a) (hb : plain b) (h : canonN a = canonN b) :
    sanL a = sanL b := by
  rw [← sanitize_canon a ha, ← sanitize_canon b hb, h]

/-- Documented limits of "any naming": `-` and `'` vanish, a trailing / leading / doubled underscore
vanishes, an underscore in front of a digit vanishes, one leading dot vanishes — such DISTINCT XMILE
names collapse to one identifier; and `sanitizeName` is not idempotent (`a_b ↦ aB ↦ ab`), which is
harmless only because the compiler applies it once per name. -/
theorem sanitize_collisions :
    sanL [97, 45, 98] = sanL [97, 98] ∧            -- a-b  ~ ab
    sanL [105, 116, 39, 115] = sanL [105, 116, 115] ∧   -- it's ~ its
    sanL [97, 95] = sanL [97] ∧ sanL [95, 97] = sanL [97] ∧   -- a_ ~ a, _a ~ a
    sanL [97, 95, 95, 98] = sanL [97, 95, 98] ∧    -- a__b ~ a_b
    sanL [97, 95, 49] = sanL [97, 49] ∧            -- a_1 ~ a1
    sanL [46, 97] = sanL [97] ∧                    -- .a ~ a
    sanL [97, 95, 98] ≠ sanL [97, 98] ∧            -- a_b and ab stay distinct
    sanL (sanL [97, 95, 98]) ≠ sanL [97, 95, 98] := by decide

/-! ### The property -/

/-- **C03 at full strength** for generator configuration `c` and XMILE operator table `P`:
(1) for EVERY equation tree that is the XMILE reading of its tokens and uses known functions, the
    emitted text has a CPython parse that is the image of the tree (operators under the token map,
    builtins applied to their arguments as units, parentheses where the source has them), and its
    value — in any arithmetic — is the XMILE reference value;
(2) for every program the driver validates (the reference reading of the source tokens prints back
    to them, the IR kept the token sequence and renders to the same text) the text emitted for the
    IR denotes the reference reading;
(3) every builtin of the vocabulary is present and denotes its intended operation;
(4) an equation using a function outside the table raises instead of yielding a value;
(5) spellings of a name that differ in case, blanks/underscores, quoting give the same identifier. -/
def C03_full (c : Cfg) (P : XPrec) : Prop :=
  (∀ (x : X) (init : Bool), XWL P x = true → known c x = true →
     Parses (gen c init x) (trans c P init x) ∧
     ∀ (α : Type) (C : Carrier α),
       eval C (fun _ => C.name "MISSING") (trans c P init x) = xeval C c P init x) ∧
  (∀ (ts : List XTok) (ir x : X), validate c P ts ir = some x → known c x = true →
     flat ir = ts ∧ flat x = ts ∧ Parses (gen c false ir) (trans c P false x) ∧
     ∀ (α : Type) (C : Carrier α),
       eval C (fun _ => C.name "MISSING") (trans c P false x) = xeval C c P false x) ∧
  ((∀ t ∈ c.fns, ∀ s, specFn t.cls t.arity = some s →
     ∀ (α : Type) (C : Carrier α) (ρ : Nat → α), eval C ρ (shapeOf t) = eval C ρ s) ∧
   vocabOK c = true) ∧
  (∀ x : X, known c x = false → compile c x = none) ∧
  (∀ a b : List Nat, plain a → plain b → canonN a = canonN b → sanL a = sanL b)

theorem C03_full_of_good (c : Cfg) (P : XPrec) (hP : precAgree P = true) (h : good c P = true)
    (hS : shapesOK c = true) : C03_full c P := by
  unfold good at h
  simp only [Bool.and_eq_true] at h
  obtain ⟨⟨⟨⟨⟨⟨hO, hF⟩, hN⟩, _hI⟩, hSp⟩, hV⟩, hU⟩ := h
  refine ⟨?_, ?_, ⟨?_, hV⟩, ?_, sanitize_equiv⟩
  · intro x init hx hk
    exact ⟨prec_agree c P hP hO hF hN x init hx hk, fun α C => eval_trans c P hS C x init⟩
  · intro ts ir x hv hk
    have v := validate_sound c P ts ir x hv
    refine ⟨v.2.2.1, v.1, ?_, fun α C => eval_trans c P hS C x false⟩
    rw [v.2.2.2]
    exact prec_agree c P hP hO hF hN x false v.2.1 hk
  · intro t ht s hs α C ρ
    unfold specOK at hSp
    simp only [Bool.and_eq_true] at hSp
    have := hSp.1
    rw [List.all_eq_true] at this
    have := this t ht
    simp only [hs] at this
    rw [← eval_erase C ρ (shapeOf t), beqPy_eq _ _ this]
  · intro x hk
    simp [compile, hk, hU]

/-- What holds whatever the builtin templates look like: values always follow the tree (given the
three structural shapes), and a validated program keeps its token sequence. -/
theorem C03_partial (c : Cfg) (P : XPrec) (hS : shapesOK c = true) :
    (∀ (x : X) (init : Bool) (α : Type) (C : Carrier α),
       eval C (fun _ => C.name "MISSING") (trans c P init x) = xeval C c P init x) ∧
    (∀ ts ir x, validate c P ts ir = some x → flat ir = flat x) :=
  ⟨fun x init α C => eval_trans c P hS C x init,
   fun ts ir x h => by have v := validate_sound c P ts ir x h; rw [v.1, v.2.2.1]⟩

/-- unknown builtin silently compiled to `0` (the pinned tree): the property fails -/
theorem C03_witness_unknown (c : Cfg) (P : XPrec) (h : c.unknownBuiltinRaises = false)
    (hf : findFn c "foo" 1 = none) : ¬ C03_full c P := by
  intro hfull
  have := hfull.2.2.2.1 (.call "foo" [.id "a"]) (by simp [known, hf])
  simp [compile, h] at this

theorem xmile_prec_agrees : precAgree xmilePrec = true := by decide

/-! ### Negation witness for the bare builtin templates of the pinned tree -/

/-- `sqrt ↦ ({0} ** 0.5 )` as on the pinned tree -/
def bareSqrtCfg : Cfg where
  opT k := [.hole 0, .op (xmilePrec.img k), .hole 1]
  notT := { cls := "not", arity := 1, toks := [.lp, .knot, .hole 0, .rp] }
  fns := [{ cls := "sqrt", arity := 1, toks := [.lp, .hole 0, .op .pow, .num "0.5", .rp] }]
  identT := idToks "probe" false
  identInitT := idToks "probe" true
  unknownBuiltinRaises := true

/-- `SQRT(2+7)` is emitted as `(2.0 + 7.0 ** 0.5 )`, which CPython reads as `2 + 7**0.5` -/
theorem C03_witness_bare_sqrt :
    (parse (gen bareSqrtCfg false (.call "sqrt" [.bin .add (.num "2.0") (.num "7.0")]))).map sexp
      = some "(+ (num 2.0) (** (num 7.0) (num 0.5)))" ∧ fnsOK bareSqrtCfg = false := by
  decide +kernel

/-! ### Non-vacuity -/

def demoCfg : Cfg where
  opT k := [.hole 0, .op (xmilePrec.img k), .hole 1]
  notT := { cls := "not", arity := 1, toks := [.lp, .knot, .hole 0, .rp] }
  fns := [{ cls := "()", arity := 1, toks := [.lp, .hole 0, .rp] },
          { cls := "if", arity := 3, toks := [.lp, .lp, .hole 1, .rp, .kif, .lp, .hole 0, .rp, .kelse, .lp, .hole 2, .rp, .rp] },
          { cls := "sqrt", arity := 1, toks := [.lp, .lp, .hole 0, .rp, .op .pow, .num "0.5", .rp] }]
  identT := idToks "probe" false
  identInitT := idToks "probe" true
  unknownBuiltinRaises := true

/-- `IF a > 1 THEN SQRT(a + b) * -2 ^ 2 ELSE (a - b) - c`: well-levelled, known, and validated as the
reading of its own tokens. -/
def demoX : X :=
  .ite (.bin .gt (.id "a") (.num "1.0"))
    (.bin .mul (.call "sqrt" [.bin .add (.id "a") (.id "b")]) (.neg (.bin .pow (.num "2.0") (.num "2.0"))))
    (.bin .sub (.paren (.bin .sub (.id "a") (.id "b"))) (.id "c"))

example : opOK demoCfg xmilePrec = true ∧ fnsOK demoCfg = true ∧ notOK demoCfg = true ∧
    shapesOK demoCfg = true ∧ XWL xmilePrec demoX = true ∧ known demoCfg demoX = true ∧
    (validate demoCfg xmilePrec (flat demoX) demoX).isSome = true := by decide +kernel

#print axioms C03_full_of_good
#print axioms C03_partial
#print axioms C03_witness_unknown
#print axioms C03_witness_bare_sqrt
#print axioms xmile_prec_agrees
#print axioms eval_trans
#print axioms sanitize_equiv
#print axioms sanitize_collisions

end Bptk.C03
