import Bptk.Props.C02
import Bptk.Core.C03
/-!
C03 — the XMILE transpiler preserves the meaning of every supported equation.

Quantifier: every equation tree that is the XMILE reading of its own token sequence (`XWL`), any size,
any nesting — structural induction, no bound; every XMILE operator table that agrees with CPython's
(`precAgree`, decidable) ; every generator configuration satisfying the decidable `good`.
The configuration (operator / builtin templates, identifier rendering, unknown-builtin behaviour) is
regenerated from /repo on every run (`Bptk.Gen.C03`), where `good cfg xmilePrec` is decided by the kernel.

Wave 2: the Python reading of the emitted text is THE reading (`gen_parse_unique`, `gen_parse_exec`, from A1
`parses_unique` / `parse_sound`); the XMILE reading of a token sequence is unique (`reading_unique`: relation
`XExpr`, determinism `xdetE`, round trip `xwl_reads` under the decidable-by-cases `Unamb`); the token sequence
determines the emitted text (`flat_gen`, hence `validate_of_flat`); signed literals (`nnum`) are level-7
operands; the delay/smooth helper equals the cascade on the grid (`smth_eq_cascade`, witness for raw keys).
-/
namespace Bptk.C03
open Bptk.Py
set_option linter.unusedSectionVars false

/-! ### Decidable side conditions on the probed configuration -/

/-- every infix operator is emitted bare, with the image of its symbol under the token map -/
def opOK (c : Cfg) (P : XPrec) : Bool :=
  allOps.all fun k => decide (c.opT k = [.hole 0, .op (P.img k), .hole 1])

/-- the template is a primary: it may stand in any operand position of the bare infix text -/
def primOK (t : Tmpl) : Bool := decide (lvlH 0 (shapeOf t) ≥ 100)

/-- every builtin template tolerates ANY operand text the generator can produce in every placeholder
position (A1 `tableOK 1`: every operand text is at least an `or`-expression — a conditional is always
emitted parenthesised —, so placeholders must sit in parentheses, call-argument, condition or branch
positions) and is itself a primary -/
def fnsOK (c : Cfg) : Bool := tableOK 1 c.fns && c.fns.all primOK

/-- `(not {})` tolerates operands of level ≥ 3 (comparisons and tighter) and is a primary -/
def notOK (c : Cfg) : Bool := tmplOK 3 c.notT && primOK c.notT

def identOK (c : Cfg) : Bool :=
  decide (c.identT = idToks "probe" false) && decide (c.identInitT = idToks "probe" true)

private def h0 : Py := .hole 0
private def h1 : Py := .hole 1
private def h2 : Py := .hole 2
private def selfCall (m : String) (args : List Py) : Py := .call (.attr (.name "self") m) args
private def modCall (md f : String) (args : List Py) : Py := .call (.attr (.name md) f) args

/-- what each construct / builtin of the C03 vocabulary is meant to compute, as a parenthesis-free
Python tree over its operands (`hole i` = i-th XMILE argument) -/
def specFn : String → Nat → Option Py
  | "()", 1 => some h0
  | "if", 3 => some (.ite h1 h0 h2)                     -- IF h0 THEN h1 ELSE h2
  | "abs", 1 => some (.call (.name "abs") [h0])
  | "min", 2 => some (.call (.name "min") [.list [h0, h1]])
  | "max", 2 => some (.call (.name "max") [.list [h0, h1]])
  | "min", 3 => some (.call (.name "min") [.list [h0, h1, h2]])
  | "max", 3 => some (.call (.name "max") [.list [h0, h1, h2]])
  | "sqrt", 1 => some (.bin .pow h0 (.num "0.5"))
  | "exp", 1 => some (modCall "np" "exp" [h0])
  | "ln", 1 => some (modCall "np" "log" [h0])
  | "log10", 1 => some (modCall "np" "log10" [h0])
  | "int", 1 => some (modCall "math" "floor" [h0])
  | "round", 1 => some (.call (.name "round") [h0])
  | "sin", 1 => some (modCall "math" "sin" [h0])
  | "cos", 1 => some (modCall "math" "cos" [h0])
  | "tan", 1 => some (modCall "math" "tan" [h0])
  | "arcsin", 1 => some (modCall "np" "arcsin" [h0])
  | "arccos", 1 => some (modCall "np" "arccos" [h0])
  | "arctan", 1 => some (modCall "np" "arctan" [h0])
  | "safediv", 2 => some (.ite (.num "0") (.bin .eq h1 (.num "0")) (.bin .div h0 h1))
  | "safediv", 3 => some (.ite h2 (.bin .eq h1 (.num "0")) (.bin .div h0 h1))
  | "step", 2 => some (.ite (.num "0") (.bin .lt (.name "t") h1) h0)
  | "ramp", 2 => some (selfCall "ramp" [h0, h1, .name "t"])
  | "percent", 1 => some (.bin .mul h0 (.num "100"))
  | "rootn", 2 => some (selfCall "rootn" [h0, h1])
  | "pi", 0 => some (.attr (.name "math") "pi")
  | "time", 0 => some (.name "t")
  | "dt", 0 => some (.attr (.name "self") "dt")
  | "starttime", 0 => some (.attr (.name "self") "starttime")
  | "stoptime", 0 => some (.attr (.name "self") "stoptime")
  | "init", 1 => some h0                                -- operand evaluated at the start time
  | _, _ => none

def specOK (c : Cfg) : Bool :=
  (c.fns.all fun t => match specFn t.cls t.arity with
    | some s => beqPy (erase (shapeOf t)) s
    | none => true)
  && beqPy (erase (shapeOf c.notT)) (.not h0)

/-- the supported vocabulary of C03 (function name, arity) -/
def vocabulary : List (String × Nat) :=
  [("()", 1), ("if", 3), ("abs", 1), ("min", 2), ("max", 2), ("sqrt", 1), ("exp", 1), ("ln", 1),
   ("log10", 1), ("int", 1), ("round", 1), ("sin", 1), ("cos", 1), ("tan", 1), ("arcsin", 1),
   ("arccos", 1), ("arctan", 1), ("safediv", 2), ("safediv", 3), ("step", 2), ("ramp", 2),
   ("percent", 1), ("rootn", 2), ("pi", 0), ("time", 0), ("dt", 0), ("starttime", 0),
   ("stoptime", 0), ("init", 1)]

def vocabOK (c : Cfg) : Bool := vocabulary.all fun (f, n) => (findFn c f n).isSome

def good (c : Cfg) (P : XPrec) : Bool :=
  opOK c P && fnsOK c && notOK c && identOK c && specOK c && vocabOK c && c.unknownBuiltinRaises
    && c.helperKeysNormalise

/-! ### Helper lemmas -/

theorem mem_allOps (k : XOp) : k ∈ allOps := by cases k <;> simp [allOps]

theorem precAgree_op (P : XPrec) (h : precAgree P = true) (k : XOp) :
    Py.bp (P.img k) ≥ P.bp k ∧ P.ldem k ≥ Py.ldem (P.img k) ∧ P.rdem k ≥ Py.rbp (P.img k) := by
  unfold precAgree at h
  simp only [Bool.and_eq_true, List.all_eq_true] at h
  have := h.1 k (mem_allOps k)
  simp only [opAgree, Bool.and_eq_true, decide_eq_true_eq] at this
  exact ⟨this.1.1, this.1.2, this.2⟩

theorem precAgree_un (P : XPrec) (h : precAgree P = true) :
    P.img .sub = .sub ∧ P.negLvl ≤ 7 ∧ P.negDem ≥ 7 ∧ P.notDem ≥ 3 := by
  unfold precAgree at h
  simp only [Bool.and_eq_true] at h
  have := h.2
  simp only [unaryAgree, Bool.and_eq_true, decide_eq_true_eq] at this
  exact ⟨this.1.1.1, this.1.1.2, this.1.2, this.2⟩

theorem opOK_op (c : Cfg) (P : XPrec) (h : opOK c P = true) (k : XOp) :
    c.opT k = [.hole 0, .op (P.img k), .hole 1] := by
  unfold opOK at h
  simp only [List.all_eq_true, decide_eq_true_eq] at h
  exact h k (mem_allOps k)

theorem findFn_mem (c : Cfg) (f : String) (n : Nat) (t : Tmpl) (h : findFn c f n = some t) :
    t ∈ c.fns ∧ t.cls = f ∧ t.arity = n := by
  unfold findFn at h
  have hm := List.mem_of_find?_eq_some h
  have hp := List.find?_some h
  simp only [Bool.and_eq_true, beq_iff_eq] at hp
  exact ⟨hm, hp.1, hp.2⟩

theorem fnsOK_tmpl (c : Cfg) (h : fnsOK c = true) (t : Tmpl) (ht : t ∈ c.fns) :
    tmplOK 1 t = true ∧ lvlH 0 (shapeOf t) ≥ 100 := by
  unfold fnsOK at h
  simp only [Bool.and_eq_true] at h
  constructor
  · have := h.1
    unfold tableOK at this
    rw [List.all_eq_true] at this
    exact this t ht
  · have := h.2
    rw [List.all_eq_true] at this
    have := this t ht
    simpa [primOK] using this

theorem good1_of (L : Nat) (p : Py) (h : Good L p) (hl : lvl p ≥ 100) : Good 1 p := ⟨h.1, by omega, h.2.2⟩

theorem bp_pos (k : BinOp) : Py.bp k ≥ 1 := by cases k <;> simp [Py.bp]

theorem pr_idPy (s : String) (init : Bool) : pr (idPy s init) = idToks s init := by
  cases init <;> simp [idPy, idToks, pr, prArgs]

theorem good_idPy (s : String) (init : Bool) : Good 1 (idPy s init) ∧ lvl (idPy s init) = 100 := by
  cases init <;> simp [idPy, Good, WLb, WLbArgs, WLbArg, lvlH, lvl, noHole, noHoleL]

/-- one template step: operands `σ` that are good for level `L`, plugged into a template that is
`tmplOK L` and a primary, give a good primary whose printing is the formatted text. -/
theorem tmpl_step (L : Nat) (t : Tmpl) (ht : tmplOK L t = true) (hp : lvlH 0 (shapeOf t) ≥ 100)
    (σ : Nat → Py) (hσ : ∀ i, Good L (σ i)) (τ : Nat → List Tok) (hτ : ∀ i, τ i = pr (σ i)) :
    Good 1 (subst σ (shapeOf t)) ∧ lvl (subst σ (shapeOf t)) ≥ 100 ∧
      substToks τ t.toks = pr (subst σ (shapeOf t)) := by
  have hs := tmplOK_shape L t ht
  have hg := subst_good L σ hσ (shapeOf t) hs.2.1 hs.2.2
  have hl : lvl (subst σ (shapeOf t)) ≥ 100 := by
    have h1 : lvlH 0 (subst σ (shapeOf t)) ≥ lvlH 0 (shapeOf t) := by
      cases hsh : shapeOf t with
      | hole i => rw [hsh] at hp; simp [lvlH] at hp
      | _ => simp [subst, lvlH, lvl]
    have h2 := lvlH0_le (subst σ (shapeOf t))
    omega
  refine ⟨good1_of L _ hg hl, hl, ?_⟩
  · rw [pr_subst, hs.1]
    exact substToks_congr _ _ hτ _

theorem nthD_toks (l : List Py) (gs : List (List Tok)) (h : gs = l.map pr) (i : Nat) :
    nthD [Tok.name "MISSING"] gs i = pr (nthD (.name "MISSING") l i) := by
  rw [h, nthD_map]

theorem good_sel3 (a b c : Py) (ha : Good 1 a) (hb : Good 1 b) (hc : Good 1 c) (i : Nat) :
    Good 1 (sel3 a b c i) := by
  match i with
  | 0 => exact ha
  | 1 => exact hb
  | _ + 2 => exact hc

theorem pr_sel3 (a b c : Py) (i : Nat) : sel3 (pr a) (pr b) (pr c) i = pr (sel3 a b c i) := by
  match i with
  | 0 => rfl
  | 1 => rfl
  | _ + 2 => rfl

/-! ### Main lemma: the emitted text is the printing of a well-levelled Python tree -/

section
variable (c : Cfg) (P : XPrec) (hP : precAgree P = true) (hO : opOK c P = true)
  (hF : fnsOK c = true) (hN : notOK c = true)
include hP hO hF hN

mutual
theorem gen_trans (x : X) (init : Bool) (hx : XWL P x = true) (hk : known c x = true) :
    Good 1 (trans c P init x) ∧ lvl (trans c P init x) ≥ xlvl P x ∧
      gen c init x = pr (trans c P init x) := by
  match x, hx, hk with
  | .num s, _, _ => simp [trans, gen, Good, WLb, lvl, noHole, xlvl, pr]
  | .nothing, hx, _ => simp [XWL] at hx
  | .nnum s, _, _ =>
    have hu := precAgree_un P hP
    refine ⟨by simp [trans, Good, WLb, lvlH, lvl, noHole], ?_, by simp [trans, gen, pr]⟩
    simp only [trans, lvl, xlvl]; exact hu.2.1
  | .id s, _, _ =>
    have := good_idPy s init
    exact ⟨this.1, by simp [trans, xlvl, this.2], by simp [trans, gen, pr_idPy]⟩
  | .paren e, hx, hk =>
    simp only [XWL] at hx
    simp only [known] at hk
    have ih := gen_trans e init hx hk
    simp only [trans, gen, fnToks, fnShape]
    cases hf : findFn c "()" 1 with
    | none => simp [substToks, subst, Good, WLb, lvl, noHole, xlvl, pr]
    | some t =>
      have hm := findFn_mem c _ _ t hf
      have ht := fnsOK_tmpl c hF t hm.1
      have := tmpl_step 1 t ht.1 ht.2 (fun _ => trans c P init e) (fun _ => ih.1)
        (fun _ => gen c init e) (fun _ => ih.2.2)
      exact ⟨this.1, by simp only [xlvl]; exact this.2.1, this.2.2⟩
  | .neg e, hx, hk =>
    simp only [XWL, Bool.and_eq_true, decide_eq_true_eq] at hx
    simp only [known] at hk
    have ih := gen_trans e init hx.1 hk
    have hu := precAgree_un P hP
    have hl : lvl (trans c P init e) ≥ 7 := by have := ih.2.1; have := hx.2; omega
    have hlH := lvlH_noHole _ ih.1.2.2
    refine ⟨⟨?_, by simp [trans, lvl], ?_⟩, ?_, ?_⟩
    · simp only [trans, WLb, Bool.and_eq_true, decide_eq_true_eq]; exact ⟨ih.1.1, by omega⟩
    · simp only [trans, noHole]; exact ih.1.2.2
    · simp only [trans, lvl, xlvl]; exact hu.2.1
    · have ho := opOK_op c P hO .sub
      simp only [trans, gen, ho, hu.1, substToks, sel2, pr, ih.2.2]
      simp
  | .notp e, hx, hk =>
    simp only [XWL, Bool.and_eq_true, decide_eq_true_eq] at hx
    simp only [known] at hk
    have ih := gen_trans e init hx.1 hk
    have hu := precAgree_un P hP
    have hl : lvl (trans c P init e) ≥ 3 := by have := ih.2.1; have := hx.2; omega
    unfold notOK at hN
    simp only [Bool.and_eq_true] at hN
    have hp : lvlH 0 (shapeOf c.notT) ≥ 100 := by simpa [primOK] using hN.2
    have := tmpl_step 3 c.notT hN.1 hp (fun _ => trans c P init e) (fun _ => ⟨ih.1.1, hl, ih.1.2.2⟩)
      (fun _ => gen c init e) (fun _ => ih.2.2)
    simp only [trans, gen]
    exact ⟨this.1, by simp only [xlvl]; exact this.2.1, this.2.2⟩
  | .bin k l r, hx, hk =>
    simp only [XWL, Bool.and_eq_true, decide_eq_true_eq] at hx
    simp only [known, Bool.and_eq_true] at hk
    obtain ⟨⟨⟨hxl, hxr⟩, hdl⟩, hdr⟩ := hx
    have ihl := gen_trans l init hxl hk.1
    have ihr := gen_trans r init hxr hk.2
    have ha := precAgree_op P hP k
    have hlHl := lvlH_noHole _ ihl.1.2.2
    have hlHr := lvlH_noHole _ ihr.1.2.2
    refine ⟨⟨?_, by simp only [trans, lvl]; exact bp_pos _, ?_⟩, ?_, ?_⟩
    · simp only [trans, WLb, Bool.and_eq_true, decide_eq_true_eq]
      refine ⟨⟨⟨ihl.1.1, ihr.1.1⟩, ?_⟩, ?_⟩
      · have := ihl.2.1; omega
      · have := ihr.2.1; omega
    · simp only [trans, noHole, Bool.and_eq_true]; exact ⟨ihl.1.2.2, ihr.1.2.2⟩
    · simp only [trans, lvl, xlvl]; exact ha.1
    · have ho := opOK_op c P hO k
      simp only [trans, gen, ho, substToks, sel2, pr, ihl.2.2, ihr.2.2]
      simp
  | .ite cnd a b, hx, hk =>
    simp only [XWL, Bool.and_eq_true] at hx
    simp only [known, Bool.and_eq_true] at hk
    have ihc := gen_trans cnd init hx.1.1 hk.1.1
    have iha := gen_trans a init hx.1.2 hk.1.2
    have ihb := gen_trans b init hx.2 hk.2
    simp only [trans, gen, fnToks, fnShape]
    cases hf : findFn c "if" 3 with
    | none => simp [substToks, subst, Good, WLb, lvl, noHole, xlvl, pr]
    | some t =>
      have hm := findFn_mem c _ _ t hf
      have ht := fnsOK_tmpl c hF t hm.1
      have := tmpl_step 1 t ht.1 ht.2 (sel3 (trans c P init cnd) (trans c P init a) (trans c P init b))
        (good_sel3 _ _ _ ihc.1 iha.1 ihb.1)
        (sel3 (gen c init cnd) (gen c init a) (gen c init b))
        (by intro i; rw [ihc.2.2, iha.2.2, ihb.2.2]; exact pr_sel3 _ _ _ i)
      exact ⟨this.1, by simp [xlvl], this.2.2⟩
  | .call f args, hx, hk =>
    simp only [XWL] at hx
    simp only [known, Bool.and_eq_true] at hk
    have ih := genL_transL args (initMode init f) hx hk.2
    simp only [trans, gen, fnToks, fnShape]
    cases hf : findFn c f args.length with
    | none => simp [hf] at hk
    | some t =>
      have hm := findFn_mem c _ _ t hf
      have ht := fnsOK_tmpl c hF t hm.1
      have := tmpl_step 1 t ht.1 ht.2 (nthD (.name "MISSING") (transL c P (initMode init f) args))
        (nthD_good 1 (by decide) _ ih.1)
        (nthD [Tok.name "MISSING"] (genL c (initMode init f) args))
        (nthD_toks _ _ ih.2)
      exact ⟨this.1, by simp only [xlvl]; exact this.2.1, this.2.2⟩
theorem genL_transL (xs : List X) (init : Bool) (hx : XWLL P xs = true) (hk : knownL c xs = true) :
    (∀ p ∈ transL c P init xs, Good 1 p) ∧ genL c init xs = (transL c P init xs).map pr := by
  match xs, hx, hk with
  | [], _, _ => simp [transL, genL]
  | e :: es, hx, hk =>
    simp only [XWLL, Bool.and_eq_true] at hx
    simp only [knownL, Bool.and_eq_true] at hk
    have h1 := gen_trans e init hx.1 hk.1
    have h2 := genL_transL es init hx.2 hk.2
    constructor
    · intro p hp
      simp only [transL, List.mem_cons] at hp
      rcases hp with rfl | hp
      · exact h1.1
      · exact h2.1 p hp
    · simp [genL, transL, h1.2.2, h2.2]
end

/-- **Grouping.** For every XMILE operator table that agrees with CPython's and every configuration
with bare infix operators, operand-tolerant primary builtin templates, and for EVERY equation tree
that is the XMILE reading of its tokens: the emitted text parses (CPython precedence) to the image of
that tree — operators by the token map, every builtin applied to its operands as units. -/
theorem prec_agree (x : X) (init : Bool) (hx : XWL P x = true) (hk : known c x = true) :
    Parses (gen c init x) (trans c P init x) := by
  have h := gen_trans c P hP hO hF hN x init hx hk
  rw [h.2.2]
  exact parse_print _ h.1.1

end

#print axioms prec_agree

/-! ### THE parse: the emitted text has exactly one CPython reading, and the executable parser returns it -/

section
variable (c : Cfg) (P : XPrec) (hP : precAgree P = true) (hO : opOK c P = true)
  (hF : fnsOK c = true) (hN : notOK c = true)
include hP hO hF hN

/-- every derivation of the parsing relation on the emitted text yields the image of the tree
(A1 `parses_unique`): the grouping of the text is not just *a* reading, it is the only one. -/
theorem gen_parse_unique (x : X) (init : Bool) (hx : XWL P x = true) (hk : known c x = true) (p : Py)
    (hp : Parses (gen c init x) p) : p = trans c P init x :=
  parses_unique _ _ _ hp (prec_agree c P hP hO hF hN x init hx hk)

/-- the executable parser (the one compared with `ast.parse` on every run) can only answer with the
image of the tree (A1 `parse_sound` + uniqueness). -/
theorem gen_parse_exec (x : X) (init : Bool) (hx : XWL P x = true) (hk : known c x = true) (p : Py)
    (hp : parse (gen c init x) = some p) : p = trans c P init x :=
  gen_parse_unique c P hP hO hF hN x init hx hk p (parse_sound _ _ hp)

end

/-! ### The XMILE reading of a token sequence is unique

Big-step relation of precedence climbing for an arbitrary `XPrec` (what `xparse` executes), its
determinism, and the round trip `XWL x → XReads (flat x) x`; hence two well-levelled trees over the
same tokens are equal (up to the representation of signed literals, `canon`). -/

def xstops (P : XPrec) (m : Nat) : List XTok → Prop
  | .op k :: _ => P.bp k < m
  | _ => True

def noLp : List XTok → Prop
  | .lp :: _ => False
  | _ => True

mutual
inductive XExpr (P : XPrec) : Nat → List XTok → X → List XTok → Prop
  | mk {m ts l ts' e rest} : XPre P m ts l ts' → XLoop P m l ts' e rest → XExpr P m ts e rest
inductive XLoop (P : XPrec) : Nat → X → List XTok → X → List XTok → Prop
  | stop {m acc ts} : xstops P m ts → XLoop P m acc ts acc ts
  | step {m acc k ts r ts' e rest} : P.bp k ≥ m → XExpr P (P.rdem k) ts r ts' →
      XLoop P m (.bin k acc r) ts' e rest → XLoop P m acc (.op k :: ts) e rest
inductive XPre (P : XPrec) : Nat → List XTok → X → List XTok → Prop
  | neg {m ts e ts'} : m ≤ P.negLvl → XExpr P P.negDem ts e ts' → XPre P m (.op .sub :: ts) (.neg e) ts'
  | num {m s ts} : XPre P m (.num s :: ts) (.num s) ts
  | id {m s ts} : XPre P m (.id s :: ts) (.id s) ts
  | paren {m ts e ts'} : XExpr P 0 ts e (.rp :: ts') → XPre P m (.lp :: ts) (.paren e) ts'
  | notp {m ts e ts'} : XExpr P 0 ts e (.rp :: ts') → XPre P m (.knot :: .lp :: ts) (.notp e) ts'
  | ite {ts cnd t1 a t2 b t3} : XExpr P 0 ts cnd (.kthen :: t1) → XExpr P 0 t1 a (.kelse :: t2) →
      XExpr P 0 t2 b t3 → XPre P 0 (.kif :: ts) (.ite cnd a b) t3
  | call {m f ts a as ts'} : XArgs P ts (a :: as) ts' → XPre P m (.fn f :: .lp :: ts) (.call f (a :: as)) ts'
  | call0 {m f ts} : noLp ts → XPre P m (.fn f :: ts) (.call f []) ts
inductive XArgs (P : XPrec) : List XTok → List X → List XTok → Prop
  | last {ts e ts'} : XExpr P 0 ts e (.rp :: ts') → XArgs P ts [e] ts'
  | more {ts e ts' es ts''} : XExpr P 0 ts e (.comma :: ts') → XArgs P ts' es ts'' → XArgs P ts (e :: es) ts''
end

/-- `ts` is a complete XMILE equation read as `x` -/
def XReads (P : XPrec) (ts : List XTok) (x : X) : Prop := XExpr P 0 ts x []

mutual
theorem xdetE {P : XPrec} {m ts e r e' r'} (h1 : XExpr P m ts e r) (h2 : XExpr P m ts e' r') :
    e = e' ∧ r = r' := by
  match h1 with
  | .mk hp hl =>
    cases h2 with
    | mk hp' hl' =>
      obtain ⟨rfl, rfl⟩ := xdetP hp hp'
      exact xdetL hl hl'
  termination_by structural h1
theorem xdetL {P : XPrec} {m acc ts e r e' r'} (h1 : XLoop P m acc ts e r) (h2 : XLoop P m acc ts e' r') :
    e = e' ∧ r = r' := by
  match h1 with
  | .stop hs =>
    cases h2 with
    | stop _ => exact ⟨rfl, rfl⟩
    | step hb _ _ => simp only [xstops] at hs; omega
  | .step hb he hl =>
    cases h2 with
    | stop hs => simp only [xstops] at hs; omega
    | step hb' he' hl' =>
      obtain ⟨rfl, rfl⟩ := xdetE he he'
      exact xdetL hl hl'
  termination_by structural h1
theorem xdetP {P : XPrec} {m ts e r e' r'} (h1 : XPre P m ts e r) (h2 : XPre P m ts e' r') :
    e = e' ∧ r = r' := by
  match h1 with
  | .neg _ he =>
    cases h2 with
    | neg _ he' => obtain ⟨rfl, rfl⟩ := xdetE he he'; exact ⟨rfl, rfl⟩
  | .num => cases h2 with | num => exact ⟨rfl, rfl⟩
  | .id => cases h2 with | id => exact ⟨rfl, rfl⟩
  | .paren he =>
    cases h2 with
    | paren he' =>
      obtain ⟨rfl, h⟩ := xdetE he he'
      simp only [List.cons.injEq, true_and] at h
      exact ⟨rfl, h⟩
  | .notp he =>
    cases h2 with
    | notp he' =>
      obtain ⟨rfl, h⟩ := xdetE he he'
      simp only [List.cons.injEq, true_and] at h
      exact ⟨rfl, h⟩
  | .ite hc ha hb =>
    cases h2 with
    | ite hc' ha' hb' =>
      obtain ⟨rfl, h⟩ := xdetE hc hc'
      simp only [List.cons.injEq, true_and] at h
      subst h
      obtain ⟨rfl, h⟩ := xdetE ha ha'
      simp only [List.cons.injEq, true_and] at h
      subst h
      obtain ⟨rfl, rfl⟩ := xdetE hb hb'
      exact ⟨rfl, rfl⟩
  | .call ha =>
    cases h2 with
    | call ha' => obtain ⟨h, rfl⟩ := xdetA ha ha'; cases h; exact ⟨rfl, rfl⟩
    | call0 hn => simp [noLp] at hn
  | .call0 hn =>
    cases h2 with
    | call _ => simp [noLp] at hn
    | call0 _ => exact ⟨rfl, rfl⟩
  termination_by structural h1
theorem xdetA {P : XPrec} {ts es r es' r'} (h1 : XArgs P ts es r) (h2 : XArgs P ts es' r') :
    es = es' ∧ r = r' := by
  match h1 with
  | .last he =>
    cases h2 with
    | last he' =>
      obtain ⟨rfl, h⟩ := xdetE he he'
      simp only [List.cons.injEq, true_and] at h
      exact ⟨rfl, h⟩
    | more he' _ =>
      obtain ⟨_, h⟩ := xdetE he he'
      simp at h
  | .more he hr =>
    cases h2 with
    | last he' =>
      obtain ⟨_, h⟩ := xdetE he he'
      simp at h
    | more he' hr' =>
      obtain ⟨rfl, h⟩ := xdetE he he'
      simp only [List.cons.injEq, true_and] at h
      subst h
      obtain ⟨rfl, rfl⟩ := xdetA hr hr'
      exact ⟨rfl, rfl⟩
  termination_by structural h1
end

/-- **Determinism of the XMILE reading relation.** -/
theorem xreads_unique (P : XPrec) (ts : List XTok) (x y : X) (h : XReads P ts x) (h' : XReads P ts y) :
    x = y := (xdetE h h').1

/-! #### Round trip: a well-levelled tree is the reading of its own token sequence -/

/-- side conditions on an operator table under which precedence climbing reads every well-levelled
tree back from its tokens (all are finite comparisons; `xmile_unamb` checks the XMILE table) -/
structure Unamb (P : XPrec) : Prop where
  ldem_bp : ∀ k, P.bp k ≤ P.ldem k
  ldem_pos : ∀ k, 1 ≤ P.ldem k
  rdem_pos : ∀ k, 1 ≤ P.rdem k
  negDem_pos : 1 ≤ P.negDem
  negDem_le : P.negDem ≤ 100
  left_bin : ∀ k k', P.ldem k ≤ P.bp k' → P.bp k < P.rdem k'
  left_neg : ∀ k, P.ldem k ≤ P.negLvl → P.bp k < P.negDem
  right_bin : ∀ k k', P.rdem k ≤ P.bp k' → P.rdem k ≤ P.rdem k'
  right_neg : ∀ k, P.rdem k ≤ P.negLvl → P.rdem k ≤ P.negDem
  neg_bin : ∀ k', P.negDem ≤ P.bp k' → P.negDem ≤ P.rdem k'

theorem xmile_unamb : Unamb xmilePrec := by
  constructor
  · intro k; cases k <;> decide
  · intro k; cases k <;> decide
  · intro k; cases k <;> decide
  · decide
  · decide
  · intro k k'; cases k <;> cases k' <;> decide
  · intro k; cases k <;> decide
  · intro k k'; cases k <;> cases k' <;> decide
  · intro k; cases k <;> decide
  · intro k'; cases k' <;> decide

mutual
/-- no signed-literal node (`nnum` is the IR's spelling of `neg (num s)`) -/
def noNnum : X → Bool
  | .nnum _ => false
  | .paren e => noNnum e
  | .neg e => noNnum e
  | .notp e => noNnum e
  | .bin _ l r => noNnum l && noNnum r
  | .ite cnd a b => noNnum cnd && noNnum a && noNnum b
  | .call _ args => noNnumL args
  | _ => true
def noNnumL : List X → Bool
  | [] => true
  | e :: es => noNnum e && noNnumL es
end

def isPrim : X → Bool
  | .bin _ _ _ => false
  | .neg _ => false
  | .nnum _ => false
  | .ite _ _ _ => false
  | _ => true

/-- follow power: an operator of binding power ≥ `xfp e` following the tokens of `e` would be
absorbed inside `e` -/
def xfp (P : XPrec) : X → Nat
  | .bin k _ _ => P.rdem k
  | .neg _ => P.negDem
  | _ => 0

theorem xstops_mono {P : XPrec} {m m' : Nat} {ts : List XTok} (h : xstops P m ts) (hm : m ≤ m') :
    xstops P m' ts := by
  cases ts with
  | nil => trivial
  | cons t ts => cases t <;> simp_all [xstops] <;> omega

theorem xstops_zero {P : XPrec} {ts : List XTok} (h : xstops P 0 ts) (m : Nat) : xstops P m ts :=
  xstops_mono h (Nat.zero_le m)

/-- a non-primary, well-levelled operand whose level meets a demand `d ≥ 1` has a follow power with
property `Q`, provided `Q` holds of the right demand of every operator / of unary minus at least that tight -/
theorem xfp_bound (P : XPrec) (e : X) (d : Nat) (Q : Nat → Prop) (hd : 1 ≤ d) (hw : XWL P e = true)
    (hn : noNnum e = true) (hlv : d ≤ xlvl P e) (hnp : isPrim e = false)
    (hbin : ∀ k', d ≤ P.bp k' → Q (P.rdem k')) (hneg : d ≤ P.negLvl → Q P.negDem) : Q (xfp P e) := by
  cases e with
  | bin k l r => exact hbin k (by simpa [xlvl] using hlv)
  | neg e => exact hneg (by simpa [xlvl] using hlv)
  | nnum s => simp [noNnum] at hn
  | ite cnd a b => simp [xlvl] at hlv; omega
  | nothing => simp [XWL] at hw
  | num s => simp [isPrim] at hnp
  | id s => simp [isPrim] at hnp
  | paren e => simp [isPrim] at hnp
  | notp e => simp [isPrim] at hnp
  | call f args => simp [isPrim] at hnp

section
variable (P : XPrec) (U : Unamb P)
include U

mutual
theorem xround (e : X) (hw : XWL P e = true) (hn : noNnum e = true) (m : Nat) (rest : List XTok)
    (e' : X) (rest' : List XTok) (hm : m ≤ xlvl P e)
    (hs : isPrim e = false → xstops P (xfp P e) rest) (hl : noLp rest)
    (h : XLoop P m e rest e' rest') : XExpr P m (flat e ++ rest) e' rest' := by
  match e, hw, hn with
  | .num s, _, _ => exact XExpr.mk XPre.num h
  | .id s, _, _ => exact XExpr.mk XPre.id h
  | .nnum s, _, hn => simp [noNnum] at hn
  | .nothing, hw, _ => simp [XWL] at hw
  | .paren e1, hw, hn =>
    simp only [XWL] at hw
    simp only [noNnum] at hn
    have h1 := xround e1 hw hn 0 (.rp :: rest) e1 (.rp :: rest) (Nat.zero_le _) (fun _ => trivial) trivial
      (XLoop.stop trivial)
    have : flat (.paren e1) ++ rest = .lp :: (flat e1 ++ .rp :: rest) := by simp [flat]
    rw [this]
    exact XExpr.mk (XPre.paren h1) h
  | .notp e1, hw, hn =>
    simp only [XWL, Bool.and_eq_true] at hw
    simp only [noNnum] at hn
    have h1 := xround e1 hw.1 hn 0 (.rp :: rest) e1 (.rp :: rest) (Nat.zero_le _) (fun _ => trivial) trivial
      (XLoop.stop trivial)
    have : flat (.notp e1) ++ rest = .knot :: .lp :: (flat e1 ++ .rp :: rest) := by simp [flat]
    rw [this]
    exact XExpr.mk (XPre.notp h1) h
  | .neg e1, hw, hn =>
    simp only [XWL, Bool.and_eq_true, decide_eq_true_eq] at hw
    simp only [noNnum] at hn
    have hst : xstops P P.negDem rest := hs (by simp [isPrim])
    have h1 := xround e1 hw.1 hn P.negDem rest e1 rest hw.2
      (fun hnp => xfp_bound P e1 P.negDem (fun q => xstops P q rest) U.negDem_pos hw.1 hn hw.2 hnp
        (fun k' hk => xstops_mono hst (U.neg_bin k' hk)) (fun _ => hst))
      hl (XLoop.stop hst)
    have : flat (.neg e1) ++ rest = .op .sub :: (flat e1 ++ rest) := by simp [flat]
    rw [this]
    exact XExpr.mk (XPre.neg (by simpa [xlvl] using hm) h1) h
  | .bin k l r, hw, hn =>
    simp only [XWL, Bool.and_eq_true, decide_eq_true_eq] at hw
    simp only [noNnum, Bool.and_eq_true] at hn
    obtain ⟨⟨⟨hwl, hwr⟩, hdl⟩, hdr⟩ := hw
    have hmk : m ≤ P.bp k := by simpa [xlvl] using hm
    have hst : xstops P (P.rdem k) rest := hs (by simp [isPrim])
    have hr := xround r hwr hn.2 (P.rdem k) rest r rest hdr
      (fun hnp => xfp_bound P r (P.rdem k) (fun q => xstops P q rest) (U.rdem_pos k) hwr hn.2 hdr hnp
        (fun k' hk => xstops_mono hst (U.right_bin k k' hk)) (fun hk => xstops_mono hst (U.right_neg k hk)))
      hl (XLoop.stop hst)
    have hloop : XLoop P m l (.op k :: (flat r ++ rest)) e' rest' := XLoop.step hmk hr h
    have h1 := xround l hwl hn.1 m (.op k :: (flat r ++ rest)) e' rest'
      (by have := U.ldem_bp k; omega)
      (fun hnp => xfp_bound P l (P.ldem k) (fun q => xstops P q (.op k :: (flat r ++ rest))) (U.ldem_pos k)
        hwl hn.1 hdl hnp (fun k' hk => by simp only [xstops]; exact U.left_bin k k' hk)
        (fun hk => by simp only [xstops]; exact U.left_neg k hk))
      trivial hloop
    have : flat (.bin k l r) ++ rest = flat l ++ .op k :: (flat r ++ rest) := by simp [flat]
    rw [this]
    exact h1
  | .ite cnd a b, hw, hn =>
    simp only [XWL, Bool.and_eq_true] at hw
    simp only [noNnum, Bool.and_eq_true] at hn
    have hm0 : m = 0 := by simpa [xlvl] using hm
    subst hm0
    have hst : xstops P 0 rest := hs (by simp [isPrim])
    have hb := xround b hw.2 hn.2 0 rest b rest (Nat.zero_le _) (fun _ => xstops_zero hst _) hl (XLoop.stop hst)
    have ha := xround a hw.1.2 hn.1.2 0 (.kelse :: (flat b ++ rest)) a (.kelse :: (flat b ++ rest)) (Nat.zero_le _)
      (fun _ => trivial) trivial (XLoop.stop trivial)
    have hc := xround cnd hw.1.1 hn.1.1 0 (.kthen :: (flat a ++ .kelse :: (flat b ++ rest))) cnd
      (.kthen :: (flat a ++ .kelse :: (flat b ++ rest))) (Nat.zero_le _) (fun _ => trivial) trivial (XLoop.stop trivial)
    have : flat (.ite cnd a b) ++ rest
        = .kif :: (flat cnd ++ .kthen :: (flat a ++ .kelse :: (flat b ++ rest))) := by simp [flat]
    rw [this]
    exact XExpr.mk (XPre.ite hc ha hb) h
  | .call f [], _, _ =>
    have : flat (.call f []) ++ rest = .fn f :: rest := by simp [flat]
    rw [this]
    exact XExpr.mk (XPre.call0 hl) h
  | .call f (a :: as), hw, hn =>
    simp only [XWL] at hw
    simp only [noNnum] at hn
    have ha := xroundArgs (a :: as) hw hn (by simp) rest
    have : flat (.call f (a :: as)) ++ rest = .fn f :: .lp :: (flatArgs (a :: as) ++ .rp :: rest) := by simp [flat]
    rw [this]
    exact XExpr.mk (XPre.call ha) h
theorem xroundArgs (es : List X) (hw : XWLL P es = true) (hn : noNnumL es = true) (hne : es ≠ [])
    (rest : List XTok) : XArgs P (flatArgs es ++ .rp :: rest) es rest := by
  match es, hw, hn, hne with
  | [], _, _, hne => exact absurd rfl hne
  | [e], hw, hn, _ =>
    simp only [XWLL, Bool.and_eq_true] at hw
    simp only [noNnumL, Bool.and_eq_true] at hn
    have h1 := xround e hw.1 hn.1 0 (.rp :: rest) e (.rp :: rest) (Nat.zero_le _) (fun _ => trivial) trivial
      (XLoop.stop trivial)
    simp only [flatArgs]
    exact XArgs.last h1
  | e :: e2 :: es, hw, hn, _ =>
    simp only [XWLL, Bool.and_eq_true] at hw
    simp only [noNnumL, Bool.and_eq_true] at hn
    have h2 := xroundArgs (e2 :: es) (by simp only [XWLL, Bool.and_eq_true]; exact hw.2)
      (by simp only [noNnumL, Bool.and_eq_true]; exact hn.2) (by simp) rest
    have h1 := xround e hw.1 hn.1 0 (.comma :: (flatArgs (e2 :: es) ++ .rp :: rest)) e
      (.comma :: (flatArgs (e2 :: es) ++ .rp :: rest)) (Nat.zero_le _) (fun _ => trivial) trivial (XLoop.stop trivial)
    have : flatArgs (e :: e2 :: es) ++ .rp :: rest
        = flat e ++ .comma :: (flatArgs (e2 :: es) ++ .rp :: rest) := by simp [flatArgs]
    rw [this]
    exact XArgs.more h1 h2
end

/-- **Round trip.** Every well-levelled tree (without IR-only nodes) is the reading of its tokens. -/
theorem xwl_reads (x : X) (hw : XWL P x = true) (hn : noNnum x = true) : XReads P (flat x) x := by
  have := xround P U x hw hn 0 [] x [] (Nat.zero_le _) (fun _ => trivial) trivial (XLoop.stop trivial)
  simpa [XReads] using this

end

/-! #### Signed literals: `nnum s` is the IR's spelling of `neg (num s)` -/

mutual
def canon : X → X
  | .nnum s => .neg (.num s)
  | .paren e => .paren (canon e)
  | .neg e => .neg (canon e)
  | .notp e => .notp (canon e)
  | .bin k l r => .bin k (canon l) (canon r)
  | .ite cnd a b => .ite (canon cnd) (canon a) (canon b)
  | .call f args => .call f (canonL args)
  | e => e
def canonL : List X → List X
  | [] => []
  | e :: es => canon e :: canonL es
end

theorem xlvl_canon (P : XPrec) (x : X) : xlvl P (canon x) = xlvl P x := by
  cases x <;> simp [canon, xlvl]

mutual
theorem flat_canon (x : X) : flat (canon x) = flat x := by
  match x with
  | .num _ | .id _ | .nothing => simp [canon]
  | .nnum s => simp [canon, flat]
  | .paren e => simp [canon, flat, flat_canon e]
  | .neg e => simp [canon, flat, flat_canon e]
  | .notp e => simp [canon, flat, flat_canon e]
  | .bin k l r => simp [canon, flat, flat_canon l, flat_canon r]
  | .ite cnd a b => simp [canon, flat, flat_canon cnd, flat_canon a, flat_canon b]
  | .call f [] => simp [canon, canonL, flat]
  | .call f (a :: as) =>
    have := flatArgs_canonL (a :: as)
    simp only [canon, canonL] at this ⊢
    simp [flat, this]
theorem flatArgs_canonL (xs : List X) : flatArgs (canonL xs) = flatArgs xs := by
  match xs with
  | [] => simp [canonL]
  | [e] => simp [canonL, flatArgs, flat_canon e]
  | e :: e2 :: es =>
    have := flatArgs_canonL (e2 :: es)
    simp only [canonL] at this ⊢
    simp [flatArgs, flat_canon e, this]
end

mutual
theorem xwl_canon (P : XPrec) (x : X) : XWL P (canon x) = XWL P x := by
  match x with
  | .num _ | .id _ | .nothing => simp [canon]
  | .nnum s => simp [canon, XWL, xlvl]
  | .paren e => simp [canon, XWL, xwl_canon P e]
  | .neg e => simp [canon, XWL, xwl_canon P e, xlvl_canon]
  | .notp e => simp [canon, XWL, xwl_canon P e, xlvl_canon]
  | .bin k l r => simp [canon, XWL, xwl_canon P l, xwl_canon P r, xlvl_canon]
  | .ite cnd a b => simp [canon, XWL, xwl_canon P cnd, xwl_canon P a, xwl_canon P b]
  | .call f args => simp [canon, XWL, xwll_canonL P args]
theorem xwll_canonL (P : XPrec) (xs : List X) : XWLL P (canonL xs) = XWLL P xs := by
  match xs with
  | [] => simp [canonL]
  | e :: es => simp [canonL, XWLL, xwl_canon P e, xwll_canonL P es]
end

mutual
theorem noNnum_canon (x : X) : noNnum (canon x) = true := by
  match x with
  | .num _ | .id _ | .nothing => simp [canon, noNnum]
  | .nnum s => simp [canon, noNnum]
  | .paren e => simp [canon, noNnum, noNnum_canon e]
  | .neg e => simp [canon, noNnum, noNnum_canon e]
  | .notp e => simp [canon, noNnum, noNnum_canon e]
  | .bin k l r => simp [canon, noNnum, noNnum_canon l, noNnum_canon r]
  | .ite cnd a b => simp [canon, noNnum, noNnum_canon cnd, noNnum_canon a, noNnum_canon b]
  | .call f args => simp [canon, noNnum, noNnumL_canonL args]
theorem noNnumL_canonL (xs : List X) : noNnumL (canonL xs) = true := by
  match xs with
  | [] => simp [canonL, noNnumL]
  | e :: es => simp [canonL, noNnumL, noNnum_canon e, noNnumL_canonL es]
end

mutual
theorem canon_id (x : X) (h : noNnum x = true) : canon x = x := by
  match x, h with
  | .num _, _ | .id _, _ | .nothing, _ => simp [canon]
  | .nnum s, h => simp [noNnum] at h
  | .paren e, h => simp only [noNnum] at h; simp [canon, canon_id e h]
  | .neg e, h => simp only [noNnum] at h; simp [canon, canon_id e h]
  | .notp e, h => simp only [noNnum] at h; simp [canon, canon_id e h]
  | .bin k l r, h =>
    simp only [noNnum, Bool.and_eq_true] at h; simp [canon, canon_id l h.1, canon_id r h.2]
  | .ite cnd a b, h =>
    simp only [noNnum, Bool.and_eq_true] at h
    simp [canon, canon_id cnd h.1.1, canon_id a h.1.2, canon_id b h.2]
  | .call f args, h => simp only [noNnum] at h; simp [canon, canonL_id args h]
theorem canonL_id (xs : List X) (h : noNnumL xs = true) : canonL xs = xs := by
  match xs, h with
  | [], _ => simp [canonL]
  | e :: es, h =>
    simp only [noNnumL, Bool.and_eq_true] at h; simp [canonL, canon_id e h.1, canonL_id es h.2]
end

mutual
/-- the Python image does not see the difference -/
theorem trans_canon (c : Cfg) (P : XPrec) (init : Bool) (x : X) : trans c P init (canon x) = trans c P init x := by
  match x with
  | .num _ | .id _ | .nothing => simp [canon]
  | .nnum s => simp [canon, trans]
  | .paren e => simp [canon, trans, trans_canon c P init e]
  | .neg e => simp [canon, trans, trans_canon c P init e]
  | .notp e => simp [canon, trans, trans_canon c P init e]
  | .bin k l r => simp [canon, trans, trans_canon c P init l, trans_canon c P init r]
  | .ite cnd a b => simp [canon, trans, trans_canon c P init cnd, trans_canon c P init a, trans_canon c P init b]
  | .call f args =>
    simp [canon, trans, transL_canonL c P (initMode init f) args, canonL_length args]
theorem transL_canonL (c : Cfg) (P : XPrec) (init : Bool) (xs : List X) :
    transL c P init (canonL xs) = transL c P init xs := by
  match xs with
  | [] => simp [canonL]
  | e :: es => simp [canonL, transL, trans_canon c P init e, transL_canonL c P init es]
theorem canonL_length (xs : List X) : (canonL xs).length = xs.length := by
  match xs with
  | [] => simp [canonL]
  | e :: es => simp [canonL, canonL_length es]
end

/-- **The XMILE reading is unique.** Two well-levelled trees over the same token sequence are the
same tree (up to the spelling of signed literals). -/
theorem reading_unique (P : XPrec) (U : Unamb P) (x y : X) (hx : XWL P x = true) (hy : XWL P y = true)
    (h : flat x = flat y) : canon x = canon y := by
  have rx := xwl_reads P U (canon x) (by rw [xwl_canon]; exact hx) (noNnum_canon x)
  have ry := xwl_reads P U (canon y) (by rw [xwl_canon]; exact hy) (noNnum_canon y)
  rw [flat_canon] at rx ry
  rw [h] at rx
  exact xreads_unique P _ _ _ rx ry

theorem reading_unique' (P : XPrec) (U : Unamb P) (x y : X) (hx : XWL P x = true) (hy : XWL P y = true)
    (nx : noNnum x = true) (ny : noNnum y = true) (h : flat x = flat y) : x = y := by
  have := reading_unique P U x y hx hy h
  rwa [canon_id x nx, canon_id y ny] at this

#print axioms reading_unique

/-! #### The executable reader `xparse` only returns derivations of the reading relation -/

theorem xstops_default (P : XPrec) (m : Nat) (ts : List XTok) (h : ∀ k r, ts ≠ .op k :: r) : xstops P m ts := by
  cases ts with
  | nil => trivial
  | cons t r =>
    cases t <;> simp [xstops]
    rename_i k; exact absurd rfl (h k r)

theorem xparse_sound_aux (P : XPrec) : ∀ fuel : Nat,
    (∀ m ts e r, xparseExpr P fuel m ts = some (e, r) → XExpr P m ts e r) ∧
    (∀ m ts e r, xparsePre P fuel m ts = some (e, r) → XPre P m ts e r) ∧
    (∀ ts es r, xparseArgs P fuel ts = some (es, r) → es ≠ [] ∧ XArgs P ts es r) ∧
    (∀ m acc ts e r, xparseLoop P fuel m acc ts = some (e, r) → XLoop P m acc ts e r) := by
  intro fuel
  induction fuel with
  | zero =>
    refine ⟨?_, ?_, ?_, ?_⟩ <;> intros <;> simp_all [xparseExpr, xparsePre, xparseArgs, xparseLoop]
  | succ fuel ih =>
    obtain ⟨ihE, ihP, ihA, ihL⟩ := ih
    refine ⟨?_, ?_, ?_, ?_⟩
    · intro m ts e r h
      simp only [xparseExpr] at h
      split at h
      · rename_i l ts' hp
        exact XExpr.mk (ihP m ts l ts' hp) (ihL m l ts' e r h)
      · simp at h
    · intro m ts e r h
      simp only [xparsePre] at h
      split at h
      · -- unary minus
        split at h
        · rename_i hm
          split at h
          · rename_i e0 r0 he
            simp only [Option.some.injEq, Prod.mk.injEq] at h
            obtain ⟨rfl, rfl⟩ := h
            exact XPre.neg hm (ihE _ _ e0 r0 he)
          · simp at h
        · simp at h
      · simp only [Option.some.injEq, Prod.mk.injEq] at h
        obtain ⟨rfl, rfl⟩ := h
        exact XPre.num
      · simp only [Option.some.injEq, Prod.mk.injEq] at h
        obtain ⟨rfl, rfl⟩ := h
        exact XPre.id
      · -- parenthesis
        split at h
        · rename_i e0 r0 he
          simp only [Option.some.injEq, Prod.mk.injEq] at h
          obtain ⟨rfl, rfl⟩ := h
          exact XPre.paren (ihE 0 _ e0 _ he)
        · simp at h
      · -- NOT ( … )
        split at h
        · rename_i e0 r0 he
          simp only [Option.some.injEq, Prod.mk.injEq] at h
          obtain ⟨rfl, rfl⟩ := h
          exact XPre.notp (ihE 0 _ e0 _ he)
        · simp at h
      · -- IF
        split at h
        · rename_i hm
          subst hm
          split at h
          · rename_i cnd r1 hc
            split at h
            · rename_i a r2 ha
              split at h
              · rename_i b r3 hb
                simp only [Option.some.injEq, Prod.mk.injEq] at h
                obtain ⟨rfl, rfl⟩ := h
                exact XPre.ite (ihE 0 _ cnd _ hc) (ihE 0 _ a _ ha) (ihE 0 _ b _ hb)
              · simp at h
            · simp at h
          · simp at h
        · simp at h
      · -- call with arguments
        split at h
        · rename_i as r0 ha
          simp only [Option.some.injEq, Prod.mk.injEq] at h
          obtain ⟨rfl, rfl⟩ := h
          obtain ⟨hne, hA⟩ := ihA _ as r0 ha
          cases as with
          | nil => exact absurd rfl hne
          | cons a as => exact XPre.call hA
        · simp at h
      · -- parameterless function
        rename_i f r0 hnl
        simp only [Option.some.injEq, Prod.mk.injEq] at h
        obtain ⟨rfl, rfl⟩ := h
        apply XPre.call0
        cases r0 with
        | nil => trivial
        | cons t rest =>
          cases t <;> simp [noLp]
          exact hnl rest rfl
      · simp at h
    · intro ts es r h
      simp only [xparseArgs] at h
      split at h
      · rename_i e0 r0 he
        simp only [Option.some.injEq, Prod.mk.injEq] at h
        obtain ⟨rfl, rfl⟩ := h
        exact ⟨by simp, XArgs.last (ihE 0 _ e0 _ he)⟩
      · rename_i e0 r0 he
        split at h
        · rename_i es' r' ha
          simp only [Option.some.injEq, Prod.mk.injEq] at h
          obtain ⟨rfl, rfl⟩ := h
          exact ⟨by simp, XArgs.more (ihE 0 _ e0 _ he) (ihA _ es' r' ha).2⟩
        · simp at h
      · simp at h
    · intro m acc ts e r h
      simp only [xparseLoop] at h
      split at h
      · rename_i k ts'
        split at h
        · rename_i hb
          split at h
          · rename_i r0 ts'' he
            exact XLoop.step hb (ihE _ _ r0 ts'' he) (ihL _ _ _ e r h)
          · simp at h
        · rename_i hb
          simp only [Option.some.injEq, Prod.mk.injEq] at h
          obtain ⟨rfl, rfl⟩ := h
          exact XLoop.stop (by simp only [xstops]; omega)
      · rename_i h1
        simp only [Option.some.injEq, Prod.mk.injEq] at h
        obtain ⟨rfl, rfl⟩ := h
        exact XLoop.stop (xstops_default P m _ h1)

/-- **Soundness of the executable XMILE reader.** -/
theorem xparse_sound (P : XPrec) (ts : List XTok) (x : X) (h : xparse P ts = some x) : XReads P ts x := by
  unfold xparse at h
  split at h
  · rename_i e0 he
    simp only [Option.some.injEq] at h
    subst h
    exact (xparse_sound_aux P _).1 0 ts e0 [] he
  · simp at h

/-- the executable reader can only answer with THE reading: whenever some well-levelled tree prints
to `ts`, `xparse` returns that tree (signed literals in canonical spelling) or nothing -/
theorem xparse_the_reading (P : XPrec) (U : Unamb P) (ts : List XTok) (x y : X) (h : xparse P ts = some x)
    (hy : XWL P y = true) (hf : flat y = ts) : x = canon y := by
  have ry := xwl_reads P U (canon y) (by rw [xwl_canon]; exact hy) (noNnum_canon y)
  rw [flat_canon, hf] at ry
  exact xreads_unique P ts x (canon y) (xparse_sound P ts x h) ry

#print axioms xparse_sound
#print axioms xparse_the_reading

/-! #### Completeness of the executable reader: `xparse` decides the reading relation

Same technique and fuel bound as A1's `parse_complete`: a derivation over `n` tokens is found by `xparseExpr` with fuel
`2·n + 2`; `xparse` runs with `4·n + 8`.  Together with `xparse_sound` the function and the declarative relation coincide, so
the uniqueness of the reading is a theorem about the grammar relation (`xreads_unique`), not a by-product of the reader
being a function. -/

mutual
theorem xcompE {P : XPrec} {m ts e r} (h : XExpr P m ts e r) :
    r.length < ts.length ∧ ∀ f, 2 * ts.length + 2 ≤ f + 2 * r.length → xparseExpr P f m ts = some (e, r) := by
  match h with
  | .mk hp hl =>
    obtain ⟨l1, ihp⟩ := xcompP hp
    obtain ⟨l2, ihl⟩ := xcompL hl
    refine ⟨by omega, fun f hf => ?_⟩
    obtain ⟨f', rfl⟩ : ∃ f', f = f' + 1 := ⟨f - 1, by omega⟩
    simp only [xparseExpr, ihp f' (by omega)]
    exact ihl f' (by omega)
  termination_by structural h
theorem xcompL {P : XPrec} {m acc ts e r} (h : XLoop P m acc ts e r) :
    r.length ≤ ts.length ∧ ∀ f, 2 * ts.length + 1 ≤ f + 2 * r.length → xparseLoop P f m acc ts = some (e, r) := by
  match h with
  | .stop hs =>
    refine ⟨Nat.le_refl _, fun f hf => ?_⟩
    obtain ⟨f', rfl⟩ : ∃ f', f = f' + 1 := ⟨f - 1, by omega⟩
    cases ts with
    | nil => simp [xparseLoop]
    | cons t rest =>
      cases t <;> simp_all [xparseLoop, xstops]
      all_goals first | omega | (intro h0; omega)
  | .step hb he hl =>
    obtain ⟨l1, ihe⟩ := xcompE he
    obtain ⟨l2, ihl⟩ := xcompL hl
    simp only [List.length_cons] at *
    refine ⟨by omega, fun f hf => ?_⟩
    obtain ⟨f', rfl⟩ : ∃ f', f = f' + 1 := ⟨f - 1, by omega⟩
    simp only [xparseLoop, hb, if_true, ihe f' (by omega)]
    exact ihl f' (by omega)
  termination_by structural h
theorem xcompP {P : XPrec} {m ts e r} (h : XPre P m ts e r) :
    r.length < ts.length ∧ ∀ f, 2 * ts.length + 1 ≤ f + 2 * r.length → xparsePre P f m ts = some (e, r) := by
  match h with
  | .neg hm he =>
    obtain ⟨l1, ihe⟩ := xcompE he
    simp only [List.length_cons] at *
    refine ⟨by omega, fun f hf => ?_⟩
    obtain ⟨f', rfl⟩ : ∃ f', f = f' + 1 := ⟨f - 1, by omega⟩
    simp only [xparsePre, hm, if_true, ihe f' (by omega)]
  | .num =>
    simp only [List.length_cons]
    refine ⟨by omega, fun f hf => ?_⟩
    obtain ⟨f', rfl⟩ : ∃ f', f = f' + 1 := ⟨f - 1, by omega⟩
    simp only [xparsePre]
  | .id =>
    simp only [List.length_cons]
    refine ⟨by omega, fun f hf => ?_⟩
    obtain ⟨f', rfl⟩ : ∃ f', f = f' + 1 := ⟨f - 1, by omega⟩
    simp only [xparsePre]
  | .paren he =>
    obtain ⟨l1, ihe⟩ := xcompE he
    simp only [List.length_cons] at *
    refine ⟨by omega, fun f hf => ?_⟩
    obtain ⟨f', rfl⟩ : ∃ f', f = f' + 1 := ⟨f - 1, by omega⟩
    simp only [xparsePre, ihe f' (by omega)]
  | .notp he =>
    obtain ⟨l1, ihe⟩ := xcompE he
    simp only [List.length_cons] at *
    refine ⟨by omega, fun f hf => ?_⟩
    obtain ⟨f', rfl⟩ : ∃ f', f = f' + 1 := ⟨f - 1, by omega⟩
    simp only [xparsePre, ihe f' (by omega)]
  | .ite hc ha hb =>
    obtain ⟨l1, ihc⟩ := xcompE hc
    obtain ⟨l2, iha⟩ := xcompE ha
    obtain ⟨l3, ihb⟩ := xcompE hb
    simp only [List.length_cons] at *
    refine ⟨by omega, fun f hf => ?_⟩
    obtain ⟨f', rfl⟩ : ∃ f', f = f' + 1 := ⟨f - 1, by omega⟩
    simp only [xparsePre, if_true, ihc f' (by omega), iha f' (by omega), ihb f' (by omega)]
  | .call ha =>
    obtain ⟨l1, iha⟩ := xcompA ha
    simp only [List.length_cons] at *
    refine ⟨by omega, fun f hf => ?_⟩
    obtain ⟨f', rfl⟩ : ∃ f', f = f' + 1 := ⟨f - 1, by omega⟩
    simp only [xparsePre, iha f' (by omega)]
  | .call0 (ts := ts0) hn =>
    simp only [List.length_cons]
    refine ⟨by omega, fun f hf => ?_⟩
    obtain ⟨f', rfl⟩ : ∃ f', f = f' + 1 := ⟨f - 1, by omega⟩
    cases ts0 with
    | nil => simp [xparsePre]
    | cons t r0 => cases t <;> simp_all [xparsePre, noLp]
  termination_by structural h
theorem xcompA {P : XPrec} {ts es r} (h : XArgs P ts es r) :
    r.length < ts.length ∧ ∀ f, 2 * ts.length + 1 ≤ f + 2 * r.length → xparseArgs P f ts = some (es, r) := by
  match h with
  | .last he =>
    obtain ⟨l1, ihe⟩ := xcompE he
    simp only [List.length_cons] at *
    refine ⟨by omega, fun f hf => ?_⟩
    obtain ⟨f', rfl⟩ : ∃ f', f = f' + 1 := ⟨f - 1, by omega⟩
    simp only [xparseArgs, ihe f' (by omega)]
  | .more he hr =>
    obtain ⟨l1, ihe⟩ := xcompE he
    obtain ⟨l2, ihr⟩ := xcompA hr
    simp only [List.length_cons] at *
    refine ⟨by omega, fun f hf => ?_⟩
    obtain ⟨f', rfl⟩ : ∃ f', f = f' + 1 := ⟨f - 1, by omega⟩
    simp only [xparseArgs, ihe f' (by omega), ihr f' (by omega)]
  termination_by structural h
end

/-- **Completeness of the executable XMILE reader.** -/
theorem xparse_complete (P : XPrec) (ts : List XTok) (x : X) (h : XReads P ts x) : xparse P ts = some x := by
  unfold xparse
  rw [(xcompE h).2 (4 * ts.length + 8) (by simp; omega)]

/-- the executable reader decides the declarative reading relation -/
theorem xparse_iff (P : XPrec) (ts : List XTok) (x : X) : xparse P ts = some x ↔ XReads P ts x :=
  ⟨xparse_sound P ts x, xparse_complete P ts x⟩

/-- hence: on the tokens of ANY well-levelled tree the reader succeeds and returns that tree -/
theorem xparse_flat (P : XPrec) (U : Unamb P) (x : X) (hw : XWL P x = true) : xparse P (flat x) = some (canon x) := by
  have r := xwl_reads P U (canon x) (by rw [xwl_canon]; exact hw) (noNnum_canon x)
  rw [flat_canon] at r
  exact xparse_complete P _ _ r

#print axioms xparse_complete
#print axioms xparse_flat

/-! ### The token sequence determines the emitted text

`flat ir = flat x → gen ir = gen x` for trees whose IFs stand in sentence positions: the generator is
a function of the token sequence alone (bare infix operators, templates at the bracket structure), so
the right-nested IR of the PEG and the precedence-nested reading emit the same text.  Technique as for
`parses_unique`: a deterministic token-level relation `GSent` that both trees satisfy. -/

def closes : List XTok → Prop
  | [] => True
  | .rp :: _ => True
  | .comma :: _ => True
  | .kthen :: _ => True
  | .kelse :: _ => True
  | _ => False

theorem noLp_of_closes {ts : List XTok} (h : closes ts) : noLp ts := by
  cases ts with
  | nil => trivial
  | cons t r => cases t <;> simp_all [closes, noLp]

mutual
/-- text of a sentence: an IF extends to the end of its bracket context -/
inductive GSent (c : Cfg) (P : XPrec) : Bool → List XTok → List Tok → List XTok → Prop
  | ite {init ts gc t1 ga t2 gb r} : GSent c P init ts gc (.kthen :: t1) → GSent c P init t1 ga (.kelse :: t2) →
      GSent c P init t2 gb r →
      GSent c P init (.kif :: ts) (substToks (sel3 gc ga gb) (fnToks c "if" 3)) r
  | seq {init ts g r} : GSeq c P init ts g r → GSent c P init ts g r
/-- text of a run of operands and operators up to the next closing token -/
inductive GSeq (c : Cfg) (P : XPrec) : Bool → List XTok → List Tok → List XTok → Prop
  | stop {init ts} : closes ts → GSeq c P init ts [] ts
  | num {init s ts g r} : GSeq c P init ts g r → GSeq c P init (.num s :: ts) (.num s :: g) r
  | id {init s ts g r} : GSeq c P init ts g r → GSeq c P init (.id s :: ts) (idToks s init ++ g) r
  | op {init k ts g r} : GSeq c P init ts g r → GSeq c P init (.op k :: ts) (.op (P.img k) :: g) r
  | paren {init ts g1 t1 g r} : GSent c P init ts g1 (.rp :: t1) → GSeq c P init t1 g r →
      GSeq c P init (.lp :: ts) (substToks (fun _ => g1) (fnToks c "()" 1) ++ g) r
  | notp {init ts g1 t1 g r} : GSent c P init ts g1 (.rp :: t1) → GSeq c P init t1 g r →
      GSeq c P init (.knot :: .lp :: ts) (substToks (fun _ => g1) c.notT.toks ++ g) r
  | call {init f ts gs t1 g r} : GArgs c P (initMode init f) ts gs t1 → GSeq c P init t1 g r →
      GSeq c P init (.fn f :: .lp :: ts) (substToks (nthD [.name "MISSING"] gs) (fnToks c f gs.length) ++ g) r
  | call0 {init f ts g r} : noLp ts → GSeq c P init ts g r →
      GSeq c P init (.fn f :: ts) (substToks (nthD [.name "MISSING"] []) (fnToks c f 0) ++ g) r
inductive GArgs (c : Cfg) (P : XPrec) : Bool → List XTok → List (List Tok) → List XTok → Prop
  | last {init ts g t1} : GSent c P init ts g (.rp :: t1) → GArgs c P init ts [g] t1
  | more {init ts g t1 gs t2} : GSent c P init ts g (.comma :: t1) → GArgs c P init t1 gs t2 →
      GArgs c P init ts (g :: gs) t2
end

mutual
theorem gdetS {c : Cfg} {P : XPrec} {init ts g r g' r'} (h1 : GSent c P init ts g r)
    (h2 : GSent c P init ts g' r') : g = g' ∧ r = r' := by
  match h1 with
  | .ite hc ha hb =>
    cases h2 with
    | ite hc' ha' hb' =>
      obtain ⟨rfl, h⟩ := gdetS hc hc'
      simp only [List.cons.injEq, true_and] at h
      subst h
      obtain ⟨rfl, h⟩ := gdetS ha ha'
      simp only [List.cons.injEq, true_and] at h
      subst h
      obtain ⟨rfl, rfl⟩ := gdetS hb hb'
      exact ⟨rfl, rfl⟩
    | seq hq => cases hq with | stop hc => simp [closes] at hc
  | .seq hq =>
    cases h2 with
    | ite _ _ _ => cases hq with | stop hc => simp [closes] at hc
    | seq hq' => exact gdetQ hq hq'
  termination_by structural h1
theorem gdetQ {c : Cfg} {P : XPrec} {init ts g r g' r'} (h1 : GSeq c P init ts g r)
    (h2 : GSeq c P init ts g' r') : g = g' ∧ r = r' := by
  match h1 with
  | .stop hc =>
    cases h2 with
    | stop _ => exact ⟨rfl, rfl⟩
    | num _ => simp [closes] at hc
    | id _ => simp [closes] at hc
    | op _ => simp [closes] at hc
    | paren _ _ => simp [closes] at hc
    | notp _ _ => simp [closes] at hc
    | call _ _ => simp [closes] at hc
    | call0 _ _ => simp [closes] at hc
  | .num hq =>
    cases h2 with
    | stop hc => simp [closes] at hc
    | num hq' => obtain ⟨rfl, rfl⟩ := gdetQ hq hq'; exact ⟨rfl, rfl⟩
  | .id hq =>
    cases h2 with
    | stop hc => simp [closes] at hc
    | id hq' => obtain ⟨rfl, rfl⟩ := gdetQ hq hq'; exact ⟨rfl, rfl⟩
  | .op hq =>
    cases h2 with
    | stop hc => simp [closes] at hc
    | op hq' => obtain ⟨rfl, rfl⟩ := gdetQ hq hq'; exact ⟨rfl, rfl⟩
  | .paren hs hq =>
    cases h2 with
    | stop hc => simp [closes] at hc
    | paren hs' hq' =>
      obtain ⟨rfl, h⟩ := gdetS hs hs'
      simp only [List.cons.injEq, true_and] at h
      subst h
      obtain ⟨rfl, rfl⟩ := gdetQ hq hq'
      exact ⟨rfl, rfl⟩
  | .notp hs hq =>
    cases h2 with
    | stop hc => simp [closes] at hc
    | notp hs' hq' =>
      obtain ⟨rfl, h⟩ := gdetS hs hs'
      simp only [List.cons.injEq, true_and] at h
      subst h
      obtain ⟨rfl, rfl⟩ := gdetQ hq hq'
      exact ⟨rfl, rfl⟩
  | .call ha hq =>
    cases h2 with
    | stop hc => simp [closes] at hc
    | call ha' hq' =>
      obtain ⟨rfl, rfl⟩ := gdetA ha ha'
      obtain ⟨rfl, rfl⟩ := gdetQ hq hq'
      exact ⟨rfl, rfl⟩
    | call0 hn _ => simp [noLp] at hn
  | .call0 hn hq =>
    cases h2 with
    | stop hc => simp [closes] at hc
    | call _ _ => simp [noLp] at hn
    | call0 _ hq' => obtain ⟨rfl, rfl⟩ := gdetQ hq hq'; exact ⟨rfl, rfl⟩
  termination_by structural h1
theorem gdetA {c : Cfg} {P : XPrec} {init ts gs r gs' r'} (h1 : GArgs c P init ts gs r)
    (h2 : GArgs c P init ts gs' r') : gs = gs' ∧ r = r' := by
  match h1 with
  | .last hs =>
    cases h2 with
    | last hs' =>
      obtain ⟨rfl, h⟩ := gdetS hs hs'
      simp only [List.cons.injEq, true_and] at h
      exact ⟨rfl, h⟩
    | more hs' _ => obtain ⟨_, h⟩ := gdetS hs hs'; simp at h
  | .more hs ha =>
    cases h2 with
    | last hs' => obtain ⟨_, h⟩ := gdetS hs hs'; simp at h
    | more hs' ha' =>
      obtain ⟨rfl, h⟩ := gdetS hs hs'
      simp only [List.cons.injEq, true_and] at h
      subst h
      obtain ⟨rfl, rfl⟩ := gdetA ha ha'
      exact ⟨rfl, rfl⟩
  termination_by structural h1
end

theorem genL_length (c : Cfg) (init : Bool) (xs : List X) : (genL c init xs).length = xs.length := by
  induction xs with
  | nil => simp [genL]
  | cons e es ih => simp [genL, ih]

theorem okAt_nonite (x : X) (h : ∀ cnd a b, x ≠ .ite cnd a b) : okAt true x = okAt false x := by
  cases x with
  | ite cnd a b => exact absurd rfl (h cnd a b)
  | _ => simp [okAt]

section
variable (c : Cfg) (P : XPrec) (hO : opOK c P = true) (hsub : P.img .sub = .sub)
include hO hsub

mutual
theorem gs_seq (x : X) (hok : okAt false x = true) (init : Bool) (rest : List XTok) (g : List Tok)
    (r : List XTok) (hl : noLp rest) (h : GSeq c P init rest g r) :
    GSeq c P init (flat x ++ rest) (gen c init x ++ g) r := by
  match x, hok with
  | .num s, _ => simpa [flat, gen] using GSeq.num h
  | .id s, _ => simpa [flat, gen] using GSeq.id h
  | .nnum s, _ =>
    have := GSeq.op (k := .sub) (GSeq.num (s := s) h)
    rw [hsub] at this
    simpa [flat, gen] using this
  | .nothing, _ => simpa [flat, gen] using h
  | .ite _ _ _, hok => simp [okAt] at hok
  | .paren e, hok =>
    simp only [okAt] at hok
    have h1 := gs_sent e hok init (.rp :: rest) trivial
    have := GSeq.paren h1 h
    simpa [flat, gen] using this
  | .notp e, hok =>
    simp only [okAt] at hok
    have h1 := gs_sent e hok init (.rp :: rest) trivial
    have := GSeq.notp h1 h
    simpa [flat, gen] using this
  | .neg e, hok =>
    simp only [okAt] at hok
    have h1 := gs_seq e hok init rest g r hl h
    have := GSeq.op (k := .sub) h1
    have ho := opOK_op c P hO .sub
    simp only [flat, gen, ho, substToks, sel2, List.nil_append, List.append_nil, List.cons_append]
    simpa using this
  | .bin k l rr, hok =>
    simp only [okAt, Bool.and_eq_true] at hok
    have h2 := gs_seq rr hok.2 init rest g r hl h
    have h1 := gs_seq l hok.1 init (.op k :: (flat rr ++ rest)) (.op (P.img k) :: (gen c init rr ++ g)) r trivial
      (GSeq.op h2)
    have ho := opOK_op c P hO k
    simp only [flat, gen, ho, substToks, sel2, List.append_nil, List.append_assoc, List.cons_append]
    simpa using h1
  | .call f [], _ =>
    have := GSeq.call0 (f := f) hl h
    simpa [flat, gen, genL] using this
  | .call f (a :: as), hok =>
    simp only [okAt] at hok
    have ha := gs_args (a :: as) hok (by simp) (initMode init f) rest
    have := GSeq.call ha h
    rw [genL_length] at this
    simpa [flat, gen] using this
theorem gs_sent (x : X) (hok : okAt true x = true) (init : Bool) (rest : List XTok) (hc : closes rest) :
    GSent c P init (flat x ++ rest) (gen c init x) rest := by
  match x, hok with
  | .ite cnd a b, hok =>
    simp only [okAt, Bool.true_and, Bool.and_eq_true] at hok
    have h3 := gs_sent b hok.2 init rest hc
    have h2 := gs_sent a hok.1.2 init (.kelse :: (flat b ++ rest)) trivial
    have h1 := gs_sent cnd hok.1.1 init (.kthen :: (flat a ++ .kelse :: (flat b ++ rest))) trivial
    have := GSent.ite h1 h2 h3
    simpa [flat, gen] using this
  | .num s, hok =>
    have := gs_seq (.num s) (by simp [okAt]) init rest [] rest (noLp_of_closes hc) (GSeq.stop hc)
    exact GSent.seq (by simpa using this)
  | .id s, hok =>
    have := gs_seq (.id s) (by simp [okAt]) init rest [] rest (noLp_of_closes hc) (GSeq.stop hc)
    exact GSent.seq (by simpa using this)
  | .nnum s, hok =>
    have := gs_seq (.nnum s) (by simp [okAt]) init rest [] rest (noLp_of_closes hc) (GSeq.stop hc)
    exact GSent.seq (by simpa using this)
  | .nothing, hok =>
    have := gs_seq .nothing (by simp [okAt]) init rest [] rest (noLp_of_closes hc) (GSeq.stop hc)
    exact GSent.seq (by simpa using this)
  | .paren e, hok =>
    have := gs_seq (.paren e) (by simpa [okAt] using hok) init rest [] rest (noLp_of_closes hc) (GSeq.stop hc)
    exact GSent.seq (by simpa using this)
  | .notp e, hok =>
    have := gs_seq (.notp e) (by simpa [okAt] using hok) init rest [] rest (noLp_of_closes hc) (GSeq.stop hc)
    exact GSent.seq (by simpa using this)
  | .neg e, hok =>
    have := gs_seq (.neg e) (by simpa [okAt] using hok) init rest [] rest (noLp_of_closes hc) (GSeq.stop hc)
    exact GSent.seq (by simpa using this)
  | .bin k l rr, hok =>
    have := gs_seq (.bin k l rr) (by simpa [okAt] using hok) init rest [] rest (noLp_of_closes hc) (GSeq.stop hc)
    exact GSent.seq (by simpa using this)
  | .call f args, hok =>
    have := gs_seq (.call f args) (by simpa [okAt] using hok) init rest [] rest (noLp_of_closes hc) (GSeq.stop hc)
    exact GSent.seq (by simpa using this)
theorem gs_args (xs : List X) (hok : okAtL xs = true) (hne : xs ≠ []) (init : Bool) (rest : List XTok) :
    GArgs c P init (flatArgs xs ++ .rp :: rest) (genL c init xs) rest := by
  match xs, hok, hne with
  | [], _, hne => exact absurd rfl hne
  | [e], hok, _ =>
    simp only [okAtL, Bool.and_eq_true] at hok
    have := gs_sent e hok.1 init (.rp :: rest) trivial
    simpa [flatArgs, genL] using GArgs.last this
  | e :: e2 :: es, hok, _ =>
    simp only [okAtL, Bool.and_eq_true] at hok
    have h2 := gs_args (e2 :: es) (by simp only [okAtL, Bool.and_eq_true]; exact hok.2) (by simp) init rest
    have h1 := gs_sent e hok.1 init (.comma :: (flatArgs (e2 :: es) ++ .rp :: rest)) trivial
    have := GArgs.more h1 h2
    simpa [flatArgs, genL] using this
end

/-- **The token sequence determines the text.** Two trees with the same tokens and IFs in sentence
positions are emitted as the same Python text — whatever their nesting. -/
theorem flat_gen (ir x : X) (hi : okAt true ir = true) (hx : okAt true x = true) (h : flat ir = flat x)
    (init : Bool) : gen c init ir = gen c init x := by
  have a := gs_sent c P hO hsub ir hi init [] trivial
  have b := gs_sent c P hO hsub x hx init [] trivial
  simp only [List.append_nil] at a b
  rw [h] at a
  exact (gdetS a b).1

end

theorem ldem_pos (k : BinOp) : Py.ldem k ≥ 1 := by cases k <;> simp [Py.ldem, Py.bp]

mutual
/-- a reading has its IFs in sentence positions only -/
theorem xwl_okAt (P : XPrec) (hP : precAgree P = true) (x : X) (hw : XWL P x = true) :
    okAt true x = true ∧ (xlvl P x ≥ 1 → okAt false x = true) := by
  match x, hw with
  | .num _, _ | .id _, _ | .nnum _, _ => simp [okAt]
  | .nothing, hw => simp [XWL] at hw
  | .paren e, hw =>
    simp only [XWL] at hw
    have := xwl_okAt P hP e hw
    simp [okAt, this.1]
  | .notp e, hw =>
    simp only [XWL, Bool.and_eq_true] at hw
    have := xwl_okAt P hP e hw.1
    simp [okAt, this.1]
  | .neg e, hw =>
    simp only [XWL, Bool.and_eq_true, decide_eq_true_eq] at hw
    have ih := xwl_okAt P hP e hw.1
    have hu := precAgree_un P hP
    have : okAt false e = true := ih.2 (by omega)
    simp [okAt, this]
  | .bin k l r, hw =>
    simp only [XWL, Bool.and_eq_true, decide_eq_true_eq] at hw
    have ihl := xwl_okAt P hP l hw.1.1.1
    have ihr := xwl_okAt P hP r hw.1.1.2
    have ha := precAgree_op P hP k
    have h1 := ldem_pos (P.img k)
    have h2 := (rbp_le (P.img k)).2
    have hl : okAt false l = true := ihl.2 (by omega)
    have hr : okAt false r = true := ihr.2 (by omega)
    simp [okAt, hl, hr]
  | .ite cnd a b, hw =>
    simp only [XWL, Bool.and_eq_true] at hw
    have i1 := xwl_okAt P hP cnd hw.1.1
    have i2 := xwl_okAt P hP a hw.1.2
    have i3 := xwl_okAt P hP b hw.2
    simp [okAt, i1.1, i2.1, i3.1, xlvl]
  | .call f args, hw =>
    simp only [XWL] at hw
    have := xwll_okAtL P hP args hw
    simp [okAt, this]
theorem xwll_okAtL (P : XPrec) (hP : precAgree P = true) (xs : List X) (hw : XWLL P xs = true) :
    okAtL xs = true := by
  match xs, hw with
  | [], _ => simp [okAtL]
  | e :: es, hw =>
    simp only [XWLL, Bool.and_eq_true] at hw
    simp [okAtL, (xwl_okAt P hP e hw.1).1, xwll_okAtL P hP es hw.2]
end

/-- the text comparison of `validate` is implied by the token comparison plus `okAt` of the IR -/
theorem validate_of_flat (c : Cfg) (P : XPrec) (hP : precAgree P = true) (hO : opOK c P = true)
    (ts : List XTok) (ir x : X) (h : validateFlat P ts ir = some x) : validate c P ts ir = some x := by
  unfold validateFlat at h
  unfold validate
  split at h
  · rename_i x0 hx0
    split at h
    · rename_i hc
      simp only [Bool.and_eq_true, decide_eq_true_eq] at hc
      simp only [Option.some.injEq] at h
      subst h
      obtain ⟨⟨⟨hf, hw⟩, hfi⟩, hok⟩ := hc
      have hg := flat_gen c P hO (precAgree_un P hP).1 ir x0 hok (xwl_okAt P hP x0 hw).1 (by rw [hfi, hf]) false
      simp [hf, hw, hfi, hg]
    · cases h
  · cases h

#print axioms flat_gen
#print axioms validate_of_flat

/-! ### The delay / smooth helper equals its definition on the time grid -/

/-- facts about the grid (labels `label 0 … label N`) that hold for `grid_time` whatever the helper does
with it: labels are fixed points, `t - dt` from a label snaps to the previous label, only the first
label passes the start test -/
structure HAdm {T : Type} (ht : HTime T) (label : Nat → T) (N : Nat) : Prop where
  gnorm_label : ∀ k, k ≤ N → ht.gnorm (label k) = label k
  gnorm_prev : ∀ k, k + 1 ≤ N → ht.gnorm (ht.prev (label (k + 1))) = label k
  start0 : ht.isStart (label 0) = true
  startS : ∀ k, k + 1 ≤ N → ht.isStart (label (k + 1)) = false

theorem smthH_congr {T α : Type} (nrm : T → T) (ht : HTime T) (A : HArith α) (inp init : T → α)
    (fuel y : Nat) (a b : T) (h : nrm a = nrm b) :
    smthH nrm ht A inp init fuel y a = smthH nrm ht A inp init fuel y b := by
  cases fuel with
  | zero => simp [smthH]
  | succ f => simp only [smthH, h]

/-- **Helper = cascade.** When `mem` normalises its time argument, the helper's recursion on `t - dt`
returns, at every grid point and for every stage, exactly the cascade value — in any arithmetic. -/
theorem smth_eq_cascade {T α : Type} (ht : HTime T) (A : HArith α) (inp init : T → α) (label : Nat → T)
    (N : Nat) (hA : HAdm ht label N) (k : Nat) (hk : k ≤ N) (y fuel : Nat) (hf : k < fuel) :
    smthH ht.gnorm ht A inp init fuel y (label k)
      = some (cascade A (fun j => inp (label j)) (init (label 0)) k y) := by
  induction k generalizing y fuel with
  | zero =>
    cases fuel with
    | zero => omega
    | succ f => simp [smthH, hA.gnorm_label 0 hk, hA.start0, cascade]
  | succ k ih =>
    cases fuel with
    | zero => omega
    | succ f =>
      have hk' : k ≤ N := by omega
      have hp := hA.gnorm_prev k hk
      have hl := hA.gnorm_label k hk'
      have e1 : ∀ y', smthH ht.gnorm ht A inp init f y' (ht.prev (label (k + 1)))
          = some (cascade A (fun j => inp (label j)) (init (label 0)) k y') := by
        intro y'
        rw [smthH_congr ht.gnorm ht A inp init f y' _ (label k) (by rw [hp, hl])]
        exact ih hk' y' f (by omega)
      have e2 : ∀ y', smthH ht.gnorm ht A inp init f y' (label k)
          = some (cascade A (fun j => inp (label j)) (init (label 0)) k y') :=
        fun y' => ih hk' y' f (by omega)
      cases y with
      | zero => simp [smthH, hA.gnorm_label (k + 1) hk, hA.startS k hk, hp, e1, e2, cascade]
      | succ y' => simp [smthH, hA.gnorm_label (k + 1) hk, hA.startS k hk, hp, e1, e2, cascade]

/-! #### Negation witness: raw float keys, dt = 0.1 -/

def hwLabel (k : Nat) : Float := [0.0, 0.1, 0.2, 0.3, 0.4].getD k 0.4

/-- nearest grid point (what `grid_time` returns for dt = 0.1 on this range) -/
def hwGnorm (t : Float) : Float :=
  if t < 0.05 then 0.0 else if t < 0.15 then 0.1 else if t < 0.25 then 0.2 else if t < 0.35 then 0.3 else 0.4

def hwTime : HTime Float := { prev := fun t => t - 0.1, gnorm := hwGnorm, isStart := fun t => t <= 0.0 }

/-- counting arithmetic: every stage adds 1 per step, so the value is the number of steps taken -/
def hwArith : HArith Int := { add := fun a b => a + b, sub := fun _ _ => 1, mulDt := id, divTau := id }

theorem hw_adm : HAdm hwTime hwLabel 4 := by
  refine ⟨?_, ?_, by decide +kernel, ?_⟩
  · intro k hk
    have : k = 0 ∨ k = 1 ∨ k = 2 ∨ k = 3 ∨ k = 4 := by omega
    rcases this with rfl | rfl | rfl | rfl | rfl <;> decide +kernel
  · intro k hk
    have : k = 0 ∨ k = 1 ∨ k = 2 ∨ k = 3 := by omega
    rcases this with rfl | rfl | rfl | rfl <;> decide +kernel
  · intro k hk
    have : k = 0 ∨ k = 1 ∨ k = 2 ∨ k = 3 := by omega
    rcases this with rfl | rfl | rfl | rfl <;> decide +kernel

/-- on doubles, `0.4 - 0.1 - 0.1 - 0.1 - 0.1` is still above the start time: with raw keys the helper
takes five steps to t = 0.4, the cascade four -/
theorem helper_drift_witness :
    smthH id hwTime hwArith (fun _ => 0) (fun _ => 0) 40 0 (hwLabel 4) = some 5 ∧
    cascade hwArith (fun _ => 0) 0 4 0 = 4 := by decide +kernel

#print axioms smth_eq_cascade
#print axioms helper_drift_witness

/-! ### Values: carrier-generic reference semantics of an equation tree -/

variable {α : Type}

mutual
/-- XMILE reference semantics with uninterpreted operations: operators by their meaning, a variable
is its (opaque) value at the current time — at the start time inside INIT —, a builtin is its shape
evaluated on the VALUES of its arguments (each argument a unit). -/
def xeval (C : Carrier α) (c : Cfg) (P : XPrec) (init : Bool) : X → α
  | .num s => C.num s
  | .nothing => C.name "NOTHING"
  | .nnum s => C.neg (C.num s)
  | .id s => eval C (fun _ => C.name "MISSING") (idPy s init)
  | .paren e => xeval C c P init e
  | .neg e => C.neg (xeval C c P init e)
  | .notp e => C.not (xeval C c P init e)
  | .bin k l r => C.bin (P.img k) (xeval C c P init l) (xeval C c P init r)
  | .ite cnd a b => C.ite (xeval C c P init a) (xeval C c P init cnd) (xeval C c P init b)
  | .call f args =>
    eval C (nthD (C.name "MISSING") (xevalL C c P (initMode init f) args)) (fnShape c f args.length)
def xevalL (C : Carrier α) (c : Cfg) (P : XPrec) (init : Bool) : List X → List α
  | [] => []
  | e :: es => xeval C c P init e :: xevalL C c P init es
end

/-- the three structural templates denote what they should: `()` is transparent, `if` is the
conditional with (then, condition, else) = (arg 1, arg 0, arg 2), `not` is negation -/
def shapesOK (c : Cfg) : Bool :=
  (match findFn c "()" 1 with
   | some t => beqPy (erase (shapeOf t)) (.hole 0)
   | none => false) &&
  (match findFn c "if" 3 with
   | some t => beqPy (erase (shapeOf t)) (.ite (.hole 1) (.hole 0) (.hole 2))
   | none => false) &&
  beqPy (erase (shapeOf c.notT)) (.not (.hole 0))

theorem eval_paren_shape (c : Cfg) (hS : shapesOK c = true) (C : Carrier α) (ρ : Nat → α) :
    eval C ρ (fnShape c "()" 1) = ρ 0 := by
  unfold shapesOK at hS
  simp only [Bool.and_eq_true] at hS
  have h := hS.1.1
  unfold fnShape
  cases hf : findFn c "()" 1 with
  | none => simp [hf] at h
  | some t =>
    simp only [hf] at h
    rw [← eval_erase, beqPy_eq _ _ h]
    simp [eval]

theorem eval_ite_shape (c : Cfg) (hS : shapesOK c = true) (C : Carrier α) (ρ : Nat → α) :
    eval C ρ (fnShape c "if" 3) = C.ite (ρ 1) (ρ 0) (ρ 2) := by
  unfold shapesOK at hS
  simp only [Bool.and_eq_true] at hS
  have h := hS.1.2
  unfold fnShape
  cases hf : findFn c "if" 3 with
  | none => simp [hf] at h
  | some t =>
    simp only [hf] at h
    rw [← eval_erase, beqPy_eq _ _ h]
    simp [eval]

theorem eval_not_shape (c : Cfg) (hS : shapesOK c = true) (C : Carrier α) (ρ : Nat → α) :
    eval C ρ (shapeOf c.notT) = C.not (ρ 0) := by
  unfold shapesOK at hS
  simp only [Bool.and_eq_true] at hS
  rw [← eval_erase, beqPy_eq _ _ hS.2]
  simp [eval]

mutual
/-- **Values.** In any arithmetic (every carrier with uninterpreted operations) the Python tree
denotes the XMILE reference value of the equation tree: same operation tree, same order. -/
theorem eval_trans (c : Cfg) (P : XPrec) (hS : shapesOK c = true) (C : Carrier α) (x : X) (init : Bool) :
    eval C (fun _ => C.name "MISSING") (trans c P init x) = xeval C c P init x := by
  match x with
  | .num s => simp [trans, xeval, eval]
  | .nothing => simp [trans, xeval, eval]
  | .nnum s => simp [trans, xeval, eval]
  | .id s => simp [trans, xeval]
  | .paren e =>
    simp only [trans, xeval, eval_subst, eval_paren_shape c hS]
    exact eval_trans c P hS C e init
  | .neg e => simp only [trans, xeval, eval]; rw [eval_trans c P hS C e init]
  | .notp e =>
    simp only [trans, xeval, eval_subst, eval_not_shape c hS]
    rw [eval_trans c P hS C e init]
  | .bin k l r =>
    simp only [trans, xeval, eval]
    rw [eval_trans c P hS C l init, eval_trans c P hS C r init]
  | .ite cnd a b =>
    simp only [trans, xeval, eval_subst, eval_ite_shape c hS, sel3]
    rw [eval_trans c P hS C cnd init, eval_trans c P hS C a init, eval_trans c P hS C b init]
  | .call f args =>
    simp only [trans, xeval, eval_subst]
    congr 1
    funext i
    rw [nthD_map_eval, evalL_transL c P hS C args (initMode init f)]
theorem evalL_transL (c : Cfg) (P : XPrec) (hS : shapesOK c = true) (C : Carrier α) (xs : List X)
    (init : Bool) :
    evalL C (fun _ => C.name "MISSING") (transL c P init xs) = xevalL C c P init xs := by
  match xs with
  | [] => simp [transL, evalL, xevalL]
  | e :: es =>
    simp only [transL, evalL, xevalL]
    rw [eval_trans c P hS C e init, evalL_transL c P hS C es init]
end


/-! ### The literal-sign fact: `-n ^ e`

The PEG reads a `-` directly before a number as part of the literal, so the IR of `-n ^ e` is `^(-n, e)`; XMILE's table
puts `^` above unary minus, so the reading is `-(n ^ e)`.  The generator prints the IR flat — `-n ** e` — and CPython reads
that text as `-(n ** e)` as well: the flat rendering is right although the IR is not the reading.  Printing the literal as
`(-n)` (seeded defect `C03r3-negative-literal-parens`) makes the text denote `(-n) ** e`. -/

/-- integers with `**`, for the value witnesses: `"2.0"` is 2 -/
def signCarrier : Carrier Int where
  num s := if s = "2.0" then 2 else 0
  name _ := 0
  str _ := 0
  neg a := -a
  not _ := 0
  bin k a b := match k with
    | .pow => a ^ b.toNat
    | _ => 0
  ite a _ _ := a
  attr a _ := a
  call a _ := a
  index a _ := a
  list _ := 0
  kw _ a := a

section
variable (c : Cfg) (hO : opOK c xmilePrec = true) (n e : String)
include hO

/-- **`-n ^ e`, all n and e.** (1) the token sequence `- n ^ e` has exactly one XMILE reading, `-(n ^ e)`, and the executable
reader returns it; (2) the IR the PEG builds, `^(-n, e)`, has the same tokens but is NOT well-levelled (a signed literal is an
operand of unary-minus level, `^` demands a primary base); (3) the generator prints that IR flat, `-n ** e`, which CPython
parses — uniquely — to `-(n ** e)`, the image of the reading; (4) so in every arithmetic the emitted text has the XMILE value
`neg (pow n e)`. -/
theorem signed_base_pow (init : Bool) :
    let ts : List XTok := [.op .sub, .num n, .op .pow, .num e]
    let ir : X := .bin .pow (.nnum n) (.num e)
    let x : X := .neg (.bin .pow (.num n) (.num e))
    (XReads xmilePrec ts x ∧ (∀ y, XReads xmilePrec ts y → y = x) ∧ xparse xmilePrec ts = some x) ∧
    (flat ir = ts ∧ XWL xmilePrec ir = false ∧ XWL xmilePrec x = true) ∧
    (gen c init ir = [Tok.op .sub, Tok.num n, Tok.op .pow, Tok.num e] ∧
      Parses (gen c init ir) (trans c xmilePrec init x) ∧
      (∀ p, Parses (gen c init ir) p → p = .neg (.bin .pow (.num n) (.num e)))) ∧
    (∀ (α : Type) (C : Carrier α) (ρ : Nat → α) (p : Py), parse (gen c init ir) = some p →
      eval C ρ p = C.neg (C.bin .pow (C.num n) (C.num e))) := by
  intro ts ir x
  have hx : XWL xmilePrec x = true := by simp [x, XWL, xlvl, xmilePrec]
  have hr : XReads xmilePrec ts x := by
    have := xwl_reads xmilePrec xmile_unamb x hx (by simp [x, noNnum])
    simpa [x, flat, ts] using this
  have hg : gen c init ir = [Tok.op .sub, Tok.num n, Tok.op .pow, Tok.num e] := by
    have ho := opOK_op c xmilePrec hO .pow
    simp [ir, gen, ho, substToks, sel2, xmilePrec]
  have hp : Parses [Tok.op .sub, Tok.num n, Tok.op .pow, Tok.num e] (.neg (.bin .pow (.num n) (.num e))) := by
    have hw : WLb 0 (Py.neg (Py.bin .pow (Py.num n) (Py.num e))) = true := by
      simp [WLb, lvlH, lvl, Py.ldem, Py.rbp, Py.bp]
    have := parse_print (Py.neg (Py.bin .pow (Py.num n) (Py.num e))) hw
    simpa [pr] using this
  refine ⟨⟨hr, fun y hy => xreads_unique xmilePrec ts y x hy hr, xparse_complete xmilePrec ts x hr⟩,
    ⟨by simp [ir, flat, ts], by simp [ir, XWL, xlvl, xmilePrec], hx⟩, ⟨hg, ?_, ?_⟩, ?_⟩
  · rw [hg]; simpa [x, trans, xmilePrec] using hp
  · intro p hpp; rw [hg] at hpp; exact parses_unique _ _ _ hpp hp
  · intro α C ρ p hpp
    rw [hg] at hpp
    have := parses_unique _ _ _ (parse_sound _ _ hpp) hp
    subst this
    simp [eval]

end

/-- **the other way: `(-n) ** e` is wrong.** The text with the literal in parentheses parses — uniquely — to `(-n) ** e`, whose
value is `pow (neg n) e`; on the integers with n = e = 2 the flat text gives −4 (the XMILE value of `-2 ^ 2`) and the
parenthesised text gives +4. -/
theorem signed_base_pow_paren_wrong (n e : String) :
    let bad : List Tok := [Tok.lp, Tok.op .sub, Tok.num n, Tok.rp, Tok.op .pow, Tok.num e]
    Parses bad (.bin .pow (.paren (.neg (.num n))) (.num e)) ∧
    (∀ p, Parses bad p → p = .bin .pow (.paren (.neg (.num n))) (.num e)) ∧
    (∀ (α : Type) (C : Carrier α) (ρ : Nat → α) (p : Py), parse bad = some p →
      eval C ρ p = C.bin .pow (C.neg (C.num n)) (C.num e)) ∧
    eval signCarrier (fun _ => 0) (.neg (.bin .pow (.num "2.0") (.num "2.0"))) = -4 ∧
    eval signCarrier (fun _ => 0) (.bin .pow (.paren (.neg (.num "2.0"))) (.num "2.0")) = 4 := by
  intro bad
  have hp : Parses bad (.bin .pow (.paren (.neg (.num n))) (.num e)) := by
    have hw : WLb 0 (Py.bin .pow (Py.paren (Py.neg (Py.num n))) (Py.num e)) = true := by
      simp [WLb, lvlH, lvl, Py.ldem, Py.rbp, Py.bp]
    have := parse_print (Py.bin .pow (Py.paren (Py.neg (Py.num n))) (Py.num e)) hw
    simpa [pr, bad] using this
  refine ⟨hp, fun p hpp => parses_unique _ _ _ hpp hp, ?_, by decide, by decide⟩
  intro α C ρ p hpp
  have := parses_unique _ _ _ (parse_sound _ _ hpp) hp
  subst this
  simp [eval]

#print axioms signed_base_pow
#print axioms signed_base_pow_paren_wrong


/-! ### Modules: an unqualified identifier in model M denotes M's variable -/

theorem isQual_resolved (m s : String) (hm : m ≠ "") (hr : isRootRef s = false) : isQual (resolveName m s) = true := by
  unfold resolveName
  by_cases h : isQual s = true
  · simp [h, hr]
  · have h' : ¬ ('.' ∈ s.toList) := by simpa [isQual] using h
    simp [isQual, h', hm, hr]

theorem isRootRef_resolved (m s : String) (hm : m ≠ "") (hm' : isRootRef m = false) (hr : isRootRef s = false) :
    isRootRef (resolveName m s) = false := by
  unfold resolveName
  by_cases h : isQual s = true
  · simp [h, hr]
  · simp only [hr, h, hm, Bool.false_eq_true, if_false, Bool.or_false]
    have hne : m.toList ≠ [] := by
      intro h0
      apply hm
      have : m = String.ofList m.toList := by simp
      rw [this, h0]
    cases hml : m.toList with
    | nil => exact absurd hml hne
    | cons c cs =>
      simp only [isRootRef, hml, List.head?] at hm'
      simp [isRootRef, String.toList_append, hml, hm']

theorem xlvl_makeAbs (P : XPrec) (m : String) (x : X) : xlvl P (makeAbs m x) = xlvl P x := by
  cases x <;> simp [makeAbs, xlvl]

/-- the reference generated for an identifier of an equation in model `m`: a leading-period name is the ROOT model's
variable whatever `m` is; other qualified names as written; unqualified ones `self.memoize('<m>.<name>', t)` — the variable of
THAT model (root: the bare name) -/
theorem gen_makeAbs_id (c : Cfg) (m s : String) (init : Bool) :
    gen c init (makeAbs m (.id s)) = idToks (resolveName m s) init ∧
    (isRootRef s = true → resolveName m s = String.ofList (s.toList.drop 1)) ∧
    (isRootRef s = false → isQual s = false → m ≠ "" → resolveName m s = m ++ "." ++ s) ∧
    (isRootRef s = false → isQual s = true → resolveName m s = s) ∧
    (isRootRef s = false → resolveName "" s = s) := by
  refine ⟨by simp [makeAbs, gen], ?_, ?_, ?_, ?_⟩
  · intro h; simp [resolveName, h]
  · intro hr h hm; simp [resolveName, hr, h, hm]
  · intro hr h; simp [resolveName, hr, h]
  · intro hr; simp [resolveName, hr]

/-- no identifier of the tree is a root reference (`.name`) -/
def noRootRef (x : X) : Bool := (ids x).all (fun s => !isRootRef s)
def noRootRefL (xs : List X) : Bool := (idsL xs).all (fun s => !isRootRef s)

mutual
/-- resolution touches the identifiers only, each one by `resolveName`, in place -/
theorem ids_makeAbs (m : String) (x : X) : ids (makeAbs m x) = (ids x).map (resolveName m) := by
  match x with
  | .num _ | .nnum _ | .nothing => simp [makeAbs, ids]
  | .id s => simp [makeAbs, ids]
  | .paren e => simp [makeAbs, ids, ids_makeAbs m e]
  | .neg e => simp [makeAbs, ids, ids_makeAbs m e]
  | .notp e => simp [makeAbs, ids, ids_makeAbs m e]
  | .bin k l r => simp [makeAbs, ids, ids_makeAbs m l, ids_makeAbs m r]
  | .ite cnd a b => simp [makeAbs, ids, ids_makeAbs m cnd, ids_makeAbs m a, ids_makeAbs m b]
  | .call f args => simp [makeAbs, ids, idsL_makeAbsL m args]
theorem idsL_makeAbsL (m : String) (xs : List X) : idsL (makeAbsL m xs) = (idsL xs).map (resolveName m) := by
  match xs with
  | [] => simp [makeAbsL, idsL]
  | e :: es => simp [makeAbsL, idsL, ids_makeAbs m e, idsL_makeAbsL m es]
end

mutual
/-- resolution does not change the token structure apart from the identifier names: same reading, same grouping -/
theorem xwl_makeAbs (P : XPrec) (m : String) (x : X) : XWL P (makeAbs m x) = XWL P x := by
  match x with
  | .num _ | .nnum _ | .nothing | .id _ => simp [makeAbs, XWL]
  | .paren e => simp [makeAbs, XWL, xwl_makeAbs P m e]
  | .neg e => simp [makeAbs, XWL, xwl_makeAbs P m e, xlvl_makeAbs]
  | .notp e => simp [makeAbs, XWL, xwl_makeAbs P m e, xlvl_makeAbs]
  | .bin k l r => simp [makeAbs, XWL, xwl_makeAbs P m l, xwl_makeAbs P m r, xlvl_makeAbs]
  | .ite cnd a b => simp [makeAbs, XWL, xwl_makeAbs P m cnd, xwl_makeAbs P m a, xwl_makeAbs P m b]
  | .call f args => simp [makeAbs, XWL, xwll_makeAbsL P m args]
theorem xwll_makeAbsL (P : XPrec) (m : String) (xs : List X) : XWLL P (makeAbsL m xs) = XWLL P xs := by
  match xs with
  | [] => simp [makeAbsL]
  | e :: es => simp [makeAbsL, XWLL, xwl_makeAbs P m e, xwll_makeAbsL P m es]
end

mutual
/-- the first prefix wins: a tree (without root references) that a named model has absolutised is not changed by any later
resolution -/
theorem makeAbs_first_wins (m1 m2 : String) (h1 : m1 ≠ "") (h1' : isRootRef m1 = false) (x : X) (hr : noRootRef x = true) :
    makeAbs m2 (makeAbs m1 x) = makeAbs m1 x := by
  match x, hr with
  | .num _, _ | .nnum _, _ | .nothing, _ => simp [makeAbs]
  | .id s, hr =>
    have hs : isRootRef s = false := by simpa [noRootRef, ids] using hr
    have hq := isQual_resolved m1 s h1 hs
    have hn := isRootRef_resolved m1 s h1 h1' hs
    have e : resolveName m2 (resolveName m1 s) = resolveName m1 s := by
      generalize resolveName m1 s = r at hq hn
      simp [resolveName, hq, hn]
    simp [makeAbs, e]
  | .paren e, hr => simp [makeAbs, makeAbs_first_wins m1 m2 h1 h1' e (by simpa [noRootRef, ids] using hr)]
  | .neg e, hr => simp [makeAbs, makeAbs_first_wins m1 m2 h1 h1' e (by simpa [noRootRef, ids] using hr)]
  | .notp e, hr => simp [makeAbs, makeAbs_first_wins m1 m2 h1 h1' e (by simpa [noRootRef, ids] using hr)]
  | .bin k l r, hr =>
    have h : noRootRef l = true ∧ noRootRef r = true := by
      simpa [noRootRef, ids, List.all_append] using hr
    simp [makeAbs, makeAbs_first_wins m1 m2 h1 h1' l h.1, makeAbs_first_wins m1 m2 h1 h1' r h.2]
  | .ite cnd a b, hr =>
    have h : noRootRef cnd = true ∧ noRootRef a = true ∧ noRootRef b = true := by
      simpa [noRootRef, ids, List.all_append] using hr
    simp [makeAbs, makeAbs_first_wins m1 m2 h1 h1' cnd h.1, makeAbs_first_wins m1 m2 h1 h1' a h.2.1,
      makeAbs_first_wins m1 m2 h1 h1' b h.2.2]
  | .call f args, hr =>
    simp [makeAbs, makeAbsL_first_wins m1 m2 h1 h1' args (by simpa [noRootRef, noRootRefL, ids] using hr)]
theorem makeAbsL_first_wins (m1 m2 : String) (h1 : m1 ≠ "") (h1' : isRootRef m1 = false) (xs : List X)
    (hr : noRootRefL xs = true) : makeAbsL m2 (makeAbsL m1 xs) = makeAbsL m1 xs := by
  match xs, hr with
  | [], _ => simp [makeAbsL]
  | e :: es, hr =>
    have h : noRootRef e = true ∧ noRootRefL es = true := by
      simpa [noRootRef, noRootRefL, idsL, List.all_append] using hr
    simp [makeAbsL, makeAbs_first_wins m1 m2 h1 h1' e h.1, makeAbsL_first_wins m1 m2 h1 h1' es h.2]
end

/-- **a leading period addresses the root model**, in every model: `.rate` in an equation of module `plantA` is the root's
`rate`, not `plantA.rate` (the behaviour before `fix: a name with a leading period …`) -/
theorem root_ref_witness :
    resolveName "plantA" ".rate" = "rate" ∧ resolveName "" ".rate" = "rate" ∧ resolveName "plantA" "rate" = "plantA.rate" ∧
    resolveName "plantA" "unitTwo.rate" = "unitTwo.rate" ∧
    ids (makeAbs "plantA" (.bin .add (.id ".rate") (.id "rate"))) = ["rate", "plantA.rate"] := by
  decide +kernel

theorem absAll_untouched (es : List Eqn) (st : Nat → Option X) (i : Nat) (h : ∀ e ∈ es, e.cell ≠ i) :
    es.foldl absStep st i = st i := by
  induction es generalizing st with
  | nil => rfl
  | cons e es ih =>
    simp only [List.foldl_cons]
    rw [ih _ (fun e' he' => h e' (by simp [he']))]
    have := h e (by simp)
    simp [absStep, Ne.symm this]

theorem owned_aux (es : List Eqn) (st : Nat → Option X) (hd : distinctNats (es.map (·.cell)) = true)
    (hst : ∀ e ∈ es, st e.cell = none) :
    ∀ e ∈ es, es.foldl absStep st e.cell = some (makeAbs e.model e.tree) := by
  induction es generalizing st with
  | nil => intro e he; simp at he
  | cons a as ih =>
    simp only [List.map_cons, distinctNats, Bool.and_eq_true, Bool.not_eq_true', List.contains_eq_mem,
      decide_eq_false_iff_not, List.mem_map, not_exists, not_and] at hd
    intro e he
    simp only [List.foldl_cons]
    rcases List.mem_cons.mp he with rfl | he'
    · rw [absAll_untouched as _ e.cell (fun e' he' hc => hd.1 e' he' hc)]
      simp [absStep, hst e (by simp)]
    · apply ih _ hd.2 _ e he'
      intro e' he''
      have hne : e'.cell ≠ a.cell := fun hc => hd.1 e' he'' hc
      simp [absStep, hne, hst e' (by simp [he''])]

/-- **Resolution per equation, every document.** If every equation owns its tree object (no sharing between equations —
whatever their texts, however many models, however often a text is repeated), then after `parse_xmile` the tree of EACH
equation is its own parse resolved in its own model: every unqualified identifier of an equation in model M has become
`M.<name>` and denotes M's variable. -/
theorem owned_resolution (es : List Eqn) (h : ownedOK es = true) :
    ∀ e ∈ es, absAll es e.cell = some (makeAbs e.model e.tree) ∧
      ids (makeAbs e.model e.tree) = (ids e.tree).map (resolveName e.model) :=
  fun e he => ⟨owned_aux es _ h (fun _ _ => rfl) e he, ids_makeAbs e.model e.tree⟩

/-- **Witness: a tree shared between equations with the same text.** Root model, then modules `plantA`, `plantB`, each with
an equation `rate * 2.0` held in ONE tree object: the first named model's prefix is stamped on all three — module B (and,
retroactively, the root model) read module A's `rate`. -/
theorem shared_tree_witness :
    let t : X := .bin .mul (.id "rate") (.num "2.0")
    let es : List Eqn := [⟨"", 0, t⟩, ⟨"plantA", 0, t⟩, ⟨"plantB", 0, t⟩]
    ownedOK es = false ∧
    (absAll es 0).map ids = some ["plantA.rate"] ∧
    ids (makeAbs "plantB" t) = ["plantB.rate"] ∧ ids (makeAbs "" t) = ["rate"] := by
  decide +kernel

#print axioms owned_resolution
#print axioms makeAbs_first_wins
#print axioms shared_tree_witness
#print axioms root_ref_witness

/-! ### Per program: what a successful validation means -/

theorem validate_sound (c : Cfg) (P : XPrec) (ts : List XTok) (ir x : X)
    (h : validate c P ts ir = some x) :
    flat x = ts ∧ XWL P x = true ∧ flat ir = ts ∧ gen c false ir = gen c false x := by
  unfold validate at h
  split at h
  · split at h
    · rename_i hc
      simp only [Bool.and_eq_true, decide_eq_true_eq] at hc
      cases h
      exact ⟨hc.1.1.1, hc.1.1.2, hc.1.2, hc.2⟩
    · cases h
  · cases h

/-! ### Names: the model of `sanitizeName` -/


/-- names of the ASCII identifier domain: no backslash (92) -/
def plain (l : List Nat) : Prop := ∀ c ∈ l, c ≠ 92

def f1 (c : Nat) : List Nat :=
  if c = 10 ∨ c = 32 then [95] else if c = 34 ∨ c = 45 ∨ c = 39 then [] else [c]

theorem stage1_cons (c : Nat) (r : List Nat) (h : c ≠ 92) : stage1 (c :: r) = f1 c ++ stage1 r := by
  rw [stage1]
  · simp only [f1]
    split
    · simp
    · split <;> simp
  · intro r' hc; exact absurd hc h

theorem stage1_plain (l : List Nat) (h : plain l) : stage1 l = l.flatMap f1 := by
  induction l with
  | nil => simp [stage1]
  | cons c r ih =>
    have hc : c ≠ 92 := h c (by simp)
    have hr : plain r := fun x hx => h x (by simp [hx])
    rw [stage1_cons c r hc, ih hr]; simp

def spUs (c : Nat) : Nat := if c = 32 then 95 else c

theorem f1_spUs (c : Nat) : f1 (spUs c) = f1 c := by
  unfold spUs f1
  by_cases h : c = 32
  · subst h; simp
  · simp [h]

theorem plain_map (g : Nat → Nat) (hg : ∀ c, g c = 92 → c = 92) (l : List Nat) (h : plain l) : plain (l.map g) := by
  intro c hc
  simp only [List.mem_map] at hc
  obtain ⟨a, ha, rfl⟩ := hc
  intro h92
  exact h a ha (hg a h92)

theorem flatMap_map_f1 (g : Nat → Nat) (hg : ∀ c, f1 (g c) = f1 c) (l : List Nat) :
    (l.map g).flatMap f1 = l.flatMap f1 := by
  induction l with
  | nil => rfl
  | cons c r ih => simp [hg c, ih]

/-- blanks and underscores are interchangeable in a name -/
theorem sanitize_space (l : List Nat) (h : plain l) : sanL (l.map spUs) = sanL l := by
  have hp : plain (l.map spUs) := plain_map spUs (by intro c; unfold spUs; split <;> omega) l h
  unfold sanL
  rw [stage1_plain _ hp, stage1_plain _ h, flatMap_map_f1 spUs f1_spUs]

/-- delete every double quote (34) -/
def unquote : List Nat → List Nat
  | [] => []
  | c :: r => if c = 34 then unquote r else c :: unquote r

theorem plain_unquote (l : List Nat) (h : plain l) : plain (unquote l) := by
  induction l with
  | nil => simpa [unquote] using h
  | cons c r ih =>
    have hr : plain r := fun x hx => h x (by simp [hx])
    intro x hx
    simp only [unquote] at hx
    split at hx
    · exact ih hr x hx
    · simp only [List.mem_cons] at hx
      rcases hx with rfl | hx
      · exact h x (by simp)
      · exact ih hr x hx

theorem flatMap_unquote (l : List Nat) : (unquote l).flatMap f1 = l.flatMap f1 := by
  induction l with
  | nil => rfl
  | cons c r ih =>
    simp only [unquote]
    split
    · rename_i hc; subst hc; simp [f1, ih]
    · simp [ih]

/-- quoting does not matter -/
theorem sanitize_quote (l : List Nat) (h : plain l) : sanL (unquote l) = sanL l := by
  unfold sanL
  rw [stage1_plain _ (plain_unquote l h), stage1_plain _ h, flatMap_unquote]

theorem lowerC_fix (c : Nat) (h : c < 65 ∨ c > 90) : lowerC c = c := by
  unfold lowerC; split <;> omega

theorem lowerC_eq_small (c k : Nat) (hk : k < 65 ∨ (90 < k ∧ k < 97)) : lowerC c = k ↔ c = k := by
  unfold lowerC; split <;> omega

theorem f1_lower (c : Nat) : f1 (lowerC c) = (f1 c).map lowerC := by
  unfold f1
  have h10 := lowerC_eq_small c 10 (by omega)
  have h32 := lowerC_eq_small c 32 (by omega)
  have h34 := lowerC_eq_small c 34 (by omega)
  have h45 := lowerC_eq_small c 45 (by omega)
  have h39 := lowerC_eq_small c 39 (by omega)
  simp only [h10, h32, h34, h45, h39]
  split
  · simp [lowerC]
  · split <;> simp

theorem flatMap_f1_lower (l : List Nat) : (l.map lowerC).flatMap f1 = (l.flatMap f1).map lowerC := by
  induction l with
  | nil => rfl
  | cons c r ih => simp [f1_lower, ih]

theorem collapse_lower (b : Bool) (l : List Nat) : collapse b (l.map lowerC) = (collapse b l).map lowerC := by
  induction l generalizing b with
  | nil => simp [collapse]
  | cons c r ih =>
    have h95 := lowerC_eq_small c 95 (by omega)
    simp only [List.map_cons, collapse, h95]
    split
    · cases b <;> simp [ih, lowerC]
    · simp [ih]

theorem stripDot_ne (c : Nat) (r : List Nat) (h : c ≠ 46) : stripDot (c :: r) = c :: r := by
  rw [stripDot]
  intro r' hh
  injection hh with h1 _
  exact h h1

theorem stripDot_lower (l : List Nat) : stripDot (l.map lowerC) = (stripDot l).map lowerC := by
  cases l with
  | nil => simp [stripDot]
  | cons c r =>
    have h46 := lowerC_eq_small c 46 (by omega)
    by_cases hc : c = 46
    · subst hc; simp [stripDot, lowerC]
    · have : lowerC c ≠ 46 := fun h => hc (h46.mp h)
      simp only [List.map_cons]
      rw [stripDot_ne _ _ this, stripDot_ne _ _ hc]
      simp

theorem lowerC_idem (c : Nat) : lowerC (lowerC c) = lowerC c := by
  unfold lowerC; split <;> (try split) <;> omega

theorem upper_lower (c : Nat) : upperC (lowerC c) = upperC c := by
  unfold upperC lowerC; split <;> (try split) <;> (try split) <;> omega

theorem camel_lower (b : Bool) (l : List Nat) : camelAux b (l.map lowerC) = camelAux b l := by
  induction l generalizing b with
  | nil => simp [camelAux]
  | cons c r ih =>
    have h95 := lowerC_eq_small c 95 (by omega)
    simp only [List.map_cons, camelAux, h95, ih, lowerC_idem, upper_lower]

/-- letter case does not matter -/
theorem sanitize_lower (l : List Nat) (h : plain l) : sanL (l.map lowerC) = sanL l := by
  have hp : plain (l.map lowerC) := plain_map lowerC (fun c hc => (lowerC_eq_small c 92 (by omega)).mp hc) l h
  unfold sanL
  rw [stage1_plain _ hp, stage1_plain _ h, flatMap_f1_lower, collapse_lower, stripDot_lower, camel_lower]


/-- canonical spelling of a name: quotes deleted, blanks as underscores, lower case -/
def canonN (l : List Nat) : List Nat := ((unquote l).map spUs).map lowerC

theorem sanitize_canon (l : List Nat) (h : plain l) : sanL (canonN l) = sanL l := by
  have h1 := plain_unquote l h
  have h2 : plain ((unquote l).map spUs) := plain_map spUs (by intro c; unfold spUs; split <;> omega) _ h1
  unfold canonN
  rw [sanitize_lower _ h2, sanitize_space _ h1, sanitize_quote _ h]

/-- **Names.** Two spellings of a name that differ only in letter case, blanks vs underscores and
quoting are mapped to the same Python identifier. -/
theorem sanitize_equiv (a b : List Nat) (ha : plain a) (hb : plain b) (h : canonN a = canonN b) :
    sanL a = sanL b := by
  rw [← sanitize_canon a ha, ← sanitize_canon b hb, h]

/-- Documented limits of "any naming": `-` and `'` vanish, a trailing / leading / doubled underscore
vanishes, an underscore in front of a digit vanishes, one leading dot vanishes — such DISTINCT XMILE
names collapse to one identifier; and `sanitizeName` is not idempotent (`a_b ↦ aB ↦ ab`), which is
harmless only because the compiler applies it once per name. -/
theorem sanitize_collisions :
    sanL [97, 45, 98] = sanL [97, 98] ∧            -- a-b  ~ ab
    sanL [105, 116, 39, 115] = sanL [105, 116, 115] ∧   -- it's ~ its
    sanL [97, 95] = sanL [97] ∧ sanL [95, 97] = sanL [97] ∧   -- a_ ~ a, _a ~ a
    sanL [97, 95, 95, 98] = sanL [97, 95, 98] ∧    -- a__b ~ a_b
    sanL [97, 95, 49] = sanL [97, 49] ∧            -- a_1 ~ a1
    sanL [46, 97] = sanL [97] ∧                    -- .a ~ a
    sanL [97, 95, 98] ≠ sanL [97, 98] ∧            -- a_b and ab stay distinct
    sanL (sanL [97, 95, 98]) ≠ sanL [97, 95, 98] := by decide

/-! ### The property -/

/-- **C03 at full strength** for generator configuration `c` and XMILE operator table `P`:
(1) for EVERY equation tree that is the XMILE reading of its tokens and uses known functions, the
    emitted text has a CPython parse that is the image of the tree (operators under the token map,
    builtins applied to their arguments as units, parentheses where the source has them); that parse
    is THE parse — every derivation of the parsing relation, and every answer of the executable
    parser, is that image —; and its value — in any arithmetic — is the XMILE reference value;
(2) for every program the driver validates (the reference reading of the source tokens prints back
    to them, the IR kept the token sequence and renders to the same text) the text emitted for the
    IR denotes the reference reading, the executable parser can only return that image, and the
    reference reading is THE reading: every well-levelled tree over the source tokens is it;
(3) every builtin of the vocabulary is present and denotes its intended operation;
(4) an equation using a function outside the table raises instead of yielding a value;
(5) spellings of a name that differ in case, blanks/underscores, quoting give the same identifier;
(6) the per-program text comparison is implied by the token comparison: an IR that kept the token
    sequence (IFs in sentence positions) emits the text of the reading;
(7) a token sequence has at most one well-levelled XMILE reading, and the executable reference reader
    `xparse` can only return it;
(8) the delay/smooth helper (DELAY1/3/N, SMTH3/N), run the way the generated class handles time keys,
    returns at every grid point and stage the cascade of first-order stocks advanced once per
    interval — for every time representation admitting `grid_time`, every arithmetic, every horizon. -/
def C03_full (c : Cfg) (P : XPrec) : Prop :=
  (∀ (x : X) (init : Bool), XWL P x = true → known c x = true →
     Parses (gen c init x) (trans c P init x) ∧
     (∀ p : Py, Parses (gen c init x) p → p = trans c P init x) ∧
     (∀ p : Py, parse (gen c init x) = some p → p = trans c P init x) ∧
     ∀ (α : Type) (C : Carrier α),
       eval C (fun _ => C.name "MISSING") (trans c P init x) = xeval C c P init x) ∧
  (∀ (ts : List XTok) (ir x : X), validate c P ts ir = some x → known c x = true →
     flat ir = ts ∧ flat x = ts ∧ Parses (gen c false ir) (trans c P false x) ∧
     (∀ p : Py, parse (gen c false ir) = some p → p = trans c P false x) ∧
     (∀ y : X, XWL P y = true → flat y = ts → canon y = canon x) ∧
     ∀ (α : Type) (C : Carrier α),
       eval C (fun _ => C.name "MISSING") (trans c P false x) = xeval C c P false x) ∧
  ((∀ t ∈ c.fns, ∀ s, specFn t.cls t.arity = some s →
     ∀ (α : Type) (C : Carrier α) (ρ : Nat → α), eval C ρ (shapeOf t) = eval C ρ s) ∧
   vocabOK c = true) ∧
  (∀ x : X, known c x = false → compile c x = none) ∧
  (∀ a b : List Nat, plain a → plain b → canonN a = canonN b → sanL a = sanL b) ∧
  (∀ (ts : List XTok) (ir x : X), validateFlat P ts ir = some x → validate c P ts ir = some x) ∧
  ((∀ x y : X, XWL P x = true → XWL P y = true → flat x = flat y → canon x = canon y) ∧
   (∀ (ts : List XTok) (x y : X), xparse P ts = some x → XWL P y = true → flat y = ts → x = canon y)) ∧
  (∀ (T α : Type) (ht : HTime T) (A : HArith α) (inp init : T → α) (label : Nat → T) (N : Nat),
     HAdm ht label N → ∀ k, k ≤ N → ∀ y fuel, k < fuel →
       smthH (ht.norm c) ht A inp init fuel y (label k)
         = some (cascade A (fun j => inp (label j)) (init (label 0)) k y))

theorem C03_full_of_good (c : Cfg) (P : XPrec) (hP : precAgree P = true) (hU : Unamb P)
    (h : good c P = true) (hS : shapesOK c = true) : C03_full c P := by
  unfold good at h
  simp only [Bool.and_eq_true] at h
  obtain ⟨⟨⟨⟨⟨⟨⟨hO, hF⟩, hN⟩, _hI⟩, hSp⟩, hV⟩, hU'⟩, hH⟩ := h
  refine ⟨?_, ?_, ⟨?_, hV⟩, ?_, sanitize_equiv, ?_, ?_, ?_⟩
  · intro x init hx hk
    exact ⟨prec_agree c P hP hO hF hN x init hx hk, gen_parse_unique c P hP hO hF hN x init hx hk,
      gen_parse_exec c P hP hO hF hN x init hx hk, fun α C => eval_trans c P hS C x init⟩
  · intro ts ir x hv hk
    have v := validate_sound c P ts ir x hv
    refine ⟨v.2.2.1, v.1, ?_, ?_, ?_, fun α C => eval_trans c P hS C x false⟩
    · rw [v.2.2.2]
      exact prec_agree c P hP hO hF hN x false v.2.1 hk
    · rw [v.2.2.2]
      exact gen_parse_exec c P hP hO hF hN x false v.2.1 hk
    · intro y hy hf
      exact reading_unique P hU y x hy v.2.1 (by rw [hf, v.1])
  · intro t ht s hs α C ρ
    unfold specOK at hSp
    simp only [Bool.and_eq_true] at hSp
    have := hSp.1
    rw [List.all_eq_true] at this
    have := this t ht
    simp only [hs] at this
    rw [← eval_erase C ρ (shapeOf t), beqPy_eq _ _ this]
  · intro x hk
    simp [compile, hk, hU']
  · intro ts ir x hv
    exact validate_of_flat c P hP hO ts ir x hv
  · exact ⟨fun x y hx hy hf => reading_unique P hU x y hx hy hf,
      fun ts x y hp hy hf => xparse_the_reading P hU ts x y hp hy hf⟩
  · intro T α ht A inp init label N hA k hk y fuel hf
    have : ht.norm c = ht.gnorm := by simp [HTime.norm, hH]
    rw [this]
    exact smth_eq_cascade ht A inp init label N hA k hk y fuel hf

/-- What holds whatever the builtin templates look like: values always follow the tree (given the
three structural shapes), and a validated program keeps its token sequence. -/
theorem C03_partial (c : Cfg) (P : XPrec) (hS : shapesOK c = true) :
    (∀ (x : X) (init : Bool) (α : Type) (C : Carrier α),
       eval C (fun _ => C.name "MISSING") (trans c P init x) = xeval C c P init x) ∧
    (∀ ts ir x, validate c P ts ir = some x → flat ir = flat x) :=
  ⟨fun x init α C => eval_trans c P hS C x init,
   fun ts ir x h => by have v := validate_sound c P ts ir x h; rw [v.1, v.2.2.1]⟩

/-- unknown builtin silently compiled to `0` (the pinned tree): the property fails -/
theorem C03_witness_unknown (c : Cfg) (P : XPrec) (h : c.unknownBuiltinRaises = false)
    (hf : findFn c "foo" 1 = none) : ¬ C03_full c P := by
  intro hfull
  have := hfull.2.2.2.1 (.call "foo" [.id "a"]) (by simp [known, hf])
  simp [compile, h] at this

/-- helpers keyed on raw `t - dt` floats (the pinned tree): DELAY1 with dt = 0.1 takes five steps to
t = 0.4 — the property fails -/
theorem C03_witness_helper_keys (c : Cfg) (P : XPrec) (h : c.helperKeysNormalise = false) : ¬ C03_full c P := by
  intro hfull
  have h8 := hfull.2.2.2.2.2.2.2 Float Int hwTime hwArith (fun _ => 0) (fun _ => 0) hwLabel 4 hw_adm 4
    (by decide) 0 40 (by decide)
  have hn : hwTime.norm c = id := by simp [HTime.norm, h]
  rw [hn, helper_drift_witness.1, helper_drift_witness.2] at h8
  simp at h8

theorem xmile_prec_agrees : precAgree xmilePrec = true := by decide

/-! ### Negation witness for the bare builtin templates of the pinned tree -/

/-- `sqrt ↦ ({0} ** 0.5 )` as on the pinned tree -/
def bareSqrtCfg : Cfg where
  opT k := [.hole 0, .op (xmilePrec.img k), .hole 1]
  notT := { cls := "not", arity := 1, toks := [.lp, .knot, .hole 0, .rp] }
  fns := [{ cls := "sqrt", arity := 1, toks := [.lp, .hole 0, .op .pow, .num "0.5", .rp] }]
  identT := idToks "probe" false
  identInitT := idToks "probe" true
  unknownBuiltinRaises := true

/-- `SQRT(2+7)` is emitted as `(2.0 + 7.0 ** 0.5 )`, which CPython reads as `2 + 7**0.5` -/
theorem C03_witness_bare_sqrt :
    (parse (gen bareSqrtCfg false (.call "sqrt" [.bin .add (.num "2.0") (.num "7.0")]))).map sexp
      = some "(+ (num 2.0) (** (num 7.0) (num 0.5)))" ∧ fnsOK bareSqrtCfg = false := by
  decide +kernel

/-! ### Non-vacuity -/

def demoCfg : Cfg where
  opT k := [.hole 0, .op (xmilePrec.img k), .hole 1]
  notT := { cls := "not", arity := 1, toks := [.lp, .knot, .hole 0, .rp] }
  fns := [{ cls := "()", arity := 1, toks := [.lp, .hole 0, .rp] },
          { cls := "if", arity := 3, toks := [.lp, .lp, .hole 1, .rp, .kif, .lp, .hole 0, .rp, .kelse, .lp, .hole 2, .rp, .rp] },
          { cls := "sqrt", arity := 1, toks := [.lp, .lp, .hole 0, .rp, .op .pow, .num "0.5", .rp] }]
  identT := idToks "probe" false
  identInitT := idToks "probe" true
  unknownBuiltinRaises := true

/-- `IF a > 1 THEN SQRT(a + b) * -2 ^ 2 ELSE (a - b) - c`: well-levelled, known, and validated as the
reading of its own tokens. -/
def demoX : X :=
  .ite (.bin .gt (.id "a") (.num "1.0"))
    (.bin .mul (.call "sqrt" [.bin .add (.id "a") (.id "b")]) (.neg (.bin .pow (.num "2.0") (.num "2.0"))))
    (.bin .sub (.paren (.bin .sub (.id "a") (.id "b"))) (.id "c"))

example : opOK demoCfg xmilePrec = true ∧ fnsOK demoCfg = true ∧ notOK demoCfg = true ∧
    shapesOK demoCfg = true ∧ XWL xmilePrec demoX = true ∧ known demoCfg demoX = true ∧
    (validate demoCfg xmilePrec (flat demoX) demoX).isSome = true ∧
    (validateFlat xmilePrec (flat demoX) demoX).isSome = true := by decide +kernel

/-- signed literals: `(-2)^2` keeps its parentheses and reads as 4, `-2^2` reads as `-(2^2)`; the IR
node `nnum` without the `()` around it is NOT a reading of `( - 2 ) ^ 2` (the seeded defect). -/
example :
    XWL xmilePrec (.bin .pow (.paren (.nnum "2.0")) (.num "2.0")) = true ∧
    XWL xmilePrec (.bin .pow (.nnum "2.0") (.num "2.0")) = false ∧
    (xparse xmilePrec [.op .sub, .num "2.0", .op .pow, .num "2.0"]).map xsexp
      = some "(neg (^ (num 2.0) (num 2.0)))" ∧
    (validate demoCfg xmilePrec [.lp, .op .sub, .num "2.0", .rp, .op .pow, .num "2.0"]
      (.bin .pow (.nnum "2.0") (.num "2.0"))).isSome = false ∧
    (validate demoCfg xmilePrec [.lp, .op .sub, .num "2.0", .rp, .op .pow, .num "2.0"]
      (.bin .pow (.paren (.nnum "2.0")) (.num "2.0"))).isSome = true := by decide +kernel

#print axioms C03_full_of_good
#print axioms gen_parse_unique
#print axioms gen_parse_exec
#print axioms xmile_unamb
#print axioms xwl_reads
#print axioms C03_partial
#print axioms C03_witness_unknown
#print axioms C03_witness_helper_keys
#print axioms C03_witness_bare_sqrt
#print axioms xmile_prec_agrees
#print axioms eval_trans
#print axioms sanitize_equiv
#print axioms sanitize_collisions

end Bptk.C03
