import Bptk.Core.C05
import Mathlib.Algebra.Order.Floor.Ring
import Mathlib.Data.Rat.Floor
import Mathlib.Tactic.Linarith
import Mathlib.Tactic.Ring
import Mathlib.Tactic.Positivity
import Mathlib.Tactic.FieldSimp
import Mathlib.Tactic.NormNum
/-!
C05 — property theorems.  Time is rational; floating point is an adversary `F : Fl` (any rounding
function with relative error ≤ `u`, monotone, idempotent) — hypotheses, never axioms.
Quantifiers: every `F`, every decimal grid `G = (S, H, p)`, every number of steps `n` (induction),
every float `x` near a grid point.
-/
namespace Bptk.C05

/-! ### bridging the import-free model to Mathlib notions -/

theorem absQ_eq (x : ℚ) : absQ x = |x| := by
  unfold absQ
  split
  · rw [abs_of_neg (by assumption)]
  · rw [abs_of_nonneg (by linarith)]

theorem pow10_eq (p : ℕ) : pow10 p = (10 : ℚ) ^ p := by
  unfold pow10; push_cast; rfl

theorem pow10_pos (p : ℕ) : 0 < pow10 p := by rw [pow10_eq]; positivity

/-- Python's round-half-even sends everything closer than 1/2 to an integer to that integer. -/
theorem rndHE_near (y : ℚ) (k : ℤ) (h : |y - k| < 1/2) : rndHE y = k := by
  have h1 := abs_lt.mp h
  unfold rndHE
  simp only
  have hfl : y.floor = ⌊y⌋ := rfl
  rw [hfl]
  by_cases hk : (k:ℚ) ≤ y
  · have hf : ⌊y⌋ = k := by
      rw [Int.floor_eq_iff]; constructor
      · exact hk
      · linarith [h1.2]
    rw [hf]
    have : y - (k:ℚ) < 1/2 := by linarith [h1.2]
    rw [if_pos this]
  · rw [not_le] at hk
    have hf : ⌊y⌋ = k - 1 := by
      rw [Int.floor_eq_iff]; constructor
      · push_cast; linarith [h1.1]
      · push_cast; linarith
    rw [hf]
    have h2 : ¬ (y - ((k - 1 : ℤ) : ℚ) < 1/2) := by push_cast; linarith [h1.1]
    have h3 : (1/2 : ℚ) < y - ((k - 1 : ℤ) : ℚ) := by push_cast; linarith [h1.1]
    rw [if_neg h2, if_pos h3]; ring

/-- `round(x, p)`: everything closer than half a unit of the `p`-th decimal to `m/10^p` is sent to it. -/
theorem roundDec_near (p : ℕ) (x : ℚ) (m : ℤ) (h : |x - m / pow10 p| < 1 / (2 * pow10 p)) :
    roundDec p x = m / pow10 p := by
  have hp := pow10_pos p
  unfold roundDec
  have : |x * pow10 p - m| < 1/2 := by
    have e : x * pow10 p - m = (x - m / pow10 p) * pow10 p := by field_simp
    rw [e, abs_mul, abs_of_pos hp]
    have : |x - m / pow10 p| * pow10 p < 1 / (2 * pow10 p) * pow10 p := by
      exact mul_lt_mul_of_pos_right h hp
    have e2 : 1 / (2 * pow10 p) * pow10 p = 1/2 := by field_simp
    linarith
  rw [rndHE_near _ m this]

/-! ### the floating-point adversary -/

/-- Any rounding function with bounded relative error (IEEE-754 round-to-nearest double: `u = 2^-53`,
within the normal range). -/
structure Fl where
  fl : ℚ → ℚ
  u : ℚ
  u_nonneg : 0 ≤ u
  idem : ∀ x, fl (fl x) = fl x
  mono : ∀ x y, x ≤ y → fl x ≤ fl y
  err : ∀ x, |fl x - x| ≤ u * |x|

/-- representable numbers: those the rounding leaves alone. -/
def Fl.Rep (F : Fl) (x : ℚ) : Prop := F.fl x = x

theorem Fl.rep_fl (F : Fl) (x : ℚ) : F.Rep (F.fl x) := F.idem x

/-- exact arithmetic is one admissible adversary. -/
def Fl.exact : Fl := { fl := id, u := 0, u_nonneg := le_refl _, idem := fun _ => rfl, mono := fun _ _ h => h,
                       err := fun x => by simp }

theorem Fl.abs_le (F : Fl) (x : ℚ) : |F.fl x| ≤ (1 + F.u) * |x| := by
  have h := F.err x
  have : |F.fl x| ≤ |F.fl x - x| + |x| := by
    have := abs_add_le (F.fl x - x) x
    simpa using this
  linarith

theorem Fl.err' (F : Fl) (x : ℚ) : |x - F.fl x| ≤ F.u * |x| := by
  rw [abs_sub_comm]; exact F.err x

/-- two roundings around a division by a positive float. -/
theorem Fl.quot_err (F : Fl) (t h : ℚ) (hh : 0 < h) :
    |F.fl (F.fl t / h) - t / h| ≤ (2 * F.u + F.u ^ 2) * |t / h| := by
  have e0 := F.u_nonneg
  have h1 : |F.fl t / h - t / h| ≤ F.u * |t / h| := by
    have e : F.fl t / h - t / h = (F.fl t - t) / h := by ring
    rw [e, abs_div, abs_div, abs_of_pos hh]
    have := F.err t
    rw [← mul_div_assoc]
    exact div_le_div_of_nonneg_right this hh.le
  have h2 : |F.fl t / h| ≤ (1 + F.u) * |t / h| := by
    have := abs_add_le (F.fl t / h - t / h) (t / h)
    simp only [sub_add_cancel] at this
    linarith
  have h3 := F.err (F.fl t / h)
  have h4 : |F.fl (F.fl t / h) - t / h| ≤ |F.fl (F.fl t / h) - F.fl t / h| + |F.fl t / h - t / h| := by
    have := abs_add_le (F.fl (F.fl t / h) - F.fl t / h) (F.fl t / h - t / h)
    simpa using this
  have h5 : F.u * |F.fl t / h| ≤ F.u * ((1 + F.u) * |t / h|) := mul_le_mul_of_nonneg_left h2 e0
  nlinarith [abs_nonneg (t / h)]

/-! ### the decimal grid -/

/-- A decimal grid: start `S`, step `H > 0`, both with at most `p` decimals
(`p = max (scale S) (scale H)` in the code, see `scale_correct`). -/
structure Grid where
  S : ℚ
  H : ℚ
  p : ℕ
  H_pos : 0 < H
  decS : ∃ m : ℤ, S = m / pow10 p
  decH : ∃ m : ℤ, H = m / pow10 p

/-- grid point `k` (exact). -/
def Grid.g (G : Grid) (k : ℤ) : ℚ := G.S + k * G.H

/-- the label of grid point `k`: the float nearest to the decimal grid value. -/
def label (F : Fl) (G : Grid) (k : ℤ) : ℚ := F.fl (G.g k)

/-- the float constants the code computes with. -/
def Grid.s (G : Grid) (F : Fl) : ℚ := F.fl G.S
def Grid.h (G : Grid) (F : Fl) : ℚ := F.fl G.H

theorem Grid.g_dec (G : Grid) (k : ℤ) : ∃ m : ℤ, G.g k = m / pow10 G.p := by
  obtain ⟨a, ha⟩ := G.decS
  obtain ⟨b, hb⟩ := G.decH
  refine ⟨a + k * b, ?_⟩
  unfold Grid.g
  rw [ha, hb]; push_cast; ring

theorem label_zero (F : Fl) (G : Grid) : label F G 0 = G.s F := by
  simp [label, Grid.g, Grid.s]

theorem label_rep (F : Fl) (G : Grid) (k : ℤ) : F.Rep (label F G k) := F.idem _

/-- `normalize` without error analysis: once the two rounded intermediate results are within reach of
the integer `k` resp. the decimal `m/10^p`, the result is the float of that decimal. -/
theorem normalize_core (fl : ℚ → ℚ) (x h s : ℚ) (p : ℕ) (k m : ℤ)
    (hb : |fl (fl (x - s) / h) - k| < 1/2)
    (hd : |fl (fl (h * k) + s) - m / pow10 p| < 1 / (2 * pow10 p)) :
    normalize fl x h s p = fl (m / pow10 p) := by
  unfold normalize
  rw [rndHE_near _ k hb, roundDec_near p _ m hd]

/-- error budget of the quotient `(x-s)/h` against the integer `k` (`K = |k|`, `r ≥ |x - g k|`). -/
def Qerr (e S H h r K : ℚ) : ℚ := (1 + e) ^ 2 * ((r + e * (|S| + K * H)) / h) + (2 * e + e ^ 2) * K

/-- error budget of the recomputed grid value `h*k + s` against `g k`. -/
def Derr (e S H s h K : ℚ) : ℚ := e * ((1 + e) * h * K + |s|) + e * h * K + e * (|S| + K * H)

/-- **normalize_near**: a float `x` within `r` of grid point `k` is normalised to `label k`, provided the
two explicit error budgets (relating `u`, the magnitude of the grid and `k`) are met. -/
theorem normalize_near (F : Fl) (G : Grid) (x : ℚ) (k : ℤ) (r : ℚ)
    (hh : 0 < G.h F)
    (hx : |x - G.g k| ≤ r)
    (hQ : Qerr F.u G.S G.H (G.h F) r |(k:ℚ)| < 1/2)
    (hD : Derr F.u G.S G.H (G.s F) (G.h F) |(k:ℚ)| < 1 / (2 * pow10 G.p)) :
    normalize F.fl x (G.h F) (G.s F) G.p = label F G k := by
  obtain ⟨m, hm⟩ := G.g_dec k
  have e0 := F.u_nonneg
  have hH := G.H_pos
  set e := F.u with he
  set s := G.s F with hs
  set h := G.h F with hhd
  have eS : |G.S - s| ≤ e * |G.S| := F.err' G.S
  have eH : |G.H - h| ≤ e * G.H := by
    have := F.err' G.H; rwa [abs_of_pos hH] at this
  have eS' : |s - G.S| ≤ e * |G.S| := F.err G.S
  have eH' : |h - G.H| ≤ e * G.H := by
    have := F.err G.H; rwa [abs_of_pos hH] at this
  have hK := abs_nonneg (k:ℚ)
  -- the quotient
  have hb : |F.fl (F.fl (x - s) / h) - k| < 1/2 := by
    set A := (r + e * (|G.S| + |(k:ℚ)| * G.H)) / h with hA
    have q1 := F.quot_err (x - s) h hh
    have q2 : |(x - s) / h - k| ≤ A := by
      have e1 : (x - s) / h - k = ((x - G.g k) + (G.S - s) + k * (G.H - h)) / h := by
        unfold Grid.g; field_simp; ring
      rw [e1, abs_div, abs_of_pos hh, hA]
      apply div_le_div_of_nonneg_right _ hh.le
      have t1 := abs_add_le ((x - G.g k) + (G.S - s)) (k * (G.H - h))
      have t2 := abs_add_le (x - G.g k) (G.S - s)
      have t3 : |(k:ℚ) * (G.H - h)| ≤ |(k:ℚ)| * (e * G.H) := by
        rw [abs_mul]; exact mul_le_mul_of_nonneg_left eH hK
      nlinarith
    have q3 : |(x - s) / h| ≤ |(k:ℚ)| + A := by
      have := abs_add_le ((x - s) / h - k) (k:ℚ)
      simp only [sub_add_cancel] at this
      linarith
    have q4 : |F.fl (F.fl (x - s) / h) - k| ≤ |F.fl (F.fl (x - s) / h) - (x - s) / h| + |(x - s) / h - k| := by
      have := abs_add_le (F.fl (F.fl (x - s) / h) - (x - s) / h) ((x - s) / h - k)
      simpa using this
    have q5 : (2 * e + e ^ 2) * |(x - s) / h| ≤ (2 * e + e ^ 2) * (|(k:ℚ)| + A) :=
      mul_le_mul_of_nonneg_left q3 (by positivity)
    have : Qerr e G.S G.H h r |(k:ℚ)| = (1 + e) ^ 2 * A + (2 * e + e ^ 2) * |(k:ℚ)| := rfl
    rw [this] at hQ
    nlinarith
  -- the recomputed grid value
  have hd : |F.fl (F.fl (h * k) + s) - m / pow10 G.p| < 1 / (2 * pow10 G.p) := by
    rw [← hm]
    have d1 := F.err (h * k)
    have d1' : |h * (k:ℚ)| = h * |(k:ℚ)| := by rw [abs_mul, abs_of_pos hh]
    rw [d1'] at d1
    have d2 := F.abs_le (h * k)
    rw [d1'] at d2
    have d3 := F.err (F.fl (h * k) + s)
    have d4 : |F.fl (h * k) + s| ≤ (1 + e) * (h * |(k:ℚ)|) + |s| := by
      have := abs_add_le (F.fl (h * k)) s
      linarith
    have d5 : |(h * k + s) - G.g k| ≤ e * |G.S| + |(k:ℚ)| * (e * G.H) := by
      have e1 : (h * k + s) - G.g k = (s - G.S) + k * (h - G.H) := by unfold Grid.g; ring
      rw [e1]
      have t1 := abs_add_le (s - G.S) (k * (h - G.H))
      have t3 : |(k:ℚ) * (h - G.H)| ≤ |(k:ℚ)| * (e * G.H) := by
        rw [abs_mul]; exact mul_le_mul_of_nonneg_left eH' hK
      linarith
    have d6 : |F.fl (F.fl (h * k) + s) - G.g k| ≤
        |F.fl (F.fl (h * k) + s) - (F.fl (h * k) + s)| + |F.fl (h * k) - h * k| + |(h * k + s) - G.g k| := by
      have a1 := abs_sub_le (F.fl (F.fl (h * k) + s)) (F.fl (h * k) + s) (G.g k)
      have a2 : |(F.fl (h * k) + s) - G.g k| ≤ |F.fl (h * k) - h * k| + |(h * k + s) - G.g k| := by
        have := abs_add_le (F.fl (h * k) - h * k) ((h * k + s) - G.g k)
        have e2 : (F.fl (h * k) - h * k) + ((h * k + s) - G.g k) = (F.fl (h * k) + s) - G.g k := by ring
        rwa [e2] at this
      linarith
    have d7 : e * |F.fl (h * k) + s| ≤ e * ((1 + e) * (h * |(k:ℚ)|) + |s|) := mul_le_mul_of_nonneg_left d4 e0
    unfold Derr at hD
    nlinarith
  have := normalize_core F.fl x h s G.p k m hb hd
  rw [this, label, hm]


/-! ### the budget over a horizon, and `timerange` -/

/-- magnitude bound of the grid values `g 0 … g N`. -/
def Grid.M (G : Grid) (N : ℕ) : ℚ := |G.S| + N * G.H

/-- The explicit hypotheses relating the rounding unit `u`, the magnitude of the grid and the horizon `N`:
`r` bounds the error of one bare float addition from a label (`hR`), the two budgets of `normalize_near`
hold at the horizon (`hQ`, `hD`), neighbouring labels stay apart (`hSep`). For IEEE doubles
(`u = 2^-53`) all of them hold with many orders of magnitude to spare on every realistic grid
(`budget_nonvacuous`). -/
structure Budget (F : Fl) (G : Grid) (N : ℕ) (r : ℚ) : Prop where
  h_pos : 0 < G.h F
  hQ : Qerr F.u G.S G.H (G.h F) r N < 1/2
  hD : Derr F.u G.S G.H (G.s F) (G.h F) N < 1 / (2 * pow10 G.p)
  hR : F.u * ((1 + F.u) * G.M N + G.h F) + F.u * G.M N + F.u * G.H ≤ r
  hSep : 2 * F.u * G.M N < G.H

theorem Qerr_mono (e S H h r K N : ℚ) (he : 0 ≤ e) (hh : 0 < h) (hH : 0 < H) (hKN : K ≤ N) :
    Qerr e S H h r K ≤ Qerr e S H h r N := by
  unfold Qerr
  have h1 : (r + e * (|S| + K * H)) / h ≤ (r + e * (|S| + N * H)) / h := by
    apply div_le_div_of_nonneg_right _ hh.le
    have : K * H ≤ N * H := mul_le_mul_of_nonneg_right hKN hH.le
    nlinarith
  have h2 : (1 + e) ^ 2 * ((r + e * (|S| + K * H)) / h) ≤ (1 + e) ^ 2 * ((r + e * (|S| + N * H)) / h) :=
    mul_le_mul_of_nonneg_left h1 (by positivity)
  have h3 : (2 * e + e ^ 2) * K ≤ (2 * e + e ^ 2) * N := mul_le_mul_of_nonneg_left hKN (by positivity)
  linarith

theorem Derr_mono (e S H s h K N : ℚ) (he : 0 ≤ e) (hh : 0 < h) (hH : 0 < H) (hKN : K ≤ N) :
    Derr e S H s h K ≤ Derr e S H s h N := by
  unfold Derr
  have h1 : h * K ≤ h * N := mul_le_mul_of_nonneg_left hKN hh.le
  have h2 : K * H ≤ N * H := mul_le_mul_of_nonneg_right hKN hH.le
  have h3 : e * ((1 + e) * h * K + |s|) ≤ e * ((1 + e) * h * N + |s|) := by
    apply mul_le_mul_of_nonneg_left _ he
    have : (1 + e) * (h * K) ≤ (1 + e) * (h * N) := mul_le_mul_of_nonneg_left h1 (by positivity)
    nlinarith
  have h4 : e * h * K ≤ e * h * N := by
    have := mul_le_mul_of_nonneg_left h1 he
    nlinarith
  have h5 : e * (|S| + K * H) ≤ e * (|S| + N * H) := mul_le_mul_of_nonneg_left (by linarith) he
  linarith

theorem Grid.g_abs_le (G : Grid) (N : ℕ) (k : ℕ) (hk : k ≤ N) : |G.g (k:ℤ)| ≤ G.M N := by
  unfold Grid.g Grid.M
  have hH := G.H_pos
  have h1 := abs_add_le G.S ((k:ℤ) * G.H)
  have h2 : |((k:ℤ):ℚ) * G.H| = (k:ℚ) * G.H := by
    rw [abs_of_nonneg]; · push_cast; ring
    · push_cast; positivity
  have h3 : (k:ℚ) * G.H ≤ (N:ℚ) * G.H := mul_le_mul_of_nonneg_right (by exact_mod_cast hk) hH.le
  linarith

theorem Grid.g_succ (G : Grid) (k : ℕ) : G.g ((k + 1 : ℕ) : ℤ) = G.g (k:ℤ) + G.H := by
  unfold Grid.g; push_cast; ring

/-- one bare float addition `label k + dt` lands within `r` of the next grid point. -/
theorem step_err (F : Fl) (G : Grid) (N : ℕ) (r : ℚ) (B : Budget F G N r) (k : ℕ) (hk : k ≤ N) :
    |F.fl (label F G k + G.h F) - G.g ((k + 1 : ℕ) : ℤ)| ≤ r := by
  have e0 := F.u_nonneg
  have hH := G.H_pos
  have hM := G.g_abs_le N k hk
  have hM0 : 0 ≤ G.M N := le_trans (abs_nonneg _) hM
  have hh := B.h_pos
  set e := F.u
  set h := G.h F with hhd
  set y := label F G k + h with hy
  have l1 : |label F G k - G.g k| ≤ e * |G.g (k:ℤ)| := F.err _
  have l2 : |label F G k| ≤ (1 + e) * |G.g (k:ℤ)| := F.abs_le _
  have l3 : |h - G.H| ≤ e * G.H := by
    have := F.err G.H; rwa [abs_of_pos hH] at this
  have y1 : |y| ≤ (1 + e) * |G.g (k:ℤ)| + h := by
    have := abs_add_le (label F G k) h
    rw [abs_of_pos hh] at this; linarith
  have y2 := F.err y
  have y3 : |y - G.g ((k + 1 : ℕ) : ℤ)| ≤ e * |G.g (k:ℤ)| + e * G.H := by
    rw [G.g_succ]
    have e1 : y - (G.g k + G.H) = (label F G k - G.g k) + (h - G.H) := by rw [hy]; ring
    rw [e1]
    have := abs_add_le (label F G k - G.g k) (h - G.H)
    linarith
  have y4 := abs_sub_le (F.fl y) y (G.g ((k + 1 : ℕ) : ℤ))
  have y5 : e * |y| ≤ e * ((1 + e) * |G.g (k:ℤ)| + h) := mul_le_mul_of_nonneg_left y1 e0
  have y6 : e * ((1 + e) * |G.g (k:ℤ)|) ≤ e * ((1 + e) * G.M N) :=
    mul_le_mul_of_nonneg_left (mul_le_mul_of_nonneg_left hM (by positivity)) e0
  have y7 : e * |G.g (k:ℤ)| ≤ e * G.M N := mul_le_mul_of_nonneg_left hM e0
  have := B.hR
  nlinarith

/-- neighbouring labels are strictly ordered. -/
theorem label_lt_succ (F : Fl) (G : Grid) (N : ℕ) (r : ℚ) (B : Budget F G N r) (k : ℕ) (hk : k + 1 ≤ N) :
    label F G k < label F G ((k + 1 : ℕ) : ℤ) := by
  have e0 := F.u_nonneg
  have hM1 := G.g_abs_le N k (by omega)
  have hM2 := G.g_abs_le N (k + 1) hk
  have l1 := abs_le.mp (F.err (G.g (k:ℤ)))
  have l2 := abs_le.mp (F.err (G.g ((k + 1 : ℕ) : ℤ)))
  have hs := G.g_succ k
  have := B.hSep
  have y7 : F.u * |G.g (k:ℤ)| ≤ F.u * G.M N := mul_le_mul_of_nonneg_left hM1 e0
  have y8 : F.u * |G.g ((k + 1 : ℕ) : ℤ)| ≤ F.u * G.M N := mul_le_mul_of_nonneg_left hM2 e0
  unfold label
  linarith [l1.2, l2.1]

theorem label_mono (F : Fl) (G : Grid) (j k : ℕ) (h : j ≤ k) : label F G j ≤ label F G k := by
  apply F.mono
  unfold Grid.g
  have hH := G.H_pos
  have : ((j:ℤ):ℚ) * G.H ≤ ((k:ℤ):ℚ) * G.H := mul_le_mul_of_nonneg_right (by exact_mod_cast h) hH.le
  linarith

/-- the loop body's last line takes `label k` to `label (k+1)`. -/
theorem advance_label (F : Fl) (G : Grid) (N : ℕ) (r : ℚ) (B : Budget F G N r) (k : ℕ) (hk : k + 1 ≤ N) :
    advance F.fl (G.s F) (G.h F) G.p (label F G k) = label F G ((k + 1 : ℕ) : ℤ) := by
  unfold advance
  have hKN : |(((k + 1 : ℕ) : ℤ) : ℚ)| ≤ (N:ℚ) := by
    rw [abs_of_nonneg (by positivity)]; exact_mod_cast hk
  apply normalize_near F G _ _ r B.h_pos (step_err F G N r B k (by omega))
  · exact lt_of_le_of_lt (Qerr_mono _ _ _ _ _ _ _ F.u_nonneg B.h_pos G.H_pos hKN) B.hQ
  · exact lt_of_le_of_lt (Derr_mono _ _ _ _ _ _ _ F.u_nonneg B.h_pos G.H_pos hKN) B.hD

theorem timerangeLoop_spec (F : Fl) (G : Grid) (n : ℕ) (r : ℚ) (B : Budget F G (n + 1) r) :
    ∀ (d j : ℕ), j + d = n + 1 → ∀ fuel, d + 1 ≤ fuel → ∀ acc,
      timerangeLoop F.fl (G.s F) (label F G n) (G.h F) G.p false fuel (label F G j) acc
        = some (acc ++ (List.range' j d).map (fun i : ℕ => label F G (i:ℤ))) := by
  intro d
  induction d with
  | zero =>
    intro j hj fuel hf acc
    obtain ⟨f, rfl⟩ : ∃ f, fuel = f + 1 := ⟨fuel - 1, by omega⟩
    have hj' : j = n + 1 := by omega
    subst hj'
    have hlt := label_lt_succ F G (n + 1) r B n (le_refl _)
    rw [timerangeLoop, if_neg (not_le.mpr hlt)]
    simp
  | succ d ih =>
    intro j hj fuel hf acc
    obtain ⟨f, rfl⟩ : ∃ f, fuel = f + 1 := ⟨fuel - 1, by omega⟩
    have hjn : j ≤ n := by omega
    rw [timerangeLoop, if_pos (label_mono F G j n hjn)]
    rw [advance_label F G (n + 1) r B j (by omega)]
    rw [if_pos (Or.inr rfl)]
    rw [ih (j + 1) (by omega) f (by omega)]
    simp [List.range'_succ]

/-- **timerange_spec**: `timerange(start, start+n·dt, dt, exclusive=False)` is exactly one label per grid
point `0 … n`, in order — for every `n`. -/
theorem timerange_spec (F : Fl) (G : Grid) (n : ℕ) (r : ℚ) (B : Budget F G (n + 1) r) (fuel : ℕ) (hf : n + 2 ≤ fuel) :
    timerangeP F.fl fuel (G.s F) (label F G n) (G.h F) G.p false
      = some ((List.range (n + 1)).map (fun i : ℕ => label F G (i:ℤ))) := by
  unfold timerangeP
  have := timerangeLoop_spec F G n r B (n + 1) 0 (by omega) fuel (by omega) []
  have h0 : label F G ((0 : ℕ) : ℤ) = G.s F := by simpa using label_zero F G
  rw [h0] at this
  simpa [List.range_eq_range'] using this


theorem label_lt (F : Fl) (G : Grid) (N : ℕ) (r : ℚ) (B : Budget F G N r) (j k : ℕ) (hjk : j < k) (hk : k ≤ N) :
    label F G j < label F G k := by
  induction k with
  | zero => omega
  | succ k ih =>
    have h1 := label_lt_succ F G N r B k hk
    by_cases hj : j = k
    · subst hj; exact h1
    · exact lt_trans (ih (by omega) (by omega)) h1

/-- the labels of a run are strictly increasing: no duplicates, nothing out of order. -/
theorem labels_increasing (F : Fl) (G : Grid) (n : ℕ) (r : ℚ) (B : Budget F G (n + 1) r) :
    ((List.range (n + 1)).map (fun i : ℕ => label F G (i:ℤ))).Pairwise (· < ·) := by
  rw [List.pairwise_map]
  have h := List.pairwise_lt_range (n := n + 1)
  refine List.Pairwise.imp_of_mem ?_ h
  intro a b ha hb hab
  rw [List.mem_range] at ha hb
  exact label_lt F G (n + 1) r B a b hab (by omega)

/-! ### memo keys: route independence -/

/-- **route_independent**: whatever arithmetic produced `x₁` and `x₂`, if both are within `r` of grid
point `k` they are normalised to the same key `label k` … -/
theorem route_independent (F : Fl) (G : Grid) (N : ℕ) (r : ℚ) (B : Budget F G N r) (k : ℕ) (hk : k ≤ N)
    (x₁ x₂ : ℚ) (h₁ : |x₁ - G.g k| ≤ r) (h₂ : |x₂ - G.g k| ≤ r) :
    memoKey F.fl (G.s F) (G.h F) G.p x₁ = label F G k ∧ memoKey F.fl (G.s F) (G.h F) G.p x₂ = label F G k := by
  have hKN : |(((k : ℕ) : ℤ) : ℚ)| ≤ (N:ℚ) := by
    rw [abs_of_nonneg (by positivity)]; exact_mod_cast hk
  have hQ := lt_of_le_of_lt (Qerr_mono _ G.S G.H _ r _ _ F.u_nonneg B.h_pos G.H_pos hKN) B.hQ
  have hD := lt_of_le_of_lt (Derr_mono _ G.S G.H (G.s F) _ _ _ F.u_nonneg B.h_pos G.H_pos hKN) B.hD
  exact ⟨normalize_near F G x₁ k r B.h_pos h₁ hQ hD, normalize_near F G x₂ k r B.h_pos h₂ hQ hD⟩

/-- … hence `Model.memoize` (look the key up, else evaluate the equation *at the key* and store) returns
the same value: the result is a function of the key alone. -/
theorem route_independent_value {V : Type} (F : Fl) (G : Grid) (N : ℕ) (r : ℚ) (B : Budget F G N r) (k : ℕ)
    (hk : k ≤ N) (x₁ x₂ : ℚ) (h₁ : |x₁ - G.g k| ≤ r) (h₂ : |x₂ - G.g k| ≤ r) (valueAtKey : ℚ → V) :
    valueAtKey (memoKey F.fl (G.s F) (G.h F) G.p x₁) = valueAtKey (memoKey F.fl (G.s F) (G.h F) G.p x₂) := by
  obtain ⟨a, b⟩ := route_independent F G N r B k hk x₁ x₂ h₁ h₂
  rw [a, b]

/-! ### the session clock -/

/-- **clock_normalised_exact**: a clock advanced by `normalize(c + dt)` visits `label 0, label 1, …`
exactly and stops after `label n` — for every number of calls. -/
theorem clock_normalised_exact (c : Cfg) (hc : c.stepClockNormalised = true) (F : Fl) (G : Grid) (n : ℕ) (r : ℚ)
    (B : Budget F G (n + 1) r) :
    ∀ (calls d j : ℕ), j + d = n + 1 →
      sessionClocks c F.fl (G.s F) (label F G n) (G.h F) G.p calls (label F G j)
        = (List.range' j (min calls d)).map (fun i : ℕ => label F G (i:ℤ)) := by
  intro calls
  induction calls with
  | zero => intro d j _; simp [sessionClocks]
  | succ calls ih =>
    intro d j hj
    rw [sessionClocks]
    cases d with
    | zero =>
      have hj' : j = n + 1 := by omega
      subst hj'
      rw [if_pos (label_lt_succ F G (n + 1) r B n (le_refl _))]
      simp
    | succ d =>
      have hjn : j ≤ n := by omega
      rw [if_neg (not_lt.mpr (label_mono F G j n hjn))]
      have hnext : sessionNext c F.fl (G.s F) (G.h F) G.p (label F G j) = label F G ((j + 1 : ℕ) : ℤ) := by
        unfold sessionNext
        rw [if_pos hc]
        exact advance_label F G (n + 1) r B j (by omega)
      rw [hnext, ih d (j + 1) (by omega), Nat.succ_min_succ, List.range'_succ]
      simp

theorem session_clocks_spec (c : Cfg) (hc : c.stepClockNormalised = true) (F : Fl) (G : Grid) (n : ℕ) (r : ℚ)
    (B : Budget F G (n + 1) r) (calls : ℕ) :
    sessionClocks c F.fl (G.s F) (label F G n) (G.h F) G.p calls (G.s F)
      = (List.range (min calls (n + 1))).map (fun i : ℕ => label F G (i:ℤ)) := by
  have := clock_normalised_exact c hc F G n r B calls (n + 1) 0 (by omega)
  have h0 : label F G ((0 : ℕ) : ℤ) = G.s F := by simpa using label_zero F G
  rw [h0] at this
  simpa [List.range_eq_range'] using this

/-- one `run_step` at clock value `G'.s` (the label of the decimal `G'.S`) returns exactly that one key. -/
theorem session_step_keys (c : Cfg) (hc : c.simBoundInclusive = true) (F : Fl) (G' : Grid) (r : ℚ)
    (B : Budget F G' 1 r) (fuel : ℕ) (hf : 2 ≤ fuel) :
    sessionStepKeys c F.fl fuel (G'.h F) G'.p (G'.s F) = some [G'.s F] := by
  unfold sessionStepKeys simTimes
  rw [if_pos hc]
  have := timerange_spec F G' 0 r B fuel hf
  have h0 : label F G' ((0 : ℕ) : ℤ) = G'.s F := by simpa using label_zero F G'
  have h0' : label F G' 0 = G'.s F := label_zero F G'
  simpa [h0'] using this

/-! ### `precision_and_scale` on decimal digit strings -/

theorem stripZeros_pow (j q : ℕ) (hq : q % 10 ≠ 0) : stripZeros (10 ^ j * q) = q := by
  induction j with
  | zero =>
    rw [stripZeros]
    simp only [pow_zero, one_mul]
    rw [if_neg]; intro h; exact hq h.1
  | succ j ih =>
    rw [stripZeros]
    have hqpos : 0 < q := by omega
    have h1 : 10 ^ (j + 1) * q = 10 * (10 ^ j * q) := by rw [pow_succ]; ring
    have hpos : 0 < 10 ^ j * q := Nat.mul_pos (by positivity) hqpos
    rw [h1, if_pos ⟨by omega, by omega⟩, Nat.mul_div_cancel_left _ (by norm_num : 0 < 10)]
    exact ih

theorem ilog10_eq (p : ℕ) : ∀ n : ℕ, 10 ^ p ≤ n → n < 10 ^ (p + 1) → ilog10 n = p := by
  induction p with
  | zero =>
    intro n _ h2
    rw [ilog10, if_pos (by simpa using h2)]
  | succ p ih =>
    intro n h1 h2
    rw [ilog10]
    have h10 : 10 ≤ n := by
      have : 10 ^ 1 ≤ 10 ^ (p + 1) := Nat.pow_le_pow_right (by norm_num) (by omega)
      omega
    rw [if_neg (by omega)]
    have e1 : 10 ^ (p + 1) = 10 ^ p * 10 := pow_succ 10 p
    have e2 : 10 ^ (p + 1 + 1) = 10 ^ (p + 1) * 10 := pow_succ 10 (p + 1)
    rw [ih (n / 10) (by rw [Nat.le_div_iff_mul_le (by norm_num)]; omega)
      (by rw [Nat.div_lt_iff_lt_mul (by norm_num)]; omega)]

/-- **scale_correct** on decimal digit strings: the number written `ip.f` with `p` fraction digits
(`f < 10^p`, last digit non-zero unless there is no fraction), at most 14 significant digits in all:
`scale` returns exactly the number of decimals `p`. -/
theorem scale_correct (ip f p : ℕ) (hf : f < 10 ^ p) (hmin : p = 0 ∨ f % 10 ≠ 0)
    (hmag : (if ip = 0 then 1 else ilog10 ip + 1) + p ≤ 14) :
    scale ((ip : ℚ) + (f : ℚ) / (10 : ℚ) ^ p) = p := by
  have hp10 : (0 : ℚ) < (10 : ℚ) ^ p := by positivity
  have hfr0 : 0 ≤ (f : ℚ) / (10 : ℚ) ^ p := by positivity
  have hfr1 : (f : ℚ) / (10 : ℚ) ^ p < 1 := by
    rw [div_lt_one hp10]; exact_mod_cast hf
  set x : ℚ := (ip : ℚ) + (f : ℚ) / (10 : ℚ) ^ p with hx
  have hx0 : 0 ≤ x := by positivity
  have habs : absQ x = x := by rw [absQ_eq, abs_of_nonneg hx0]
  have hfloor : x.floor = (ip : ℤ) := by
    show ⌊x⌋ = (ip : ℤ)
    rw [Int.floor_eq_iff]; constructor
    · push_cast; linarith
    · push_cast; linarith
  unfold scale precisionAndScale
  simp only [habs, hfloor, Int.toNat_natCast]
  set mag := (if ip = 0 then 1 else ilog10 ip + 1) with hmagd
  by_cases hm : mag ≥ maxDigits
  · rw [if_pos hm]
    simp only [maxDigits] at hm
    show 0 = p
    omega
  · rw [if_neg hm]
    simp only [maxDigits] at hm ⊢
    have hj : 14 - mag = (14 - mag - p) + p := by omega
    set j := 14 - mag - p with hjd
    have hfrac : x - (ip : ℚ) = (f : ℚ) / (10 : ℚ) ^ p := by rw [hx]; ring
    have hprod : (((10 ^ (14 - mag) : ℕ) : ℚ)) * (x - (ip:ℚ)) + 1 / 2 = ((10 ^ j * f : ℕ) : ℚ) + 1 / 2 := by
      rw [hfrac, hj]; push_cast; rw [pow_add]; field_simp
    have hfl : ((((10 ^ (14 - mag) : ℕ) : ℚ)) * (x - (ip:ℚ)) + 1 / 2).floor = ((10 ^ j * f : ℕ) : ℤ) := by
      rw [hprod]
      show ⌊((10 ^ j * f : ℕ) : ℚ) + 1 / 2⌋ = ((10 ^ j * f : ℕ) : ℤ)
      rw [Int.floor_eq_iff]; constructor
      · push_cast; linarith
      · push_cast; linarith
    rw [hfl, Int.toNat_natCast]
    have hfd : 10 ^ (14 - mag) + 10 ^ j * f = 10 ^ j * (10 ^ p + f) := by
      rw [hj, pow_add]; ring
    rw [hfd]
    have hq : (10 ^ p + f) % 10 ≠ 0 := by
      rcases hmin with h0 | h1
      · subst h0; simp at hf; subst hf; simp
      · have : p = (p - 1) + 1 := by
          rcases Nat.eq_zero_or_pos p with h | h
          · subst h; simp at hf; subst hf; simp at h1
          · omega
        rw [this, pow_succ]; omega
    rw [stripZeros_pow j _ hq]
    exact ilog10_eq p _ (by omega) (by rw [pow_succ]; omega)


/-- hence the precision the code computes makes the decimal a multiple of `10^-precision` … -/
theorem dec_of_scale (ip f p : ℕ) (hf : f < 10 ^ p) (hmin : p = 0 ∨ f % 10 ≠ 0)
    (hmag : (if ip = 0 then 1 else ilog10 ip + 1) + p ≤ 14) :
    ∃ m : ℤ, (ip : ℚ) + (f : ℚ) / (10 : ℚ) ^ p = m / pow10 (scale ((ip : ℚ) + (f : ℚ) / (10 : ℚ) ^ p)) := by
  rw [scale_correct ip f p hf hmin hmag, pow10_eq]
  refine ⟨(ip : ℤ) * 10 ^ p + f, ?_⟩
  have hp10 : (0 : ℚ) < (10 : ℚ) ^ p := by positivity
  push_cast; field_simp

/-- … and so does every larger precision (`max (scale start) (scale dt)`): the `decS`/`decH` fields of `Grid`. -/
theorem dec_mono (x : ℚ) (p q : ℕ) (hpq : p ≤ q) (h : ∃ m : ℤ, x = m / pow10 p) : ∃ m : ℤ, x = m / pow10 q := by
  obtain ⟨m, hm⟩ := h
  obtain ⟨d, rfl⟩ := Nat.exists_eq_add_of_le hpq
  refine ⟨m * 10 ^ d, ?_⟩
  rw [hm, pow10_eq, pow10_eq, pow_add]
  have hp10 : (0 : ℚ) < (10 : ℚ) ^ p := by positivity
  have hq10 : (0 : ℚ) < (10 : ℚ) ^ d := by positivity
  push_cast; field_simp

example : scale ((1000 : ℚ) + 1 / 10 ^ 1) = 1 := by
  have := scale_correct 1000 1 1 (by norm_num) (Or.inr (by norm_num)) (by simp [ilog10])
  simpa using this


/-! ## Wave 2: exclusive `timerange`, elements that consume `t`, the code's own precision, inner budget, slack form -/

/-! ### (wave 2) the exclusive variant of `timerange` -/

theorem timerangeLoop_spec_excl (F : Fl) (G : Grid) (n : ℕ) (r : ℚ) (B : Budget F G (n + 1) r) :
    ∀ (d j : ℕ), j + d = n + 1 → ∀ fuel, d + 1 ≤ fuel → ∀ acc,
      timerangeLoop F.fl (G.s F) (label F G n) (G.h F) G.p true fuel (label F G j) acc
        = some (acc ++ (List.range' j (d - 1)).map (fun i : ℕ => label F G (i:ℤ))) := by
  intro d
  induction d with
  | zero =>
    intro j hj fuel hf acc
    obtain ⟨f, rfl⟩ : ∃ f, fuel = f + 1 := ⟨fuel - 1, by omega⟩
    have hj' : j = n + 1 := by omega
    subst hj'
    have hlt := label_lt_succ F G (n + 1) r B n (le_refl _)
    rw [timerangeLoop, if_neg (not_le.mpr hlt)]
    simp
  | succ d ih =>
    intro j hj fuel hf acc
    obtain ⟨f, rfl⟩ : ∃ f, fuel = f + 1 := ⟨fuel - 1, by omega⟩
    have hjn : j ≤ n := by omega
    rw [timerangeLoop, if_pos (label_mono F G j n hjn)]
    rw [advance_label F G (n + 1) r B j (by omega)]
    by_cases hlast : j = n
    · subst hlast
      have hd : d = 0 := by omega
      subst hd
      rw [if_neg (by simp), ih (j + 1) (by omega) f (by omega)]
      simp
    · have hlt : label F G j < label F G n := label_lt F G (n + 1) r B j n (by omega) (by omega)
      rw [if_pos (Or.inl hlt), ih (j + 1) (by omega) f (by omega)]
      obtain ⟨d', rfl⟩ : ∃ d', d = d' + 1 := ⟨d - 1, by omega⟩
      simp [List.range'_succ]

/-- **timerange_spec_excl**: `timerange(start, start+n·dt, dt)` with the default `exclusive=True` is exactly one
label per grid point `0 … n-1` (the stop time itself is left out, nothing else is) — for every `n`. -/
theorem timerange_spec_excl (F : Fl) (G : Grid) (n : ℕ) (r : ℚ) (B : Budget F G (n + 1) r) (fuel : ℕ)
    (hf : n + 2 ≤ fuel) :
    timerangeP F.fl fuel (G.s F) (label F G n) (G.h F) G.p true
      = some ((List.range n).map (fun i : ℕ => label F G (i:ℤ))) := by
  unfold timerangeP
  have := timerangeLoop_spec_excl F G n r B (n + 1) 0 (by omega) fuel (by omega) []
  have h0 : label F G ((0 : ℕ) : ℤ) = G.s F := by simpa using label_zero F G
  rw [h0] at this
  simpa [List.range_eq_range'] using this

/-! ### (wave 2) elements that consume `t`: TIME, thresholds, stocks -/

theorem Grid.g_pred (G : Grid) (k : ℕ) : G.g ((k + 1 : ℕ) : ℤ) - G.H = G.g (k:ℤ) := by
  unfold Grid.g; push_cast; ring

/-- one bare float subtraction `label (k+1) - dt` (the `t - model.dt` of every stock and delay) lands
within `r` of the previous grid point. -/
theorem step_back_err (F : Fl) (G : Grid) (N : ℕ) (r : ℚ) (B : Budget F G N r) (k : ℕ) (hk : k + 1 ≤ N) :
    |F.fl (label F G ((k + 1 : ℕ) : ℤ) - G.h F) - G.g (k:ℤ)| ≤ r := by
  have e0 := F.u_nonneg
  have hH := G.H_pos
  have hM := G.g_abs_le N (k + 1) hk
  have hM0 : 0 ≤ G.M N := le_trans (abs_nonneg _) hM
  have hh := B.h_pos
  set e := F.u
  set h := G.h F with hhd
  set gk := G.g ((k + 1 : ℕ) : ℤ) with hgk
  set y := label F G ((k + 1 : ℕ) : ℤ) - h with hy
  have l1 : |label F G ((k + 1 : ℕ) : ℤ) - gk| ≤ e * |gk| := F.err _
  have l2 : |label F G ((k + 1 : ℕ) : ℤ)| ≤ (1 + e) * |gk| := F.abs_le _
  have l3 : |h - G.H| ≤ e * G.H := by
    have := F.err G.H; rwa [abs_of_pos hH] at this
  have y1 : |y| ≤ (1 + e) * |gk| + h := by
    have := abs_sub (label F G ((k + 1 : ℕ) : ℤ)) h
    rw [abs_of_pos hh] at this; linarith
  have y2 := F.err y
  have y3 : |y - G.g (k:ℤ)| ≤ e * |gk| + e * G.H := by
    rw [← G.g_pred k]
    have e1 : y - (gk - G.H) = (label F G ((k + 1 : ℕ) : ℤ) - gk) - (h - G.H) := by rw [hy]; ring
    rw [e1]
    have := abs_sub (label F G ((k + 1 : ℕ) : ℤ) - gk) (h - G.H)
    linarith
  have y4 := abs_sub_le (F.fl y) y (G.g (k:ℤ))
  have y5 : e * |y| ≤ e * ((1 + e) * |gk| + h) := mul_le_mul_of_nonneg_left y1 e0
  have y6 : e * ((1 + e) * |gk|) ≤ e * ((1 + e) * G.M N) :=
    mul_le_mul_of_nonneg_left (mul_le_mul_of_nonneg_left hM (by positivity)) e0
  have y7 : e * |gk| ≤ e * G.M N := mul_le_mul_of_nonneg_left hM e0
  have := B.hR
  nlinarith

/-- the key of `label (k+1) - dt` is `label k`: a `t - dt` chain walks down the labels. -/
theorem back_label (F : Fl) (G : Grid) (N : ℕ) (r : ℚ) (B : Budget F G N r) (k : ℕ) (hk : k + 1 ≤ N) :
    memoKey F.fl (G.s F) (G.h F) G.p (F.fl (label F G ((k + 1 : ℕ) : ℤ) - G.h F)) = label F G (k:ℤ) :=
  (route_independent F G N r B k (by omega) _ _ (step_back_err F G N r B k hk) (step_back_err F G N r B k hk)).1

/-- **stock_depth_label**: evaluated at `label k`, a stock takes exactly `k` Euler steps back to its
initial value — whatever the start time (0.3 is as good as 0): it leaves the initial value at step 1,
not one step early or late. -/
theorem stock_depth_label (F : Fl) (G : Grid) (N : ℕ) (r : ℚ) (B : Budget F G N r) :
    ∀ (k : ℕ), k ≤ N → ∀ fuel, k + 1 ≤ fuel →
      stockDepth F.fl (G.s F) (G.h F) G.p fuel (label F G (k:ℤ)) = some k := by
  intro k
  induction k with
  | zero =>
    intro _ fuel hf
    obtain ⟨f, rfl⟩ : ∃ f, fuel = f + 1 := ⟨fuel - 1, by omega⟩
    have h0 : label F G ((0 : ℕ) : ℤ) = G.s F := by simpa using label_zero F G
    rw [stockDepth, h0, if_pos (le_refl _)]
  | succ k ih =>
    intro hk fuel hf
    obtain ⟨f, rfl⟩ : ∃ f, fuel = f + 1 := ⟨fuel - 1, by omega⟩
    have h0 : label F G ((0 : ℕ) : ℤ) = G.s F := by simpa using label_zero F G
    have hlt : G.s F < label F G ((k + 1 : ℕ) : ℤ) := by
      rw [← h0]; exact label_lt F G N r B 0 (k + 1) (by omega) hk
    rw [stockDepth, if_neg (not_le.mpr hlt), back_label F G N r B k hk, ih (by omega) f (by omega)]
    rfl

/-- **elem_route_independent**: an element that consumes `t` directly, asked for at ANY float within the
budget of grid point `k`, is evaluated at `label k`: `TIME` returns the label, a threshold compares the
label, a stock has taken exactly `k` steps — the same for every arithmetic route. -/
theorem elem_route_independent (F : Fl) (G : Grid) (N : ℕ) (r : ℚ) (B : Budget F G N r) (k : ℕ) (hk : k ≤ N)
    (x : ℚ) (hx : |x - G.g k| ≤ r) (fuel : ℕ) (hf : k + 1 ≤ fuel) :
    evalElem F.fl fuel (G.s F) (G.h F) G.p Elem.time x = some (label F G k) ∧
    (∀ θ, evalElem F.fl fuel (G.s F) (G.h F) G.p (Elem.thr θ) x = some (if θ ≤ label F G k then 1 else 0)) ∧
    evalElem F.fl fuel (G.s F) (G.h F) G.p Elem.stock x = some (k : ℚ) := by
  have hkey := (route_independent F G N r B k hk x x hx hx).1
  refine ⟨?_, ?_, ?_⟩
  · simp only [evalElem, hkey]
  · intro θ; simp only [evalElem, hkey]
  · simp only [evalElem, hkey, stock_depth_label F G N r B k hk fuel hf]; rfl

theorem elem_routes_agree (F : Fl) (G : Grid) (N : ℕ) (r : ℚ) (B : Budget F G N r) (k : ℕ) (hk : k ≤ N)
    (x₁ x₂ : ℚ) (h₁ : |x₁ - G.g k| ≤ r) (h₂ : |x₂ - G.g k| ≤ r) (fuel : ℕ) (hf : k + 1 ≤ fuel) (e : Elem) :
    evalElem F.fl fuel (G.s F) (G.h F) G.p e x₁ = evalElem F.fl fuel (G.s F) (G.h F) G.p e x₂ := by
  obtain ⟨a1, a2, a3⟩ := elem_route_independent F G N r B k hk x₁ h₁ fuel hf
  obtain ⟨b1, b2, b3⟩ := elem_route_independent F G N r B k hk x₂ h₂ fuel hf
  cases e with
  | time => rw [a1, b1]
  | thr θ => rw [a2, b2]
  | stock => rw [a3, b3]

theorem ilog10_lt (n : ℕ) : n < 10 ^ (ilog10 n + 1) := by
  induction n using Nat.strong_induction_on with
  | _ n ih =>
    rw [ilog10]
    split
    · simpa using ‹n < 10›
    · have h := ih (n / 10) (by omega)
      rw [pow_succ]
      omega
def magOf (ip : ℕ) : ℕ := if ip = 0 then 1 else ilog10 ip + 1
theorem lt_pow_magOf (ip : ℕ) : ip < 10 ^ magOf ip := by
  unfold magOf
  split
  · subst_vars; norm_num
  · exact ilog10_lt ip
theorem scale_of_floors (x : ℚ) (ip j q p : ℕ)
    (hfloor : (absQ x).floor = (ip : ℤ))
    (hm : ¬ (magOf ip ≥ maxDigits))
    (hfd : (10 ^ (maxDigits - magOf ip) : ℕ)
        + ((((10 ^ (maxDigits - magOf ip) : ℕ)) : ℚ) * (absQ x - (ip : ℚ)) + 1 / 2).floor.toNat = 10 ^ j * q)
    (hq : q % 10 ≠ 0) (hq1 : 10 ^ p ≤ q) (hq2 : q < 10 ^ (p + 1)) : scale x = p := by
  unfold scale precisionAndScale
  simp only [hfloor, Int.toNat_natCast]
  unfold magOf at hm hfd
  rw [if_neg hm]
  simp only [hfd]
  rw [stripZeros_pow j q hq]
  exact ilog10_eq p q hq1 hq2

theorem scale_of_big (x : ℚ) (ip : ℕ) (hfloor : (absQ x).floor = (ip : ℤ)) (hm : magOf ip ≥ maxDigits) :
    scale x = 0 := by
  unfold scale precisionAndScale
  simp only [hfloor, Int.toNat_natCast]
  unfold magOf at hm
  rw [if_pos hm]

theorem pow_le_14 (m p : ℕ) (h : m + p ≤ 14) : (10:ℚ) ^ m * (10:ℚ) ^ p ≤ (10:ℚ) ^ 14 := by
  rw [← pow_add]
  exact pow_le_pow_right₀ (by norm_num) h

/-- **scale_float**: `precision_and_scale` applied to a *float* `x` within relative error `e` of the decimal
`X = ±ip.f` (`p` fraction digits, last one non-zero, at most 14 significant digits) still returns the
scale `p` of the decimal — provided `e·10^14 ≤ 1/4` (IEEE doubles: `2^-53·10^14 ≈ 0.011`). -/
theorem scale_float (ip f p : ℕ) (hf : f < 10 ^ p) (hmin : p = 0 ∨ f % 10 ≠ 0)
    (hmag : magOf ip + p ≤ 14) (X x e : ℚ) (hX : |X| = (ip : ℚ) + (f : ℚ) / (10 : ℚ) ^ p)
    (he0 : 0 ≤ e) (he : e * 10 ^ 14 ≤ 1 / 4) (hx : |x - X| ≤ e * |X|) : scale x = p := by
  have hp10 : (0 : ℚ) < (10 : ℚ) ^ p := by positivity
  have hfr0 : 0 ≤ (f : ℚ) / (10 : ℚ) ^ p := by positivity
  have hf1 : (f : ℚ) + 1 ≤ (10 : ℚ) ^ p := by exact_mod_cast hf
  have hfr1 : (f : ℚ) / (10 : ℚ) ^ p ≤ 1 - 1 / (10 : ℚ) ^ p := by
    rw [div_le_iff₀ hp10]; field_simp; linarith
  set A : ℚ := |X| with hA
  set a : ℚ := |x| with ha
  have ha0 : 0 ≤ a := abs_nonneg x
  have haA : |a - A| ≤ e * A := le_trans (abs_abs_sub_abs_le_abs_sub x X) hx
  obtain ⟨haA1, haA2⟩ := abs_le.mp haA
  have hipA : (ip : ℚ) ≤ A := by rw [hX]; linarith
  have hmagip : (ip : ℚ) + 1 ≤ (10 : ℚ) ^ magOf ip := by exact_mod_cast lt_pow_magOf ip
  have hinv : 0 < 1 / (10 : ℚ) ^ p := by positivity
  have hAm : A ≤ (10 : ℚ) ^ magOf ip := by rw [hX]; linarith
  have hmp := pow_le_14 (magOf ip) p hmag
  have hm10 : (0 : ℚ) < (10 : ℚ) ^ magOf ip := by positivity
  -- ε·10^p ≤ 1/4
  have hεp : e * A * (10 : ℚ) ^ p ≤ 1 / 4 := by
    have h1 : e * A ≤ e * (10 : ℚ) ^ magOf ip := mul_le_mul_of_nonneg_left hAm he0
    have h2 : e * A * (10 : ℚ) ^ p ≤ e * (10 : ℚ) ^ magOf ip * (10 : ℚ) ^ p :=
      mul_le_mul_of_nonneg_right h1 hp10.le
    have h3 : e * ((10 : ℚ) ^ magOf ip * (10 : ℚ) ^ p) ≤ e * (10 : ℚ) ^ 14 := mul_le_mul_of_nonneg_left hmp he0
    nlinarith
  have hp1 : (1 : ℚ) ≤ (10 : ℚ) ^ p := one_le_pow₀ (by norm_num)
  have hε : e * A ≤ 1 / 4 := by
    have : 0 ≤ e * A := mul_nonneg he0 (le_trans (by positivity) hipA)
    nlinarith
  have hε' : e * A ≤ (1 / 4) / (10 : ℚ) ^ p := by rw [le_div_iff₀ hp10]; exact hεp
  have habsx : absQ x = a := absQ_eq x
  by_cases hB : f = 0 ∧ a < ip
  · -- the float fell below an integer decimal
    obtain ⟨hf0, hlt⟩ := hB
    have hp0 : p = 0 := by
      rcases hmin with h | h
      · exact h
      · subst hf0; simp at h
    subst hp0; subst hf0
    have hAip : A = ip := by rw [hX]; simp
    have hip1 : 1 ≤ ip := by
      by_contra h0
      have : ip = 0 := by omega
      subst this; simp at hlt; linarith
    obtain ⟨ip', rfl⟩ : ∃ ip', ip = ip' + 1 := ⟨ip - 1, by omega⟩
    have hfloor : (absQ x).floor = (ip' : ℤ) := by
      rw [habsx]
      show ⌊a⌋ = (ip' : ℤ)
      rw [Int.floor_eq_iff]; push_cast at hlt hAip ⊢; constructor <;> linarith
    by_cases hm : magOf ip' ≥ maxDigits
    · exact scale_of_big x ip' hfloor hm
    · have hm' : magOf ip' < 14 := by simpa [maxDigits] using hm
      have hip'10 : ((ip' : ℚ) + 1) ≤ (10 : ℚ) ^ magOf ip' := by exact_mod_cast lt_pow_magOf ip'
      have hmult : (0 : ℚ) < (10 : ℚ) ^ (14 - magOf ip') := by positivity
      have hprod : (10 : ℚ) ^ (14 - magOf ip') * (10 : ℚ) ^ magOf ip' = (10 : ℚ) ^ 14 := by
        rw [← pow_add]; congr 1; omega
      -- mult'·ε ≤ 1/4
      have hme : (10 : ℚ) ^ (14 - magOf ip') * (e * A) ≤ 1 / 4 := by
        have h1 : e * A ≤ e * (10 : ℚ) ^ magOf ip' := by
          apply mul_le_mul_of_nonneg_left _ he0
          rw [hAip]; push_cast; exact hip'10
        have h2 := mul_le_mul_of_nonneg_left h1 hmult.le
        have h3 : (10 : ℚ) ^ (14 - magOf ip') * (e * (10 : ℚ) ^ magOf ip') = e * (10 : ℚ) ^ 14 := by
          rw [← hprod]; ring
        linarith
      refine scale_of_floors x ip' (14 - magOf ip') 2 0 hfloor hm ?_ (by norm_num) (by norm_num) (by norm_num)
      simp only [maxDigits]
      have hfl : ((((10 ^ (14 - magOf ip') : ℕ)) : ℚ) * (absQ x - (ip' : ℚ)) + 1 / 2).floor
          = ((10 ^ (14 - magOf ip') : ℕ) : ℤ) := by
        rw [habsx]
        show ⌊(((10 ^ (14 - magOf ip') : ℕ)) : ℚ) * (a - (ip' : ℚ)) + 1 / 2⌋ = _
        rw [Int.floor_eq_iff]
        push_cast at hlt hAip ⊢
        rw [hAip] at haA1
        constructor <;> nlinarith
      rw [hfl, Int.toNat_natCast]; ring
  · -- the integer part survives
    have hfloor : (absQ x).floor = (ip : ℤ) := by
      rw [habsx]
      show ⌊a⌋ = (ip : ℤ)
      rw [Int.floor_eq_iff]; constructor
      · by_cases hf0 : f = 0
        · have : ¬ a < ip := fun h => hB ⟨hf0, h⟩
          push_cast; linarith
        · have hf1' : (1 : ℚ) ≤ f := by exact_mod_cast Nat.one_le_iff_ne_zero.mpr hf0
          have : 1 / (10 : ℚ) ^ p ≤ (f : ℚ) / (10 : ℚ) ^ p := div_le_div_of_nonneg_right hf1' hp10.le
          have h4 : (1 / 4) / (10 : ℚ) ^ p < 1 / (10 : ℚ) ^ p := by
            apply div_lt_div_of_pos_right _ hp10; norm_num
          push_cast; rw [hX] at haA1 hε'; linarith
      · have h4 : (1 / 4) / (10 : ℚ) ^ p < 1 / (10 : ℚ) ^ p := by
          apply div_lt_div_of_pos_right _ hp10; norm_num
        push_cast; rw [hX] at haA2 hε'; linarith
    by_cases hm : magOf ip ≥ maxDigits
    · have : p = 0 := by simp only [maxDigits] at hm; omega
      rw [this]; exact scale_of_big x ip hfloor hm
    · have hm' : magOf ip < 14 := by simpa [maxDigits] using hm
      have hj : 14 - magOf ip = (14 - magOf ip - p) + p := by omega
      set j := 14 - magOf ip - p with hjd
      have hmult : (0 : ℚ) < (10 : ℚ) ^ (14 - magOf ip) := by positivity
      have hprod : (10 : ℚ) ^ (14 - magOf ip) * (10 : ℚ) ^ magOf ip = (10 : ℚ) ^ 14 := by
        rw [← pow_add]; congr 1; omega
      have hme : (10 : ℚ) ^ (14 - magOf ip) * (e * A) ≤ 1 / 4 := by
        have h1 : e * A ≤ e * (10 : ℚ) ^ magOf ip := mul_le_mul_of_nonneg_left hAm he0
        have h2 := mul_le_mul_of_nonneg_left h1 hmult.le
        have h3 : (10 : ℚ) ^ (14 - magOf ip) * (e * (10 : ℚ) ^ magOf ip) = e * (10 : ℚ) ^ 14 := by
          rw [← hprod]; ring
        linarith
      have hq : (10 ^ p + f) % 10 ≠ 0 := by
        rcases hmin with h0 | h1
        · subst h0; simp at hf; subst hf; simp
        · have : p = (p - 1) + 1 := by
            rcases Nat.eq_zero_or_pos p with h | h
            · subst h; simp at hf; subst hf; simp at h1
            · omega
          rw [this, pow_succ]; omega
      refine scale_of_floors x ip j (10 ^ p + f) p hfloor hm ?_ hq (by omega) (by rw [pow_succ]; omega)
      simp only [maxDigits]
      have hexact : (((10 ^ (14 - magOf ip) : ℕ)) : ℚ) * (A - (ip : ℚ)) = ((10 ^ j * f : ℕ) : ℚ) := by
        rw [hX, hj]; push_cast; rw [pow_add]; field_simp; ring
      have hfl : ((((10 ^ (14 - magOf ip) : ℕ)) : ℚ) * (absQ x - (ip : ℚ)) + 1 / 2).floor
          = ((10 ^ j * f : ℕ) : ℤ) := by
        rw [habsx]
        show ⌊(((10 ^ (14 - magOf ip) : ℕ)) : ℚ) * (a - (ip : ℚ)) + 1 / 2⌋ = _
        have e1 : (((10 ^ (14 - magOf ip) : ℕ)) : ℚ) * (a - (ip : ℚ))
            = ((10 ^ j * f : ℕ) : ℚ) + (((10 ^ (14 - magOf ip) : ℕ)) : ℚ) * (a - A) := by
          rw [← hexact]; ring
        rw [e1, Int.floor_eq_iff]
        have hc : (((10 ^ (14 - magOf ip) : ℕ)) : ℚ) = (10 : ℚ) ^ (14 - magOf ip) := by push_cast; rfl
        rw [hc]
        have b1 : (10 : ℚ) ^ (14 - magOf ip) * (a - A) ≤ (10 : ℚ) ^ (14 - magOf ip) * (e * A) :=
          mul_le_mul_of_nonneg_left haA2 hmult.le
        have b2 : (10 : ℚ) ^ (14 - magOf ip) * (-(e * A)) ≤ (10 : ℚ) ^ (14 - magOf ip) * (a - A) :=
          mul_le_mul_of_nonneg_left haA1 hmult.le
        constructor
        · push_cast; linarith
        · push_cast; linarith
      rw [hfl, Int.toNat_natCast, hj, pow_add]; ring


/-- a decimal as the digit string the user wrote (sign apart): `ip.f` with `p` fraction digits, the last
one non-zero, at most 14 significant digits — the domain of `precision_and_scale`. -/
structure DecStr where
  ip : ℕ
  f : ℕ
  p : ℕ
  hf : f < 10 ^ p
  hmin : p = 0 ∨ f % 10 ≠ 0
  hmag : magOf ip + p ≤ 14

def DecStr.abs (d : DecStr) : ℚ := (d.ip : ℚ) + (d.f : ℚ) / (10 : ℚ) ^ d.p

/-- `X` is the number written `±d`. -/
def Written (X : ℚ) (d : DecStr) : Prop := |X| = d.abs

theorem Written.dec {X : ℚ} {d : DecStr} (h : Written X d) : ∃ m : ℤ, X = m / pow10 d.p := by
  have hp10 : (0 : ℚ) < (10 : ℚ) ^ d.p := by positivity
  have hv : |X| = (((d.ip : ℤ) * 10 ^ d.p + d.f : ℤ) : ℚ) / pow10 d.p := by
    rw [h, DecStr.abs, pow10_eq]; push_cast; field_simp
  rcases le_total 0 X with h0 | h0
  · rw [abs_of_nonneg h0] at hv; exact ⟨_, hv⟩
  · rw [abs_of_nonpos h0] at hv
    refine ⟨-((d.ip : ℤ) * 10 ^ d.p + d.f), ?_⟩
    have : X = -(-X) := by ring
    rw [this, hv]; push_cast; ring

/-- the scale the code computes from the *float* of a written decimal is the number of decimals written. -/
theorem Written.scale_fl {X : ℚ} {d : DecStr} (h : Written X d) (F : Fl) (hu : F.u * 10 ^ 14 ≤ 1 / 4) :
    scale (F.fl X) = d.p :=
  scale_float d.ip d.f d.p d.hf d.hmin d.hmag X (F.fl X) F.u h F.u_nonneg hu (F.err X)

/-- a written decimal that is a multiple of `10^-q` has at most `q` decimals written. -/
theorem Written.p_le {X : ℚ} {d : DecStr} (h : Written X d) (q : ℕ) (hq : ∃ m : ℤ, X = m / pow10 q) : d.p ≤ q := by
  obtain ⟨m, hm⟩ := hq
  by_contra hlt
  rw [not_le] at hlt
  obtain ⟨t, ht⟩ : ∃ t, d.p = q + t + 1 := ⟨d.p - q - 1, by omega⟩
  have hp10 : (0 : ℚ) < (10 : ℚ) ^ d.p := by positivity
  have hq10 : (0 : ℚ) < (10 : ℚ) ^ q := by positivity
  have h1 : |X| = (m.natAbs : ℚ) / (10 : ℚ) ^ q := by
    rw [hm, abs_div, pow10_eq, abs_of_pos hq10, Nat.cast_natAbs, Int.cast_abs]
  have h2 : ((d.ip * 10 ^ d.p + d.f : ℕ) : ℚ) * (10 : ℚ) ^ q = (m.natAbs : ℚ) * (10 : ℚ) ^ d.p := by
    have := h1.symm.trans h
    unfold DecStr.abs at this
    push_cast
    field_simp at this
    linarith
  have h3 : (d.ip * 10 ^ d.p + d.f) * 10 ^ q = m.natAbs * 10 ^ d.p := by exact_mod_cast h2
  rw [ht] at h3
  have h4 : d.ip * 10 ^ (q + t + 1) + d.f = m.natAbs * 10 ^ (t + 1) := by
    have e : m.natAbs * 10 ^ (q + t + 1) = (m.natAbs * 10 ^ (t + 1)) * 10 ^ q := by
      rw [show q + t + 1 = (t + 1) + q by omega, pow_add]; ring
    rw [e] at h3
    exact Nat.eq_of_mul_eq_mul_right (by positivity) h3
  have h5 : d.f % 10 = 0 := by
    have e1 : d.ip * 10 ^ (q + t + 1) = 10 * (d.ip * 10 ^ (q + t)) := by rw [pow_succ]; ring
    have e2 : m.natAbs * 10 ^ (t + 1) = 10 * (m.natAbs * 10 ^ t) := by rw [pow_succ]; ring
    omega
  rcases d.hmin with h0 | h0
  · omega
  · exact h0 h5

/-- a run spec as the user writes it: start and step are written decimals. -/
structure DGrid where
  S : ℚ
  H : ℚ
  dS : DecStr
  dH : DecStr
  wS : Written S dS
  wH : Written H dH
  H_pos : 0 < H

/-- the grid of a written run spec — with **the precision the code computes**, `max(scale start, scale dt)`,
no longer a free parameter (`precOf_float`). -/
def DGrid.toGrid (D : DGrid) : Grid where
  S := D.S
  H := D.H
  p := max D.dS.p D.dH.p
  H_pos := D.H_pos
  decS := dec_mono _ _ _ (le_max_left _ _) D.wS.dec
  decH := dec_mono _ _ _ (le_max_right _ _) D.wH.dec

/-- **precOf_float**: the precision `util.timerange` / `Model.memoize` / `run_step` compute from their float
arguments is the precision of the written grid. -/
theorem precOf_float (F : Fl) (hu : F.u * 10 ^ 14 ≤ 1 / 4) (D : DGrid) :
    precOf (D.toGrid.s F) (D.toGrid.h F) = D.toGrid.p := by
  unfold precOf Grid.s Grid.h
  show max (scale (F.fl D.S)) (scale (F.fl D.H)) = max D.dS.p D.dH.p
  rw [D.wS.scale_fl F hu, D.wH.scale_fl F hu]

/-! ### (wave 2) the per-step budget of a session, derived from the budget of the run -/

/-- the grid one `run_step` sees at clock `label k`: origin `g k`, same step, any precision `q` at which both
are decimals. -/
def Grid.shift (G : Grid) (k : ℕ) (q : ℕ) (hS : ∃ m : ℤ, G.g (k:ℤ) = m / pow10 q) (hH : ∃ m : ℤ, G.H = m / pow10 q) :
    Grid where
  S := G.g (k:ℤ)
  H := G.H
  p := q
  H_pos := G.H_pos
  decS := hS
  decH := hH

/-- the one inequality a session step needs beyond `Budget` (its origin is the *float* `label k`, whose size
is bounded by `(1+u)·M`, not the float of the start time). A condition on the outer grid alone. -/
structure InnerOK (F : Fl) (G : Grid) (N : ℕ) : Prop where
  hDs : F.u * ((1 + F.u) * (G.h F + G.M N)) + F.u * G.h F + F.u * G.M N < 1 / (2 * pow10 G.p)

/-- `InnerOK` follows from the outer budget with a factor 2 to spare in `hD`. -/
theorem InnerOK.of_double (F : Fl) (G : Grid) (N : ℕ) (hN : 1 ≤ N) (hu : F.u ≤ 1 / 2)
    (h2 : 2 * Derr F.u G.S G.H (G.s F) (G.h F) N < 1 / (2 * pow10 G.p)) : InnerOK F G N := by
  constructor
  refine lt_of_le_of_lt ?_ h2
  have e0 := F.u_nonneg
  have hH := G.H_pos
  have eH : |G.h F - G.H| ≤ F.u * G.H := by
    have := F.err G.H; rwa [abs_of_pos hH] at this
  obtain ⟨eH1, eH2⟩ := abs_le.mp eH
  have hs : (1 - F.u) * |G.S| ≤ |G.s F| := by
    have := abs_sub_abs_le_abs_sub G.S (F.fl G.S)
    have h' := F.err' G.S
    unfold Grid.s; linarith
  have hN' : (1 : ℚ) ≤ N := by exact_mod_cast hN
  unfold Derr Grid.M
  set e := F.u
  set h := G.h F
  have hS0 := abs_nonneg G.S
  -- 2e|s| ≥ e²|S|
  have t1 : e * e * |G.S| ≤ 2 * e * |G.s F| := by
    have a : e * |G.S| ≤ 2 * |G.s F| := by nlinarith
    nlinarith
  -- h(2N-1) ≥ (1-e) H N
  have t2 : (1 - e) * G.H * N ≤ h * (2 * N - 1) := by
    have a : (1 - e) * G.H ≤ h := by linarith
    have b : (0:ℚ) ≤ (1 - e) * G.H := mul_nonneg (by linarith) hH.le
    have c : (N:ℚ) ≤ 2 * N - 1 := by linarith
    calc (1 - e) * G.H * N ≤ (1 - e) * G.H * (2 * N - 1) := mul_le_mul_of_nonneg_left c b
      _ ≤ h * (2 * N - 1) := mul_le_mul_of_nonneg_right a (by linarith)
  have t3 : e * (2 + e) * ((1 - e) * G.H * N) ≤ e * (2 + e) * (h * (2 * N - 1)) :=
    mul_le_mul_of_nonneg_left t2 (mul_nonneg e0 (by linarith))
  have t4 : e * e * (G.H * N) ≤ e * (2 + e) * ((1 - e) * G.H * N) := by
    have a : e ≤ (2 + e) * (1 - e) := by nlinarith
    have b : (0:ℚ) ≤ e * (G.H * N) := mul_nonneg e0 (mul_nonneg hH.le (by linarith))
    nlinarith
  nlinarith

theorem Grid.g_H_le (G : Grid) (N k : ℕ) (hk : k + 1 ≤ N) : |G.g (k:ℤ)| + G.H ≤ G.M N := by
  have := G.g_abs_le k k (le_refl _)
  unfold Grid.M at this ⊢
  have hH := G.H_pos
  have h3 : ((k:ℚ) + 1) * G.H ≤ (N:ℚ) * G.H := mul_le_mul_of_nonneg_right (by exact_mod_cast hk) hH.le
  linarith

/-- **Budget.inner**: the budget of the run (plus `InnerOK`) yields the budget of every single session step. -/
theorem Budget.inner {F : Fl} {G : Grid} {N : ℕ} {r : ℚ} (B : Budget F G N r) (I : InnerOK F G N)
    (k : ℕ) (hk : k + 1 ≤ N) (q : ℕ) (hq : q ≤ G.p) (hS : ∃ m : ℤ, G.g (k:ℤ) = m / pow10 q)
    (hH : ∃ m : ℤ, G.H = m / pow10 q) : Budget F (G.shift k q hS hH) 1 r := by
  have e0 := F.u_nonneg
  have hHp := G.H_pos
  have hh := B.h_pos
  have hgm := G.g_H_le N k hk
  have hN : (1 : ℚ) ≤ N := by exact_mod_cast (by omega : 1 ≤ N)
  have hg0 := abs_nonneg (G.g (k:ℤ))
  have hM1 : (G.shift k q hS hH).M 1 ≤ G.M N := by
    show |G.g (k:ℤ)| + ((1:ℕ):ℚ) * G.H ≤ G.M N
    push_cast; linarith
  have hM10 : 0 ≤ (G.shift k q hS hH).M 1 := by
    show 0 ≤ |G.g (k:ℤ)| + ((1:ℕ):ℚ) * G.H
    push_cast; linarith
  refine ⟨hh, ?_, ?_, ?_, ?_⟩
  · -- hQ
    refine lt_of_le_of_lt ?_ B.hQ
    show Qerr F.u (G.g (k:ℤ)) G.H (G.h F) r ((1:ℕ):ℚ) ≤ Qerr F.u G.S G.H (G.h F) r N
    rw [Nat.cast_one]
    unfold Qerr
    have h1 : (r + F.u * (|G.g (k:ℤ)| + 1 * G.H)) / G.h F ≤ (r + F.u * (|G.S| + N * G.H)) / G.h F := by
      apply div_le_div_of_nonneg_right _ hh.le
      have : F.u * (|G.g (k:ℤ)| + 1 * G.H) ≤ F.u * (|G.S| + N * G.H) := by
        apply mul_le_mul_of_nonneg_left _ e0
        have := hgm; unfold Grid.M at this; linarith
      linarith
    have h2 := mul_le_mul_of_nonneg_left h1 (by positivity : (0:ℚ) ≤ (1 + F.u) ^ 2)
    have h3 : (2 * F.u + F.u ^ 2) * 1 ≤ (2 * F.u + F.u ^ 2) * N :=
      mul_le_mul_of_nonneg_left hN (by positivity)
    linarith
  · -- hD
    have hlab : |label F G (k:ℤ)| ≤ (1 + F.u) * |G.g (k:ℤ)| := F.abs_le _
    have hpq : 1 / (2 * pow10 G.p) ≤ 1 / (2 * pow10 q) := by
      apply one_div_le_one_div_of_le (by have := pow10_pos q; linarith)
      rw [pow10_eq, pow10_eq]
      have : (10:ℚ) ^ q ≤ (10:ℚ) ^ G.p := pow_le_pow_right₀ (by norm_num) hq
      linarith
    refine lt_of_le_of_lt ?_ (lt_of_lt_of_le I.hDs hpq)
    show Derr F.u (G.g (k:ℤ)) G.H (label F G (k:ℤ)) (G.h F) ((1:ℕ):ℚ) ≤ _
    unfold Derr
    push_cast
    have hgM : |G.g (k:ℤ)| ≤ G.M N := by linarith
    have b1 : F.u * |label F G (k:ℤ)| ≤ F.u * ((1 + F.u) * G.M N) :=
      mul_le_mul_of_nonneg_left (le_trans hlab (mul_le_mul_of_nonneg_left hgM (by linarith))) e0
    have b2 : F.u * (|G.g (k:ℤ)| + G.H) ≤ F.u * G.M N := mul_le_mul_of_nonneg_left hgm e0
    nlinarith
  · -- hR
    refine le_trans ?_ B.hR
    have b1 : F.u * ((1 + F.u) * (G.shift k q hS hH).M 1) ≤ F.u * ((1 + F.u) * G.M N) :=
      mul_le_mul_of_nonneg_left (mul_le_mul_of_nonneg_left hM1 (by linarith)) e0
    have b2 : F.u * (G.shift k q hS hH).M 1 ≤ F.u * G.M N := mul_le_mul_of_nonneg_left hM1 e0
    show F.u * ((1 + F.u) * (G.shift k q hS hH).M 1 + G.h F) + F.u * (G.shift k q hS hH).M 1 + F.u * G.H ≤ _
    nlinarith
  · -- hSep
    refine lt_of_le_of_lt ?_ B.hSep
    have : F.u * (G.shift k q hS hH).M 1 ≤ F.u * G.M N := mul_le_mul_of_nonneg_left hM1 e0
    show 2 * F.u * (G.shift k q hS hH).M 1 ≤ _
    nlinarith

/-- **session_steps_from_outer**: under the budget of the run, every `run_step` of the session — at clock
`label k`, with any precision `q ≤ p` at which `g k` and `dt` are decimals — returns exactly its own label. -/
theorem session_steps_from_outer (c : Cfg) (hc : c.simBoundInclusive = true) (F : Fl) (G : Grid) (n : ℕ) (r : ℚ)
    (B : Budget F G (n + 1) r) (I : InnerOK F G (n + 1)) (k : ℕ) (hk : k ≤ n) (q : ℕ) (hq : q ≤ G.p)
    (hS : ∃ m : ℤ, G.g (k:ℤ) = m / pow10 q) (hH : ∃ m : ℤ, G.H = m / pow10 q) (fuel : ℕ) (hf : 2 ≤ fuel) :
    sessionStepKeys c F.fl fuel (G.h F) q (label F G (k:ℤ)) = some [label F G (k:ℤ)] :=
  session_step_keys c hc F (G.shift k q hS hH) r (B.inner I k (by omega) q hq hS hH) fuel hf

/-- … in particular with the precision `run_step`'s `SdSimulation.start(clock, clock)` computes from the clock
value itself, whenever the grid value `g k` is a written decimal (≤ 14 significant digits). -/
theorem session_step_keys_code (c : Cfg) (hc : c.simBoundInclusive = true) (F : Fl) (hu : F.u * 10 ^ 14 ≤ 1 / 4)
    (D : DGrid) (n : ℕ) (r : ℚ) (B : Budget F D.toGrid (n + 1) r) (I : InnerOK F D.toGrid (n + 1))
    (k : ℕ) (hk : k ≤ n) (d : DecStr) (hd : Written (D.toGrid.g (k:ℤ)) d) (fuel : ℕ) (hf : 2 ≤ fuel) :
    sessionStepKeysC c F.fl fuel (D.toGrid.h F) (label F D.toGrid (k:ℤ)) = some [label F D.toGrid (k:ℤ)] := by
  unfold sessionStepKeysC
  have hq : precOf (label F D.toGrid (k:ℤ)) (D.toGrid.h F) = max d.p D.dH.p := by
    unfold precOf label Grid.h
    show max (scale (F.fl (D.toGrid.g (k:ℤ)))) (scale (F.fl D.H)) = _
    rw [hd.scale_fl F hu, D.wH.scale_fl F hu]
  rw [hq]
  have hdp : d.p ≤ D.toGrid.p := hd.p_le _ (D.toGrid.g_dec k)
  have hHp : D.dH.p ≤ D.toGrid.p := le_max_right _ _
  exact session_steps_from_outer c hc F D.toGrid n r B I k hk (max d.p D.dH.p) (max_le hdp hHp)
    (dec_mono _ _ _ (le_max_left _ _) hd.dec) (dec_mono _ _ _ (le_max_right _ _) D.wH.dec) fuel hf


/-- every `a / 10^p` has a canonical digit string: integer part `a / 10^p`, `q ≤ p` fraction digits, the last one non-zero. -/
theorem canon_exists (p : ℕ) : ∀ a : ℕ, ∃ ip f q : ℕ, q ≤ p ∧ f < 10 ^ q ∧ (q = 0 ∨ f % 10 ≠ 0) ∧
    ((a : ℚ) / (10 : ℚ) ^ p = (ip : ℚ) + (f : ℚ) / (10 : ℚ) ^ q) ∧ ip = a / 10 ^ p := by
  induction p with
  | zero => intro a; exact ⟨a, 0, 0, le_refl _, by norm_num, Or.inl rfl, by simp, by simp⟩
  | succ p ih =>
    intro a
    by_cases h10 : a % 10 = 0
    · obtain ⟨a', rfl⟩ : ∃ a', a = 10 * a' := ⟨a / 10, by omega⟩
      obtain ⟨ip, f, q, hq, hf, hmin, hval, hip⟩ := ih a'
      refine ⟨ip, f, q, by omega, hf, hmin, ?_, ?_⟩
      · rw [← hval, pow_succ]; push_cast
        have : (0 : ℚ) < (10 : ℚ) ^ p := by positivity
        field_simp
      · rw [hip, pow_succ, Nat.mul_comm (10 ^ p) 10, Nat.mul_div_mul_left _ _ (by norm_num : 0 < 10)]
    · refine ⟨a / 10 ^ (p + 1), a % 10 ^ (p + 1), p + 1, le_refl _, Nat.mod_lt _ (by positivity), Or.inr ?_, ?_, rfl⟩
      · rw [Nat.mod_mod_of_dvd _ (dvd_pow_self 10 (by omega : p + 1 ≠ 0))]; exact h10
      · have h := Nat.div_add_mod a (10 ^ (p + 1))
        have hc : (a : ℚ) = ((10 ^ (p + 1) : ℕ) : ℚ) * ((a / 10 ^ (p + 1) : ℕ) : ℚ) + ((a % 10 ^ (p + 1) : ℕ) : ℚ) := by
          exact_mod_cast h.symm
        have : (0 : ℚ) < (10 : ℚ) ^ (p + 1) := by positivity
        rw [eq_comm, ← sub_eq_zero]
        field_simp
        push_cast at hc
        linarith

/-- **written_of_dec**: a multiple of `10^-p` whose integer part has few enough digits is a written decimal —
discharges the hypothesis `∃ d, Written (g k) d` of the session-step clause from a digit bound. -/
theorem written_of_dec (x : ℚ) (p : ℕ) (m : ℤ) (hx : x = m / pow10 p) (hdig : magOf (m.natAbs / 10 ^ p) + p ≤ 14) :
    ∃ d : DecStr, Written x d := by
  obtain ⟨ip, f, q, hq, hf, hmin, hval, hip⟩ := canon_exists p m.natAbs
  refine ⟨⟨ip, f, q, hf, hmin, by rw [hip]; omega⟩, ?_⟩
  unfold Written DecStr.abs
  have hp10 : (0 : ℚ) < (10 : ℚ) ^ p := by positivity
  rw [← hval, hx, pow10_eq, abs_div, abs_of_pos hp10, Nat.cast_natAbs, Int.cast_abs]

/-- the session-step clause with a digit bound instead of `∃ d, Written (g k) d`. -/
theorem session_step_keys_digits (c : Cfg) (hc : c.simBoundInclusive = true) (F : Fl) (hu : F.u * 10 ^ 14 ≤ 1 / 4)
    (D : DGrid) (n : ℕ) (r : ℚ) (B : Budget F D.toGrid (n + 1) r) (I : InnerOK F D.toGrid (n + 1))
    (k : ℕ) (hk : k ≤ n) (m : ℤ) (hm : D.toGrid.g (k:ℤ) = m / pow10 D.toGrid.p)
    (hdig : magOf (m.natAbs / 10 ^ D.toGrid.p) + D.toGrid.p ≤ 14) (fuel : ℕ) (hf : 2 ≤ fuel) :
    sessionStepKeysC c F.fl fuel (D.toGrid.h F) (label F D.toGrid (k:ℤ)) = some [label F D.toGrid (k:ℤ)] := by
  obtain ⟨d, hd⟩ := written_of_dec _ _ m hm hdig
  exact session_step_keys_code c hc F hu D n r B I k hk d hd fuel hf

/-! ### (wave 2) the budget in the form `|x − g k| < dt/2 − slack` -/

/-- how much of the half step the rounding errors of `normalize` eat, on a horizon of `N` steps. -/
def slack (e S H N : ℚ) : ℚ :=
  H / 2 - ((1 - e) * H * (1 / 2 - (2 * e + e ^ 2) * N) / (1 + e) ^ 2 - e * (|S| + N * H))

theorem slack_exact (S H N : ℚ) : slack 0 S H N = 0 := by unfold slack; ring

/-- **normalize_near_half**: every float closer than `dt/2 − slack` to grid point `k` (`|k| ≤ N`) is normalised
to `label k` — the budget `hQ` of `normalize_near` solved for the distance. -/
theorem normalize_near_half (F : Fl) (hu : F.u < 1) (G : Grid) (N : ℕ) (k : ℤ) (hk : |(k:ℚ)| ≤ N)
    (hD : Derr F.u G.S G.H (G.s F) (G.h F) N < 1 / (2 * pow10 G.p))
    (x : ℚ) (hx : |x - G.g k| < G.H / 2 - slack F.u G.S G.H N) :
    normalize F.fl x (G.h F) (G.s F) G.p = label F G k := by
  have e0 := F.u_nonneg
  have hH := G.H_pos
  have eH : |G.h F - G.H| ≤ F.u * G.H := by
    have := F.err G.H; rwa [abs_of_pos hH] at this
  obtain ⟨eH1, _⟩ := abs_le.mp eH
  have hh : 0 < G.h F := by nlinarith
  have hM0 : 0 ≤ |G.S| + N * G.H := by positivity
  have hT0 : 0 ≤ |x - G.g k| + F.u * (|G.S| + N * G.H) := by positivity
  have h1e : (0:ℚ) < (1 + F.u) ^ 2 := by positivity
  have hkey : |x - G.g k| + F.u * (|G.S| + N * G.H)
      < (1 - F.u) * G.H * (1 / 2 - (2 * F.u + F.u ^ 2) * N) / (1 + F.u) ^ 2 := by
    unfold slack at hx; linarith
  rw [lt_div_iff₀ h1e] at hkey
  have hc0 : 0 < 1 / 2 - (2 * F.u + F.u ^ 2) * N := by
    by_contra hn
    rw [not_lt] at hn
    have : (1 - F.u) * G.H * (1 / 2 - (2 * F.u + F.u ^ 2) * N) ≤ 0 :=
      mul_nonpos_of_nonneg_of_nonpos (mul_nonneg (by linarith) hH.le) hn
    nlinarith
  have hlt : (|x - G.g k| + F.u * (|G.S| + N * G.H)) * (1 + F.u) ^ 2
      < (1 / 2 - (2 * F.u + F.u ^ 2) * N) * G.h F := by
    have : (1 - F.u) * G.H * (1 / 2 - (2 * F.u + F.u ^ 2) * N)
        ≤ G.h F * (1 / 2 - (2 * F.u + F.u ^ 2) * N) :=
      mul_le_mul_of_nonneg_right (by linarith) hc0.le
    linarith
  have hKN : |(k:ℚ)| ≤ (N:ℚ) := hk
  have hQ : Qerr F.u G.S G.H (G.h F) |x - G.g k| |(k:ℚ)| < 1 / 2 := by
    refine lt_of_le_of_lt (Qerr_mono _ _ _ _ _ _ _ e0 hh hH hKN) ?_
    unfold Qerr
    have : (1 + F.u) ^ 2 * ((|x - G.g k| + F.u * (|G.S| + N * G.H)) / G.h F)
        < 1 / 2 - (2 * F.u + F.u ^ 2) * N := by
      rw [← mul_div_assoc, div_lt_iff₀ hh]; linarith
    linarith
  exact normalize_near F G x k _ hh (le_refl _) hQ
    (lt_of_le_of_lt (Derr_mono _ _ _ _ _ _ _ e0 hh hH hKN) hD)

/-- for IEEE doubles on the largest lattice grid (start 1000.1, dt 0.001, 201 steps) the slack is below `10^-12`
of a half step of `5·10^-4`. -/
theorem slack_double : slack (1 / 2 ^ 53) (10001 / 10) (1 / 1000) 201 < 1 / 10 ^ 12 := by
  unfold slack
  rw [abs_of_pos (by norm_num : (0:ℚ) < 10001 / 10)]
  norm_num


/-! ### the property -/

/-- the labels of grid points `0 … m-1`. -/
def labelsTo (F : Fl) (G : Grid) (m : ℕ) : List ℚ := (List.range m).map (fun i : ℕ => label F G (i:ℤ))

/-- **C05 on an abstract decimal grid** (the statement of wave 1; the precision `p` is any number of decimals
at which start and step are decimals) for the code variant described by `c`: for every admissible rounding `F`,
every decimal grid `G`, every number of steps `n` (and every fuel that lets the loop finish):
the batch run, the plot and the session report exactly `label 0 … label n`, each session step returns
exactly its own label, and any two floats near the same grid point get the same memo key. -/
def C05_grid (c : Cfg) : Prop :=
  ∀ (F : Fl) (G : Grid) (n : ℕ) (r : ℚ), Budget F G (n + 1) r → ∀ fuel, n + 2 ≤ fuel →
    simTimes c F.fl fuel (G.s F) (label F G n) (G.h F) G.p
        = some ((List.range (n + 1)).map (fun i : ℕ => label F G (i:ℤ))) ∧
    plotTimes c F.fl fuel (G.s F) (label F G n) (G.h F) G.p
        = some ((List.range (n + 1)).map (fun i : ℕ => label F G (i:ℤ))) ∧
    (∀ calls, sessionClocks c F.fl (G.s F) (label F G n) (G.h F) G.p calls (G.s F)
        = (List.range (min calls (n + 1))).map (fun i : ℕ => label F G (i:ℤ))) ∧
    (∀ G' : Grid, Budget F G' 1 r → sessionStepKeys c F.fl fuel (G'.h F) G'.p (G'.s F) = some [G'.s F]) ∧
    (∀ (k : ℕ) (x₁ x₂ : ℚ), k ≤ n + 1 → |x₁ - G.g k| ≤ r → |x₂ - G.g k| ≤ r →
        memoKey F.fl (G.s F) (G.h F) G.p x₁ = label F G k ∧ memoKey F.fl (G.s F) (G.h F) G.p x₂ = label F G k)

/-- **C05 through the code's own precision** (wave 2): the run spec is *written* (`DGrid`: start and step are digit
strings of at most 14 significant digits), every function computes its precision itself from its float
arguments — `max(scale(start), scale(dt))`, `precOf` — and nothing about `p` is assumed. For every admissible
rounding with `u·10^14 ≤ 1/4`, every written grid, every `n`:
`util.timerange` inclusive and exclusive, the batch run, the plot, the session clock; every single `run_step`
(its budget derived from the run's: `InnerOK`) returns exactly its own label; and every float within the budget
of grid point `k` is given the key `label k`, so that `TIME`, a threshold on `TIME` and a stock evaluate to what
they are at the decimal grid value — independent of the arithmetic route. -/
def C05_code (c : Cfg) : Prop :=
  ∀ (F : Fl), F.u * 10 ^ 14 ≤ 1 / 4 → ∀ (D : DGrid) (n : ℕ) (r : ℚ), Budget F D.toGrid (n + 1) r →
    ∀ fuel, n + 2 ≤ fuel →
    timerange F.fl fuel (D.toGrid.s F) (label F D.toGrid n) (D.toGrid.h F) false
        = some (labelsTo F D.toGrid (n + 1)) ∧
    timerange F.fl fuel (D.toGrid.s F) (label F D.toGrid n) (D.toGrid.h F) true
        = some (labelsTo F D.toGrid n) ∧
    simTimesC c F.fl fuel (D.toGrid.s F) (label F D.toGrid n) (D.toGrid.h F) = some (labelsTo F D.toGrid (n + 1)) ∧
    plotTimesC c F.fl fuel (D.toGrid.s F) (label F D.toGrid n) (D.toGrid.h F) = some (labelsTo F D.toGrid (n + 1)) ∧
    (∀ calls, sessionClocksC c F.fl (D.toGrid.s F) (label F D.toGrid n) (D.toGrid.h F) calls
        = labelsTo F D.toGrid (min calls (n + 1))) ∧
    (InnerOK F D.toGrid (n + 1) → ∀ k : ℕ, k ≤ n → (∃ d : DecStr, Written (D.toGrid.g (k:ℤ)) d) →
        sessionStepKeysC c F.fl fuel (D.toGrid.h F) (label F D.toGrid (k:ℤ)) = some [label F D.toGrid (k:ℤ)]) ∧
    (∀ (k : ℕ) (x : ℚ), k ≤ n + 1 → |x - D.toGrid.g k| ≤ r → ∀ fuelE, k + 1 ≤ fuelE →
        memoKeyC F.fl (D.toGrid.s F) (D.toGrid.h F) x = label F D.toGrid k ∧
        evalElem F.fl fuelE (D.toGrid.s F) (D.toGrid.h F) (precOf (D.toGrid.s F) (D.toGrid.h F)) Elem.time x
          = some (label F D.toGrid k) ∧
        (∀ θ, evalElem F.fl fuelE (D.toGrid.s F) (D.toGrid.h F) (precOf (D.toGrid.s F) (D.toGrid.h F)) (Elem.thr θ) x
          = some (if θ ≤ label F D.toGrid k then 1 else 0)) ∧
        evalElem F.fl fuelE (D.toGrid.s F) (D.toGrid.h F) (precOf (D.toGrid.s F) (D.toGrid.h F)) Elem.stock x
          = some (k : ℚ))

/-- **the session's grid origin** (wave 3): a session begun with any `starttime` argument `a` not after the scenario's
start (the default `0.0` on every lattice grid) — whatever float `a` is — visits exactly `label 0, label 1, …` of the
SCENARIO's grid: the clock starts at the effective start and is normalised against it, with its precision. -/
def C05_origin (c : Cfg) : Prop :=
  ∀ (F : Fl), F.u * 10 ^ 14 ≤ 1 / 4 → ∀ (D : DGrid) (n : ℕ) (r : ℚ), Budget F D.toGrid (n + 1) r →
    ∀ (a : ℚ), a ≤ D.toGrid.s F → ∀ calls,
      sessionClocksA c F.fl a (D.toGrid.s F) (label F D.toGrid n) (D.toGrid.h F) calls
        = labelsTo F D.toGrid (min calls (n + 1))

/-- **run specs of the scenario** (wave 6): the first run of a scenario whose run specs (written grid `D`, `n` steps)
differ from the model's — whatever step `hOld` the model was built with — reports exactly the labels of the SCENARIO's
grid: the grid is generated from the same (start, dt) that `Model.memoize` normalises with. -/
def C05_runspecs (c : Cfg) : Prop :=
  ∀ (F : Fl), F.u * 10 ^ 14 ≤ 1 / 4 → ∀ (D : DGrid) (n : ℕ) (r : ℚ), Budget F D.toGrid (n + 1) r →
    ∀ fuel, n + 2 ≤ fuel → ∀ hOld : ℚ,
      runTimesRS c F.fl fuel (D.toGrid.s F) (label F D.toGrid n) hOld (D.toGrid.h F) = some (labelsTo F D.toGrid (n + 1))

/-- **C05 at full strength**: the abstract-grid statement, the statement through the code's own precision, the
origin of the session grid, and the run specs a run's grid is generated from. -/
def C05_full (c : Cfg) : Prop := C05_grid c ∧ C05_code c ∧ C05_origin c ∧ C05_runspecs c

theorem C05_grid_of_good (c : Cfg) (h : c.good = true) : C05_grid c := by
  have h' : c.simBoundInclusive = true ∧ c.plotBoundInclusive = true ∧ c.stepClockNormalised = true := by
    unfold Cfg.good at h
    simp only [Bool.and_eq_true] at h
    exact ⟨h.1.1.1.1, h.1.1.1.2, h.1.1.2⟩
  obtain ⟨h1, h2, h3⟩ := h'
  intro F G n r B fuel hf
  refine ⟨?_, ?_, ?_, ?_, ?_⟩
  · unfold simTimes; rw [if_pos h1]; exact timerange_spec F G n r B fuel hf
  · unfold plotTimes; rw [if_pos h2]; exact timerange_spec F G n r B fuel hf
  · exact session_clocks_spec c h3 F G n r B
  · intro G' B'; exact session_step_keys c h1 F G' r B' fuel (by omega)
  · intro k x₁ x₂ hk h₁ h₂; exact route_independent F G (n + 1) r B k hk x₁ x₂ h₁ h₂

theorem C05_code_of_good (c : Cfg) (h : c.good = true) : C05_code c := by
  have h' : c.simBoundInclusive = true ∧ c.plotBoundInclusive = true ∧ c.stepClockNormalised = true := by
    unfold Cfg.good at h
    simp only [Bool.and_eq_true] at h
    exact ⟨h.1.1.1.1, h.1.1.1.2, h.1.1.2⟩
  obtain ⟨h1, h2, h3⟩ := h'
  intro F hu D n r B fuel hf
  have hp := precOf_float F hu D
  refine ⟨?_, ?_, ?_, ?_, ?_, ?_, ?_⟩
  · unfold timerange; rw [hp]; exact timerange_spec F D.toGrid n r B fuel hf
  · unfold timerange; rw [hp]; exact timerange_spec_excl F D.toGrid n r B fuel hf
  · unfold simTimesC simTimes; rw [hp, if_pos h1]; exact timerange_spec F D.toGrid n r B fuel hf
  · unfold plotTimesC plotTimes; rw [hp, if_pos h2]; exact timerange_spec F D.toGrid n r B fuel hf
  · intro calls; unfold sessionClocksC; rw [hp]; exact session_clocks_spec c h3 F D.toGrid n r B calls
  · intro I k hk ⟨d, hd⟩
    exact session_step_keys_code c h1 F hu D n r B I k hk d hd fuel (by omega)
  · intro k x hk hx fuelE hfE
    rw [hp]
    refine ⟨?_, elem_route_independent F D.toGrid (n + 1) r B k hk x hx fuelE hfE⟩
    unfold memoKeyC; rw [hp]
    exact (route_independent F D.toGrid (n + 1) r B k hk x x hx hx).1

theorem C05_origin_of_good (c : Cfg) (h : c.good = true) : C05_origin c := by
  have h3 : c.stepClockNormalised = true ∧ c.sessionOriginEffective = true := by
    unfold Cfg.good at h
    simp only [Bool.and_eq_true] at h
    exact ⟨h.1.1.2, h.1.2⟩
  intro F hu D n r B a ha calls
  have hp := precOf_float F hu D
  unfold sessionClocksA sessionOrigin effStart
  rw [if_pos h3.2, if_pos ha, hp]
  exact session_clocks_spec c h3.1 F D.toGrid n r B calls

theorem C05_runspecs_of_good (c : Cfg) (h : c.good = true) : C05_runspecs c := by
  have hg : c.runGridUsesModelDt = true := by
    unfold Cfg.good at h
    simp only [Bool.and_eq_true] at h
    exact h.2
  intro F hu D n r B fuel hf hOld
  unfold runTimesRS
  rw [if_pos hg]
  exact (C05_code_of_good c h F hu D n r B fuel hf).2.2.1

theorem C05_full_of_good (c : Cfg) (h : c.good = true) : C05_full c :=
  ⟨C05_grid_of_good c h, C05_code_of_good c h, C05_origin_of_good c h, C05_runspecs_of_good c h⟩

/-- What holds whatever the probes say: `util.timerange` itself (inclusive and exclusive), the memo key and the
strict order of the labels do not depend on the three call sites. -/
theorem C05_partial (F : Fl) (G : Grid) (n : ℕ) (r : ℚ) (B : Budget F G (n + 1) r) (fuel : ℕ) (hf : n + 2 ≤ fuel) :
    timerangeP F.fl fuel (G.s F) (label F G n) (G.h F) G.p false
        = some ((List.range (n + 1)).map (fun i : ℕ => label F G (i:ℤ))) ∧
    ((List.range (n + 1)).map (fun i : ℕ => label F G (i:ℤ))).Pairwise (· < ·) ∧
    (∀ (k : ℕ) (x₁ x₂ : ℚ), k ≤ n + 1 → |x₁ - G.g k| ≤ r → |x₂ - G.g k| ≤ r →
        memoKey F.fl (G.s F) (G.h F) G.p x₁ = memoKey F.fl (G.s F) (G.h F) G.p x₂) := by
  refine ⟨timerange_spec F G n r B fuel hf, labels_increasing F G n r B, ?_⟩
  intro k x₁ x₂ hk h₁ h₂
  obtain ⟨a, b⟩ := route_independent F G (n + 1) r B k hk x₁ x₂ h₁ h₂
  rw [a, b]

/-- … and (wave 2) the exclusive `timerange`, and the elements that consume `t`. -/
theorem C05_partial2 (F : Fl) (G : Grid) (n : ℕ) (r : ℚ) (B : Budget F G (n + 1) r) (fuel : ℕ) (hf : n + 2 ≤ fuel) :
    timerangeP F.fl fuel (G.s F) (label F G n) (G.h F) G.p true
        = some ((List.range n).map (fun i : ℕ => label F G (i:ℤ))) ∧
    (∀ (k : ℕ) (x₁ x₂ : ℚ), k ≤ n + 1 → |x₁ - G.g k| ≤ r → |x₂ - G.g k| ≤ r → ∀ (e : Elem),
        evalElem F.fl fuel (G.s F) (G.h F) G.p e x₁ = evalElem F.fl fuel (G.s F) (G.h F) G.p e x₂) :=
  ⟨timerange_spec_excl F G n r B fuel hf,
   fun k x₁ x₂ hk h₁ h₂ e => elem_routes_agree F G (n + 1) r B k hk x₁ x₂ h₁ h₂ fuel (by omega) e⟩

/-! ### negation witnesses: the pinned variants are not correct for every admissible rounding -/

/-- a (coarse) admissible rounding: exact everywhere except that `[0.1, 0.1001)` is rounded up to `0.1001`
— the analogue of `0.1` not being a binary fraction. Relative error ≤ 1/1000. -/
def flWf (x : ℚ) : ℚ := if 1/10 ≤ x ∧ x < 1/10 + 1/10000 then 1/10 + 1/10000 else x

def flW : Fl where
  fl := flWf
  u := 1/1000
  u_nonneg := by norm_num
  idem := by
    intro x; unfold flWf
    by_cases h : 1/10 ≤ x ∧ x < 1/10 + 1/10000
    · rw [if_pos h, if_neg]; intro h'; exact absurd h'.2 (lt_irrefl _)
    · rw [if_neg h, if_neg h]
  mono := by
    intro x y hxy; unfold flWf
    by_cases hx : 1/10 ≤ x ∧ x < 1/10 + 1/10000 <;> by_cases hy : 1/10 ≤ y ∧ y < 1/10 + 1/10000
    · rw [if_pos hx, if_pos hy]
    · rw [if_pos hx, if_neg hy]
      by_contra hlt
      exact hy ⟨le_trans hx.1 hxy, not_le.mp hlt⟩
    · rw [if_neg hx, if_pos hy]; linarith [hy.2]
    · rw [if_neg hx, if_neg hy]; exact hxy
  err := by
    intro x; unfold flWf
    by_cases hx : 1/10 ≤ x ∧ x < 1/10 + 1/10000
    · rw [if_pos hx, abs_of_nonneg (by linarith [hx.2]), abs_of_nonneg (by linarith [hx.1])]
      linarith [hx.1, hx.2]
    · rw [if_neg hx, sub_self, abs_zero]; positivity

/-- the grid `0, 0.1, 0.2, …`. -/
def G01 : Grid where
  S := 0
  H := 1/10
  p := 1
  H_pos := by norm_num
  decS := ⟨0, by simp⟩
  decH := ⟨1, by simp [pow10]⟩

theorem budget_W : Budget flW G01 4 (1/500) := by
  have hh : G01.h flW = 1001/10000 := by
    simp only [Grid.h, flW, G01, flWf]; norm_num
  have hs : G01.s flW = 0 := by
    simp only [Grid.s, flW, G01, flWf]; norm_num
  refine ⟨?_, ?_, ?_, ?_, ?_⟩
  · rw [hh]; norm_num
  · rw [hh]; simp only [Qerr, flW, G01]; norm_num
  · rw [hh, hs]; simp only [Derr, flW, G01, pow10]; norm_num
  · rw [hh]; simp only [Grid.M, flW, G01]; norm_num
  · simp only [Grid.M, flW, G01]; norm_num

/-- the hypotheses of `C05_full` are satisfiable by a rounding that is not exact (non-vacuity), and on
it the repaired variant does produce the grid `label 0 … label 3`. -/
example : simTimes ⟨true, true, true, true, true⟩ flW.fl 5 (G01.s flW) (label flW G01 3) (G01.h flW) G01.p
    = some [0, 1001/10000, 2/10, 3/10] := by decide +kernel

example : C05_full ⟨true, true, true, true, true⟩ := C05_full_of_good _ (by decide)

/-- the written grid `0.3, 0.4, 0.5, …` (a start time that is not a binary fraction): the hypotheses of `C05_code`
are satisfiable, and the code's precision on it is 1. -/
def D03 : DGrid where
  S := 3 / 10
  H := 1 / 10
  dS := ⟨0, 3, 1, by norm_num, Or.inr (by norm_num), by decide⟩
  dH := ⟨0, 1, 1, by norm_num, Or.inr (by norm_num), by decide⟩
  wS := by unfold Written DecStr.abs; norm_num
  wH := by unfold Written DecStr.abs; norm_num
  H_pos := by norm_num

example : precOf (D03.toGrid.s Fl.exact) (D03.toGrid.h Fl.exact) = 1 :=
  precOf_float Fl.exact (by simp [Fl.exact]) D03

example : Budget Fl.exact D03.toGrid 4 0 ∧ InnerOK Fl.exact D03.toGrid 4 ∧
    (∃ d : DecStr, Written (D03.toGrid.g ((1 : ℕ) : ℤ)) d) := by
  refine ⟨⟨?_, ?_, ?_, ?_, ?_⟩, ⟨?_⟩, ⟨⟨0, 4, 1, by norm_num, Or.inr (by norm_num), by decide⟩, ?_⟩⟩
  · simp [Grid.h, Fl.exact, D03, DGrid.toGrid]
  · simp [Qerr, Fl.exact]
  · simp [Derr, Fl.exact]; exact pow10_pos _
  · simp [Fl.exact]
  · simp [Fl.exact, D03, DGrid.toGrid]
  · simp [Fl.exact]; exact pow10_pos _
  · unfold Written DecStr.abs Grid.g; simp [D03, DGrid.toGrid]; norm_num

example : C05_code ⟨true, true, true, true, true⟩ := C05_code_of_good _ (by decide)


/-- bare `step + dt` as session clock: with the rounding `flW` the third clock value is `0.2002`, not the
label `0.2`. -/
theorem C05_witness_session (c : Cfg) (h : c.stepClockNormalised = false) : ¬ C05_full c := by
  intro hf
  have h3 := (hf.1 flW G01 3 (1/500) budget_W 5 (by norm_num)).2.2.1 3
  rcases c with ⟨a, b, d, o, g⟩
  simp only at h
  subst h
  revert h3
  cases a <;> cases b <;> cases o <;> cases g <;> decide +kernel

/-- `until + dt` as exclusive bound of the batch run: with `flW`, `0.2 + 0.1001 = 0.3001 > 0.3`, a fourth row. -/
theorem C05_witness_simBound (c : Cfg) (h : c.simBoundInclusive = false) : ¬ C05_full c := by
  intro hf
  have h3 := (hf.1 flW G01 2 (1/500) (by
    have B := budget_W
    exact ⟨B.h_pos, lt_of_le_of_lt (Qerr_mono _ _ _ _ _ _ _ flW.u_nonneg B.h_pos G01.H_pos (by norm_num)) B.hQ,
      lt_of_le_of_lt (Derr_mono _ _ _ _ _ _ _ flW.u_nonneg B.h_pos G01.H_pos (by norm_num)) B.hD,
      by have := B.hR; simp only [Grid.M, flW, G01] at this ⊢; norm_num at this ⊢; linarith,
      by simp only [Grid.M, flW, G01]; norm_num⟩) 4 (by norm_num)).1
  rcases c with ⟨a, b, d, o, g⟩
  simp only at h
  subst h
  revert h3
  cases b <;> cases d <;> cases o <;> cases g <;> decide +kernel

/-- the same bound in `Element.plot`. -/
theorem C05_witness_plotBound (c : Cfg) (h : c.plotBoundInclusive = false) : ¬ C05_full c := by
  intro hf
  have h3 := (hf.1 flW G01 2 (1/500) (by
    have B := budget_W
    exact ⟨B.h_pos, lt_of_le_of_lt (Qerr_mono _ _ _ _ _ _ _ flW.u_nonneg B.h_pos G01.H_pos (by norm_num)) B.hQ,
      lt_of_le_of_lt (Derr_mono _ _ _ _ _ _ _ flW.u_nonneg B.h_pos G01.H_pos (by norm_num)) B.hD,
      by have := B.hR; simp only [Grid.M, flW, G01] at this ⊢; norm_num at this ⊢; linarith,
      by simp only [Grid.M, flW, G01]; norm_num⟩) 4 (by norm_num)).2.1
  rcases c with ⟨a, b, d, o, g⟩
  simp only at h
  subst h
  revert h3
  cases a <;> cases d <;> cases o <;> cases g <;> decide +kernel


/-- the written grid `0.25, 0.75, 1.25, …`: a start that is not a multiple of dt and has more decimals than dt. -/
def D25 : DGrid where
  S := 1 / 4
  H := 1 / 2
  dS := ⟨0, 25, 2, by norm_num, Or.inr (by norm_num), by decide⟩
  dH := ⟨0, 5, 1, by norm_num, Or.inr (by norm_num), by decide⟩
  wS := by unfold Written DecStr.abs; norm_num
  wH := by unfold Written DecStr.abs; norm_num
  H_pos := by norm_num

/-- the grid `0, 0.5, 1, …` the defective variant snaps to. -/
def D0 : DGrid where
  S := 0
  H := 1 / 2
  dS := ⟨0, 0, 0, by norm_num, Or.inl rfl, by decide⟩
  dH := ⟨0, 5, 1, by norm_num, Or.inr (by norm_num), by decide⟩
  wS := by unfold Written DecStr.abs; norm_num
  wH := by unfold Written DecStr.abs; norm_num
  H_pos := by norm_num

theorem budget_D25 : Budget Fl.exact D25.toGrid 3 0 := by
  refine ⟨?_, ?_, ?_, ?_, ?_⟩
  · simp [Grid.h, Fl.exact, D25, DGrid.toGrid]
  · simp [Qerr, Fl.exact]
  · simp [Derr, Fl.exact]; exact pow10_pos _
  · simp [Fl.exact]
  · simp [Fl.exact, D25, DGrid.toGrid]

theorem precOf_zero_half : precOf (0 : ℚ) (1 / 2) = 1 :=
  precOf_float Fl.exact (by simp [Fl.exact]) D0

/-- **origin = argument instead of effective start**: scenario start 0.25, dt 0.5, session begun with the default
argument 0.0 — the second clock value is `normalize(0.75, base 0.5, offset 0, 1 digit) = 1.0`, not the label 0.75. -/
theorem C05_witness_sessionOrigin (c : Cfg) (h : c.sessionOriginEffective = false) : ¬ C05_full c := by
  intro hf
  by_cases hs : c.stepClockNormalised = true
  · have h3 := hf.2.2.1 Fl.exact (by simp [Fl.exact]) D25 2 0 budget_D25 0 (by simp [Grid.s, Fl.exact, D25, DGrid.toGrid]) 3
    have e1 : D25.toGrid.h Fl.exact = 1 / 2 := rfl
    have e2 : D25.toGrid.s Fl.exact = 1 / 4 := rfl
    unfold sessionClocksA sessionOrigin effStart at h3
    rw [h, e1, e2] at h3
    simp only [Bool.false_eq_true, if_false] at h3
    rw [precOf_zero_half] at h3
    rcases c with ⟨a, b, d, o, g⟩
    simp only at h hs
    subst h; subst hs
    revert h3
    cases a <;> cases b <;> cases g <;> decide +kernel
  · exact C05_witness_session c (by simpa using hs) hf


/-- the written grid `0, 0.1, 0.2, …` (the scenario's run specs) … -/
def D01 : DGrid where
  S := 0
  H := 1 / 10
  dS := ⟨0, 0, 0, by norm_num, Or.inl rfl, by decide⟩
  dH := ⟨0, 1, 1, by norm_num, Or.inr (by norm_num), by decide⟩
  wS := by unfold Written DecStr.abs; norm_num
  wH := by unfold Written DecStr.abs; norm_num
  H_pos := by norm_num

/-- … and the grid `0, 0.25, …` of the step the model was built with. -/
def D025 : DGrid where
  S := 0
  H := 1 / 4
  dS := ⟨0, 0, 0, by norm_num, Or.inl rfl, by decide⟩
  dH := ⟨0, 25, 2, by norm_num, Or.inr (by norm_num), by decide⟩
  wS := by unfold Written DecStr.abs; norm_num
  wH := by unfold Written DecStr.abs; norm_num
  H_pos := by norm_num

theorem budget_D01 : Budget Fl.exact D01.toGrid 3 0 := by
  refine ⟨?_, ?_, ?_, ?_, ?_⟩
  · simp [Grid.h, Fl.exact, D01, DGrid.toGrid]
  · simp [Qerr, Fl.exact]
  · simp [Derr, Fl.exact]; exact pow10_pos _
  · simp [Fl.exact]
  · simp [Fl.exact, D01, DGrid.toGrid]

theorem precOf_zero_quarter : precOf (0 : ℚ) (1 / 4) = 2 :=
  precOf_float Fl.exact (by simp [Fl.exact]) D025

/-- **grid generated with a stale dt**: scenario run specs 0 … 0.2 step 0.1 on a model built with dt 0.25 — the first
run reports `timerange(0, 0.2, 0.25)` = the single row 0 (inclusive bound; `[0, 0.25]` with the old exclusive bound)
instead of the labels 0, 0.1, 0.2: gaps and, on longer runs, off-grid labels. -/
theorem C05_witness_runGrid (c : Cfg) (h : c.runGridUsesModelDt = false) : ¬ C05_full c := by
  intro hf
  have h3 := hf.2.2.2 Fl.exact (by simp [Fl.exact]) D01 2 0 budget_D01 4 (by norm_num) (1 / 4)
  have e2 : D01.toGrid.s Fl.exact = 0 := rfl
  unfold runTimesRS simTimesC at h3
  rw [h, e2] at h3
  simp only [Bool.false_eq_true, if_false] at h3
  rw [precOf_zero_quarter] at h3
  rcases c with ⟨a, b, d, o, g⟩
  simp only at h
  subst h
  revert h3
  cases a <;> cases b <;> cases d <;> cases o <;> decide +kernel

/-! The same three facts on IEEE doubles (Lean `Float`, kernel-evaluated; witnesses only — the harness
replays these numbers on the implementation). -/

/-- bare session clock, dt = 0.1: after three additions the clock is not the label 0.3 … -/
theorem float_witness_session : (((0.0 : Float) + 0.1 + 0.1 + 0.1) == 0.3) = false := by decide +kernel
/-- … and after eight it is below 0.8. -/
theorem float_witness_session8 :
    (((0.0 : Float) + 0.1 + 0.1 + 0.1 + 0.1 + 0.1 + 0.1 + 0.1 + 0.1) < 0.8) = true := by decide +kernel
/-- `until + dt` for until = 0.2, dt = 0.1 exceeds the label 0.3, which therefore passes `i < stop`. -/
theorem float_witness_bound : (((0.2 : Float) + 0.1) > 0.3) = true := by decide +kernel

/-- the budget of the theorems for IEEE doubles (`u = 2^-53`) on the largest lattice grid of the check
(start 1000.1, dt 0.001, 201 steps, one-addition error r = 10^-12): satisfied with orders of magnitude
to spare (the float constants s, h are bounded by their error intervals). -/
theorem budget_nonvacuous :
    let e : ℚ := 1 / 2 ^ 53
    let S : ℚ := 10001 / 10
    let H : ℚ := 1 / 1000
    let N : ℚ := 201
    let r : ℚ := 1 / 10 ^ 12
    ∀ s h : ℚ, |s - S| ≤ e * |S| → |h - H| ≤ e * H →
      e * ((1 + e) * (|S| + N * H) + h) + e * (|S| + N * H) + e * H ≤ r ∧ 2 * e * (|S| + N * H) < H ∧
      Derr e S H s h N < 1 / (2 * 10 ^ 3) := by
  intro e S H N r s h hs hh
  have hS : |S| = 10001 / 10 := by simp only [S]; rw [abs_of_pos]; norm_num
  rw [hS] at hs ⊢
  have h1 := abs_le.mp hh
  have h2 := abs_le.mp hs
  have hs' : |s| ≤ 1001 := by
    rw [abs_le]; constructor <;> (norm_num [e, S] at h2 ⊢; linarith [h2.1, h2.2])
  have hh' : h ≤ 2 / 1000 := by norm_num [e, H] at h1 ⊢; linarith [h1.2]
  have hh0 : 0 ≤ h := by norm_num [e, H] at h1 ⊢; linarith [h1.1]
  refine ⟨?_, ?_, ?_⟩
  · norm_num [e, H, N, r]; linarith
  · norm_num [e, H, N]
  · unfold Derr
    rw [hS]
    norm_num [e, H, N]
    nlinarith

#print axioms normalize_near
#print axioms timerange_spec
#print axioms route_independent
#print axioms clock_normalised_exact
#print axioms labels_increasing
#print axioms C05_full_of_good
#print axioms C05_partial
#print axioms C05_witness_session
#print axioms C05_witness_simBound
#print axioms C05_witness_plotBound
#print axioms C05_witness_sessionOrigin
#print axioms C05_witness_runGrid
#print axioms C05_runspecs_of_good
#print axioms C05_origin_of_good
#print axioms float_witness_session
#print axioms float_witness_bound
#print axioms budget_nonvacuous
#print axioms scale_correct
#print axioms dec_of_scale
#print axioms timerange_spec_excl
#print axioms step_back_err
#print axioms stock_depth_label
#print axioms elem_route_independent
#print axioms elem_routes_agree
#print axioms scale_float
#print axioms precOf_float
#print axioms InnerOK.of_double
#print axioms Budget.inner
#print axioms session_steps_from_outer
#print axioms session_step_keys_code
#print axioms written_of_dec
#print axioms session_step_keys_digits
#print axioms normalize_near_half
#print axioms slack_double
#print axioms C05_grid_of_good
#print axioms C05_code_of_good
#print axioms C05_partial2

end Bptk.C05
