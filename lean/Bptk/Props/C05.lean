import Bptk.Core.C05
import Mathlib.Algebra.Order.Floor.Ring
import Mathlib.Data.Rat.Floor
import Mathlib.Tactic.Linarith
import Mathlib.Tactic.Ring
import Mathlib.Tactic.Positivity
import Mathlib.Tactic.FieldSimp
import Mathlib.Tactic.NormNum
/-!
C05 — property theorems.  Time is rational; floating point is an adversary `F : Fl` (any rounding
function with relative error ≤ `u`, monotone, idempotent) — hypotheses, never axioms.
Quantifiers: every `F`, every decimal grid `G = (S, H, p)`, every number of steps `n` (induction),
every float `x` near a grid point.
-/
namespace Bptk.C05

/-! ### bridging the import-free model to Mathlib notions -/

theorem absQ_eq (x : ℚ) : absQ x = |x| := by
  unfold absQ
  split
  · rw [abs_of_neg (by assumption)]
  · rw [abs_of_nonneg (by linarith)]

theorem pow10_eq (p : ℕ) : pow10 p = (10 : ℚ) ^ p := by
  unfold pow10; push_cast; rfl

theorem pow10_pos (p : ℕ) : 0 < pow10 p := by rw [pow10_eq]; positivity

/-- Python's round-half-even sends everything closer than 1/2 to an integer to that integer. -/
theorem rndHE_near (y : ℚ) (k : ℤ) (h : |y - k| < 1/2) : rndHE y = k := by
  have h1 := abs_lt.mp h
  unfold rndHE
  simp only
  have hfl : y.floor = ⌊y⌋ := rfl
  rw [hfl]
  by_cases hk : (k:ℚ) ≤ y
  · have hf : ⌊y⌋ = k := by
      rw [Int.floor_eq_iff]; constructor
      · exact hk
      · linarith [h1.2]
    rw [hf]
    have : y - (k:ℚ) < 1/2 := by linarith [h1.2]
    rw [if_pos this]
  · rw [not_le] at hk
    have hf : ⌊y⌋ = k - 1 := by
      rw [Int.floor_eq_iff]; constructor
      · push_cast; linarith [h1.1]
      · push_cast; linarith
    rw [hf]
    have h2 : ¬ (y - ((k - 1 : ℤ) : ℚ) < 1/2) := by push_cast; linarith [h1.1]
    have h3 : (1/2 : ℚ) < y - ((k - 1 : ℤ) : ℚ) := by push_cast; linarith [h1.1]
    rw [if_neg h2, if_pos h3]; ring

/-- `round(x, p)`: everything closer than half a unit of the `p`-th decimal to `m/10^p` is sent to it. -/
theorem roundDec_near (p : ℕ) (x : ℚ) (m : ℤ) (h : |x - m / pow10 p| < 1 / (2 * pow10 p)) :
    roundDec p x = m / pow10 p := by
  have hp := pow10_pos p
  unfold roundDec
  have : |x * pow10 p - m| < 1/2 := by
    have e : x * pow10 p - m = (x - m / pow10 p) * pow10 p := by field_simp
    rw [e, abs_mul, abs_of_pos hp]
    have : |x - m / pow10 p| * pow10 p < 1 / (2 * pow10 p) * pow10 p := by
      exact mul_lt_mul_of_pos_right h hp
    have e2 : 1 / (2 * pow10 p) * pow10 p = 1/2 := by field_simp
    linarith
  rw [rndHE_near _ m this]

/-! ### the floating-point adversary -/

/-- Any rounding function with bounded relative error (IEEE-754 round-to-nearest double: `u = 2^-53`,
within the normal range). -/
structure Fl where
  fl : ℚ → ℚ
  u : ℚ
  u_nonneg : 0 ≤ u
  idem : ∀ x, fl (fl x) = fl x
  mono : ∀ x y, x ≤ y → fl x ≤ fl y
  err : ∀ x, |fl x - x| ≤ u * |x|

/-- representable numbers: those the rounding leaves alone. -/
def Fl.Rep (F : Fl) (x : ℚ) : Prop := F.fl x = x

theorem Fl.rep_fl (F : Fl) (x : ℚ) : F.Rep (F.fl x) := F.idem x

/-- exact arithmetic is one admissible adversary. -/
def Fl.exact : Fl := { fl := id, u := 0, u_nonneg := le_refl _, idem := fun _ => rfl, mono := fun _ _ h => h,
                       err := fun x => by simp }

theorem Fl.abs_le (F : Fl) (x : ℚ) : |F.fl x| ≤ (1 + F.u) * |x| := by
  have h := F.err x
  have : |F.fl x| ≤ |F.fl x - x| + |x| := by
    have := abs_add_le (F.fl x - x) x
    simpa using this
  linarith

theorem Fl.err' (F : Fl) (x : ℚ) : |x - F.fl x| ≤ F.u * |x| := by
  rw [abs_sub_comm]; exact F.err x

/-- two roundings around a division by a positive float. -/
theorem Fl.quot_err (F : Fl) (t h : ℚ) (hh : 0 < h) :
    |F.fl (F.fl t / h) - t / h| ≤ (2 * F.u + F.u ^ 2) * |t / h| := by
  have e0 := F.u_nonneg
  have h1 : |F.fl t / h - t / h| ≤ F.u * |t / h| := by
    have e : F.fl t / h - t / h = (F.fl t - t) / h := by ring
    rw [e, abs_div, abs_div, abs_of_pos hh]
    have := F.err t
    rw [← mul_div_assoc]
    exact div_le_div_of_nonneg_right this hh.le
  have h2 : |F.fl t / h| ≤ (1 + F.u) * |t / h| := by
    have := abs_add_le (F.fl t / h - t / h) (t / h)
    simp only [sub_add_cancel] at this
    linarith
  have h3 := F.err (F.fl t / h)
  have h4 : |F.fl (F.fl t / h) - t / h| ≤ |F.fl (F.fl t / h) - F.fl t / h| + |F.fl t / h - t / h| := by
    have := abs_add_le (F.fl (F.fl t / h) - F.fl t / h) (F.fl t / h - t / h)
    simpa using this
  have h5 : F.u * |F.fl t / h| ≤ F.u * ((1 + F.u) * |t / h|) := mul_le_mul_of_nonneg_left h2 e0
  nlinarith [abs_nonneg (t / h)]

/-! ### the decimal grid -/

/-- A decimal grid: start `S`, step `H > 0`, both with at most `p` decimals
(`p = max (scale S) (scale H)` in the code, see `scale_correct`). -/
structure Grid where
  S : ℚ
  H : ℚ
  p : ℕ
  H_pos : 0 < H
  decS : ∃ m : ℤ, S = m / pow10 p
  decH : ∃ m : ℤ, H = m / pow10 p

/-- grid point `k` (exact). -/
def Grid.g (G : Grid) (k : ℤ) : ℚ := G.S + k * G.H

/-- the label of grid point `k`: the float nearest to the decimal grid value. -/
def label (F : Fl) (G : Grid) (k : ℤ) : ℚ := F.fl (G.g k)

/-- the float constants the code computes with. -/
def Grid.s (G : Grid) (F : Fl) : ℚ := F.fl G.S
def Grid.h (G : Grid) (F : Fl) : ℚ := F.fl G.H

theorem Grid.g_dec (G : Grid) (k : ℤ) : ∃ m : ℤ, G.g k = m / pow10 G.p := by
  obtain ⟨a, ha⟩ := G.decS
  obtain ⟨b, hb⟩ := G.decH
  refine ⟨a + k * b, ?_⟩
  unfold Grid.g
  rw [ha, hb]; push_cast; ring

theorem label_zero (F : Fl) (G : Grid) : label F G 0 = G.s F := by
  simp [label, Grid.g, Grid.s]

theorem label_rep (F : Fl) (G : Grid) (k : ℤ) : F.Rep (label F G k) := F.idem _

/-- `normalize` without error analysis: once the two rounded intermediate results are within reach of
the integer `k` resp. the decimal `m/10^p`, the result is the float of that decimal. -/
theorem normalize_core (fl : ℚ → ℚ) (x h s : ℚ) (p : ℕ) (k m : ℤ)
    (hb : |fl (fl (x - s) / h) - k| < 1/2)
    (hd : |fl (fl (h * k) + s) - m / pow10 p| < 1 / (2 * pow10 p)) :
    normalize fl x h s p = fl (m / pow10 p) := by
  unfold normalize
  rw [rndHE_near _ k hb, roundDec_near p _ m hd]

/-- error budget of the quotient `(x-s)/h` against the integer `k` (`K = |k|`, `r ≥ |x - g k|`). -/
def Qerr (e S H h r K : ℚ) : ℚ := (1 + e) ^ 2 * ((r + e * (|S| + K * H)) / h) + (2 * e + e ^ 2) * K

/-- error budget of the recomputed grid value `h*k + s` against `g k`. -/
def Derr (e S H s h K : ℚ) : ℚ := e * ((1 + e) * h * K + |s|) + e * h * K + e * (|S| + K * H)

/-- **normalize_near**: a float `x` within `r` of grid point `k` is normalised to `label k`, provided the
two explicit error budgets (relating `u`, the magnitude of the grid and `k`) are met. -/
theorem normalize_near (F : Fl) (G : Grid) (x : ℚ) (k : ℤ) (r : ℚ)
    (hh : 0 < G.h F)
    (hx : |x - G.g k| ≤ r)
    (hQ : Qerr F.u G.S G.H (G.h F) r |(k:ℚ)| < 1/2)
    (hD : Derr F.u G.S G.H (G.s F) (G.h F) |(k:ℚ)| < 1 / (2 * pow10 G.p)) :
    normalize F.fl x (G.h F) (G.s F) G.p = label F G k := by
  obtain ⟨m, hm⟩ := G.g_dec k
  have e0 := F.u_nonneg
  have hH := G.H_pos
  set e := F.u with he
  set s := G.s F with hs
  set h := G.h F with hhd
  have eS : |G.S - s| ≤ e * |G.S| := F.err' G.S
  have eH : |G.H - h| ≤ e * G.H := by
    have := F.err' G.H; rwa [abs_of_pos hH] at this
  have eS' : |s - G.S| ≤ e * |G.S| := F.err G.S
  have eH' : |h - G.H| ≤ e * G.H := by
    have := F.err G.H; rwa [abs_of_pos hH] at this
  have hK := abs_nonneg (k:ℚ)
  -- the quotient
  have hb : |F.fl (F.fl (x - s) / h) - k| < 1/2 := by
    set A := (r + e * (|G.S| + |(k:ℚ)| * G.H)) / h with hA
    have q1 := F.quot_err (x - s) h hh
    have q2 : |(x - s) / h - k| ≤ A := by
      have e1 : (x - s) / h - k = ((x - G.g k) + (G.S - s) + k * (G.H - h)) / h := by
        unfold Grid.g; field_simp; ring
      rw [e1, abs_div, abs_of_pos hh, hA]
      apply div_le_div_of_nonneg_right _ hh.le
      have t1 := abs_add_le ((x - G.g k) + (G.S - s)) (k * (G.H - h))
      have t2 := abs_add_le (x - G.g k) (G.S - s)
      have t3 : |(k:ℚ) * (G.H - h)| ≤ |(k:ℚ)| * (e * G.H) := by
        rw [abs_mul]; exact mul_le_mul_of_nonneg_left eH hK
      nlinarith
    have q3 : |(x - s) / h| ≤ |(k:ℚ)| + A := by
      have := abs_add_le ((x - s) / h - k) (k:ℚ)
      simp only [sub_add_cancel] at this
      linarith
    have q4 : |F.fl (F.fl (x - s) / h) - k| ≤ |F.fl (F.fl (x - s) / h) - (x - s) / h| + |(x - s) / h - k| := by
      have := abs_add_le (F.fl (F.fl (x - s) / h) - (x - s) / h) ((x - s) / h - k)
      simpa using this
    have q5 : (2 * e + e ^ 2) * |(x - s) / h| ≤ (2 * e + e ^ 2) * (|(k:ℚ)| + A) :=
      mul_le_mul_of_nonneg_left q3 (by positivity)
    have : Qerr e G.S G.H h r |(k:ℚ)| = (1 + e) ^ 2 * A + (2 * e + e ^ 2) * |(k:ℚ)| := rfl
    rw [this] at hQ
    nlinarith
  -- the recomputed grid value
  have hd : |F.fl (F.fl (h * k) + s) - m / pow10 G.p| < 1 / (2 * pow10 G.p) := by
    rw [← hm]
    have d1 := F.err (h * k)
    have d1' : |h * (k:ℚ)| = h * |(k:ℚ)| := by rw [abs_mul, abs_of_pos hh]
    rw [d1'] at d1
    have d2 := F.abs_le (h * k)
    rw [d1'] at d2
    have d3 := F.err (F.fl (h * k) + s)
    have d4 : |F.fl (h * k) + s| ≤ (1 + e) * (h * |(k:ℚ)|) + |s| := by
      have := abs_add_le (F.fl (h * k)) s
      linarith
    have d5 : |(h * k + s) - G.g k| ≤ e * |G.S| + |(k:ℚ)| * (e * G.H) := by
      have e1 : (h * k + s) - G.g k = (s - G.S) + k * (h - G.H) := by unfold Grid.g; ring
      rw [e1]
      have t1 := abs_add_le (s - G.S) (k * (h - G.H))
      have t3 : |(k:ℚ) * (h - G.H)| ≤ |(k:ℚ)| * (e * G.H) := by
        rw [abs_mul]; exact mul_le_mul_of_nonneg_left eH' hK
      linarith
    have d6 : |F.fl (F.fl (h * k) + s) - G.g k| ≤
        |F.fl (F.fl (h * k) + s) - (F.fl (h * k) + s)| + |F.fl (h * k) - h * k| + |(h * k + s) - G.g k| := by
      have a1 := abs_sub_le (F.fl (F.fl (h * k) + s)) (F.fl (h * k) + s) (G.g k)
      have a2 : |(F.fl (h * k) + s) - G.g k| ≤ |F.fl (h * k) - h * k| + |(h * k + s) - G.g k| := by
        have := abs_add_le (F.fl (h * k) - h * k) ((h * k + s) - G.g k)
        have e2 : (F.fl (h * k) - h * k) + ((h * k + s) - G.g k) = (F.fl (h * k) + s) - G.g k := by ring
        rwa [e2] at this
      linarith
    have d7 : e * |F.fl (h * k) + s| ≤ e * ((1 + e) * (h * |(k:ℚ)|) + |s|) := mul_le_mul_of_nonneg_left d4 e0
    unfold Derr at hD
    nlinarith
  have := normalize_core F.fl x h s G.p k m hb hd
  rw [this, label, hm]


/-! ### the budget over a horizon, and `timerange` -/

/-- magnitude bound of the grid values `g 0 … g N`. -/
def Grid.M (G : Grid) (N : ℕ) : ℚ := |G.S| + N * G.H

/-- The explicit hypotheses relating the rounding unit `u`, the magnitude of the grid and the horizon `N`:
`r` bounds the error of one bare float addition from a label (`hR`), the two budgets of `normalize_near`
hold at the horizon (`hQ`, `hD`), neighbouring labels stay apart (`hSep`). For IEEE doubles
(`u = 2^-53`) all of them hold with many orders of magnitude to spare on every realistic grid
(`budget_nonvacuous`). -/
structure Budget (F : Fl) (G : Grid) (N : ℕ) (r : ℚ) : Prop where
  h_pos : 0 < G.h F
  hQ : Qerr F.u G.S G.H (G.h F) r N < 1/2
  hD : Derr F.u G.S G.H (G.s F) (G.h F) N < 1 / (2 * pow10 G.p)
  hR : F.u * ((1 + F.u) * G.M N + G.h F) + F.u * G.M N + F.u * G.H ≤ r
  hSep : 2 * F.u * G.M N < G.H

theorem Qerr_mono (e S H h r K N : ℚ) (he : 0 ≤ e) (hh : 0 < h) (hH : 0 < H) (hKN : K ≤ N) :
    Qerr e S H h r K ≤ Qerr e S H h r N := by
  unfold Qerr
  have h1 : (r + e * (|S| + K * H)) / h ≤ (r + e * (|S| + N * H)) / h := by
    apply div_le_div_of_nonneg_right _ hh.le
    have : K * H ≤ N * H := mul_le_mul_of_nonneg_right hKN hH.le
    nlinarith
  have h2 : (1 + e) ^ 2 * ((r + e * (|S| + K * H)) / h) ≤ (1 + e) ^ 2 * ((r + e * (|S| + N * H)) / h) :=
    mul_le_mul_of_nonneg_left h1 (by positivity)
  have h3 : (2 * e + e ^ 2) * K ≤ (2 * e + e ^ 2) * N := mul_le_mul_of_nonneg_left hKN (by positivity)
  linarith

theorem Derr_mono (e S H s h K N : ℚ) (he : 0 ≤ e) (hh : 0 < h) (hH : 0 < H) (hKN : K ≤ N) :
    Derr e S H s h K ≤ Derr e S H s h N := by
  unfold Derr
  have h1 : h * K ≤ h * N := mul_le_mul_of_nonneg_left hKN hh.le
  have h2 : K * H ≤ N * H := mul_le_mul_of_nonneg_right hKN hH.le
  have h3 : e * ((1 + e) * h * K + |s|) ≤ e * ((1 + e) * h * N + |s|) := by
    apply mul_le_mul_of_nonneg_left _ he
    have : (1 + e) * (h * K) ≤ (1 + e) * (h * N) := mul_le_mul_of_nonneg_left h1 (by positivity)
    nlinarith
  have h4 : e * h * K ≤ e * h * N := by
    have := mul_le_mul_of_nonneg_left h1 he
    nlinarith
  have h5 : e * (|S| + K * H) ≤ e * (|S| + N * H) := mul_le_mul_of_nonneg_left (by linarith) he
  linarith

theorem Grid.g_abs_le (G : Grid) (N : ℕ) (k : ℕ) (hk : k ≤ N) : |G.g (k:ℤ)| ≤ G.M N := by
  unfold Grid.g Grid.M
  have hH := G.H_pos
  have h1 := abs_add_le G.S ((k:ℤ) * G.H)
  have h2 : |((k:ℤ):ℚ) * G.H| = (k:ℚ) * G.H := by
    rw [abs_of_nonneg]; · push_cast; ring
    · push_cast; positivity
  have h3 : (k:ℚ) * G.H ≤ (N:ℚ) * G.H := mul_le_mul_of_nonneg_right (by exact_mod_cast hk) hH.le
  linarith

theorem Grid.g_succ (G : Grid) (k : ℕ) : G.g ((k + 1 : ℕ) : ℤ) = G.g (k:ℤ) + G.H := by
  unfold Grid.g; push_cast; ring

/-- one bare float addition `label k + dt` lands within `r` of the next grid point. -/
theorem step_err (F : Fl) (G : Grid) (N : ℕ) (r : ℚ) (B : Budget F G N r) (k : ℕ) (hk : k ≤ N) :
    |F.fl (label F G k + G.h F) - G.g ((k + 1 : ℕ) : ℤ)| ≤ r := by
  have e0 := F.u_nonneg
  have hH := G.H_pos
  have hM := G.g_abs_le N k hk
  have hM0 : 0 ≤ G.M N := le_trans (abs_nonneg _) hM
  have hh := B.h_pos
  set e := F.u
  set h := G.h F with hhd
  set y := label F G k + h with hy
  have l1 : |label F G k - G.g k| ≤ e * |G.g (k:ℤ)| := F.err _
  have l2 : |label F G k| ≤ (1 + e) * |G.g (k:ℤ)| := F.abs_le _
  have l3 : |h - G.H| ≤ e * G.H := by
    have := F.err G.H; rwa [abs_of_pos hH] at this
  have y1 : |y| ≤ (1 + e) * |G.g (k:ℤ)| + h := by
    have := abs_add_le (label F G k) h
    rw [abs_of_pos hh] at this; linarith
  have y2 := F.err y
  have y3 : |y - G.g ((k + 1 : ℕ) : ℤ)| ≤ e * |G.g (k:ℤ)| + e * G.H := by
    rw [G.g_succ]
    have e1 : y - (G.g k + G.H) = (label F G k - G.g k) + (h - G.H) := by rw [hy]; ring
    rw [e1]
    have := abs_add_le (label F G k - G.g k) (h - G.H)
    linarith
  have y4 := abs_sub_le (F.fl y) y (G.g ((k + 1 : ℕ) : ℤ))
  have y5 : e * |y| ≤ e * ((1 + e) * |G.g (k:ℤ)| + h) := mul_le_mul_of_nonneg_left y1 e0
  have y6 : e * ((1 + e) * |G.g (k:ℤ)|) ≤ e * ((1 + e) * G.M N) :=
    mul_le_mul_of_nonneg_left (mul_le_mul_of_nonneg_left hM (by positivity)) e0
  have y7 : e * |G.g (k:ℤ)| ≤ e * G.M N := mul_le_mul_of_nonneg_left hM e0
  have := B.hR
  nlinarith

/-- neighbouring labels are strictly ordered. -/
theorem label_lt_succ (F : Fl) (G : Grid) (N : ℕ) (r : ℚ) (B : Budget F G N r) (k : ℕ) (hk : k + 1 ≤ N) :
    label F G k < label F G ((k + 1 : ℕ) : ℤ) := by
  have e0 := F.u_nonneg
  have hM1 := G.g_abs_le N k (by omega)
  have hM2 := G.g_abs_le N (k + 1) hk
  have l1 := abs_le.mp (F.err (G.g (k:ℤ)))
  have l2 := abs_le.mp (F.err (G.g ((k + 1 : ℕ) : ℤ)))
  have hs := G.g_succ k
  have := B.hSep
  have y7 : F.u * |G.g (k:ℤ)| ≤ F.u * G.M N := mul_le_mul_of_nonneg_left hM1 e0
  have y8 : F.u * |G.g ((k + 1 : ℕ) : ℤ)| ≤ F.u * G.M N := mul_le_mul_of_nonneg_left hM2 e0
  unfold label
  linarith [l1.2, l2.1]

theorem label_mono (F : Fl) (G : Grid) (j k : ℕ) (h : j ≤ k) : label F G j ≤ label F G k := by
  apply F.mono
  unfold Grid.g
  have hH := G.H_pos
  have : ((j:ℤ):ℚ) * G.H ≤ ((k:ℤ):ℚ) * G.H := mul_le_mul_of_nonneg_right (by exact_mod_cast h) hH.le
  linarith

/-- the loop body's last line takes `label k` to `label (k+1)`. -/
theorem advance_label (F : Fl) (G : Grid) (N : ℕ) (r : ℚ) (B : Budget F G N r) (k : ℕ) (hk : k + 1 ≤ N) :
    advance F.fl (G.s F) (G.h F) G.p (label F G k) = label F G ((k + 1 : ℕ) : ℤ) := by
  unfold advance
  have hKN : |(((k + 1 : ℕ) : ℤ) : ℚ)| ≤ (N:ℚ) := by
    rw [abs_of_nonneg (by positivity)]; exact_mod_cast hk
  apply normalize_near F G _ _ r B.h_pos (step_err F G N r B k (by omega))
  · exact lt_of_le_of_lt (Qerr_mono _ _ _ _ _ _ _ F.u_nonneg B.h_pos G.H_pos hKN) B.hQ
  · exact lt_of_le_of_lt (Derr_mono _ _ _ _ _ _ _ F.u_nonneg B.h_pos G.H_pos hKN) B.hD

theorem timerangeLoop_spec (F : Fl) (G : Grid) (n : ℕ) (r : ℚ) (B : Budget F G (n + 1) r) :
    ∀ (d j : ℕ), j + d = n + 1 → ∀ fuel, d + 1 ≤ fuel → ∀ acc,
      timerangeLoop F.fl (G.s F) (label F G n) (G.h F) G.p false fuel (label F G j) acc
        = some (acc ++ (List.range' j d).map (fun i : ℕ => label F G (i:ℤ))) := by
  intro d
  induction d with
  | zero =>
    intro j hj fuel hf acc
    obtain ⟨f, rfl⟩ : ∃ f, fuel = f + 1 := ⟨fuel - 1, by omega⟩
    have hj' : j = n + 1 := by omega
    subst hj'
    have hlt := label_lt_succ F G (n + 1) r B n (le_refl _)
    rw [timerangeLoop, if_neg (not_le.mpr hlt)]
    simp
  | succ d ih =>
    intro j hj fuel hf acc
    obtain ⟨f, rfl⟩ : ∃ f, fuel = f + 1 := ⟨fuel - 1, by omega⟩
    have hjn : j ≤ n := by omega
    rw [timerangeLoop, if_pos (label_mono F G j n hjn)]
    rw [advance_label F G (n + 1) r B j (by omega)]
    rw [if_pos (Or.inr rfl)]
    rw [ih (j + 1) (by omega) f (by omega)]
    simp [List.range'_succ]

/-- **timerange_spec**: `timerange(start, start+n·dt, dt, exclusive=False)` is exactly one label per grid
point `0 … n`, in order — for every `n`. -/
theorem timerange_spec (F : Fl) (G : Grid) (n : ℕ) (r : ℚ) (B : Budget F G (n + 1) r) (fuel : ℕ) (hf : n + 2 ≤ fuel) :
    timerangeP F.fl fuel (G.s F) (label F G n) (G.h F) G.p false
      = some ((List.range (n + 1)).map (fun i : ℕ => label F G (i:ℤ))) := by
  unfold timerangeP
  have := timerangeLoop_spec F G n r B (n + 1) 0 (by omega) fuel (by omega) []
  have h0 : label F G ((0 : ℕ) : ℤ) = G.s F := by simpa using label_zero F G
  rw [h0] at this
  simpa [List.range_eq_range'] using this


theorem label_lt (F : Fl) (G : Grid) (N : ℕ) (r : ℚ) (B : Budget F G N r) (j k : ℕ) (hjk : j < k) (hk : k ≤ N) :
    label F G j < label F G k := by
  induction k with
  | zero => omega
  | succ k ih =>
    have h1 := label_lt_succ F G N r B k hk
    by_cases hj : j = k
    · subst hj; exact h1
    · exact lt_trans (ih (by omega) (by omega)) h1

/-- the labels of a run are strictly increasing: no duplicates, nothing out of order. -/
theorem labels_increasing (F : Fl) (G : Grid) (n : ℕ) (r : ℚ) (B : Budget F G (n + 1) r) :
    ((List.range (n + 1)).map (fun i : ℕ => label F G (i:ℤ))).Pairwise (· < ·) := by
  rw [List.pairwise_map]
  have h := List.pairwise_lt_range (n := n + 1)
  refine List.Pairwise.imp_of_mem ?_ h
  intro a b ha hb hab
  rw [List.mem_range] at ha hb
  exact label_lt F G (n + 1) r B a b hab (by omega)

/-! ### memo keys: route independence -/

/-- **route_independent**: whatever arithmetic produced `x₁` and `x₂`, if both are within `r` of grid
point `k` they are normalised to the same key `label k` … -/
theorem route_independent (F : Fl) (G : Grid) (N : ℕ) (r : ℚ) (B : Budget F G N r) (k : ℕ) (hk : k ≤ N)
    (x₁ x₂ : ℚ) (h₁ : |x₁ - G.g k| ≤ r) (h₂ : |x₂ - G.g k| ≤ r) :
    memoKey F.fl (G.s F) (G.h F) G.p x₁ = label F G k ∧ memoKey F.fl (G.s F) (G.h F) G.p x₂ = label F G k := by
  have hKN : |(((k : ℕ) : ℤ) : ℚ)| ≤ (N:ℚ) := by
    rw [abs_of_nonneg (by positivity)]; exact_mod_cast hk
  have hQ := lt_of_le_of_lt (Qerr_mono _ G.S G.H _ r _ _ F.u_nonneg B.h_pos G.H_pos hKN) B.hQ
  have hD := lt_of_le_of_lt (Derr_mono _ G.S G.H (G.s F) _ _ _ F.u_nonneg B.h_pos G.H_pos hKN) B.hD
  exact ⟨normalize_near F G x₁ k r B.h_pos h₁ hQ hD, normalize_near F G x₂ k r B.h_pos h₂ hQ hD⟩

/-- … hence `Model.memoize` (look the key up, else evaluate the equation *at the key* and store) returns
the same value: the result is a function of the key alone. -/
theorem route_independent_value {V : Type} (F : Fl) (G : Grid) (N : ℕ) (r : ℚ) (B : Budget F G N r) (k : ℕ)
    (hk : k ≤ N) (x₁ x₂ : ℚ) (h₁ : |x₁ - G.g k| ≤ r) (h₂ : |x₂ - G.g k| ≤ r) (valueAtKey : ℚ → V) :
    valueAtKey (memoKey F.fl (G.s F) (G.h F) G.p x₁) = valueAtKey (memoKey F.fl (G.s F) (G.h F) G.p x₂) := by
  obtain ⟨a, b⟩ := route_independent F G N r B k hk x₁ x₂ h₁ h₂
  rw [a, b]

/-! ### the session clock -/

/-- **clock_normalised_exact**: a clock advanced by `normalize(c + dt)` visits `label 0, label 1, …`
exactly and stops after `label n` — for every number of calls. -/
theorem clock_normalised_exact (c : Cfg) (hc : c.stepClockNormalised = true) (F : Fl) (G : Grid) (n : ℕ) (r : ℚ)
    (B : Budget F G (n + 1) r) :
    ∀ (calls d j : ℕ), j + d = n + 1 →
      sessionClocks c F.fl (G.s F) (label F G n) (G.h F) G.p calls (label F G j)
        = (List.range' j (min calls d)).map (fun i : ℕ => label F G (i:ℤ)) := by
  intro calls
  induction calls with
  | zero => intro d j _; simp [sessionClocks]
  | succ calls ih =>
    intro d j hj
    rw [sessionClocks]
    cases d with
    | zero =>
      have hj' : j = n + 1 := by omega
      subst hj'
      rw [if_pos (label_lt_succ F G (n + 1) r B n (le_refl _))]
      simp
    | succ d =>
      have hjn : j ≤ n := by omega
      rw [if_neg (not_lt.mpr (label_mono F G j n hjn))]
      have hnext : sessionNext c F.fl (G.s F) (G.h F) G.p (label F G j) = label F G ((j + 1 : ℕ) : ℤ) := by
        unfold sessionNext
        rw [if_pos hc]
        exact advance_label F G (n + 1) r B j (by omega)
      rw [hnext, ih d (j + 1) (by omega), Nat.succ_min_succ, List.range'_succ]
      simp

theorem session_clocks_spec (c : Cfg) (hc : c.stepClockNormalised = true) (F : Fl) (G : Grid) (n : ℕ) (r : ℚ)
    (B : Budget F G (n + 1) r) (calls : ℕ) :
    sessionClocks c F.fl (G.s F) (label F G n) (G.h F) G.p calls (G.s F)
      = (List.range (min calls (n + 1))).map (fun i : ℕ => label F G (i:ℤ)) := by
  have := clock_normalised_exact c hc F G n r B calls (n + 1) 0 (by omega)
  have h0 : label F G ((0 : ℕ) : ℤ) = G.s F := by simpa using label_zero F G
  rw [h0] at this
  simpa [List.range_eq_range'] using this

/-- one `run_step` at clock value `G'.s` (the label of the decimal `G'.S`) returns exactly that one key. -/
theorem session_step_keys (c : Cfg) (hc : c.simBoundInclusive = true) (F : Fl) (G' : Grid) (r : ℚ)
    (B : Budget F G' 1 r) (fuel : ℕ) (hf : 2 ≤ fuel) :
    sessionStepKeys c F.fl fuel (G'.h F) G'.p (G'.s F) = some [G'.s F] := by
  unfold sessionStepKeys simTimes
  rw [if_pos hc]
  have := timerange_spec F G' 0 r B fuel hf
  have h0 : label F G' ((0 : ℕ) : ℤ) = G'.s F := by simpa using label_zero F G'
  have h0' : label F G' 0 = G'.s F := label_zero F G'
  simpa [h0'] using this

/-! ### the property -/

/-- **C05 at full strength** for the code variant described by `c`: for every admissible rounding `F`,
every decimal grid `G`, every number of steps `n` (and every fuel that lets the loop finish):
the batch run, the plot and the session report exactly `label 0 … label n`, each session step returns
exactly its own label, and any two floats near the same grid point get the same memo key. -/
def C05_full (c : Cfg) : Prop :=
  ∀ (F : Fl) (G : Grid) (n : ℕ) (r : ℚ), Budget F G (n + 1) r → ∀ fuel, n + 2 ≤ fuel →
    simTimes c F.fl fuel (G.s F) (label F G n) (G.h F) G.p
        = some ((List.range (n + 1)).map (fun i : ℕ => label F G (i:ℤ))) ∧
    plotTimes c F.fl fuel (G.s F) (label F G n) (G.h F) G.p
        = some ((List.range (n + 1)).map (fun i : ℕ => label F G (i:ℤ))) ∧
    (∀ calls, sessionClocks c F.fl (G.s F) (label F G n) (G.h F) G.p calls (G.s F)
        = (List.range (min calls (n + 1))).map (fun i : ℕ => label F G (i:ℤ))) ∧
    (∀ G' : Grid, Budget F G' 1 r → sessionStepKeys c F.fl fuel (G'.h F) G'.p (G'.s F) = some [G'.s F]) ∧
    (∀ (k : ℕ) (x₁ x₂ : ℚ), k ≤ n + 1 → |x₁ - G.g k| ≤ r → |x₂ - G.g k| ≤ r →
        memoKey F.fl (G.s F) (G.h F) G.p x₁ = label F G k ∧ memoKey F.fl (G.s F) (G.h F) G.p x₂ = label F G k)

theorem C05_full_of_good (c : Cfg) (h : c.good = true) : C05_full c := by
  have h' : c.simBoundInclusive = true ∧ c.plotBoundInclusive = true ∧ c.stepClockNormalised = true := by
    unfold Cfg.good at h
    simp only [Bool.and_eq_true] at h
    exact ⟨h.1.1, h.1.2, h.2⟩
  obtain ⟨h1, h2, h3⟩ := h'
  intro F G n r B fuel hf
  refine ⟨?_, ?_, ?_, ?_, ?_⟩
  · unfold simTimes; rw [if_pos h1]; exact timerange_spec F G n r B fuel hf
  · unfold plotTimes; rw [if_pos h2]; exact timerange_spec F G n r B fuel hf
  · exact session_clocks_spec c h3 F G n r B
  · intro G' B'; exact session_step_keys c h1 F G' r B' fuel (by omega)
  · intro k x₁ x₂ hk h₁ h₂; exact route_independent F G (n + 1) r B k hk x₁ x₂ h₁ h₂

/-- What holds whatever the probes say: `util.timerange` itself, the memo key and the strict order of the
labels do not depend on the three call sites. -/
theorem C05_partial (F : Fl) (G : Grid) (n : ℕ) (r : ℚ) (B : Budget F G (n + 1) r) (fuel : ℕ) (hf : n + 2 ≤ fuel) :
    timerangeP F.fl fuel (G.s F) (label F G n) (G.h F) G.p false
        = some ((List.range (n + 1)).map (fun i : ℕ => label F G (i:ℤ))) ∧
    ((List.range (n + 1)).map (fun i : ℕ => label F G (i:ℤ))).Pairwise (· < ·) ∧
    (∀ (k : ℕ) (x₁ x₂ : ℚ), k ≤ n + 1 → |x₁ - G.g k| ≤ r → |x₂ - G.g k| ≤ r →
        memoKey F.fl (G.s F) (G.h F) G.p x₁ = memoKey F.fl (G.s F) (G.h F) G.p x₂) := by
  refine ⟨timerange_spec F G n r B fuel hf, labels_increasing F G n r B, ?_⟩
  intro k x₁ x₂ hk h₁ h₂
  obtain ⟨a, b⟩ := route_independent F G (n + 1) r B k hk x₁ x₂ h₁ h₂
  rw [a, b]


/-! ### negation witnesses: the pinned variants are not correct for every admissible rounding -/

/-- a (coarse) admissible rounding: exact everywhere except that `[0.1, 0.1001)` is rounded up to `0.1001`
— the analogue of `0.1` not being a binary fraction. Relative error ≤ 1/1000. -/
def flWf (x : ℚ) : ℚ := if 1/10 ≤ x ∧ x < 1/10 + 1/10000 then 1/10 + 1/10000 else x

def flW : Fl where
  fl := flWf
  u := 1/1000
  u_nonneg := by norm_num
  idem := by
    intro x; unfold flWf
    by_cases h : 1/10 ≤ x ∧ x < 1/10 + 1/10000
    · rw [if_pos h, if_neg]; intro h'; exact absurd h'.2 (lt_irrefl _)
    · rw [if_neg h, if_neg h]
  mono := by
    intro x y hxy; unfold flWf
    by_cases hx : 1/10 ≤ x ∧ x < 1/10 + 1/10000 <;> by_cases hy : 1/10 ≤ y ∧ y < 1/10 + 1/10000
    · rw [if_pos hx, if_pos hy]
    · rw [if_pos hx, if_neg hy]
      by_contra hlt
      exact hy ⟨le_trans hx.1 hxy, not_le.mp hlt⟩
    · rw [if_neg hx, if_pos hy]; linarith [hy.2]
    · rw [if_neg hx, if_neg hy]; exact hxy
  err := by
    intro x; unfold flWf
    by_cases hx : 1/10 ≤ x ∧ x < 1/10 + 1/10000
    · rw [if_pos hx, abs_of_nonneg (by linarith [hx.2]), abs_of_nonneg (by linarith [hx.1])]
      linarith [hx.1, hx.2]
    · rw [if_neg hx, sub_self, abs_zero]; positivity

/-- the grid `0, 0.1, 0.2, …`. -/
def G01 : Grid where
  S := 0
  H := 1/10
  p := 1
  H_pos := by norm_num
  decS := ⟨0, by simp⟩
  decH := ⟨1, by simp [pow10]⟩

theorem budget_W : Budget flW G01 4 (1/500) := by
  have hh : G01.h flW = 1001/10000 := by
    simp only [Grid.h, flW, G01, flWf]; norm_num
  have hs : G01.s flW = 0 := by
    simp only [Grid.s, flW, G01, flWf]; norm_num
  refine ⟨?_, ?_, ?_, ?_, ?_⟩
  · rw [hh]; norm_num
  · rw [hh]; simp only [Qerr, flW, G01]; norm_num
  · rw [hh, hs]; simp only [Derr, flW, G01, pow10]; norm_num
  · rw [hh]; simp only [Grid.M, flW, G01]; norm_num
  · simp only [Grid.M, flW, G01]; norm_num

/-- the hypotheses of `C05_full` are satisfiable by a rounding that is not exact (non-vacuity), and on
it the repaired variant does produce the grid `label 0 … label 3`. -/
example : simTimes ⟨true, true, true⟩ flW.fl 5 (G01.s flW) (label flW G01 3) (G01.h flW) G01.p
    = some [0, 1001/10000, 2/10, 3/10] := by decide +kernel

example : C05_full ⟨true, true, true⟩ := C05_full_of_good _ (by decide)

/-- bare `step + dt` as session clock: with the rounding `flW` the third clock value is `0.2002`, not the
label `0.2`. -/
theorem C05_witness_session (c : Cfg) (h : c.stepClockNormalised = false) : ¬ C05_full c := by
  intro hf
  have h3 := (hf flW G01 3 (1/500) budget_W 5 (by norm_num)).2.2.1 3
  rcases c with ⟨a, b, d⟩
  simp only at h
  subst h
  revert h3
  cases a <;> cases b <;> decide +kernel

/-- `until + dt` as exclusive bound of the batch run: with `flW`, `0.2 + 0.1001 = 0.3001 > 0.3`, a fourth row. -/
theorem C05_witness_simBound (c : Cfg) (h : c.simBoundInclusive = false) : ¬ C05_full c := by
  intro hf
  have h3 := (hf flW G01 2 (1/500) (by
    have B := budget_W
    exact ⟨B.h_pos, lt_of_le_of_lt (Qerr_mono _ _ _ _ _ _ _ flW.u_nonneg B.h_pos G01.H_pos (by norm_num)) B.hQ,
      lt_of_le_of_lt (Derr_mono _ _ _ _ _ _ _ flW.u_nonneg B.h_pos G01.H_pos (by norm_num)) B.hD,
      by have := B.hR; simp only [Grid.M, flW, G01] at this ⊢; norm_num at this ⊢; linarith,
      by simp only [Grid.M, flW, G01]; norm_num⟩) 4 (by norm_num)).1
  rcases c with ⟨a, b, d⟩
  simp only at h
  subst h
  revert h3
  cases b <;> cases d <;> decide +kernel

/-- the same bound in `Element.plot`. -/
theorem C05_witness_plotBound (c : Cfg) (h : c.plotBoundInclusive = false) : ¬ C05_full c := by
  intro hf
  have h3 := (hf flW G01 2 (1/500) (by
    have B := budget_W
    exact ⟨B.h_pos, lt_of_le_of_lt (Qerr_mono _ _ _ _ _ _ _ flW.u_nonneg B.h_pos G01.H_pos (by norm_num)) B.hQ,
      lt_of_le_of_lt (Derr_mono _ _ _ _ _ _ _ flW.u_nonneg B.h_pos G01.H_pos (by norm_num)) B.hD,
      by have := B.hR; simp only [Grid.M, flW, G01] at this ⊢; norm_num at this ⊢; linarith,
      by simp only [Grid.M, flW, G01]; norm_num⟩) 4 (by norm_num)).2.1
  rcases c with ⟨a, b, d⟩
  simp only at h
  subst h
  revert h3
  cases a <;> cases d <;> decide +kernel

/-! The same three facts on IEEE doubles (Lean `Float`, kernel-evaluated; witnesses only — the harness
replays these numbers on the implementation). -/

/-- bare session clock, dt = 0.1: after three additions the clock is not the label 0.3 … -/
theorem float_witness_session : (((0.0 : Float) + 0.1 + 0.1 + 0.1) == 0.3) = false := by decide +kernel
/-- … and after eight it is below 0.8. -/
theorem float_witness_session8 :
    (((0.0 : Float) + 0.1 + 0.1 + 0.1 + 0.1 + 0.1 + 0.1 + 0.1 + 0.1) < 0.8) = true := by decide +kernel
/-- `until + dt` for until = 0.2, dt = 0.1 exceeds the label 0.3, which therefore passes `i < stop`. -/
theorem float_witness_bound : (((0.2 : Float) + 0.1) > 0.3) = true := by decide +kernel

/-- the budget of the theorems for IEEE doubles (`u = 2^-53`) on the largest lattice grid of the check
(start 1000.1, dt 0.001, 201 steps, one-addition error r = 10^-12): satisfied with orders of magnitude
to spare (the float constants s, h are bounded by their error intervals). -/
theorem budget_nonvacuous :
    let e : ℚ := 1 / 2 ^ 53
    let S : ℚ := 10001 / 10
    let H : ℚ := 1 / 1000
    let N : ℚ := 201
    let r : ℚ := 1 / 10 ^ 12
    ∀ s h : ℚ, |s - S| ≤ e * |S| → |h - H| ≤ e * H →
      e * ((1 + e) * (|S| + N * H) + h) + e * (|S| + N * H) + e * H ≤ r ∧ 2 * e * (|S| + N * H) < H ∧
      Derr e S H s h N < 1 / (2 * 10 ^ 3) := by
  intro e S H N r s h hs hh
  have hS : |S| = 10001 / 10 := by simp only [S]; rw [abs_of_pos]; norm_num
  rw [hS] at hs ⊢
  have h1 := abs_le.mp hh
  have h2 := abs_le.mp hs
  have hs' : |s| ≤ 1001 := by
    rw [abs_le]; constructor <;> (norm_num [e, S] at h2 ⊢; linarith [h2.1, h2.2])
  have hh' : h ≤ 2 / 1000 := by norm_num [e, H] at h1 ⊢; linarith [h1.2]
  have hh0 : 0 ≤ h := by norm_num [e, H] at h1 ⊢; linarith [h1.1]
  refine ⟨?_, ?_, ?_⟩
  · norm_num [e, H, N, r]; linarith
  · norm_num [e, H, N]
  · unfold Derr
    rw [hS]
    norm_num [e, H, N]
    nlinarith

/-! ### `precision_and_scale` on decimal digit strings -/

theorem stripZeros_pow (j q : ℕ) (hq : q % 10 ≠ 0) : stripZeros (10 ^ j * q) = q := by
  induction j with
  | zero =>
    rw [stripZeros]
    simp only [pow_zero, one_mul]
    rw [if_neg]; intro h; exact hq h.1
  | succ j ih =>
    rw [stripZeros]
    have hqpos : 0 < q := by omega
    have h1 : 10 ^ (j + 1) * q = 10 * (10 ^ j * q) := by rw [pow_succ]; ring
    have hpos : 0 < 10 ^ j * q := Nat.mul_pos (by positivity) hqpos
    rw [h1, if_pos ⟨by omega, by omega⟩, Nat.mul_div_cancel_left _ (by norm_num : 0 < 10)]
    exact ih

theorem ilog10_eq (p : ℕ) : ∀ n : ℕ, 10 ^ p ≤ n → n < 10 ^ (p + 1) → ilog10 n = p := by
  induction p with
  | zero =>
    intro n _ h2
    rw [ilog10, if_pos (by simpa using h2)]
  | succ p ih =>
    intro n h1 h2
    rw [ilog10]
    have h10 : 10 ≤ n := by
      have : 10 ^ 1 ≤ 10 ^ (p + 1) := Nat.pow_le_pow_right (by norm_num) (by omega)
      omega
    rw [if_neg (by omega)]
    have e1 : 10 ^ (p + 1) = 10 ^ p * 10 := pow_succ 10 p
    have e2 : 10 ^ (p + 1 + 1) = 10 ^ (p + 1) * 10 := pow_succ 10 (p + 1)
    rw [ih (n / 10) (by rw [Nat.le_div_iff_mul_le (by norm_num)]; omega)
      (by rw [Nat.div_lt_iff_lt_mul (by norm_num)]; omega)]

/-- **scale_correct** on decimal digit strings: the number written `ip.f` with `p` fraction digits
(`f < 10^p`, last digit non-zero unless there is no fraction), at most 14 significant digits in all:
`scale` returns exactly the number of decimals `p`. -/
theorem scale_correct (ip f p : ℕ) (hf : f < 10 ^ p) (hmin : p = 0 ∨ f % 10 ≠ 0)
    (hmag : (if ip = 0 then 1 else ilog10 ip + 1) + p ≤ 14) :
    scale ((ip : ℚ) + (f : ℚ) / (10 : ℚ) ^ p) = p := by
  have hp10 : (0 : ℚ) < (10 : ℚ) ^ p := by positivity
  have hfr0 : 0 ≤ (f : ℚ) / (10 : ℚ) ^ p := by positivity
  have hfr1 : (f : ℚ) / (10 : ℚ) ^ p < 1 := by
    rw [div_lt_one hp10]; exact_mod_cast hf
  set x : ℚ := (ip : ℚ) + (f : ℚ) / (10 : ℚ) ^ p with hx
  have hx0 : 0 ≤ x := by positivity
  have habs : absQ x = x := by rw [absQ_eq, abs_of_nonneg hx0]
  have hfloor : x.floor = (ip : ℤ) := by
    show ⌊x⌋ = (ip : ℤ)
    rw [Int.floor_eq_iff]; constructor
    · push_cast; linarith
    · push_cast; linarith
  unfold scale precisionAndScale
  simp only [habs, hfloor, Int.toNat_natCast]
  set mag := (if ip = 0 then 1 else ilog10 ip + 1) with hmagd
  by_cases hm : mag ≥ maxDigits
  · rw [if_pos hm]
    simp only [maxDigits] at hm
    show 0 = p
    omega
  · rw [if_neg hm]
    simp only [maxDigits] at hm ⊢
    have hj : 14 - mag = (14 - mag - p) + p := by omega
    set j := 14 - mag - p with hjd
    have hfrac : x - (ip : ℚ) = (f : ℚ) / (10 : ℚ) ^ p := by rw [hx]; ring
    have hprod : (((10 ^ (14 - mag) : ℕ) : ℚ)) * (x - (ip:ℚ)) + 1 / 2 = ((10 ^ j * f : ℕ) : ℚ) + 1 / 2 := by
      rw [hfrac, hj]; push_cast; rw [pow_add]; field_simp
    have hfl : ((((10 ^ (14 - mag) : ℕ) : ℚ)) * (x - (ip:ℚ)) + 1 / 2).floor = ((10 ^ j * f : ℕ) : ℤ) := by
      rw [hprod]
      show ⌊((10 ^ j * f : ℕ) : ℚ) + 1 / 2⌋ = ((10 ^ j * f : ℕ) : ℤ)
      rw [Int.floor_eq_iff]; constructor
      · push_cast; linarith
      · push_cast; linarith
    rw [hfl, Int.toNat_natCast]
    have hfd : 10 ^ (14 - mag) + 10 ^ j * f = 10 ^ j * (10 ^ p + f) := by
      rw [hj, pow_add]; ring
    rw [hfd]
    have hq : (10 ^ p + f) % 10 ≠ 0 := by
      rcases hmin with h0 | h1
      · subst h0; simp at hf; subst hf; simp
      · have : p = (p - 1) + 1 := by
          rcases Nat.eq_zero_or_pos p with h | h
          · subst h; simp at hf; subst hf; simp at h1
          · omega
        rw [this, pow_succ]; omega
    rw [stripZeros_pow j _ hq]
    exact ilog10_eq p _ (by omega) (by rw [pow_succ]; omega)


/-- hence the precision the code computes makes the decimal a multiple of `10^-precision` … -/
theorem dec_of_scale (ip f p : ℕ) (hf : f < 10 ^ p) (hmin : p = 0 ∨ f % 10 ≠ 0)
    (hmag : (if ip = 0 then 1 else ilog10 ip + 1) + p ≤ 14) :
    ∃ m : ℤ, (ip : ℚ) + (f : ℚ) / (10 : ℚ) ^ p = m / pow10 (scale ((ip : ℚ) + (f : ℚ) / (10 : ℚ) ^ p)) := by
  rw [scale_correct ip f p hf hmin hmag, pow10_eq]
  refine ⟨(ip : ℤ) * 10 ^ p + f, ?_⟩
  have hp10 : (0 : ℚ) < (10 : ℚ) ^ p := by positivity
  push_cast; field_simp

/-- … and so does every larger precision (`max (scale start) (scale dt)`): the `decS`/`decH` fields of `Grid`. -/
theorem dec_mono (x : ℚ) (p q : ℕ) (hpq : p ≤ q) (h : ∃ m : ℤ, x = m / pow10 p) : ∃ m : ℤ, x = m / pow10 q := by
  obtain ⟨m, hm⟩ := h
  obtain ⟨d, rfl⟩ := Nat.exists_eq_add_of_le hpq
  refine ⟨m * 10 ^ d, ?_⟩
  rw [hm, pow10_eq, pow10_eq, pow_add]
  have hp10 : (0 : ℚ) < (10 : ℚ) ^ p := by positivity
  have hq10 : (0 : ℚ) < (10 : ℚ) ^ d := by positivity
  push_cast; field_simp

example : scale ((1000 : ℚ) + 1 / 10 ^ 1) = 1 := by
  have := scale_correct 1000 1 1 (by norm_num) (Or.inr (by norm_num)) (by simp [ilog10])
  simpa using this

#print axioms normalize_near
#print axioms timerange_spec
#print axioms route_independent
#print axioms clock_normalised_exact
#print axioms labels_increasing
#print axioms C05_full_of_good
#print axioms C05_partial
#print axioms C05_witness_session
#print axioms C05_witness_simBound
#print axioms C05_witness_plotBound
#print axioms float_witness_session
#print axioms float_witness_bound
#print axioms budget_nonvacuous
#print axioms scale_correct
#print axioms dec_of_scale

end Bptk.C05
