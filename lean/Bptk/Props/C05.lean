import Bptk.Core.C05
import Mathlib.Algebra.Order.Floor.Ring
import Mathlib.Data.Rat.Floor
import Mathlib.Tactic.Linarith
import Mathlib.Tactic.Ring
import Mathlib.Tactic.Positivity
import Mathlib.Tactic.FieldSimp
import Mathlib.Tactic.NormNum
/-!
C05 — property theorems.  Time is rational; floating point is an adversary `F : Fl` (any rounding
function with relative error ≤ `u`, monotone, idempotent) — hypotheses, never axioms.
Quantifiers: every `F`, every decimal grid `G = (S, H, p)`, every number of steps `n` (induction),
every float `x` near a grid point.
-/
namespace Bptk.C05

/-! ### bridging the import-free model to Mathlib notions -/

theorem absQ_eq (x : ℚ) : absQ x = |x| := by
  unfold absQ
  split
  · rw [abs_of_neg (by assumption)]
  · rw [abs_of_nonneg (by linarith)]

theorem pow10_eq (p : ℕ) : pow10 p = (10 : ℚ) ^ p := by
  unfold pow10; push_cast; rfl

theorem pow10_pos (p : ℕ) : 0 < pow10 p := by rw [pow10_eq]; positivity

/-- Python's round-half-even sends everything closer than 1/2 to an integer to that integer. -/
theorem rndHE_near (y : ℚ) (k : ℤ) (h : |y - k| < 1/2) : rndHE y = k := by
  have h1 := abs_lt.mp h
  unfold rndHE
  simp only
  have hfl : y.floor = ⌊y⌋ := rfl
  rw [hfl]
  by_cases hk : (k:ℚ) ≤ y
  · have hf : ⌊y⌋ = k := by
      rw [Int.floor_eq_iff]; constructor
      · exact hk
      · linarith [h1.2]
    rw [hf]
    have : y - (k:ℚ) < 1/2 := by linarith [h1.2]
    rw [if_pos this]
  · rw [not_le] at hk
    have hf : ⌊y⌋ = k - 1 := by
      rw [Int.floor_eq_iff]; constructor
      · push_cast; linarith [h1.1]
      · push_cast; linarith
    rw [hf]
    have h2 : ¬ (y - ((k - 1 : ℤ) : ℚ) < 1/2) := by push_cast; linarith [h1.1]
    have h3 : (1/2 : ℚ) < y - ((k - 1 : ℤ) : ℚ) := by push_cast; linarith [h1.1]
    rw [if_neg h2, if_pos h3]; ring

/-- `round(x, p)`: everything closer than half a unit of the `p`-th decimal to `m/10^p` is sent to it. -/
theorem roundDec_near (p : ℕ) (x : ℚ) (m : ℤ) (h : |x - m / pow10 p| < 1 / (2 * pow10 p)) :
    roundDec p x = m / pow10 p := by
  have hp := pow10_pos p
  unfold roundDec
  have : |x * pow10 p - m| < 1/2 := by
    have e : x * pow10 p - m = (x - m / pow10 p) * pow10 p := by field_simp
    rw [e, abs_mul, abs_of_pos hp]
    have : |x - m / pow10 p| * pow10 p < 1 / (2 * pow10 p) * pow10 p := by
      exact mul_lt_mul_of_pos_right h hp
    have e2 : 1 / (2 * pow10 p) * pow10 p = 1/2 := by field_simp
    linarith
  rw [rndHE_near _ m this]

/-! ### the floating-point adversary -/

/-- Any rounding function with bounded relative error (IEEE-754 round-to-nearest double: `u = 2^-53`,
within the normal range). -/
structure Fl where
  fl : ℚ → ℚ
  u : ℚ
  u_nonneg : 0 ≤ u
  idem : ∀ x, fl (fl x) = fl x
  mono : ∀ x y, x ≤ y → fl x ≤ fl y
  err : ∀ x, |fl x - x| ≤ u * |x|

/-- representable numbers: those the rounding leaves alone. -/
def Fl.Rep (F : Fl) (x : ℚ) : Prop := F.fl x = x

theorem Fl.rep_fl (F : Fl) (x : ℚ) : F.Rep (F.fl x) := F.idem x

/-- exact arithmetic is one admissible adversary. -/
def Fl.exact : Fl := { fl := id, u := 0, u_nonneg := le_refl _, idem := fun _ => rfl, mono := fun _ _ h => h,
                       err := fun x => by simp }

theorem Fl.abs_le (F : Fl) (x : ℚ) : |F.fl x| ≤ (1 + F.u) * |x| := by
  have h := F.err x
  have : |F.fl x| ≤ |F.fl x - x| + |x| := by
    have := abs_add_le (F.fl x - x) x
    simpa using this
  linarith

theorem Fl.err' (F : Fl) (x : ℚ) : |x - F.fl x| ≤ F.u * |x| := by
  rw [abs_sub_comm]; exact F.err x

/-- two roundings around a division by a positive float. -/
theorem Fl.quot_err (F : Fl) (t h : ℚ) (hh : 0 < h) :
    |F.fl (F.fl t / h) - t / h| ≤ (2 * F.u + F.u ^ 2) * |t / h| := by
  have e0 := F.u_nonneg
  have h1 : |F.fl t / h - t / h| ≤ F.u * |t / h| := by
    have e : F.fl t / h - t / h = (F.fl t - t) / h := by ring
    rw [e, abs_div, abs_div, abs_of_pos hh]
    have := F.err t
    rw [← mul_div_assoc]
    exact div_le_div_of_nonneg_right this hh.le
  have h2 : |F.fl t / h| ≤ (1 + F.u) * |t / h| := by
    have := abs_add_le (F.fl t / h - t / h) (t / h)
    simp only [sub_add_cancel] at this
    linarith
  have h3 := F.err (F.fl t / h)
  have h4 : |F.fl (F.fl t / h) - t / h| ≤ |F.fl (F.fl t / h) - F.fl t / h| + |F.fl t / h - t / h| := by
    have := abs_add_le (F.fl (F.fl t / h) - F.fl t / h) (F.fl t / h - t / h)
    simpa using this
  have h5 : F.u * |F.fl t / h| ≤ F.u * ((1 + F.u) * |t / h|) := mul_le_mul_of_nonneg_left h2 e0
  nlinarith [abs_nonneg (t / h)]

/-! ### the decimal grid -/

/-- A decimal grid: start `S`, step `H > 0`, both with at most `p` decimals
(`p = max (scale S) (scale H)` in the code, see `scale_correct`). -/
structure Grid where
  S : ℚ
  H : ℚ
  p : ℕ
  H_pos : 0 < H
  decS : ∃ m : ℤ, S = m / pow10 p
  decH : ∃ m : ℤ, H = m / pow10 p

/-- grid point `k` (exact). -/
def Grid.g (G : Grid) (k : ℤ) : ℚ := G.S + k * G.H

/-- the label of grid point `k`: the float nearest to the decimal grid value. -/
def label (F : Fl) (G : Grid) (k : ℤ) : ℚ := F.fl (G.g k)

/-- the float constants the code computes with. -/
def Grid.s (G : Grid) (F : Fl) : ℚ := F.fl G.S
def Grid.h (G : Grid) (F : Fl) : ℚ := F.fl G.H

theorem Grid.g_dec (G : Grid) (k : ℤ) : ∃ m : ℤ, G.g k = m / pow10 G.p := by
  obtain ⟨a, ha⟩ := G.decS
  obtain ⟨b, hb⟩ := G.decH
  refine ⟨a + k * b, ?_⟩
  unfold Grid.g
  rw [ha, hb]; push_cast; ring

theorem label_zero (F : Fl) (G : Grid) : label F G 0 = G.s F := by
  simp [label, Grid.g, Grid.s]

theorem label_rep (F : Fl) (G : Grid) (k : ℤ) : F.Rep (label F G k) := F.idem _

/-- `normalize` without error analysis: once the two rounded intermediate results are within reach of
the integer `k` resp. the decimal `m/10^p`, the result is the float of that decimal. -/
theorem normalize_core (fl : ℚ → ℚ) (x h s : ℚ) (p : ℕ) (k m : ℤ)
    (hb : |fl (fl (x - s) / h) - k| < 1/2)
    (hd : |fl (fl (h * k) + s) - m / pow10 p| < 1 / (2 * pow10 p)) :
    normalize fl x h s p = fl (m / pow10 p) := by
  unfold normalize
  rw [rndHE_near _ k hb, roundDec_near p _ m hd]

/-- error budget of the quotient `(x-s)/h` against the integer `k` (`K = |k|`, `r ≥ |x - g k|`). -/
def Qerr (e S H h r K : ℚ) : ℚ := (1 + e) ^ 2 * ((r + e * (|S| + K * H)) / h) + (2 * e + e ^ 2) * K

/-- error budget of the recomputed grid value `h*k + s` against `g k`. -/
def Derr (e S H s h K : ℚ) : ℚ := e * ((1 + e) * h * K + |s|) + e * h * K + e * (|S| + K * H)

/-- **normalize_near**: a float `x` within `r` of grid point `k` is normalised to `label k`, provided the
two explicit error budgets (relating `u`, the magnitude of the grid and `k`) are met. -/
theorem normalize_near (F : Fl) (G : Grid) (x : ℚ) (k : ℤ) (r : ℚ)
    (hh : 0 < G.h F)
    (hx : |x - G.g k| ≤ r)
    (hQ : Qerr F.u G.S G.H (G.h F) r |(k:ℚ)| < 1/2)
    (hD : Derr F.u G.S G.H (G.s F) (G.h F) |(k:ℚ)| < 1 / (2 * pow10 G.p)) :
    normalize F.fl x (G.h F) (G.s F) G.p = label F G k := by
  obtain ⟨m, hm⟩ := G.g_dec k
  have e0 := F.u_nonneg
  have hH := G.H_pos
  set e := F.u with he
  set s := G.s F with hs
  set h := G.h F with hhd
  have eS : |G.S - s| ≤ e * |G.S| := F.err' G.S
  have eH : |G.H - h| ≤ e * G.H := by
    have := F.err' G.H; rwa [abs_of_pos hH] at this
  have eS' : |s - G.S| ≤ e * |G.S| := F.err G.S
  have eH' : |h - G.H| ≤ e * G.H := by
    have := F.err G.H; rwa [abs_of_pos hH] at this
  have hK := abs_nonneg (k:ℚ)
  -- the quotient
  have hb : |F.fl (F.fl (x - s) / h) - k| < 1/2 := by
    set A := (r + e * (|G.S| + |(k:ℚ)| * G.H)) / h with hA
    have q1 := F.quot_err (x - s) h hh
    have q2 : |(x - s) / h - k| ≤ A := by
      have e1 : (x - s) / h - k = ((x - G.g k) + (G.S - s) + k * (G.H - h)) / h := by
        unfold Grid.g; field_simp; ring
      rw [e1, abs_div, abs_of_pos hh, hA]
      apply div_le_div_of_nonneg_right _ hh.le
      have t1 := abs_add_le ((x - G.g k) + (G.S - s)) (k * (G.H - h))
      have t2 := abs_add_le (x - G.g k) (G.S - s)
      have t3 : |(k:ℚ) * (G.H - h)| ≤ |(k:ℚ)| * (e * G.H) := by
        rw [abs_mul]; exact mul_le_mul_of_nonneg_left eH hK
      nlinarith
    have q3 : |(x - s) / h| ≤ |(k:ℚ)| + A := by
      have := abs_add_le ((x - s) / h - k) (k:ℚ)
      simp only [sub_add_cancel] at this
      linarith
    have q4 : |F.fl (F.fl (x - s) / h) - k| ≤ |F.fl (F.fl (x - s) / h) - (x - s) / h| + |(x - s) / h - k| := by
      have := abs_add_le (F.fl (F.fl (x - s) / h) - (x - s) / h) ((x - s) / h - k)
      simpa using this
    have q5 : (2 * e + e ^ 2) * |(x - s) / h| ≤ (2 * e + e ^ 2) * (|(k:ℚ)| + A) :=
      mul_le_mul_of_nonneg_left q3 (by positivity)
    have : Qerr e G.S G.H h r |(k:ℚ)| = (1 + e) ^ 2 * A + (2 * e + e ^ 2) * |(k:ℚ)| := rfl
    rw [this] at hQ
    nlinarith
  -- the recomputed grid value
  have hd : |F.fl (F.fl (h * k) + s) - m / pow10 G.p| < 1 / (2 * pow10 G.p) := by
    rw [← hm]
    have d1 := F.err (h * k)
    have d1' : |h * (k:ℚ)| = h * |(k:ℚ)| := by rw [abs_mul, abs_of_pos hh]
    rw [d1'] at d1
    have d2 := F.abs_le (h * k)
    rw [d1'] at d2
    have d3 := F.err (F.fl (h * k) + s)
    have d4 : |F.fl (h * k) + s| ≤ (1 + e) * (h * |(k:ℚ)|) + |s| := by
      have := abs_add_le (F.fl (h * k)) s
      linarith
    have d5 : |(h * k + s) - G.g k| ≤ e * |G.S| + |(k:ℚ)| * (e * G.H) := by
      have e1 : (h * k + s) - G.g k = (s - G.S) + k * (h - G.H) := by unfold Grid.g; ring
      rw [e1]
      have t1 := abs_add_le (s - G.S) (k * (h - G.H))
      have t3 : |(k:ℚ) * (h - G.H)| ≤ |(k:ℚ)| * (e * G.H) := by
        rw [abs_mul]; exact mul_le_mul_of_nonneg_left eH' hK
      linarith
    have d6 : |F.fl (F.fl (h * k) + s) - G.g k| ≤
        |F.fl (F.fl (h * k) + s) - (F.fl (h * k) + s)| + |F.fl (h * k) - h * k| + |(h * k + s) - G.g k| := by
      have a1 := abs_add_le (F.fl (F.fl (h * k) + s) - (F.fl (h * k) + s)) ((F.fl (h * k) + s) - G.g k)
      have a2 := abs_add_le (F.fl (h * k) - h * k) ((h * k + s) - G.g k)
      have e2 : (F.fl (h * k) + s) - G.g k = (F.fl (h * k) - h * k) + ((h * k + s) - G.g k) := by ring
      rw [e2] at a1
      simp only [sub_add_cancel] at a1
      have e3 : F.fl (F.fl (h * ↑k) + s) - (F.fl (h * ↑k) + s) + (F.fl (h * ↑k) - h * ↑k + (h * ↑k + s - G.g k))
          = F.fl (F.fl (h * k) + s) - G.g k := by ring
      rw [e3] at a1
      linarith
    have d7 : e * |F.fl (h * k) + s| ≤ e * ((1 + e) * (h * |(k:ℚ)|) + |s|) := mul_le_mul_of_nonneg_left d4 e0
    unfold Derr at hD
    nlinarith
  have := normalize_core F.fl x h s G.p k m hb hd
  rw [this, label, hm]


end Bptk.C05
