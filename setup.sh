#!/bin/bash
# Offline build of the framework: generates lean/Bptk/Gen/* from /repo and builds every Lean module.
set -e
cd "$(dirname "$0")"
/venv/bin/python harness/setup_all.py
