#!/bin/bash
# usage: try_seed.sh <seed-id> <worktree-or-existing> <check> [<check>...]
# Collects a seeded defect from a mutation worktree (if given), confirms the demonstration in a scratch
# worktree of /repo HEAD (fails with the change, passes without, baseline suite unchanged), runs the
# given checks against it in /repo (apply, run, undo) and records the outcome in seeded/<id>/meta.json.
id=$1; wt=$2; shift 2
d=/verif/seeded/$id; mkdir -p $d
if [ -d "$wt" ]; then
  git -C $wt diff -- BPTK_Py > $d/patch.diff
  cp $wt/demo.py $d/demo.py 2>/dev/null; cp $wt/NOTES.md $d/NOTES.md 2>/dev/null
fi
S=/tmp/seedwt_$id; git -C /repo worktree remove --force $S 2>/dev/null
git -C /repo worktree add -q $S HEAD || exit 2
cd $S
cp $d/demo.py .
/venv/bin/python demo.py > $d/demo_without.txt 2>&1; rc0=$?
if ! git apply $d/patch.diff; then echo "PATCH DOES NOT APPLY to HEAD"; applies=false; else applies=true; fi
/venv/bin/python demo.py > $d/demo_with.txt 2>&1; rc1=$?
echo "demo without change: exit $rc0 ; with change: exit $rc1"
# baseline suite with the change
env -u BPTK_PY_VERIF /venv/bin/python -m pytest -q -p no:cacheprovider --timeout=900 --continue-on-collection-errors --junitxml=/tmp/seed_$id.xml > /tmp/seed_$id.out 2>&1
base=$(/venv/bin/python - /tmp/seed_$id.xml <<'PY'
import sys, json, xml.etree.ElementTree as ET
base = set(json.load(open('/root/.vp/BASELINE.json'))['stable_pass'])
passed = set()
for tc in ET.parse(sys.argv[1]).getroot().iter('testcase'):
    if not any(ch.tag in ('failure', 'error', 'skipped') for ch in tc):
        passed.add(tc.get('classname') + '::' + tc.get('name'))
print(len(base & passed), "of", len(base))
PY
)
echo "baseline with change: $base"
cd /; git -C /repo worktree remove --force $S
# run the checks against the change in /repo
results=""
exec 9>/var/tmp/repo.lock; flock 9       # the part that modifies /repo's working tree is serialised
if $applies; then
  rm -rf /var/tmp/evidence.keep.$id; cp -r /verif/evidence /var/tmp/evidence.keep.$id     # evidence must describe the unchanged tree
  git -C /repo apply $d/patch.diff
  for c in "$@"; do
    cd /verif; out=$(./check $c 2>&1 | grep -v "Syntax\|template = " | tail -4); rc=$?
    v=$(echo "$out" | grep -c "^VIOLATION")
    echo "--- $c:"; echo "$out"
    results="$results{\"check\":\"$c\",\"violation_lines\":$v,\"first\":$(echo "$out" | grep "^VIOLATION" | head -1 | /venv/bin/python -c 'import json,sys; print(json.dumps(sys.stdin.read().strip()))')},"
    for r in $(echo "$out" | grep "^VIOLATION" | sed 's/.*replay=\([^ ]*\).*/\1/' | head -1); do cp /verif/$r $d/replay_$c.json 2>/dev/null; done
  done
  git -C /repo checkout -- .
  rm -rf /verif/evidence; mv /var/tmp/evidence.keep.$id /verif/evidence
fi
/venv/bin/python - <<PY
import json, os
d="$d"
meta = json.load(open(d+"/meta.json")) if os.path.exists(d+"/meta.json") else {}
meta.update({"id": "$id", "demo_exit_without_change": $rc0, "demo_exit_with_change": $rc1, "baseline_with_change": "$base",
             "patch_applies_to_head": "$applies", "checks_run": json.loads('[' + '''$results'''.rstrip(',') + ']')})
json.dump(meta, open(d+"/meta.json","w"), indent=1)
print(json.dumps(meta["checks_run"]))
PY
