"""A1 support on the Python side: lexer of the emitted Python fragment into the wire/Lean token format,
`ast.parse` → S-expression (same format as Lean `Bptk.Py.sexp`), Lean source emission of tables."""
import ast, io, re, tokenize

KW = {"if": "Kif", "else": "Kelse", "not": "Knot"}
OPS = {"+", "-", "*", "/", "%", "**", "<", "<=", ">", ">=", "==", "!="}
PUNCT = {"(", ")", "[", "]", ",", ".", "="}
HOLE = re.compile(r"^__h(\d+)__$")


class Unsupported(Exception):
    pass


def lex(src):
    """Python expression text -> list of wire words (see lean/Bptk/Core/PyWire.lean)."""
    out = []
    try:
        toks = list(tokenize.generate_tokens(io.StringIO(src).readline))
    except (tokenize.TokenError, IndentationError, SyntaxError) as e:
        raise Unsupported(f"tokenize: {e}")
    for t in toks:
        if t.type in (tokenize.ENDMARKER, tokenize.NEWLINE, tokenize.NL, tokenize.INDENT, tokenize.DEDENT):
            continue
        s = t.string
        if t.type == tokenize.NUMBER:
            out.append("N" + s)
        elif t.type == tokenize.NAME:
            m = HOLE.match(s)
            if m:
                out.append("H" + m.group(1))
            elif s in KW:
                out.append(KW[s])
            elif s in ("and", "or"):
                out.append("O" + s)
            elif s in ("lambda", "for", "in", "is", "await", "yield"):
                raise Unsupported(f"keyword {s}")
            else:
                out.append("I" + s)
        elif t.type == tokenize.STRING:
            try:
                v = ast.literal_eval(s)
            except Exception:
                raise Unsupported(f"string {s}")
            if not isinstance(v, str):
                raise Unsupported(f"string {s}")
            out.append("S" + v.encode("latin-1", "replace").hex())
        elif t.type == tokenize.OP:
            if s in OPS:
                out.append("O" + s)
            elif s in PUNCT:
                out.append(s)
            else:
                raise Unsupported(f"operator {s}")
        else:
            raise Unsupported(f"token {t}")
    return out


BINOP = {ast.Add: "+", ast.Sub: "-", ast.Mult: "*", ast.Div: "/", ast.Mod: "%", ast.Pow: "**"}
CMPOP = {ast.Lt: "<", ast.LtE: "<=", ast.Gt: ">", ast.GtE: ">=", ast.Eq: "==", ast.NotEq: "!="}


def sexp_of_source(src):
    """S-expression of CPython's own parse of `src` in the format of Lean `sexp` (parentheses erased)."""
    tree = ast.parse(src.strip(), mode="eval").body

    def go(n):
        if isinstance(n, ast.Constant):
            if isinstance(n.value, str):
                return f"(str {n.value})"
            if isinstance(n.value, (int, float)) and not isinstance(n.value, bool):
                return f"(num {ast.get_source_segment(src.strip(), n)})"
            if n.value is True or n.value is False or n.value is None:
                return f"(name {n.value})"
            raise Unsupported(f"constant {n.value!r}")
        if isinstance(n, ast.Name):
            m = HOLE.match(n.id)
            return f"(hole {m.group(1)})" if m else f"(name {n.id})"
        if isinstance(n, ast.BinOp) and type(n.op) in BINOP:
            return f"({BINOP[type(n.op)]} {go(n.left)} {go(n.right)})"
        if isinstance(n, ast.BoolOp):
            op = "and" if isinstance(n.op, ast.And) else "or"
            acc = go(n.values[0])
            for v in n.values[1:]:
                acc = f"({op} {acc} {go(v)})"
            return acc
        if isinstance(n, ast.UnaryOp) and isinstance(n.op, ast.USub):
            return f"(neg {go(n.operand)})"
        if isinstance(n, ast.UnaryOp) and isinstance(n.op, ast.Not):
            return f"(not {go(n.operand)})"
        if isinstance(n, ast.Compare) and all(type(o) in CMPOP for o in n.ops):
            acc = f"({CMPOP[type(n.ops[0])]} {go(n.left)} {go(n.comparators[0])})"
            for o, c in zip(n.ops[1:], n.comparators[1:]):
                acc = f"(chain {acc} {CMPOP[type(o)]} {go(c)})"
            return acc
        if isinstance(n, ast.IfExp):
            return f"(ite {go(n.test)} {go(n.body)} {go(n.orelse)})"
        if isinstance(n, ast.Attribute):
            return f"(attr {go(n.value)} {n.attr})"
        if isinstance(n, ast.Call):
            args = [go(a) for a in n.args] + [f"(kw {k.arg} {go(k.value)})" for k in n.keywords]
            return "(call " + go(n.func) + "".join(" " + a for a in args) + ")"
        if isinstance(n, ast.Subscript):
            return f"(index {go(n.value)} {go(n.slice)})"
        if isinstance(n, ast.List):
            return "(list" + "".join(" " + go(e) for e in n.elts) + ")"
        raise Unsupported(f"ast node {type(n).__name__}")
    return go(tree)


def lean_str(s):
    return '"' + s.replace("\\", "\\\\").replace('"', '\\"') + '"'


LEAN_OP = {"or": ".or", "and": ".and", "<": ".lt", "<=": ".le", ">": ".gt", ">=": ".ge", "==": ".eq", "!=": ".ne",
           "+": ".add", "-": ".sub", "*": ".mul", "/": ".div", "%": ".mod", "**": ".pow"}


def lean_tok(w):
    if w in ("(", ")", "[", "]", ",", ".", "="):
        return {"(": ".lp", ")": ".rp", "[": ".lb", "]": ".rb", ",": ".comma", ".": ".dot", "=": ".assign"}[w]
    if w in ("Knot", "Kif", "Kelse"):
        return "." + w[0].lower() + w[1:]
    c, r = w[0], w[1:]
    if c == "N":
        return f".num {lean_str(r)}"
    if c == "I":
        return f".name {lean_str(r)}"
    if c == "S":
        return f".str {lean_str(bytes.fromhex(r).decode('latin-1'))}"
    if c == "H":
        return f".hole {r}"
    if c == "O":
        return f".op {LEAN_OP[r]}"
    raise ValueError(w)


def lean_table(name, entries, namespace):
    """entries: list of (cls, arity, words).  Emits `def <name> : Bptk.Py.Table`."""
    rows = []
    for cls, arity, words in entries:
        toks = ", ".join(lean_tok(w) for w in words)
        rows.append(f"  {{ cls := {lean_str(cls)}, arity := {arity}, toks := [{toks}] }}")
    return (f"namespace {namespace}\nopen Bptk.Py in\ndef {name} : Bptk.Py.Table := [\n" + ",\n".join(rows) + "]\n"
            f"end {namespace}\n")
