HOOK_COMMITS = []
STD = "Trusted: Lean 4.33 kernel, axioms ⊆ {propext, Classical.choice, Quot.sound} (audited each run, no native_decide/bv_decide/sorry); the hand-written model and its correspondence harness; "
CHECKS = {
