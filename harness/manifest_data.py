HOOK_COMMITS = []
STD = "Trusted: Lean 4.33 kernel, axioms ⊆ {propext, Classical.choice, Quot.sound} (audited each run, no native_decide/bv_decide/sorry); the hand-written model and its correspondence harness; "
CHECKS = {
 "C14": {
  "text": "Theorems over all operation histories (List Op, unbounded): registry invariant (ids strictly increasing, type map = per-type projection, no id reused) preserved by create/delete/configure/reset/set-state; all queries equal the specification on the live population. The model is tied to the code by a probe (agent_count_per_state by id) whose outcome selects the obligation (C14_full via C14_full_of_good, or the kernel-checked negation witness), and by a correspondence run (all histories to length 4/6 over a 9-letter alphabet + random histories to length 40) comparing every query after every operation.",
  "note": STD + "agent factories produce agents of the registered type; random_agents (uses the random module) is not modelled.",
  "technique": "Lean 4 invariant proof by induction over operation lists + differential correspondence of the executable model"},
}
NOT_APPLICABLE = {}
