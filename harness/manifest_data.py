"""MANIFEST content: one JSON per property under notes/manifest/Cxx.json with keys text / note / technique."""
import glob, json, os
HOOK_COMMITS = []
CHECKS = {}
for _f in sorted(glob.glob(os.path.join(os.path.dirname(os.path.dirname(os.path.abspath(__file__))), "notes", "manifest", "C*.json"))):
    CHECKS[os.path.basename(_f)[:-5]] = json.load(open(_f))
NOT_APPLICABLE = {}
