HOOK_COMMITS = []
STD = "Trusted: Lean 4.33 kernel, axioms ⊆ {propext, Classical.choice, Quot.sound} (audited each run, no native_decide/bv_decide/sorry); the hand-written model and its correspondence harness; "
CHECKS = {
 "C14": {
  "text": "Theorems over all operation histories (List Op, unbounded): registry invariant (ids strictly increasing, type map = per-type projection, no id reused) preserved by create/delete/configure/reset/set-state; all queries equal the specification on the live population. The model is tied to the code by a probe (agent_count_per_state by id) whose outcome selects the obligation (C14_full via C14_full_of_good, or the kernel-checked negation witness), and by a correspondence run (all histories to length 4/6 over a 9-letter alphabet + random histories to length 40) comparing every query after every operation.",
  "note": STD + "agent factories produce agents of the registered type; random_agents (uses the random module) is not modelled.",
  "technique": "Lean 4 invariant proof by induction over operation lists + differential correspondence of the executable model"},
}
CHECKS["C02"] = {
  "text": "Theorem render_parses (A1): for EVERY operator table satisfying the decidable side condition tableOK and EVERY expression tree over it (structural induction, no depth bound) the emitted Python text parses, under CPython's binding powers, to the tree with each operand plugged in whole; C02_full adds: its value in any arithmetic (carrier-generic eval with uninterpreted operations) equals the operator applied to the operands' values, and each operator of the C02 vocabulary has its intended shape (specOK). The operator table is regenerated from /repo on every run by probing every operator class's real term() with placeholder operands; the per-run obligations tableOK/specOK/vocabOK are discharged by decide +kernel. Correspondence on generated trees (all outer-op × position × inner-op pairs, random to depth 5): real term text = model render, Lean parser = CPython ast.parse, denote = parse; reference check: real value = ordinary Python arithmetic on the tree.",
  "note": STD + "the A1 grammar (binding powers transcribed from the CPython reference grammar; differentially validated against ast.parse every run); CPython's eval is compositional on the parsed tree; lexer/probe in harness/pyfrag.py; operands limited to element references, number literals and operator terms (level >= 6); stochastic/statistical functions outside the C02 vocabulary are probed and reported (extended table) but do not decide.",
  "technique": "Lean 4 structural-induction proof of a print/parse round trip for templates (Pratt parser relation) + per-run decide obligations on the probed operator table + differential correspondence"}
import glob, json, os
for _f in sorted(glob.glob(os.path.join(os.path.dirname(os.path.dirname(os.path.abspath(__file__))), "notes", "manifest", "C*.json"))):
    CHECKS[os.path.basename(_f)[:-5]] = json.load(open(_f))
NOT_APPLICABLE = {}
