"""Entry point of every check:  orchestrate.py <Cxx> [--tier quick|thorough] [--replay FILE]

exit 0: property held on everything explored (KNOWN-FINDING lines allowed);
exit 1: at least one `VIOLATION property=<id> replay=<path>` line;
exit 2: infrastructure problem (toolchain, timeout, crash of the harness itself).
"""
import argparse, atexit, importlib, os, shutil, sys, tempfile, traceback
sys.path.insert(0, os.path.dirname(os.path.abspath(__file__)))

# every scratch directory of a run (common.scratch_dir, also in child processes) lives under one per-run root outside
# /repo and /verif, which is removed when the run ends, however it ends
_RUN_ROOT = tempfile.mkdtemp(prefix="verifrun.", dir=os.environ.get("VERIF_SCRATCH", "/var/tmp"))
os.environ["VERIF_SCRATCH"] = _RUN_ROOT
atexit.register(lambda: shutil.rmtree(_RUN_ROOT, ignore_errors=True))

import common


def main():
    ap = argparse.ArgumentParser()
    ap.add_argument("pid")
    ap.add_argument("--tier", default=os.environ.get("VERIF_TIER", "quick"), choices=["quick", "thorough"])
    ap.add_argument("--replay")
    a = ap.parse_args()
    seed = int(os.environ.get("VERIF_SEED", "1") or "1")
    mod = importlib.import_module("props." + a.pid.lower())
    os.chdir(common.VERIF)
    if a.replay:
        sys.exit(mod.replay(a.replay))
    chk = common.Check(a.pid, a.tier, seed)
    try:
        mod.run(chk)
    except Exception:
        traceback.print_exc()
        print(f"[{a.pid}] infrastructure error (exit 2)")
        sys.exit(2)
    sys.exit(chk.finish())


if __name__ == "__main__":
    main()
