"""C14 — agent registry consistency.  Probes + Gen obligations + correspondence (exhaustive short
histories, random long ones, queries both after every operation and as sparse operations of their own)
+ independent reference check of the property on the real code.

Wave 2: `random_agents` with a scripted random source (same draws for the real code and the Lean
driver) and with the real RNG (reference property only); `Model.configure` (dict variant); factories
whose agents carry an `agent_type` attribute different from the registered key (off-contract: model
correspondence is informative, only the unconditional clauses are reference-checked); unregistered
types (KeyError paths); caller mutation of the list returned by `agent_ids` (aliasing fact).

Wave 4: operations whose ARGUMENT is one of the model's own returned objects: `delete_agents(model.agent_ids(T))`,
`delete_agents(model.agent_type_map[T])` (one `deleteown` request: the model deletes the value its own list has),
`for i in model.agent_ids(T): model.delete_agent(i)` (the deletions that really happen are sent one by one),
`delete_agents(held)` with a list obtained from `agent_ids` earlier (the model gets the value the list has when the
call starts).  The real code always receives the aliased object, the model the snapshot.

Wave 6: re-entrant creation.  `nest` = {key: [factory kids, initialize kids]}: the factory registered under `key`
itself calls `model.create_agent` for each factory kid before it returns its agent, and the agent's `initialize()`
creates each initialize kid (nesting depth bounded by 2).  Every creation (create_agent, configure_agents,
configure) of such a type is sent to the model as the bracketed token sequence `enter k / facdone / leave` of the
calls that really nest; the reference population assigns ids in call order (parent first) and registers in
completion order (children first)."""
import itertools, json, random as _pyrandom
from common import *

TYPES = ["a", "b", "c"]          # "a", "b" are registered; "c" never is
REG = [0, 1]
STATES = ["active", "s1", "s2"]
PROP_NAMES = ["p1", "agents", "next_agent_id", "agent_type_map", "lk"]


def fac_attr(fac, k, i):
    l = (fac or {}).get(k)
    return k if not l else l[i % len(l)]


def is_faithful(fac):
    return all((not l) or all(a == k for a in l) for k, l in (fac or {}).items())


NEST_DEPTH = 2


def nest_kids(nest, k, depth):
    fk, ik = (nest or {}).get(k, ([], []))
    return (list(fk), list(ik)) if depth < NEST_DEPTH else ([], [])


def new_model(fac=None, nest=None):
    from BPTK_Py import Model, Agent, DataCollector, SimultaneousScheduler
    m = Model(1, 3, 1, name="c14", scheduler=SimultaneousScheduler(), data_collector=DataCollector())
    ctx = {"depth": 0}

    class NestAgent(Agent):
        def initialize(self):
            d = ctx["depth"]
            for c in nest_kids(nest, self.c14_key, d)[1]:
                ctx["depth"] = d + 1
                try:
                    self.model.create_agent(TYPES[c], {})
                finally:
                    ctx["depth"] = d

    def make(kk):
        def factory(aid, model, props):
            d = ctx["depth"]
            for c in nest_kids(nest, kk, d)[0]:
                ctx["depth"] = d + 1
                try:
                    model.create_agent(TYPES[c], {})
                finally:
                    ctx["depth"] = d
            a = NestAgent(aid, model, props, TYPES[fac_attr(fac, kk, aid)]) if nest else Agent(aid, model, props, TYPES[fac_attr(fac, kk, aid)])
            if nest:
                object.__setattr__(a, "c14_key", kk)
            return a
        return factory
    for k in REG:
        m.register_agent_factory(TYPES[k], make(k))
    return m


def create_tokens(nest, k, depth=0):
    """the bracketed token sequence of one create_agent(k) call"""
    fk, ik = nest_kids(nest, k, depth)
    out = [f"enter {k}"]
    for c in fk:
        out += create_tokens(nest, c, depth + 1)
    out.append("facdone")
    for c in ik:
        out += create_tokens(nest, c, depth + 1)
    out.append("leave")
    return out


def op_lines(op, nest):
    """request lines of one operation (creations of nesting types as token sequences)"""
    if nest and op[0] == "create" and op[1] in REG:
        return create_tokens(nest, op[1])
    if op[0] == "createn":                    # create_agents(spec) = count × create_agent
        one = create_tokens(nest, op[1]) if nest and op[1] in REG else [f"create {op[1]}"]
        return (one * op[2]) or ["setstate 999999 0"]
    if nest and op[0] in ("configure", "configureall") and all(t in REG for t, _ in op[1]):
        out = [op[0] + " -"]
        for t, n in op[1]:
            for _ in range(n):
                out += create_tokens(nest, t)
        return out
    return [op_line(op)]


class Scripted:
    """Stands in for the `random` module inside BPTK_Py.modeling.model while one query runs:
    `random()` answers the scripted values u/64; anything else is the real module's."""
    def __init__(self, us):
        self.us, self.calls = list(us), 0
    def random(self):
        u = self.us[self.calls] if self.calls < len(self.us) else 0
        self.calls += 1
        return u / 64.0
    def __getattr__(self, name):
        return getattr(_pyrandom, name)


# ---- operations
# ("create", k) ("delete", [ids]) ("configure", [(k,n)..]) ("configureall", [(k,n)..], variant) ("reset",)
# ("setstate", id, st) ("callerappend", t, x)
# ("delown", t, "ids"|"map")   delete_agents(agent_ids(T)) / delete_agents(agent_type_map[T])
# ("deliter", t)   for i in agent_ids(T): delete_agent(i)        ("hold", t)  held = agent_ids(T)      ("delheld",)  delete_agents(held)
# ("q", "lookup", i) ("q","ids",t) ("q","cnt",t) ("q","cps",t,s) ("q","nx",t,s) ("q","rnd",t,num,[u..])
def config_dict(spec, variant):
    props_d = {PROP_NAMES[(variant + j) % len(PROP_NAMES)]:
               ({"type": "Lookup", "value": [[0, 1], [1, 2]]} if PROP_NAMES[(variant + j) % len(PROP_NAMES)] == "lk"
                else {"type": "Integer", "value": variant + j}) for j in range(variant % 3)}
    props = props_d if variant % 2 == 0 else [{"name": n, "type": p["type"], "value": p} for n, p in props_d.items()]
    agents = []
    for j, (t, n) in enumerate(spec):
        d = {"name": TYPES[t], "count": n}
        if (variant + j) % 2:
            d["properties"] = {"x": {"type": "Integer", "value": j}}
        agents.append(d)
    return {"runspecs": {"starttime": 1 + variant % 2, "stoptime": 5 + variant, "dt": [1, 0.5, 0.25][variant % 3]},
            "properties": props, "agents": agents}


def apply_real(m, op, arg_obj=None):
    """Performs the operation; returns "ok" / "ERR" (raised) or, for queries, the canonical answer.
    `arg_obj`: the object to pass to delete_agents instead of a fresh list (an alias of a registry list)."""
    k = op[0]
    if k == "q":
        return query_one(m, op)
    try:
        if k == "delete" and arg_obj is not None:
            m.delete_agents(arg_obj)
        elif k == "delete" and len(op) > 2:              # wave 7: kinds of the argument container / of the ids
            ids, kind = list(op[1]), op[2]
            arg = {"tuple": tuple(ids), "set": set(ids), "dup": ids + ids[:1], "float": [float(i) for i in ids],
                   "range": range(min(ids), max(ids) + 1) if ids else range(0), "keys": dict.fromkeys(ids).keys(),
                   "reversed": list(reversed(ids))}[kind]
            m.delete_agents(arg)
        elif k == "createn":                             # wave 7: create_agents called directly
            m.create_agents({"name": TYPES[op[1]], "count": op[2]})
        elif k == "delown":
            tm = own(m, "agent_type_map")                 # read by name: absent after a rename -> the public accessor
            m.delete_agents(m.agent_ids(TYPES[op[1]]) if op[2] == "ids" or not isinstance(tm, dict) else tm[TYPES[op[1]]])
        elif k == "create":
            m.create_agent(TYPES[op[1]], {})
        elif k == "delete":
            if len(op[1]) == 1:
                m.delete_agent(op[1][0])
            else:
                m.delete_agents(list(op[1]))
        elif k == "configure":
            m.configure_agents([{"name": TYPES[t], "count": n} for t, n in op[1]])
        elif k == "configureall":
            m.configure(config_dict(op[1], op[2]))
        elif k == "reset":
            m.reset()
        elif k == "setstate":
            a = m.agent(op[1])
            if a is not None:
                a.state = STATES[op[2]]
        elif k == "callerappend":
            m.agent_ids(TYPES[op[1]]).append(op[2])
        return "ok"
    except Exception:
        return "ERR"


def op_line(op):
    k = op[0]
    if k == "create":
        return f"create {op[1]}"
    if k == "createn":
        return f"createn {op[1]} {op[2]}"
    if k == "delete":
        return "delete " + (",".join(map(str, op[1])) or "-")
    if k in ("configure", "configureall"):
        return k + " " + (",".join(f"{t}:{n}" for t, n in op[1]) or "-")
    if k == "reset":
        return "reset"
    if k == "setstate":
        return f"setstate {op[1]} {op[2]}"
    if k == "callerappend":
        return f"callerappend {op[1]} {op[2]}"
    if k == "delown":
        return f"deleteown {op[1]} {op[2]}"
    if k in ("deliter", "hold"):
        return f"{k} {op[1]}"
    if k == "delheld":
        return "delheld"
    if op[1] == "rnd":
        return f"q rnd {op[2]} {op[3]} " + (",".join(map(str, op[4])) or "-")
    return "q " + " ".join(map(str, op[1:]))


def parse_line(l, variant=0):
    p = l.split()
    spec = lambda s: [] if s == "-" else [tuple(map(int, x.split(":"))) for x in s.split(",")]
    nats = lambda s: [] if s == "-" else [int(x) for x in s.split(",")]
    if p[0] == "create": return ("create", int(p[1]))
    if p[0] == "createn": return ("createn", int(p[1]), int(p[2]))
    if p[0] == "delete": return ("delete", nats(p[1]))
    if p[0] == "configure": return ("configure", spec(p[1]))
    if p[0] == "configureall": return ("configureall", spec(p[1]), variant)
    if p[0] == "reset": return ("reset",)
    if p[0] == "setstate": return ("setstate", int(p[1]), int(p[2]))
    if p[0] == "callerappend": return ("callerappend", int(p[1]), int(p[2]))
    if p[0] == "deleteown": return ("delown", int(p[1]), p[2])
    if p[0] in ("deliter", "hold"): return (p[0], int(p[1]))
    if p[0] == "delheld": return ("delheld",)
    if p[0] == "q" and p[1] == "rnd": return ("q", "rnd", int(p[2]), int(p[3]), nats(p[4]))
    if p[0] == "q": return ("q", p[1]) + tuple(int(x) for x in p[2:])
    raise ValueError(l)


def _tyidx(s):
    return TYPES.index(s) if s in TYPES else 99


def _agent_str(i, a):
    return f"a{i}=none" if a is None else f"a{i}={a.id}.{_tyidx(a.agent_type)}.{STATES.index(a.state)}"


def _guard(f):
    try:
        return f()
    except Exception:
        return "ERR"


def query_one(m, op, scripted=True):
    import BPTK_Py.modeling.model as mm
    kind = op[1]
    if kind == "lookup":
        return _agent_str(op[2], m.agent(op[2]))
    if kind == "lookupf":                                   # wave 7: the id given as a float (2.0 is the id 2)
        return _agent_str(op[2], m.agent(float(op[2])))
    if kind == "ids":
        return f"ids{op[2]}=" + _guard(lambda: ",".join(str(i) for i in m.agent_ids(TYPES[op[2]])))
    if kind == "cnt":
        return f"cnt{op[2]}=" + str(_guard(lambda: m.agent_count(TYPES[op[2]])))
    if kind == "cps":
        return f"cps{op[2]}.{op[3]}=" + str(_guard(lambda: m.agent_count_per_state(TYPES[op[2]], STATES[op[3]])))
    if kind == "nx":
        a = m.next_agent(TYPES[op[2]], STATES[op[3]])
        return f"nx{op[2]}.{op[3]}=" + ("none" if a is None else str(a.id))
    if kind == "rnd":
        sc, saved = Scripted(op[4]), mm.random
        mm.random = sc
        try:
            res = m.random_agents(TYPES[op[2]], op[3])
        except Exception:
            res = None
        finally:
            mm.random = saved
        if res is not None and sc.calls != len(res):
            return None           # the code did not draw through random.random(): nothing to compare against the script
        return f"rnd{op[2]}.{op[3]}=" + ("ERR" if res is None else ",".join(map(str, res)))
    raise ValueError(op)


def own(m, name):
    """an INSTANCE attribute read by name (None when a refactoring renamed it). Not getattr: Model.__getattr__ serves
    model properties as attributes, and the histories configure properties called `agents`, `next_agent_id`,
    `agent_type_map` on purpose."""
    return m.__dict__.get(name)


def query_real(m, hint=0):
    """Canonical line, same format as Drive/C14.lean `query`.  `next_agent_id` is read by name: when a refactoring
    renamed it the field is reported as `next=*` (not compared) and the lookups range over `hint` ids."""
    nxt = own(m, "next_agent_id")
    if not isinstance(nxt, int):
        ids = ";".join(query_one(m, ("q", "ids", t)) for t in range(3))
        cnt = ";".join(query_one(m, ("q", "cnt", t)) for t in range(3))
        cps = ";".join(query_one(m, ("q", "cps", t, s_)) for t in range(3) for s_ in range(3))
        lk = ";".join(_agent_str(i, m.agent(i)) for i in range(hint + 2))
        nx = ";".join(query_one(m, ("q", "nx", t, s_)) for t in range(3) for s_ in range(3))
        return f"{ids};{cnt};{cps};{lk};{nx};next=*"
    T, S = range(3), range(3)
    ids = ";".join(query_one(m, ("q", "ids", t)) for t in T)
    cnt = ";".join(query_one(m, ("q", "cnt", t)) for t in T)
    cps = ";".join(query_one(m, ("q", "cps", t, s)) for t in T for s in S)
    lk = ";".join(_agent_str(i, m.agent(i)) for i in range(nxt + 2))
    nx = ";".join(query_one(m, ("q", "nx", t, s)) for t in T for s in S)
    return f"{ids};{cnt};{cps};{lk};{nx};next={nxt}"


class Shadow:
    """Reference semantics of the property, independent of the Lean model: the live population."""
    def __init__(self, fac=None, nest=None):
        self.live = []      # [id, attr, st, key] in registration order
        self.next = 0
        self.ever = []
        self.fac = fac
        self.nest = nest
    def copy(self):
        s = Shadow(self.fac, self.nest); s.live = [list(a) for a in self.live]; s.next = self.next; s.ever = list(self.ever)
        return s
    def create(self, k, depth=0):
        if k not in REG:
            return False                      # create_agent raises, nothing handed out
        i = self.next                         # ids are handed out in call order (unique, never reused) ...
        self.ever.append(i); self.next += 1
        fk, ik = nest_kids(self.nest, k, depth)
        for c in fk + ik:
            self.create(c, depth + 1)
        self.live.append([i, fac_attr(self.fac, k, i), 0, k])      # ... and an agent is listed once its creation is complete
        return True
    def apply(self, op):
        k = op[0]
        if k == "create":
            self.create(op[1])
        elif k == "createn":
            for _ in range(op[2]):
                if not self.create(op[1]):
                    return
        elif k == "delete":
            self.live = [a for a in self.live if a[0] not in op[1]]
        elif k == "delown":                      # every live agent of the type (contract histories: attribute = key)
            self.live = [a for a in self.live if a[1] != op[1]]
        elif k in ("configure", "configureall"):
            self.live = []
            for t, n in op[1]:
                for _ in range(n):
                    if not self.create(t):
                        return
        elif k == "reset":
            self.live = []
        elif k == "setstate":
            for a in self.live:
                if a[0] == op[1]:
                    a[2] = op[2]


def spec_violations(m, sh, contract):
    """Check the real model's queries against the statement of C14. Returns list of (key, text).
    `contract` = the history's factories are faithful and nothing mutated a returned list: the whole
    statement applies; otherwise only its factory-independent clauses (ids, lookup, next_agent)."""
    out = []
    nxt = own(m, "next_agent_id")
    nxt_known = isinstance(nxt, int)
    bound = nxt if nxt_known else sh.next
    ags = own(m, "agents")
    if isinstance(ags, (list, tuple)):
        ids_live = [a.id for a in ags]
    else:                                              # `agents` renamed: what the public lookup finds
        ids_live = [i for i in range(bound + 2) if m.agent(i) is not None]
    live_ids = [a[0] for a in sh.live]
    if len(set(ids_live)) != len(ids_live):
        out.append(("ids-not-unique", f"live ids {ids_live}"))
    if sorted(ids_live) != sorted(live_ids):
        out.append(("live-set", f"live ids {ids_live} expected {live_ids}"))
    if nxt_known and nxt != sh.next:
        out.append(("next-id", f"next_agent_id {nxt} expected {sh.next}"))
    for i in range(bound + 2):
        a = m.agent(i)
        exp = next((x for x in sh.live if x[0] == i), None)
        if (a is None) != (exp is None) or (a is not None and (a.id != i or _tyidx(a.agent_type) != exp[1] or STATES.index(a.state) != exp[2])):
            out.append(("lookup", f"agent({i}) -> {None if a is None else (a.id, a.agent_type, a.state)} expected {exp}"))
    for t in range(3):
        for s in range(3):
            exp = next((x[0] for x in sh.live if x[1] == t and x[2] == s), None)
            a = m.next_agent(TYPES[t], STATES[s])
            if (None if a is None else a.id) != exp:
                out.append(("next_agent", f"next_agent({TYPES[t]},{STATES[s]}) = {None if a is None else a.id} expected {exp}"))
    for t in REG if contract else []:
        exp_ids = [x[0] for x in sh.live if x[1] == t]
        try:
            got_ids = list(m.agent_ids(TYPES[t]))
        except Exception as e:
            got_ids = f"raises {type(e).__name__}"
        if got_ids != exp_ids:
            out.append(("agent_ids", f"agent_ids({TYPES[t]}) = {got_ids} expected {exp_ids}"))
        try:
            got = m.agent_count(TYPES[t])
        except Exception as e:
            got = f"raises {type(e).__name__}"
        if got != len(exp_ids):
            out.append(("agent_count", f"agent_count({TYPES[t]}) = {got} expected {len(exp_ids)}"))
        for s in range(3):
            exp = sum(1 for x in sh.live if x[1] == t and x[2] == s)
            try:
                got = m.agent_count_per_state(TYPES[t], STATES[s])
            except Exception as e:
                got = f"raises {type(e).__name__}"
            if got != exp:
                out.append(("agent_count_per_state", f"agent_count_per_state({TYPES[t]},{STATES[s]}) = {got} expected {exp}"))
        # random_agents with the REAL random source: ids of live agents of the type, min(num, n) of them
        for num in (1, len(exp_ids) + 1):
            try:
                got = m.random_agents(TYPES[t], num)
                bad = len(got) != min(num, len(exp_ids)) or any(i not in exp_ids for i in got)
            except Exception as e:
                got, bad = f"raises {type(e).__name__}", True
            if bad:
                out.append(("random_agents", f"random_agents({TYPES[t]},{num}) = {got}; live ids of the type {exp_ids}"))
    for i in ids_live:
        if i in sh.ever and i not in live_ids:
            out.append(("id-reused", f"id {i}"))
    return out


def single_query_violation(ans, op, sh, contract):
    """Reference answer of ONE query op from the live population (None = this clause is not fixed by
    the statement for this history)."""
    kind = op[1]
    if ans is None:
        return None
    if kind in ("lookup", "lookupf"):
        x = next((x for x in sh.live if x[0] == op[2]), None)
        exp = f"a{op[2]}=none" if x is None else f"a{op[2]}={x[0]}.{x[1]}.{x[2]}"
        return None if ans == exp else ("lookup", f"{op_line(op)} -> {ans} expected {exp}")
    if kind == "nx":
        x = next((x[0] for x in sh.live if x[1] == op[2] and x[2] == op[3]), None)
        exp = f"nx{op[2]}.{op[3]}=" + ("none" if x is None else str(x))
        return None if ans == exp else ("next_agent", f"{op_line(op)} -> {ans} expected {exp}")
    if not contract or op[2] not in REG:
        return None
    ids = [x[0] for x in sh.live if x[1] == op[2]]
    if kind == "ids":
        exp = f"ids{op[2]}=" + ",".join(map(str, ids))
        return None if ans == exp else ("agent_ids", f"{op_line(op)} -> {ans} expected {exp}")
    if kind == "cnt":
        exp = f"cnt{op[2]}={len(ids)}"
        return None if ans == exp else ("agent_count", f"{op_line(op)} -> {ans} expected {exp}")
    if kind == "cps":
        exp = f"cps{op[2]}.{op[3]}=" + str(sum(1 for x in sh.live if x[1] == op[2] and x[2] == op[3]))
        return None if ans == exp else ("agent_count_per_state", f"{op_line(op)} -> {ans} expected {exp}")
    if kind == "rnd":
        body = ans.split("=", 1)[1]
        got = None if body == "ERR" else [int(x) for x in body.split(",") if x]
        if got is None or len(got) != min(op[3], len(ids)) or any(i not in ids for i in got):
            return ("random_agents", f"{op_line(op)} -> {ans}; live ids of the type {ids}")
    return None


def concrete_ops(shadow_live, nxt):
    """The small alphabet, instantiated on the current live population."""
    ops = [("create", 0), ("create", 1), ("delete", [nxt + 5]), ("configure", [(0, 2), (1, 1)]), ("reset",)]
    if shadow_live:
        o, n = shadow_live[0][0], shadow_live[-1][0]
        ops += [("delete", [o]), ("setstate", o, 1)]
        if n != o:
            ops += [("delete", [n]), ("setstate", n, 2)]
    return ops


class Hist:
    """fac: {key: [attr by id % len]} or None; ops; mode 'full' (every query after every operation)
    or 'sparse' (queries are operations; one full query at the end)."""
    def __init__(self, ops, fac=None, mode="full", tag="random", nest=None):
        self.ops, self.fac, self.mode, self.tag, self.nest = list(ops), fac, mode, tag, nest
    def contract(self):
        return is_faithful(self.fac) and not any(
            o[0] == "callerappend" or (o[0] in ("create", "createn") and o[1] not in REG) or (o[0] in ("delown", "deliter", "hold") and o[1] not in REG)
            or (o[0] in ("configure", "configureall") and any(t not in REG for t, _ in o[1])) for o in self.ops)
    def lines(self):
        return [f"fac {k} " + (",".join(map(str, l)) or "-") for k, l in sorted((self.fac or {}).items())] + \
               [f"nest {k} {v}" for k, v in sorted((self.nest or {}).items())] + [op_line(o) for o in self.ops]
    def replay(self):
        return {"fac": {str(k): l for k, l in (self.fac or {}).items()}, "mode": self.mode,
                "nest": {str(k): [list(v[0]), list(v[1])] for k, v in (self.nest or {}).items()},
                "ops": [op_line(o) for o in self.ops],
                "variants": [o[2] if o[0] == "configureall" else 0 for o in self.ops],
                "kinds": [o[2] if o[0] == "delete" and len(o) > 2 else None for o in self.ops]}


def run_history(h):
    """Real code on the history.  Returns (request lines, real reply lines (None = not comparable),
    first (index, violations))."""
    g = run_history_gen(h)
    try:
        while True:
            next(g)
    except StopIteration as e:
        return e.value


def run_pair(ha, hb):
    """Two models alive in one process, their operations interleaved one by one (wave 7: registry state that lives in
    a class attribute or a module global instead of the instance)."""
    gens, res = [run_history_gen(ha), run_history_gen(hb)], [None, None]
    while any(g is not None for g in gens):
        for i, g in enumerate(gens):
            if g is None:
                continue
            try:
                next(g)
            except StopIteration as e:
                res[i], gens[i] = e.value, None
    return res


def run_history_gen(h):
    m, sh = new_model(h.fac, h.nest), Shadow(h.fac, h.nest)
    contract = h.contract()
    spec_ok = not any(o[0] == "callerappend" for o in h.ops)      # after a caller mutation nothing is promised
    req, real, viols = ["new " + ",".join(map(str, REG))], ["ok"], []
    for k, l in sorted((h.fac or {}).items()):
        req.append(f"fac {k} " + (",".join(map(str, l)) or "-")); real.append("ok")
    held = [None]
    def do(i, op, arg_obj=None):
        nonlocal viols, spec_ok
        ans = apply_real(m, op, arg_obj)
        ls = op_lines(op, h.nest)
        req.extend(ls); real.extend(["ok"] * (len(ls) - 1) + [ans])
        v = []
        if op[0] == "q":
            if spec_ok:
                x = single_query_violation(ans, op, sh, contract)
                v = [x] if x else []
        else:
            sh.apply(op)
            if ans == "ERR":
                if contract:
                    v = [("operation-raises", f"{op_line(op)} raises")]
                else:
                    spec_ok = False       # what a raising operation leaves behind is not fixed by the statement
            if h.mode == "full":
                req.append("query"); real.append(query_real(m, sh.next))
                if spec_ok:
                    v = v + spec_violations(m, sh, contract)
        if v and not viols:
            viols = [(i, v)]
    for i, op in enumerate(h.ops):
        if op[0] == "hold":                      # the caller keeps the list object agent_ids returned
            held[0] = _guard(lambda: m.agent_ids(TYPES[op[1]]))
            if held[0] == "ERR":
                held[0] = None
        elif op[0] == "delheld":                 # ... and later passes it to delete_agents: the model gets its value now
            if held[0] is not None:
                do(i, ("delete", list(held[0])), arg_obj=held[0])
        elif op[0] == "deliter":                 # deleting while iterating the returned list: what really gets deleted
            obj = _guard(lambda: m.agent_ids(TYPES[op[1]]))
            n = 0
            for x in (obj if obj != "ERR" else []):
                do(i, ("delete", [x]))
                n += 1
                if n > 200:
                    break
        else:
            do(i, op)
        yield
    if h.mode != "full":
        req.append("query"); real.append(query_real(m, sh.next))
        if spec_ok and not viols:
            v = spec_violations(m, sh, contract)
            if v:
                viols = [(len(h.ops) - 1, v)]
    return req, real, viols


def shrink_pair(ha, hb, key, budget=120):
    """greedy deletion of operations from both histories while the FIRST one still shows the violation when interleaved"""
    def fails(a, b):
        try:
            return any(x[0] == key for _, vs in run_pair(a, b)[0][2] for x in vs)
        except Exception:
            return False
    for which in (1, 0, 1, 0):
        i = 0
        while budget > 0:
            cur = (ha, hb)[which]
            if i >= len(cur.ops):
                break
            cand = Hist(cur.ops[:i] + cur.ops[i + 1:], cur.fac, cur.mode, cur.tag, cur.nest)
            budget -= 1
            if (fails(cand, hb) if which == 0 else fails(ha, cand)):
                if which == 0:
                    ha = cand
                else:
                    hb = cand
            else:
                i += 1
    return ha, hb


def shrink(h, fails):
    ops = list(h.ops)
    changed = True
    while changed:
        changed = False
        for i in range(len(ops)):
            cand = ops[:i] + ops[i + 1:]
            if cand and fails(Hist(cand, h.fac, h.mode, h.tag, h.nest)):
                ops = cand
                changed = True
                break
    return Hist(ops, h.fac, h.mode, h.tag, h.nest)


# ------------------------------------------------------------------ probes
def probe_count_by_id():
    m = new_model()
    for _ in range(4):
        m.create_agent("a", {})
    m.delete_agent(1)
    m.agent(3).state = "s1"
    try:
        return m.agent_count_per_state("a", "active") == 2 and m.agent_count_per_state("a", "s1") == 1
    except Exception:
        return False


def probe_delete_snapshot():
    """Is delete_agents a function of the VALUE of its argument, also when the argument is the registry's own list?"""
    try:
        m = new_model()
        for t in "aaaab":
            m.create_agent(t, {})
        m.delete_agents(m.agent_ids("a"))
        alive = lambda: [i for i in range(12) if m.agent(i) is not None]
        ok1 = list(m.agent_ids("a")) == [] and alive() == [4] and list(m.agent_ids("b")) == [4]
        for t in "aaa":
            m.create_agent(t, {})
        tm = own(m, "agent_type_map")
        m.delete_agents(tm["a"] if isinstance(tm, dict) else m.agent_ids("a"))
        ok2 = list(m.agent_ids("a")) == [] and alive() == [4] and m.agent_count("a") == 0
        return ok1 and ok2
    except Exception:
        return False


def probe_id_reservation():
    """When is the id counter incremented?  Behavioural (no private attribute is read): a factory that creates an agent
    gets distinct ids only if the id is reserved before the factory call; an initialize() that creates an agent gets
    distinct ids only if it is reserved before initialize() at the latest."""
    def distinct(nest):
        try:
            m = new_model(None, nest)
            m.create_agent("a", {}); m.create_agent("a", {})
            ids = list(m.agent_ids("a")) + list(m.agent_ids("b"))
            return len(ids) == 4 and len(set(ids)) == 4
        except Exception:
            return False
    before_factory = distinct({0: ([1], [])})
    before_init = before_factory or distinct({0: ([], [1])})
    return before_factory, before_init


def probe_registry_per_instance():
    """Two models alive at once: is the registry (agents, type map, id counter) the instance's own?"""
    try:
        a, b = new_model(), new_model()
        a.create_agent("a", {}); a.create_agent("b", {})
        ok = list(b.agent_ids("a")) == [] and b.agent(0) is None and b.agent_count("b") == 0
        x = b.create_agent("a", {})
        y = a.create_agent("a", {})
        return (ok and x.id == 0 and list(b.agent_ids("a")) == [0] and list(a.agent_ids("a")) == [0, 2] and y.id == 2
                and a.agent(1) is not None and b.agent(1) is None)
    except Exception:
        return False


def probe_alias():
    """Is the list returned by agent_ids the registry's own list (behavioural: does a caller's append show up in
    agent_count?), and — evidence only, read by attribute name, None when not readable — which operations rebind it?"""
    f = {}
    m = new_model()
    l = m.agent_ids("a")
    try:
        l.append(777)
        f["idsAliased"] = m.agent_count("a") == 1
        l.remove(777)
    except Exception:
        f["idsAliased"] = False
    def note(key, fn):
        try:
            f[key] = fn()
        except Exception:
            f[key] = None
    try:
        tm = lambda t: m.agent_type_map[t]
        m.create_agent("a", {}); m.create_agent("b", {})
        note("create_mutates_in_place", lambda: (l == [0]) and (l is tm("a")))
        lb = (own(m, "agent_type_map") or {}).get("b")
        m.delete_agent(0)
        note("delete_rebinds_affected_type", lambda: tm("a") is not l)
        note("delete_keeps_other_type_object", lambda: tm("b") is lb)
        la = (own(m, "agent_type_map") or {}).get("a")
        m.configure_agents([{"name": "a", "count": 1}])
        note("configure_rebinds", lambda: tm("a") is not la and tm("b") is not lb)
        la = (own(m, "agent_type_map") or {}).get("a")
        m.reset()
        note("reset_rebinds", lambda: tm("a") is not la)
        ags = own(m, "agents")
        m.create_agent("a", {})
        note("create_appends_agents_in_place", lambda: m.agents is ags)
        m.delete_agent(99)
        note("delete_rebinds_agents", lambda: m.agents is not ags)
        # a caller that only reads a returned list: it is a live view until the next rebinding operation
        m2 = new_model(); v = m2.agent_ids("a"); m2.create_agent("a", {})
        f["held_list_sees_later_creates"] = v == [0]
        m2.reset(); m2.create_agent("a", {})
        f["held_list_stale_after_reset"] = v == [0] and m2.agent_ids("a") == [1]
    except Exception as ex:
        f["probe_error"] = repr(ex)
    return f


ANYATTR_WITNESSES = [   # (name, fac, ops, what the Lean witness theorem says the model does)
    ("stale", {0: [1]}, [("create", 0), ("delete", [0])],
     "ids0=0;ids1=;ids2=ERR;cnt0=1;cnt1=0;cnt2=ERR;cps0.0=ERR;cps0.1=ERR;cps0.2=ERR;cps1.0=0;cps1.1=0;cps1.2=0;cps2.0=ERR;cps2.1=ERR;cps2.2=ERR;a0=none;a1=none;a2=none;"
     "nx0.0=none;nx0.1=none;nx0.2=none;nx1.0=none;nx1.1=none;nx1.2=none;nx2.0=none;nx2.1=none;nx2.2=none;next=1"),
    ("lost", {0: [1, 0]}, [("create", 0), ("create", 0), ("delete", [1])], None),
    ("newkey", {0: [2]}, [("create", 0), ("delete", [0])], None),
]


def gen_lean(count_by_id, aliased, snapshot=True, reserve=(True, True), per_instance=True):
    b = "true" if count_by_id else "false"
    a = "true" if aliased else "false"
    d = "true" if snapshot else "false"
    body = (f"theorem holds : C14_full cfg := C14_full_of_good cfg (by decide)\n#print axioms holds\n" if count_by_id else
            f"theorem violated : ¬ C14_full cfg := C14_witness_positional cfg (by decide)\n#print axioms violated\n"
            f"#print axioms C14_partial\n")
    if aliased:
        body += ("/-- `agent_ids` hands out the registry's own list: a caller append corrupts it (outside the property's operations). -/\n"
                 "theorem caller_can_corrupt : AliasCorrupts cfg := C14_alias_witness cfg (by decide)\n#print axioms caller_can_corrupt\n")
    else:
        body += ("theorem caller_cannot_corrupt : AliasSafe cfg := C14_alias_safe cfg (by decide)\n#print axioms caller_cannot_corrupt\n")
    if snapshot:
        body += ("/-- `delete_agents` is a function of the value of its argument: passing the registry's own id list is safe. -/\n"
                 "theorem own_lists_safe : C14_full_aliased cfg := C14_full_aliased_of_snapshot cfg (by decide)\n#print axioms own_lists_safe\n")
    elif aliased:
        body += ("/-- ids are removed in place while the argument is iterated: `delete_agents(agent_ids(t))` leaves dead ids listed. -/\n"
                 "theorem own_lists_corrupt : ¬ C14_full_aliased cfg := C14_witness_delete_inplace cfg (by decide) (by decide)\n#print axioms own_lists_corrupt\n")
    tf = lambda x: "true" if x else "false"
    if reserve[0] and count_by_id:
        body += ("/-- the id is reserved before the factory runs: re-entrant creation (from factories and from initialize()) is safe. -/\n"
                 "theorem nested_holds : C14_full_nested cfg cfgn := C14_full_nested_of_good cfg (by decide) cfgn (by decide)\n#print axioms nested_holds\n")
    elif not reserve[0]:
        body += ("/-- next_agent_id is not incremented before the factory is called: a factory that creates an agent reuses the id. -/\n"
                 "theorem nested_violated : ¬ C14_full_nested cfg cfgn := C14_witness_nested_factory cfg cfgn (by decide)\n#print axioms nested_violated\n")
        if not reserve[1]:
            body += ("/-- ... nor before initialize(): an initialize() that creates an agent reuses the id. -/\n"
                     "theorem nested_violated_init : ¬ C14_full_nested cfg cfgn := C14_witness_nested_late cfg cfgn (by decide) (by decide)\n#print axioms nested_violated_init\n")
    if per_instance and count_by_id:
        body += ("/-- the registry is the instance's own: two models alive at once do not disturb each other. -/\n"
                 "theorem two_models_isolated : type_of% @C14_two_models := @C14_two_models\n#print axioms two_models_isolated\n")
    elif not per_instance:
        body += ("/-- registry state shared between instances (class attribute / module global). -/\n"
                 "theorem registry_shared : type_of% C14_witness_shared_registry := C14_witness_shared_registry\n#print axioms registry_shared\n")
    if reserve[1]:
        body += ("/-- re-entrant creation from initialize() alone is safe already when the id is reserved before initialize(). -/\n"
                 "theorem nested_init_only : type_of% @C14_full_nested_init_only := @C14_full_nested_init_only\n#print axioms nested_init_only\n")
    return ("import Bptk.Props.C14\n/-! GENERATED by harness/props/c14.py from /repo on every run — do not edit. -/\n"
            "namespace Bptk.C14.Gen\n"
            f"def cfg : Cfg := {{ countById := {b}, idsAliased := {a}, deleteArgSnapshot := {d} }}\n"
            f"def cfgn : CfgN := {{ idReservedBeforeFactory := {tf(reserve[0])}, idReservedBeforeInitialize := {tf(reserve[1])} }}\n"
            + body + "end Bptk.C14.Gen\n")


# ------------------------------------------------------------------ generators
def exhaustive(L, fac=None, tag="exhaustive"):
    """Every maximal history of length L over the instantiated alphabet (generator), full mode: every
    query after every operation, so all shorter histories are covered as prefixes."""
    def rec_max(prefix, sh, depth):
        if depth == L:
            yield Hist(prefix, fac, "full", tag); return
        for op in concrete_ops(sh.live, sh.next):
            s2 = sh.copy()
            s2.apply(op)
            yield from rec_max(prefix + [op], s2, depth + 1)
    yield from rec_max([], Shadow(fac), 0)


def exhaustive_ownargs(L):
    """Every history of length L over an alphabet with the aliased-argument deletions (full mode)."""
    def alphabet(sh):
        ops = [("create", 0), ("create", 1), ("delown", 0, "ids"), ("delown", 1, "map"), ("deliter", 0), ("hold", 0), ("delheld",),
               ("configure", [(0, 2), (1, 1)])]
        if sh.live:
            ops += [("delete", [sh.live[0][0]]), ("setstate", sh.live[-1][0], 1)]
        return ops
    def rec(prefix, sh, depth):
        if depth == L:
            yield Hist(prefix, None, "full", "exhaustive-ownargs"); return
        for op in alphabet(sh):
            s2 = sh.copy()
            s2.apply(("delown", op[1]) if op[0] == "deliter" else op)       # population used to instantiate the alphabet only
            yield from rec(prefix + [op], s2, depth + 1)
    yield from rec([], Shadow(), 0)


DEL_KINDS = ["tuple", "set", "dup", "float", "range", "keys", "reversed"]


def exhaustive_argkinds(L):
    """Every history of length L over an alphabet with the argument kinds of wave 7 (full mode)."""
    def alphabet(sh):
        ops = [("create", 0), ("create", 1), ("createn", 0, 2), ("configure", [(0, 2), (1, 1)]), ("q", "lookupf", 0)]
        if sh.live:
            o, n = sh.live[0][0], sh.live[-1][0]
            ops += [("delete", [o], "tuple"), ("delete", sorted({o, n}), "dup"), ("delete", list(range(o, n + 1)), "range"),
                    ("delete", [n], "float"), ("delete", sorted({o, n}), "set"), ("setstate", n, 1), ("q", "lookupf", n)]
        return ops
    def rec(prefix, sh, depth):
        if depth == L:
            yield Hist(prefix, None, "full", "exhaustive-argkinds"); return
        for op in alphabet(sh):
            s2 = sh.copy()
            s2.apply(op)
            yield from rec(prefix + [op], s2, depth + 1)
    yield from rec([], Shadow(), 0)


def rand_argkinds_history(rng, mode):
    sh, ops = Shadow(), []
    for _ in range(rng.range(5, 35)):
        if rng.chance(1, 4):
            dead = [i for i in sh.ever if i not in [a[0] for a in sh.live]]
            ops.append(("q", "lookupf", rng.choice(dead) if dead and rng.chance(1, 2) else rng.below(sh.next + 2))); continue
        if mode == "sparse" and rng.chance(1, 3):
            ops.append(rand_query(rng, sh)); continue
        r = rng.below(12)
        if r < 3 or not sh.live:
            op = ("create", rng.below(2))
        elif r < 5:
            op = ("createn", rng.below(2), rng.range(1, 3))
        elif r < 9:
            kind = rng.choice(DEL_KINDS)
            ids = sorted({rng.choice(sh.live)[0] if rng.chance(4, 5) else rng.below(sh.next + 3) for _ in range(rng.range(1, 3))})
            if kind == "range":
                ids = list(range(ids[0], ids[-1] + 1))
            op = ("delete", ids, kind)
        elif r < 10:
            op = ("setstate", rng.choice(sh.live)[0], rng.below(3))
        elif r < 11:
            op = ("configure", [(t, rng.below(4)) for t in REG])
        else:
            op = ("reset",)
        sh.apply(op); ops.append(op)
    return Hist(ops, None, mode, "random-argkinds")


def rand_ownargs_history(rng, mode):
    """Random histories in which deletions receive the model's own returned lists."""
    sh, ops = Shadow(), []
    for _ in range(rng.range(5, 35)):
        if mode == "sparse" and rng.chance(1, 3):
            ops.append(rand_query(rng, sh)); continue
        r = rng.below(14)
        if r < 5 or not sh.live:
            op = ("create", rng.below(2))
        elif r < 7:
            op = ("delown", rng.below(2), rng.choice(["ids", "map"]))
        elif r < 8:
            op = ("deliter", rng.below(2))
        elif r < 9:
            op = ("hold", rng.below(2))
        elif r < 10:
            op = ("delheld",)
        elif r < 11:
            op = ("delete", sorted({rng.choice(sh.live)[0] for _ in range(rng.range(1, 2))}))
        elif r < 12:
            op = ("setstate", rng.choice(sh.live)[0], rng.below(3))
        elif r < 13:
            op = ("configure", [(t, rng.below(4)) for t in REG])
        else:
            op = ("reset",)
        sh.apply(("delown", op[1]) if op[0] == "deliter" else op); ops.append(op)
    return Hist(ops, None, mode, "random-ownargs")


NESTS = [
    {0: ([], [1, 1])},                       # a firm hires two workers in initialize()
    {0: ([1], [])},                          # ... in its factory / constructor
    {0: ([1], [0]), 1: ([], [1])},           # both phases, same and other type, grandchildren
    {0: ([], [1]), 1: ([0], [])},            # mutual: a's initialize creates b, b's factory creates a (depth bound stops it)
    {1: ([1, 0], [0])},
]


def exhaustive_nest(L, nest):
    """Every history of length L over the small alphabet with nesting types (full mode)."""
    def rec(prefix, sh, depth):
        if depth == L:
            yield Hist(prefix, None, "full", "exhaustive-nest", nest); return
        for op in concrete_ops(sh.live, sh.next):
            s2 = sh.copy()
            s2.apply(op)
            yield from rec(prefix + [op], s2, depth + 1)
    yield from rec([], Shadow(None, nest), 0)


def exhaustive_nodes(L, Lmin):
    """Every history of length Lmin+1..L over the alphabet, as its own case with ONE full query at the
    end (mode sparse): the states of all longer histories, without the intermediate queries."""
    def rec(prefix, sh, depth):
        if depth > Lmin:
            yield Hist(prefix, None, "sparse", "exhaustive-final")
        if depth == L:
            return
        for op in concrete_ops(sh.live, sh.next):
            s2 = sh.copy()
            s2.apply(op)
            yield from rec(prefix + [op], s2, depth + 1)
    yield from rec([], Shadow(), 0)


def rand_spec(rng, offcontract):
    return [(2 if offcontract and rng.chance(1, 6) else rng.below(2), rng.below(4)) for _ in range(rng.range(0, 3))]


def rand_query(rng, sh):
    dead = [i for i in sh.ever if i not in [a[0] for a in sh.live]]
    r = rng.below(10)
    if r < 4:
        c = rng.below(4)
        if c == 0 and sh.live: i = rng.choice(sh.live)[0]
        elif c == 1 and dead: i = rng.choice(dead)
        elif c == 2: i = sh.next + rng.below(3)                      # never alive (yet)
        else: i = rng.below(sh.next + 2)
        return ("q", "lookup", i)
    if r == 4: return ("q", "ids", rng.below(3))
    if r == 5: return ("q", "cnt", rng.below(3))
    if r == 6: return ("q", "cps", rng.below(3), rng.below(3))
    if r == 7: return ("q", "nx", rng.below(3), rng.below(3))
    num = rng.below(5)
    return ("q", "rnd", rng.below(2) if rng.chance(9, 10) else 2, num, [rng.choice([0, 63, 32, rng.below(64)]) for _ in range(num)])


def rand_history(rng, mode, fac=None, offcontract=False, alias=False, nest=None):
    sh, ops = Shadow(fac, nest), []
    for _ in range(rng.range(5, 40)):
        r = rng.below(12)
        if mode == "sparse" and rng.chance(1, 2):
            ops.append(rand_query(rng, sh)); continue
        if alias and rng.chance(1, 8):
            ops.append(("callerappend", rng.below(3), rng.below(sh.next + 3))); continue
        if r < 4 or not sh.live:
            op = ("create", 2 if offcontract and rng.chance(1, 8) else rng.below(2))
        elif r < 6:
            k = rng.range(1, 3)
            op = ("delete", sorted({rng.choice(sh.live)[0] if rng.chance(4, 5) else rng.below(sh.next + 3) for _ in range(k)}))
        elif r < 8:
            op = ("setstate", rng.choice(sh.live)[0] if rng.chance(9, 10) else rng.below(sh.next + 3), rng.below(3))
        elif r < 9:
            op = ("configure", rand_spec(rng, offcontract))
        elif r < 10:
            op = ("configureall", rand_spec(rng, offcontract), rng.below(6))
        elif r < 11:
            # reconfiguration to the SAME population counts (in the same type order)
            cnts = [(t, sum(1 for a in sh.live if a[3] == t)) for t in REG]
            op = ("configure", cnts) if rng.chance(1, 2) else ("configureall", cnts, rng.below(6))
        else:
            op = ("reset",)
        sh.apply(op); ops.append(op)
    return Hist(ops, fac, mode, "random-" + mode + ("-anyattr" if not is_faithful(fac) else "") + ("-offcontract" if offcontract else "") + ("-alias" if alias else "")
                + ("-nest" if nest else ""), nest)


def lookup_patterns(rng, n):
    """Lookups of the same ids before and after every clearing operation, sparse (the lookup is the only
    query between the operations): never alive / alive / no longer alive / alive again after the same count."""
    out = []
    clearers = [lambda c: ("configure", c), lambda c: ("configureall", c, 0), lambda c: ("reset",),
                lambda c: ("delete", list(range(sum(x[1] for x in c))))]
    for ca, cb in itertools.product(range(3), range(3)):
        for ci, cl in enumerate(clearers):
            if ca + cb == 0:
                continue
            cnts = [(0, ca), (1, cb)]
            tot = ca + cb
            look = [("q", "lookup", i) for i in range(2 * tot + 1)]
            ops = look[:2] + [("configure", cnts)] + look + [cl(cnts)] + look + [("configure", cnts)] + look \
                  + [("q", "cps", 0, 0), ("q", "ids", 1), cl(cnts)] + look + [("q", "cnt", 0), ("q", "nx", 1, 0)]
            out.append(Hist(ops, None, "sparse", "lookup-pattern"))
    for _ in range(n):
        sh, ops = Shadow(), []
        for _ in range(rng.range(2, 6)):
            cnts = [(t, rng.below(3)) for t in rng.shuffle(REG)]
            pre = [("q", "lookup", i) for i in rng.shuffle(list(range(sh.next + 2)))[:rng.range(1, 4)]]
            op = rng.choice(clearers)(cnts) if sh.live and rng.chance(1, 2) else ("configure", cnts)
            ops += pre + [op]; sh.apply(op)
            ops += pre + [("q", "lookup", i) for i in rng.shuffle(list(range(sh.next + 1)))[:rng.range(1, 4)]]
            if sh.live and rng.chance(1, 2):
                o2 = ("setstate", rng.choice(sh.live)[0], rng.below(3)); ops.append(o2); sh.apply(o2)
        out.append(Hist(ops, None, "sparse", "lookup-pattern"))
    return out


UNFAITHFUL = [{0: [1]}, {0: [1, 0]}, {0: [2]}, {0: [1, 0], 1: [2, 1, 0]}, {1: [0]}, {0: [0, 0, 1], 1: [1, 2]}]


def bounds(chk):
    """(L full-query exhaustive, [(fac, L)] for unfaithful factories, L7 final-query exhaustive or None, n random)"""
    if chk.quick:
        return 4, [(f, 3) for f in UNFAITHFUL[:2]], None, 150
    return 6, [(f, 5) for f in UNFAITHFUL[:2]] + [(f, 4) for f in UNFAITHFUL[2:4]], 7, 2000


def histories(chk):
    """Exhaustive over the instantiated alphabet to length L, then seeded random long histories (generator)."""
    L, anyf, L7, n = bounds(chk)
    yield from exhaustive(L)
    for fac, La in anyf:
        yield from exhaustive(La, fac, "exhaustive-anyattr")
    rng = chk.rng.fork("c14-random")
    for _ in range(n):
        yield rand_history(rng, "full")
    for _ in range(n):
        yield rand_history(rng, "sparse")
    yield from lookup_patterns(rng, n // 3)
    for _ in range(n // 3):
        yield rand_history(rng, rng.choice(["full", "sparse"]), rng.choice(UNFAITHFUL))
    for _ in range(n // 3):
        yield rand_history(rng, rng.choice(["full", "sparse"]), rng.choice(UNFAITHFUL + [None, None]), offcontract=True)
    for _ in range(n // 5):
        yield rand_history(rng, rng.choice(["full", "sparse"]), None, alias=True)
    for ni, nest in enumerate(NESTS):
        yield from exhaustive_nest((3 if ni < 3 else 2) if chk.quick else (4 if ni < 3 else 3), nest)
    for _ in range(n // 2):
        yield rand_history(rng, rng.choice(["full", "sparse"]), None, nest=rng.choice(NESTS))
    yield from exhaustive_ownargs(3 if chk.quick else 5)
    yield from exhaustive_argkinds(3 if chk.quick else 4)
    for _ in range(n // 2):
        yield rand_argkinds_history(rng, rng.choice(["full", "sparse"]))
    for _ in range(n // 3):                                   # wave 7: two models alive at once, operations interleaved
        a = rand_history(rng, rng.choice(["full", "sparse"]), None, nest=rng.choice(NESTS + [None, None]))
        b = rand_argkinds_history(rng, "full") if rng.chance(1, 2) else rand_history(rng, "full")
        yield (Hist(a.ops, a.fac, a.mode, "pair", a.nest), Hist(b.ops, b.fac, b.mode, "pair", b.nest))
    for _ in range(n // 2):
        yield rand_ownargs_history(rng, rng.choice(["full", "sparse"]))
    if L7:
        yield from exhaustive_nodes(L7, L)


CHUNK_LINES = 150000


def run(chk):
    from concurrent.futures import ThreadPoolExecutor
    quiet_bptk_logging()
    count_by_id = probe_count_by_id()
    alias = probe_alias()
    snapshot = probe_delete_snapshot()
    reserve = probe_id_reservation()
    per_instance = probe_registry_per_instance()
    chk.notes["cfg"] = {"countById": count_by_id, "idsAliased": alias["idsAliased"], "deleteArgSnapshot": snapshot,
                        "idReservedBeforeFactory": reserve[0], "idReservedBeforeInitialize": reserve[1],
                        "registryPerInstance": per_instance}
    chk.notes["alias_probe"] = alias
    ok, why = chk.prove(gen_lean(count_by_id, alias["idsAliased"], snapshot, reserve, per_instance))
    chk.cov["trusted_base"] = [
        "Lean 4.33 kernel; axioms propext, Classical.choice, Quot.sound (audited per run via #print axioms)",
        "hand-written model lean/Bptk/Core/C14.lean of Model.create_agent(s)/delete_agent(s)/configure_agents/configure/reset and the queries agent/agent_ids/agent_count/agent_count_per_state/next_agent/random_agents; tied to /repo by the correspondence run of this check and by the probes of agent_count_per_state and of agent_ids aliasing",
        "agent types/states mapped to numbers; random.random() modelled as an oracle of rationals in [0,1] (scripted values u/64 in the correspondence; the real generator in the reference check)",
    ]
    chk.assumptions = ["C14_full: agent factories return Agent objects whose agent_type is the key they were registered under and whose id is the id handed to them (for other factories C14_partial_anyattr and the three decide-checked witnesses say what remains)",
                       "agent factories are registered before the first operation and not re-registered (register_agent_factory empties the type's id list)",
                       "callers do not mutate the list returned by agent_ids (it is the registry's own list: C14_alias_witness); passing it "
                       "(or agent_type_map[T]) to delete_agents, or deleting while iterating it, IS covered (wave 4: C14_full_aliased)",
                       "random.random() returns a value in [0, 1]",
                       "re-entrant creation: create_agent may be called from factories and from initialize() (any depth: C14_full_nested); "
                       "an initialize()/factory that DELETES or reconfigures is not modelled (operations other than creation are taken to "
                       "happen outside create_agent)"]
    L, anyf, L7, _ = bounds(chk)
    chk.cov["rule"] = (f"all histories of length {L} over the alphabet {{create a, create b, delete oldest, delete newest, "
                       f"delete missing, configure, reset, set-state oldest/newest}} instantiated on the live population "
                       f"(every query compared after every operation); the same to length {'/'.join(str(l) for _, l in anyf)} with {len(anyf)} factories whose agent_type differs from the key; "
                       + (f"every history of length {L + 1}..{L7} with all queries at its end; " if L7 else "")
                       + "seeded random histories of length 5..40 in two modes (all queries after every operation / queries as sparse operations incl. "
                       "lookups of never-, no-longer- and again-alive ids and random_agents with scripted draws), deletions whose argument is the model's own list (delete_agents(agent_ids(T)), "
                       "delete_agents(agent_type_map[T]), delete_agent while iterating agent_ids(T), delete_agents(held list)); re-entrant creation "
                       "(5 tables of agent types whose factory / initialize() create 1-2 further agents, nesting depth <= 2: all histories of "
                       f"length {'3/2' if chk.quick else '4/3'} over the small alphabet, and random ones); all histories "
                       f"of length {3 if chk.quick else 5} over a 10-letter alphabet with them, and random ones; wave 7: create_agents called directly, "
                       "delete_agents with tuple / set / range / dict-keys / duplicated / reversed / float-id arguments, lookups with float ids "
                       f"(all histories of length {3 if chk.quick else 4} over a 12-letter alphabet + random), pairs of models alive at once with "
                       "interleaved operations; lookup patterns around every clearing "
                       "operation with the same agent counts, Model.configure, unfaithful factories, unregistered types, caller appends; "
                       "a case is the canonical op sequence; non-trivial = contains at least one deletion/configure/reset")
    chk.cov["exhaustive"] = False
    head = [f"cfg countById {1 if count_by_id else 0}", f"cfg idsAliased {1 if alias['idsAliased'] else 0}",
            f"cfg deleteArgSnapshot {1 if snapshot else 0}", f"cfgn {1 if reserve[0] else 0} {1 if reserve[1] else 0}"]
    st = {"spec": None, "contract": None, "off": None, "rnd": None, "n": 0, "skipped": 0, "n_rnd": 0}
    kinds, tags = {}, {}

    def compare(fut, req, real, owner):
        """diff one chunk (model replies vs real replies); keeps the first difference of each class"""
        model = fut.result()
        model = [a.rsplit("next=", 1)[0] + "next=*" if isinstance(b, str) and b.endswith("next=*") and "next=" in a else a
                 for a, b in zip(model, real)] + model[len(real):]
        alld = [i for i, (a, b) in enumerate(zip(model, real)) if b is not None and a != b]
        if len(model) != len(real):
            alld.append(min(len(model), len(real)))
        for i in alld:
            h = owner[i] if i < len(owner) else None
            info = {"history": h.replay() if h is not None else None, "request": req[i] if i < len(req) else None,
                    "request_context": req[max(0, i - 12):i + 1],
                    "model": model[i] if i < len(model) else None, "impl": real[i] if i < len(real) else None}
            # WHICH agents random_agents returns is not fixed by the statement (only: live ids of the type, min(num, n) of
            # them — checked by the reference on every such query): a different but valid use of random() is reported only
            cls = "rnd" if i < len(req) and req[i].startswith("q rnd") else ("contract" if h is None or h.contract() else "off")
            if st[cls] is None:
                st[cls] = info

    pending = None
    req, real, owner = list(head), ["ok"] * len(head), [None] * len(head)
    with ThreadPoolExecutor(max_workers=1) as ex:
        def flush():
            nonlocal pending, req, real, owner
            if pending is not None:
                compare(*pending)
            pending = (ex.submit(drive, "C14", req), req, real, owner)
            req, real, owner = list(head), ["ok"] * len(head), [None] * len(head)
        def results(stream):
            """(history, result, partner) — pairs are run interleaved, two models alive at once"""
            for item in stream:
                if isinstance(item, tuple):
                    ra, rb = run_pair(item[0], item[1])
                    yield item[0], ra, item[1]
                    yield item[1], rb, item[0]
                else:
                    yield item, run_history(item), None
        for hi, (h, (rq, rl, viols), partner) in enumerate(results(histories(chk))):
            req += rq; real += rl; owner += [h] * len(rq)
            for op in h.ops:
                kk = op[0] + ("-" + op[1] if op[0] == "q" else "")
                if op[0] == "delete":
                    kk += ":" + (op[2] if len(op) > 2 else ("delete_agent" if len(op[1]) == 1 else "list"))
                kinds[kk] = kinds.get(kk, 0) + 1
                if kk == "q-rnd":
                    st["n_rnd"] += 1
            if partner is not None:
                kinds["two-models-interleaved(histories)"] = kinds.get("two-models-interleaved(histories)", 0) + 1
            if h.nest:
                kinds["history-with-re-entrant-creation"] = kinds.get("history-with-re-entrant-creation", 0) + 1
            st["skipped"] += sum(1 for x in rl if x is None)
            tags[h.tag] = tags.get(h.tag, 0) + 1
            st["n"] += 1
            chk.case(tuple(h.lines()) + (h.mode,), nontrivial=any(o[0] in ("delete", "configure", "configureall", "reset") for o in h.ops),
                     sample=h.lines() if len(h.ops) > 5 and h.tag.startswith("random") and hi % 7 == 0 else None)
            if viols and st["spec"] is None:
                st["spec"] = (h, viols[0], partner)
            if viols and partner is not None and st.get("spec_pair") is None:
                st["spec_pair"] = (h, viols[0], partner)
            if len(req) >= CHUNK_LINES:
                flush()
        flush()
        compare(*pending)
    chk.cov["op_distribution"] = kinds
    chk.notes["coverage_rows"] = dict(sorted(kinds.items()), histories_by_stream=dict(sorted(tags.items())))
    chk.cov["history_kinds"] = tags
    chk.cov["exhaustive_histories"] = tags.get("exhaustive", 0)
    chk.cov["exhaustive_anyattr_histories"] = tags.get("exhaustive-anyattr", 0)
    chk.cov["exhaustive_final_query_histories"] = tags.get("exhaustive-final", 0)
    chk.cov["random_agents_scripted"] = {"queries": st["n_rnd"], "not_comparable_oracle_bypassed": st["skipped"],
                                         "model_matches_impl": st["rnd"] is None}
    if st["rnd"] is not None:
        chk.cov["random_agents_scripted"]["first_difference"] = st["rnd"]
    chk.cov["traces_validated_against_impl"] = st["n"]
    chk.notes["offcontract_model_matches_impl"] = st["off"] is None
    if st["off"] is not None:
        # behaviour under a broken factory contract / unregistered type / caller mutation is not fixed by the statement:
        # reported, never a finding
        chk.notes["offcontract_first_difference"] = st["off"]
    # witnesses of the factory-contract assumption, replayed on the real code (documentation of the assumption, not a defect)
    wit = {}
    for name, fac, ops, expect in ANYATTR_WITNESSES:
        h = Hist(ops, fac, "sparse", "witness")
        rq, rl, _ = run_history(h)
        md = drive("C14", head + rq)
        wit[name] = {"fac": fac, "ops": [op_line(o) for o in ops], "impl": rl[-1], "model_agrees": md[-1] == rl[-1],
                     "as_stated_in_Lean": (expect is None or expect == rl[-1])}
    chk.notes["anyattr_witnesses_on_real_code"] = wit
    # --- decide
    first_spec_fail = st["spec"]
    if first_spec_fail is not None and not run_history(first_spec_fail[0])[2] and st.get("spec_pair") is not None:
        first_spec_fail = st["spec_pair"]          # not reproducible alone: state leaking between models, show it on a pair
    if first_spec_fail is not None and first_spec_fail[2] is not None and not run_history(first_spec_fail[0])[2]:
        h, (idx, v), partner = first_spec_fail        # fails only with a second model alive: keep the pair
        h, partner = shrink_pair(h, partner, v[0][0])
        v = (run_pair(h, partner)[0][2] or [(0, v)])[0][1]
        chk.add_finding(v[0][0], f"after {h.lines()} interleaved with a second model ({partner.lines()}): {v[0][1]}",
                        {"pair": [h.replay(), partner.replay()], "violations": v})
    elif first_spec_fail is not None:
        h, (idx, v), _ = first_spec_fail
        key0 = v[0][0]
        small = shrink(Hist(h.ops[:idx + 1], h.fac, h.mode, h.tag, h.nest), lambda c: any(x[0] == key0 for _, vs in run_history(c)[2] for x in vs))
        _, _, vv = run_history(small)
        rp = small.replay(); rp["violations"] = vv[0][1]
        chk.add_finding(key0, f"after {small.lines()}: {vv[0][1][0][1]}", rp)
    if not (reserve[0] and reserve[1]) and first_spec_fail is None:
        chk.add_finding("ids-not-unique", f"probe: next_agent_id is incremented before the factory call: {reserve[0]}, before initialize(): {reserve[1]}; "
                                          "an agent created from inside that window gets the id of the agent being created",
                        {"ops": ["create 0"], "nest": {"0": [[1], [1]]}, "mode": "full"})
    if not per_instance and first_spec_fail is None:
        chk.add_finding("agent_ids", "probe: two models alive at once share registry state (create in one shows up in the other)",
                        {"pair": [{"ops": ["create 0"], "mode": "full"}, {"ops": [], "mode": "full"}]})
    if not snapshot and first_spec_fail is None:
        chk.add_finding("agent_ids", "probe: create a x4, b; delete_agents(agent_ids('a')): dead ids stay listed / live agents wrong",
                        {"ops": ["create 0"] * 4 + ["create 1", "deleteown 0 ids"], "mode": "full"})
    if not count_by_id and first_spec_fail is None:
        chk.add_finding("agent_count_per_state", "probe: create a x4, delete 1, set-state 3 s1: agent_count_per_state wrong or raises",
                        {"ops": ["create 0"] * 4 + ["delete 1", "setstate 3 1"]})
    if not ok:
        chk.add_finding("obligation", f"proof obligations of C14 no longer check: {why}",
                        {"theorem": "Bptk.C14.Gen.holds / Bptk.Props.C14", "detail": why}, found_input=False)
    if st["contract"] is not None and first_spec_fail is None:
        d = st["contract"]
        chk.add_finding("correspondence", f"model and implementation disagree: request {d['request']!r}",
                        dict(d, correspondence="Drive/C14 vs BPTK_Py.Model"), found_input=False)


def replay(path):
    quiet_bptk_logging()
    r = json.load(open(path))["replay"]
    if r.get("pair"):
        hs = []
        for x in r["pair"]:
            variants = x.get("variants") or [0] * len(x.get("ops", []))
            ops = [parse_line(l, v) for l, v in zip(x.get("ops", []), variants)]
            kinds = x.get("kinds") or [None] * len(ops)
            ops = [o + (kd,) if kd else o for o, kd in zip(ops, kinds)]
            fac = {int(k): v for k, v in (x.get("fac") or {}).items()} or None
            nest = {int(k): (list(v[0]), list(v[1])) for k, v in (x.get("nest") or {}).items()} or None
            hs.append(Hist(ops, fac, x.get("mode", "full"), "replay", nest))
        ra, rb = run_pair(hs[0], hs[1])
        print("pair of models, operations interleaved:", hs[0].lines(), "|", hs[1].lines())
        print("violations on the current tree:", ra[2], rb[2])
        return 1 if (ra[2] or rb[2]) else 0
    if "history" in r and r.get("history"):
        r = r["history"]
    variants = r.get("variants") or [0] * len(r.get("ops", []))
    ops = [parse_line(l, v) for l, v in zip(r.get("ops", []), variants)]
    kinds = r.get("kinds") or [None] * len(ops)
    ops = [o + (kd,) if kd else o for o, kd in zip(ops, kinds)]
    fac = {int(k): v for k, v in (r.get("fac") or {}).items()} or None
    nest = {int(k): (list(v[0]), list(v[1])) for k, v in (r.get("nest") or {}).items()} or None
    _, _, viols = run_history(Hist(ops, fac, r.get("mode", "full"), "replay", nest))
    print("fac:", fac, "nest:", nest, "mode:", r.get("mode", "full"))
    print("ops:", r.get("ops"))
    print("violations on the current tree:", viols)
    return 1 if viols else 0
