"""C14 — agent registry consistency.  Probe + Gen obligations + correspondence (exhaustive short
histories, random long ones) + independent reference check of the property on the real code."""
import itertools
from common import *

TYPES = ["a", "b"]
STATES = ["active", "s1", "s2"]


def new_model():
    from BPTK_Py import Model, Agent, DataCollector, SimultaneousScheduler
    m = Model(1, 3, 1, name="c14", scheduler=SimultaneousScheduler(), data_collector=DataCollector())
    for t in TYPES:
        m.register_agent_factory(t, (lambda tt: (lambda aid, model, props: Agent(aid, model, props, tt)))(t))
    return m


# ---- operations: ("create", ty) ("delete", [ids]) ("configure", [(ty,n)..]) ("reset",) ("setstate", id, st)
def apply_real(m, op):
    k = op[0]
    if k == "create":
        m.create_agent(TYPES[op[1]], {})
    elif k == "delete":
        if len(op[1]) == 1:
            m.delete_agent(op[1][0])
        else:
            m.delete_agents(list(op[1]))
    elif k == "configure":
        m.configure_agents([{"name": TYPES[t], "count": n} for t, n in op[1]])
    elif k == "reset":
        m.reset()
    elif k == "setstate":
        a = m.agent(op[1])
        if a is not None:
            a.state = STATES[op[2]]


def op_line(op):
    k = op[0]
    if k == "create":
        return f"create {op[1]}"
    if k == "delete":
        return "delete " + (",".join(map(str, op[1])) or "-")
    if k == "configure":
        return "configure " + (",".join(f"{t}:{n}" for t, n in op[1]) or "-")
    if k == "reset":
        return "reset"
    return f"setstate {op[1]} {op[2]}"


def query_real(m):
    """Canonical line, same format as Drive/C14.lean `query`."""
    def guard(f):
        try:
            return str(f())
        except Exception:
            return "ERR"
    nxt = m.next_agent_id
    ids = ";".join(f"ids{t}=" + ",".join(str(i) for i in m.agent_ids(TYPES[t])) for t in range(2))
    cnt = ";".join(f"cnt{t}={m.agent_count(TYPES[t])}" for t in range(2))
    cps = ";".join(f"cps{t}.{s}=" + guard(lambda: m.agent_count_per_state(TYPES[t], STATES[s]))
                   for t in range(2) for s in range(3))
    lk = []
    for i in range(nxt + 2):
        a = m.agent(i)
        lk.append(f"a{i}=none" if a is None else f"a{i}={a.id}.{TYPES.index(a.agent_type)}.{STATES.index(a.state)}")
    nx = []
    for t in range(2):
        for s in range(3):
            a = m.next_agent(TYPES[t], STATES[s])
            nx.append(f"nx{t}.{s}=" + ("none" if a is None else str(a.id)))
    return f"{ids};{cnt};{cps};{';'.join(lk)};{';'.join(nx)};next={nxt}"


class Shadow:
    """Reference semantics of the property, independent of the Lean model: the live population."""
    def __init__(self):
        self.live = []      # [id, ty, st] in creation order
        self.next = 0
        self.ever = []
    def apply(self, op):
        k = op[0]
        if k == "create":
            self.live.append([self.next, op[1], 0]); self.ever.append(self.next); self.next += 1
        elif k == "delete":
            self.live = [a for a in self.live if a[0] not in op[1]]
        elif k == "configure":
            self.live = []
            for t, n in op[1]:
                for _ in range(n):
                    self.apply(("create", t))
        elif k == "reset":
            self.live = []
        elif k == "setstate":
            for a in self.live:
                if a[0] == op[1]:
                    a[2] = op[2]


def spec_violations(m, sh, seen_ids):
    """Check the real model's queries against the statement of C14. Returns list of (key, text)."""
    out = []
    ids_live = [a.id for a in m.agents]
    if len(set(ids_live)) != len(ids_live):
        out.append(("ids-not-unique", f"live ids {ids_live}"))
    if sorted(ids_live) != sorted(a[0] for a in sh.live):
        out.append(("live-set", f"live ids {ids_live} expected {[a[0] for a in sh.live]}"))
    for i in range(m.next_agent_id + 2):
        a = m.agent(i)
        exp = next((x for x in sh.live if x[0] == i), None)
        if (a is None) != (exp is None) or (a is not None and (a.id != i or TYPES.index(a.agent_type) != exp[1] or STATES.index(a.state) != exp[2])):
            out.append(("lookup", f"agent({i}) -> {None if a is None else (a.id, a.agent_type, a.state)} expected {exp}"))
    for t in range(2):
        exp_ids = [x[0] for x in sh.live if x[1] == t]
        if list(m.agent_ids(TYPES[t])) != exp_ids:
            out.append(("agent_ids", f"agent_ids({TYPES[t]}) = {m.agent_ids(TYPES[t])} expected {exp_ids}"))
        if m.agent_count(TYPES[t]) != len(exp_ids):
            out.append(("agent_count", f"agent_count({TYPES[t]}) = {m.agent_count(TYPES[t])} expected {len(exp_ids)}"))
        for s in range(3):
            exp = sum(1 for x in sh.live if x[1] == t and x[2] == s)
            try:
                got = m.agent_count_per_state(TYPES[t], STATES[s])
            except Exception as e:
                got = f"raises {type(e).__name__}"
            if got != exp:
                out.append(("agent_count_per_state", f"agent_count_per_state({TYPES[t]},{STATES[s]}) = {got} expected {exp}"))
    for i in ids_live:
        if i in seen_ids and i not in [a[0] for a in sh.live]:
            out.append(("id-reused", f"id {i}"))
    return out


def concrete_ops(shadow_live, nxt):
    """The small alphabet, instantiated on the current live population."""
    ops = [("create", 0), ("create", 1), ("delete", [nxt + 5]), ("configure", [(0, 2), (1, 1)]), ("reset",)]
    if shadow_live:
        o, n = shadow_live[0][0], shadow_live[-1][0]
        ops += [("delete", [o]), ("setstate", o, 1)]
        if n != o:
            ops += [("delete", [n]), ("setstate", n, 2)]
    return ops


def run_history(ops):
    """Real code on `ops`; returns (query lines after each op, spec violations with index)."""
    m, sh = new_model(), Shadow()
    lines, viols = [], []
    for i, op in enumerate(ops):
        apply_real(m, op)
        sh.apply(op)
        lines.append(query_real(m))
        v = spec_violations(m, sh, sh.ever)
        if v and not viols:
            viols = [(i, v)]
    return lines, viols


def shrink(ops, fails):
    ops = list(ops)
    changed = True
    while changed:
        changed = False
        for i in range(len(ops)):
            cand = ops[:i] + ops[i + 1:]
            if cand and fails(cand):
                ops = cand
                changed = True
                break
    return ops


def probe_count_by_id():
    m = new_model()
    for _ in range(4):
        m.create_agent("a", {})
    m.delete_agent(1)
    m.agent(3).state = "s1"
    try:
        return m.agent_count_per_state("a", "active") == 2 and m.agent_count_per_state("a", "s1") == 1
    except Exception:
        return False


def gen_lean(count_by_id):
    b = "true" if count_by_id else "false"
    body = (f"theorem holds : C14_full cfg := C14_full_of_good cfg (by decide)\n#print axioms holds\n" if count_by_id else
            f"theorem violated : ¬ C14_full cfg := C14_witness_positional cfg (by decide)\n#print axioms violated\n"
            f"#print axioms C14_partial\n")
    return ("import Bptk.Props.C14\n/-! GENERATED by harness/props/c14.py from /repo on every run — do not edit. -/\n"
            "namespace Bptk.C14.Gen\n"
            f"def cfg : Cfg := {{ countById := {b} }}\n" + body + "end Bptk.C14.Gen\n")


def histories(chk):
    """Exhaustive over the instantiated alphabet to length L, then seeded random long histories."""
    L = 4 if chk.quick else 6
    out = []
    def rec(prefix, sh, depth):
        if prefix:
            out.append(list(prefix))
        if depth == L:
            return
        for op in concrete_ops(sh.live, sh.next):
            s2 = Shadow(); s2.live = [list(a) for a in sh.live]; s2.next = sh.next; s2.ever = list(sh.ever)
            s2.apply(op)
            rec(prefix + [op], s2, depth + 1)
    # only maximal histories are needed: queries are compared after every op
    def rec_max(prefix, sh, depth):
        if depth == L:
            out.append(list(prefix)); return
        for op in concrete_ops(sh.live, sh.next):
            s2 = Shadow(); s2.live = [list(a) for a in sh.live]; s2.next = sh.next; s2.ever = list(sh.ever)
            s2.apply(op)
            rec_max(prefix + [op], s2, depth + 1)
    rec_max([], Shadow(), 0)
    n_exh = len(out)
    rng = chk.rng.fork("c14-random")
    for _ in range(150 if chk.quick else 2000):
        sh, ops = Shadow(), []
        for _ in range(rng.range(5, 40)):
            r = rng.below(10)
            if r < 4 or not sh.live:
                op = ("create", rng.below(2))
            elif r < 6:
                k = rng.range(1, 3)
                op = ("delete", sorted({rng.choice(sh.live)[0] if rng.chance(4, 5) else rng.below(sh.next + 3) for _ in range(k)}))
            elif r < 8:
                op = ("setstate", rng.choice(sh.live)[0] if rng.chance(9, 10) else rng.below(sh.next + 3), rng.below(3))
            elif r < 9:
                op = ("configure", [(rng.below(2), rng.below(4)) for _ in range(rng.range(0, 3))])
            else:
                op = ("reset",)
            sh.apply(op); ops.append(op)
        out.append(ops)
    return out, n_exh, L


def run(chk):
    quiet_bptk_logging()
    count_by_id = probe_count_by_id()
    chk.notes["cfg"] = {"countById": count_by_id}
    ok, why = chk.prove(gen_lean(count_by_id))
    chk.cov["trusted_base"] = [
        "Lean 4.33 kernel; axioms propext, Classical.choice, Quot.sound (audited per run via #print axioms)",
        "hand-written model lean/Bptk/Core/C14.lean of Model.create_agent(s)/delete_agent(s)/configure_agents/reset and the queries; tied to /repo by the correspondence run of this check and by the probe of agent_count_per_state",
        "agent types/states mapped to numbers; factories create agents whose agent_type equals the registered type",
    ]
    chk.assumptions = ["agent factories return Agent objects whose agent_type is the type they were registered for",
                       "every agent type used is registered before the first operation"]
    hs, n_exh, L = histories(chk)
    chk.cov["rule"] = (f"all histories of length {L} over the alphabet {{create a, create b, delete oldest, delete newest, "
                       f"delete missing, configure, reset, set-state oldest/newest}} instantiated on the live population "
                       f"({n_exh} histories, queries compared after every operation), plus seeded random histories of length 5..40; "
                       "a case is the canonical op sequence; non-trivial = contains at least one deletion/configure/reset")
    chk.cov["exhaustive_histories"] = n_exh
    chk.cov["exhaustive"] = False
    # real side
    req, real = [f"cfg countById {1 if count_by_id else 0}"], ["ok"]
    first_spec_fail = None
    kinds = {}
    for ops in hs:
        lines, viols = run_history(ops)
        req.append("new"); real.append("ok")
        for op, ln in zip(ops, lines):
            req.append(op_line(op)); real.append("ok")
            req.append("query"); real.append(ln)
            kinds[op[0]] = kinds.get(op[0], 0) + 1
        chk.case(tuple(map(op_line, ops)), nontrivial=any(o[0] in ("delete", "configure", "reset") for o in ops),
                 sample=[op_line(o) for o in ops] if len(ops) > 5 else None)
        if viols and first_spec_fail is None:
            first_spec_fail = (ops, viols[0])
    chk.cov["op_distribution"] = kinds
    if not chk.cov["samples"]:
        chk.cov["samples"].append([op_line(o) for o in hs[0]])
    model = drive("C14", req)
    chk.cov["traces_validated_against_impl"] = len(hs)
    diff = next((i for i, (a, b) in enumerate(zip(model, real)) if a != b), None)
    if diff is None and len(model) != len(real):
        diff = min(len(model), len(real))
    # --- decide
    if first_spec_fail is not None:
        ops, (idx, v) = first_spec_fail
        key0 = v[0][0]
        small = shrink(ops[:idx + 1], lambda c: any(x[0] == key0 for _, vs in run_history(c)[1] for x in vs))
        _, vv = run_history(small)
        chk.add_finding(key0, f"after {[op_line(o) for o in small]}: {vv[0][1][0][1]}",
                        {"ops": [op_line(o) for o in small], "violations": vv[0][1]})
    if not count_by_id and first_spec_fail is None:
        chk.add_finding("agent_count_per_state", "probe: create a x4, delete 1, set-state 3 s1: agent_count_per_state wrong or raises",
                        {"ops": ["create 0"] * 4 + ["delete 1", "setstate 3 1"]})
    if not ok:
        chk.add_finding("obligation", f"proof obligations of C14 no longer check: {why}",
                        {"theorem": "Bptk.C14.Gen.holds / Bptk.Props.C14", "detail": why}, found_input=False)
    if diff is not None and first_spec_fail is None:
        # locate the history of the differing line
        chk.add_finding("correspondence", f"model and implementation disagree at protocol line {diff}: request {req[diff]!r}",
                        {"correspondence": "Drive/C14 vs BPTK_Py.Model", "line": diff, "request_context": req[max(0, diff - 12):diff + 1],
                         "model": model[diff] if diff < len(model) else None, "impl": real[diff] if diff < len(real) else None},
                        found_input=False)


def replay(path):
    import json
    quiet_bptk_logging()
    r = json.load(open(path))["replay"]
    ops = []
    for l in r.get("ops", []):
        p = l.split()
        if p[0] == "create": ops.append(("create", int(p[1])))
        elif p[0] == "delete": ops.append(("delete", [] if p[1] == "-" else [int(x) for x in p[1].split(",")]))
        elif p[0] == "configure": ops.append(("configure", [] if p[1] == "-" else [tuple(map(int, x.split(":"))) for x in p[1].split(",")]))
        elif p[0] == "reset": ops.append(("reset",))
        else: ops.append(("setstate", int(p[1]), int(p[2])))
    lines, viols = run_history(ops)
    print("ops:", r.get("ops"))
    print("violations on the current tree:", viols)
    return 1 if viols else 0
